(* C16 - model of class Bound of tf_pwa/variable.py (definitions only; lemmas in Bound_proofs.v).

   Bound(a, b, func=None) maps the fit variable x (any real) to the physical parameter y:
     both bounds :  f = "(b-a)*(sin(x)+1)/2+a"     -> bx2y2
     lower only  :  f = "a-1+sqrt(x**2+1)"         -> bx2y_lo
     upper only  :  f = "b+1-sqrt(x**2+1)"         -> bx2y_up
     none        :  f = "x"                        (identity, not modelled)
   get_func (variable.py:1073) builds with sympy  df = diff(f,x), df2 = diff(df,x) and
   inv = solve(f - y, x)[-1].  Observed with sympy 1.14 (independent of the numeric a, b):
     both bounds : solve = [pi - asin(u), asin(u)],  [-1] = asin(u),  u = (2y-a-b)/(b-a)
     lower only  : solve = [-sqrt(..), +sqrt(..)],   [-1] = +sqrt((y-a+1)^2-1)
     upper only  : solve = [-sqrt(..), +sqrt(..)],   [-1] = +sqrt((y-b-1)^2-1)
   so the non-negative root is the one picked for BOTH one-sided kinds.
   get_y2x (variable.py:1104) first clamps y ("if lower is not None and val < lower: val = lower
   elif upper is not None and val > upper: val = upper"), evaluates inv and returns the real part;
   Re asin(u) = -pi/2 for u <= -1 and +pi/2 for u >= 1, which is what [basin] returns there.
   The conditionals are written with Rlt_dec / Rle_dec so that Base/Tie.v's [rclose] decides them. *)
From Coq Require Import Reals.
Open Scope R_scope.

(* ---- x -> y : get_x2y ---- *)
Definition bx2y2 (a b x : R) : R := (b - a) * (sin x + 1) / 2 + a.
Definition bx2y_lo (a x : R) : R := a - 1 + sqrt (x ^ 2 + 1).
Definition bx2y_up (b x : R) : R := b + 1 - sqrt (x ^ 2 + 1).

(* ---- dy/dx : get_dydx (sympy diff of f) ---- *)
Definition bdydx2 (a b x : R) : R := (b - a) * cos x / 2.
Definition bdydx_lo (x : R) : R := x / sqrt (x ^ 2 + 1).
Definition bdydx_up (x : R) : R := - x / sqrt (x ^ 2 + 1).

(* ---- d2y/dx2 : get_d2ydx2; sympy prints -x**2/(x**2+1)**(3/2) + 1/sqrt(x**2+1) ---- *)
Definition bd2y2 (a b x : R) : R := - (b - a) * sin x / 2.
Definition bd2y_lo (x : R) : R :=
  1 / sqrt (x ^ 2 + 1) - x ^ 2 / (sqrt (x ^ 2 + 1) * (x ^ 2 + 1)).
Definition bd2y_up (x : R) : R := - bd2y_lo x.

(* ---- clamping done by get_y2x before the inverse is applied ---- *)
Definition bclamp2 (a b y : R) : R :=
  if Rlt_dec y a then a else if Rlt_dec b y then b else y.
Definition bclamp_lo (a y : R) : R := if Rlt_dec y a then a else y.
Definition bclamp_up (b y : R) : R := if Rlt_dec b y then b else y.

(* real part of the principal arcsine, written with atan so that Coq-Interval can evaluate it *)
Definition basin (u : R) : R :=
  if Rle_dec u (-1) then - PI / 2
  else if Rle_dec 1 u then PI / 2
  else atan (u / sqrt (1 - u ^ 2)).

(* ---- y -> x : get_y2x = Re (inv (clamp y)) ---- *)
Definition by2x2 (a b y : R) : R := basin ((2 * bclamp2 a b y - a - b) / (b - a)).
Definition by2x_lo (a y : R) : R := sqrt ((bclamp_lo a y - a + 1) ^ 2 - 1).
Definition by2x_up (b y : R) : R := sqrt ((bclamp_up b y - b - 1) ^ 2 - 1).
