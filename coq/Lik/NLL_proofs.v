(* C06 - lemmas about the likelihood model Lik/NLL.v *)
From Coq Require Import Reals List Lra Lia Permutation.
From TFV Require Import Base.RBase Base.RSum Base.RSum_proofs Lik.NLL.
Import ListNotations.
Open Scope R_scope.

(* ---- clip_log ---- *)

Lemma clip_log_hi x : eps_clip < x -> clip_log x = ln x.
Proof. intros H. unfold clip_log. destruct (Rlt_dec eps_clip x); [reflexivity | contradiction]. Qed.

Lemma clip_log_lo x : x <= eps_clip ->
  clip_log x = ln eps_clip + (x - eps_clip) / eps_clip - ((x - eps_clip) / eps_clip) * ((x - eps_clip) / eps_clip) / 2.
Proof. intros H. unfold clip_log. destruct (Rlt_dec eps_clip x); [lra | reflexivity]. Qed.

Lemma map_clip_log_hi f : Forall (fun x => eps_clip < x) f -> map clip_log f = map ln f.
Proof. induction 1 as [|x f Hx _ IH]; cbn [map]; [reflexivity|]. rewrite IH, (clip_log_hi x Hx). reflexivity. Qed.

Lemma rmin_Rmin a b : rmin a b = Rmin a b.
Proof.
  unfold rmin, Rmin. destruct (Rle_dec a b) as [H|H].
  - rewrite Rabs_left1 by lra. lra.
  - rewrite Rabs_right by lra. lra.
Qed.

(* the branch-free form is the same function, for every x *)
Lemma clip_log_abs_eq x : clip_log x = clip_log_abs x.
Proof.
  unfold clip_log, clip_log_abs. rewrite rmax_Rmax, rmin_Rmin.
  destruct (Rlt_dec eps_clip x) as [H|H].
  - rewrite Rmax_left by lra. rewrite Rmin_right by lra.
    replace (eps_clip - eps_clip) with 0 by lra. unfold Rdiv. rewrite !Rmult_0_l. lra.
  - rewrite Rmax_right by lra. rewrite Rmin_left by lra. reflexivity.
Qed.

Lemma map_clip_log_abs f : map clip_log f = map clip_log_abs f.
Proof. apply map_ext. exact clip_log_abs_eq. Qed.

(* ---- list closeness ---- *)

Lemma sqdist_nonneg a b : 0 <= sqdist a b.
Proof.
  revert b. induction a as [|x a IH]; intros [|y b]; cbn [sqdist]; try lra.
  specialize (IH b). pose proof (Rle_0_sqr (x - y)) as Q. unfold Rsqr in Q. lra.
Qed.

Lemma sqdist_close t a b : 0 <= t -> sqdist a b <= t * t -> length a = length b -> close_list t a b.
Proof.
  intros Ht. revert b. induction a as [|x a IH]; intros [|y b] H L; cbn [length] in L; try discriminate.
  - exact I.
  - cbn [sqdist] in H. cbn [close_list]. pose proof (sqdist_nonneg a b) as P. split.
    + assert (Q : (x - y) * (x - y) <= t * t) by lra. apply Rabs_le. split; nra.
    + pose proof (Rle_0_sqr (x - y)) as Q. unfold Rsqr in Q. apply IH; [lra | injection L; auto].
Qed.

Lemma shortfall_nonneg c l : 0 <= shortfall c l.
Proof.
  unfold shortfall. induction l as [|x l IH]; cbn [map rsum]; [lra|].
  rewrite rmax_Rmax. pose proof (Rmax_l 0 (2 * c - x)). lra.
Qed.

Lemma shortfall_gt c l : 0 < c -> shortfall c l <= c / 2 -> Forall (fun x => c < x) l.
Proof.
  intros Hc. induction l as [|x l IH]; intros H; [constructor|].
  unfold shortfall in H. cbn [map rsum] in H. fold (shortfall c l) in H.
  pose proof (shortfall_nonneg c l) as P.
  rewrite rmax_Rmax in H. pose proof (Rmax_r 0 (2 * c - x)) as Q. pose proof (Rmax_l 0 (2 * c - x)) as Q0.
  constructor; [lra|]. apply IH. lra.
Qed.

Lemma map_clip_log_shortfall f : shortfall eps_clip f <= eps_clip / 2 -> map clip_log f = map ln f.
Proof. intros H. apply map_clip_log_hi, shortfall_gt; [unfold eps_clip; lra | exact H]. Qed.
