(* C06 - lemmas about the likelihood model Lik/NLL.v *)
From Coq Require Import Reals List Lra Lia Permutation.
From TFV Require Import Base.RSum Base.RSum_proofs Lik.NLL.
Import ListNotations.
Open Scope R_scope.

(* ---- clip_log ---- *)

Lemma clip_log_hi x : eps_clip < x -> clip_log x = ln x.
Proof. intros H. unfold clip_log. destruct (Rlt_dec eps_clip x); [reflexivity | contradiction]. Qed.

Lemma clip_log_lo x : x <= eps_clip ->
  clip_log x = ln eps_clip + (x - eps_clip) / eps_clip - ((x - eps_clip) / eps_clip) * ((x - eps_clip) / eps_clip) / 2.
Proof. intros H. unfold clip_log. destruct (Rlt_dec eps_clip x); [lra | reflexivity]. Qed.

Lemma map_clip_log_hi f : Forall (fun x => eps_clip < x) f -> map clip_log f = map ln f.
Proof. induction 1 as [|x f Hx _ IH]; cbn [map]; [reflexivity|]. rewrite IH, (clip_log_hi x Hx). reflexivity. Qed.
