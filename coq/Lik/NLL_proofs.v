(* C06 - lemmas about the likelihood model Lik/NLL.v *)
From Coq Require Import Reals List Lra Lia Permutation.
From TFV Require Import Base.RBase Base.RSum Base.RSum_proofs Lik.NLL.
Import ListNotations.
Open Scope R_scope.

(* ---- clip_log ---- *)

Lemma clip_log_hi x : eps_clip < x -> clip_log x = ln x.
Proof. intros H. unfold clip_log. destruct (Rlt_dec eps_clip x); [reflexivity | contradiction]. Qed.

Lemma clip_log_lo x : x <= eps_clip ->
  clip_log x = ln eps_clip + (x - eps_clip) / eps_clip - ((x - eps_clip) / eps_clip) * ((x - eps_clip) / eps_clip) / 2.
Proof. intros H. unfold clip_log. destruct (Rlt_dec eps_clip x); [lra | reflexivity]. Qed.

Lemma map_clip_log_hi f : Forall (fun x => eps_clip < x) f -> map clip_log f = map ln f.
Proof. induction 1 as [|x f Hx _ IH]; cbn [map]; [reflexivity|]. rewrite IH, (clip_log_hi x Hx). reflexivity. Qed.

Lemma rmin_Rmin a b : rmin a b = Rmin a b.
Proof.
  unfold rmin, Rmin. destruct (Rle_dec a b) as [H|H].
  - rewrite Rabs_left1 by lra. lra.
  - rewrite Rabs_right by lra. lra.
Qed.

(* the branch-free form is the same function, for every x *)
Lemma clip_log_abs_eq x : clip_log x = clip_log_abs x.
Proof.
  unfold clip_log, clip_log_abs. rewrite rmax_Rmax, rmin_Rmin.
  destruct (Rlt_dec eps_clip x) as [H|H].
  - rewrite Rmax_left by lra. rewrite Rmin_right by lra.
    replace (eps_clip - eps_clip) with 0 by lra. unfold Rdiv. rewrite !Rmult_0_l. lra.
  - rewrite Rmax_right by lra. rewrite Rmin_left by lra. reflexivity.
Qed.

Lemma map_clip_log_abs f : map clip_log f = map clip_log_abs f.
Proof. apply map_ext. exact clip_log_abs_eq. Qed.

(* ---- list closeness ---- *)

Lemma sqdist_nonneg a b : 0 <= sqdist a b.
Proof.
  revert b. induction a as [|x a IH]; intros [|y b]; cbn [sqdist]; try lra.
  specialize (IH b). pose proof (Rle_0_sqr (x - y)) as Q. unfold Rsqr in Q. lra.
Qed.

Lemma sqdist_close t a b : 0 <= t -> sqdist a b <= t * t -> length a = length b -> close_list t a b.
Proof.
  intros Ht. revert b. induction a as [|x a IH]; intros [|y b] H L; cbn [length] in L; try discriminate.
  - exact I.
  - cbn [sqdist] in H. cbn [close_list]. pose proof (sqdist_nonneg a b) as P. split.
    + assert (Q : (x - y) * (x - y) <= t * t) by lra. apply Rabs_le. split; nra.
    + pose proof (Rle_0_sqr (x - y)) as Q. unfold Rsqr in Q. apply IH; [lra | injection L; auto].
Qed.

Lemma shortfall_nonneg c l : 0 <= shortfall c l.
Proof.
  unfold shortfall. induction l as [|x l IH]; cbn [map rsum]; [lra|].
  rewrite rmax_Rmax. pose proof (Rmax_l 0 (2 * c - x)). lra.
Qed.

Lemma shortfall_gt c l : 0 < c -> shortfall c l <= c / 2 -> Forall (fun x => c < x) l.
Proof.
  intros Hc. induction l as [|x l IH]; intros H; [constructor|].
  unfold shortfall in H. cbn [map rsum] in H. fold (shortfall c l) in H.
  pose proof (shortfall_nonneg c l) as P.
  rewrite rmax_Rmax in H. pose proof (Rmax_r 0 (2 * c - x)) as Q. pose proof (Rmax_l 0 (2 * c - x)) as Q0.
  constructor; [lra|]. apply IH. lra.
Qed.

Lemma map_clip_log_shortfall f : shortfall eps_clip f <= eps_clip / 2 -> map clip_log f = map ln f.
Proof. intros H. apply map_clip_log_hi, shortfall_gt; [unfold eps_clip; lra | exact H]. Qed.

(* one element possibly in the clip region (kept in the branch-free form), the rest certified above the threshold *)
Lemma map_clip_log_head x f : shortfall eps_clip f <= eps_clip / 2 ->
  map clip_log (x :: f) = clip_log_abs x :: map ln f.
Proof. intros H. cbn [map]. rewrite clip_log_abs_eq, (map_clip_log_shortfall f H). reflexivity. Qed.

(* ---- weights: alpha and its idempotence ---- *)

Lemma rscale_1 l : rscale 1 l = l.
Proof. unfold rscale. induction l as [|x l IH]; cbn [map]; [reflexivity|]. rewrite IH. f_equal. lra. Qed.

Lemma sqs_rscale a w : rsum (sqs (rscale a w)) = a * a * rsum (sqs w).
Proof.
  unfold sqs, rscale. induction w as [|x w IH]; cbn [map rsum]; [lra|]. rewrite IH. lra.
Qed.

Lemma alpha_rscale a w : a <> 0 -> rsum (sqs w) <> 0 -> alpha (rscale a w) = alpha w / a.
Proof.
  intros Ha Hq. unfold alpha. rewrite rsum_rscale, sqs_rscale. field. split; assumption.
Qed.

Lemma alpha_neq_0 w : rsum w <> 0 -> rsum (sqs w) <> 0 -> alpha w <> 0.
Proof.
  intros Hs Hq. unfold alpha, Rdiv. apply Rmult_integral_contrapositive_currified; [exact Hs|].
  apply Rinv_neq_0_compat. exact Hq.
Qed.

(* the factor is applied up to three times by the code; after the first time it is 1 *)
Lemma alpha_idempotent w : rsum w <> 0 -> rsum (sqs w) <> 0 -> alpha (scale_w w) = 1.
Proof.
  intros Hs Hq. unfold scale_w. pose proof (alpha_neq_0 w Hs Hq) as Ha.
  rewrite alpha_rscale by assumption. field. exact Ha.
Qed.

Lemma scale_w_idempotent w : rsum w <> 0 -> rsum (sqs w) <> 0 -> scale_w (scale_w w) = scale_w w.
Proof.
  intros Hs Hq. unfold scale_w at 1. rewrite alpha_idempotent by assumption. apply rscale_1.
Qed.

Lemma rsum_scale_w w : rsum (scale_w w) = alpha w * rsum w.
Proof. unfold scale_w. apply rsum_rscale. Qed.

Lemma rsum_mc_norm v : rsum v <> 0 -> rsum (mc_norm v) = 1.
Proof. intros H. unfold mc_norm. rewrite rsum_rscale. field. exact H. Qed.

Lemma rdot_mc_norm v g : rdot (mc_norm v) g = rdot v g / rsum v.
Proof. unfold mc_norm. rewrite rdot_scale_l. unfold Rdiv. ring. Qed.

Lemma blend_nil ws : blend ws [] = ws.
Proof. unfold blend. apply app_nil_r. Qed.

Lemma blend_const_bg ws w_bkg n :
  rsum (blend ws (bg_const_weights w_bkg n)) = rsum ws - INR n * w_bkg.
Proof. unfold blend, bg_const_weights. rewrite rsum_app, rsum_repeat. lra. Qed.

(* ---- the value equals the documented formula ---- *)

Lemma rdot_clip_hi w f : Forall (fun x => eps_clip < x) f -> rdot w (map clip_log f) = rdot w (map ln f).
Proof. intros H. rewrite (map_clip_log_hi f H). reflexivity. Qed.

Lemma nll_base_scaled ext w f v g :
  rsum w <> 0 -> rsum (sqs w) <> 0 -> rsum v <> 0 ->
  nll_base ext (scale_w w) f (mc_norm v) g
  = - alpha w * (rdot w (map clip_log f) - rsum w * int_f ext (rdot v g / rsum v)).
Proof.
  intros Hs Hq Hv. unfold nll_base. rewrite alpha_idempotent by assumption.
  rewrite rsum_scale_w, rdot_mc_norm, (rsum_mc_norm v Hv).
  unfold scale_w. rewrite rdot_scale_l.
  replace (rdot v g / rsum v / 1) with (rdot v g / rsum v) by (field; exact Hv). ring.
Qed.

Lemma nll_default_eq ext ws bgw f v g :
  let w := blend ws bgw in
  rsum w <> 0 -> rsum (sqs w) <> 0 -> rsum v <> 0 ->
  nll_default ext ws bgw f v g
  = - alpha w * (rdot w (map clip_log f) - rsum w * int_f ext (rdot v g / rsum v)).
Proof.
  intros w Hs Hq Hv. unfold nll_default, nll_call, fcn_weight. fold w.
  rewrite scale_w_idempotent by assumption. apply nll_base_scaled; assumption.
Qed.

Lemma nll_grad_default_eq ext ws bgw f v g :
  let w := blend ws bgw in
  nll_grad_default ext ws bgw f v g
  = - alpha w * (rdot w (map clip_log f) - rsum w * int_f ext (rdot v g / rsum v)).
Proof.
  intros w. unfold nll_grad_default, nll_gradval, fcn_weight. fold w.
  rewrite rsum_scale_w, rdot_mc_norm. unfold scale_w. rewrite rdot_scale_l. ring.
Qed.

Theorem nll_matches_definition ws bgw f v g :
  let w := blend ws bgw in
  rsum w <> 0 -> rsum (sqs w) <> 0 -> rsum v <> 0 -> Forall (fun x => eps_clip < x) f ->
  nll_default false ws bgw f v g = nll_doc w f v g /\
  nll_grad_default false ws bgw f v g = nll_doc w f v g.
Proof.
  intros w Hs Hq Hv Hf. split.
  - rewrite nll_default_eq by assumption. fold w. unfold nll_doc. rewrite rdot_clip_hi by exact Hf. reflexivity.
  - rewrite nll_grad_default_eq. fold w. unfold nll_doc. rewrite rdot_clip_hi by exact Hf. reflexivity.
Qed.

Theorem nll_extended_matches_definition ws bgw f v g :
  let w := blend ws bgw in
  rsum w <> 0 -> rsum (sqs w) <> 0 -> rsum v <> 0 -> Forall (fun x => eps_clip < x) f ->
  nll_default true ws bgw f v g = nll_doc_ext w f v g /\
  nll_grad_default true ws bgw f v g = nll_doc_ext w f v g.
Proof.
  intros w Hs Hq Hv Hf. split.
  - rewrite nll_default_eq by assumption. fold w. unfold nll_doc_ext. rewrite rdot_clip_hi by exact Hf. reflexivity.
  - rewrite nll_grad_default_eq. fold w. unfold nll_doc_ext. rewrite rdot_clip_hi by exact Hf. reflexivity.
Qed.

(* the value returned alongside the gradient is the stand-alone value (any densities, incl. the clipped branch) *)
Theorem value_alongside_equals_standalone ext ws bgw f v g :
  let w := blend ws bgw in
  rsum w <> 0 -> rsum (sqs w) <> 0 -> rsum v <> 0 ->
  nll_grad_default ext ws bgw f v g = nll_default ext ws bgw f v g.
Proof. intros w Hs Hq Hv. rewrite nll_default_eq by assumption. apply nll_grad_default_eq. Qed.

(* ---- batch independence ---- *)

Lemma map_concat_map (h : R -> R) (ls : list (list R)) : map h (concat ls) = concat (map (map h) ls).
Proof. apply concat_map. Qed.

Definition batches_ok (bs : list (list R * list R)) : Prop :=
  Forall (fun b => length (fst b) = length (snd b)) bs.

Lemma rdot_concat_h (h : R -> R) bs : batches_ok bs ->
  rdot (concat (map fst bs)) (map h (concat (map snd bs)))
  = rsum (map (fun b => rdot (fst b) (map h (snd b))) bs).
Proof.
  induction 1 as [|b bs Hb _ IH]; cbn [map concat rsum]; [reflexivity|].
  rewrite map_app, rdot_app by (rewrite map_length; exact Hb). rewrite IH. reflexivity.
Qed.

Lemma rsum_concat_fst (bs : list (list R * list R)) :
  rsum (concat (map fst bs)) = rsum (map (fun b => rsum (fst b)) bs).
Proof. rewrite rsum_concat. unfold rsum_batches. rewrite map_map. reflexivity. Qed.

Lemma rdot_concat_pairs bs : batches_ok bs ->
  rdot (concat (map fst bs)) (concat (map snd bs)) = rsum (map (fun b => rdot (fst b) (snd b)) bs).
Proof. intros H. rewrite (rdot_concat bs H). reflexivity. Qed.

(* for ANY split of the (weight, density) sample into batches - sizes arbitrary, also unequal,
   empty or larger than the sample - the accumulated value is the un-batched value *)
Theorem nll_batch_independent ext bd bm : batches_ok bd -> batches_ok bm ->
  nll_gradval_batched ext bd bm
  = nll_gradval ext (concat (map fst bd)) (concat (map snd bd)) (concat (map fst bm)) (concat (map snd bm)).
Proof.
  intros Hd Hm. unfold nll_gradval_batched, nll_gradval, clip_batch. cbn [fst snd].
  rewrite (rdot_concat_h clip_log bd Hd), rsum_concat_fst, (rdot_concat_pairs bm Hm). reflexivity.
Qed.

Lemma rsum_map_plus2 (A : Type) (p q : A -> R) (l : list A) :
  rsum (map (fun b => p b + q b) l) = rsum (map p l) + rsum (map q l).
Proof. induction l as [|x l IH]; cbn [map rsum]; [lra | rewrite IH; lra]. Qed.

Lemma rsum_map_scal (A : Type) (p : A -> R) (c : R) (l : list A) :
  rsum (map (fun b => p b * c) l) = rsum (map p l) * c.
Proof. induction l as [|x l IH]; cbn [map rsum]; [lra | rewrite IH; lra]. Qed.

Lemma rsum_map_opp (A : Type) (p : A -> R) (l : list A) :
  rsum (map (fun b => - p b) l) = - rsum (map p l).
Proof. induction l as [|x l IH]; cbn [map rsum]; [lra | rewrite IH; lra]. Qed.

Theorem simple_batch_independent bd bm : batches_ok bd -> batches_ok bm ->
  simple_batched bd bm
  = simple_call (concat (map fst bd)) (concat (map snd bd)) (concat (map fst bm)) (concat (map snd bm)).
Proof.
  intros Hd Hm. unfold simple_batched, simple_call.
  rewrite (rdot_concat_h ln bd Hd), rsum_concat_fst, (rdot_concat_pairs bm Hm).
  rewrite (rsum_map_plus2 _ (fun b => - rdot (fst b) (map ln (snd b)))
            (fun b => rsum (fst b) * ln (rsum (map (fun m => rdot (fst m) (snd m)) bm)))).
  rewrite rsum_map_opp, rsum_map_scal. reflexivity.
Qed.

Theorem simple_clip_batch_independent bd bm : batches_ok bd -> batches_ok bm ->
  simple_clip_batched bd bm
  = simple_clip_call (concat (map fst bd)) (concat (map snd bd)) (concat (map fst bm)) (concat (map snd bm)).
Proof.
  intros Hd Hm. unfold simple_clip_batched, simple_clip_call.
  rewrite (rdot_concat_h clip_log bd Hd), rsum_concat_fst, (rdot_concat_pairs bm Hm).
  rewrite (rsum_map_plus2 _ (fun b => - rdot (fst b) (map clip_log (snd b)))
            (fun b => rsum (fst b) * clip_log (rsum (map (fun m => rdot (fst m) (snd m)) bm)))).
  rewrite rsum_map_opp, rsum_map_scal. reflexivity.
Qed.

(* ---- invariance under a common rescaling of all amplitudes (not extended) ---- *)

Lemma rdot_ln_scale c w f :
  0 < c -> Forall (fun x => 0 < x) f -> length w = length f ->
  rdot w (map ln (rscale c f)) = rsum w * ln c + rdot w (map ln f).
Proof.
  intros Hc Hf. revert w. induction Hf as [|x f Hx _ IH]; intros [|a w] L; cbn [length] in L; try discriminate.
  - cbn. lra.
  - unfold rscale in *. cbn [map rdot rsum]. rewrite IH by (injection L; auto).
    rewrite ln_mult by assumption. ring.
Qed.

Theorem nll_scale_invariant c w f v g :
  0 < c -> length w = length f ->
  Forall (fun x => eps_clip < x /\ eps_clip < c * x) f -> 0 < rdot v g / rsum v ->
  nll_base false w (rscale c f) v (rscale c g) = nll_base false w f v g.
Proof.
  intros Hc L Hf HI. unfold nll_base. cbn [int_f].
  assert (H1 : Forall (fun x => eps_clip < x) f).
  { eapply Forall_impl; [|exact Hf]. cbn. intros a [A _]. exact A. }
  assert (H2 : Forall (fun x => eps_clip < x) (rscale c f)).
  { unfold rscale. apply Forall_forall. intros y Hy. apply in_map_iff in Hy. destruct Hy as [x [E Hx]]. subst y.
    rewrite Forall_forall in Hf. apply (Hf x Hx). }
  assert (H0 : Forall (fun x => 0 < x) f).
  { eapply Forall_impl; [|exact H1]. cbn. unfold eps_clip. intros a A. lra. }
  rewrite (rdot_clip_hi w _ H2), (rdot_clip_hi w f H1).
  rewrite rdot_ln_scale by assumption. rewrite rdot_scale_r.
  replace (c * rdot v g / rsum v) with (c * (rdot v g / rsum v)) by (unfold Rdiv; ring).
  rewrite ln_mult by assumption. ring.
Qed.

Corollary nll_default_scale_invariant c ws bgw f v g :
  0 < c -> length (blend ws bgw) = length f ->
  Forall (fun x => eps_clip < x /\ eps_clip < c * x) f -> 0 < rdot (mc_norm v) g / rsum (mc_norm v) ->
  nll_default false ws bgw (rscale c f) v (rscale c g) = nll_default false ws bgw f v g.
Proof.
  intros Hc L Hf HI. unfold nll_default, nll_call. apply nll_scale_invariant; try assumption.
  unfold fcn_weight, scale_w. rewrite !length_rscale. exact L.
Qed.

(* the extended likelihood is NOT scale invariant (so the check does not demand it there) *)
Theorem nll_extended_not_invariant :
  exists c w f v g, 0 < c /\ nll_base true w (rscale c f) v (rscale c g) <> nll_base true w f v g.
Proof.
  exists 2, [1], [1], [1], [1]. split; [lra|].
  unfold nll_base, alpha, sqs, rscale. cbn [map rsum rdot int_f].
  rewrite !(clip_log_hi) by (unfold eps_clip; lra).
  replace (2 * 1) with 2 by lra. rewrite ln_1.
  intros H. assert (L2 : ln 2 < 1).
  { rewrite <- (ln_exp 1). apply ln_increasing; [lra|]. pose proof (exp_ineq1 1 ltac:(lra)). lra. }
  assert (E : (1 + 0) / (1 * 1 + 0) = 1) by (field). rewrite E in H. lra.
Qed.

(* ---- additivity: simultaneous fits and Gaussian constraints ---- *)

Theorem nll_combine_additive a b cs :
  combine (a ++ b) cs = combine a [] + combine b [] + gauss_term cs.
Proof. unfold combine, gauss_term. cbn [map rsum]. rewrite rsum_app. lra. Qed.

Lemma combine_no_constr nlls : combine nlls [] = rsum nlls.
Proof. unfold combine, gauss_term. cbn [map rsum]. lra. Qed.

Lemma combine_single nll cs : combine [nll] cs = fcn_total nll cs.
Proof. unfold combine, fcn_total. cbn [rsum]. lra. Qed.

Theorem gauss_constr_additive a b : gauss_term (a ++ b) = gauss_term a + gauss_term b.
Proof. unfold gauss_term. rewrite map_app, rsum_app. reflexivity. Qed.

Lemma gauss_at_mean m s : gauss_one (m, m, s) = 0.
Proof. unfold gauss_one. unfold Rdiv. ring. Qed.

Lemma gauss_term_doc th mean sigma : sigma <> 0 ->
  gauss_term [(th, mean, sigma)] = (th - mean) ^ 2 / (2 * sigma ^ 2).
Proof. intros H. unfold gauss_term, gauss_one. cbn [map rsum]. field. exact H. Qed.

(* ---- cfit ---- *)

(* the code since /repo 9a16823: the stand-alone value IS the value alongside the gradient, for ALL densities
   (also in the clip region), and both are the documented mixture above the clip threshold *)
Theorem cfit_call_equals_gradval fb ws e f b v eg g bm :
  rsum ws <> 0 -> rsum (sqs ws) <> 0 ->
  cfit_default fb ws e f b v eg g bm = cfit_gradval fb (fcn_weight ws []) e f b (mc_norm v) eg g bm.
Proof.
  intros Hs Hq. unfold cfit_default, cfit_nll, cfit_gradval, fcn_weight. rewrite blend_nil.
  rewrite scale_w_idempotent by assumption. reflexivity.
Qed.

Theorem cfit_matches_doc fb ws e f b v eg g bm :
  rsum ws <> 0 -> rsum (sqs ws) <> 0 ->
  Forall (fun x => eps_clip < x) (cfit_probs fb e f b (mc_norm v) eg g bm) ->
  cfit_default fb ws e f b v eg g bm = cfit_doc fb ws e f b v eg g bm /\
  cfit_gradval fb (fcn_weight ws []) e f b (mc_norm v) eg g bm = cfit_doc fb ws e f b v eg g bm.
Proof.
  intros Hs Hq HP. rewrite cfit_call_equals_gradval by assumption.
  assert (G : cfit_gradval fb (fcn_weight ws []) e f b (mc_norm v) eg g bm = cfit_doc fb ws e f b v eg g bm).
  { unfold cfit_gradval, cfit_doc, fcn_weight. rewrite blend_nil.
    rewrite (rdot_clip_hi _ _ HP). unfold scale_w. rewrite rdot_scale_l. ring. }
  split; exact G.
Qed.

(* OLD code (plain log in Model_cfit.nll): equal to the documented mixture everywhere ... *)
Theorem cfit_old_matches_doc fb ws e f b v eg g bm :
  rsum ws <> 0 -> rsum (sqs ws) <> 0 ->
  cfit_default_old fb ws e f b v eg g bm = cfit_doc fb ws e f b v eg g bm.
Proof.
  intros Hs Hq. unfold cfit_default_old, cfit_call, cfit_doc, fcn_weight. rewrite blend_nil.
  rewrite scale_w_idempotent by assumption. unfold scale_w. rewrite rdot_scale_l. ring.
Qed.

Theorem cfit_ext_call_equals_gradval fb ws e f b v eg g bm :
  rsum ws <> 0 -> rsum (sqs ws) <> 0 ->
  cfit_ext_default fb ws e f b v eg g bm = cfit_ext_gradval fb (fcn_weight ws []) e f b (mc_norm v) eg g bm.
Proof.
  intros Hs Hq. unfold cfit_ext_default, cfit_ext_nll, cfit_ext_gradval, fcn_weight. rewrite blend_nil.
  rewrite scale_w_idempotent by assumption. reflexivity.
Qed.

Theorem cfit_extended_matches_doc fb ws e f b v eg g bm :
  rsum ws <> 0 -> rsum (sqs ws) <> 0 ->
  Forall (fun x => eps_clip < x) (cfit_probs fb e f b (mc_norm v) eg g bm) ->
  cfit_ext_default fb ws e f b v eg g bm = cfit_ext_doc fb ws e f b v eg g bm /\
  cfit_ext_gradval fb (fcn_weight ws []) e f b (mc_norm v) eg g bm = cfit_ext_doc fb ws e f b v eg g bm.
Proof.
  intros Hs Hq HP. rewrite cfit_ext_call_equals_gradval by assumption.
  assert (G : cfit_ext_gradval fb (fcn_weight ws []) e f b (mc_norm v) eg g bm = cfit_ext_doc fb ws e f b v eg g bm).
  { unfold cfit_ext_gradval, cfit_ext_doc, fcn_weight. rewrite blend_nil. cbv zeta.
    rewrite (rdot_clip_hi _ _ HP). rewrite rsum_scale_w. unfold scale_w. rewrite rdot_scale_l. ring. }
  split; exact G.
Qed.

(* lambda = I_sig / (1 - f_bg) with I_sig the efficiency-weighted MC average *)
Lemma cfit_lambda_doc fb v eg g :
  cfit_lambda fb (mc_norm v) eg g = rdot v (sig_of eg g) / rsum v / (1 - fb).
Proof. unfold cfit_lambda. rewrite rdot_mc_norm. reflexivity. Qed.

(* the mixture reduces to the signal density when there is no background *)
Lemma cfit_prob_no_bg isig ibg s b : cfit_prob 0 isig ibg s b = s / isig.
Proof. unfold cfit_prob. unfold Rdiv. ring. Qed.

(* ---- resolution_size > 1 ---- *)

Lemma dom_w_nz W : W <> 0 -> dom_w W = W.
Proof. intros H. unfold dom_w. destruct (Req_EM_T W 0); [contradiction | reflexivity]. Qed.

Lemma ev_density_nz_eq we fe : Forall (fun w => rsum w <> 0) we -> ev_density we fe = ev_density_nz we fe.
Proof.
  intros H. revert fe. induction H as [|w we Hw _ IH]; intros [|f fe]; cbn [ev_density ev_density_nz]; try reflexivity.
  rewrite (dom_w_nz _ Hw), IH. reflexivity.
Qed.

(* one Coq-Interval goal certifies that no event weight vanishes *)
Lemma ev_density_cert c we fe :
  0 < c -> shortfall c (sqs (ev_weights we)) <= c / 2 -> ev_density we fe = ev_density_nz we fe.
Proof.
  intros Hc H. apply ev_density_nz_eq. pose proof (shortfall_gt c _ Hc H) as F.
  unfold sqs, ev_weights in F. rewrite map_map in F. rewrite Forall_map in F.
  eapply Forall_impl; [|exact F]. cbn. intros w Hw E. rewrite E in Hw. lra.
Qed.

Lemma chunk_1 l : chunk 1 l = map (fun x => [x]) l.
Proof. unfold chunk. induction l as [|x l IH]; [reflexivity|]. cbn [length chunk_fuel firstn skipn map]. rewrite IH. reflexivity. Qed.

Lemma ev_weights_singletons w : ev_weights (map (fun x => [x]) w) = w.
Proof. unfold ev_weights. induction w as [|x w IH]; cbn [map rsum]; [reflexivity|]. rewrite IH. f_equal. lra. Qed.

Lemma rsum_concat_singletons w : rsum (concat (map (fun x => [x]) w)) = rsum w.
Proof. induction w as [|x w IH]; cbn [map concat app rsum]; [reflexivity|]. rewrite IH. reflexivity. Qed.

Lemma singleton_term a f : a * clip_log (a * f / dom_w a) = a * clip_log f.
Proof.
  destruct (Req_EM_T a 0) as [E|N]; [subst; ring|]. rewrite (dom_w_nz a N).
  replace (a * f / a) with f by (field; exact N). reflexivity.
Qed.

Lemma rdot_singletons w f :
  rdot w (map clip_log (ev_density (map (fun x => [x]) w) (map (fun x => [x]) f))) = rdot w (map clip_log f).
Proof.
  revert f. induction w as [|a w IH]; intros [|b f]; cbn [map ev_density rdot rsum]; try reflexivity.
  rewrite IH. replace (a * b + 0) with (a * b) by lra. replace (a + 0) with a by lra.
  rewrite singleton_term. reflexivity.
Qed.

(* R = 1 : the resolution formula is the plain formula (also for vanishing weights) *)
Theorem nll_res_R1 ext w f v g :
  nll_gradval_res ext (chunk 1 w) (chunk 1 f) v g = nll_gradval ext w f v g /\
  nll_base_res ext (chunk 1 w) (chunk 1 f) v g = nll_base ext w f v g.
Proof.
  rewrite !chunk_1. unfold nll_gradval_res, nll_gradval, nll_base_res, nll_base, alpha.
  rewrite !ev_weights_singletons, !rsum_concat_singletons, !rdot_singletons. split; reflexivity.
Qed.

Lemma ev_weights_app a b : ev_weights (a ++ b) = ev_weights a ++ ev_weights b.
Proof. unfold ev_weights. apply map_app. Qed.

Lemma ev_density_app a b c d : length a = length c ->
  ev_density (a ++ b) (c ++ d) = ev_density a c ++ ev_density b d.
Proof.
  revert c. induction a as [|x a IH]; intros [|y c] L; cbn [length] in L; try discriminate; [reflexivity|].
  cbn [app ev_density]. rewrite IH by (injection L; auto). reflexivity.
Qed.

Lemma length_ev_density a c : length a = length c -> length (ev_density a c) = length a.
Proof.
  revert c. induction a as [|x a IH]; intros [|y c] L; cbn [length] in L; try discriminate; [reflexivity|].
  cbn [ev_density length]. rewrite IH by (injection L; auto). reflexivity.
Qed.

Definition ev_batches_ok (bd : list (list (list R) * list (list R))) : Prop :=
  Forall (fun b => length (fst b) = length (snd b)) bd.

Lemma ev_rdot_concat bd : ev_batches_ok bd ->
  rdot (ev_weights (concat (map fst bd))) (map clip_log (ev_density (concat (map fst bd)) (concat (map snd bd))))
  = rsum (map (fun b => rdot (ev_weights (fst b)) (map clip_log (ev_density (fst b) (snd b)))) bd).
Proof.
  induction 1 as [|b bd Hb _ IH]; cbn [map concat rsum]; [reflexivity|].
  rewrite ev_weights_app, ev_density_app by exact Hb. rewrite map_app.
  rewrite rdot_app; [rewrite IH; reflexivity|].
  unfold ev_weights. rewrite !map_length. symmetry. apply length_ev_density. exact Hb.
Qed.

Lemma rsum_concat_concat (bd : list (list (list R) * list (list R))) :
  rsum (concat (concat (map fst bd))) = rsum (map (fun b => rsum (concat (fst b))) bd).
Proof.
  induction bd as [|b bd IH]; cbn [map concat rsum]; [reflexivity|].
  rewrite concat_app, rsum_app, IH. reflexivity.
Qed.

(* batch independence with resolution: any split into batches of WHOLE events *)
Theorem nll_res_batch_independent ext bd bm : ev_batches_ok bd -> batches_ok bm ->
  nll_gradval_res_batched ext bd bm
  = nll_gradval_res ext (concat (map fst bd)) (concat (map snd bd)) (concat (map fst bm)) (concat (map snd bm)).
Proof.
  intros Hd Hm. unfold nll_gradval_res_batched, nll_gradval_res.
  rewrite (ev_rdot_concat bd Hd), rsum_concat_concat, (rdot_concat_pairs bm Hm). reflexivity.
Qed.

(* the event weights carry the whole sample weight: sum_e W_e = sum over samples *)
Lemma rsum_ev_weights we : rsum (ev_weights we) = rsum (concat we).
Proof. unfold ev_weights. rewrite rsum_concat. reflexivity. Qed.

(* the event density is linear in the per-sample densities: d/dtheta commutes with the folding *)
Lemma ev_density_nz_linear (w f1 f2 : list R) (c : R) : length f1 = length f2 ->
  rdot w (rzip Rplus f1 (rscale c f2)) / rsum w = rdot w f1 / rsum w + c * (rdot w f2 / rsum w).
Proof.
  intros L. assert (E : rdot w (rzip Rplus f1 (rscale c f2)) = rdot w f1 + c * rdot w f2).
  { revert f1 f2 L. induction w as [|a w IH]; intros [|x f1] [|y f2] L; cbn [length] in L; try discriminate;
      unfold rscale; cbn [map rzip rdot]; try lra. fold (rscale c f2). rewrite IH by (injection L; auto). ring. }
  rewrite E. unfold Rdiv. ring.
Qed.

(* the event density does not change when all sample weights are rescaled (alpha is re-applied by the code) *)
Lemma ev_density_nz_scale a we fe : a <> 0 -> Forall (fun w => rsum w <> 0) we ->
  ev_density_nz (map (rscale a) we) fe = ev_density_nz we fe.
Proof.
  intros Ha H. revert fe. induction H as [|w we Hw _ IH]; intros [|f fe]; cbn [map ev_density_nz]; try reflexivity.
  rewrite IH, rdot_scale_l, rsum_rscale. f_equal. field. split; assumption.
Qed.

Lemma ev_weights_nz_cert c we : 0 < c -> shortfall c (sqs (ev_weights we)) <= c / 2 -> Forall (fun w => rsum w <> 0) we.
Proof.
  intros Hc H. pose proof (shortfall_gt c _ Hc H) as F.
  unfold sqs, ev_weights in F. rewrite map_map in F. rewrite Forall_map in F.
  eapply Forall_impl; [|exact F]. cbn. intros w Hw E. rewrite E in Hw. lra.
Qed.

Lemma ev_density_scaled_cert c a we fe :
  0 < c -> a <> 0 -> shortfall c (sqs (ev_weights we)) <= c / 2 ->
  ev_density (map (rscale a) we) fe = ev_density_nz we fe.
Proof.
  intros Hc Ha H. pose proof (ev_weights_nz_cert c we Hc H) as F.
  rewrite ev_density_nz_eq.
  - apply ev_density_nz_scale; assumption.
  - rewrite Forall_map. eapply Forall_impl; [|exact F]. cbn. intros w Hw. rewrite rsum_rscale.
    apply Rmult_integral_contrapositive_currified; assumption.
Qed.

(* ---- hunt-fix round: statements about the repaired code and the old code ---- *)

(* every data set handed to get_fcn enters the NLL: as many FCNs as data sets *)
Lemma fcn_parts_length {A D : Type} (ms : list A) (ds : list D) :
  length ms = length ds -> length (fcn_parts ms ds) = length ds.
Proof.
  revert ds. induction ms as [|m ms IH]; intros [|d ds] H; cbn in *; try discriminate; try reflexivity.
  f_equal. apply IH. now injection H.
Qed.

Lemma fcn_parts_sets {A D : Type} (ms : list A) (ds : list D) :
  length ms = length ds -> map snd (fcn_parts ms ds) = ds.
Proof.
  revert ds. induction ms as [|m ms IH]; intros [|d ds] H; cbn in *; try discriminate; try reflexivity.
  f_equal. apply IH. now injection H.
Qed.

Theorem every_data_set_enters {A D : Type} (entry : A + list A) (sets : list D) :
  (forall l, entry = inr l -> length l = length sets) ->
  map snd (fcn_parts (models_for_sets entry (length sets)) sets) = sets.
Proof.
  intros H. apply fcn_parts_sets. destruct entry as [x|l]; cbn.
  - apply repeat_length.
  - now apply H.
Qed.

(* old code: scalar bg_frac and two data sets -> one FCN *)
Theorem old_scalar_entry_drops_sets_refuted :
  exists (entry : R + list R) (sets : list nat),
    (forall l, entry = inr l -> length l = length sets) /\
    (length (fcn_parts (models_for_sets_old entry (length sets)) sets) < length sets)%nat.
Proof.
  exists (inl (1 / 5)), [0%nat; 1%nat]. split; [intros l H; discriminate|]. cbn. auto.
Qed.

(* old code: the list of models built for n1 data sets is reused for n2 > n1 (lru_cache without the number of sets) *)
Theorem stale_model_list_drops_sets_refuted :
  exists (entry : R + list R) (n1 : nat) (sets : list nat),
    (length (fcn_parts (models_for_sets entry n1) sets) < length sets)%nat.
Proof. exists (inl 0), 1%nat, [0%nat; 1%nat]. cbn. auto. Qed.

(* old simple_cfit: the data efficiency is ignored (witness: eff = 1/2 on the single data event, no err_value column) *)
Theorem simple_cfit_old_ignores_eff_refuted :
  exists fb W e f b V eg g bm,
    simple_cfit_call_old fb W e [1] f b V eg g bm <> simple_cfit_call fb W e f b V eg g bm.
Proof.
  exists (1 / 2), [1], [1 / 2], [1], [1], [1], [1], [1], [1].
  unfold simple_cfit_call_old, simple_cfit_call, cfit_probs, cfit_prob, sig_of.
  cbn [rzip map rdot rsum].
  replace ((1 - 1 / 2) * (1 * 1) / (1 * (1 * 1) + 0) + 1 / 2 * 1 / (1 * 1 + 0)) with 1 by field.
  replace ((1 - 1 / 2) * (1 / 2 * 1) / (1 * (1 * 1) + 0) + 1 / 2 * 1 / (1 * 1 + 0)) with (3 / 4) by field.
  rewrite ln_1. assert (L : ln (3 / 4) < 0) by (rewrite <- ln_1; apply ln_increasing; lra).
  lra.
Qed.

(* OPEN finding: below the clip threshold the non-extended NLL is NOT invariant under a common rescaling
   (clip_log acts on the unnormalised density); witness: one event, all densities 1, scale 1e-8 *)
Lemma ln100_gt_2 : 2 < ln 100.
Proof.
  rewrite <- (ln_exp 2). apply ln_increasing; [apply exp_pos|].
  replace 2 with (1 + 1) at 1 by lra. rewrite exp_plus.
  pose proof exp_le_3. pose proof (exp_pos 1). nra.
Qed.

Lemma nll_base_one_event c :
  nll_base false [1] (rscale c [1]) [1] (rscale c [1]) = - (clip_log c - ln c).
Proof.
  unfold nll_base, alpha, sqs, rscale. cbn [map rsum rdot int_f].
  replace (c * 1) with c by ring. replace ((1 * c + 0) / (1 + 0)) with c by field. field.
Qed.

(* clip_log is NOT the logarithm below the threshold: at 1e-8 it is larger by ln 100 - 0.99 - 0.49005 > 0 *)
Lemma clip_log_gt_ln_1e8 : ln (1 / 100000000) < clip_log (1 / 100000000).
Proof.
  assert (E : 1 / 100000000 = eps_clip * / 100) by (unfold eps_clip; field).
  assert (L : ln (1 / 100000000) = ln eps_clip - ln 100).
  { rewrite E, ln_mult by (unfold eps_clip; lra). rewrite ln_Rinv by lra. lra. }
  assert (C : clip_log (1 / 100000000) = ln eps_clip + (- (99 / 100)) - (99 / 100) * (99 / 100) / 2).
  { unfold clip_log. destruct (Rlt_dec eps_clip (1 / 100000000)) as [H|H]; [unfold eps_clip in H; lra|].
    unfold eps_clip. field. }
  rewrite C, L. pose proof ln100_gt_2. lra.
Qed.

(* OLD Model_cfit.nll (plain log) differs from the value returned alongside the gradient in the clip region:
   one data event with mixture density 1e-8 *)
Theorem cfit_old_call_not_gradval_refuted :
  exists fb ws e f b v eg g bm, rsum ws <> 0 /\ rsum (sqs ws) <> 0 /\
    cfit_default_old fb ws e f b v eg g bm <> cfit_gradval fb (fcn_weight ws []) e f b (mc_norm v) eg g bm.
Proof.
  exists 0, [1], [1], [1 / 100000000], [1], [1], [1], [1], [1].
  unfold sqs. cbn [map rsum]. split; [lra|]. split; [lra|].
  rewrite cfit_old_matches_doc by (unfold sqs; cbn [map rsum]; lra).
  unfold cfit_doc, cfit_gradval, fcn_weight, cfit_probs, cfit_prob, sig_of, mc_norm, scale_w, blend, alpha, sqs, rscale.
  cbn [app map rzip rdot rsum].
  match goal with |- context [ln ?a] => replace a with (1 / 100000000) by field end.
  pose proof clip_log_gt_ln_1e8.
  replace ((1 + 0) / (1 * 1 + 0)) with 1 by field. lra.
Qed.

Theorem nll_scale_below_clip_refuted :
  exists c w f v g, 0 < c /\ nll_base false w (rscale c f) v (rscale c g) <> nll_base false w f v g.
Proof.
  exists (1 / 100000000), [1], [1], [1], [1]. split; [lra|].
  rewrite nll_base_one_event.
  replace (nll_base false [1] [1] [1] [1]) with (nll_base false [1] (rscale 1 [1]) [1] (rscale 1 [1]))
    by (unfold rscale; cbn [map]; replace (1 * 1) with 1 by ring; reflexivity).
  rewrite nll_base_one_event.
  rewrite (clip_log_hi 1) by (unfold eps_clip; lra).
  assert (E : 1 / 100000000 = eps_clip * / 100) by (unfold eps_clip; field).
  assert (L : ln (1 / 100000000) = ln eps_clip - ln 100).
  { rewrite E, ln_mult by (unfold eps_clip; lra). rewrite ln_Rinv by lra. lra. }
  assert (C : clip_log (1 / 100000000) = ln eps_clip + (- (99 / 100)) - (99 / 100) * (99 / 100) / 2).
  { unfold clip_log. destruct (Rlt_dec eps_clip (1 / 100000000)) as [H|H]; [unfold eps_clip in H; lra|].
    unfold eps_clip. field. }
  rewrite C, L. pose proof ln100_gt_2. lra.
Qed.
