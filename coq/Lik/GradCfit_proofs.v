(* C07 - the hand-written cfit Hessian formulas (cfit_d2P, hess_cfit, hess_cfit_ext) are the
   derivatives of the hand-written cfit gradient formulas (cfit_dP, grad_cfit, grad_cfit_ext).

   Setting: a fixed pair of parameter directions (k, l); the real variable u moves along direction l.
     S_i u  = s_i            (eff * amp of event i)        with  d/du S_i  = d_l s_i       (dSl)
     A_i u  = d_k s_i                                      with  d/du A_i  = d_k d_l s_i   (d2S)
     Iu u   = I_sig                                        with  d/du Iu   = d_l I         (dIl)
     Ik u   = d_k I_sig                                    with  d/du Ik   = d_k d_l I     (d2I)  *)
From Coq Require Import Reals List Lra.
From Coquelicot Require Import Coquelicot.
From TFV Require Import Base.RSum Base.RSum_proofs Lik.NLL Lik.Grad Lik.Grad_proofs.
Import ListNotations.
Open Scope R_scope.

(* ---- per event: d/du of d_k P is the cfit_d2P entry ---- *)

Lemma cfit_dP_event_is_derive (c1 : R) (S A Iu Ik : R -> R) (t dSl d2S dIl d2I : R) :
  is_derive S t dSl -> is_derive A t d2S -> is_derive Iu t dIl -> is_derive Ik t d2I -> Iu t <> 0 ->
  is_derive (fun u => c1 * (A u * Iu u - S u * Ik u) / (Iu u * Iu u)) t
            (c1 * (d2S / Iu t - (A t * dIl + dSl * Ik t) / (Iu t * Iu t) - S t * d2I / (Iu t * Iu t)
                   + 2 * S t * Ik t * dIl / (Iu t * Iu t * Iu t))).
Proof.
  intros HS HA HI HK H0. auto_derive.
  - repeat split; auto; [exists d2S; exact HA | exists dIl; exact HI | exists dSl; exact HS | exists d2I; exact HK
                        | exists dIl; exact HI | exists dIl; exact HI].
  - replace (Derive (fun x : R => S x) t) with dSl by (symmetry; apply is_derive_unique; exact HS).
    replace (Derive (fun x : R => A x) t) with d2S by (symmetry; apply is_derive_unique; exact HA).
    replace (Derive (fun x : R => Iu x) t) with dIl by (symmetry; apply is_derive_unique; exact HI).
    replace (Derive (fun x : R => Ik x) t) with d2I by (symmetry; apply is_derive_unique; exact HK).
    field. exact H0.
Qed.

(* the statement above is literally the head of the list cfit_d2P builds *)
Lemma cfit_d2P_head (c1 I dIk dIl d2I s a b c : R) :
  cfit_d2P c1 I dIk dIl d2I [s] [a] [b] [c]
  = [c1 * (c / I - (a * dIl + b * dIk) / (I * I) - s * d2I / (I * I) + 2 * s * dIk * dIl / (I * I * I))].
Proof. reflexivity. Qed.

(* ---- d_l of the cfit gradient component k is the cfit Hessian entry (k, l) ---- *)

Theorem cfit_hess_is_derive (c1 : R) (W c2 : list R) (Ss As : list (R -> R)) (dSl d2S : list R)
        (Iu Ik : R -> R) (t dIl d2I : R) :
  Forall2 (fun (S : R -> R) (d : R) => is_derive S t d) Ss dSl ->
  Forall2 (fun (A : R -> R) (d : R) => is_derive A t d) As d2S ->
  is_derive Iu t dIl -> is_derive Ik t d2I -> Iu t <> 0 ->
  List.Forall (fun x => x <> 0) (cfit_P c1 (Iu t) (evalat Ss t) c2) ->
  is_derive (fun u => grad_cfit c1 W (evalat Ss u) (evalat As u) c2 (Iu u) (Ik u)) t
            (hess_cfit c1 W (evalat Ss t) (evalat As t) dSl d2S c2 (Iu t) (Ik t) dIl d2I).
Proof.
  intros HS HA HI HK H0 HP. unfold grad_cfit, hess_cfit.
  apply (is_derive_opp (fun u => rdot W (rzip Rdiv (cfit_dP c1 (Iu u) (Ik u) (evalat Ss u) (evalat As u))
                                                   (cfit_P c1 (Iu u) (evalat Ss u) c2))) t).
  revert W c2 As d2S HA HP. induction HS as [|S d Ss dSs HS1 _ IH]; intros W c2 As d2S HA HP.
  - unfold evalat. cbn [map cfit_P cfit_dP rzip hterms]. rewrite !rdot_nil_r. apply is_derive_const_R.
  - destruct HA as [|A a2 As d2Ss HA1 HA]; destruct c2 as [|c c2].
    + unfold evalat. cbn [map cfit_P cfit_dP rzip hterms]. rewrite !rdot_nil_r. apply is_derive_const_R.
    + unfold evalat. cbn [map cfit_P cfit_dP rzip hterms]. rewrite !rdot_nil_r. apply is_derive_const_R.
    + unfold evalat. cbn [map cfit_P cfit_dP rzip hterms]. rewrite !rdot_nil_r. apply is_derive_const_R.
    + unfold evalat in HP |- *. cbn [map cfit_P cfit_dP cfit_d2P rzip hterms] in HP |- *.
      fold (evalat Ss) in HP |- *. fold (evalat As).
      inversion HP as [|p0 ps Hp0 HP' E]; subst.
      destruct W as [|w W]; [cbn [rdot]; apply is_derive_const_R|].
      cbn [rdot].
      apply (is_derive_plus
               (fun u => w * (c1 * (A u * Iu u - S u * Ik u) / (Iu u * Iu u) / (c1 * S u / Iu u + c)))
               (fun u => rdot W (rzip Rdiv (cfit_dP c1 (Iu u) (Ik u) (evalat Ss u) (evalat As u))
                                           (cfit_P c1 (Iu u) (evalat Ss u) c2))) t).
      * apply (is_derive_scal
                 (fun u => c1 * (A u * Iu u - S u * Ik u) / (Iu u * Iu u) / (c1 * S u / Iu u + c)) t w).
        apply (is_derive_quot (fun u => c1 * (A u * Iu u - S u * Ik u) / (Iu u * Iu u))
                              (fun u => c1 * S u / Iu u + c) t).
        -- apply cfit_dP_event_is_derive; assumption.
        -- apply cfit_event_is_derive; assumption.
        -- exact Hp0.
      * apply IH; assumption.
Qed.

Print Assumptions cfit_hess_is_derive.

(* ---- extended cfit: + d_l of ( - sw d_k I / I + d_k I / c1 ) ---- *)

Lemma cfit_ext_term_is_derive (sw c1 : R) (Iu Ik : R -> R) (t dIl d2I : R) :
  is_derive Iu t dIl -> is_derive Ik t d2I -> Iu t <> 0 ->
  is_derive (fun u => - (sw * Ik u / Iu u) + Ik u / c1) t
            (- (sw * (d2I / Iu t - Ik t * dIl / (Iu t * Iu t))) + d2I / c1).
Proof.
  intros HI HK H0.
  apply (is_derive_plus (fun u => - (sw * Ik u / Iu u)) (fun u => Ik u / c1) t).
  - apply (is_derive_opp (fun u => sw * Ik u / Iu u) t).
    assert (E : forall u : R, sw * (Ik u / Iu u) = sw * Ik u / Iu u) by (intros u; unfold Rdiv; ring).
    apply (is_derive_ext (fun u => sw * (Ik u / Iu u))); [exact E|].
    apply (is_derive_scal (fun u => Ik u / Iu u) t sw). apply is_derive_quot; assumption.
  - assert (E : forall u : R, / c1 * Ik u = Ik u / c1) by (intros u; unfold Rdiv; ring).
    apply (is_derive_ext (fun u => / c1 * Ik u)); [exact E|].
    replace (d2I / c1) with (/ c1 * d2I) by (unfold Rdiv; ring).
    apply (is_derive_scal Ik t (/ c1)). exact HK.
Qed.

Theorem cfit_ext_hess_is_derive (c1 : R) (W c2 : list R) (Ss As : list (R -> R)) (dSl d2S : list R)
        (Iu Ik : R -> R) (t dIl d2I : R) :
  Forall2 (fun (S : R -> R) (d : R) => is_derive S t d) Ss dSl ->
  Forall2 (fun (A : R -> R) (d : R) => is_derive A t d) As d2S ->
  is_derive Iu t dIl -> is_derive Ik t d2I -> Iu t <> 0 ->
  List.Forall (fun x => x <> 0) (cfit_P c1 (Iu t) (evalat Ss t) c2) ->
  is_derive (fun u => grad_cfit_ext c1 W (evalat Ss u) (evalat As u) c2 (Iu u) (Ik u)) t
            (hess_cfit_ext c1 W (evalat Ss t) (evalat As t) dSl d2S c2 (Iu t) (Ik t) dIl d2I).
Proof.
  intros HS HA HI HK H0 HP. unfold grad_cfit_ext, hess_cfit_ext.
  assert (E : forall u : R, grad_cfit c1 W (evalat Ss u) (evalat As u) c2 (Iu u) (Ik u)
                            + (- (rsum W * Ik u / Iu u) + Ik u / c1)
                            = grad_cfit c1 W (evalat Ss u) (evalat As u) c2 (Iu u) (Ik u)
                              - rsum W * Ik u / Iu u + Ik u / c1) by (intros u; ring).
  apply (is_derive_ext (fun u => grad_cfit c1 W (evalat Ss u) (evalat As u) c2 (Iu u) (Ik u)
                                 + (- (rsum W * Ik u / Iu u) + Ik u / c1))); [exact E|].
  replace (hess_cfit c1 W (evalat Ss t) (evalat As t) dSl d2S c2 (Iu t) (Ik t) dIl d2I
           - rsum W * (d2I / Iu t - Ik t * dIl / (Iu t * Iu t)) + d2I / c1)
    with (hess_cfit c1 W (evalat Ss t) (evalat As t) dSl d2S c2 (Iu t) (Ik t) dIl d2I
          + (- (rsum W * (d2I / Iu t - Ik t * dIl / (Iu t * Iu t))) + d2I / c1)) by ring.
  apply (is_derive_plus (fun u => grad_cfit c1 W (evalat Ss u) (evalat As u) c2 (Iu u) (Ik u))
                        (fun u => - (rsum W * Ik u / Iu u) + Ik u / c1) t).
  - apply cfit_hess_is_derive; assumption.
  - apply cfit_ext_term_is_derive; assumption.
Qed.

Print Assumptions cfit_dP_event_is_derive.
Print Assumptions cfit_ext_hess_is_derive.

(* ---- non-vacuity: the hypotheses hold for concrete, non-constant inputs ---- *)

(* two events, s_1 = 1 + u^2, s_2 = 2 + u;  d_k s_1 = 3 u, d_k s_2 = u^2 - 1;
   I = 2 + u, d_k I = 1 + 2 u;  point t = 1, c1 = 1/2, c2 = [1/2; 1/3], weights [1; 2] *)
Example cfit_hess_hypotheses_satisfiable :
  let Ss := [(fun u : R => 1 + u * u); (fun u : R => 2 + u)] in
  let As := [(fun u : R => 3 * u); (fun u : R => u * u - 1)] in
  let Iu := fun u : R => 2 + u in
  let Ik := fun u : R => 1 + 2 * u in
  let dSl := [2; 1] in
  let d2S := [3; 2] in
  let c2 := [1 / 2; 1 / 3] in
  Forall2 (fun (S : R -> R) (d : R) => is_derive S 1 d) Ss dSl /\
  Forall2 (fun (A : R -> R) (d : R) => is_derive A 1 d) As d2S /\
  is_derive Iu 1 1 /\ is_derive Ik 1 2 /\ Iu 1 <> 0 /\
  List.Forall (fun x => x <> 0) (cfit_P (1 / 2) (Iu 1) (evalat Ss 1) c2) /\
  is_derive (fun u => grad_cfit_ext (1 / 2) [1; 2] (evalat Ss u) (evalat As u) c2 (Iu u) (Ik u)) 1
            (hess_cfit_ext (1 / 2) [1; 2] (evalat Ss 1) (evalat As 1) dSl d2S c2 (Iu 1) (Ik 1) 1 2).
Proof.
  intros Ss As Iu Ik dSl d2S c2.
  assert (H1 : Forall2 (fun (S : R -> R) (d : R) => is_derive S 1 d) Ss dSl).
  { subst Ss dSl. apply Forall2_cons; [|apply Forall2_cons; [|apply Forall2_nil]]; (auto_derive; [exact I | ring]). }
  assert (H2 : Forall2 (fun (A : R -> R) (d : R) => is_derive A 1 d) As d2S).
  { subst As d2S. apply Forall2_cons; [|apply Forall2_cons; [|apply Forall2_nil]]; (auto_derive; [exact I | ring]). }
  assert (H3 : is_derive Iu 1 1) by (subst Iu; auto_derive; [exact I | ring]).
  assert (H4 : is_derive Ik 1 2) by (subst Ik; auto_derive; [exact I | ring]).
  assert (H5 : Iu 1 <> 0) by (subst Iu; cbv beta; lra).
  assert (H6 : List.Forall (fun x => x <> 0) (cfit_P (1 / 2) (Iu 1) (evalat Ss 1) c2)).
  { subst Ss Iu c2. unfold evalat. cbn [map cfit_P]. apply Forall_cons; [|apply Forall_cons; [|apply Forall_nil]]; lra. }
  refine (conj H1 (conj H2 (conj H3 (conj H4 (conj H5 (conj H6 _)))))).
  apply cfit_ext_hess_is_derive; assumption.
Qed.

(* the derivative in the example is a definite number, not an artefact of division by zero *)
Example cfit_hess_example_value :
  hess_cfit_ext (1 / 2) [1; 2] [2; 3] [3; 0] [2; 1] [3; 2] [1 / 2; 1 / 3] 3 3 1 2 = 199 / 75.
Proof.
  unfold hess_cfit_ext, hess_cfit. cbn [cfit_P cfit_dP cfit_d2P hterms rdot rsum]. field.
Qed.
