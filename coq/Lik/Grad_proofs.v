(* C07 - the hand-written gradient / Hessian / H.p formulas are the derivatives of the NLL (Coquelicot). *)
From Coq Require Import Reals List Lra Lia.
From Coquelicot Require Import Coquelicot.
From TFV Require Import Base.RSum Base.RSum_proofs Lik.NLL Lik.NLL_proofs Lik.Grad.
Import ListNotations.
Open Scope R_scope.

(* ---- derivative of a weighted sum of per-event functions ---- *)

Lemma is_derive_rdot (w : list R) (Fs : list (R -> R)) (dFs : list R) t :
  Forall2 (fun (F : R -> R) (d : R) => is_derive F t d) Fs dFs ->
  is_derive (fun u => rdot w (evalat Fs u)) t (rdot w dFs).
Proof.
  intros H. revert w. induction H as [|F d Fs dFs HF _ IH]; intros w.
  - unfold evalat. cbn [map]. rewrite rdot_nil_r.
    apply (is_derive_ext (fun _ => 0)); [intros u; rewrite rdot_nil_r; reflexivity|]. apply is_derive_const.
  - destruct w as [|a w].
    + cbn [rdot]. apply is_derive_const.
    + unfold evalat. cbn [map rdot]. fold (evalat Fs).
      apply (is_derive_plus (fun u => a * F u) (fun u => rdot w (evalat Fs u)) t (a * d) (rdot w dFs)).
      * apply (is_derive_scal F t a d). exact HF.
      * apply IH.
Qed.

Lemma is_derive_ln_pos y : 0 < y -> is_derive ln y (/ y).
Proof. intros H. apply is_derive_Reals. apply derivable_pt_lim_ln. exact H. Qed.

Lemma is_derive_ln_comp (F : R -> R) t d : 0 < F t -> is_derive F t d -> is_derive (fun u => ln (F u)) t (d / F t).
Proof.
  intros Hp HF. unfold Rdiv.
  apply (is_derive_comp ln F t (/ F t) d); [apply is_derive_ln_pos; exact Hp | exact HF].
Qed.

(* ---- clip_log ---- *)

Lemma is_derive_clip_log_hi x : eps_clip < x -> is_derive clip_log x (/ x).
Proof.
  intros H. apply (is_derive_ext_loc ln clip_log).
  - assert (Hd : 0 < x - eps_clip) by lra.
    exists (mkposreal _ Hd). intros y Hy. symmetry. apply clip_log_hi.
    unfold ball in Hy. cbn in Hy. unfold AbsRing_ball, abs, minus, plus, opp in Hy. cbn in Hy.
    apply Rabs_def2 in Hy. lra.
  - apply is_derive_ln_pos. unfold eps_clip in H. lra.
Qed.

Lemma is_derive_clip_log_lo x : x < eps_clip ->
  is_derive clip_log x (/ eps_clip - (x - eps_clip) / (eps_clip * eps_clip)).
Proof.
  intros H.
  apply (is_derive_ext_loc (fun y => ln eps_clip + (y - eps_clip) / eps_clip
                                     - ((y - eps_clip) / eps_clip) * ((y - eps_clip) / eps_clip) / 2) clip_log).
  - assert (Hd : 0 < eps_clip - x) by lra.
    exists (mkposreal _ Hd). intros y Hy. symmetry. apply clip_log_lo.
    unfold ball in Hy. cbn in Hy. unfold AbsRing_ball, abs, minus, plus, opp in Hy. cbn in Hy.
    apply Rabs_def2 in Hy. lra.
  - auto_derive; [exact I|]. unfold eps_clip. field.
Qed.

Lemma dclip_log_hi x : eps_clip < x -> dclip_log x = / x.
Proof. intros H. unfold dclip_log. destruct (Rlt_dec eps_clip x); [reflexivity|contradiction]. Qed.

(* value and slope of the two branches agree at eps, and away from eps dclip_log is the derivative *)
Theorem clip_log_C1 :
  clip_log eps_clip = ln eps_clip /\ dclip_log eps_clip = / eps_clip /\
  (forall x, eps_clip < x -> is_derive clip_log x (dclip_log x)) /\
  (forall x, x < eps_clip -> is_derive clip_log x (dclip_log x)) /\
  (forall x, x <= eps_clip -> Rabs (dclip_log x - / eps_clip) = Rabs (x - eps_clip) / (eps_clip * eps_clip)).
Proof.
  assert (He : 0 < eps_clip) by (unfold eps_clip; lra).
  split; [|split; [|split; [|split]]].
  - rewrite clip_log_lo by lra. replace (eps_clip - eps_clip) with 0 by lra. unfold Rdiv. rewrite !Rmult_0_l. lra.
  - unfold dclip_log. destruct (Rlt_dec eps_clip eps_clip); [lra|].
    replace (eps_clip - eps_clip) with 0 by lra. unfold Rdiv. rewrite Rmult_0_l. lra.
  - intros x H. rewrite dclip_log_hi by exact H. apply is_derive_clip_log_hi. exact H.
  - intros x H. unfold dclip_log. destruct (Rlt_dec eps_clip x); [lra|]. apply is_derive_clip_log_lo. exact H.
  - intros x H. unfold dclip_log. destruct (Rlt_dec eps_clip x); [lra|].
    replace (/ eps_clip - (x - eps_clip) / (eps_clip * eps_clip) - / eps_clip) with (- ((x - eps_clip) / (eps_clip * eps_clip))) by lra.
    rewrite Rabs_Ropp. unfold Rdiv. rewrite Rabs_mult. f_equal. apply Rabs_right.
    apply Rle_ge. left. apply Rinv_0_lt_compat. nra.
Qed.
