(* C07 - the hand-written gradient / Hessian / H.p formulas are the derivatives of the NLL (Coquelicot). *)
From Coq Require Import Reals List Lra Lia.
From Coquelicot Require Import Coquelicot.
From TFV Require Import Base.RSum Base.RSum_proofs Lik.NLL Lik.NLL_proofs Lik.Grad.
Import ListNotations.
Open Scope R_scope.

(* ---- derivative of a weighted sum of per-event functions ---- *)

Lemma is_derive_const_R (c t : R) : is_derive (fun _ : R => c) t 0.
Proof. auto_derive; [exact I | ring]. Qed.

Lemma is_derive_rdot (w : list R) (Fs : list (R -> R)) (dFs : list R) (t : R) :
  Forall2 (fun (F : R -> R) (d : R) => is_derive F t d) Fs dFs ->
  is_derive (fun u => rdot w (evalat Fs u)) t (rdot w dFs).
Proof.
  intros H. revert w. induction H as [|F d Fs dFs HF _ IH]; intros w.
  - unfold evalat. cbn [map]. rewrite rdot_nil_r. apply is_derive_const_R.
  - destruct w as [|a w].
    + cbn [rdot]. apply is_derive_const_R.
    + unfold evalat. cbn [map rdot]. fold (evalat Fs).
      apply (is_derive_plus (fun u => a * F u) (fun u => rdot w (evalat Fs u)) t (a * d) (rdot w dFs)).
      * apply (is_derive_scal F t a d). exact HF.
      * apply IH.
Qed.

Lemma is_derive_ln_pos (y : R) : 0 < y -> is_derive ln y (/ y).
Proof. intros H. apply is_derive_Reals. apply derivable_pt_lim_ln. exact H. Qed.

Lemma is_derive_ln_comp (F : R -> R) (t d : R) : 0 < F t -> is_derive F t d -> is_derive (fun u => ln (F u)) t (d / F t).
Proof.
  intros Hp HF. unfold Rdiv.
  apply (is_derive_comp ln F t (/ F t) d); [apply is_derive_ln_pos; exact Hp | exact HF].
Qed.

(* ---- clip_log ---- *)

Lemma is_derive_clip_log_hi (x : R) : eps_clip < x -> is_derive clip_log x (/ x).
Proof.
  intros H. apply (is_derive_ext_loc ln clip_log).
  - assert (Hd : 0 < x - eps_clip) by lra.
    exists (mkposreal _ Hd). intros y Hy. symmetry. apply clip_log_hi.
    unfold ball in Hy. cbn in Hy. unfold AbsRing_ball, abs, minus, plus, opp in Hy. cbn in Hy.
    apply Rabs_def2 in Hy. lra.
  - apply is_derive_ln_pos. unfold eps_clip in H. lra.
Qed.

Lemma is_derive_clip_log_lo (x : R) : x < eps_clip ->
  is_derive clip_log x (/ eps_clip - (x - eps_clip) / (eps_clip * eps_clip)).
Proof.
  intros H.
  apply (is_derive_ext_loc (fun y => ln eps_clip + (y - eps_clip) / eps_clip
                                     - ((y - eps_clip) / eps_clip) * ((y - eps_clip) / eps_clip) / 2) clip_log).
  - assert (Hd : 0 < eps_clip - x) by lra.
    exists (mkposreal _ Hd). intros y Hy. symmetry. apply clip_log_lo.
    unfold ball in Hy. cbn in Hy. unfold AbsRing_ball, abs, minus, plus, opp in Hy. cbn in Hy.
    apply Rabs_def2 in Hy. lra.
  - auto_derive; [exact I|]. unfold eps_clip. field.
Qed.

Lemma dclip_log_hi x : eps_clip < x -> dclip_log x = / x.
Proof. intros H. unfold dclip_log. destruct (Rlt_dec eps_clip x); [reflexivity|contradiction]. Qed.

(* value and slope of the two branches agree at eps, and away from eps dclip_log is the derivative *)
Theorem clip_log_C1 :
  clip_log eps_clip = ln eps_clip /\ dclip_log eps_clip = / eps_clip /\
  (forall x, eps_clip < x -> is_derive clip_log x (dclip_log x)) /\
  (forall x, x < eps_clip -> is_derive clip_log x (dclip_log x)) /\
  (forall x, x <= eps_clip -> Rabs (dclip_log x - / eps_clip) = Rabs (x - eps_clip) / (eps_clip * eps_clip)).
Proof.
  assert (He : 0 < eps_clip) by (unfold eps_clip; lra).
  split; [|split; [|split; [|split]]].
  - rewrite clip_log_lo by lra. replace (eps_clip - eps_clip) with 0 by lra. unfold Rdiv. rewrite !Rmult_0_l. lra.
  - unfold dclip_log. destruct (Rlt_dec eps_clip eps_clip); [lra|].
    replace (eps_clip - eps_clip) with 0 by lra. unfold Rdiv. rewrite Rmult_0_l. lra.
  - intros x H. rewrite dclip_log_hi by exact H. apply is_derive_clip_log_hi. exact H.
  - intros x H. unfold dclip_log. destruct (Rlt_dec eps_clip x); [lra|]. apply is_derive_clip_log_lo. exact H.
  - intros x H. unfold dclip_log. destruct (Rlt_dec eps_clip x); [lra|].
    replace (/ eps_clip - (x - eps_clip) / (eps_clip * eps_clip) - / eps_clip) with (- ((x - eps_clip) / (eps_clip * eps_clip))) by lra.
    rewrite Rabs_Ropp. unfold Rdiv. rewrite Rabs_mult. f_equal. apply Rabs_right.
    apply Rle_ge. left. apply Rinv_0_lt_compat. nra.
Qed.

(* ---- gradient of the default / extended NLL ---- *)

Lemma is_derive_rdot_clip (w : list R) (Fs : list (R -> R)) (dF : list R) (t : R) :
  Forall2 (fun (F : R -> R) (d : R) => is_derive F t d) Fs dF ->
  List.Forall (fun F : R -> R => eps_clip < F t) Fs ->
  is_derive (fun u => rdot w (map clip_log (evalat Fs u))) t (rdot w (rzip Rdiv dF (evalat Fs t))).
Proof.
  intros H. revert w. induction H as [|F d Fs dFs HF _ IH]; intros w Hp.
  - unfold evalat. cbn [map rzip]. rewrite !rdot_nil_r. apply is_derive_const_R.
  - inversion Hp as [|F' Fs' HF0 Hp' E]; subst. destruct w as [|a w].
    + cbn [rdot]. apply is_derive_const_R.
    + unfold evalat. cbn [map rzip rdot]. fold (evalat Fs).
      apply (is_derive_plus (fun u => a * clip_log (F u)) (fun u => rdot w (map clip_log (evalat Fs u))) t
               (a * (d / F t)) (rdot w (rzip Rdiv dFs (evalat Fs t)))).
      * apply (is_derive_scal (fun u => clip_log (F u)) t a (d / F t)). unfold Rdiv.
        apply (is_derive_comp clip_log F t (/ F t) d); [apply is_derive_clip_log_hi; exact HF0 | exact HF].
      * apply IH. exact Hp'.
Qed.

Lemma is_derive_int_f ext (Iu : R -> R) (t dI : R) :
  is_derive Iu t dI -> (ext = false -> 0 < Iu t) ->
  is_derive (fun u => int_f ext (Iu u)) t (dI * int_g ext (Iu t)).
Proof.
  intros HI Hp. destruct ext; cbn [int_f int_g].
  - replace (dI * 1) with dI by ring. exact HI.
  - apply (is_derive_comp ln Iu t (/ Iu t) dI); [apply is_derive_ln_pos; auto | exact HI].
Qed.

(* d/dtheta of the NLL value returned by FCN.nll_grad is the returned gradient component *)
Theorem grad_default_is_derive ext (w v : list R) (Fs Gs : list (R -> R)) (dF dG : list R) (t : R) :
  Forall2 (fun (F : R -> R) (d : R) => is_derive F t d) Fs dF ->
  Forall2 (fun (G : R -> R) (d : R) => is_derive G t d) Gs dG ->
  List.Forall (fun F : R -> R => eps_clip < F t) Fs ->
  (ext = false -> 0 < rdot v (evalat Gs t)) ->
  is_derive (fun u => nll_gradval ext w (evalat Fs u) v (evalat Gs u)) t
            (grad_default ext w (evalat Fs t) dF v (evalat Gs t) dG).
Proof.
  intros HF HG Hp HI. unfold nll_gradval, grad_default.
  apply (is_derive_plus (fun u => - rdot w (map clip_log (evalat Fs u)))
           (fun u => rsum w * int_f ext (rdot v (evalat Gs u))) t
           (- rdot w (rzip Rdiv dF (evalat Fs t))) (rsum w * (rdot v dG * int_g ext (rdot v (evalat Gs t))))).
  - apply (is_derive_opp (fun u => rdot w (map clip_log (evalat Fs u))) t). apply is_derive_rdot_clip; assumption.
  - apply (is_derive_scal (fun u => int_f ext (rdot v (evalat Gs u))) t (rsum w)).
    apply (is_derive_int_f ext (fun u => rdot v (evalat Gs u)) t (rdot v dG)); [apply is_derive_rdot; exact HG | exact HI].
Qed.

(* ---- Hessian: derivative of the gradient component k along coordinate l ---- *)

Lemma is_derive_quot (A F : R -> R) (t a' f' : R) :
  is_derive A t a' -> is_derive F t f' -> F t <> 0 ->
  is_derive (fun u => A u / F u) t (a' / F t - A t * f' / (F t * F t)).
Proof.
  intros HA HF H0. auto_derive.
  - repeat split; auto; [exists a'; exact HA | exists f'; exact HF].
  - replace (Derive (fun x : R => A x) t) with a' by (symmetry; apply is_derive_unique; exact HA).
    replace (Derive (fun x : R => F x) t) with f' by (symmetry; apply is_derive_unique; exact HF). field. exact H0.
Qed.

Lemma is_derive_rdot_quot (w : list R) (Fs As : list (R -> R)) (dFl d2F : list R) (t : R) :
  Forall2 (fun (F : R -> R) (d : R) => is_derive F t d) Fs dFl ->
  Forall2 (fun (A : R -> R) (d : R) => is_derive A t d) As d2F ->
  List.Forall (fun F : R -> R => F t <> 0) Fs ->
  is_derive (fun u => rdot w (rzip Rdiv (evalat As u) (evalat Fs u))) t
            (rdot w (hterms (evalat Fs t) (evalat As t) dFl d2F)).
Proof.
  intros HF. revert w As d2F. induction HF as [|F d Fs dFs HF1 _ IH]; intros w As d2F HA Hp.
  - unfold evalat. cbn [map]. destruct As; cbn [map rzip hterms]; rewrite !rdot_nil_r; apply is_derive_const_R.
  - inversion Hp as [|F' Fs' HF0 Hp' E]; subst.
    destruct HA as [|A a2 As d2Fs HA1 HA].
    + unfold evalat. cbn [map rzip hterms]. rewrite !rdot_nil_r. apply is_derive_const_R.
    + destruct w as [|a w].
      * cbn [rdot]. apply is_derive_const_R.
      * unfold evalat. cbn [map rzip hterms rdot]. fold (evalat Fs). fold (evalat As).
        apply (is_derive_plus (fun u => a * (A u / F u)) (fun u => rdot w (rzip Rdiv (evalat As u) (evalat Fs u))) t
                 (a * (a2 / F t - A t * d / (F t * F t))) (rdot w (hterms (evalat Fs t) (evalat As t) dFs d2Fs))).
        -- apply (is_derive_scal (fun u => A u / F u) t a). apply is_derive_quot; assumption.
        -- apply IH; assumption.
Qed.

Lemma is_derive_int_g_prod ext (Ju Iu : R -> R) (t dJ dI : R) :
  is_derive Ju t dJ -> is_derive Iu t dI -> (ext = false -> Iu t <> 0) ->
  is_derive (fun u => Ju u * int_g ext (Iu u)) t
            (Ju t * dI * int_h ext (Iu t) + dJ * int_g ext (Iu t)).
Proof.
  intros HJ HI H0. destruct ext; cbn [int_g int_h].
  - apply (is_derive_ext Ju); [intros u; rewrite Rmult_1_r; reflexivity|]. replace (Ju t * dI * 0 + dJ * 1) with dJ by ring. exact HJ.
  - specialize (H0 eq_refl). auto_derive.
    + repeat split; auto; [exists dJ; exact HJ | exists dI; exact HI].
    + replace (Derive (fun x : R => Ju x) t) with dJ by (symmetry; apply is_derive_unique; exact HJ).
      replace (Derive (fun x : R => Iu x) t) with dI by (symmetry; apply is_derive_unique; exact HI). field. exact H0.
Qed.

Theorem hess_default_is_derive ext (w v : list R) (Fs As Gs Bs : list (R -> R)) (dFl d2F dGl d2G : list R) (t : R) :
  Forall2 (fun (F : R -> R) (d : R) => is_derive F t d) Fs dFl ->
  Forall2 (fun (A : R -> R) (d : R) => is_derive A t d) As d2F ->
  Forall2 (fun (G : R -> R) (d : R) => is_derive G t d) Gs dGl ->
  Forall2 (fun (B : R -> R) (d : R) => is_derive B t d) Bs d2G ->
  List.Forall (fun F : R -> R => F t <> 0) Fs ->
  (ext = false -> rdot v (evalat Gs t) <> 0) ->
  is_derive (fun u => grad_default ext w (evalat Fs u) (evalat As u) v (evalat Gs u) (evalat Bs u)) t
            (hess_default ext w (evalat Fs t) (evalat As t) dFl d2F v (evalat Gs t) (evalat Bs t) dGl d2G).
Proof.
  intros HF HA HG HB Hp HI. unfold grad_default, hess_default.
  replace (- rdot w (hterms (evalat Fs t) (evalat As t) dFl d2F)
           + rsum w * (rdot v (evalat Bs t) * rdot v dGl * int_h ext (rdot v (evalat Gs t)))
           + rsum w * (rdot v d2G * int_g ext (rdot v (evalat Gs t))))
    with (- rdot w (hterms (evalat Fs t) (evalat As t) dFl d2F)
          + rsum w * (rdot v (evalat Bs t) * rdot v dGl * int_h ext (rdot v (evalat Gs t))
                      + rdot v d2G * int_g ext (rdot v (evalat Gs t)))) by ring.
  apply (is_derive_plus (fun u => - rdot w (rzip Rdiv (evalat As u) (evalat Fs u)))
           (fun u => rsum w * (rdot v (evalat Bs u) * int_g ext (rdot v (evalat Gs u)))) t).
  - apply (is_derive_opp (fun u => rdot w (rzip Rdiv (evalat As u) (evalat Fs u))) t). apply is_derive_rdot_quot; assumption.
  - apply (is_derive_scal (fun u => rdot v (evalat Bs u) * int_g ext (rdot v (evalat Gs u))) t (rsum w)).
    apply (is_derive_int_g_prod ext (fun u => rdot v (evalat Bs u)) (fun u => rdot v (evalat Gs u)) t (rdot v d2G) (rdot v dGl));
      [apply is_derive_rdot; exact HB | apply is_derive_rdot; exact HG | exact HI].
Qed.

(* ---- Hessian-vector product ---- *)

(* the hand-assembled H.p of grad_hessp_batch is row k of the Hessian times p, when the two
   autodiff products are (H_lndata p)_k and (H_int p)_k *)
Theorem hessp_is_hess_times_p ext sw int gik (hln hint gi p : list R) :
  length hln = length p -> length hint = length p -> length gi = length p ->
  hessp_default ext sw int (rdot hln p) (rdot hint p) gik (rdot gi p)
  = row_dot (hess_row ext sw int gik hln hint gi) p.
Proof.
  unfold hessp_default, row_dot. revert hln hint gi.
  induction p as [|q p IH]; intros hln hint gi L1 L2 L3.
  - rewrite !rdot_nil_r. ring.
  - destruct hln as [|a hln]; [discriminate|]. destruct hint as [|b hint]; [discriminate|]. destruct gi as [|c gi]; [discriminate|].
    cbn [hess_row rdot]. cbn [length] in L1, L2, L3.
    rewrite <- (IH hln hint gi) by (injection L1; injection L2; injection L3; auto). ring.
Qed.

Lemma rdot_rzip_plus (a b p : list R) : length a = length b ->
  rdot (rzip Rplus a b) p = rdot a p + rdot b p.
Proof.
  revert b p. induction a as [|x a IH]; intros [|y b] p L; cbn [length] in L; try discriminate.
  - cbn. lra.
  - destruct p as [|q p]; cbn [rzip rdot]; [lra|]. rewrite IH by (injection L; auto). ring.
Qed.

Lemma rdot_repeat0 n p : rdot (repeat 0 n) p = 0.
Proof. revert p. induction n as [|n IH]; intros [|q p]; cbn [repeat rdot]; try lra. rewrite IH. ring. Qed.

Lemma rdot_unit_row k n c p : (k < n)%nat -> rdot (unit_row k n c) p = c * nth k p 0.
Proof.
  revert k p. induction n as [|n IH]; intros k p H; [lia|].
  destruct k as [|k]; destruct p as [|q p]; cbn [unit_row rdot nth]; try ring.
  - rewrite rdot_repeat0. ring.
  - rewrite IH by lia. ring.
Qed.

Lemma length_unit_row k n c : length (unit_row k n c) = n.
Proof.
  revert k. induction n as [|n IH]; intros k; [destruct k; reflexivity|]. destruct k; cbn [unit_row length]; [rewrite repeat_length | rewrite IH]; reflexivity.
Qed.

(* FCN.grad_hessp: (H + H_c) p with the diagonal constraint Hessian - the statement defect F5 violated *)
Theorem hessp_with_constraint (hrow p : list R) k ch :
  (k < length hrow)%nat ->
  hessp_total (row_dot hrow p) ch (nth k p 0) = row_dot (rzip Rplus hrow (unit_row k (length hrow) ch)) p.
Proof.
  intros H. unfold hessp_total, row_dot.
  rewrite rdot_rzip_plus by (rewrite length_unit_row; reflexivity). rewrite rdot_unit_row by exact H. reflexivity.
Qed.

(* ---- Gaussian constraints ---- *)

Theorem gauss_grad_is_derive (th mean sigma : R) :
  is_derive (fun x => gauss_one (x, mean, sigma)) th (gauss_grad (th, mean, sigma)).
Proof. unfold gauss_one, gauss_grad. cbv beta iota. auto_derive; [exact I|]. unfold Rdiv. set (k := / (sigma * sigma)). field. Qed.

Theorem gauss_hess_is_derive (th mean sigma : R) :
  is_derive (fun x => gauss_grad (x, mean, sigma)) th (gauss_hess (th, mean, sigma)).
Proof. unfold gauss_grad, gauss_hess. cbv beta iota. auto_derive; [exact I|]. unfold Rdiv. set (k := / (sigma * sigma)). field. Qed.

(* value / gradient / Hessian of "NLL + constraint" are sums (linearity of the derivative) *)
Theorem total_is_derive (N : R -> R) (th g mean sigma : R) :
  is_derive N th g ->
  is_derive (fun x => fcn_total (N x) [(x, mean, sigma)]) th (grad_total g (gauss_grad (th, mean, sigma))).
Proof.
  intros H. unfold fcn_total, grad_total, gauss_term. cbn [map rsum].
  apply (is_derive_plus N (fun x => gauss_one (x, mean, sigma) + 0) th g (gauss_grad (th, mean, sigma))); [exact H|].
  apply (is_derive_ext (fun x => gauss_one (x, mean, sigma))); [intros x; rewrite Rplus_0_r; reflexivity|].
  apply gauss_grad_is_derive.
Qed.

(* ---- bounded parameters ---- *)

Lemma sqrt_arg_pos x : 0 < x * x + 1.
Proof. nra. Qed.

Theorem bound_dydx_is_derive (a b x : R) :
  is_derive (y_sin a b) x (dy_sin a b x) /\ is_derive (y_lo a) x (dy_lo x) /\ is_derive (y_up b) x (dy_up x).
Proof.
  pose proof (sqrt_arg_pos x) as P. assert (Q : 0 < sqrt (x * x + 1)) by (apply sqrt_lt_R0; exact P).
  split; [|split].
  - unfold y_sin, dy_sin. auto_derive; [exact I|]. field.
  - unfold y_lo, dy_lo. auto_derive; [exact P|]. field. lra.
  - unfold y_up, dy_up. auto_derive; [exact P|]. field. lra.
Qed.

Theorem bound_d2ydx2_is_derive (a b x : R) :
  is_derive (dy_sin a b) x (d2y_sin a b x) /\ is_derive dy_lo x (d2y_lo x) /\ is_derive dy_up x (d2y_up x).
Proof.
  pose proof (sqrt_arg_pos x) as P. assert (Q : 0 < sqrt (x * x + 1)) by (apply sqrt_lt_R0; exact P).
  assert (S : sqrt (x * x + 1) * sqrt (x * x + 1) = x * x + 1) by (apply sqrt_sqrt; lra).
  split; [|split].
  - unfold dy_sin, d2y_sin. auto_derive; [exact I|]. field.
  - unfold dy_lo, d2y_lo. auto_derive; [repeat split; [exact P | lra]|].
    set (r := sqrt (x * x + 1)) in *. replace (x * x + 1) with (r * r) by lra.
    field_simplify_eq; [|lra]. nra.
  - unfold dy_up, d2y_up. auto_derive; [repeat split; [exact P | lra]|].
    set (r := sqrt (x * x + 1)) in *. replace (x * x + 1) with (r * r) by lra.
    field_simplify_eq; [|lra]. nra.
Qed.

(* the transforms map into the bounds *)
Theorem bound_range (a b x : R) : a <= b -> a <= y_sin a b x <= b /\ a <= y_lo a x /\ y_up b x <= b.
Proof.
  intros H. pose proof (SIN_bound x) as [S1 S2].
  assert (Q : 1 <= sqrt (x * x + 1)).
  { rewrite <- sqrt_1 at 1. apply sqrt_le_1_alt. nra. }
  unfold y_sin, y_lo, y_up. repeat split; try nra.
Qed.

(* trans_fcn_grad : d/dx F(y(x)) = F'(y) y' *)
Theorem trans_fcn_grad_chain (F Y : R -> R) (x gy dy : R) :
  is_derive F (Y x) gy -> is_derive Y x dy -> is_derive (fun u => F (Y u)) x (trans_grad gy dy).
Proof. intros HF HY. unfold trans_grad. rewrite Rmult_comm. apply (is_derive_comp F Y x gy dy); assumption. Qed.

(* trans_f_grad_hess, diagonal entry: d/dx [ G(y(x)) y'(x) ] = y' H y' + G y'' *)
Theorem trans_f_grad_hess_chain_diag (G Y dY : R -> R) (x hy d2y : R) :
  is_derive G (Y x) hy -> is_derive Y x (dY x) -> is_derive dY x d2y ->
  is_derive (fun u => trans_grad (G (Y u)) (dY u)) x (trans_hess hy (dY x) (dY x) (G (Y x)) d2y true).
Proof.
  intros HG HY HdY. unfold trans_grad, trans_hess.
  assert (HC : is_derive (fun u => G (Y u)) x (hy * dY x)).
  { rewrite Rmult_comm. apply (is_derive_comp G Y x hy (dY x)); assumption. }
  replace (dY x * hy * dY x + G (Y x) * d2y) with ((hy * dY x) * dY x + G (Y x) * d2y) by ring.
  apply (is_derive_mult (fun u => G (Y u)) dY x (hy * dY x) d2y); [exact HC | exact HdY | intros n m; apply Rmult_comm].
Qed.

(* off-diagonal entry: G_k depends on x_l only through y_l; y'_k is a constant c there *)
Theorem trans_f_grad_hess_chain_offdiag (Gk Yl : R -> R) (xl hkl dyl c : R) :
  is_derive Gk (Yl xl) hkl -> is_derive Yl xl dyl ->
  is_derive (fun u => trans_grad (Gk (Yl u)) c) xl (trans_hess hkl c dyl 0 0 false).
Proof.
  intros HG HY. unfold trans_grad, trans_hess.
  replace (c * hkl * dyl) with ((dyl * hkl) * c) by ring.
  apply (is_derive_ext (fun u => c * Gk (Yl u))); [intros u; apply Rmult_comm|].
  replace (dyl * hkl * c) with (c * (dyl * hkl)) by ring.
  apply (is_derive_scal (fun u => Gk (Yl u)) xl c). apply (is_derive_comp Gk Yl xl hkl dyl); assumption.
Qed.

(* trans_grad_hessp: row k of H_x times p, from the y-space product with p .* y' *)
Theorem trans_grad_hessp_chain (hrow dys p : list R) (dyk gk d2k pk : R) :
  length hrow = length p -> length dys = length p ->
  trans_hessp (rdot hrow (rzip Rmult p dys)) dyk gk d2k pk
  = rdot (rzip (fun h dy => trans_hess h dyk dy 0 0 false) hrow dys) p + gk * d2k * pk.
Proof.
  unfold trans_hessp, trans_hess. intros L1 L2. f_equal.
  revert hrow dys L1 L2. induction p as [|q p IH]; intros hrow dys L1 L2.
  - destruct hrow; destruct dys; cbn; try ring; discriminate.
  - destruct hrow as [|h hrow]; [discriminate|]. destruct dys as [|d dys]; [discriminate|].
    cbn [rzip rdot]. cbn [length] in L1, L2. rewrite <- (IH hrow dys) by (injection L1; injection L2; auto). ring.
Qed.

(* ---- cfit: per-event chain rule through I_sig ---- *)

Lemma cfit_event_is_derive (c1 c2 : R) (S Iu : R -> R) (t dS dI : R) :
  is_derive S t dS -> is_derive Iu t dI -> Iu t <> 0 ->
  is_derive (fun u => c1 * S u / Iu u + c2) t (c1 * (dS * Iu t - S t * dI) / (Iu t * Iu t)).
Proof.
  intros HS HI H0. auto_derive.
  - repeat split; auto; [exists dS; exact HS | exists dI; exact HI].
  - replace (Derive (fun x : R => S x) t) with dS by (symmetry; apply is_derive_unique; exact HS).
    replace (Derive (fun x : R => Iu x) t) with dI by (symmetry; apply is_derive_unique; exact HI). field. exact H0.
Qed.

Theorem cfit_grad_is_derive (c1 : R) (W c2 : list R) (Ss : list (R -> R)) (dS : list R) (Iu : R -> R) (t dI : R) :
  Forall2 (fun (S : R -> R) (d : R) => is_derive S t d) Ss dS ->
  is_derive Iu t dI -> Iu t <> 0 ->
  List.Forall (fun x => 0 < x) (cfit_P c1 (Iu t) (evalat Ss t) c2) ->
  is_derive (fun u => - rdot W (map ln (cfit_P c1 (Iu u) (evalat Ss u) c2))) t
            (grad_cfit c1 W (evalat Ss t) dS c2 (Iu t) dI).
Proof.
  intros HS HI H0 HP. unfold grad_cfit.
  apply (is_derive_opp (fun u => rdot W (map ln (cfit_P c1 (Iu u) (evalat Ss u) c2))) t).
  revert W c2 HP. induction HS as [|S d Ss dSs HS1 _ IH]; intros W c2 HP.
  - unfold evalat. cbn [map cfit_P cfit_dP rzip]. rewrite !rdot_nil_r. apply is_derive_const_R.
  - destruct c2 as [|c c2].
    + unfold evalat. cbn [map cfit_P cfit_dP rzip]. rewrite !rdot_nil_r. apply is_derive_const_R.
    + unfold evalat in *. cbn [map cfit_P cfit_dP rzip] in *. fold (evalat Ss) in *.
      inversion HP as [|p0 ps Hp0 HP' E]; subst.
      destruct W as [|a W]; [cbn [rdot]; apply is_derive_const_R|].
      cbn [rdot].
      apply (is_derive_plus (fun u => a * ln (c1 * S u / Iu u + c)) (fun u => rdot W (map ln (cfit_P c1 (Iu u) (evalat Ss u) c2))) t).
      * apply (is_derive_scal (fun u => ln (c1 * S u / Iu u + c)) t a).
        apply (is_derive_ln_comp (fun u => c1 * S u / Iu u + c) t); [exact Hp0|].
        apply cfit_event_is_derive; assumption.
      * apply IH. exact HP'.
Qed.

(* ---- additions of the C07 hunt-fix round ---- *)

(* constraints sharing one variable cell: value term -> gradient term -> Hessian term *)
Theorem gauss_cell_grad_is_derive (ms : list (R * R)) (th : R) :
  is_derive (fun x => gauss_term (gauss_cell x ms)) th (gauss_cell_grad th ms).
Proof.
  unfold gauss_term, gauss_cell_grad, gauss_cell. induction ms as [|[m s] ms IH].
  - cbn [map rsum]. apply is_derive_const_R.
  - cbn [map rsum fst snd].
    apply (is_derive_plus (fun x => gauss_one (x, m, s))
             (fun x => rsum (map gauss_one (map (fun c : R * R => (x, fst c, snd c)) ms))) th
             (gauss_grad (th, m, s))).
    + apply gauss_grad_is_derive.
    + exact IH.
Qed.

Theorem gauss_cell_hess_is_derive (ms : list (R * R)) (th : R) :
  is_derive (fun x => gauss_cell_grad x ms) th (gauss_cell_hess th ms).
Proof.
  unfold gauss_cell_grad, gauss_cell_hess, gauss_cell. induction ms as [|[m s] ms IH].
  - cbn [map rsum]. apply is_derive_const_R.
  - cbn [map rsum fst snd].
    apply (is_derive_plus (fun x => gauss_grad (x, m, s))
             (fun x => rsum (map gauss_grad (map (fun c : R * R => (x, fst c, snd c)) ms))) th
             (gauss_hess (th, m, s))).
    + apply gauss_hess_is_derive.
    + exact IH.
Qed.

Theorem total_shared_is_derive (N : R -> R) (th g : R) (ms : list (R * R)) :
  is_derive N th g ->
  is_derive (fun x => fcn_total (N x) (gauss_cell x ms)) th (grad_total g (gauss_cell_grad th ms)).
Proof.
  intros H. unfold fcn_total, grad_total.
  apply (is_derive_plus N (fun x => gauss_term (gauss_cell x ms)) th g (gauss_cell_grad th ms)); [exact H|].
  apply gauss_cell_grad_is_derive.
Qed.

(* the old gradient (constraint on the tied non-head name skipped) is not the derivative of the value *)
Theorem gauss_tied_old_refuted :
  exists (ms : list (bool * (R * R))) (th : R),
    ~ is_derive (fun x => gauss_term (gauss_cell x (map snd ms))) th (gauss_cell_grad_old th ms).
Proof.
  exists [(false, (0, 1))], 1. intros H.
  pose proof (gauss_cell_grad_is_derive [(0, 1)] 1) as H1. cbn [map snd] in H.
  pose proof (is_derive_unique _ _ _ H) as E. rewrite (is_derive_unique _ _ _ H1) in E.
  unfold gauss_cell_grad, gauss_cell_grad_old, gauss_cell, gauss_grad in E. cbn [map rsum fst snd] in E. lra.
Qed.

(* Cached_FG NaN repair: the central difference is exact on quadratics and is the derivative up to
   c h^2 on cubics; the old quotient is half the derivative (plus a/2 h) *)
Theorem fd_central_cubic (a b c d x h : R) : h <> 0 ->
  fd_central (fun u => d * (u * u * u) + a * (u * u) + b * u + c) x h = (3 * d * (x * x) + 2 * a * x + b) + d * (h * h).
Proof. intros Hh. unfold fd_central. field. exact Hh. Qed.

Theorem fd_central_cubic_is_derive (a b c d x : R) :
  is_derive (fun u => d * (u * u * u) + a * (u * u) + b * u + c) x (3 * d * (x * x) + 2 * a * x + b).
Proof. auto_derive; [exact I | ring]. Qed.

Theorem fd_old_refuted :
  exists (F : R -> R) (x h dF : R), h <> 0 /\ is_derive F x dF /\ fd_old F x h = dF / 2 /\ fd_old F x h <> dF.
Proof.
  exists (fun u => u), 0, 1, 1. split; [lra|]. split; [auto_derive; [exact I | ring]|].
  unfold fd_old. split; [field | lra].
Qed.

(* Model_cfit.nll: with clip_log (patch_5) the stand-alone value is the value returned by nll_grad_batch
   (FCN weights are already normalised: scale_w is idempotent); the old plain-ln value differs from it
   as soon as one event density is below the clip threshold *)
Theorem cfit_value_alongside_equals_standalone (fb : R) (w e f b V eg g bm : list R) :
  rsum w <> 0 -> rsum (sqs w) <> 0 ->
  cfit_call_clip fb (scale_w w) e f b V eg g bm = cfit_gradval fb (scale_w w) e f b V eg g bm.
Proof.
  intros Hs Hq. unfold cfit_call_clip, cfit_gradval. rewrite scale_w_idempotent by assumption. reflexivity.
Qed.

(* the OLD Model_cfit.nll (plain ln, NLL.cfit_call) is not the value nll_grad_batch returns (clip_log):
   one event of density 1e-7 (normalised weights, no background): ln 1e-7 = -16.1 against clip_log 1e-7 = -15.1 *)
Theorem cfit_old_value_alongside_refuted :
  exists (fb : R) (W e f b V eg g bm : list R),
    scale_w W = W /\ cfit_call fb W e f b V eg g bm <> cfit_gradval fb W e f b V eg g bm.
Proof.
  exists 0, [1], [1], [1 / 10000000], [1], [1], [1], [1], [1].
  assert (E : scale_w [1] = [1]).
  { unfold scale_w, alpha, sqs, rscale. cbn [map rsum]. f_equal. field. }
  split; [exact E|].
  unfold cfit_call, cfit_gradval. rewrite E.
  unfold cfit_probs, sig_of, cfit_prob. cbn [rzip rdot map].
  replace ((1 - 0) * (1 * (1 / 10000000)) / (1 * (1 * 1) + 0) + 0 * 1 / (1 * 1 + 0)) with (1 / 10000000) by field.
  unfold clip_log. destruct (Rlt_dec eps_clip (1 / 10000000)) as [H|_]; [unfold eps_clip in H; lra|].
  intros H. rewrite !Rmult_1_l, !Rplus_0_r in H. apply Ropp_eq_compat in H. rewrite !Ropp_involutive in H.
  assert (L : ln (1 / 10000000) < ln eps_clip - 2).
  { unfold eps_clip. replace (1 / 10000000) with (1 / 1000000 * / 10) by field.
    rewrite ln_mult by lra. rewrite ln_Rinv by lra.
    assert (2 < ln 10); [|lra].
    rewrite <- (ln_exp 2). apply ln_increasing; [apply exp_pos|].
    pose proof (exp_le_3) as H3. (* exp 1 <= 3 *)
    replace 2 with (1 + 1) by ring. rewrite exp_plus. pose proof (exp_pos 1) as Hp.
    assert (exp 1 * exp 1 <= 3 * 3) by (apply Rmult_le_compat; lra). lra. }
  unfold eps_clip in *. rewrite H in L. lra.
Qed.

Theorem cached_fg_central_difference (a b c d x h : R) : h <> 0 ->
  is_derive (fun u => d * (u * u * u) + a * (u * u) + b * u + c) x (3 * d * (x * x) + 2 * a * x + b) /\
  fd_central (fun u => d * (u * u * u) + a * (u * u) + b * u + c) x h = (3 * d * (x * x) + 2 * a * x + b) + d * (h * h).
Proof. intros Hh. split; [apply fd_central_cubic_is_derive | apply fd_central_cubic; exact Hh]. Qed.
