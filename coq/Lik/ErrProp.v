(* C09 - model of first-order error propagation in tf-pwa.  Definitions only.

   anchors:  tf_pwa/err_num.py            NumberError operators, cal_err
             tf_pwa/fitfractions.py:98-149 and :186-260   quotient-rule gradient of fit fractions
             tf_pwa/applications.py:55-61  sqrt(g^T V g);  :280 cal_hesse_error  sqrt|diag V|
             tf_pwa/params_trans.py:36-93  sqrt(g^T V g) / diag(J V J^T) from a tape Jacobian
             tf_pwa/variable.py:900        trans_error_matrix  V_y = y' V_x y'
   A value+-error number is a pair (value, error).  Python float power x**y (x > 0) is
   [rpw x y = exp (y ln x)] (= Coq's Rpower, lemma rpw_Rpower); integer powers of any base are
   [powerRZ]. *)
From Coq Require Import Reals List ZArith.
From TFV Require Import Base.RBase.
Import ListNotations.
Open Scope R_scope.

Definition NE := (R * R)%type.
Definition nval (a : NE) : R := fst a.
Definition nerr (a : NE) : R := snd a.

Definition rpw (x y : R) : R := exp (y * ln x).

(* ---------- err_num.py, operators with a NumberError on both sides ---------- *)
Definition ne_add (a b : NE) : NE := (nval a + nval b, sqrt (nerr a ^ 2 + nerr b ^ 2)).
Definition ne_sub (a b : NE) : NE := (nval a - nval b, sqrt (nerr a ^ 2 + nerr b ^ 2)).
Definition ne_mul (a b : NE) : NE :=
  (nval a * nval b, sqrt ((nerr a * nval b) ^ 2 + (nval a * nerr b) ^ 2)).
Definition ne_div (a b : NE) : NE :=
  (nval a / nval b, sqrt (nerr a ^ 2 + (nval a * nerr b / nval b) ^ 2) / Rabs (nval b)).
Definition ne_pow (a b : NE) : NE :=
  let v := rpw (nval a) (nval b) in
  let e1 := nval b * rpw (nval a) (nval b - 1) * nerr a in
  let e2 := ln (nval a) * v * nerr b in
  (v, sqrt (e1 ^ 2 + e2 ^ 2)).

(* ---------- a plain number on the right-hand side ---------- *)
Definition ne_add_c (a : NE) (c : R) : NE := (nval a + c, nerr a).
Definition ne_sub_c (a : NE) (c : R) : NE := (nval a - c, nerr a).
Definition ne_mul_c (a : NE) (c : R) : NE := (nval a * c, nerr a * Rabs c).
Definition ne_div_c (a : NE) (c : R) : NE := (nval a / c, nerr a / Rabs c).
Definition ne_pow_c (a : NE) (c : R) : NE :=
  (rpw (nval a) c, Rabs (c * rpw (nval a) (c - 1)) * nerr a).
(* integer exponent: defined for every base (Python float ** int) *)
Definition ne_pow_z (a : NE) (n : Z) : NE :=
  (powerRZ (nval a) n, Rabs (IZR n * powerRZ (nval a) (n - 1)) * nerr a).

(* ---------- unary, and the only reflected operator (__rpow__: c ** a) ---------- *)
Definition ne_neg (a : NE) : NE := (- nval a, nerr a).
Definition ne_rpow (c : R) (a : NE) : NE :=
  let v := rpw c (nval a) in (v, Rabs (ln c * v) * nerr a).
Definition ne_log (a : NE) : NE := (ln (nval a), nerr a / Rabs (nval a)).
Definition ne_exp (a : NE) : NE := (exp (nval a), exp (nval a) * nerr a).
(* NumberError.apply(fun, grad) *)
Definition ne_apply (f g : R -> R) (a : NE) : NE := (f (nval a), Rabs (g (nval a)) * nerr a).
(* NumberError.apply(fun) : central difference with step dx *)
Definition ne_apply_num (f : R -> R) (dx : R) (a : NE) : NE :=
  (f (nval a), Rabs ((f (nval a + dx) - f (nval a - dx)) / 2 / dx) * nerr a).

(* ---------- cal_err: sqrt (sum (g_i e_i)^2) ---------- *)
Fixpoint quad_sum (gs es : list R) : R :=
  match gs, es with
  | g :: gs', e :: es' => (g * e) ^ 2 + quad_sum gs' es'
  | _, _ => 0
  end.
Definition cal_err_grad (v : R) (gs es : list R) : NE := (v, sqrt (quad_sum gs es)).
(* numeric gradient of cal_err: (f(x + dx e_i) - f(x - dx e_i)) / 2 / dx *)
Fixpoint upd (xs : list R) (i : nat) (v : R) : list R :=
  match xs, i with
  | [], _ => []
  | _ :: t, O => v :: t
  | h :: t, S k => h :: upd t k v
  end.
Definition cdiff (f : list R -> R) (xs : list R) (dx : R) (i : nat) : R :=
  (f (upd xs i (nth i xs 0 + dx)) - f (upd xs i (nth i xs 0 - dx))) / 2 / dx.
Definition cal_err_num (f : list R -> R) (xs es : list R) (dx : R) : NE :=
  (f xs, sqrt (quad_sum (map (cdiff f xs dx) (seq 0 (length xs))) es)).

(* ---------- the rules before commits 3f1ea3b / 9f1dfe7 (kept for the record) ---------- *)
Definition ne_pow_old (a b : NE) : NE :=
  let v := rpw (nval a) (nval b) in
  let e1 := nval b * rpw (nval a) (nval b - 1) * nerr a in
  let e2 := ln (nval b) * v * nerr b in
  (v, sqrt (e1 ^ 2 + e2 ^ 2)).
Definition ne_rpow_old (c : R) (a : NE) : NE :=
  let v := rpw c (nval a) in (v, ln (nval a) * v * nerr a).
Definition ne_mul_c_old (a : NE) (c : R) : NE := (nval a * c, nerr a * c).
Definition ne_div_old (a b : NE) : NE :=
  (nval a / nval b, sqrt (nerr a ^ 2 + (nval a * nerr b / nval b) ^ 2) / nval b).

(* ---------- first-order propagation, the specification ---------- *)
Definition prop2 (d1 d2 ex ey : R) : R := sqrt ((d1 * ex) ^ 2 + (d2 * ey) ^ 2).
Definition prop1 (d ex : R) : R := Rabs d * ex.

(* ---------- vectors / matrices as lists (row major) ---------- *)
Fixpoint dot (a b : list R) : R :=
  match a, b with x :: a', y :: b' => x * y + dot a' b' | _, _ => 0 end.
Definition mat_vec (V : list (list R)) (g : list R) : list R := map (fun row => dot row g) V.
(* np.dot(np.dot(V, g), g) *)
Definition quad_form (V : list (list R)) (g : list R) : R := dot (mat_vec V g) g.
(* applications.fit_fractions / FitFractions.get_frac / ParamsTrans.get_error (scalar) *)
Definition err_prop (V : list (list R)) (g : list R) : R := sqrt (quad_form V g).
Definition mget (V : list (list R)) (i j : nat) : R := nth j (nth i V []) 0.
Definition mcol (V : list (list R)) (j : nat) : list R := map (fun row => nth j row 0) V.
(* (A B)_ij *)
Definition mmul_ij (A B : list (list R)) (i j : nat) : R := dot (nth i A []) (mcol B j).
Definition delta (i j : nat) : R := if Nat.eqb i j then 1 else 0.
(* row i of (H V - I): sum_j |.| is the infinity-norm contribution of that row *)
Definition inv_residual_row (H V : list (list R)) (i : nat) : R :=
  fold_right Rplus 0 (map (fun j => Rabs (mmul_ij H V i j - delta i j)) (seq 0 (length H))).
(* cal_hesse_error / get_params_error: sqrt(fabs(diag)) *)
Definition hesse_error (V : list (list R)) : list R :=
  map (fun i => sqrt (Rabs (mget V i i))) (seq 0 (length V)).
(* ParamsTrans.get_error (vector) : sqrt diag (J V J^T), row k of J is the gradient of y_k *)
Definition err_prop_vec (J V : list (list R)) : list R := map (err_prop V) J.

(* ---------- fit fractions, fitfractions.py ---------- *)
Definition ff (Ii I : R) : R := Ii / I.
Definition ff_grad (gi gI Ii I : R) : R := gi / I - (Ii / I) * gI / I.
Definition ff_int (Iij Ii Ij I : R) : R := Iij / I - ff Ii I - ff Ij I.
Definition ff_int_grad (gij gi gj gI Iij Ii Ij I : R) : R :=
  gij / I - (Iij / I) * gI / I - ff_grad gi gI Ii I - ff_grad gj gI Ij I.
(* gradient vectors: one entry per trainable variable *)
Fixpoint ff_grad_vec (gi gI : list R) (Ii I : R) : list R :=
  match gi, gI with
  | a :: gi', b :: gI' => ff_grad a b Ii I :: ff_grad_vec gi' gI' Ii I
  | _, _ => []
  end.

(* ---------- bound transforms (variable.Bound defaults) and trans_error_matrix ---------- *)
Definition bt_two (a b x : R) : R := (b - a) * (sin x + 1) / 2 + a.
Definition bt_lower (a x : R) : R := a - 1 + sqrt (x ^ 2 + 1).
Definition bt_upper (b x : R) : R := b + 1 - sqrt (x ^ 2 + 1).
Definition bt_two_d (a b x : R) : R := (b - a) * cos x / 2.
Definition bt_lower_d (x : R) : R := x / sqrt (x ^ 2 + 1).
Definition bt_upper_d (x : R) : R := - x / sqrt (x ^ 2 + 1).
(* dydx[:, None] * V * dydx[None, :] *)
Definition scale_row (di : R) (d row : list R) : list R :=
  map (fun p => di * snd p * fst p) (combine d row).
Definition trans_error_matrix (d : list R) (V : list (list R)) : list (list R) :=
  map (fun p => scale_row (fst p) d (snd p)) (combine d V).

(* ---------- function-indexed matrices used by the general-n statements ---------- *)
Fixpoint rsum_n (f : nat -> R) (n : nat) : R :=
  match n with O => 0 | S k => rsum_n f k + f k end.
Definition fquad (n : nat) (H : nat -> nat -> R) (w : nat -> R) : R :=
  rsum_n (fun i => w i * rsum_n (fun j => H i j * w j) n) n.
Definition pos_def (n : nat) (H : nat -> nat -> R) : Prop :=
  forall w, (exists k, (k < n)%nat /\ w k <> 0) -> 0 < fquad n H w.
Definition is_right_inverse (n : nat) (H V : nat -> nat -> R) : Prop :=
  forall i j, (i < n)%nat -> (j < n)%nat -> rsum_n (fun k => H i k * V k j) n = delta i j.
Definition fdiag (d : nat -> R) (i j : nat) : R := if Nat.eqb i j then d i else 0.

(* ---------- cal_hesse_correct (applications.py:312): second derivatives by finite differences, step e ---------- *)
(* diagonal entry, points x+2e, x+e, x-e, x-2e:  gp = (f(x+2e) - f(x-e))/3/e, gm = (f(x+e) - f(x-2e))/3/e, h = (gp - gm)/e *)
Definition hc1 (g : R -> R) (x e : R) : R :=
  ((g (x + 2 * e) - g (x - e)) / 3 / e - (g (x + e) - g (x - 2 * e)) / 3 / e) / e.
Definition hc_diag (f : list R -> R) (xs : list R) (e : R) (i : nat) : R :=
  hc1 (fun t => f (upd xs i t)) (nth i xs 0) e.
(* before the repair gm was built from f(x-e) (nll_mp) instead of f(x+e) (nll_pm, computed and never used) *)
Definition hc1_old (g : R -> R) (x e : R) : R :=
  ((g (x + 2 * e) - g (x - e)) / 3 / e - (g (x - e) - g (x - 2 * e)) / 3 / e) / e.
(* off-diagonal entry: gp = (f(+,+) - f(+,-))/(2e), gm = (f(-,+) - f(-,-))/(2e), h = (gp - gm)/(2e) *)
Definition hc2 (g : R -> R -> R) (x y e : R) : R :=
  ((g (x + e) (y + e) - g (x + e) (y - e)) / (2 * e) - (g (x - e) (y + e) - g (x - e) (y - e)) / (2 * e)) / (2 * e).
Definition hc_off (f : list R -> R) (xs : list R) (e : R) (i j : nat) : R :=
  hc2 (fun s t => f (upd (upd xs i s) j t)) (nth i xs 0) (nth j xs 0) e.

(* ---------- ParamsTrans.get_error_matrix: (J V J^T)_kl, row k of J is the gradient of y_k ---------- *)
Definition jvjt_kl (J V : list (list R)) (k l : nat) : R := dot (mat_vec V (nth l J [])) (nth k J []).
