(* C16 - lemmas about the model of class Bound (Lik/Bound.v). *)
From Coq Require Import Reals Lra Lia.
From Coquelicot Require Import Coquelicot.
From TFV Require Import Lik.Bound.
Open Scope R_scope.

(* ---------- helpers ---------- *)

Lemma basin_asin u : basin u = asin u.
Proof.
  unfold basin, asin.
  destruct (Rle_dec u (-1)); [lra|].
  destruct (Rle_dec 1 u); [reflexivity|].
  unfold Rsqr. replace (u ^ 2) with (u * u) by ring. reflexivity.
Qed.

Lemma sin_basin u : -1 <= u <= 1 -> sin (basin u) = u.
Proof. intros H. rewrite basin_asin. apply sin_asin. exact H. Qed.

Lemma basin_sin x : - PI / 2 <= x <= PI / 2 -> basin (sin x) = x.
Proof. intros H. rewrite basin_asin. apply asin_sin. lra. Qed.

Lemma basin_le_m1 u : u <= -1 -> basin u = - PI / 2.
Proof. intros H. unfold basin. destruct (Rle_dec u (-1)); [reflexivity|lra]. Qed.

Lemma basin_ge_1 u : 1 <= u -> basin u = PI / 2.
Proof.
  intros H. unfold basin. destruct (Rle_dec u (-1)); [lra|].
  destruct (Rle_dec 1 u); [reflexivity|lra].
Qed.

Lemma basin_bound u : - PI / 2 <= basin u <= PI / 2.
Proof. rewrite basin_asin. pose proof (asin_bound u). lra. Qed.

Lemma sq1_pos x : 0 < x ^ 2 + 1.
Proof. nra. Qed.

Lemma sqrt_sq1_pos x : 0 < sqrt (x ^ 2 + 1).
Proof. apply sqrt_lt_R0. apply sq1_pos. Qed.

Lemma sqrt_sq1_ge1 x : 1 <= sqrt (x ^ 2 + 1).
Proof.
  rewrite <- sqrt_1 at 1. apply sqrt_le_1_alt. nra.
Qed.

Lemma sqrt_sq1_sqr x : sqrt (x ^ 2 + 1) * sqrt (x ^ 2 + 1) = x ^ 2 + 1.
Proof. apply sqrt_sqrt. pose proof (sq1_pos x). lra. Qed.

Lemma sqrt_pow2_abs x : sqrt (x ^ 2) = Rabs x.
Proof. replace (x ^ 2) with (Rsqr x) by (unfold Rsqr; ring). apply sqrt_Rsqr_abs. Qed.

(* ---------- clamps ---------- *)

Lemma bclamp2_id a b y : a <= y <= b -> bclamp2 a b y = y.
Proof.
  intros H. unfold bclamp2. destruct (Rlt_dec y a); [lra|]. destruct (Rlt_dec b y); [lra|reflexivity].
Qed.
Lemma bclamp2_below a b y : y < a -> bclamp2 a b y = a.
Proof. intros H. unfold bclamp2. destruct (Rlt_dec y a); [reflexivity|lra]. Qed.
Lemma bclamp2_above a b y : a <= b -> b < y -> bclamp2 a b y = b.
Proof.
  intros Hab H. unfold bclamp2. destruct (Rlt_dec y a); [lra|]. destruct (Rlt_dec b y); [reflexivity|lra].
Qed.
Lemma bclamp2_range a b y : a <= b -> a <= bclamp2 a b y <= b.
Proof.
  intros Hab. unfold bclamp2. destruct (Rlt_dec y a); [lra|]. destruct (Rlt_dec b y); lra.
Qed.

Lemma bclamp_lo_id a y : a <= y -> bclamp_lo a y = y.
Proof. intros H. unfold bclamp_lo. destruct (Rlt_dec y a); [lra|reflexivity]. Qed.
Lemma bclamp_lo_below a y : y < a -> bclamp_lo a y = a.
Proof. intros H. unfold bclamp_lo. destruct (Rlt_dec y a); [reflexivity|lra]. Qed.
Lemma bclamp_lo_range a y : a <= bclamp_lo a y.
Proof. unfold bclamp_lo. destruct (Rlt_dec y a); lra. Qed.

Lemma bclamp_up_id b y : y <= b -> bclamp_up b y = y.
Proof. intros H. unfold bclamp_up. destruct (Rlt_dec b y); [lra|reflexivity]. Qed.
Lemma bclamp_up_above b y : b < y -> bclamp_up b y = b.
Proof. intros H. unfold bclamp_up. destruct (Rlt_dec b y); [reflexivity|lra]. Qed.
Lemma bclamp_up_range b y : bclamp_up b y <= b.
Proof. unfold bclamp_up. destruct (Rlt_dec b y); lra. Qed.

(* ---------- two-sided bound ---------- *)

Lemma bound2_range a b x : a < b -> a <= bx2y2 a b x <= b.
Proof.
  intros Hab. unfold bx2y2. pose proof (SIN_bound x) as [H1 H2]. split; nra.
Qed.

(* x2y (y2x y) is the clamped y, for every y *)
Lemma bound2_roundtrip a b y : a < b -> bx2y2 a b (by2x2 a b y) = bclamp2 a b y.
Proof.
  intros Hab. unfold bx2y2, by2x2.
  pose proof (bclamp2_range a b y (Rlt_le _ _ Hab)) as [H1 H2].
  set (c := bclamp2 a b y) in *.
  assert (Hu : -1 <= (2 * c - a - b) / (b - a) <= 1).
  { split.
    - apply Rmult_le_reg_r with (b - a); [lra|]. unfold Rdiv. rewrite Rmult_assoc, Rinv_l by lra. lra.
    - apply Rmult_le_reg_r with (b - a); [lra|]. unfold Rdiv. rewrite Rmult_assoc, Rinv_l by lra. lra. }
  rewrite sin_basin by exact Hu. field. lra.
Qed.

Lemma bound2_inv_r a b y : a < b -> a <= y <= b -> bx2y2 a b (by2x2 a b y) = y.
Proof. intros Hab Hy. rewrite bound2_roundtrip by exact Hab. apply bclamp2_id. exact Hy. Qed.

Lemma bound2_inv_l a b x : a < b -> - PI / 2 <= x <= PI / 2 -> by2x2 a b (bx2y2 a b x) = x.
Proof.
  intros Hab Hx. unfold by2x2. rewrite bclamp2_id by (apply bound2_range; exact Hab).
  replace ((2 * bx2y2 a b x - a - b) / (b - a)) with (sin x) by (unfold bx2y2; field; lra).
  apply basin_sin. exact Hx.
Qed.

Lemma bound2_clamped a b y : a < b -> a <= bx2y2 a b (by2x2 a b y) <= b.
Proof. intros Hab. apply bound2_range. exact Hab. Qed.

Lemma bound2_clamp_below a b y : a < b -> y < a -> bx2y2 a b (by2x2 a b y) = a.
Proof. intros Hab Hy. rewrite bound2_roundtrip by exact Hab. apply bclamp2_below. exact Hy. Qed.

Lemma bound2_clamp_above a b y : a < b -> b < y -> bx2y2 a b (by2x2 a b y) = b.
Proof. intros Hab Hy. rewrite bound2_roundtrip by exact Hab. apply bclamp2_above; lra. Qed.

(* the fit variable returned for an out-of-range (or end-point) y is -pi/2 resp. +pi/2 *)
Lemma bound2_y2x_below a b y : a < b -> y <= a -> by2x2 a b y = - PI / 2.
Proof.
  intros Hab Hy. unfold by2x2.
  assert (Hc : bclamp2 a b y = a).
  { destruct (Rle_lt_or_eq_dec _ _ Hy) as [H|H]; [apply bclamp2_below; exact H|].
    subst y. apply bclamp2_id. lra. }
  rewrite Hc. apply basin_le_m1.
  replace ((2 * a - a - b) / (b - a)) with (-1) by (field; lra). lra.
Qed.

Lemma bound2_y2x_above a b y : a < b -> b <= y -> by2x2 a b y = PI / 2.
Proof.
  intros Hab Hy. unfold by2x2.
  assert (Hc : bclamp2 a b y = b).
  { destruct (Rle_lt_or_eq_dec _ _ Hy) as [H|H]; [apply bclamp2_above; lra|].
    subst y. apply bclamp2_id. lra. }
  rewrite Hc. apply basin_ge_1.
  replace ((2 * b - a - b) / (b - a)) with 1 by (field; lra). lra.
Qed.

Lemma bound2_y2x_range a b y : - PI / 2 <= by2x2 a b y <= PI / 2.
Proof. unfold by2x2. apply basin_bound. Qed.

(* x2y has period 2 pi and the reflection symmetry x -> pi - x: y2x (x2y x) is the
   representative of x in [-pi/2, pi/2] *)
Lemma bound2_x2y_reflect a b x : bx2y2 a b (PI - x) = bx2y2 a b x.
Proof. unfold bx2y2. rewrite sin_PI_x. reflexivity. Qed.

Lemma bound2_x2y_period a b x : bx2y2 a b (x + 2 * PI) = bx2y2 a b x.
Proof. unfold bx2y2. rewrite sin_plus, sin_2PI, cos_2PI. replace (sin x * 1 + cos x * 0) with (sin x) by ring. reflexivity. Qed.

(* ---------- lower bound only ---------- *)

Lemma bound_lo_range a x : a <= bx2y_lo a x.
Proof. unfold bx2y_lo. pose proof (sqrt_sq1_ge1 x). lra. Qed.

Lemma bound_lo_roundtrip a y : bx2y_lo a (by2x_lo a y) = bclamp_lo a y.
Proof.
  unfold bx2y_lo, by2x_lo. pose proof (bclamp_lo_range a y) as Hc.
  set (c := bclamp_lo a y) in *.
  assert (H0 : 0 <= (c - a + 1) ^ 2 - 1) by nra.
  rewrite pow2_sqrt by exact H0.
  replace ((c - a + 1) ^ 2 - 1 + 1) with (Rsqr (c - a + 1)) by (unfold Rsqr; ring).
  rewrite sqrt_Rsqr by lra. ring.
Qed.

Lemma bound_lo_inv_r a y : a <= y -> bx2y_lo a (by2x_lo a y) = y.
Proof. intros Hy. rewrite bound_lo_roundtrip. apply bclamp_lo_id. exact Hy. Qed.

(* sympy's solve(...)[-1] is the NON-NEGATIVE root: y2x (x2y x) = |x| *)
Lemma bound_lo_inv_l_abs a x : by2x_lo a (bx2y_lo a x) = Rabs x.
Proof.
  unfold by2x_lo. rewrite bclamp_lo_id by apply bound_lo_range. unfold bx2y_lo.
  replace ((a - 1 + sqrt (x ^ 2 + 1) - a + 1) ^ 2 - 1) with (x ^ 2).
  - apply sqrt_pow2_abs.
  - pose proof (sqrt_sq1_sqr x) as H.
    replace ((a - 1 + sqrt (x ^ 2 + 1) - a + 1) ^ 2) with (sqrt (x ^ 2 + 1) * sqrt (x ^ 2 + 1)) by ring.
    rewrite H. ring.
Qed.

Lemma bound_lo_inv_l a x : 0 <= x -> by2x_lo a (bx2y_lo a x) = x.
Proof. intros Hx. rewrite bound_lo_inv_l_abs. apply Rabs_right. lra. Qed.

Lemma bound_lo_clamped a y : a <= bx2y_lo a (by2x_lo a y).
Proof. apply bound_lo_range. Qed.

Lemma bound_lo_clamp_below a y : y < a -> bx2y_lo a (by2x_lo a y) = a.
Proof. intros Hy. rewrite bound_lo_roundtrip. apply bclamp_lo_below. exact Hy. Qed.

Lemma bound_lo_y2x_below a y : y <= a -> by2x_lo a y = 0.
Proof.
  intros Hy. unfold by2x_lo.
  assert (Hc : bclamp_lo a y = a).
  { destruct (Rle_lt_or_eq_dec _ _ Hy) as [H|H]; [apply bclamp_lo_below; exact H|].
    subst y. apply bclamp_lo_id. lra. }
  rewrite Hc. replace ((a - a + 1) ^ 2 - 1) with 0 by ring. apply sqrt_0.
Qed.

Lemma bound_lo_y2x_nonneg a y : 0 <= by2x_lo a y.
Proof. unfold by2x_lo. apply sqrt_pos. Qed.

Lemma bound_lo_x2y_even a x : bx2y_lo a (- x) = bx2y_lo a x.
Proof. unfold bx2y_lo. replace ((- x) ^ 2) with (x ^ 2) by ring. reflexivity. Qed.

(* ---------- upper bound only ---------- *)

Lemma bound_up_range b x : bx2y_up b x <= b.
Proof. unfold bx2y_up. pose proof (sqrt_sq1_ge1 x). lra. Qed.

Lemma bound_up_roundtrip b y : bx2y_up b (by2x_up b y) = bclamp_up b y.
Proof.
  unfold bx2y_up, by2x_up. pose proof (bclamp_up_range b y) as Hc.
  set (c := bclamp_up b y) in *.
  assert (H0 : 0 <= (c - b - 1) ^ 2 - 1) by nra.
  rewrite pow2_sqrt by exact H0.
  replace ((c - b - 1) ^ 2 - 1 + 1) with (Rsqr (b + 1 - c)) by (unfold Rsqr; ring).
  rewrite sqrt_Rsqr by lra. ring.
Qed.

Lemma bound_up_inv_r b y : y <= b -> bx2y_up b (by2x_up b y) = y.
Proof. intros Hy. rewrite bound_up_roundtrip. apply bclamp_up_id. exact Hy. Qed.

Lemma bound_up_inv_l_abs b x : by2x_up b (bx2y_up b x) = Rabs x.
Proof.
  unfold by2x_up. rewrite bclamp_up_id by apply bound_up_range. unfold bx2y_up.
  replace ((b + 1 - sqrt (x ^ 2 + 1) - b - 1) ^ 2 - 1) with (x ^ 2).
  - apply sqrt_pow2_abs.
  - pose proof (sqrt_sq1_sqr x) as H.
    replace ((b + 1 - sqrt (x ^ 2 + 1) - b - 1) ^ 2) with (sqrt (x ^ 2 + 1) * sqrt (x ^ 2 + 1)) by ring.
    rewrite H. ring.
Qed.

Lemma bound_up_inv_l b x : 0 <= x -> by2x_up b (bx2y_up b x) = x.
Proof. intros Hx. rewrite bound_up_inv_l_abs. apply Rabs_right. lra. Qed.

Lemma bound_up_clamped b y : bx2y_up b (by2x_up b y) <= b.
Proof. apply bound_up_range. Qed.

Lemma bound_up_clamp_above b y : b < y -> bx2y_up b (by2x_up b y) = b.
Proof. intros Hy. rewrite bound_up_roundtrip. apply bclamp_up_above. exact Hy. Qed.

Lemma bound_up_y2x_above b y : b <= y -> by2x_up b y = 0.
Proof.
  intros Hy. unfold by2x_up.
  assert (Hc : bclamp_up b y = b).
  { destruct (Rle_lt_or_eq_dec _ _ Hy) as [H|H]; [apply bclamp_up_above; exact H|].
    subst y. apply bclamp_up_id. lra. }
  rewrite Hc. replace ((b - b - 1) ^ 2 - 1) with 0 by ring. apply sqrt_0.
Qed.

Lemma bound_up_y2x_nonneg b y : 0 <= by2x_up b y.
Proof. unfold by2x_up. apply sqrt_pos. Qed.

Lemma bound_up_x2y_even b x : bx2y_up b (- x) = bx2y_up b x.
Proof. unfold bx2y_up. replace ((- x) ^ 2) with (x ^ 2) by ring. reflexivity. Qed.

(* ---------- derivatives ---------- *)

Lemma bound2_is_derive a b x : is_derive (bx2y2 a b) x (bdydx2 a b x).
Proof.
  unfold bx2y2, bdydx2. auto_derive; [exact I|]. field.
Qed.

Lemma bound2_is_derive2 a b x : is_derive (bdydx2 a b) x (bd2y2 a b x).
Proof.
  unfold bdydx2, bd2y2. auto_derive; [exact I|]. field.
Qed.

Lemma sq1_norm x : x * (x * 1) + 1 = x ^ 2 + 1.
Proof. ring. Qed.

Lemma bound_lo_is_derive a x : is_derive (bx2y_lo a) x (bdydx_lo x).
Proof.
  unfold bx2y_lo, bdydx_lo. pose proof (sq1_pos x) as Hp. pose proof (sqrt_sq1_pos x) as Hs.
  auto_derive; rewrite !sq1_norm.
  - exact Hp.
  - field. lra.
Qed.

Lemma bound_up_is_derive b x : is_derive (bx2y_up b) x (bdydx_up x).
Proof.
  unfold bx2y_up, bdydx_up. pose proof (sq1_pos x) as Hp. pose proof (sqrt_sq1_pos x) as Hs.
  auto_derive; rewrite !sq1_norm.
  - exact Hp.
  - field. lra.
Qed.

(* closed form of the second derivative: (x^2+1)^(-3/2) *)
Lemma bd2y_lo_closed x : bd2y_lo x = 1 / ((x ^ 2 + 1) * sqrt (x ^ 2 + 1)).
Proof.
  unfold bd2y_lo. pose proof (sq1_pos x) as Hp. pose proof (sqrt_sq1_pos x) as Hs.
  field. split; lra.
Qed.

Lemma bd2y_lo_pos x : 0 < bd2y_lo x.
Proof.
  rewrite bd2y_lo_closed. pose proof (sq1_pos x) as Hp. pose proof (sqrt_sq1_pos x) as Hs.
  apply Rdiv_lt_0_compat; [lra|]. apply Rmult_lt_0_compat; assumption.
Qed.

Lemma bound_lo_is_derive2 x : is_derive bdydx_lo x (bd2y_lo x).
Proof.
  unfold bdydx_lo, bd2y_lo. pose proof (sq1_pos x) as Hp. pose proof (sqrt_sq1_pos x) as Hs.
  pose proof (sqrt_sq1_sqr x) as Hq.
  auto_derive; rewrite !sq1_norm.
  - repeat split; lra.
  - set (s := sqrt (x ^ 2 + 1)) in *. clearbody s. rewrite <- Hq. field. lra.
Qed.

Lemma bound_up_is_derive2 x : is_derive bdydx_up x (bd2y_up x).
Proof.
  unfold bdydx_up, bd2y_up, bd2y_lo. pose proof (sq1_pos x) as Hp. pose proof (sqrt_sq1_pos x) as Hs.
  pose proof (sqrt_sq1_sqr x) as Hq.
  auto_derive; rewrite !sq1_norm.
  - repeat split; lra.
  - set (s := sqrt (x ^ 2 + 1)) in *. clearbody s. rewrite <- Hq. field. lra.
Qed.

(* Derive / Derive_n forms (what a chain-rule user needs) *)
Lemma bound2_Derive a b x : Derive (bx2y2 a b) x = bdydx2 a b x.
Proof. apply is_derive_unique. apply bound2_is_derive. Qed.
Lemma bound_lo_Derive a x : Derive (bx2y_lo a) x = bdydx_lo x.
Proof. apply is_derive_unique. apply bound_lo_is_derive. Qed.
Lemma bound_up_Derive b x : Derive (bx2y_up b) x = bdydx_up x.
Proof. apply is_derive_unique. apply bound_up_is_derive. Qed.

(* slope signs: the two-sided map is increasing on the principal branch, the lower-only map is
   increasing and the upper-only map decreasing for x > 0; all three are stationary exactly at
   the points that map to a boundary (x = +-pi/2 resp. x = 0) *)
Lemma bdydx2_pos a b x : a < b -> - PI / 2 < x < PI / 2 -> 0 < bdydx2 a b x.
Proof.
  intros Hab Hx. unfold bdydx2. assert (0 < cos x) by (apply cos_gt_0; lra). nra.
Qed.
Lemma bdydx_lo_sign x : 0 < x -> 0 < bdydx_lo x.
Proof. intros Hx. unfold bdydx_lo. apply Rdiv_lt_0_compat; [exact Hx|apply sqrt_sq1_pos]. Qed.
Lemma bdydx_up_sign x : 0 < x -> bdydx_up x < 0.
Proof.
  intros Hx. unfold bdydx_up. pose proof (sqrt_sq1_pos x) as Hs.
  assert (0 < x / sqrt (x ^ 2 + 1)) by (apply Rdiv_lt_0_compat; assumption).
  unfold Rdiv in *. lra.
Qed.
Lemma bdydx_lo_0 : bdydx_lo 0 = 0.
Proof. unfold bdydx_lo. unfold Rdiv. ring. Qed.
Lemma bdydx_up_0 : bdydx_up 0 = 0.
Proof. unfold bdydx_up. unfold Rdiv. ring. Qed.
