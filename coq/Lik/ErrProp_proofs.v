(* C09 - lemmas about the model Lik/ErrProp.v *)
From Coq Require Import Reals List ZArith Lra Lia.
From Coquelicot Require Import Coquelicot.
From Interval Require Import Tactic.
From TFV Require Import Base.RBase Lik.ErrProp.
Import ListNotations.
Open Scope R_scope.

(* ---------- what "first-order propagated" means ---------- *)
(* two uncertain, uncorrelated operands: e = sqrt((d1 f ex)^2 + (d2 f ey)^2) with d1 f, d2 f THE partial derivatives *)
Definition first_order2 (f : R -> R -> R) (x y ex ey e : R) : Prop :=
  exists d1 d2, is_derive (fun t => f t y) x d1 /\ is_derive (fun t => f x t) y d2 /\ e = prop2 d1 d2 ex ey.
(* one uncertain operand: e = |f'(x)| ex *)
Definition first_order1 (f : R -> R) (x ex e : R) : Prop :=
  exists d, is_derive f x d /\ e = prop1 d ex.

Lemma rpw_Rpower x y : rpw x y = Rpower x y.
Proof. reflexivity. Qed.

Lemma rpw_pos x y : 0 < rpw x y.
Proof. unfold rpw. apply exp_pos. Qed.

(* ---------- derivatives of the elementary operations ---------- *)
Lemma d_rpw_base x y : 0 < x -> is_derive (fun t => rpw t y) x (y * rpw x (y - 1)).
Proof.
  intros Hx. unfold rpw. auto_derive; [exact Hx|].
  replace ((y - 1) * ln x) with (y * ln x - ln x) by ring.
  unfold Rminus. rewrite exp_plus, exp_Ropp, exp_ln by exact Hx.
  field. lra.
Qed.

Lemma d_rpw_exp x y : is_derive (fun t => rpw x t) y (ln x * rpw x y).
Proof. unfold rpw. auto_derive; [exact I|]. ring. Qed.

Lemma d_ln x : 0 < x -> is_derive ln x (/ x).
Proof. intros. auto_derive; [assumption|]. field. lra. Qed.

Lemma sqrt_sq_abs a : sqrt (a ^ 2) = Rabs a.
Proof. replace (a ^ 2) with (Rsqr a) by (unfold Rsqr; ring). apply sqrt_Rsqr_abs. Qed.

Lemma prop2_zero_r d1 d2 ex : prop2 d1 d2 ex 0 = Rabs d1 * Rabs ex.
Proof.
  unfold prop2. replace ((d1 * ex) ^ 2 + (d2 * 0) ^ 2) with ((d1 * ex) ^ 2) by ring.
  rewrite sqrt_sq_abs. apply Rabs_mult.
Qed.

(* ---------- operators with two uncertain operands ---------- *)
Lemma add_first_order x y ex ey : first_order2 Rplus x y ex ey (nerr (ne_add (x, ex) (y, ey))).
Proof.
  exists 1, 1. split; [|split].
  - auto_derive; [exact I | ring].
  - auto_derive; [exact I | ring].
  - unfold prop2, ne_add, nerr, nval; cbn [fst snd]. f_equal. ring.
Qed.

Lemma sub_first_order x y ex ey : first_order2 Rminus x y ex ey (nerr (ne_sub (x, ex) (y, ey))).
Proof.
  exists 1, (-1). split; [|split].
  - auto_derive; [exact I | ring].
  - auto_derive; [exact I | ring].
  - unfold prop2, ne_sub, nerr, nval; cbn [fst snd]. f_equal. ring.
Qed.

Lemma mul_first_order x y ex ey : first_order2 Rmult x y ex ey (nerr (ne_mul (x, ex) (y, ey))).
Proof.
  exists y, x. split; [|split].
  - auto_derive; [exact I | ring].
  - auto_derive; [exact I | ring].
  - unfold prop2, ne_mul, nerr, nval; cbn [fst snd]. f_equal. ring.
Qed.

Lemma div_first_order x y ex ey : y <> 0 -> first_order2 Rdiv x y ex ey (nerr (ne_div (x, ex) (y, ey))).
Proof.
  intros Hy. exists (/ y), (- x / y ^ 2). split; [|split].
  - auto_derive; [exact I | field; exact Hy].
  - auto_derive; [exact Hy | field; exact Hy].
  - unfold prop2, ne_div, nerr, nval; cbn [fst snd].
    assert (Hy2 : 0 < y ^ 2) by (apply pow2_gt_0; exact Hy).
    replace ((/ y * ex) ^ 2 + (- x / y ^ 2 * ey) ^ 2) with ((ex ^ 2 + (x * ey / y) ^ 2) / y ^ 2) by (field; exact Hy).
    rewrite sqrt_div_alt by exact Hy2. rewrite sqrt_sq_abs. reflexivity.
Qed.

Lemma pow_first_order x y ex ey : 0 < x -> first_order2 rpw x y ex ey (nerr (ne_pow (x, ex) (y, ey))).
Proof.
  intros Hx. exists (y * rpw x (y - 1)), (ln x * rpw x y). split; [|split].
  - apply d_rpw_base; exact Hx.
  - apply d_rpw_exp.
  - unfold prop2, ne_pow, nerr, nval; cbn [fst snd]. reflexivity.
Qed.

(* ---------- one uncertain operand ---------- *)
Lemma add_c_first_order x ex c : first_order1 (fun t => t + c) x ex (nerr (ne_add_c (x, ex) c)).
Proof.
  exists 1. split; [auto_derive; [exact I | ring]|].
  unfold prop1, ne_add_c, nerr; cbn [fst snd]. rewrite Rabs_R1. ring.
Qed.

Lemma sub_c_first_order x ex c : first_order1 (fun t => t - c) x ex (nerr (ne_sub_c (x, ex) c)).
Proof.
  exists 1. split; [auto_derive; [exact I | ring]|].
  unfold prop1, ne_sub_c, nerr; cbn [fst snd]. rewrite Rabs_R1. ring.
Qed.

Lemma mul_c_first_order x ex c : first_order1 (fun t => t * c) x ex (nerr (ne_mul_c (x, ex) c)).
Proof.
  exists c. split; [auto_derive; [exact I | ring]|].
  unfold prop1, ne_mul_c, nerr; cbn [fst snd]. ring.
Qed.

Lemma div_c_first_order x ex c : c <> 0 -> first_order1 (fun t => t / c) x ex (nerr (ne_div_c (x, ex) c)).
Proof.
  intros Hc. exists (/ c). split; [auto_derive; [exact I | field; exact Hc]|].
  unfold prop1, ne_div_c, nerr; cbn [fst snd]. rewrite Rabs_inv by exact Hc. unfold Rdiv. ring.
Qed.

Lemma pow_c_first_order x ex c : 0 < x -> first_order1 (fun t => rpw t c) x ex (nerr (ne_pow_c (x, ex) c)).
Proof.
  intros Hx. exists (c * rpw x (c - 1)). split; [apply d_rpw_base; exact Hx|].
  unfold prop1, ne_pow_c, nerr, nval; cbn [fst snd]. reflexivity.
Qed.

Lemma rpow_first_order c x ex : first_order1 (fun t => rpw c t) x ex (nerr (ne_rpow c (x, ex))).
Proof.
  exists (ln c * rpw c x). split; [apply d_rpw_exp|].
  unfold prop1, ne_rpow, nerr, nval; cbn [fst snd]. reflexivity.
Qed.

Lemma neg_first_order x ex : first_order1 Ropp x ex (nerr (ne_neg (x, ex))).
Proof.
  exists (-1). split; [auto_derive; [exact I | ring]|].
  unfold prop1, ne_neg, nerr; cbn [fst snd]. replace (Rabs (-1)) with 1 by (rewrite Rabs_left; lra). ring.
Qed.

Lemma log_first_order x ex : 0 < x -> first_order1 ln x ex (nerr (ne_log (x, ex))).
Proof.
  intros Hx. exists (/ x). split; [apply d_ln; exact Hx|].
  unfold prop1, ne_log, nerr, nval; cbn [fst snd]. rewrite Rabs_inv by lra. unfold Rdiv. ring.
Qed.

Lemma exp_first_order x ex : first_order1 exp x ex (nerr (ne_exp (x, ex))).
Proof.
  exists (exp x). split; [apply is_derive_exp|].
  unfold prop1, ne_exp, nerr, nval; cbn [fst snd]. rewrite Rabs_pos_eq by (left; apply exp_pos). reflexivity.
Qed.

Lemma apply_first_order (f g : R -> R) x ex :
  is_derive f x (g x) -> first_order1 f x ex (nerr (ne_apply f g (x, ex))).
Proof. intros H. exists (g x). split; [exact H|]. reflexivity. Qed.

(* integer powers of an arbitrary (non-zero when the exponent is negative) base *)
Lemma powerRZ_pos_nat x (p : positive) : powerRZ x (Z.pos p) = x ^ Pos.to_nat p.
Proof. reflexivity. Qed.

Lemma d_powerRZ x (n : Z) : (0 <= n)%Z \/ x <> 0 -> is_derive (fun t => powerRZ t n) x (IZR n * powerRZ x (n - 1)).
Proof.
  intros H. destruct n as [|p|p].
  - cbn [powerRZ]. auto_derive; [exact I | ring].
  - apply (is_derive_ext (fun t => t ^ Pos.to_nat p)); [intros; reflexivity|].
    auto_derive; [exact I|].
    replace (Z.pos p - 1)%Z with (Z.of_nat (pred (Pos.to_nat p))) by lia.
    rewrite <- pow_powerRZ. rewrite (INR_IZR_INZ (Pos.to_nat p)), positive_nat_Z. ring.
  - assert (Hx : x <> 0) by (destruct H as [H|H]; [lia | exact H]).
    apply (is_derive_ext (fun t => / t ^ Pos.to_nat p)); [intros; reflexivity|].
    auto_derive; [apply pow_nonzero; exact Hx|].
    replace (Z.neg p - 1)%Z with (Z.neg (Pos.succ p)) by lia.
    cbn [powerRZ]. rewrite Pos2Nat.inj_succ.
    change (IZR (Z.neg p)) with (IZR (- Z.pos p)). rewrite opp_IZR. rewrite (INR_IZR_INZ (Pos.to_nat p)), positive_nat_Z.
    destruct (Pos2Nat.is_succ p) as [k Hk]. rewrite Hk. cbn [pred].
    assert (x ^ k <> 0) by (apply pow_nonzero; exact Hx).
    rewrite <- !tech_pow_Rmult. field. split; assumption.
Qed.

Lemma pow_z_first_order x ex (n : Z) :
  (0 <= n)%Z \/ x <> 0 -> first_order1 (fun t => powerRZ t n) x ex (nerr (ne_pow_z (x, ex) n)).
Proof.
  intros H. exists (IZR n * powerRZ x (n - 1)). split; [apply d_powerRZ; exact H|]. reflexivity.
Qed.

(* ---------- uncertainties are never negative ---------- *)
Lemma sqrt_ge0 a : 0 <= sqrt a.
Proof. apply sqrt_pos. Qed.

Lemma err_nonneg_bin a b :
  0 <= nerr (ne_add a b) /\ 0 <= nerr (ne_sub a b) /\ 0 <= nerr (ne_mul a b) /\ 0 <= nerr (ne_div a b) /\ 0 <= nerr (ne_pow a b).
Proof.
  unfold ne_add, ne_sub, ne_mul, ne_div, ne_pow, nerr; cbn [snd].
  repeat split; try apply sqrt_pos.
  unfold Rdiv. apply Rmult_le_pos; [apply sqrt_pos|].
  destruct (Req_dec (nval b) 0) as [E|E].
  - rewrite E, Rabs_R0, Rinv_0. lra.
  - left. apply Rinv_0_lt_compat, Rabs_pos_lt, E.
Qed.

Lemma inv_abs_ge0 c : 0 <= / Rabs c.
Proof.
  destruct (Req_dec c 0) as [E|E].
  - rewrite E, Rabs_R0, Rinv_0. lra.
  - left. apply Rinv_0_lt_compat, Rabs_pos_lt, E.
Qed.

Lemma err_nonneg_un a c n : 0 <= nerr a ->
  0 <= nerr (ne_add_c a c) /\ 0 <= nerr (ne_sub_c a c) /\ 0 <= nerr (ne_mul_c a c) /\ 0 <= nerr (ne_div_c a c) /\
  0 <= nerr (ne_pow_c a c) /\ 0 <= nerr (ne_pow_z a n) /\ 0 <= nerr (ne_neg a) /\ 0 <= nerr (ne_rpow c a) /\
  0 <= nerr (ne_log a) /\ 0 <= nerr (ne_exp a).
Proof.
  intros H. unfold ne_add_c, ne_sub_c, ne_mul_c, ne_div_c, ne_pow_c, ne_pow_z, ne_neg, ne_rpow, ne_log, ne_exp, nerr in *; cbn [snd] in *.
  repeat split; try exact H;
    try (apply Rmult_le_pos; [apply Rabs_pos | exact H]);
    try (apply Rmult_le_pos; [exact H | apply Rabs_pos]);
    try (unfold Rdiv; apply Rmult_le_pos; [exact H | apply inv_abs_ge0]).
  apply Rmult_le_pos; [left; apply exp_pos | exact H].
Qed.

Lemma cal_err_nonneg v gs es : 0 <= nerr (cal_err_grad v gs es).
Proof. apply sqrt_pos. Qed.

(* ---------- the rules before the repairs are NOT first-order (kept for the record) ---------- *)
Lemma first_order2_unique f x y ex ey e d1 d2 :
  is_derive (fun t => f t y) x d1 -> is_derive (fun t => f x t) y d2 -> first_order2 f x y ex ey e -> e = prop2 d1 d2 ex ey.
Proof.
  intros H1 H2 (a & b & Ha & Hb & He).
  apply is_derive_unique in H1. apply is_derive_unique in H2.
  apply is_derive_unique in Ha. apply is_derive_unique in Hb. subst. congruence.
Qed.

Lemma pow_old_value : 2127 / 1000 < nerr (ne_pow_old (2, 1 / 10) (3, 2 / 10)) < 2129 / 1000.
Proof. unfold ne_pow_old, nerr, nval, rpw; cbn [fst snd]. split; interval. Qed.

Lemma pow_new_value : 1633 / 1000 < nerr (ne_pow (2, 1 / 10) (3, 2 / 10)) < 1635 / 1000.
Proof. unfold ne_pow, nerr, nval, rpw; cbn [fst snd]. split; interval. Qed.

Lemma pow_old_refuted : ~ first_order2 rpw 2 3 (1 / 10) (2 / 10) (nerr (ne_pow_old (2, 1 / 10) (3, 2 / 10))).
Proof.
  intros H.
  apply (first_order2_unique rpw 2 3 _ _ _ (3 * rpw 2 (3 - 1)) (ln 2 * rpw 2 3)) in H;
    [| apply d_rpw_base; lra | apply d_rpw_exp].
  pose proof pow_old_value as [Hlo _]. rewrite H in Hlo.
  assert (Hn : prop2 (3 * rpw 2 (3 - 1)) (ln 2 * rpw 2 3) (1 / 10) (2 / 10) < 1635 / 1000)
    by (unfold prop2, rpw; interval).
  lra.
Qed.

Lemma rpow_old_refuted : ~ first_order1 (fun t => rpw 2 t) 3 (2 / 10) (nerr (ne_rpow_old 2 (3, 2 / 10))).
Proof.
  intros (d & Hd & He).
  assert (Ed : d = ln 2 * rpw 2 3).
  { apply is_derive_unique in Hd. rewrite <- Hd. apply is_derive_unique, d_rpw_exp. }
  subst d.
  assert (H1 : 175 / 100 < nerr (ne_rpow_old 2 (3, 2 / 10))) by (unfold ne_rpow_old, nerr, nval, rpw; cbn [fst snd]; interval).
  assert (H2 : prop1 (ln 2 * rpw 2 3) (2 / 10) < 112 / 100) by (unfold prop1, rpw; interval).
  lra.
Qed.

Lemma mul_c_old_negative : nerr (ne_mul_c_old (1, 1 / 10) (-3)) < 0.
Proof. unfold ne_mul_c_old, nerr; cbn [fst snd]. lra. Qed.

Lemma div_old_negative : nerr (ne_div_old (1, 1 / 10) (-3, 2 / 10)) < 0.
Proof. unfold ne_div_old, nerr, nval; cbn [fst snd]. interval. Qed.

(* ---------- cal_err: the sum rule extends the two-operand rule; diagonal covariance ---------- *)
Lemma quad_sum_two g1 g2 e1 e2 : sqrt (quad_sum [g1; g2] [e1; e2]) = prop2 g1 g2 e1 e2.
Proof. unfold prop2; cbn [quad_sum]. f_equal. ring. Qed.

Fixpoint diag_rows (k : nat) (es : list R) : list (list R) :=
  match es with
  | [] => []
  | e :: es' => (repeat 0 k ++ e ^ 2 :: repeat 0 (length es')) :: diag_rows (S k) es'
  end.

Lemma dot_repeat0_l k g : dot (repeat 0 k) g = 0.
Proof.
  revert g. induction k as [|k IH]; intros g; cbn [repeat dot]; [destruct g; reflexivity|].
  destruct g; [reflexivity|]. rewrite IH. ring.
Qed.

Lemma dot_zeros_app k row g1 g2 : length g1 = k -> dot (repeat 0 k ++ row) (g1 ++ g2) = dot row g2.
Proof.
  revert g1. induction k as [|k IH]; intros g1 Hl.
  - destruct g1; [reflexivity | discriminate].
  - destruct g1 as [|a g1]; [discriminate|]. cbn [repeat app dot]. rewrite IH by (injection Hl; auto). ring.
Qed.

Lemma quad_form_diag_aux es : forall pre g, length g = length es ->
  dot (map (fun row => dot row (pre ++ g)) (diag_rows (length pre) es)) g = quad_sum g es.
Proof.
  induction es as [|e es IH]; intros pre g Hl.
  - destruct g; [reflexivity | discriminate].
  - destruct g as [|a g]; [discriminate|]. cbn [diag_rows map dot quad_sum].
    rewrite dot_zeros_app by reflexivity. cbn [dot].
    assert (Hz : dot (repeat 0 (length es)) g = 0) by apply dot_repeat0_l. rewrite Hz.
    replace (pre ++ a :: g) with ((pre ++ [a]) ++ g) by (rewrite <- app_assoc; reflexivity).
    replace (S (length pre)) with (length (pre ++ [a])) by (rewrite app_length; cbn; lia).
    rewrite IH by (injection Hl; auto). ring.
Qed.

(* with V = diag(e_i^2) the matrix rule sqrt(g^T V g) is cal_err's sqrt(sum (g_i e_i)^2) *)
Lemma err_prop_diag g es : length g = length es ->
  err_prop (diag_rows 0 es) g = nerr (cal_err_grad 0 g es).
Proof.
  intros Hl. unfold err_prop, quad_form, mat_vec, cal_err_grad, nerr; cbn [snd]. f_equal.
  apply (quad_form_diag_aux es [] g Hl).
Qed.

(* ---------- fit fractions: the quotient rule ---------- *)
Lemma ff_grad_is_derive (fi fI : R -> R) t gi gI :
  is_derive fi t gi -> is_derive fI t gI -> fI t <> 0 ->
  is_derive (fun s => ff (fi s) (fI s)) t (ff_grad gi gI (fi t) (fI t)).
Proof.
  intros Hi HI Hn. unfold ff, ff_grad.
  pose proof (is_derive_div fi fI t gi gI Hi HI Hn) as Hd.
  replace (gi / fI t - fi t / fI t * gI / fI t) with ((gi * fI t - fi t * gI) / (fI t ^ 2)); [exact Hd|].
  field. exact Hn.
Qed.

Lemma ff_int_grad_is_derive (fij fi fj fI : R -> R) t gij gi gj gI :
  is_derive fij t gij -> is_derive fi t gi -> is_derive fj t gj -> is_derive fI t gI -> fI t <> 0 ->
  is_derive (fun s => ff_int (fij s) (fi s) (fj s) (fI s)) t (ff_int_grad gij gi gj gI (fij t) (fi t) (fj t) (fI t)).
Proof.
  intros Hij Hi Hj HI Hn. unfold ff_int, ff_int_grad.
  apply (is_derive_minus (fun s => fij s / fI s - ff (fi s) (fI s)) (fun s => ff (fj s) (fI s))).
  - apply (is_derive_minus (fun s => fij s / fI s) (fun s => ff (fi s) (fI s))).
    + apply (ff_grad_is_derive fij fI t gij gI Hij HI Hn).
    + apply (ff_grad_is_derive fi fI t gi gI Hi HI Hn).
  - apply (ff_grad_is_derive fj fI t gj gI Hj HI Hn).
Qed.

(* sum of diagonal fractions: gradient is the sum of the gradients *)
Lemma ff_sum_is_derive (f1 f2 : R -> R) t g1 g2 :
  is_derive f1 t g1 -> is_derive f2 t g2 -> is_derive (fun s => f1 s + f2 s) t (g1 + g2).
Proof. intros. apply (is_derive_plus f1 f2); assumption. Qed.

Lemma ff_grad_vec_nth gi gI Ii I k : (k < length gi)%nat -> length gi = length gI ->
  nth k (ff_grad_vec gi gI Ii I) 0 = ff_grad (nth k gi 0) (nth k gI 0) Ii I.
Proof.
  revert gI k. induction gi as [|a gi IH]; intros gI k Hk Hl; [cbn in Hk; lia|].
  destruct gI as [|b gI]; [discriminate|]. destruct k; [reflexivity|].
  cbn [ff_grad_vec nth]. apply IH; cbn in *; lia.
Qed.

(* ---------- bound transforms: dydx is the derivative, ranges ---------- *)
Lemma x2p1_pos x : 0 < x ^ 2 + 1.
Proof. pose proof (pow2_ge_0 x). lra. Qed.

Lemma bt_two_is_derive a b x : is_derive (bt_two a b) x (bt_two_d a b x).
Proof. unfold bt_two, bt_two_d. auto_derive; [exact I | field]. Qed.

Lemma bt_lower_is_derive a x : is_derive (bt_lower a) x (bt_lower_d x).
Proof.
  unfold bt_lower, bt_lower_d. pose proof (x2p1_pos x) as Hp.
  auto_derive; [replace (x * (x * 1) + 1) with (x ^ 2 + 1) by ring; exact Hp|].
  replace (x * (x * 1) + 1) with (x ^ 2 + 1) by ring.
  field. apply Rgt_not_eq, sqrt_lt_R0, Hp.
Qed.

Lemma bt_upper_is_derive b x : is_derive (bt_upper b) x (bt_upper_d x).
Proof.
  unfold bt_upper, bt_upper_d. pose proof (x2p1_pos x) as Hp.
  auto_derive; [replace (x * (x * 1) + 1) with (x ^ 2 + 1) by ring; exact Hp|].
  replace (x * (x * 1) + 1) with (x ^ 2 + 1) by ring.
  field. apply Rgt_not_eq, sqrt_lt_R0, Hp.
Qed.

(* ---------- finite sums ---------- *)
Lemma rsum_n_ext f g n : (forall k, (k < n)%nat -> f k = g k) -> rsum_n f n = rsum_n g n.
Proof.
  induction n as [|n IH]; intros H; [reflexivity|]. cbn [rsum_n].
  rewrite IH by (intros; apply H; lia). rewrite H by lia. reflexivity.
Qed.

Lemma rsum_n_zero n : rsum_n (fun _ => 0) n = 0.
Proof. induction n as [|n IH]; [reflexivity|]. cbn [rsum_n]. rewrite IH. ring. Qed.

Lemma rsum_n_scal c f n : rsum_n (fun k => c * f k) n = c * rsum_n f n.
Proof. induction n as [|n IH]; cbn [rsum_n]; [ring|]. rewrite IH. ring. Qed.

Lemma rsum_n_plus f g n : rsum_n (fun k => f k + g k) n = rsum_n f n + rsum_n g n.
Proof. induction n as [|n IH]; cbn [rsum_n]; [ring|]. rewrite IH. ring. Qed.

Lemma delta_refl i : delta i i = 1.
Proof. unfold delta. rewrite Nat.eqb_refl. reflexivity. Qed.

Lemma delta_neq i j : i <> j -> delta i j = 0.
Proof. intros H. unfold delta. apply Nat.eqb_neq in H. rewrite H. reflexivity. Qed.

(* sum_k delta(i,k) a_k = a_i *)
Lemma rsum_n_delta i a n : (i < n)%nat -> rsum_n (fun k => delta i k * a k) n = a i.
Proof.
  induction n as [|n IH]; intros Hi; [lia|]. cbn [rsum_n].
  destruct (Nat.eq_dec i n) as [E|E].
  - subst n. rewrite delta_refl.
    rewrite (rsum_n_ext _ (fun _ => 0)); [rewrite rsum_n_zero; ring|].
    intros k Hk. rewrite delta_neq by lia. ring.
  - rewrite IH by lia. rewrite delta_neq by exact E. ring.
Qed.

Lemma rsum_n_swap (f : nat -> nat -> R) n m :
  rsum_n (fun i => rsum_n (fun j => f i j) m) n = rsum_n (fun j => rsum_n (fun i => f i j) n) m.
Proof.
  induction n as [|n IH]; cbn [rsum_n].
  - rewrite rsum_n_zero. reflexivity.
  - rewrite IH, <- rsum_n_plus. reflexivity.
Qed.

(* ---------- V_y = J V_x J^T for the diagonal Jacobian of the bound transforms ---------- *)
Lemma fdiag_delta d i j : fdiag d i j = d i * delta i j.
Proof. unfold fdiag, delta. destruct (Nat.eqb i j); ring. Qed.

Lemma bound_error_transport_fun n d (V : nat -> nat -> R) i j : (i < n)%nat -> (j < n)%nat ->
  rsum_n (fun k => rsum_n (fun l => fdiag d i k * V k l * fdiag d j l) n) n = d i * V i j * d j.
Proof.
  intros Hi Hj.
  rewrite (rsum_n_ext _ (fun k => delta i k * (d i * (V k j * d j)))).
  - rewrite rsum_n_delta by exact Hi. ring.
  - intros k Hk.
    rewrite (rsum_n_ext _ (fun l => delta j l * (fdiag d i k * V k l * d j))).
    + rewrite rsum_n_delta by exact Hj. rewrite fdiag_delta. ring.
    + intros l Hl. rewrite (fdiag_delta d j l). ring.
Qed.

(* the list model computes exactly d_i V_ij d_j *)
Lemma scale_row_nth di d row j : (j < length d)%nat -> (j < length row)%nat ->
  nth j (scale_row di d row) 0 = di * nth j row 0 * nth j d 0.
Proof.
  unfold scale_row. revert row j. induction d as [|a d IH]; intros row j Hd Hr; [cbn in Hd; lia|].
  destruct row as [|b row]; [cbn in Hr; lia|]. destruct j; [reflexivity|].
  cbn [combine map nth]. apply IH; cbn in *; lia.
Qed.

Lemma tem_aux dfull : forall d V i j,
  (i < length d)%nat -> (i < length V)%nat -> (j < length dfull)%nat -> (j < length (nth i V []))%nat ->
  nth j (nth i (map (fun p : R * list R => scale_row (fst p) dfull (snd p)) (combine d V)) []) 0
  = nth i d 0 * nth j (nth i V []) 0 * nth j dfull 0.
Proof.
  induction d as [|a d IH]; intros V i j Hi HV Hj Hr; [cbn in Hi; lia|].
  destruct V as [|row V]; [cbn in HV; lia|]. destruct i.
  - cbn [combine map nth fst snd]. cbn [nth] in Hr. apply scale_row_nth; assumption.
  - cbn [combine map nth]. apply IH; cbn in *; solve [lia | exact Hr | assumption].
Qed.

Lemma trans_error_matrix_entry d V i j :
  (i < length d)%nat -> (i < length V)%nat -> (j < length d)%nat -> (j < length (nth i V []))%nat ->
  mget (trans_error_matrix d V) i j = nth i d 0 * mget V i j * nth j d 0.
Proof. intros. unfold mget, trans_error_matrix. apply tem_aux; assumption. Qed.

(* ---------- Hessian -> errors ---------- *)
Lemma zero_or_nonzero n (v : nat -> R) :
  (forall k, (k < n)%nat -> v k = 0) \/ (exists k, (k < n)%nat /\ v k <> 0).
Proof.
  induction n as [|n [IH|IH]].
  - left. intros; lia.
  - destruct (Req_dec (v n) 0) as [E|E].
    + left. intros k Hk. destruct (Nat.eq_dec k n); [subst; exact E | apply IH; lia].
    + right. exists n. split; [lia | exact E].
  - right. destruct IH as (k & Hk & Hv). exists k. split; [lia | exact Hv].
Qed.

(* if H is positive definite and H V = I then every V_ii is positive, so sqrt|V_ii| = sqrt V_ii *)
Lemma inverse_diag_pos n (H V : nat -> nat -> R) i :
  pos_def n H -> is_right_inverse n H V -> (i < n)%nat -> 0 < V i i.
Proof.
  intros Hpd Hinv Hi.
  set (v := fun k => V k i).
  assert (Hq : fquad n H v = V i i).
  { unfold fquad.
    rewrite (rsum_n_ext _ (fun k => delta i k * v k)).
    - rewrite rsum_n_delta by exact Hi. reflexivity.
    - intros k Hk. unfold v. rewrite (Hinv k i Hk Hi).
      unfold delta. rewrite (Nat.eqb_sym k i). ring. }
  rewrite <- Hq. apply Hpd.
  destruct (zero_or_nonzero n v) as [Hall|Hex]; [|exact Hex].
  exfalso. pose proof (Hinv i i Hi Hi) as Hii. rewrite delta_refl in Hii.
  rewrite (rsum_n_ext _ (fun _ => 0)) in Hii; [rewrite rsum_n_zero in Hii; lra|].
  intros k Hk. unfold v in Hall. rewrite (Hall k Hk). ring.
Qed.

Lemma hesse_from_inverse n (H V : nat -> nat -> R) i :
  pos_def n H -> is_right_inverse n H V -> (i < n)%nat ->
  0 < V i i /\ sqrt (Rabs (V i i)) = sqrt (V i i).
Proof.
  intros Hpd Hinv Hi. pose proof (inverse_diag_pos n H V i Hpd Hinv Hi) as Hp.
  split; [exact Hp|]. rewrite Rabs_pos_eq by lra. reflexivity.
Qed.

(* the list model of cal_hesse_error reads sqrt|V_ii| *)
Lemma hesse_error_nth V i : (i < length V)%nat -> nth i (hesse_error V) 0 = sqrt (Rabs (mget V i i)).
Proof.
  intros Hi. unfold hesse_error.
  set (F := fun k : nat => sqrt (Rabs (mget V k k))).
  rewrite (nth_indep _ 0 (F 0%nat)) by (rewrite map_length, seq_length; exact Hi).
  rewrite (map_nth F), seq_nth by exact Hi. reflexivity.
Qed.

(* n = 2 written out: the errors are sqrt(c/det), sqrt(a/det) *)
Lemma hesse_2x2 a b c v11 v12 v21 v22 :
  0 < a -> 0 < a * c - b * b ->
  a * v11 + b * v21 = 1 -> a * v12 + b * v22 = 0 -> b * v11 + c * v21 = 0 -> b * v12 + c * v22 = 1 ->
  hesse_error [[v11; v12]; [v21; v22]] = [sqrt (c / (a * c - b * b)); sqrt (a / (a * c - b * b))].
Proof.
  intros Ha Hd E1 E2 E3 E4.
  assert (Hdn : a * c - b * b <> 0) by lra.
  assert (H11 : v11 = c / (a * c - b * b)).
  { apply (Rmult_eq_reg_l (a * c - b * b)); [|exact Hdn].
    replace ((a * c - b * b) * (c / (a * c - b * b))) with c by (field; exact Hdn).
    replace ((a * c - b * b) * v11) with (c * (a * v11 + b * v21) - b * (b * v11 + c * v21)) by ring. rewrite E1, E3. ring. }
  assert (H22 : v22 = a / (a * c - b * b)).
  { apply (Rmult_eq_reg_l (a * c - b * b)); [|exact Hdn].
    replace ((a * c - b * b) * (a / (a * c - b * b))) with a by (field; exact Hdn).
    replace ((a * c - b * b) * v22) with (a * (b * v12 + c * v22) - b * (a * v12 + b * v22)) by ring. rewrite E2, E4. ring. }
  assert (Hc : 0 < c) by nra.
  unfold hesse_error, mget; cbn [length seq map nth].
  rewrite H11, H22.
  rewrite !Rabs_pos_eq; [reflexivity | |]; left; apply Rdiv_lt_0_compat; assumption.
Qed.

(* ---------- every operator rule at once ---------- *)
Lemma op_err_is_first_order x y ex ey c (n : Z) :
  first_order2 Rplus x y ex ey (nerr (ne_add (x, ex) (y, ey))) /\
  first_order2 Rminus x y ex ey (nerr (ne_sub (x, ex) (y, ey))) /\
  first_order2 Rmult x y ex ey (nerr (ne_mul (x, ex) (y, ey))) /\
  (y <> 0 -> first_order2 Rdiv x y ex ey (nerr (ne_div (x, ex) (y, ey)))) /\
  (0 < x -> first_order2 rpw x y ex ey (nerr (ne_pow (x, ex) (y, ey)))) /\
  first_order1 (fun t => t + c) x ex (nerr (ne_add_c (x, ex) c)) /\
  first_order1 (fun t => t - c) x ex (nerr (ne_sub_c (x, ex) c)) /\
  first_order1 (fun t => t * c) x ex (nerr (ne_mul_c (x, ex) c)) /\
  (c <> 0 -> first_order1 (fun t => t / c) x ex (nerr (ne_div_c (x, ex) c))) /\
  (0 < x -> first_order1 (fun t => rpw t c) x ex (nerr (ne_pow_c (x, ex) c))) /\
  ((0 <= n)%Z \/ x <> 0 -> first_order1 (fun t => powerRZ t n) x ex (nerr (ne_pow_z (x, ex) n))) /\
  (0 < c -> first_order1 (fun t => rpw c t) x ex (nerr (ne_rpow c (x, ex)))) /\
  first_order1 Ropp x ex (nerr (ne_neg (x, ex))) /\
  (0 < x -> first_order1 ln x ex (nerr (ne_log (x, ex)))) /\
  first_order1 exp x ex (nerr (ne_exp (x, ex))).
Proof.
  split; [apply add_first_order|]. split; [apply sub_first_order|]. split; [apply mul_first_order|].
  split; [apply div_first_order|]. split; [apply pow_first_order|]. split; [apply add_c_first_order|].
  split; [apply sub_c_first_order|]. split; [apply mul_c_first_order|]. split; [apply div_c_first_order|].
  split; [apply pow_c_first_order|]. split; [apply pow_z_first_order|]. split; [intros _; apply rpow_first_order|].
  split; [apply neg_first_order|]. split; [apply log_first_order|]. apply exp_first_order.
Qed.

(* a one-operand rule is the two-operand rule with a certain second operand *)
Lemma first_order1_of_2 (f : R -> R -> R) x y ex e d2 :
  0 <= ex -> is_derive (fun t => f x t) y d2 -> first_order1 (fun t => f t y) x ex e -> first_order2 f x y ex 0 e.
Proof.
  intros Hex H2 (d & Hd & He). exists d, d2. split; [exact Hd|]. split; [exact H2|].
  rewrite prop2_zero_r, He. unfold prop1. rewrite (Rabs_pos_eq ex) by exact Hex. reflexivity.
Qed.

(* a concrete positive definite Hessian with its inverse: the hypotheses of hesse_from_inverse are satisfiable *)
Definition exH (i j : nat) : R := if Nat.eqb i j then 2 else 1.
Definition exV (i j : nat) : R := if Nat.eqb i j then 2 / 3 else - 1 / 3.

Lemma exH_pos_def : pos_def 2 exH.
Proof.
  intros w (k & Hk & Hw). unfold fquad, exH; cbn [rsum_n Nat.eqb].
  assert (Hc : w 0%nat <> 0 \/ w 1%nat <> 0).
  { destruct k as [|[|k]]; [left; exact Hw | right; exact Hw | lia]. }
  assert (Hs : 0 < w 0%nat ^ 2 + w 1%nat ^ 2).
  { destruct Hc as [Hc|Hc]; pose proof (pow2_gt_0 _ Hc); pose proof (pow2_ge_0 (w 0%nat)); pose proof (pow2_ge_0 (w 1%nat)); lra. }
  pose proof (pow2_ge_0 (w 0%nat + w 1%nat)). nra.
Qed.

Lemma exHV_inverse : is_right_inverse 2 exH exV.
Proof.
  intros i j Hi Hj. destruct i as [|[|i]]; destruct j as [|[|j]]; try lia;
    unfold exH, exV, delta; cbn [rsum_n Nat.eqb]; field.
Qed.

(* ---------- cal_hesse_correct: the finite-difference stencils ---------- *)
Definition cubic (c0 c1 c2 c3 : R) (t : R) : R := c0 + c1 * t + c2 * t ^ 2 + c3 * t ^ 3.
Definition quartic (c0 c1 c2 c3 c4 : R) (t : R) : R := c0 + c1 * t + c2 * t ^ 2 + c3 * t ^ 3 + c4 * t ^ 4.

(* exact on cubics *)
Lemma hc1_cubic c0 c1 c2 c3 x e : e <> 0 -> hc1 (cubic c0 c1 c2 c3) x e = 2 * c2 + 6 * c3 * x.
Proof. intros He. unfold hc1, cubic. field. exact He. Qed.

(* ... and that number is THE second derivative *)
Lemma hc1_cubic_second_derivative c0 c1 c2 c3 x e : e <> 0 ->
  (forall t : R, is_derive (cubic c0 c1 c2 c3) t (c1 + 2 * c2 * t + 3 * c3 * t ^ 2)) /\
  is_derive (fun t : R => c1 + 2 * c2 * t + 3 * c3 * t ^ 2) x (hc1 (cubic c0 c1 c2 c3) x e).
Proof.
  intros He. rewrite hc1_cubic by exact He. split.
  - intros t. unfold cubic. auto_derive; [exact I|]. ring.
  - auto_derive; [exact I|]. ring.
Qed.

(* truncation error on a quartic: 10 c4 e^2 = (5/12) e^2 f'''' *)
Lemma hc1_quartic c0 c1 c2 c3 c4 x e : e <> 0 ->
  hc1 (quartic c0 c1 c2 c3 c4) x e = (2 * c2 + 6 * c3 * x + 12 * c4 * x ^ 2) + 10 * c4 * e ^ 2.
Proof. intros He. unfold hc1, quartic. field. exact He. Qed.

(* the stencil before the repair: f'' + 2 f'/(3e) + e f'''/9 *)
Lemma hc1_old_cubic c0 c1 c2 c3 x e : e <> 0 ->
  hc1_old (cubic c0 c1 c2 c3) x e =
  (2 * c2 + 6 * c3 * x) + 2 * (c1 + 2 * c2 * x + 3 * c3 * x ^ 2) / (3 * e) + e * (6 * c3) / 9.
Proof. intros He. unfold hc1_old, cubic. field. exact He. Qed.

Lemma hc1_old_refuted : exists c0 c1 c2 c3 x e, e <> 0 /\ hc1_old (cubic c0 c1 c2 c3) x e <> 2 * c2 + 6 * c3 * x.
Proof.
  exists 0, 1, 0, 0, 0, 1. split; [lra|]. rewrite hc1_old_cubic by lra. lra.
Qed.

(* mixed derivative: exact on polynomials of total degree <= 3 *)
Definition cubic2 (a0 a1 a2 a3 a4 a5 a6 a7 a8 a9 : R) (s t : R) : R :=
  a0 + a1 * s + a2 * t + a3 * s * t + a4 * s ^ 2 + a5 * t ^ 2 + a6 * s ^ 2 * t + a7 * s * t ^ 2 + a8 * s ^ 3 + a9 * t ^ 3.
Lemma hc2_cubic2 a0 a1 a2 a3 a4 a5 a6 a7 a8 a9 x y e : e <> 0 ->
  hc2 (cubic2 a0 a1 a2 a3 a4 a5 a6 a7 a8 a9) x y e = a3 + 2 * a6 * x + 2 * a7 * y.
Proof. intros He. unfold hc2, cubic2. field. exact He. Qed.

Lemma hc2_cubic2_mixed_derivative a0 a1 a2 a3 a4 a5 a6 a7 a8 a9 x y e : e <> 0 ->
  (forall s t : R, is_derive (fun u : R => cubic2 a0 a1 a2 a3 a4 a5 a6 a7 a8 a9 u t) s
                     (a1 + a3 * t + 2 * a4 * s + 2 * a6 * s * t + a7 * t ^ 2 + 3 * a8 * s ^ 2)) /\
  is_derive (fun t : R => a1 + a3 * t + 2 * a4 * x + 2 * a6 * x * t + a7 * t ^ 2 + 3 * a8 * x ^ 2) y
            (hc2 (cubic2 a0 a1 a2 a3 a4 a5 a6 a7 a8 a9) x y e).
Proof.
  intros He. rewrite hc2_cubic2 by exact He. split.
  - intros s t. unfold cubic2. auto_derive; [exact I|]. ring.
  - auto_derive; [exact I|]. ring.
Qed.

(* the list forms used by the correspondence cases are the one- and two-variable stencils along the coordinates *)
Lemma hc_diag_unfold f xs e i : hc_diag f xs e i = hc1 (fun t => f (upd xs i t)) (nth i xs 0) e.
Proof. reflexivity. Qed.
Lemma hc_off_unfold f xs e i j :
  hc_off f xs e i j = hc2 (fun s t => f (upd (upd xs i s) j t)) (nth i xs 0) (nth j xs 0) e.
Proof. reflexivity. Qed.

(* ---------- get_error_matrix ---------- *)
Lemma jvjt_diag J V k : jvjt_kl J V k k = quad_form V (nth k J []).
Proof. reflexivity. Qed.

Lemma err_prop_vec_nth J V k : (k < length J)%nat -> nth k (err_prop_vec J V) 0 = sqrt (jvjt_kl J V k k).
Proof.
  intros Hk. unfold err_prop_vec. rewrite (nth_indep _ 0 (err_prop V [])) by (rewrite map_length; exact Hk).
  rewrite map_nth. reflexivity.
Qed.

(* ---------- VarsManager.minimize / minimize_error before the repair ---------- *)
(* minimize evaluated y'(.) at the physical value y(x) instead of the fit variable x *)
Lemma minimize_old_dydx_at_y_refuted : bt_two_d 0 1 (bt_two 0 1 1) <> bt_two_d 0 1 1.
Proof.
  unfold bt_two_d, bt_two. intros H.
  assert (H1 : (1 - 0) * cos ((1 - 0) * (sin 1 + 1) / 2 + 0) / 2 > 3 / 10) by interval.
  assert (H2 : (1 - 0) * cos 1 / 2 < 28 / 100) by interval.
  lra.
Qed.
(* minimize_error scaled an inverse Hessian that already is in physical coordinates once more by y' *)
Lemma minimize_error_old_refuted :
  exists d V, nth 0 (hesse_error (trans_error_matrix d V)) 0 <> nth 0 (hesse_error V) 0.
Proof.
  exists [1 / 2], [[1]]. unfold hesse_error, trans_error_matrix, scale_row, mget; cbn [length seq map combine nth fst snd].
  replace (1 / 2 * 1 * (1 / 2)) with (/ 4) by field.
  rewrite (Rabs_pos_eq (/ 4)) by lra. rewrite Rabs_R1, sqrt_1.
  intros H. assert (Hs : sqrt (/ 4) * sqrt (/ 4) = / 4) by (apply sqrt_sqrt; lra). rewrite H in Hs. lra.
Qed.
