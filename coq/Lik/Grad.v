(* C07 - model of the hand-written gradient / Hessian / Hessian-vector formulas of tf-pwa
   (definitions only; lemmas in Grad_proofs.v).

   Everything is "per coordinate": for a fixed pair of parameter directions (k, l) the inputs are the
   per-event values captured at the parameter point,
       f, dk, dl, d2 : amp(x_i), d_k amp(x_i), d_l amp(x_i), d_k d_l amp(x_i)   on data ++ background
       g, gk, gl, g2 : the same on the phase-space sample
   (in the implementation these come from TensorFlow's autodiff of the amplitude - the oracle of C07).
   Anchors:
     model.py:407-449  nll_grad_batch      g = -g_lndata + sw * g_int * int_g(int)          -> grad_default
     model.py:513-561  nll_grad_hessian    h = -h_ln + sw*outer*int_h + sw*h_int*int_g      -> hess_default
     model.py:451-511  grad_hessp_batch    hessp2 - hessp_ln_data                            -> hessp_default
     cfit.py:89-211    Model_cfit          chain rule through I_sig, I_bg                    -> grad_cfit, hess_cfit
     cfit.py:343-485   ModelCfitExtended   + lambda terms                                    -> grad_cfit_ext, hess_cfit_ext
     model.py:946-986  GaussianConstr      (theta-mean)/sigma^2, 1/sigma^2                   -> gauss_grad, gauss_hess
     model.py:1268     FCN.grad_hessp      h + H_c p                                         -> hessp_total
     variable.py:797   trans_fcn_grad      G_x = G_y y'                                      -> trans_grad
     variable.py:823   trans_grad_hessp    y' H_y (p y') + G_y y'' p                         -> trans_hessp
     variable.py:859   trans_f_grad_hess   y'_k H_kl y'_l + delta_kl G_k y''_k               -> trans_hess
     variable.py:1033  class Bound         the three default transforms and their derivatives *)
From Coq Require Import Reals List.
From TFV Require Import Base.RSum Lik.NLL.
Import ListNotations.
Open Scope R_scope.

(* int_g = d int_f / dx, int_h = d int_g / dx  (BaseModel.__init__) *)
Definition int_g (ext : bool) (x : R) : R := if ext then 1 else / x.
Definition int_h (ext : bool) (x : R) : R := if ext then 0 else - / (x * x).

(* derivative of clip_log (both branches; the branches agree at eps: Grad_proofs.clip_log_C1) *)
Definition dclip_log (x : R) : R :=
  if Rlt_dec eps_clip x then / x else / eps_clip - (x - eps_clip) / (eps_clip * eps_clip).

(* ---- default / extended ---- *)

(* d_k NLL = - sum w d_k f / f + sw * (sum v d_k g) * int_g(sum v g) *)
Definition grad_default (ext : bool) (w f dk v g gk : list R) : R :=
  - rdot w (rzip Rdiv dk f) + rsum w * (rdot v gk * int_g ext (rdot v g)).

(* per-event second derivative of ln f :  d2/f - dk dl / f^2 *)
Fixpoint hterms (f dk dl d2 : list R) : list R :=
  match f, dk, dl, d2 with
  | x :: f', a :: dk', b :: dl', c :: d2' => (c / x - a * b / (x * x)) :: hterms f' dk' dl' d2'
  | _, _, _, _ => []
  end.

(* d_k d_l NLL : data term + outer-product term + integral term *)
Definition hess_default (ext : bool) (w f dk dl d2 v g gk gl g2 : list R) : R :=
  - rdot w (hterms f dk dl d2)
  + rsum w * (rdot v gk * rdot v gl * int_h ext (rdot v g))
  + rsum w * (rdot v g2 * int_g ext (rdot v g)).

(* Hessian-vector product as assembled by grad_hessp_batch for component k:
     hp_ln  = (H_lndata p)_k, hp_int = (H_int p)_k   from forward-over-reverse autodiff,
     gi_k = d_k int, pg = p . grad(int) *)
Definition hessp_default (ext : bool) (sw int hp_ln hp_int gi_k pg : R) : R :=
  sw * (hp_int * int_g ext int + gi_k * pg * int_h ext int) - hp_ln.

(* a matrix row times the vector *)
Definition row_dot (row p : list R) : R := rdot row p.

(* ---- cfit ----  P_i = c1 s_i / I + c2_i,  s = eff*amp, I = I_sig, c1 = 1 - f_bg, c2_i = f_bg bg_i / I_bg *)

Fixpoint cfit_P (c1 I : R) (s c2 : list R) : list R :=
  match s, c2 with
  | x :: s', c :: c2' => (c1 * x / I + c) :: cfit_P c1 I s' c2'
  | _, _ => []
  end.

(* d_k P_i = c1 (ds_i I - s_i dI) / I^2 *)
Fixpoint cfit_dP (c1 I dI : R) (s ds : list R) : list R :=
  match s, ds with
  | x :: s', a :: ds' => (c1 * (a * I - x * dI) / (I * I)) :: cfit_dP c1 I dI s' ds'
  | _, _ => []
  end.

(* d_k d_l P_i = c1 [ d2s/I - (ds_k dI_l + ds_l dI_k)/I^2 - s d2I/I^2 + 2 s dI_k dI_l / I^3 ] *)
Fixpoint cfit_d2P (c1 I dIk dIl d2I : R) (s dsk dsl d2s : list R) : list R :=
  match s, dsk, dsl, d2s with
  | x :: s', a :: dsk', b :: dsl', c :: d2s' =>
      (c1 * (c / I - (a * dIl + b * dIk) / (I * I) - x * d2I / (I * I) + 2 * x * dIk * dIl / (I * I * I)))
      :: cfit_d2P c1 I dIk dIl d2I s' dsk' dsl' d2s'
  | _, _, _, _ => []
  end.

Definition grad_cfit (c1 : R) (W s dsk c2 : list R) (I dIk : R) : R :=
  - rdot W (rzip Rdiv (cfit_dP c1 I dIk s dsk) (cfit_P c1 I s c2)).

Definition hess_cfit (c1 : R) (W s dsk dsl d2s c2 : list R) (I dIk dIl d2I : R) : R :=
  - rdot W (hterms (cfit_P c1 I s c2) (cfit_dP c1 I dIk s dsk) (cfit_dP c1 I dIl s dsl)
                   (cfit_d2P c1 I dIk dIl d2I s dsk dsl d2s)).

(* extended: + d(- sw ln(I/c1) + I/c1) *)
Definition grad_cfit_ext (c1 : R) (W s dsk c2 : list R) (I dIk : R) : R :=
  grad_cfit c1 W s dsk c2 I dIk - rsum W * dIk / I + dIk / c1.

Definition hess_cfit_ext (c1 : R) (W s dsk dsl d2s c2 : list R) (I dIk dIl d2I : R) : R :=
  hess_cfit c1 W s dsk dsl d2s c2 I dIk dIl d2I
  - rsum W * (d2I / I - dIk * dIl / (I * I)) + d2I / c1.

(* ---- Gaussian constraints ---- *)

Definition gauss_grad (c : R * R * R) : R := let '(th, mean, sigma) := c in (th - mean) / (sigma * sigma).
Definition gauss_hess (c : R * R * R) : R := let '(th, mean, sigma) := c in 1 / (sigma * sigma).

(* FCN.nll_grad / nll_grad_hessian / grad_hessp : model term + constraint term (cg, ch = 0 for an
   unconstrained coordinate; the constraint Hessian is diagonal) *)
Definition grad_total (g cg : R) : R := g + cg.
Definition hess_total (h ch : R) (diag : bool) : R := if diag then h + ch else h.
Definition hessp_total (hp ch pk : R) : R := hp + ch * pk.

(* ---- bounded parameters: y(x) and derivatives (class Bound) ---- *)

Definition y_sin (a b x : R) : R := (b - a) * (sin x + 1) / 2 + a.
Definition dy_sin (a b x : R) : R := (b - a) * cos x / 2.
Definition d2y_sin (a b x : R) : R := - (b - a) * sin x / 2.

Definition y_lo (a x : R) : R := a - 1 + sqrt (x * x + 1).
Definition dy_lo (x : R) : R := x / sqrt (x * x + 1).
Definition d2y_lo (x : R) : R := 1 / ((x * x + 1) * sqrt (x * x + 1)).

Definition y_up (b x : R) : R := b + 1 - sqrt (x * x + 1).
Definition dy_up (x : R) : R := - x / sqrt (x * x + 1).
Definition d2y_up (x : R) : R := - (1 / ((x * x + 1) * sqrt (x * x + 1))).

(* trans_fcn_grad *)
Definition trans_grad (gy dy : R) : R := gy * dy.
(* trans_f_grad_hess *)
Definition trans_hess (hy dyk dyl gyk d2yk : R) (diag : bool) : R :=
  if diag then dyk * hy * dyl + gyk * d2yk else dyk * hy * dyl.
(* trans_grad_hessp: hpy = (H_y (p .* y'))_k *)
Definition trans_hessp (hpy dyk gyk d2yk pk : R) : R := hpy * dyk + gyk * d2yk * pk.

(* ---- helpers for the theorems ---- *)

(* a family of per-event functions evaluated at a parameter value *)
Definition evalat (Fs : list (R -> R)) (u : R) : list R := map (fun F => F u) Fs.

(* row k of the default Hessian from the rows of H_lndata, H_int and grad(int) *)
Fixpoint hess_row (ext : bool) (sw int gik : R) (hln hint gi : list R) : list R :=
  match hln, hint, gi with
  | a :: hln', b :: hint', c :: gi' =>
      (- a + sw * (gik * c * int_h ext int) + sw * (b * int_g ext int)) :: hess_row ext sw int gik hln' hint' gi'
  | _, _, _ => []
  end.

(* row k of a diagonal matrix diag(.., c, ..) of size n *)
Fixpoint unit_row (k n : nat) (c : R) : list R :=
  match n with
  | O => []
  | S n' => match k with O => c :: repeat 0 n' | S k' => 0 :: unit_row k' n' c end
  end.

(* ---- additions of the C07 hunt-fix round ---- *)

(* Gaussian constraints on TIED names (model.py GaussianConstr after repair patch_2): every constraint
   (mean, sigma) whose name shares the variable cell theta of a trainable name contributes to that
   coordinate of the gradient / the diagonal of the Hessian, as it contributes to the value
   (get_constrain_term loops over all constraints). *)
Definition gauss_cell (th : R) (ms : list (R * R)) : list (R * R * R) := map (fun c : R * R => (th, fst c, snd c)) ms.
Definition gauss_cell_grad (th : R) (ms : list (R * R)) : R := rsum (map gauss_grad (gauss_cell th ms)).
Definition gauss_cell_hess (th : R) (ms : list (R * R)) : R := rsum (map gauss_hess (gauss_cell th ms)).

(* the OLD get_constrain_grad (before patch_2): only a constraint keyed by the trainable name itself
   (flag true) entered the derivative; the one keyed by a tied non-head name (flag false) was skipped *)
Definition gauss_cell_grad_old (th : R) (ms : list (bool * (R * R))) : R :=
  rsum (map (fun c : bool * (R * R) => if fst c then gauss_grad (th, fst (snd c), snd (snd c)) else 0) ms).

(* fit_improve.Cached_FG: a NaN component of the gradient handed to the optimiser is replaced by the
   central difference of the value, step h = 1e-6 (after repair patch_7);
   the OLD code evaluated f(x+h) and f(x) and still divided by 2h *)
Definition fd_central (F : R -> R) (x h : R) : R := (F (x + h) - F (x - h)) / (2 * h).
Definition fd_old (F : R -> R) (x h : R) : R := (F (x + h) - F x) / (2 * h).

(* Model_cfit.nll after repair patch_5: clip_log like nll_grad_batch (NLL.cfit_call is the OLD code: plain ln) *)
Definition cfit_call_clip (fb : R) (W e f b V eg g bm : list R) : R :=
  - rdot (scale_w W) (map clip_log (cfit_probs fb e f b V eg g bm)).
