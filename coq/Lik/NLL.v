(* C06 - model of the likelihood layer of tf-pwa (definitions only; lemmas in NLL_proofs.v).

   The likelihood layer is isolated from the amplitude layer: every function below takes the
   per-event densities as inputs,
       f : densities amp(x_i) on the (data ++ background) events,
       g : densities amp(y_j) on the phase-space (MC) events,
   together with the event weights.  Anchors (tf_pwa/model/...):
     model.py:603  Model.get_weight_data      -> blend, alpha, scale_w, fcn_weight
     model.py:1126 FCN.__init__               -> fcn_weight, mc_norm
     model.py:283  clip_log                   -> clip_log
     model.py:322  BaseModel.nll              -> nll_base
     model.py:656  Model.nll (FCN.__call__)   -> nll_call, nll_default
     model.py:407  BaseModel.nll_grad_batch   -> nll_gradval, nll_gradval_batched  (value of FCN.nll_grad)
     cfit.py:48    Model_cfit.nll             -> cfit_call ;  :89 nll_grad_batch -> cfit_gradval
     cfit.py:292   ModelCfitExtended.nll      -> cfit_ext_call ; :343 -> cfit_ext_gradval
     custom.py:184 simple / simple_clip / simple_cfit
     config_loader.py:538 _get_model / :664 get_fcn -> models_for_sets, fcn_parts (one model per data set)
     multi_config.py:143 MultiConfig.get_fcn   -> combine (constraints of all configurations collected first)
     model.py:931  GaussianConstr.get_constrain_term -> gauss_term
     model.py:1341 CombineFCN.__call__        -> combine
   Quirks transcribed on purpose: alpha is applied three times on the FCN.__call__ path
   (FCN.__init__, Model.nll, BaseModel.nll) and once on the nll_grad path; Model_cfit.nll / ModelCfitExtended.nll
   use clip_log like their nll_grad_batch since /repo 9a16823 (before: the plain logarithm, cfit_call / cfit_ext_call).
   The model describes the code with the repairs proposed in /verif/build/fix_C06 (patch_1, patch_2, patch_4, patch_10):
   simple_cfit reads the data-side efficiency from "eff_value" (the old code read the key "err_value", so an
   "eff_value" column of the data was ignored: simple_cfit_call_old); a scalar bg_frac gives one cfit model PER DATA SET
   (the old code built one model, and zip() dropped every further data set: models_for_sets_old). *)
From Coq Require Import Reals List.
From TFV Require Import Base.RBase Base.RSum.
Import ListNotations.
Open Scope R_scope.

(* ---- weights ---- *)

Definition sqs (w : list R) : list R := map (fun x => x * x) w.

(* alpha = sum w / sum w^2 *)
Definition alpha (w : list R) : R := rsum w / rsum (sqs w).

Definition scale_w (w : list R) : list R := rscale (alpha w) w.

(* background events without explicit weights enter with -w_bkg each *)
Definition bg_const_weights (w_bkg : R) (n : nat) : list R := repeat (- w_bkg) n.

(* data weights ++ background weights (already carrying their sign) *)
Definition blend (ws bgw : list R) : list R := ws ++ bgw.

(* FCN.weight *)
Definition fcn_weight (ws bgw : list R) : list R := scale_w (blend ws bgw).

(* FCN.mc_weight = v / sum v *)
Definition mc_norm (v : list R) : list R := rscale (/ rsum v) v.

(* ---- clipped logarithm (model.py:283) ---- *)

Definition eps_clip : R := 1 / 1000000.

Definition clip_log (x : R) : R :=
  if Rlt_dec eps_clip x then ln x
  else ln eps_clip + (x - eps_clip) / eps_clip
       - ((x - eps_clip) / eps_clip) * ((x - eps_clip) / eps_clip) / 2.

(* the same function written without a case distinction (so that Coq-Interval can evaluate it in the
   correspondence goals): ln(max x eps) + P(min x eps - eps), P(d) = d/eps - (d/eps)^2/2.
   Equality with [clip_log] for every x: NLL_proofs.clip_log_abs_eq. *)
Definition rmin (a b : R) : R := (a + b - Rabs (a - b)) / 2.

Definition clip_log_abs (x : R) : R :=
  ln (rmax x eps_clip) + (rmin x eps_clip - eps_clip) / eps_clip
  - ((rmin x eps_clip - eps_clip) / eps_clip) * ((rmin x eps_clip - eps_clip) / eps_clip) / 2.

(* total shortfall below 2c (branch-free): [shortfall c l <= c/2] certifies in ONE Coq-Interval goal
   that every element of l is above c (NLL_proofs.shortfall_gt) *)
Definition shortfall (c : R) (l : list R) : R := rsum (map (fun x => rmax 0 (2 * c - x)) l).

(* int_f of BaseModel: log when not extended, identity when extended *)
Definition int_f (ext : bool) (x : R) : R := if ext then x else ln x.

(* ---- default / extended ---- *)

(* BaseModel.nll on weights w (as stored in data["weight"]) and MC weights v *)
Definition nll_base (ext : bool) (w f v g : list R) : R :=
  - alpha w * (rdot w (map clip_log f) - rsum w * int_f ext (rdot v g / rsum v)).

(* Model.nll as called by FCN.__call__ with the stored weights W = FCN.weight, V = FCN.mc_weight:
   get_weight_data rescales W by alpha(W) again before BaseModel.nll *)
Definition nll_call (ext : bool) (W f V g : list R) : R := nll_base ext (scale_w W) f V g.

(* FCN.__call__ from the raw inputs *)
Definition nll_default (ext : bool) (ws bgw f v g : list R) : R :=
  nll_call ext (fcn_weight ws bgw) f (mc_norm v) g.

(* value returned by FCN.nll_grad / nll_grad_hessian: -sum W clip_log f + sw int_f(sum V g) *)
Definition nll_gradval (ext : bool) (W f V g : list R) : R :=
  - rdot W (map clip_log f) + rsum W * int_f ext (rdot V g).

(* the same, accumulated over batches (weights, densities) as the code does *)
Definition clip_batch (b : list R * list R) : list R * list R := (fst b, map clip_log (snd b)).

Definition nll_gradval_batched (ext : bool) (bd bm : list (list R * list R)) : R :=
  - rsum (map (fun b => rdot (fst b) (snd (clip_batch b))) bd)
  + rsum (map (fun b => rsum (fst b)) bd) * int_f ext (rsum (map (fun b => rdot (fst b) (snd b)) bm)).

Definition nll_grad_default (ext : bool) (ws bgw f v g : list R) : R :=
  nll_gradval ext (fcn_weight ws bgw) f (mc_norm v) g.

(* the formula of the property text *)
Definition nll_doc (w f v g : list R) : R :=
  - alpha w * (rdot w (map ln f) - rsum w * ln (rdot v g / rsum v)).

Definition nll_doc_ext (w f v g : list R) : R :=
  - alpha w * (rdot w (map ln f) - rsum w * (rdot v g / rsum v)).

(* ---- cfit ---- *)

(* P = (1-f_bg) sig/I_sig + f_bg bg/I_bg *)
Definition cfit_prob (fb isig ibg s b : R) : R := (1 - fb) * s / isig + fb * b / ibg.

(* sig = eff * amp *)
Definition sig_of (e f : list R) : list R := rzip Rmult e f.

Definition cfit_probs (fb : R) (e f b V eg g bm : list R) : list R :=
  rzip (cfit_prob fb (rdot V (sig_of eg g)) (rdot V bm)) (sig_of e f) b.

(* Model_cfit.nll via FCN.__call__ BEFORE /repo 9a16823 (plain log, weights rescaled once more).  OLD code: kept under
   this name because Lik/Grad*.v (C07) refers to it as the old stand-alone value *)
Definition cfit_call (fb : R) (W e f b V eg g bm : list R) : R :=
  - rdot (scale_w W) (map ln (cfit_probs fb e f b V eg g bm)).

(* Model_cfit.nll via FCN.__call__ since /repo 9a16823: the same clip_log as nll_grad_batch (weights rescaled once more).
   (Resolution size 1: an event of weight 0 has the guarded density 0 in the code and contributes 0 * clip_log(0) = 0,
   as it does here with 0 * clip_log(P).) *)
Definition cfit_nll (fb : R) (W e f b V eg g bm : list R) : R :=
  - rdot (scale_w W) (map clip_log (cfit_probs fb e f b V eg g bm)).

(* value of Model_cfit.nll_grad_batch / nll_grad_hessian (clip_log) *)
Definition cfit_gradval (fb : R) (W e f b V eg g bm : list R) : R :=
  - rdot W (map clip_log (cfit_probs fb e f b V eg g bm)).

(* ModelCfitExtended.nll : ... - sw ln(lambda) + lambda, lambda = I_sig/(1-f_bg) *)
Definition cfit_lambda (fb : R) (V eg g : list R) : R := rdot V (sig_of eg g) / (1 - fb).

(* OLD (before 9a16823): plain log *)
Definition cfit_ext_call (fb : R) (W e f b V eg g bm : list R) : R :=
  - rdot (scale_w W) (map ln (cfit_probs fb e f b V eg g bm))
  - rsum (scale_w W) * ln (cfit_lambda fb V eg g) + cfit_lambda fb V eg g.

(* ModelCfitExtended.nll since 9a16823: clip_log *)
Definition cfit_ext_nll (fb : R) (W e f b V eg g bm : list R) : R :=
  - rdot (scale_w W) (map clip_log (cfit_probs fb e f b V eg g bm))
  - rsum (scale_w W) * ln (cfit_lambda fb V eg g) + cfit_lambda fb V eg g.

Definition cfit_ext_gradval (fb : R) (W e f b V eg g bm : list R) : R :=
  - rdot W (map clip_log (cfit_probs fb e f b V eg g bm))
  - rsum W * ln (cfit_lambda fb V eg g) + cfit_lambda fb V eg g.

(* documented mixture from the raw weights *)
Definition cfit_doc (fb : R) (w e f b v eg g bm : list R) : R :=
  - alpha w * rdot w (map ln (cfit_probs fb e f b (mc_norm v) eg g bm)).

Definition cfit_default (fb : R) (ws e f b v eg g bm : list R) : R :=
  cfit_nll fb (fcn_weight ws []) e f b (mc_norm v) eg g bm.

Definition cfit_ext_default (fb : R) (ws e f b v eg g bm : list R) : R :=
  cfit_ext_nll fb (fcn_weight ws []) e f b (mc_norm v) eg g bm.

(* the stand-alone values of the OLD code *)
Definition cfit_default_old (fb : R) (ws e f b v eg g bm : list R) : R :=
  cfit_call fb (fcn_weight ws []) e f b (mc_norm v) eg g bm.

Definition cfit_ext_default_old (fb : R) (ws e f b v eg g bm : list R) : R :=
  cfit_ext_call fb (fcn_weight ws []) e f b (mc_norm v) eg g bm.

Definition cfit_ext_doc (fb : R) (w e f b v eg g bm : list R) : R :=
  let lam := cfit_lambda fb (mc_norm v) eg g in
  - alpha w * rdot w (map ln (cfit_probs fb e f b (mc_norm v) eg g bm))
  - (alpha w * rsum w) * ln lam + lam.

(* ---- custom.py ---- *)

(* SimpleNllModel: FCN.__call__ -> BaseCustomModel.nll (no further alpha, plain log) *)
Definition simple_call (W f V g : list R) : R :=
  - rdot W (map ln f) + rsum W * ln (rdot V g).

(* nll_grad_batch: normalisation summed over MC batches, then one part per data batch *)
Definition simple_batched (bd bm : list (list R * list R)) : R :=
  rsum (map (fun b => - rdot (fst b) (map ln (snd b))
                      + rsum (fst b) * ln (rsum (map (fun m => rdot (fst m) (snd m)) bm))) bd).

Definition simple_clip_call (W f V g : list R) : R :=
  - rdot W (map clip_log f) + rsum W * clip_log (rdot V g).

Definition simple_clip_batched (bd bm : list (list R * list R)) : R :=
  rsum (map (fun b => - rdot (fst b) (map clip_log (snd b))
                      + rsum (fst b) * clip_log (rsum (map (fun m => rdot (fst m) (snd m)) bm))) bd).

(* SimpleCFitModel: e is data["eff_value"], eg is phsp["eff_value"] *)
Definition simple_cfit_call (fb : R) (W e f b V eg g bm : list R) : R :=
  - rdot W (map ln (cfit_probs fb e f b V eg g bm)).

(* the code before patch_4: the data efficiency e is not read; errv = data["err_value"] (1 when absent) is used instead *)
Definition simple_cfit_call_old (fb : R) (W e errv f b V eg g bm : list R) : R :=
  - rdot W (map ln (cfit_probs fb errv f b V eg g bm)).

(* ---- one likelihood model per data set (ConfigLoader._get_model / get_fcn) ---- *)

(* a per-set configuration entry (bg_frac, bg_weight) is a list with one value per data set or a scalar for all of them;
   n = number of data sets handed to get_fcn.  The list of models is built for THIS n (patch_2: n is part of the cache key) *)
Definition models_for_sets {A : Type} (entry : A + list A) (n : nat) : list A :=
  match entry with inl x => List.repeat x n | inr l => l end.

(* cfit before patch_1: a scalar bg_frac gave ONE model whatever the number of data sets *)
Definition models_for_sets_old {A : Type} (entry : A + list A) (n : nat) : list A :=
  match entry with inl x => [x] | inr l => l end.

(* get_fcn: zip(models, data sets) - one FCN per pair, the shorter list wins *)
Fixpoint fcn_parts {A D : Type} (models : list A) (sets : list D) : list (A * D) :=
  match models, sets with
  | m :: ms, d :: ds => (m, d) :: fcn_parts ms ds
  | _, _ => []
  end.

(* ---- Gaussian constraints and simultaneous fits ---- *)

(* one constraint = (theta, mean, sigma) *)
Definition gauss_one (c : R * R * R) : R :=
  let '(th, mean, sigma) := c in (th - mean) * (th - mean) / (sigma * sigma) / 2.

Definition gauss_term (cs : list (R * R * R)) : R := rsum (map gauss_one cs).

(* FCN.__call__ / FCN.nll_grad value *)
Definition fcn_total (nll : R) (cs : list (R * R * R)) : R := nll + gauss_term cs.

(* CombineFCN.__call__ : sum of the parts (each WITHOUT its own constraint term) + one constraint term *)
Definition combine (nlls : list R) (cs : list (R * R * R)) : R := rsum nlls + gauss_term cs.

(* ---- list closeness used by the correspondence cases ---- *)
(* squared distance: one Coq-Interval goal [sqdist a b <= tol^2] certifies [close_list tol a b]
   (NLL_proofs.sqdist_close) *)
Fixpoint sqdist (a b : list R) : R :=
  match a, b with
  | x :: a', y :: b' => (x - y) * (x - y) + sqdist a' b'
  | [], [] => 0
  | _, _ => 1
  end.

Fixpoint close_list (tol : R) (a b : list R) : Prop :=
  match a, b with
  | x :: a', y :: b' => Rabs (x - y) <= tol /\ close_list tol a' b'
  | [], [] => True
  | _, _ => False
  end.

(* ---- resolution_size = R > 1 : an event is R consecutive smeared samples ----
   model.py:41 _batch_sum / :322 BaseModel.nll / :603 get_weight_data reshape the flat per-sample
   arrays to (-1, R):   event weight  W_e = sum_j w_ej,
                        event density (sum_j w_ej f_ej) / dom(W_e),  dom(W) = 1 if W = 0 else W,
   and the logarithm is taken per EVENT.  Events are modelled as lists of their samples; [chunk R]
   is the reshape of a flat list (used by the correspondence goals, evaluated inside Coq). *)

Fixpoint chunk_fuel (fuel n : nat) (l : list R) : list (list R) :=
  match fuel with
  | O => []
  | S k => match l with
           | [] => []
           | _ => firstn n l :: chunk_fuel k n (skipn n l)
           end
  end.
Definition chunk (n : nat) (l : list R) : list (list R) := chunk_fuel (length l) n l.

Definition ev_weights (we : list (list R)) : list R := map rsum we.

Definition dom_w (W : R) : R := if Req_EM_T W 0 then 1 else W.

Fixpoint ev_density (we fe : list (list R)) : list R :=
  match we, fe with
  | w :: we', f :: fe' => rdot w f / dom_w (rsum w) :: ev_density we' fe'
  | _, _ => []
  end.

(* the same without the zero guard (equal when no event weight vanishes: NLL_proofs.ev_density_nz_eq) *)
Fixpoint ev_density_nz (we fe : list (list R)) : list R :=
  match we, fe with
  | w :: we', f :: fe' => rdot w f / rsum w :: ev_density_nz we' fe'
  | _, _ => []
  end.

(* get_weight_data with resolution: alpha from the EVENT weights, applied to every sample *)
Definition alpha_res (we : list (list R)) : R := alpha (ev_weights we).
Definition scale_res (we : list (list R)) : list (list R) := map (rscale (alpha_res we)) we.
Definition fcn_weight_res (n : nat) (ws bgw : list R) : list (list R) := scale_res (chunk n (blend ws bgw)).

(* BaseModel.nll : sw is the sum over samples, alpha = sw / sum_e W_e^2 *)
Definition nll_base_res (ext : bool) (we fe : list (list R)) (v g : list R) : R :=
  - (rsum (concat we) / rsum (sqs (ev_weights we)))
  * (rdot (ev_weights we) (map clip_log (ev_density we fe))
     - rsum (concat we) * int_f ext (rdot v g / rsum v)).

Definition nll_call_res (ext : bool) (We fe : list (list R)) (V g : list R) : R :=
  nll_base_res ext (scale_res We) fe V g.

(* value of nll_grad_batch / nll_grad_hessian (sum_gradient with resolution_size) *)
Definition nll_gradval_res (ext : bool) (We fe : list (list R)) (V g : list R) : R :=
  - rdot (ev_weights We) (map clip_log (ev_density We fe)) + rsum (concat We) * int_f ext (rdot V g).

(* batches of whole events *)
Definition nll_gradval_res_batched (ext : bool) (bd : list (list (list R) * list (list R))) (bm : list (list R * list R)) : R :=
  - rsum (map (fun b => rdot (ev_weights (fst b)) (map clip_log (ev_density (fst b) (snd b)))) bd)
  + rsum (map (fun b => rsum (concat (fst b))) bd) * int_f ext (rsum (map (fun b => rdot (fst b) (snd b)) bm)).

(* cfit with resolution.  Model_cfit.nll: event averages of sig and bg (no zero guard), plain log *)
Fixpoint ev_cfit_probs (fb isig ibg : R) (we se be : list (list R)) : list R :=
  match we, se, be with
  | w :: we', s :: se', b :: be' =>
      cfit_prob fb isig ibg (rdot w s / rsum w) (rdot w b / rsum w) :: ev_cfit_probs fb isig ibg we' se' be'
  | _, _, _ => []
  end.

Definition cfit_call_res (fb : R) (We se be : list (list R)) (V sg bm : list R) : R :=
  - rdot (ev_weights (scale_res We)) (map ln (ev_cfit_probs fb (rdot V sg) (rdot V bm) (scale_res We) se be)).

(* nll_grad_batch / nll_grad_hessian: clip_log of the event average of the per-sample mixture *)
Fixpoint sample_probs (fb isig ibg : R) (se be : list (list R)) : list (list R) :=
  match se, be with
  | s :: se', b :: be' => rzip (cfit_prob fb isig ibg) s b :: sample_probs fb isig ibg se' be'
  | _, _ => []
  end.

Definition cfit_gradval_res (fb : R) (We se be : list (list R)) (V sg bm : list R) : R :=
  - rdot (ev_weights We) (map clip_log (ev_density We (sample_probs fb (rdot V sg) (rdot V bm) se be))).
