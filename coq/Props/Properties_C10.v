(* C10 — statements only. *)
From Coq Require Import Reals List Lra.
From TFV Require Import Base.RBase Kin.Boost Kin.Boost_proofs Samp.PhaseSpace Samp.PhaseSpace_proofs.
Import ListNotations.
Open Scope R_scope.

Theorem C10_generate_count : forall (A : Type) (N : nat) (batches : list (list A)),
  (N <= length (concat batches))%nat -> length (generate_out N batches) = N.
Proof. exact @generate_count. Qed.
Print Assumptions C10_generate_count.
