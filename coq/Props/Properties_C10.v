(* C10 — phase-space events are physical, exactly counted and LIPS-flat.  Statements only.
   Model: Samp/PhaseSpace.v.  Masses in "a-order": a0 = m_mass[-1], tl = [a1;..;a_{n-1}] (a_i = m_mass[-i-1]),
   sampled ladder Ms = [M_1;..;M_{n-2}], full ladder Ms ++ [m0]; step i is M_{i+1} -> M_i + a_{i+1}.
   The uniform random numbers (ladder positions, cos theta, phi, accept/reject) are inputs: the RNG is an oracle. *)
From Coq Require Import Reals List Lra Permutation.
From Interval Require Import Tactic.
From TFV Require Import Base.RBase Kin.Boost Kin.Boost_proofs Samp.PhaseSpace Samp.PhaseSpace_proofs.
Import ListNotations.
Open Scope R_scope.

(* ---- exact count (generate, force=True): accepted batches concatenated, cut to N *)
Theorem C10_generate_count : forall (A : Type) (N : nat) (batches : list (list A)),
  (N <= length (concat batches))%nat -> length (generate_out N batches) = N.
Proof. exact @generate_count. Qed.
Print Assumptions C10_generate_count.

(* ---- one two-body step M -> m1 + m2, any direction *)
Theorem C10_two_body_on_shell : forall M m1 m2 ct phi, -1 <= ct <= 1 ->
  mass2 (two_body_p M m1 m2 ct phi) = m2 * m2 /\ mass2 (neg4 (two_body_recoil M m1 m2 ct phi)) = m1 * m1.
Proof. exact two_body_on_shell. Qed.
Print Assumptions C10_two_body_on_shell.

Theorem C10_two_body_sum_at_rest : forall M m1 m2 ct phi, 0 <= m1 -> 0 <= m2 -> m1 + m2 <= M -> 0 < M ->
  add4 (two_body_p M m1 m2 ct phi) (neg4 (two_body_recoil M m1 m2 ct phi)) = V4 M 0 0 0.
Proof. exact two_body_sum_at_rest. Qed.
Print Assumptions C10_two_body_sum_at_rest.

(* ---- every event, any n >= 2 (induction over the ladder, through C11's mink_boost / boost linearity):
   all particles on shell (listed in the code's output order m_mass[0..n-1] = rev (a0 :: a1 :: tl)) and the
   momenta add up to the parent at rest.  [boosts_ok]: the parent of every later step has positive mass and its
   recoil velocity is outside the gamma2 guard of LorentzVector.boost (beta^2 > 1e-14). *)
Theorem C10_event_physical : forall m0 a0 a1 tl Ms angles,
  0 <= a0 -> ladder_valid a0 (Ms ++ [m0]) (a1 :: tl) ->
  match Ms ++ [m0] with M1 :: ladder' => 0 < M1 /\ boosts_ok M1 ladder' tl | [] => True end ->
  length angles = S (length tl) -> (forall ct phi, In (ct, phi) angles -> -1 <= ct <= 1) ->
  map mass2 (event m0 a0 (a1 :: tl) Ms angles) = map sq (rev (a0 :: a1 :: tl)) /\
  sum4 (event m0 a0 (a1 :: tl) Ms angles) = V4 m0 0 0 0.
Proof. exact event_physical. Qed.
Print Assumptions C10_event_physical.

(* ---- nested chains (ChainGenerator._restruct_pi / tree_boost): a sub-decay generated in the rest frame of an
   intermediate particle of fixed mass m and re-boosted with rest_vector(neg(p0)) stays on shell and adds up to p0 *)
Theorem C10_nested_reboost : forall m p3 l, 0 < m ->
  let p0 := mk4 (sqrt (m * m + norm2_3 p3)) p3 in
  vel_ok (boost_vector p0) -> sum4 l = V4 m 0 0 0 ->
  sum4 (map (rest_vector (neg4 p0)) l) = p0 /\ map mass2 (map (rest_vector (neg4 p0)) l) = map mass2 l.
Proof. exact nested_reboost. Qed.
Print Assumptions C10_nested_reboost.

(* ---- the acceptance weight is in [0,1] for every ladder the generator can produce *)
Theorem C10_get_p_mono : forall M1 M2 a a' b, 0 <= a -> a <= a' -> 0 <= b -> a' + b <= M1 -> M1 <= M2 -> 0 < M1 ->
  get_p M1 a' b <= get_p M2 a b.
Proof. exact get_p_le. Qed.
Print Assumptions C10_get_p_mono.

Theorem C10_prod_q_le_wtmax : forall m0 a0 tl Ms, 0 <= a0 -> ladder_valid a0 (Ms ++ [m0]) tl ->
  Forall (fun M => 0 < M) (Ms ++ [m0]) -> 0 <= rprod (q_list a0 (Ms ++ [m0]) tl) <= wt_max m0 a0 tl.
Proof. exact prod_q_le_wtmax. Qed.
Print Assumptions C10_prod_q_le_wtmax.

Theorem C10_weight_le_one : forall m0 a0 tl Ms, 0 <= a0 -> ladder_valid a0 (Ms ++ [m0]) tl ->
  Forall (fun M => 0 < M) (Ms ++ [m0]) -> ranges_respected m0 a0 a0 (sm0 tl) tl Ms -> 0 < wt_max m0 a0 tl ->
  0 <= weight m0 a0 tl Ms <= 1.
Proof. exact weight_le_one. Qed.
Print Assumptions C10_weight_le_one.

(* ---- flatness in Lorentz-invariant phase space: (density with which generate_mass proposes the ladder)
   x (acceptance weight) = C x prod q_i, with C = lips_const depending on the mass set only.  Together with the
   isotropic angles (uniform cos theta, phi: oracle) accepted events have the LIPS density. *)
Theorem C10_lips_flat : forall m0 a0 tl Ms, length Ms = length (mass_ranges m0 a0 tl) ->
  ladder_inside m0 a0 (sm0 tl) tl Ms ->
  proposal_density m0 a0 tl Ms * weight m0 a0 tl Ms = lips_const m0 a0 tl * rprod (q_list a0 (Ms ++ [m0]) tl).
Proof. exact lips_flat. Qed.
Print Assumptions C10_lips_flat.

(* ---- cal_max_weight (the stored bound replaced by a numerical maximum; scipy's optimiser is an ORACLE returning
   r = w(x_opt)/w0).  Model of the code after the repair (hunt round): ws = relative weights (under the analytic bound
   wt0) of the scanned proposals, new bound = wt0 * max(1,r) * max ws * 1.001.  Every ladder whose relative weight does not
   exceed max(1,r) * max ws - every scanned ladder and the optimiser's own result in particular - keeps an acceptance
   weight <= 1/1.001; the new bound is positive and at most 1.001 x the analytic one. *)
Theorem C10_cal_max_bound : forall wt0 ws r w, 0 < wt0 -> 0 < rmaxl ws -> w <= rmax 1 r * rmaxl ws ->
  reweight wt0 (cal_max_new wt0 ws r) w <= 1000 / 1001.
Proof. exact cal_max_new_bound. Qed.
Print Assumptions C10_cal_max_bound.

Theorem C10_cal_max_scanned : forall wt0 ws r w, 0 < wt0 -> 0 < rmaxl ws -> In w ws ->
  reweight wt0 (cal_max_new wt0 ws r) w <= 1000 / 1001.
Proof. exact cal_max_new_scanned. Qed.
Print Assumptions C10_cal_max_scanned.

Theorem C10_cal_max_optimum : forall wt0 ws r, 0 < wt0 -> 0 < rmaxl ws ->
  reweight wt0 (cal_max_new wt0 ws r) (r * rmaxl ws) <= 1000 / 1001.
Proof. exact cal_max_new_optimum. Qed.
Print Assumptions C10_cal_max_optimum.

Theorem C10_cal_max_range : forall wt0 ws r, 0 < wt0 -> 0 < rmaxl ws -> Forall (fun w => w <= 1) ws -> r * rmaxl ws <= 1 ->
  0 < cal_max_new wt0 ws r <= wt0 * (1001 / 1000).
Proof. exact cal_max_new_range. Qed.
Print Assumptions C10_cal_max_range.

(* the full statement "after cal_max_weight no ladder has a weight above one" needs the optimiser to find the global
   maximum (oracle); kept visible: *)
Definition C10_cal_max_global_statement : Prop := forall wt0 ws r (all_weights : R -> Prop),
  0 < wt0 -> 0 < rmaxl ws -> (forall w, all_weights w -> w <= rmax 1 r * rmaxl ws) ->
  forall w, all_weights w -> reweight wt0 (cal_max_new wt0 ws r) w <= 1.
Theorem C10_cal_max_global_given_oracle : C10_cal_max_global_statement.
Proof. intros wt0 ws r P H0 Hw HP w Hin. pose proof (cal_max_new_bound wt0 ws r w H0 Hw (HP w Hin)). lra. Qed.
Print Assumptions C10_cal_max_global_given_oracle.

(* the code before the repair (one optimiser run from one random proposal): an optimiser that stops at its start
   point leaves ladders with a weight above one *)
Theorem C10_cal_max_old_refuted : exists wt0 r w, 0 < wt0 /\ 0 < r <= 1 /\ 0 <= w <= 1 /\ 1 < reweight wt0 (cal_max_old wt0 r) w.
Proof. exact cal_max_old_refuted. Qed.
Print Assumptions C10_cal_max_old_refuted.

(* ---- set_decay on an existing generator gives the state of a fresh generator (after the repair); before, the masses
   were appended and sum_mass kept *)
Theorem C10_set_decay_fresh : forall st m0 mass, set_decay_new st m0 mass = init_state m0 mass.
Proof. exact set_decay_new_fresh. Qed.
Print Assumptions C10_set_decay_fresh.

Theorem C10_set_decay_old_refuted : exists st m0 mass, set_decay_old st m0 mass <> init_state m0 mass.
Proof. exact set_decay_old_refuted. Qed.
Print Assumptions C10_set_decay_old_refuted.

(* ---- ConfigLoader.generate_phsp_p / build_phsp_chain: a common inner node is generated at a fixed mass iff EVERY
   decay chain has a constant ("one") particle of one and the same mass there; independent of the order of the chains.
   Before the repair the first chain decided. *)
Theorem C10_nest_node_spec : forall parts m,
  nest_node parts = Some m <-> parts <> [] /\ Forall (fun p => p = (true, m)) parts.
Proof. exact nest_node_spec. Qed.
Print Assumptions C10_nest_node_spec.

Theorem C10_nest_node_perm : forall parts parts', Permutation.Permutation parts parts' -> nest_node parts = nest_node parts'.
Proof. exact nest_node_perm. Qed.
Print Assumptions C10_nest_node_perm.

Theorem C10_nest_node_old_refuted : exists parts parts', Permutation.Permutation parts parts' /\ nest_node_old parts <> nest_node_old parts'.
Proof. exact nest_node_old_refuted. Qed.
Print Assumptions C10_nest_node_old_refuted.

(* ---- non-vacuity *)
Example C10_example_two_body : add4 (two_body_p 1 (3/10) (2/10) (1/2) 1) (neg4 (two_body_recoil 1 (3/10) (2/10) (1/2) 1)) = V4 1 0 0 0.
Proof. apply two_body_sum_at_rest; lra. Qed.
(* 3 bodies m0 = 1 -> masses 0.1, 0.2, 0.3 (a0 = 0.3), ladder M_1 = 0.7: weight in [0,1] *)
Example C10_example_weight : 0 <= weight 1 (3/10) [2/10; 1/10] [7/10] <= 1.
Proof.
  apply weight_le_one; try lra.
  - cbn. repeat split; lra.
  - repeat constructor; lra.
  - cbn. repeat split; lra.
  - unfold wt_max. cbn [wtmax_list rsum rprod]. unfold get_p, rmax. interval.
Qed.
(* cal_max_weight: scan weights 0.2, 0.5, optimiser reaches 1.2 x the best scanned: the ladder of relative weight 0.6 *)
Example C10_example_cal_max : reweight 2 (cal_max_new 2 [2/10; 5/10] (12/10)) (12/10 * rmaxl [2/10; 5/10]) <= 1000 / 1001.
Proof. apply cal_max_new_optimum; [lra | unfold rmaxl, rmax; interval]. Qed.
Example C10_example_nest_node : nest_node [(true, 3); (false, 2)] = None /\ nest_node [(true, 3); (true, 3)] = Some 3.
Proof.
  split.
  - reflexivity.
  - apply nest_node_spec. split; [discriminate | repeat constructor].
Qed.
