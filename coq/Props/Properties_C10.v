(* C10 — phase-space events are physical, exactly counted and LIPS-flat.  Statements only.
   Model: Samp/PhaseSpace.v.  Masses in "a-order": a0 = m_mass[-1], tl = [a1;..;a_{n-1}] (a_i = m_mass[-i-1]),
   sampled ladder Ms = [M_1;..;M_{n-2}], full ladder Ms ++ [m0]; step i is M_{i+1} -> M_i + a_{i+1}.
   The uniform random numbers (ladder positions, cos theta, phi, accept/reject) are inputs: the RNG is an oracle. *)
From Coq Require Import Reals List Lra.
From Interval Require Import Tactic.
From TFV Require Import Base.RBase Kin.Boost Kin.Boost_proofs Samp.PhaseSpace Samp.PhaseSpace_proofs.
Import ListNotations.
Open Scope R_scope.

(* ---- exact count (generate, force=True): accepted batches concatenated, cut to N *)
Theorem C10_generate_count : forall (A : Type) (N : nat) (batches : list (list A)),
  (N <= length (concat batches))%nat -> length (generate_out N batches) = N.
Proof. exact @generate_count. Qed.
Print Assumptions C10_generate_count.

(* ---- one two-body step M -> m1 + m2, any direction *)
Theorem C10_two_body_on_shell : forall M m1 m2 ct phi, -1 <= ct <= 1 ->
  mass2 (two_body_p M m1 m2 ct phi) = m2 * m2 /\ mass2 (neg4 (two_body_recoil M m1 m2 ct phi)) = m1 * m1.
Proof. exact two_body_on_shell. Qed.
Print Assumptions C10_two_body_on_shell.

Theorem C10_two_body_sum_at_rest : forall M m1 m2 ct phi, 0 <= m1 -> 0 <= m2 -> m1 + m2 <= M -> 0 < M ->
  add4 (two_body_p M m1 m2 ct phi) (neg4 (two_body_recoil M m1 m2 ct phi)) = V4 M 0 0 0.
Proof. exact two_body_sum_at_rest. Qed.
Print Assumptions C10_two_body_sum_at_rest.

(* ---- every event, any n >= 2 (induction over the ladder, through C11's mink_boost / boost linearity):
   all particles on shell (listed in the code's output order m_mass[0..n-1] = rev (a0 :: a1 :: tl)) and the
   momenta add up to the parent at rest.  [boosts_ok]: the parent of every later step has positive mass and its
   recoil velocity is outside the gamma2 guard of LorentzVector.boost (beta^2 > 1e-14). *)
Theorem C10_event_physical : forall m0 a0 a1 tl Ms angles,
  0 <= a0 -> ladder_valid a0 (Ms ++ [m0]) (a1 :: tl) ->
  match Ms ++ [m0] with M1 :: ladder' => 0 < M1 /\ boosts_ok M1 ladder' tl | [] => True end ->
  length angles = S (length tl) -> (forall ct phi, In (ct, phi) angles -> -1 <= ct <= 1) ->
  map mass2 (event m0 a0 (a1 :: tl) Ms angles) = map sq (rev (a0 :: a1 :: tl)) /\
  sum4 (event m0 a0 (a1 :: tl) Ms angles) = V4 m0 0 0 0.
Proof. exact event_physical. Qed.
Print Assumptions C10_event_physical.

(* ---- nested chains (ChainGenerator._restruct_pi / tree_boost): a sub-decay generated in the rest frame of an
   intermediate particle of fixed mass m and re-boosted with rest_vector(neg(p0)) stays on shell and adds up to p0 *)
Theorem C10_nested_reboost : forall m p3 l, 0 < m ->
  let p0 := mk4 (sqrt (m * m + norm2_3 p3)) p3 in
  vel_ok (boost_vector p0) -> sum4 l = V4 m 0 0 0 ->
  sum4 (map (rest_vector (neg4 p0)) l) = p0 /\ map mass2 (map (rest_vector (neg4 p0)) l) = map mass2 l.
Proof. exact nested_reboost. Qed.
Print Assumptions C10_nested_reboost.

(* ---- the acceptance weight is in [0,1] for every ladder the generator can produce *)
Theorem C10_get_p_mono : forall M1 M2 a a' b, 0 <= a -> a <= a' -> 0 <= b -> a' + b <= M1 -> M1 <= M2 -> 0 < M1 ->
  get_p M1 a' b <= get_p M2 a b.
Proof. exact get_p_le. Qed.
Print Assumptions C10_get_p_mono.

Theorem C10_prod_q_le_wtmax : forall m0 a0 tl Ms, 0 <= a0 -> ladder_valid a0 (Ms ++ [m0]) tl ->
  Forall (fun M => 0 < M) (Ms ++ [m0]) -> 0 <= rprod (q_list a0 (Ms ++ [m0]) tl) <= wt_max m0 a0 tl.
Proof. exact prod_q_le_wtmax. Qed.
Print Assumptions C10_prod_q_le_wtmax.

Theorem C10_weight_le_one : forall m0 a0 tl Ms, 0 <= a0 -> ladder_valid a0 (Ms ++ [m0]) tl ->
  Forall (fun M => 0 < M) (Ms ++ [m0]) -> ranges_respected m0 a0 a0 (sm0 tl) tl Ms -> 0 < wt_max m0 a0 tl ->
  0 <= weight m0 a0 tl Ms <= 1.
Proof. exact weight_le_one. Qed.
Print Assumptions C10_weight_le_one.

(* ---- flatness in Lorentz-invariant phase space: (density with which generate_mass proposes the ladder)
   x (acceptance weight) = C x prod q_i, with C = lips_const depending on the mass set only.  Together with the
   isotropic angles (uniform cos theta, phi: oracle) accepted events have the LIPS density. *)
Theorem C10_lips_flat : forall m0 a0 tl Ms, length Ms = length (mass_ranges m0 a0 tl) ->
  ladder_inside m0 a0 (sm0 tl) tl Ms ->
  proposal_density m0 a0 tl Ms * weight m0 a0 tl Ms = lips_const m0 a0 tl * rprod (q_list a0 (Ms ++ [m0]) tl).
Proof. exact lips_flat. Qed.
Print Assumptions C10_lips_flat.

(* ---- non-vacuity *)
Example C10_example_two_body : add4 (two_body_p 1 (3/10) (2/10) (1/2) 1) (neg4 (two_body_recoil 1 (3/10) (2/10) (1/2) 1)) = V4 1 0 0 0.
Proof. apply two_body_sum_at_rest; lra. Qed.
(* 3 bodies m0 = 1 -> masses 0.1, 0.2, 0.3 (a0 = 0.3), ladder M_1 = 0.7: weight in [0,1] *)
Example C10_example_weight : 0 <= weight 1 (3/10) [2/10; 1/10] [7/10] <= 1.
Proof.
  apply weight_le_one; try lra.
  - cbn. repeat split; lra.
  - repeat constructor; lra.
  - cbn. repeat split; lra.
  - unfold wt_max. cbn [wtmax_list rsum rprod]. unfold get_p, rmax. interval.
Qed.
