(* C12 — statements only.  Finite bound 2j <= 8 is the property's own quantifier. *)
From Coq Require Import Reals List ZArith QArith Bool.
From Coquelicot Require Import Complex.
From TFV Require Import Base.RBase Rot.Wigner Rot.Wigner_unit Rot.Wigner_proofs Rot.DHom_ids Rot.DHom Rot.DHom_apps Rot.CG Rot.CG_proofs.
Import ListNotations.
Open Scope R_scope.

(* d^j(beta) d^j(beta)^T = 1 : rows orthonormal, all 2j <= 8, ALL angles (incl. beta = 0, pi);
   stated on (c,s) = (cos beta/2, sin beta/2) with c^2+s^2 = 1 *)
Theorem C12_d_rows_orthonormal : forall j2 m2 k2 c s,
  (0 <= j2 <= 8)%Z -> In m2 (m_range j2) -> In k2 (m_range j2) -> c * c + s * s = 1 ->
  dd_row j2 m2 k2 c s = delta m2 k2.
Proof. exact d_rows_orthonormal. Qed.
Print Assumptions C12_d_rows_orthonormal.

Theorem C12_d_cols_orthonormal : forall j2 m2 k2 c s,
  (0 <= j2 <= 8)%Z -> In m2 (m_range j2) -> In k2 (m_range j2) -> c * c + s * s = 1 ->
  dd_col j2 m2 k2 c s = delta m2 k2.
Proof. exact d_cols_orthonormal. Qed.
Print Assumptions C12_d_cols_orthonormal.

Theorem C12_d_unitary_angle : forall j2 m2 k2 beta,
  (0 <= j2 <= 8)%Z -> In m2 (m_range j2) -> In k2 (m_range j2) ->
  fold_right (fun n2 acc => dsmall j2 m2 n2 beta * dsmall j2 k2 n2 beta + acc) 0 (m_range j2) = delta m2 k2.
Proof. exact d_rows_orthonormal_angle. Qed.
Print Assumptions C12_d_unitary_angle.

(* ---- group law D(R1) D(R2) = D(R1 R2), every 2j <= 8 ---- *)
(* for ANY complex 2x2 matrices U, V (no unitarity needed): the spin-j matrices multiply like the matrices *)
Theorem C12_D_group_law : forall j2 m2 n2 (U V : M2),
  (0 <= j2 <= 8)%Z -> In m2 (m_range j2) -> In n2 (m_range j2) ->
  DmatM j2 m2 n2 (mmul U V) = csum (fun k2 => (DmatM j2 m2 k2 U * DmatM j2 k2 n2 V)%C) (m_range j2).
Proof. exact D_group_law. Qed.
Print Assumptions C12_D_group_law.

(* the model's conjugated D matrix (= the code's D_matrix_conj) IS that representation at the conjugated
   Euler rotation Rz(alpha) Ry(beta) Rz(gamma) *)
Theorem C12_Dconj_is_representation : forall j2 m2 n2 al be ga,
  (0 <= j2 <= 8)%Z -> In m2 (m_range j2) -> In n2 (m_range j2) ->
  Dconj j2 m2 n2 al be ga = DmatM j2 m2 n2 (mconj (Euler al be ga)).
Proof. exact Dconj_is_Dmat. Qed.
Print Assumptions C12_Dconj_is_representation.

(* hence: whenever the SU(2) product of two Euler rotations is the Euler rotation (a3,b3,g3), the D* matrices multiply *)
Theorem C12_Dconj_group_law : forall j2 m2 n2 a1 b1 g1 a2 b2 g2 a3 b3 g3,
  (0 <= j2 <= 8)%Z -> In m2 (m_range j2) -> In n2 (m_range j2) ->
  mmul (Euler a1 b1 g1) (Euler a2 b2 g2) = Euler a3 b3 g3 ->
  csum (fun k2 => (Dconj j2 m2 k2 a1 b1 g1 * Dconj j2 k2 n2 a2 b2 g2)%C) (m_range j2) = Dconj j2 m2 n2 a3 b3 g3.
Proof. exact Dconj_group_law. Qed.
Print Assumptions C12_Dconj_group_law.

(* addition law of the small-d matrices *)
Theorem C12_dsmall_add : forall j2 m2 n2 b1 b2,
  (0 <= j2 <= 8)%Z -> In m2 (m_range j2) -> In n2 (m_range j2) ->
  fold_right (fun k2 acc => dsmall j2 m2 k2 b1 * dsmall j2 k2 n2 b2 + acc) 0 (m_range j2) = dsmall j2 m2 n2 (b1 + b2).
Proof. exact dsmall_add. Qed.
Print Assumptions C12_dsmall_add.

(* spin 1/2: the representation of a matrix is the matrix itself (Euler angles that reproduce the
   spin-1/2 matrix reproduce the SU(2) element) *)
Theorem C12_spin_half_is_identity_rep : forall a b c d : C,
  DmatM 1 1 1 (a, b, c, d) = a /\ DmatM 1 1 (-1) (a, b, c, d) = b /\
  DmatM 1 (-1) 1 (a, b, c, d) = c /\ DmatM 1 (-1) (-1) (a, b, c, d) = d.
Proof. exact Dmat_half. Qed.
Print Assumptions C12_spin_half_is_identity_rep.

(* Euler angles extracted by SU2M.get_euler_angle reproduce the SU(2) element: under the contract of tf.math.angle
   (apg, amg given by their cosine and sine) and of acos (beta in [0,pi] with the code's cos beta), the spin-1/2
   conjugated D matrix of (alpha, beta, gamma) = (apg+amg, beta, apg-amg) has exactly the entries of x *)
Theorem C12_euler_extract_reproduces : forall (x00 x01 x10 x11 : C) apg amg beta,
  x00 = Cconj x11 -> x01 = Copp (Cconj x10) ->
  Cmod x11 ^ 2 + Cmod x10 ^ 2 = 1 -> x11 <> RtoC 0 -> x10 <> RtoC 0 ->
  cos apg = fst x11 / Cmod x11 -> sin apg = snd x11 / Cmod x11 ->
  cos amg = fst x10 / Cmod x10 -> sin amg = - snd x10 / Cmod x10 ->
  0 <= beta <= PI -> cos beta = fst (x00 * x11 + x01 * x10)%C ->
  Dconj 1 (-1) (-1) (apg + amg) beta (apg - amg) = x00 /\
  Dconj 1 1 (-1) (apg + amg) beta (apg - amg) = x01 /\
  Dconj 1 (-1) 1 (apg + amg) beta (apg - amg) = x10 /\
  Dconj 1 1 1 (apg + amg) beta (apg - amg) = x11.
Proof. exact euler_extract_reproduces. Qed.
Print Assumptions C12_euler_extract_reproduces.

(* the extraction as the code does it since /repo a129335: beta = 2 atan2(|x10|, |x11|), whose contract on SU(2) is
   cos(beta/2) = |x11|, sin(beta/2) = |x10| (well conditioned at beta = 0 and pi, where acos loses half the digits);
   the angles again reproduce every entry of x, with no condition that x10 or x11 be non-zero *)
Theorem C12_euler_extract_reproduces_atan2 : forall (x00 x01 x10 x11 : C) apg amg beta,
  x00 = Cconj x11 -> x01 = Copp (Cconj x10) ->
  cos apg * Cmod x11 = fst x11 -> sin apg * Cmod x11 = snd x11 ->
  cos amg * Cmod x10 = fst x10 -> sin amg * Cmod x10 = - snd x10 ->
  cos (beta / 2) = Cmod x11 -> sin (beta / 2) = Cmod x10 ->
  Dconj 1 (-1) (-1) (apg + amg) beta (apg - amg) = x00 /\
  Dconj 1 1 (-1) (apg + amg) beta (apg - amg) = x01 /\
  Dconj 1 (-1) 1 (apg + amg) beta (apg - amg) = x10 /\
  Dconj 1 1 1 (apg + amg) beta (apg - amg) = x11.
Proof. exact euler_extract_reproduces_atan2. Qed.
Print Assumptions C12_euler_extract_reproduces_atan2.

(* both extractions give the same angle on SU(2): the atan2 contract implies the acos contract *)
Theorem C12_atan2_contract_is_acos_contract : forall (x00 x01 x10 x11 : C) beta,
  x00 = Cconj x11 -> x01 = Copp (Cconj x10) ->
  cos (beta / 2) = Cmod x11 -> sin (beta / 2) = Cmod x10 ->
  cos beta = fst (x00 * x11 + x01 * x10)%C.
Proof. exact atan2_contract_is_acos_contract. Qed.
Print Assumptions C12_atan2_contract_is_acos_contract.

(* Clebsch-Gordan (Racah closed form, exact radicals): normalisation and the two sign symmetries
   used by the table lookup, all j <= 4 *)
Theorem C12_cg_normalised_le8 : forallb (fun j1 => forallb (fun j2 => norm_ok j1 j2) spins8) spins8 = true.
Proof. exact cg_normalised_le8. Qed.
Print Assumptions C12_cg_normalised_le8.
Theorem C12_cg_swap_le8 : forallb (fun j1 => forallb (fun j2 => swap_ok j1 j2) spins8) spins8 = true.
Proof. exact cg_swap_le8. Qed.
Print Assumptions C12_cg_swap_le8.
Theorem C12_cg_flip_le8 : forallb (fun j1 => forallb (fun j2 => flip_ok j1 j2) spins8) spins8 = true.
Proof. exact cg_flip_le8. Qed.
Print Assumptions C12_cg_flip_le8.

(* non-vacuity *)
Example C12_example_in : In 1%Z (m_range 3) /\ (0 <= 3 <= 8)%Z.
Proof. split; [vm_compute; tauto | split; discriminate]. Qed.
