(* C12 — statements only.  Finite bound 2j <= 8 is the property's own quantifier. *)
From Coq Require Import Reals List ZArith QArith Bool.
From TFV Require Import Base.RBase Rot.Wigner Rot.Wigner_unit Rot.Wigner_proofs Rot.CG Rot.CG_proofs.
Import ListNotations.
Open Scope R_scope.

(* d^j(beta) d^j(beta)^T = 1 : rows orthonormal, all 2j <= 8, ALL angles (incl. beta = 0, pi);
   stated on (c,s) = (cos beta/2, sin beta/2) with c^2+s^2 = 1 *)
Theorem C12_d_rows_orthonormal : forall j2 m2 k2 c s,
  (0 <= j2 <= 8)%Z -> In m2 (m_range j2) -> In k2 (m_range j2) -> c * c + s * s = 1 ->
  dd_row j2 m2 k2 c s = delta m2 k2.
Proof. exact d_rows_orthonormal. Qed.
Print Assumptions C12_d_rows_orthonormal.

Theorem C12_d_cols_orthonormal : forall j2 m2 k2 c s,
  (0 <= j2 <= 8)%Z -> In m2 (m_range j2) -> In k2 (m_range j2) -> c * c + s * s = 1 ->
  dd_col j2 m2 k2 c s = delta m2 k2.
Proof. exact d_cols_orthonormal. Qed.
Print Assumptions C12_d_cols_orthonormal.

Theorem C12_d_unitary_angle : forall j2 m2 k2 beta,
  (0 <= j2 <= 8)%Z -> In m2 (m_range j2) -> In k2 (m_range j2) ->
  fold_right (fun n2 acc => dsmall j2 m2 n2 beta * dsmall j2 k2 n2 beta + acc) 0 (m_range j2) = delta m2 k2.
Proof. exact d_rows_orthonormal_angle. Qed.
Print Assumptions C12_d_unitary_angle.

(* Clebsch-Gordan (Racah closed form, exact radicals): normalisation and the two sign symmetries
   used by the table lookup, all j <= 4 *)
Theorem C12_cg_normalised_le8 : forallb (fun j1 => forallb (fun j2 => norm_ok j1 j2) spins8) spins8 = true.
Proof. exact cg_normalised_le8. Qed.
Print Assumptions C12_cg_normalised_le8.
Theorem C12_cg_swap_le8 : forallb (fun j1 => forallb (fun j2 => swap_ok j1 j2) spins8) spins8 = true.
Proof. exact cg_swap_le8. Qed.
Print Assumptions C12_cg_swap_le8.
Theorem C12_cg_flip_le8 : forallb (fun j1 => forallb (fun j2 => flip_ok j1 j2) spins8) spins8 = true.
Proof. exact cg_flip_le8. Qed.
Print Assumptions C12_cg_flip_le8.

(* non-vacuity *)
Example C12_example_in : In 1%Z (m_range 3) /\ (0 <= 3 <= 8)%Z.
Proof. split; [vm_compute; tauto | split; discriminate]. Qed.
