(* C01 — statements only. *)
From Coq Require Import Reals List ZArith.
From TFV Require Import Base.RBase Shape.LineShapes Rot.Wigner Amp.Dalitz3 Amp.Dalitz3_proofs Amp.Unitary Amp.Unitary_proofs
     Kin.Boost Kin.Boost_proofs Amp.Frame_proofs.
Import ListNotations.
Open Scope R_scope.

(* ---- spinless three-body decays: COMPLETE statement of C01 (any number of interfering resonances,
   any spins J of the resonances, masses, widths, couplings, events) ---- *)
Theorem C01_spinless_nonneg : forall M m1 m2 m3 d rs p1 p2 p3, 0 <= density3 M m1 m2 m3 d rs p1 p2 p3.
Proof. exact density3_nonneg. Qed.
Print Assumptions C01_spinless_nonneg.

(* boost by any velocity inside the code's domain eps < |v|^2 < 1 (the boost of Kin/Boost.v, i.e. of LorentzVector.boost) *)
Theorem C01_spinless_boost_invariant : forall v M m1 m2 m3 d rs p1 p2 p3, vel_ok v ->
  density3 M m1 m2 m3 d rs (lift (fun p => boost p v) p1) (lift (fun p => boost p v) p2) (lift (fun p => boost p v) p3)
  = density3 M m1 m2 m3 d rs p1 p2 p3.
Proof. exact density3_boost_invariant. Qed.
Print Assumptions C01_spinless_boost_invariant.

(* any orthogonal 3x3 matrix: rotations AND reflections *)
Theorem C01_spinless_rotation_invariant : forall R_ M m1 m2 m3 d rs p1 p2 p3, orthogonal R_ ->
  density3 M m1 m2 m3 d rs (lift (rot4 R_) p1) (lift (rot4 R_) p2) (lift (rot4 R_) p3)
  = density3 M m1 m2 m3 d rs p1 p2 p3.
Proof. exact density3_rotation_invariant. Qed.
Print Assumptions C01_spinless_rotation_invariant.

Theorem C01_spinless_parity_invariant : forall M m1 m2 m3 d rs p1 p2 p3,
  density3 M m1 m2 m3 d rs (parity4 p1) (parity4 p2) (parity4 p3) = density3 M m1 m2 m3 d rs p1 p2 p3.
Proof. exact density3_parity_invariant. Qed.
Print Assumptions C01_spinless_parity_invariant.

(* ---- arbitrary spins: the mechanism named in the property ---- *)
(* invariant masses (hence break-up momenta, barrier factors, line shapes) do not see the frame *)
Theorem C01_mink_boost : forall p q v, vel_ok v -> mink (boost p v) (boost q v) = mink p q.
Proof. exact mink_boost. Qed.
Print Assumptions C01_mink_boost.
Theorem C01_mink_rot : forall R_ p q, orthogonal R_ -> mink (rot4 R_ p) (rot4 R_ q) = mink p q.
Proof. exact mink_rot. Qed.
Print Assumptions C01_mink_rot.

(* summing |.|^2 over the parent helicity removes a conjugated Wigner D matrix applied to the
   parent index, for every spin 2j<=8 and ALL Euler angles: the observer's rotation drops out *)
Theorem C01_D_removes_rotation : forall j2 alpha beta gamma (X : Z -> C), (0 <= j2 <= 8)%Z ->
  zsum (m_range j2) (fun lam => Cnorm2 (D_apply j2 alpha beta gamma X lam)) = hel_norm2 j2 X.
Proof. exact D_removes_rotation. Qed.
Print Assumptions C01_D_removes_rotation.

(* identical particles: the symmetrised amplitude F(p) = A(p) + eps T A(sigma p) has the same
   helicity-summed modulus at p and at sigma p (T: helicity-axis transposition, an involution) *)
Theorem C01_id_swap_invariant :
  forall (T : list C -> list C) (vadd : list C -> list C -> list C) (vscal : R -> list C -> list C) (norm2 : list C -> R),
    (forall a, T (T a) = a) -> (forall a b, T (vadd a b) = vadd (T a) (T b)) ->
    (forall e a, T (vscal e a) = vscal e (T a)) -> (forall a, norm2 (T a) = norm2 a) ->
    (forall e a, vscal e (vscal e a) = vscal (e * e) a) -> (forall a, vscal 1 a = a) ->
    (forall e a b, vscal e (vadd a b) = vadd (vscal e a) (vscal e b)) -> (forall a b, vadd a b = vadd b a) ->
    (forall e a, e * e = 1 -> norm2 (vscal e a) = norm2 a) ->
    forall eps A A', eps * eps = 1 ->
      norm2 (vadd A' (vscal eps (T A))) = norm2 (vadd A (vscal eps (T A'))).
Proof. exact id_swap_invariant. Qed.
Print Assumptions C01_id_swap_invariant.

(* FULL statement for cascades with spin (NOT proved; kept visible).  Missing: the transformation
   law of the helicity angles under a common rotation (azimuth shift at the lower vertices), the
   group law D(R1 R2) = D(R1) D(R2), and invariance of the alignment rotations.  These layers are
   tied to the code and the implementation is compared with itself at p and Lambda p. *)
Definition C01_cascade_frame_invariant_statement : Prop :=
  forall j2 alpha beta gamma (X : Z -> C), (0 <= j2 <= 8)%Z ->
    zsum (m_range j2) (fun lam => Cnorm2 (D_apply j2 alpha beta gamma X lam)) = hel_norm2 j2 X.
