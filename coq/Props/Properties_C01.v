(* C01 — statements only. *)
From Coq Require Import Reals List ZArith.
From TFV Require Import Base.RBase Shape.LineShapes Rot.Wigner Amp.Dalitz3 Amp.Dalitz3_proofs Amp.Unitary Amp.Unitary_proofs
     Kin.Boost Kin.Boost_proofs Amp.Frame_proofs Amp.Cascade.
From TFV Require Rot.DHom Amp.Cascade_proofs.
From TFV Require Import Amp.SwapSign.
From TFV Require Amp.SwapSign_proofs.
Import ListNotations.
Import TFV.Rot.DHom.
Open Scope R_scope.

(* ---- spinless three-body decays: COMPLETE statement of C01 (any number of interfering resonances,
   any spins J of the resonances, masses, widths, couplings, events) ---- *)
Theorem C01_spinless_nonneg : forall M m1 m2 m3 d rs p1 p2 p3, 0 <= density3 M m1 m2 m3 d rs p1 p2 p3.
Proof. exact density3_nonneg. Qed.
Print Assumptions C01_spinless_nonneg.

(* boost by any velocity inside the code's domain eps < |v|^2 < 1 (the boost of Kin/Boost.v, i.e. of LorentzVector.boost) *)
Theorem C01_spinless_boost_invariant : forall v M m1 m2 m3 d rs p1 p2 p3, vel_ok v ->
  density3 M m1 m2 m3 d rs (lift (fun p => boost p v) p1) (lift (fun p => boost p v) p2) (lift (fun p => boost p v) p3)
  = density3 M m1 m2 m3 d rs p1 p2 p3.
Proof. exact density3_boost_invariant. Qed.
Print Assumptions C01_spinless_boost_invariant.

(* any orthogonal 3x3 matrix: rotations AND reflections *)
Theorem C01_spinless_rotation_invariant : forall R_ M m1 m2 m3 d rs p1 p2 p3, orthogonal R_ ->
  density3 M m1 m2 m3 d rs (lift (rot4 R_) p1) (lift (rot4 R_) p2) (lift (rot4 R_) p3)
  = density3 M m1 m2 m3 d rs p1 p2 p3.
Proof. exact density3_rotation_invariant. Qed.
Print Assumptions C01_spinless_rotation_invariant.

Theorem C01_spinless_parity_invariant : forall M m1 m2 m3 d rs p1 p2 p3,
  density3 M m1 m2 m3 d rs (parity4 p1) (parity4 p2) (parity4 p3) = density3 M m1 m2 m3 d rs p1 p2 p3.
Proof. exact density3_parity_invariant. Qed.
Print Assumptions C01_spinless_parity_invariant.

(* ---- arbitrary spins: the mechanism named in the property ---- *)
(* invariant masses (hence break-up momenta, barrier factors, line shapes) do not see the frame *)
Theorem C01_mink_boost : forall p q v, vel_ok v -> mink (boost p v) (boost q v) = mink p q.
Proof. exact mink_boost. Qed.
Print Assumptions C01_mink_boost.
Theorem C01_mink_rot : forall R_ p q, orthogonal R_ -> mink (rot4 R_ p) (rot4 R_ q) = mink p q.
Proof. exact mink_rot. Qed.
Print Assumptions C01_mink_rot.

(* summing |.|^2 over the parent helicity removes a conjugated Wigner D matrix applied to the
   parent index, for every spin 2j<=8 and ALL Euler angles: the observer's rotation drops out *)
Theorem C01_D_removes_rotation : forall j2 alpha beta gamma (X : Z -> C), (0 <= j2 <= 8)%Z ->
  zsum (m_range j2) (fun lam => Cnorm2 (D_apply j2 alpha beta gamma X lam)) = hel_norm2 j2 X.
Proof. exact D_removes_rotation. Qed.
Print Assumptions C01_D_removes_rotation.

(* identical particles: the symmetrised amplitude F(p) = A(p) + eps T A(sigma p) has the same
   helicity-summed modulus at p and at sigma p (T: helicity-axis transposition, an involution) *)
Theorem C01_id_swap_invariant :
  forall (T : list C -> list C) (vadd : list C -> list C -> list C) (vscal : R -> list C -> list C) (norm2 : list C -> R),
    (forall a, T (T a) = a) -> (forall a b, T (vadd a b) = vadd (T a) (T b)) ->
    (forall e a, T (vscal e a) = vscal e (T a)) -> (forall a, norm2 (T a) = norm2 a) ->
    (forall e a, vscal e (vscal e a) = vscal (e * e) a) -> (forall a, vscal 1 a = a) ->
    (forall e a b, vscal e (vadd a b) = vadd (vscal e a) (vscal e b)) -> (forall a b, vadd a b = vadd b a) ->
    (forall e a, e * e = 1 -> norm2 (vscal e a) = norm2 a) ->
    forall eps A A', eps * eps = 1 ->
      norm2 (vadd A' (vscal eps (T A))) = norm2 (vadd A (vscal eps (T A'))).
Proof. exact id_swap_invariant. Qed.
Print Assumptions C01_id_swap_invariant.

(* Cascades WITH spin, one topology (A -> R c, R -> ... for any number of interfering resonances R of any
   spin, any subtree amplitude below R): if the common rotation G = Euler a b g relates the helicity
   rotations of the first vertex before and after by  G * R(phi1,theta1,0) = R(phi1',theta1',0) * Rz(psi)
   (an identity of SU(2) matrices), and the azimuth of R's own decay is shifted by that residual psi
   (all other angles of the subtree are defined relative to R's helicity frame and do not change), the
   density summed over the parent helicity is unchanged - for every spectator helicity lc and every
   fixed helicities of the subtree.  The geometric hypothesis is tied to the angles the code computes at
   p and at G p (harness layer "geometry"). *)
Theorem C01_cascade_rotation_invariant :
  forall J2 lc a b g phi1 th1 phi1' th1' psi phi2 (rs : list res),
  (0 <= J2 <= 8)%Z ->
  Forall (fun r => parity_ok J2 lc r /\ covariant (r_B r)) rs ->
  mmul (Euler a b g) (Euler phi1 th1 0) = Euler phi1' th1' psi ->
  hel_norm2 J2 (topo_amp J2 lc phi1' th1' (phi2 + psi) rs) = hel_norm2 J2 (topo_amp J2 lc phi1 th1 phi2 rs).
Proof. exact Cascade_proofs.cascade_rotation_invariant. Qed.
Print Assumptions C01_cascade_rotation_invariant.

(* the subtree of a two-step cascade, h2 * D^{jR*}_{lR, la-lb}(phi2, theta2, 0) * (anything independent of phi2),
   has the required covariance - for every spin jR, no bound *)
Theorem C01_vertex_subtree_covariant : forall jR2 nu2 th2 rest, covariant (vertex_B jR2 nu2 th2 rest).
Proof. exact Cascade_proofs.vertex_B_covariant. Qed.
Print Assumptions C01_vertex_subtree_covariant.

(* several interfering topologies with spin-0 final particles (e.g. a vector parent into three pseudoscalars through
   resonances in all three pairings): no spectator phase, no alignment - the FULL density is rotation invariant, for any
   parent spin 2J <= 8, any number of topologies and resonances of any spin, given the geometric relation per topology *)
Theorem C01_multi_topology_rotation_invariant :
  forall J2 a b g (ts : list topo),
  (0 <= J2 <= 8)%Z -> Forall (Cascade_proofs.topo_ok J2 a b g) ts ->
  hel_norm2 J2 (total_amp_after J2 ts) = hel_norm2 J2 (total_amp_before J2 ts).
Proof. exact Cascade_proofs.multi_topology_rotation_invariant. Qed.
Print Assumptions C01_multi_topology_rotation_invariant.

Example C01_cascade_hypotheses_satisfiable :
  (0 <= 2 <= 8)%Z /\
  Forall (fun r => parity_ok 2 0 r /\ covariant (r_B r))
         [mkRes 2 (fun l => (IZR l, 1)) (vertex_B 2 0 (1/2) (fun _ => (1, 0)));
          mkRes 4 (fun l => (1, IZR l)) (vertex_B 4 2 (1/2) (fun l => (IZR l, 0)))] /\
  mmul (Euler 1 2 3) (Euler 0 0 0) = Euler 1 2 3.
Proof. exact Cascade_proofs.cascade_hypotheses_satisfiable. Qed.

(* ---- n identical fermions: the sign the code gives to the amplitude evaluated at permuted momenta (DecayGroup.get_swap_factor,
   model Amp/SwapSign.v, tied to the code for every permutation of groups of 2, 3 and 4 names: harness layer swap_sign).
   After the repair (patch_4: (-1)^inversions) the sign is a homomorphism of the permutation group, which is what makes the
   symmetrised amplitude covariant under every permutation of the momenta, 3-cycles included ---- *)
Theorem C01_swap_factor_hom : forall n s t, (n <= 5)%nat -> In s (perms n) -> In t (perms n) ->
  swap_factor true (compose s t) = (swap_factor true s * swap_factor true t)%Z.
Proof. exact SwapSign_proofs.swap_factor_hom. Qed.
Print Assumptions C01_swap_factor_hom.

(* three identical fermions, ANY unsymmetrised amplitude a (one real component): F(tau) = sum_sigma eps(sigma) a(sigma o tau)
   satisfies F(tau) = eps(tau) F(id), hence the same square at the permuted event *)
Theorem C01_sym3_covariant : forall (a : list nat -> R) tau, In tau (perms 3) ->
  sym_amp (swap_factor true) 3 a tau = IZR (swap_factor true tau) * sym_amp (swap_factor true) 3 a [0; 1; 2]%nat.
Proof. exact SwapSign_proofs.sym3_covariant. Qed.
Print Assumptions C01_sym3_covariant.
Theorem C01_sym3_density_invariant : forall (a : list nat -> R) tau, In tau (perms 3) ->
  (sym_amp (swap_factor true) 3 a tau) ^ 2 = (sym_amp (swap_factor true) 3 a [0; 1; 2]%nat) ^ 2.
Proof. exact SwapSign_proofs.sym3_density_invariant. Qed.
Print Assumptions C01_sym3_density_invariant.

(* the code BEFORE the repair (-1 for every non-identity permutation, the even 3-cycles included): agrees with the signature for
   two identical particles, is not a homomorphism for three, and the symmetrised density then changes under a permutation *)
Theorem C01_swap_factor_old_agrees_n2 : forall s, In s (perms 2) -> swap_factor_old true s = swap_factor true s.
Proof. exact SwapSign_proofs.swap_factor_old_agrees_n2. Qed.
Print Assumptions C01_swap_factor_old_agrees_n2.
Theorem C01_swap_factor_old_not_hom_refuted : exists s t, In s (perms 3) /\ In t (perms 3) /\
  swap_factor_old true (compose s t) <> (swap_factor_old true s * swap_factor_old true t)%Z.
Proof. exact SwapSign_proofs.swap_factor_old_not_hom_refuted. Qed.
Print Assumptions C01_swap_factor_old_not_hom_refuted.
Theorem C01_sym3_old_density_refuted : exists (a : list nat -> R) tau, In tau (perms 3) /\
  (sym_amp (swap_factor_old true) 3 a tau) ^ 2 <> (sym_amp (swap_factor_old true) 3 a [0; 1; 2]%nat) ^ 2.
Proof. exact SwapSign_proofs.sym3_old_density_refuted. Qed.
Print Assumptions C01_sym3_old_density_refuted.

(* NOT proved (kept visible): (i) the geometric hypothesis itself from the kinematic model (that the polar angles
   of G n and of n are related by such a psi: a statement about the covering SU(2) -> SO(3)); (ii) several
   topologies interfering WITH a spinning spectator, where the spectator-dependent phase e^{i lc psi} is compensated by the alignment
   rotations (C02 treats a common change of the alignment element abstractly); (iii) boosts (the Wigner rotation of
   the final-state helicities).  Those are decided by the certified comparison of the code with itself at p and Lambda p. *)
