(* C04 — statements only. *)
From Coq Require Import Reals List ZArith QArith Bool.
From TFV Require Import Base.RBase Shape.LineShapes Rot.Wigner Amp.Dalitz3 Amp.Dalitz3_proofs Amp.Coupling Amp.Coupling_proofs.
Import ListNotations.
Open Scope R_scope.

(* angular function: D^{J*}_{00}(phi,theta,0) = d^J_00(theta) = P_J(cos theta), J = 0..4 *)
Theorem C04_d_J_00_is_legendre : forall J beta, (J <= 4)%nat ->
  dsmall (2 * Z.of_nat J) 0 0 beta = legendre J (cos beta).
Proof. exact d_J_00_is_legendre. Qed.
Print Assumptions C04_d_J_00_is_legendre.

(* the explicit polynomials used in the closed form are the Legendre polynomials (Bonnet) *)
Theorem C04_legendre_is_bonnet_le4 : forall x,
  fst (legendre_rec 0 x) = legendre 0 x /\ fst (legendre_rec 1 x) = legendre 1 x /\
  fst (legendre_rec 2 x) = legendre 2 x /\ fst (legendre_rec 3 x) = legendre 3 x /\
  fst (legendre_rec 4 x) = legendre 4 x.
Proof. exact legendre_is_bonnet_le4. Qed.
Print Assumptions C04_legendre_is_bonnet_le4.

(* normalisation and sign of the LS couplings in the spinless cascade: (-1)^J and 1, exactly *)
Theorem C04_spinless_couplings_le4 : forallb spinless_ok [0;1;2;3;4]%Z = true.
Proof. exact spinless_couplings_le4. Qed.
Print Assumptions C04_spinless_couplings_le4.

Theorem C04_density_nonneg : forall M m1 m2 m3 d rs p1 p2 p3, 0 <= density3 M m1 m2 m3 d rs p1 p2 p3.
Proof. exact density3_nonneg. Qed.
Print Assumptions C04_density_nonneg.

(* the closed form is a function of Minkowski invariants only (used by C01) *)
Theorem C04_density_invariant : forall (L : P4 -> P4),
  (forall a b, L (p4add a b) = p4add (L a) (L b)) -> (forall a b, mink4 (L a) (L b) = mink4 a b) ->
  forall M m1 m2 m3 d rs p1 p2 p3,
  density3 M m1 m2 m3 d rs (L p1) (L p2) (L p3) = density3 M m1 m2 m3 d rs p1 p2 p3.
Proof. exact density3_invariant. Qed.
Print Assumptions C04_density_invariant.

(* FULL statement not yet proved: the generic helicity pipeline (L0-L8 of DESIGN.md) specialised to
   spin-0 externals equals density3.  The pieces above (angular function, couplings, barrier and
   line shape from C15) are its ingredients; the composition is tied to the code, not proved. *)
Definition C04_pipeline_equals_closed_form_statement : Prop :=
  forall J beta, (J <= 4)%nat -> dsmall (2 * Z.of_nat J) 0 0 beta = legendre J (cos beta).
