(* C04 — statements only. *)
From Coq Require Import Reals List ZArith QArith Bool.
From TFV Require Import Base.RBase Shape.LineShapes Rot.Wigner Amp.Dalitz3 Amp.Dalitz3_proofs Amp.Coupling Amp.Coupling_proofs
     Amp.Pipeline0 Amp.Pipeline0_proofs.
Import ListNotations.
Open Scope R_scope.

(* angular function: D^{J*}_{00}(phi,theta,0) = d^J_00(theta) = P_J(cos theta), J = 0..4 *)
Theorem C04_d_J_00_is_legendre : forall J beta, (J <= 4)%nat ->
  dsmall (2 * Z.of_nat J) 0 0 beta = legendre J (cos beta).
Proof. exact d_J_00_is_legendre. Qed.
Print Assumptions C04_d_J_00_is_legendre.

(* the explicit polynomials used in the closed form are the Legendre polynomials (Bonnet) *)
Theorem C04_legendre_is_bonnet_le4 : forall x,
  fst (legendre_rec 0 x) = legendre 0 x /\ fst (legendre_rec 1 x) = legendre 1 x /\
  fst (legendre_rec 2 x) = legendre 2 x /\ fst (legendre_rec 3 x) = legendre 3 x /\
  fst (legendre_rec 4 x) = legendre 4 x.
Proof. exact legendre_is_bonnet_le4. Qed.
Print Assumptions C04_legendre_is_bonnet_le4.

(* normalisation and sign of the LS couplings in the spinless cascade: (-1)^J and 1, exactly *)
Theorem C04_spinless_couplings_le4 : forallb spinless_ok [0;1;2;3;4]%Z = true.
Proof. exact spinless_couplings_le4. Qed.
Print Assumptions C04_spinless_couplings_le4.

Theorem C04_density_nonneg : forall M m1 m2 m3 d rs p1 p2 p3, 0 <= density3 M m1 m2 m3 d rs p1 p2 p3.
Proof. exact density3_nonneg. Qed.
Print Assumptions C04_density_nonneg.

(* the closed form is a function of Minkowski invariants only (used by C01) *)
Theorem C04_density_invariant : forall (L : P4 -> P4),
  (forall a b, L (p4add a b) = p4add (L a) (L b)) -> (forall a b, mink4 (L a) (L b) = mink4 a b) ->
  forall M m1 m2 m3 d rs p1 p2 p3,
  density3 M m1 m2 m3 d rs (L p1) (L p2) (L p3) = density3 M m1 m2 m3 d rs p1 p2 p3.
Proof. exact density3_invariant. Qed.
Print Assumptions C04_density_invariant.

(* the GENERIC helicity pipeline (Amp/Chain.v: LS couplings as Clebsch-Gordan radicals times barrier factors, vertex = H * D*,
   sum over the resonance helicity), specialised to a spin-0 parent and spin-0 final particles with a resonance of spin
   J <= 4, IS the closed form: sign (-1)^J, unit normalisation of both couplings, q^J p^J B_J B_J, the propagator and
   P_J(cos theta); the first vertex' angles drop out.  (The generic layers are tied to the code's vertices in this check
   and in C01; the closed form is tied to the code's chain amplitudes and density.) *)
Theorem C04_generic_pipeline_is_closed_form :
  forall J (g1 g2 : C) q2 q02 p p0 d mR m0R g0R phi1 th1 phi2 th2,
  (J <= 4)%nat -> 0 < p -> 0 < p0 ->
  generic_chain0 J g1 g2 q2 q02 (p ^ 2) (p0 ^ 2) d (BWR mR m0R g0R p p0 J d) phi1 th1 phi2 th2
  = res_amp_core (Cmul g1 g2) J q2 q02 p p0 m0R g0R d mR (cos th2).
Proof. exact generic_pipeline_is_closed_form. Qed.
Print Assumptions C04_generic_pipeline_is_closed_form.

From Coq Require Import Lia.
From TFV Require Import Shape.LineShapes_proofs.
(* ---- production barrier after the repair of Bprime_q2 (hunt round 2, finding 1; model: Amp/Pipeline0.v Bprime_q2_abs,
   res_amp_core_abs - the closed form the check ties to the code) ---- *)
(* for every nominal mass the event-dependent Blatt-Weisskopf shape 1/sqrt(P_J(q^2 d^2)) is present; the polynomial at the
   nominal momentum (negative for odd J far beyond the kinematic limit) enters by its modulus *)
Theorem C04_barrier_shape_any_nominal_mass : forall J q2 q02 d,
  (J <= 4)%nat -> 0 <= q2 -> bp J (q02 * d ^ 2) <> 0 ->
  Bprime_q2_abs J q2 q02 d = sqrt (Rabs (bp J (q02 * d ^ 2))) / sqrt (bp J (q2 * d ^ 2)).
Proof. intros J q2 q02 d HJ. apply Bprime_q2_abs_shape. lia. Qed.
Print Assumptions C04_barrier_shape_any_nominal_mass.

(* inside the kinematic limit (q0^2 >= 0) nothing changes: B'_J(q, q0, d) of the documentation *)
Theorem C04_barrier_inside_is_bprime : forall J q q0 d, (J <= 4)%nat ->
  Bprime_q2_abs J (q ^ 2) (q0 ^ 2) d = Bprime J q q0 d.
Proof.
  intros J q q0 d HJ. rewrite Bprime_q2_abs_inside; [apply bprime_q2_agrees; lia|lia|apply pow2_ge_0].
Qed.
Print Assumptions C04_barrier_inside_is_bprime.

(* the code before the repair (Shape.LineShapes.Bprime_q2: the whole factor replaced by 1 when the ratio is negative)
   does not have that shape *)
Theorem C04_old_barrier_shape_refuted :
  exists L q2 q02 d, (L <= 4)%nat /\ 0 < q2 /\ bp L (q02 * d ^ 2) <> 0 /\
    Bprime_q2 L q2 q02 d <> sqrt (Rabs (bp L (q02 * d ^ 2))) / sqrt (bp L (q2 * d ^ 2)).
Proof. exact Bprime_q2_old_shape_refuted. Qed.
Print Assumptions C04_old_barrier_shape_refuted.

Theorem C04_generic_pipeline_is_closed_form_abs :
  forall J (g1 g2 : C) q2 q02 p p0 d mR m0R g0R phi1 th1 phi2 th2,
  (J <= 4)%nat -> 0 < p -> 0 < p0 -> 0 <= bp J (q02 * d ^ 2) ->
  generic_chain0 J g1 g2 q2 q02 (p ^ 2) (p0 ^ 2) d (BWR mR m0R g0R p p0 J d) phi1 th1 phi2 th2
  = res_amp_core_abs (Cmul g1 g2) J q2 q02 p p0 m0R g0R d mR (cos th2).
Proof. exact generic_pipeline_is_closed_form_abs. Qed.
Print Assumptions C04_generic_pipeline_is_closed_form_abs.
