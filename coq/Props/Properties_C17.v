(* C17 - temporary overrides and derived computations leave the model unchanged.
   Statements only; each closed by [exact] of a lemma from State/Overrides_proofs.v.

   Reading guide.  [run e ev p w s] executes the program p (user evaluation points, sequences,
   with-blocks of the six managers, the read-only helpers, factor_iteration loops - nested
   arbitrarily) from model state s.  [ev : nat -> state -> bool] is an ARBITRARY oracle saying
   whether the k-th evaluation point (user code inside a block, or an amplitude evaluation inside a
   helper), reached in state s, raises: quantifying over ev covers "an exception injected at any
   point".  [st_of (snd ...)] is the model state left behind, whether the run ended normally or by
   an exception.  [restored e s s'] = parameters, mask, chain selection, mask_factor flags and
   configuration of s' equal those of s; not_full is the old flag or the value recomputed for the
   same selection (they coincide when [nf_consistent e s]). *)
From Coq Require Import ZArith List Bool.
From TFV Require Import State.Overrides State.Overrides_proofs State.TraceCache State.TraceCache_proofs.
Import ListNotations.
Open Scope Z_scope.

(* override_restores: a save/set/try-yield-finally-restore manager whose exit undoes its enter,
   around ANY body that hands the state back as it found it - returning or raising -, hands the
   state back as it found it; and it does not swallow the exception. *)
Theorem C17_override_restores :
  forall (A : Type) (enter : state -> option (state * A)) (exit : A -> state -> state) (body : comp),
    (forall s s1 sv, enter s = Some (s1, sv) -> exit sv s1 = s) ->
    (forall w s, st_of (snd (body w s)) = s) ->
    forall w s, st_of (snd (with_block enter exit body w s)) = s.
Proof. exact with_block_neutral. Qed.
Print Assumptions C17_override_restores.

Theorem C17_block_propagates_exception :
  forall (A : Type) (enter : state -> option (state * A)) exit body w s,
    is_exn (snd (with_block enter exit body w s)) =
    match enter s with None => true | Some (s1, _) => is_exn (snd (body w s1)) end.
Proof. exact with_block_exn. Qed.
Print Assumptions C17_block_propagates_exception.

(* nested_blocks: every program - any nesting / sequence of the six managers, the helpers and
   factor_iteration loops, any raising oracle, any chain selection, parameter values and active
   mask - restores the state.  Only side condition: the dictionaries have unique keys (good). *)
Theorem C17_nested_blocks_restore :
  forall e ev p w s, good s -> restored e s (st_of (snd (run e ev p w s))).
Proof. exact run_restores. Qed.
Print Assumptions C17_nested_blocks_restore.

Theorem C17_nested_blocks_restore_exact :
  forall e ev p w s, good s -> nf_consistent e s -> st_of (snd (run e ev p w s)) = s.
Proof. exact run_restores_exact. Qed.
Print Assumptions C17_nested_blocks_restore_exact.

(* readonly_helpers_restore: partial_weight (both variants), partial_weight_interference,
   cal_fitfractions(_no_grad), FitFractions.append_int, and the density evaluation of the
   cached_shape amplitude model (which narrows the selection itself) - from ANY state, exception at ANY
   evaluation of the loop (ev arbitrary): no side condition at all. *)
Theorem C17_readonly_helpers_restore :
  forall e ev h w s, restored e s (st_of (snd (run_helper e ev h w s))).
Proof. exact run_helper_restores. Qed.
Print Assumptions C17_readonly_helpers_restore.

(* "... so the density of any event is unchanged": anything computed from parameters (through the
   mask), chain selection, mask_factor flags and configuration *)
Theorem C17_density_unchanged :
  forall (A : Type) (density : state -> A) e ev p w s,
    (forall a b, eqm a b -> density a = density b) -> good s ->
    density (st_of (snd (run e ev p w s))) = density s.
Proof. exact run_density_unchanged. Qed.
Print Assumptions C17_density_unchanged.

(* component theorems for a body that is NOT read-only (it may assign parameters, select chains,
   replace the mask - e.g. a fit inside temp_params): the manager still restores its own component *)
Theorem C17_temp_params_any_body :
  forall e pdict (body : comp) w s,
    NoDup (keys (vars s)) ->
    (forall w' x, keys (vars (st_of (snd (body w' x)))) = keys (vars x)) ->
    vars (st_of (snd (with_block (blk_enter e (BTempParams pdict)) (blk_exit e (BTempParams pdict)) body w s))) = vars s.
Proof. exact temp_params_any_body. Qed.
Print Assumptions C17_temp_params_any_body.

(* also the observation on not_full: after a restricted-resonance block it is consistent with the selection *)
Theorem C17_temp_used_res_any_body :
  forall e res ints (body : comp) w s,
    let r := st_of (snd (with_block (blk_enter e (BTempUsedRes res ints)) (blk_exit e (BTempUsedRes res ints)) body w s)) in
    cidx r = cidx s /\ nf_consistent e r.
Proof. exact temp_used_res_any_body. Qed.
Print Assumptions C17_temp_used_res_any_body.

Theorem C17_mask_params_any_body :
  forall e pdict (body : comp) w s,
    maskv (st_of (snd (with_block (blk_enter e (BMaskParams pdict)) (blk_exit e (BMaskParams pdict)) body w s))) = maskv s.
Proof. exact mask_params_any_body. Qed.
Print Assumptions C17_mask_params_any_body.

(* a temp_params manager whose assignment of the new values raises half-way (unusable value, too
   short list): the values assigned so far are taken back, the exception reaches the caller.
   (Both are instances of C17_nested_blocks_restore: the two shapes are block kinds of [run].) *)
Theorem C17_failing_assignment_restores :
  forall e ev p body w s, good s ->
    restored e s (st_of (snd (run e ev (PWith (BTempParamsBad p) body) w s))) /\
    is_exn (snd (run e ev (PWith (BTempParamsBad p) body) w s)) = true.
Proof. exact temp_params_bad_ok. Qed.
Print Assumptions C17_failing_assignment_restores.
Theorem C17_failing_assignment_restores_vm :
  forall e ev p rest body w s, good s ->
    restored e s (st_of (snd (run e ev (PWith (BVmTempParamsBad p rest) body) w s))) /\
    is_exn (snd (run e ev (PWith (BVmTempParamsBad p rest) body) w s)) = true.
Proof. exact vm_temp_params_bad_ok. Qed.
Print Assumptions C17_failing_assignment_restores_vm.

(* "... so the density of any event is unchanged", for the CACHED evaluation path
   (use_tf_function: True; State/TraceCache.v): in every session - the model evaluated in ANY
   states one after the other, e.g. inside and after override blocks - each cached evaluation
   returns the density of the state it is made in (same parameters, mask, flags, configuration;
   the chain selection equal or both complete).  Side conditions: not_full agrees with the
   selection, the number of mask_factor flags is fixed. *)
Theorem C17_cached_path_exact :
  forall e n l,
    List.Forall (fun s => nf_consistent e s /\ length (mflags s) = n) l ->
    List.Forall2 (same_model e) (calls cav None l) l.
Proof. intros e n l H. exact (calls_exact e n l None H (tinv_none e n)). Qed.
Print Assumptions C17_cached_path_exact.

(* nested masked-parameter blocks: the inner mask is the outer one updated with the inner values
   (Python dict update; since the C16 repair of VarsManager.mask_params), a tied name masks all
   names of its variable; every exit puts the mask of its own entry back *)
Example C17_nested_masks_merge :
  let p := PWith (BMaskParams [(0, (3, 4))]) (PSeq PEval (PSeq (PWith (BMaskParams [(1, (5, 8))]) PEval) PEval)) in
  map maskv (rev (snd (fst (run ex_env never p (O, []) ex_state)))) = [[(0, (3, 4))]; [(0, (3, 4)); (1, (5, 8))]; [(0, (3, 4))]]
  /\ st_of (snd (run ex_env never p (O, []) ex_state)) = ex_state.
Proof. exact nested_mask_example. Qed.
Example C17_mask_merge_order :
  mask_merge ex_env [(1, (5, 8)); (0, (7, 8))] [(0, (3, 4)); (3, (1, 2))] = [(0, (7, 8)); (3, (1, 2)); (1, (5, 8))].
Proof. exact mask_merge_example. Qed.
Example C17_mask_merge_tied :
  mask_merge (mkEnv 3 [] [] [(1, [1; 3]); (3, [1; 3])]) [(3, (5, 8))] [(0, (3, 4))] = [(0, (3, 4)); (3, (5, 8)); (1, (5, 8))].
Proof. exact mask_merge_tied_example. Qed.

(* ---- why the repairs matter: the pre-fix control flow (separate "old" model) ---- *)
(* before the C16 repair the inner dictionary replaced the outer mask inside the inner block *)
Example C17_old_nested_mask_replaced :
  map maskv (rev (snd (fst (with_block (old_mask_enter [(0, (3, 4))]) (blk_exit ex_env (BMaskParams []))
                              (with_block (old_mask_enter [(1, (5, 8))]) (blk_exit ex_env (BMaskParams [])) (tick never))
                              (O, []) ex_state))))
  = [[(1, (5, 8))]].
Proof. exact old_nested_mask_replaced. Qed.
(* finding C17-1: cached_available() tested only not_full *)
Theorem C17_old_cached_path_refuted :
  exists e n l, List.Forall (fun s => nf_consistent e s /\ length (mflags s) = n) l /\
                ~ List.Forall2 (same_model e) (calls cav_old None l) l.
Proof. exact calls_old_refuted. Qed.
Print Assumptions C17_old_cached_path_refuted.
Example C17_old_cached_path_keeps_mask :
  map maskv (calls cav_old None [upd_mask [(0, (3, 4))] ex_state; ex_state]) = [[(0, (3, 4))]; [(0, (3, 4))]].
Proof. exact calls_old_keeps_mask. Qed.
Example C17_old_cached_path_keeps_flags :
  map mflags (calls cav_old None [upd_flags [true; true] ex_state; ex_state]) = [[true; true]; [true; true]].
Proof. exact calls_old_keeps_flags. Qed.
(* finding C17-2: the temp_params managers assigned before the try *)
Theorem C17_old_failing_assignment_leaks :
  forall p s, set_all p (vars s) <> vars s ->
    vars (st_of (snd (old_temp_params_bad p (O, []) s))) <> vars s.
Proof. exact old_temp_params_bad_leaks. Qed.
Print Assumptions C17_old_failing_assignment_leaks.
Example C17_old_failing_assignment_example :
  vars (st_of (snd (old_temp_params_bad [(1, (5, 8))] (O, []) ex_state))) = [(0, (1, 2)); (1, (5, 8)); (3, (1, 1))].
Proof. exact old_temp_params_bad_example. Qed.
(* finding C17-3: CachedShapeAmplitudeModel.pdf restored the selection without try/finally *)
Theorem C17_old_cached_shape_pdf_exn_leaks :
  cidx (st_of (snd (old_cached_shape_pdf ex_env (fun n _ => Nat.eqb n 0) [1; 2] (O, []) ex_state))) = [0].
Proof. exact old_cached_shape_pdf_exn_leaks. Qed.
Print Assumptions C17_old_cached_shape_pdf_exn_leaks.
Example C17_cached_shape_pdf_exn_ok :
  st_of (snd (run_helper ex_env (fun n _ => Nat.eqb n 0) (HCachedShapePdf [1; 2]) (O, []) ex_state)) = ex_state.
Proof. exact cached_shape_pdf_exn_ok. Qed.

Theorem C17_old_control_flow_leaks :
  forall e b s s1 sv, blk_enter e b s = Some (s1, sv) -> s1 <> s ->
    st_of (snd (old_block e b raise_now (O, []) s)) <> s.
Proof. exact old_block_leaks. Qed.
Print Assumptions C17_old_control_flow_leaks.

Theorem C17_old_vm_temp_params_corrupts :
  forall (y2x : val -> val) v, y2x v <> v ->
    exists s pdict, vars (st_of (snd (old_vm_temp_params y2x pdict return_now (O, []) s))) <> vars s.
Proof. exact old_vm_temp_params_corrupts. Qed.
Print Assumptions C17_old_vm_temp_params_corrupts.

(* F11 (repaired by feefe02): AbsPDF.temp_params used to save the MASKED view get_params(); entered
   under mask_params it wrote the mask value into the variable, where it stayed *)
Example C17_old_temp_params_under_mask_leaks :
  vars (st_of (snd (with_block (blk_enter ex_env (BMaskParams [(0, (3, 4))])) (blk_exit ex_env (BMaskParams [(0, (3, 4))]))
                      (old_amp_temp_params [(1, (5, 8))] return_now) (O, []) ex_state)))
  = [(0, (3, 4)); (1, (3, 5)); (3, (1, 1))].
Proof. exact old_amp_temp_params_under_mask_leaks. Qed.
(* the same nestings on the current model *)
Example C17_temp_params_under_mask_ok :
  st_of (snd (run ex_env never
        (PWith (BMaskParams [(0, (3, 4))]) (PWith (BTempParams [(1, (5, 8))]) PEval)) (O, []) ex_state)) = ex_state.
Proof. exact temp_params_under_mask_ok. Qed.
Example C17_temp_params_in_factor_iteration_ok :
  st_of (snd (run ex_env never (PFactorIter (PWith (BTempParams [(1, (5, 8))]) PEval)) (O, []) ex_state)) = ex_state.
Proof. exact temp_params_in_factor_iteration_ok. Qed.

Theorem C17_old_fitfractions_widens :
  cidx (st_of (snd (old_fitfractions ex_env never [0; 1; 2] [0; 1] 1 (O, []) (set_used_chains ex_env [0; 1] ex_state)))) = [0; 1; 2].
Proof. exact old_fitfractions_widens. Qed.
Print Assumptions C17_old_fitfractions_widens.

(* non-vacuity: the hypotheses are satisfiable and the program below really overrides something *)
Example C17_example_hyps : good ex_state /\ nf_consistent ex_env ex_state.
Proof.
  split.
  - unfold good. cbn. split; repeat constructor; cbn; intuition discriminate.
  - reflexivity.
Qed.
Example C17_example_run :
  let p := PWith (BTempUsedRes [1] []) (PWith (BTempParams [(1, (5, 8))]) (PSeq PEval (PHelper HInterference))) in
  (* exception at the 3rd evaluation: seen states had chains [1], [0;1], [0;2]; state restored *)
  map cidx (rev (snd (fst (run ex_env (fun n _ => Nat.eqb n 2) p (O, []) ex_state)))) = [[1]; [0; 1]; [0; 2]] /\
  run ex_env (fun n _ => Nat.eqb n 2) p (O, []) ex_state = ((3%nat, snd (fst (run ex_env (fun n _ => Nat.eqb n 2) p (O, []) ex_state))), Exn ex_state).
Proof. vm_compute. repeat split. Qed.
