(* C17 - statements only (stub, to be completed). *)
From Coq Require Import ZArith List Bool.
From TFV Require Import State.Overrides.
Import ListNotations.
Open Scope Z_scope.
Example C17_stub : zipset [true] [false] = [true].
Proof. reflexivity. Qed.
