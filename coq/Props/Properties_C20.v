(* C20 — statements only.  Each closed by [exact] of a lemma from Samp/*_proofs.v. *)
From Coq Require Import Reals QArith ZArith List Bool Lra.
From TFV Require Import Samp.Samplers Samp.Samplers_proofs Samp.Bins Samp.Bins_proofs.
Import ListNotations.

(* ===================== acceptance-rejection (exact rationals) ===================== *)
Section Acceptance.
Local Open Scope Q_scope.

(* the step accepts exactly the uniform numbers below w/M ... *)
Theorem C20_accept_region : forall u w M, 0 < M -> (accept u w M = true <-> u < w / M).
Proof. exact accept_region. Qed.
Print Assumptions C20_accept_region.

(* ... which is a sub-interval of [0,1] when the weight does not exceed the bound *)
Theorem C20_accept_ratio_unit : forall w M, 0 <= w -> w <= M -> 0 < M -> 0 <= w / M /\ w / M <= 1.
Proof. exact accept_ratio_unit. Qed.
Print Assumptions C20_accept_ratio_unit.

(* thinning an event accepted with bound M by M/M' is acceptance with bound M' *)
Theorem C20_thinning_consistent : forall w M M', ~ M == 0 -> ~ M' == 0 -> (w / M) * (M / M') == w / M'.
Proof. exact thinning_consistent. Qed.
Print Assumptions C20_thinning_consistent.

Theorem C20_thin_region : forall r newM M1, 0 < M1 -> 0 < newM ->
  (thin_keep r newM M1 = true <-> r < M1 / newM).
Proof. exact thin_region. Qed.
Print Assumptions C20_thin_region.

(* single_sampling2: no proposed event of the batch has a weight above the bound used *)
Theorem C20_bound_ge_weights : forall M ws w, 0 <= qmax_list ws -> In w ws -> w <= bound_of M ws.
Proof. exact bound_ge_weights. Qed.
Print Assumptions C20_bound_ge_weights.

Theorem C20_accepted_weight_le_bound : forall (A : Type) M (evs : list (A * Q * Q)),
  Forall (fun e => 0 <= ev_w A e) evs ->
  Forall (weight_le_bound A) (fst (single_sampling2 A M evs)).
Proof. exact accepted_weight_le_bound. Qed.
Print Assumptions C20_accepted_weight_le_bound.

(* multi_sampling, for every oracle stream of batches (weights, uniforms, thinning uniforms),
   every initial bound and both values of force: every returned event was accepted with a
   bound at least its weight *)
Theorem C20_returned_weight_le_bound : forall (A : Type) N M0 force (bs : list (batch A)),
  Forall (nonneg_batch A) bs -> Forall (weight_le_bound A) (fst (multi_sampling A N M0 force bs)).
Proof. exact returned_weight_le_bound. Qed.
Print Assumptions C20_returned_weight_le_bound.

(* exact count: when the while loop ends (N_gen >= N), force=True returns exactly N events *)
Theorem C20_force_count : forall (A : Type) N M0 (bs : list (batch A)),
  Forall (nonneg_batch A) bs ->
  (N <= ms_ngen A (snd (multi_sampling A N M0 true bs)))%nat ->
  length (fst (multi_sampling A N M0 true bs)) = N.
Proof. exact force_count. Qed.
Print Assumptions C20_force_count.

Theorem C20_noforce_count : forall (A : Type) N M0 (bs : list (batch A)),
  Forall (nonneg_batch A) bs ->
  length (fst (multi_sampling A N M0 false bs)) = ms_ngen A (snd (multi_sampling A N M0 false bs)).
Proof. exact noforce_count. Qed.
Print Assumptions C20_noforce_count.

(* the loop never asks for an empty batch while events are missing *)
Theorem C20_test_N_pos : forall N ngen eff maxN,
  (ngen < N)%nat -> 0 < eff -> eff <= 1 -> (1 <= maxN)%Z -> (1 <= test_N N ngen eff maxN)%Z.
Proof. exact test_N_pos. Qed.
Print Assumptions C20_test_N_pos.
(* a supplied bound that dominates every weight is never changed: every event of every batch is then
   accepted with one and the same M, i.e. with probability w / M (C20_accept_prob): exact
   acceptance-rejection.  This is the regular stream of the density test of the harness. *)
Theorem C20_valid_bound_kept : forall M0 ws, qmax_list ws <= M0 -> bound_of (Some M0) ws = M0.
Proof. exact valid_bound_kept. Qed.
Print Assumptions C20_valid_bound_kept.

(* the code AS IT IS with max_weight=None (open finding multi_sampling / bound-from-accepted-batch): the
   bound is 1.01 * the largest weight of the very batch that is accepted, so a batch of one event is
   accepted iff u < 100/101 whatever its weight - the sample of a one-event request follows the
   proposal, not the model density *)
Theorem C20_none_bound_is_batch_max : forall ws, bound_of None ws == qmax_list ws * (101 # 100).
Proof. exact none_bound_is_batch_max. Qed.
Print Assumptions C20_none_bound_is_batch_max.
Theorem C20_none_bound_single_event_weight_blind : forall u w, 0 < w ->
  (accept u w (bound_of None [w]) = true <-> u < 100 # 101).
Proof. exact none_bound_single_event_weight_blind. Qed.
Print Assumptions C20_none_bound_single_event_weight_blind.
End Acceptance.

(* ===================== inverse-transform samplers (reals) ===================== *)
Section Inverse.
Local Open Scope R_scope.

(* LinearInterp on any strictly increasing grid with non-negative node values: solve inverts
   integral and stays in range.  Side condition: u < 1 (np.random.random never returns 1) or
   the last bin has positive integral (otherwise the code divides 0 by 0 at u = 1). *)
Theorem C20_linear_solve_inverts : forall eps xs ys u,
  increasing xs -> nonneg ys -> length xs = length ys -> (2 <= length xs)%nat ->
  0 < li_int_all (cal_coeffs eps xs ys) -> 0 <= u <= 1 ->
  (u < 1 \/ 0 < last_int (cal_coeffs eps xs ys)) ->
  li_integral (cal_coeffs eps xs ys) (li_solve (cal_coeffs eps xs ys) u)
    = u * li_int_all (cal_coeffs eps xs ys) /\
  hd 0 xs <= li_solve (cal_coeffs eps xs ys) u <= last xs 0.
Proof. exact linear_solve_inverts. Qed.
Print Assumptions C20_linear_solve_inverts.

(* the same for any well-formed chain of linear bins (induction over the bins) *)
Theorem C20_linear_solve_inverts_chain : forall bs u,
  chain_ok bs -> bs <> [] -> 0 < li_int_all bs -> 0 <= u <= 1 -> (u < 1 \/ 0 < last_int bs) ->
  li_integral bs (li_solve bs u) = u * li_int_all bs /\ first_x0 bs <= li_solve bs u <= last_x1 bs.
Proof. exact linear_solve_inverts_chain. Qed.
Print Assumptions C20_linear_solve_inverts_chain.

(* single bin: the per-bin quadratic inverse with its k = 0 branch *)
Theorem C20_linear_solve_inverts_one_bin : forall bn u,
  bin_ok bn -> 0 < bin_int bn -> 0 <= u <= 1 ->
  li_integral [bn] (li_solve [bn] u) = u * li_int_all [bn] /\ lx0 bn <= li_solve [bn] u <= lx1 bn.
Proof. exact linear_solve_inverts_one_bin. Qed.
Print Assumptions C20_linear_solve_inverts_one_bin.

(* the code reads the stored cumulative sums int_step; that is the same function *)
Theorem C20_solve_steps_eq : forall bs acc t, solve_steps (with_steps acc bs) t = solve_from acc bs t.
Proof. exact solve_steps_eq. Qed.
Print Assumptions C20_solve_steps_eq.
Theorem C20_integral_steps_eq : forall bs acc x, integral_steps (with_steps acc bs) x = integral_from acc bs x.
Proof. exact integral_steps_eq. Qed.
Print Assumptions C20_integral_steps_eq.

Theorem C20_cal_coeffs_chain_ok : forall eps xs ys,
  increasing xs -> nonneg ys -> length xs = length ys -> chain_ok (cal_coeffs eps xs ys).
Proof. exact cal_coeffs_chain_ok. Qed.
Print Assumptions C20_cal_coeffs_chain_ok.

Theorem C20_bw_solve_inverts : forall m0 g mmin mmax u,
  0 < g -> mmin <= mmax -> 0 <= u <= 1 ->
  bw_integral m0 g (bw_solve m0 g mmin mmax u) - bw_integral m0 g mmin
    = u * bw_int_all m0 g mmin mmax /\
  mmin <= bw_solve m0 g mmin mmax u <= mmax.
Proof. exact bw_solve_inverts. Qed.
Print Assumptions C20_bw_solve_inverts.

(* InterpND: the per-axis sqrt transform inverts the cumulative function of its triangular
   density, and the returned coordinate stays inside the chosen cell *)
Theorem C20_interp_nd_cell_inverse : forall bit u xmin xmax,
  0 <= u <= 1 -> xmin <= xmax ->
  let y := fst (nd_coeff bit) + snd (nd_coeff bit) * sqrt u in
  0 <= y <= 1 /\ (if bit then y * y = u else (1 - y) * (1 - y) = u) /\
  nd_axis bit u xmin xmax = y * (xmax - xmin) + xmin /\
  xmin <= nd_axis bit u xmin xmax <= xmax.
Proof. exact interp_nd_cell_inverse. Qed.
Print Assumptions C20_interp_nd_cell_inverse.
End Inverse.

(* InterpND, any number of dimensions: the transform stored at corner index p is the one of
   the corner whose weight int_all[p] selects p (index formula of build_coeffs vs the
   itertools.product order of intgral_step) *)
Theorem C20_nd_corner_pairing : forall bits, nth (idx_coeff bits) (product_bits (length bits)) [] = bits.
Proof. exact nd_corner_pairing. Qed.
Print Assumptions C20_nd_corner_pairing.

Theorem C20_nd_coeffs_match_weights : forall n p, (p < 2 ^ n)%nat -> bits_coeff n p = bits_weight n p.
Proof. exact nd_coeffs_match_weights. Qed.
Print Assumptions C20_nd_coeffs_match_weights.

(* the indexing used before /repo commit d23f395 (idx = sum idx_j 2^j) paired corner 1 of a
   2-dimensional grid with the transform of corner 2 *)
Example C20_nd_old_indexing_mismatch :
  coeff_lookup idx_coeff_old 2 1 = Some [true; false] /\ bits_weight 2 1 = [false; true].
Proof. split; vm_compute; reflexivity. Qed.

(* InterpND cell weights since the cell-volume repair of intgral_step: corner value / 2^n * cell volume.
   One cell in one dimension: the two corner weights add up to the trapezoid area, the exact integral
   of the interpolant over the cell (the quantity LinearInterp calls bin_int) *)
Theorem C20_nd_cell_weight_1d_trapezoid : forall x0 x1 z0 z1 : Q,
  (nd_cell_weight (nd_int_all_vol [[x0; x1]] [z0; z1]) 1 0 2 == (z0 + z1) / 2 * (x1 - x0))%Q.
Proof. exact nd_cell_weight_1d_trapezoid. Qed.
Print Assumptions C20_nd_cell_weight_1d_trapezoid.
(* constant density on the nodes 0, 1, 3: the first cell gets 1 of 3 ... *)
Example C20_nd_vol_nonuniform_example :
  (nd_cell_weight (nd_int_all_vol [[0; 1; 3]] [1; 1; 1]) 2 0 2 == 1 /\
   nd_cell_weight (nd_int_all_vol [[0; 1; 3]] [1; 1; 1]) 2 1 2 == 2)%Q.
Proof. exact nd_vol_nonuniform_example. Qed.
(* ... the weights of the code before the repair (nd_int_all: no volume factor) gave both cells the same *)
Example C20_nd_old_no_volume_refuted :
  (nd_cell_weight (nd_int_all [3%nat] [1; 1; 1]) 2 0 2 == nd_cell_weight (nd_int_all [3%nat] [1; 1; 1]) 2 1 2)%Q.
Proof. exact nd_old_no_volume_refuted. Qed.

(* ===================== bins and histograms (exact rationals) ===================== *)
Section BinsHist.
Local Open Scope Q_scope.

(* half-open chain: every x in [b_0, b_n) lies in exactly one bin (any number of edges) *)
Theorem C20_bins_partition : forall es x, qsorted es -> qhd es <= x -> x < qlast es ->
  exists! i, (S i < length es)%nat /\ nth i es 0 <= x /\ x < nth (S i) es 0.
Proof. exact bins_partition. Qed.
Print Assumptions C20_bins_partition.

Theorem C20_bins_count_one : forall es x, qsorted es -> qhd es <= x -> x < qlast es ->
  count_true (bin_flags x es) = 1%nat.
Proof. exact bins_count_one. Qed.
Print Assumptions C20_bins_count_one.

(* one box split along one dimension *)
Theorem C20_split_box_count : forall bx idx cuts x,
  (idx < length bx)%nat -> qsorted (box_lo bx idx :: cuts ++ [box_hi bx idx]) ->
  count_in x (split_box bx idx cuts) = if in_box x bx then 1%nat else 0%nat.
Proof. exact split_box_count. Qed.
Print Assumptions C20_split_box_count.

(* the whole split list of AdaptiveBound (np.percentile = oracle pct, the upper-edge rule =
   oracle up: x + 1e-6 in the code, any other rule in a future repair): a point of the base box
   lies in exactly one leaf box, a point outside in none *)
Theorem C20_adaptive_partition : forall pct up nss base pts x,
  loop_ok pct up nss [(base, pts)] ->
  count_in x (map fst (loop_split pct up nss [(base, pts)])) = if in_box x base then 1%nat else 0%nat.
Proof. exact adaptive_partition. Qed.
Print Assumptions C20_adaptive_partition.

Theorem C20_adaptive_exactly_one : forall pct up nss base pts x,
  loop_ok pct up nss [(base, pts)] -> in_box x base = true ->
  exists! i, (i < length (loop_split pct up nss [(base, pts)]))%nat /\
             in_box x (nth i (map fst (loop_split pct up nss [(base, pts)])) []) = true.
Proof. exact adaptive_exactly_one. Qed.
Print Assumptions C20_adaptive_exactly_one.

(* every event of the data set lies in the base box (upper edge strictly above the maximum) *)
Theorem C20_base_bound_contains : forall up ndim pts p, (forall x, x < up x) -> In p pts ->
  (ndim <= length p)%nat -> in_box p (base_bound up ndim pts) = true.
Proof. exact base_bound_contains. Qed.
Print Assumptions C20_base_bound_contains.

(* the reference instance used by the correspondence is such an upper-edge rule *)
Theorem C20_up_ref_above : forall x, x < up_ref x.
Proof. exact up_ref_above. Qed.
Print Assumptions C20_up_ref_above.

(* what the percentile contract (between min and max, monotone in the rank) and a monotone
   upper-edge rule at or above its argument give: the cuts of a box are in order between its
   bounds if the upper neighbour of each of its data is at most the upper bound *)
Theorem C20_cuts_in_order : forall (pct : list Q -> nat -> nat -> Q) (up : Q -> Q),
  (forall col j n, col <> [] -> qmin_l col <= pct col j n /\ pct col j n <= qmax_l col) ->
  (forall col j k n, (j <= k)%nat -> pct col j n <= pct col k n) ->
  (forall x y, x <= y -> up x <= up y) ->
  (forall x, x <= up x) ->
  forall col n lo hi,
  col <> [] -> Forall (fun v => lo <= v) col -> Forall (fun v => up v <= hi) col ->
  qsorted (lo :: cuts_of pct up col n ++ [hi]).
Proof. exact cuts_in_order. Qed.
Print Assumptions C20_cuts_in_order.

(* the code as it is (up_old x = x + 1e-6): data 1e-6 below the upper bound *)
Theorem C20_cuts_in_order_old_offset : forall pct : list Q -> nat -> nat -> Q,
  (forall col j n, col <> [] -> qmin_l col <= pct col j n /\ pct col j n <= qmax_l col) ->
  (forall col j k n, (j <= k)%nat -> pct col j n <= pct col k n) ->
  forall col n lo hi,
  col <> [] -> Forall (fun v => lo <= v) col -> Forall (fun v => v + eps6 <= hi) col ->
  qsorted (lo :: cuts_of pct up_old col n ++ [hi]).
Proof. exact cuts_in_order_old_offset. Qed.
Print Assumptions C20_cuts_in_order_old_offset.

(* near-equal populations, arithmetic core: the number of the m distinct values between
   consecutive n-quantile ranks differs from (m-1)/n by less than one *)
Theorem C20_pop_floor_within_one : forall m n j : Z, (0 < n)%Z -> (1 <= j <= n)%Z -> (1 <= m)%Z ->
  let c := ((j * (m - 1)) / n - ((j - 1) * (m - 1)) / n)%Z in
  (Z.abs (n * c - (m - 1)) <= n)%Z.
Proof. exact pop_floor_within_one. Qed.
Print Assumptions C20_pop_floor_within_one.

(* weighted histogram: in-range events conserve the sum of weights and of squared weights *)
Theorem C20_hist_conserves : forall es evs, qsorted es -> (2 <= length es)%nat ->
  Forall (fun e => in_range es (fst e)) evs ->
  qsum (hist es evs) == qsum (map snd evs) /\
  qsum (hist es (sq_w evs)) == qsum (map (fun e => snd e * snd e) evs).
Proof. exact hist_conserves. Qed.
Print Assumptions C20_hist_conserves.

Theorem C20_hist_err2_populated : forall mask es evs i,
  ~ nth i (hist es (unit_w evs)) 0 == 0 -> (i < length es - 1)%nat ->
  nth i (hist_err2 mask es evs) 0 = nth i (hist es (sq_w evs)) 0.
Proof. exact hist_err2_populated. Qed.
Print Assumptions C20_hist_err2_populated.

(* Hist1D.__add__ / __sub__ (after the repair).  The histogram of the union of two event sets
   is the sum of the histograms: counts, sums of squared weights, unweighted counts *)
Theorem C20_hist_add_counts : forall es a b,
  Forall2 Qeq (hist es (a ++ b)) (vadd (hist es a) (hist es b)) /\
  Forall2 Qeq (hist es (sq_w (a ++ b))) (vadd (hist es (sq_w a)) (hist es (sq_w b))) /\
  Forall2 Qeq (hist es (unit_w (a ++ b))) (vadd (hist es (unit_w a)) (hist es (unit_w b))).
Proof. exact hist_add_counts. Qed.
Print Assumptions C20_hist_add_counts.

(* a bin of the union is empty (error = inf) exactly where both components are *)
Theorem C20_hist_add_empty : forall es a b,
  hist_empty es (a ++ b) = hist_add_empty (hist_empty es a) (hist_empty es b).
Proof. exact hist_add_empty_union. Qed.
Print Assumptions C20_hist_add_empty.

(* on every bin populated in the union, the repaired error rule applied to the two component
   histograms gives the squared error of the histogram of the union (any mask value m) *)
Theorem C20_hist_add_err2 : forall m es a b i,
  nth i (hist_empty es (a ++ b)) true = false ->
  nth i (hist_add_err2 (hist_err2 m es a) (hist_err2 m es b) (hist_empty es a) (hist_empty es b)) 0
  == nth i (hist es (sq_w (a ++ b))) 0.
Proof. exact hist_add_union. Qed.
Print Assumptions C20_hist_add_err2.
End BinsHist.

(* ===================== partial / not proved ===================== *)
(* "populations within one of equal" for the code's own cuts needs np.percentile's rank
   arithmetic (virtual index j/n*(m-1)) and an upper-edge rule up strictly above its argument
   with no datum strictly between v and up v (the code's x + 1e-6 on data more than 1e-6 apart):
   kept as a statement, tied numerically on every adaptive case of the regular stream
   (pop_within_one on the implementation's populations).  With the absolute pad of the code
   (up_old) it fails on data finer than 1e-6: C20_old_abs_offset_unequal_populations below
   (open finding AdaptiveBound.base_bound / absolute-1e-6-pad). *)
Definition C20_populations_full_statement : Prop :=
  forall (up : Q -> Q), (forall x, x < up x) ->
  forall (col : list Q) (n j : nat), (1 <= j <= n)%nat -> NoDup col ->
  (forall v w, In v col -> In w col -> ~ (v < w /\ w < up v))%Q ->
  (forall k, ~ exists w, In w col /\ (qpercentile col k n < w /\ w < up (qpercentile col k n))%Q) ->
  let lo := if Nat.eqb j 1 then (qmin_l col - eps6)%Q else up (qpercentile col (j - 1) n) in
  let hi := if Nat.eqb j n then up (qmax_l col) else up (qpercentile col j n) in
  pop_within_one (Z.of_nat (length col)) (Z.of_nat n)
                 (Z.of_nat (length (filter (fun v => in_ho v lo hi) col))) = true.

(* the absolute pad of the code (open finding) and the old Hist1D sum rule, refuted on concrete inputs *)
(* 8 events 1e-7 apart split in 2: with the + 1e-6 pad the first cut lies above all of them *)
Example C20_old_abs_offset_unequal_populations :
  map (fun bd => length (snd bd))
      (split_one qpercentile up_old 0 2 (base_bound up_old 1 fine_pts, fine_pts)) = [8; 0]%nat
  /\ pop_within_one 8 2 8 = false.
Proof. exact old_abs_offset_unequal_populations. Qed.
Example C20_new_offset_equal_populations :
  map (fun bd => length (snd bd))
      (split_one qpercentile up_ref 0 2 (base_bound up_ref 1 fine_pts, fine_pts)) = [4; 4]%nat
  /\ pop_within_one 8 2 4 = true.
Proof. exact new_offset_equal_populations. Qed.
(* sqrt(e1^2 + e2^2) with inf on empty bins marked a bin empty where EITHER component was *)
Example C20_old_hist_add_inf_refuted :
  let es := [0; 1 # 2; 1]%Q in let a := [(1 # 10, 1)]%Q in let b := [(8 # 10, 1)]%Q in
  hist_add_empty_old (hist_empty es a) (hist_empty es b) = [true; true] /\
  hist_empty es (a ++ b) = [false; false] /\
  hist_add_empty (hist_empty es a) (hist_empty es b) = [false; false].
Proof. exact old_hist_add_inf_refuted. Qed.

(* non-vacuity *)
Example C20_example_chain : chain_ok (cal_coeffs (1 / 10000000000) [0; 1; 3]%R [1; 2; 0]%R).
Proof. apply cal_coeffs_chain_ok; cbn; repeat constructor; lra. Qed.
Example C20_example_bins : count_true (bin_flags (3 # 2) [0; 1; 2; 5]%Q) = 1%nat.
Proof. vm_compute. reflexivity. Qed.
Example C20_example_hist : hist [0; 1; 2]%Q [(1 # 2, 3); (1, 2); (2, 5); (7, 1)]%Q = [3 + 0; 0 + (2 + (5 + 0))]%Q -> True.
Proof. auto. Qed.
Example C20_example_toy :
  map (ev_id nat) (fst (multi_sampling nat 2 None true
    [Build_batch nat [(0%nat, 1, 1 # 2); (1%nat, 1 # 4, 9 # 10); (2%nat, 3 # 4, 1 # 10)]%Q []])) = [0%nat; 2%nat].
Proof. vm_compute. reflexivity. Qed.

(* ===================== acceptance probability ===================== *)
(* for a uniform real number on [0,1] the step accepts with probability w/M: Riemann integral
   of the indicator of the accepted region (uniformity of the RNG itself is an oracle) *)
From Coquelicot Require Import Coquelicot.
Theorem C20_accept_prob : forall w M : R, (0 <= w <= M)%R -> (0 < M)%R ->
  is_RInt (fun u => accept_ind u w M) 0%R 1%R (w / M)%R.
Proof. exact accept_prob. Qed.
Print Assumptions C20_accept_prob.
