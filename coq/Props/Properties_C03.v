(* C03 — statements only. *)
From Coq Require Import Reals List Lra.
From TFV Require Import Shape.LineShapes Amp.Dalitz3 Amp.Superpose Amp.Superpose_proofs.
Import ListNotations.
Open Scope R_scope.

(* integral of |sum_k A_k|^2 = sum of single integrals + sum over pairs of interference integrals *)
Theorem C03_norm_expansion : forall w chains n, length w = n -> Forall (fun c => length c = n) chains ->
  wnorm w (vsum n chains) =
  rsum (map (wnorm w) chains) + rsum (map (fun p => winter w (fst p) (snd p)) (pairs chains)).
Proof. exact wnorm_vsum_expansion. Qed.
Print Assumptions C03_norm_expansion.

(* fit-fraction sum rule for any number of chains, any sample, any weights (incl. negative) *)
Theorem C03_ff_sum_rule : forall w chains n, length w = n -> Forall (fun c => length c = n) chains ->
  I_all n w chains <> 0 -> FF_total n w chains = 1.
Proof. exact ff_sum_rule. Qed.
Print Assumptions C03_ff_sum_rule.

(* each chain's amplitude is proportional to its own complex coupling *)
Theorem C03_coupling_linear : forall z c a, vscale z (vscale c a) = vscale (Cmul z c) a.
Proof. exact vscale_vscale. Qed.
Print Assumptions C03_coupling_linear.
Theorem C03_norm_scales : forall w z a, wnorm w (vscale z a) = Cnorm2 z * wnorm w a.
Proof. exact wnorm_vscale. Qed.
Print Assumptions C03_norm_scales.

(* batch independence: integral over a concatenated sample = sum of the batch integrals, any split *)
Theorem C03_batch_additive : forall w1 w2 a1 a2, length w1 = length a1 ->
  wnorm (w1 ++ w2) (a1 ++ a2) = wnorm w1 a1 + wnorm w2 a2.
Proof. exact wnorm_app. Qed.
Print Assumptions C03_batch_additive.
Theorem C03_sum_pointwise : forall a1 a2 b1 b2, length a1 = length b1 ->
  vadd (a1 ++ a2) (b1 ++ b2) = vadd a1 b1 ++ vadd a2 b2.
Proof. exact vadd_app. Qed.
Print Assumptions C03_sum_pointwise.

(* selecting every chain is the full sum *)
Theorem C03_select_all : forall (l : list (list C)), select (repeat true (length l)) l = l.
Proof. exact (@select_all (list C)). Qed.
Print Assumptions C03_select_all.

Example C03_example : FF_total 1 [1] [[(1, 0)]; [(0, 1)]] = 1.
Proof. apply ff_sum_rule; [reflexivity|repeat constructor|]. unfold I_all, vsum, vadd, vzero, wnorm, Cnorm2, Cadd, Czero; simpl. lra. Qed.
