(* C09 - uncertainties are first-order propagated from the inverse Hessian.  Statements only.
   Model: Lik/ErrProp.v (tied to tf_pwa/err_num.py, fitfractions.py, applications.py, params_trans.py,
   variable.py trans_error_matrix by harness/props/c09.py on every run). *)
From Coq Require Import Reals List ZArith Lra.
From Coquelicot Require Import Coquelicot.
From TFV Require Import Base.RBase Lik.ErrProp Lik.ErrProp_proofs.
Import ListNotations.
Open Scope R_scope.

(* first_order2 f x y ex ey e :  e = sqrt((d1 f ex)^2 + (d2 f ey)^2), d1 f / d2 f being THE partial derivatives
   (is_derive, unique);  first_order1 f x ex e :  e = |f'(x)| ex.
   Every operator of the value+-error type - both operands uncertain, a plain number on the right, the reflected
   power, negation, log, exp - returns the first-order propagated uncertainty.  Side conditions are the domains
   of the real functions (divisor <> 0, base of a real power > 0, argument of log > 0). *)
Theorem C09_op_err_is_first_order : forall x y ex ey c (n : Z),
  first_order2 Rplus x y ex ey (nerr (ne_add (x, ex) (y, ey))) /\
  first_order2 Rminus x y ex ey (nerr (ne_sub (x, ex) (y, ey))) /\
  first_order2 Rmult x y ex ey (nerr (ne_mul (x, ex) (y, ey))) /\
  (y <> 0 -> first_order2 Rdiv x y ex ey (nerr (ne_div (x, ex) (y, ey)))) /\
  (0 < x -> first_order2 rpw x y ex ey (nerr (ne_pow (x, ex) (y, ey)))) /\
  first_order1 (fun t => t + c) x ex (nerr (ne_add_c (x, ex) c)) /\
  first_order1 (fun t => t - c) x ex (nerr (ne_sub_c (x, ex) c)) /\
  first_order1 (fun t => t * c) x ex (nerr (ne_mul_c (x, ex) c)) /\
  (c <> 0 -> first_order1 (fun t => t / c) x ex (nerr (ne_div_c (x, ex) c))) /\
  (0 < x -> first_order1 (fun t => rpw t c) x ex (nerr (ne_pow_c (x, ex) c))) /\
  ((0 <= n)%Z \/ x <> 0 -> first_order1 (fun t => powerRZ t n) x ex (nerr (ne_pow_z (x, ex) n))) /\
  (0 < c -> first_order1 (fun t => rpw c t) x ex (nerr (ne_rpow c (x, ex)))) /\
  first_order1 Ropp x ex (nerr (ne_neg (x, ex))) /\
  (0 < x -> first_order1 ln x ex (nerr (ne_log (x, ex)))) /\
  first_order1 exp x ex (nerr (ne_exp (x, ex))).
Proof. exact op_err_is_first_order. Qed.
Print Assumptions C09_op_err_is_first_order.

(* the model's real power is Coq's Rpower *)
Theorem C09_rpw_is_Rpower : forall x y, rpw x y = Rpower x y.
Proof. exact rpw_Rpower. Qed.
Print Assumptions C09_rpw_is_Rpower.

(* NumberError.apply(fun, grad) is first order whenever grad is the derivative of fun *)
Theorem C09_apply_first_order : forall (f g : R -> R) x ex,
  is_derive f x (g x) -> first_order1 f x ex (nerr (ne_apply f g (x, ex))).
Proof. exact apply_first_order. Qed.
Print Assumptions C09_apply_first_order.

(* uncertainties are never negative *)
Theorem C09_err_nonneg_two_operands : forall a b,
  0 <= nerr (ne_add a b) /\ 0 <= nerr (ne_sub a b) /\ 0 <= nerr (ne_mul a b) /\ 0 <= nerr (ne_div a b) /\ 0 <= nerr (ne_pow a b).
Proof. exact err_nonneg_bin. Qed.
Print Assumptions C09_err_nonneg_two_operands.

Theorem C09_err_nonneg_one_operand : forall a c n, 0 <= nerr a ->
  0 <= nerr (ne_add_c a c) /\ 0 <= nerr (ne_sub_c a c) /\ 0 <= nerr (ne_mul_c a c) /\ 0 <= nerr (ne_div_c a c) /\
  0 <= nerr (ne_pow_c a c) /\ 0 <= nerr (ne_pow_z a n) /\ 0 <= nerr (ne_neg a) /\ 0 <= nerr (ne_rpow c a) /\
  0 <= nerr (ne_log a) /\ 0 <= nerr (ne_exp a).
Proof. exact err_nonneg_un. Qed.
Print Assumptions C09_err_nonneg_one_operand.

(* cal_err: sqrt(sum (g_i e_i)^2) is the two-operand rule for two arguments, and is sqrt(g^T V g) for V = diag(e_i^2) *)
Theorem C09_cal_err_two_operands : forall g1 g2 e1 e2, sqrt (quad_sum [g1; g2] [e1; e2]) = prop2 g1 g2 e1 e2.
Proof. exact quad_sum_two. Qed.
Print Assumptions C09_cal_err_two_operands.

Theorem C09_cal_err_is_diagonal_covariance : forall g es, length g = length es ->
  err_prop (diag_rows 0 es) g = nerr (cal_err_grad 0 g es).
Proof. exact err_prop_diag. Qed.
Print Assumptions C09_cal_err_is_diagonal_covariance.

(* fit fractions: the gradient handed to sqrt(g^T V g) is the derivative of I_i/I with respect to every coordinate t
   (quotient rule), also for the interference combination and the diagonal sum *)
Theorem C09_ff_grad_is_derive : forall (fi fI : R -> R) t gi gI,
  is_derive fi t gi -> is_derive fI t gI -> fI t <> 0 ->
  is_derive (fun s => ff (fi s) (fI s)) t (ff_grad gi gI (fi t) (fI t)).
Proof. exact ff_grad_is_derive. Qed.
Print Assumptions C09_ff_grad_is_derive.

Theorem C09_ff_interference_grad : forall (fij fi fj fI : R -> R) t gij gi gj gI,
  is_derive fij t gij -> is_derive fi t gi -> is_derive fj t gj -> is_derive fI t gI -> fI t <> 0 ->
  is_derive (fun s => ff_int (fij s) (fi s) (fj s) (fI s)) t (ff_int_grad gij gi gj gI (fij t) (fi t) (fj t) (fI t)).
Proof. exact ff_int_grad_is_derive. Qed.
Print Assumptions C09_ff_interference_grad.

Theorem C09_ff_grad_vec_entry : forall gi gI Ii I k, (k < length gi)%nat -> length gi = length gI ->
  nth k (ff_grad_vec gi gI Ii I) 0 = ff_grad (nth k gi 0) (nth k gI 0) Ii I.
Proof. exact ff_grad_vec_nth. Qed.
Print Assumptions C09_ff_grad_vec_entry.

(* bound transformations: get_dydx is the derivative of the transform ... *)
Theorem C09_bound_dydx_is_derive : forall a b x,
  is_derive (bt_two a b) x (bt_two_d a b x) /\ is_derive (bt_lower a) x (bt_lower_d x) /\ is_derive (bt_upper b) x (bt_upper_d x).
Proof. intros a b x. exact (conj (bt_two_is_derive a b x) (conj (bt_lower_is_derive a x) (bt_upper_is_derive b x))). Qed.
Print Assumptions C09_bound_dydx_is_derive.

(* ... and trans_error_matrix computes V_y = J V_x J^T for the diagonal Jacobian J = diag(dy/dx) *)
Theorem C09_bound_error_transport : forall n d (V : nat -> nat -> R) i j, (i < n)%nat -> (j < n)%nat ->
  rsum_n (fun k => rsum_n (fun l => fdiag d i k * V k l * fdiag d j l) n) n = d i * V i j * d j.
Proof. exact bound_error_transport_fun. Qed.
Print Assumptions C09_bound_error_transport.

Theorem C09_trans_error_matrix_entry : forall d V i j,
  (i < length d)%nat -> (i < length V)%nat -> (j < length d)%nat -> (j < length (nth i V []))%nat ->
  mget (trans_error_matrix d V) i j = nth i d 0 * mget V i j * nth j d 0.
Proof. exact trans_error_matrix_entry. Qed.
Print Assumptions C09_trans_error_matrix_entry.

(* Hessian -> errors, any dimension: if H is positive definite and H V = I then every V_ii > 0 and the reported
   sqrt|V_ii| is sqrt(V_ii), the square root of the diagonal of the inverse *)
Theorem C09_hesse_from_inverse : forall n (H V : nat -> nat -> R) i,
  pos_def n H -> is_right_inverse n H V -> (i < n)%nat -> 0 < V i i /\ sqrt (Rabs (V i i)) = sqrt (V i i).
Proof. exact hesse_from_inverse. Qed.
Print Assumptions C09_hesse_from_inverse.

Theorem C09_hesse_error_reads_diagonal : forall V i, (i < length V)%nat -> nth i (hesse_error V) 0 = sqrt (Rabs (mget V i i)).
Proof. exact hesse_error_nth. Qed.
Print Assumptions C09_hesse_error_reads_diagonal.

Theorem C09_hesse_2x2 : forall a b c v11 v12 v21 v22,
  0 < a -> 0 < a * c - b * b ->
  a * v11 + b * v21 = 1 -> a * v12 + b * v22 = 0 -> b * v11 + c * v21 = 0 -> b * v12 + c * v22 = 1 ->
  hesse_error [[v11; v12]; [v21; v22]] = [sqrt (c / (a * c - b * b)); sqrt (a / (a * c - b * b))].
Proof. exact hesse_2x2. Qed.
Print Assumptions C09_hesse_2x2.

(* ---- cal_hesse_correct (get_params_error(method="correct", correct_params=[...])): the finite-difference entries that replace
   the automatic-differentiation Hessian.  Diagonal stencil (points x+2e, x+e, x-e, x-2e) and mixed stencil are exact on
   polynomials of degree <= 3, where they are THE second derivatives; on a quartic the truncation error is
   (5/12) e^2 times the fourth derivative. ---- *)
Theorem C09_hesse_correct_diag_exact_on_cubics : forall c0 c1 c2 c3 x e, e <> 0 ->
  (forall t : R, is_derive (cubic c0 c1 c2 c3) t (c1 + 2 * c2 * t + 3 * c3 * t ^ 2)) /\
  is_derive (fun t : R => c1 + 2 * c2 * t + 3 * c3 * t ^ 2) x (hc1 (cubic c0 c1 c2 c3) x e).
Proof. exact hc1_cubic_second_derivative. Qed.
Print Assumptions C09_hesse_correct_diag_exact_on_cubics.

Theorem C09_hesse_correct_diag_truncation : forall c0 c1 c2 c3 c4 x e, e <> 0 ->
  hc1 (quartic c0 c1 c2 c3 c4) x e = (2 * c2 + 6 * c3 * x + 12 * c4 * x ^ 2) + 10 * c4 * e ^ 2.
Proof. exact hc1_quartic. Qed.
Print Assumptions C09_hesse_correct_diag_truncation.

Theorem C09_hesse_correct_mixed_exact_on_cubics : forall a0 a1 a2 a3 a4 a5 a6 a7 a8 a9 x y e, e <> 0 ->
  (forall s t : R, is_derive (fun u : R => cubic2 a0 a1 a2 a3 a4 a5 a6 a7 a8 a9 u t) s
                     (a1 + a3 * t + 2 * a4 * s + 2 * a6 * s * t + a7 * t ^ 2 + 3 * a8 * s ^ 2)) /\
  is_derive (fun t : R => a1 + a3 * t + 2 * a4 * x + 2 * a6 * x * t + a7 * t ^ 2 + 3 * a8 * x ^ 2) y
            (hc2 (cubic2 a0 a1 a2 a3 a4 a5 a6 a7 a8 a9) x y e).
Proof. exact hc2_cubic2_mixed_derivative. Qed.
Print Assumptions C09_hesse_correct_mixed_exact_on_cubics.

(* the list forms tied to the code are these stencils along the coordinates *)
Theorem C09_hesse_correct_list_forms : forall f xs e i j,
  hc_diag f xs e i = hc1 (fun t => f (upd xs i t)) (nth i xs 0) e /\
  hc_off f xs e i j = hc2 (fun s t => f (upd (upd xs i s) j t)) (nth i xs 0) (nth j xs 0) e.
Proof. intros; exact (conj (hc_diag_unfold f xs e i) (hc_off_unfold f xs e i j)). Qed.
Print Assumptions C09_hesse_correct_list_forms.

(* before the repair (gm built from nll_mp instead of nll_pm) the diagonal entry was f'' + 2 f'/(3e) + e f'''/9: not the
   second derivative wherever the gradient does not vanish exactly *)
Theorem C09_hesse_correct_old_diag_value : forall c0 c1 c2 c3 x e, e <> 0 ->
  hc1_old (cubic c0 c1 c2 c3) x e =
  (2 * c2 + 6 * c3 * x) + 2 * (c1 + 2 * c2 * x + 3 * c3 * x ^ 2) / (3 * e) + e * (6 * c3) / 9.
Proof. exact hc1_old_cubic. Qed.
Theorem C09_hesse_correct_old_diag_refuted :
  exists c0 c1 c2 c3 x e, e <> 0 /\ hc1_old (cubic c0 c1 c2 c3) x e <> 2 * c2 + 6 * c3 * x.
Proof. exact hc1_old_refuted. Qed.
Print Assumptions C09_hesse_correct_old_diag_refuted.

(* ---- ParamsTrans.get_error_matrix: entry (k,l) of J V J^T; its diagonal is what get_error (vector) reports ---- *)
Theorem C09_error_matrix_diagonal : forall J V k, (k < length J)%nat ->
  jvjt_kl J V k k = quad_form V (nth k J []) /\ nth k (err_prop_vec J V) 0 = sqrt (jvjt_kl J V k k).
Proof. intros J V k Hk; exact (conj (jvjt_diag J V k) (err_prop_vec_nth J V k Hk)). Qed.
Print Assumptions C09_error_matrix_diagonal.

(* ---- VarsManager.minimize / minimize_error before their repair: y' evaluated at y(x) instead of x; an inverse Hessian that is
   already in physical coordinates scaled by y' once more ---- *)
Theorem C09_minimize_old_dydx_at_y_refuted : bt_two_d 0 1 (bt_two 0 1 1) <> bt_two_d 0 1 1.
Proof. exact minimize_old_dydx_at_y_refuted. Qed.
Theorem C09_minimize_error_old_refuted :
  exists d V, nth 0 (hesse_error (trans_error_matrix d V)) 0 <> nth 0 (hesse_error V) 0.
Proof. exact minimize_error_old_refuted. Qed.
Print Assumptions C09_minimize_error_old_refuted.

(* ---- the rules before commits 3f1ea3b / 9f1dfe7 were NOT first order (findings F1, F2; kept for the record) ---- *)
Example C09_pow_before_fix_value : 2127 / 1000 < nerr (ne_pow_old (2, 1 / 10) (3, 2 / 10)) < 2129 / 1000.
Proof. exact pow_old_value. Qed.
Example C09_pow_first_order_value : 1633 / 1000 < nerr (ne_pow (2, 1 / 10) (3, 2 / 10)) < 1635 / 1000.
Proof. exact pow_new_value. Qed.
Example C09_pow_before_fix_refuted : ~ first_order2 rpw 2 3 (1 / 10) (2 / 10) (nerr (ne_pow_old (2, 1 / 10) (3, 2 / 10))).
Proof. exact pow_old_refuted. Qed.
Example C09_rpow_before_fix_refuted : ~ first_order1 (fun t => rpw 2 t) 3 (2 / 10) (nerr (ne_rpow_old 2 (3, 2 / 10))).
Proof. exact rpow_old_refuted. Qed.
Example C09_mul_const_before_fix_negative : nerr (ne_mul_c_old (1, 1 / 10) (-3)) < 0.
Proof. exact mul_c_old_negative. Qed.
Example C09_div_before_fix_negative : nerr (ne_div_old (1, 1 / 10) (-3, 2 / 10)) < 0.
Proof. exact div_old_negative. Qed.

(* ---- non-vacuity: the hypotheses of C09_hesse_from_inverse are satisfiable ---- *)
Example C09_example_pos_def : pos_def 2 exH /\ is_right_inverse 2 exH exV.
Proof. exact (conj exH_pos_def exHV_inverse). Qed.
Example C09_example_errors : 0 < exV 0%nat 0%nat /\ sqrt (Rabs (exV 0%nat 0%nat)) = sqrt (exV 0%nat 0%nat).
Proof. exact (hesse_from_inverse 2 exH exV 0%nat exH_pos_def exHV_inverse (Nat.lt_0_succ 1)). Qed.
