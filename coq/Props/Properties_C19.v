(* C19 — statements only.  Each closed by [exact] of a lemma from Comb/Config_proofs.v. *)
From Coq Require Import List Arith ZArith Bool Permutation.
From TFV Require Import Comb.LS Comb.Config Comb.Config_proofs.
Import ListNotations.
Open Scope Z_scope.

(* cross_combine (particle.py:20) is the ordered n-ary product with concatenation whenever no
   argument list is empty - which chain_decay guarantees ("if tmp:") *)
Theorem C19_cross_combine_product :
  forall (A : Type) (x : list (list (list A))),
    x <> [] -> Forall (fun l => l <> []) x -> cross_combine x = nprod x.
Proof. exact @cross_combine_product. Qed.
Print Assumptions C19_cross_combine_product.
Theorem C19_product_membership :
  forall (A : Type) (x : list (list (list A))) c,
    In c (nprod x) <-> exists picks, Forall2 (fun p l => In p l) picks x /\ c = concat picks.
Proof. exact @in_nprod. Qed.
Print Assumptions C19_product_membership.

(* Chain enumeration sound + complete (ALL decay tables D, all depths): when the declared decays
   below p have depth <= n, top.chain_decay() returns exactly the trees whose every vertex is a
   declared decay of its mother, rooted at p, a daughter being a leaf iff it has no declared decay *)
Theorem C19_chain_decay_sound_complete :
  forall D n p, bounded n D p ->
  forall c, In c (chain_decay (S n) D p) <-> is_chain (S n) D p c.
Proof. exact chain_decay_sound_complete. Qed.
Print Assumptions C19_chain_decay_sound_complete.

(* ... and only those with exactly the declared final state survive the filter *)
Theorem C19_chain_final_state :
  forall c ch, In ch (raw_chains c) ->
    zlist_eqb (zsort (chain_leaves (map fst ch))) (zsort (map fst (c_finals c))) = true.
Proof. exact raw_chain_final_state. Qed.
Print Assumptions C19_chain_final_state.

(* the cut is exact: a chain is in the loaded model iff it was enumerated and every one of its
   decays has a non-empty (l,s) list (Comb/LS.v: ls_list with the l_list / ls_list options);
   the load fails iff every enumerated chain has a decay without (l,s) *)
Theorem C19_cut_exact :
  forall c chs oc, load_chains c = Some chs ->
    (In oc chs <-> In oc (map (annotate (snd (particle_item c))) (raw_chains c))
                   /\ forall d, In d oc -> snd d <> []).
Proof. exact cut_exact. Qed.
Print Assumptions C19_cut_exact.
Theorem C19_load_fails_iff :
  forall c, load_chains c = None <->
    forall oc, In oc (map (annotate (snd (particle_item c))) (raw_chains c)) -> exists d, In d oc /\ snd d = [].
Proof. exact load_none_iff. Qed.
Print Assumptions C19_load_fails_iff.

(* aliases: Par/m0/g0 expanded to P/mass/width in every property dict give the same particle *)
Theorem C19_alias_equiv :
  forall (pr : pprop_t) n,
    pinfo_of (map (fun kv => (fst kv, expand_alias_props (snd kv))) pr) n = pinfo_of pr n.
Proof. exact alias_equiv. Qed.
Print Assumptions C19_alias_equiv.

(* candidate lists: a card over slots with candidate map m = the cards written out for every
   candidate combination with no map (same decays, same order, same options) *)
Theorem C19_candidate_list_equiv :
  forall m recs, all_decs [] (flat_map (explicit_recs m) recs) = all_decs m recs.
Proof. exact candidate_list_equiv. Qed.
Print Assumptions C19_candidate_list_equiv.

(* $include: new particles are appended; a particle defined in both is the included dict
   updated key by key with the main file's *)
Theorem C19_include_equiv_new :
  forall s d, (forall k, In k (map fst s) -> dget Z.eqb d k = None) -> NoDup (map fst s) ->
    do_include d s = d ++ s.
Proof. exact include_equiv_new. Qed.
Print Assumptions C19_include_equiv_new.
Theorem C19_include_equiv_override :
  forall d k dp sp, dget Z.eqb d k = Some (PVProps dp) ->
    do_include d [(k, PVProps sp)] = dset Z.eqb d k (PVProps (merge_props sp dp)).
Proof. exact include_equiv_override. Qed.
Print Assumptions C19_include_equiv_override.
(* includes and aliases together: for every canonical key (mass, width, P, ...) the value the entry
   already has (main file, earlier include) wins over the included file's, in any spelling *)
Theorem C19_include_main_wins :
  forall sp dp k,
    dget pkey_eqb (rename_params (merge_props sp dp)) k
    = match dget pkey_eqb (rename_params dp) k with
      | Some v => Some v
      | None => dget pkey_eqb (rename_params sp) k
      end.
Proof. exact include_main_wins. Qed.
Print Assumptions C19_include_main_wins.
(* the merge as it was before the repair of _do_include_dict (`s[i].update(d[i])`, model
   do_include_old) kept the key positions of the included dict, so that a later include's spelling
   decided which of m0 / mass is renamed last: main `mass: 4` loses against an included `m0: 3` *)
Theorem C19_include_old_override :
  forall d k dp sp, dget Z.eqb d k = Some (PVProps dp) ->
    do_include_old d [(k, PVProps sp)] = dset Z.eqb d k (PVProps (dupdate pkey_eqb sp dp)).
Proof. exact include_old_override. Qed.
Print Assumptions C19_include_old_override.
Theorem C19_include_old_alias_refuted :
  exists sp dp k v,
    dget pkey_eqb (rename_params dp) k = Some v /\
    dget pkey_eqb (rename_params (dupdate pkey_eqb sp dp)) k <> Some v.
Proof. exact include_old_alias_refuted. Qed.
Print Assumptions C19_include_old_alias_refuted.

(* the cut removes a chain completely: the decay list of a particle of the loaded model (the state
   Particle.get_amp reads its running-width L from) holds exactly the decays of the kept chains *)
Theorem C19_cut_decay_lists :
  forall chs p d,
    In d (decays_of_particle chs p) <-> fst d = p /\ exists oc, In oc chs /\ In d (chain_struct oc).
Proof. exact cut_decay_lists. Qed.
Print Assumptions C19_cut_decay_lists.
(* decay_cut before the repair took only the decay without (l,s) out of its mother's list
   (model decay_table_old): X1 -> K2 D stays although K2 -> B C is forbidden and no chain uses it *)
Theorem C19_cut_old_phantom_refuted :
  exists chs d, load_chains phantom_config = Some chs /\ In d (decay_table_old phantom_config)
                /\ in_some_chain chs d = false.
Proof. exact cut_old_phantom. Qed.
Print Assumptions C19_cut_old_phantom_refuted.

(* Not proved (kept visible): the set of loaded chains does not depend on the key order of the
   decay and particle sections.  It is checked on the implementation for every generated
   configuration (permuted copy loaded, chain sets compared), and it is FALSE in the
   implementation for two corners excluded from the grammar: a slot declared `[]` and also
   extended through a nested map inside another candidate list; and the same decay (same mother
   candidate, same daughters) declared under two slot keys with different options or daughter
   order (options of the last key, daughter order of the first: open finding, fixed reproducer in
   harness/props/c19.py). *)
Definition C19_key_order_irrelevant_general : Prop :=
  forall c c' : config,
    Permutation (c_decay c) (c_decay c') -> Permutation (c_particle c) (c_particle c') ->
    c_top c = c_top c' -> c_top_props c = c_top_props c' -> c_finals c = c_finals c' -> c_includes c = c_includes c' ->
    NoDup (map fst (c_decay c)) -> NoDup (map fst (c_particle c)) ->
    match load_chains c, load_chains c' with
    | Some a, Some b => Permutation a b
    | None, None => True
    | _, _ => False
    end.

(* non-vacuity *)
Example C19_example_loads :
  load_chains example_config = Some [[((1, 0), [(5, 0); (4, 0)], [(0, 0)]); ((5, 0), [(2, 0); (3, 0)], [(0, 0)])]].
Proof. exact example_config_loads. Qed.
Example C19_example_cut : load_chains example_config_forbidden = None.
Proof. exact example_config_forbidden_cut. Qed.
