(* C15 — statements only. *)
From Coq Require Import Lra.
From Coq Require Import Reals List ZArith.
From TFV Require Import Shape.LineShapes Shape.LineShapes_proofs.
Import ListNotations.
Open Scope R_scope.

(* the hard-coded Blatt-Weisskopf table is |theta_L(i w)|^2 (reverse Bessel), L = 0..8 *)
Theorem C15_table_is_bessel : forall L, (L <= 8)%nat -> bprime_table L = bessel_coeff L.
Proof. exact table_is_bessel. Qed.
Print Assumptions C15_table_is_bessel.

Theorem C15_bprime_at_q0 : forall L q0 d, (L <= 8)%nat -> Bprime L q0 q0 d = 1.
Proof. exact bprime_at_q0. Qed.
Print Assumptions C15_bprime_at_q0.

(* q^2-based variant agrees with the q-based one (for every real q, in particular above threshold) *)
Theorem C15_bprime_q2_agrees : forall L q q0 d, (L <= 8)%nat -> Bprime_q2 L (q ^ 2) (q0 ^ 2) d = Bprime L q q0 d.
Proof. exact bprime_q2_agrees. Qed.
Print Assumptions C15_bprime_q2_agrees.

(* ... and stays a finite positive real for every q2, including below threshold (q2 < 0) *)
Theorem C15_bprime_q2_real_pos : forall L q2 q02 d, 0 < Bprime_q2 L q2 q02 d.
Proof. exact bprime_q2_real_pos. Qed.
Print Assumptions C15_bprime_q2_real_pos.

Theorem C15_gamma_at_m0 : forall g0 q0 L m0 d, (L <= 8)%nat -> q0 <> 0 -> m0 <> 0 -> Gamma m0 g0 q0 q0 L m0 d = g0.
Proof. exact gamma_at_m0. Qed.
Print Assumptions C15_gamma_at_m0.

Theorem C15_bw_at_pole : forall m0 g0, m0 <> 0 -> g0 <> 0 -> BW m0 m0 g0 = (0, 1 / (m0 * g0)).
Proof. exact bw_at_pole. Qed.
Print Assumptions C15_bw_at_pole.

Theorem C15_bw_im_pos : forall m m0 g0, 0 < m0 -> 0 < g0 -> 0 < snd (BW m m0 g0).
Proof. exact bw_im_pos. Qed.
Print Assumptions C15_bw_im_pos.

Theorem C15_bwr_at_pole : forall m0 g0 q0 L d,
  (L <= 8)%nat -> m0 <> 0 -> g0 <> 0 -> q0 <> 0 -> BWR m0 m0 g0 q0 q0 L d = (0, 1 / (m0 * g0)).
Proof. exact bwr_at_pole. Qed.
Print Assumptions C15_bwr_at_pole.

Theorem C15_bwr_im_pos : forall m m0 g0 q q0 L d,
  (L <= 8)%nat -> 0 < g0 -> 0 < q -> 0 < q0 -> 0 < m -> 0 < m0 -> 0 < snd (BWR m m0 g0 q q0 L d).
Proof. exact bwr_im_pos. Qed.
Print Assumptions C15_bwr_im_pos.

(* BWR2 (hence BWR_below) is the same function as BWR above threshold: inherits pole value and Im > 0 *)
Theorem C15_bwr2_above : forall m m0 g0 q q0 L d,
  (L <= 8)%nat -> 0 < q -> 0 < q0 -> BWR2 m m0 g0 (q ^ 2) (q0 ^ 2) L d = BWR m m0 g0 q q0 L d.
Proof. exact bwr2_above. Qed.
Print Assumptions C15_bwr2_above.

(* numeric line shape x symbolic denominator (x - i y) = 1 *)
Theorem C15_dom_is_reciprocal : forall x y, x * x + y * y <> 0 -> Cmul (bw_xy x y) (x, - y) = (1, 0).
Proof. exact bw_xy_reciprocal. Qed.
Print Assumptions C15_dom_is_reciprocal.

Theorem C15_flatte_sign : forall sign m m0 ma mb g,
  0 < (m * m - (ma + mb) * (ma + mb)) * (m * m - (ma - mb) * (ma - mb)) / 4 / (m * m) ->
  let p := sqrt (Rabs ((m * m - (ma + mb) * (ma + mb)) * (m * m - (ma - mb) * (ma - mb)) / 4 / (m * m))) in
  let re := m0 * m0 - m * m in
  let im := sign * (p * (g * (m0 / m))) in
  Flatte sign m m0 [(ma, mb, g)] = (re / (re * re + im * im), - im / (re * re + im * im)).
Proof. exact flatte_one_channel_above. Qed.
Print Assumptions C15_flatte_sign.

(* non-vacuity *)
Example C15_example : 0 < snd (BW 1 (3/2) (1/10)).
Proof. apply bw_im_pos; lra. Qed.

(* BWR_LS: the partial-width fractions (cos t0, sin t0 cos t1, ..., prod sin) are normalised for ANY number of couplings *)
Theorem C15_bwr_ls_fractions_normalised : forall thetas, sumsq (gamma_factors thetas) = 1.
Proof. exact gamma_factors_normalised. Qed.
Print Assumptions C15_bwr_ls_fractions_normalised.
(* ... and its numeric line shape times the (symbolic) denominator is the partial-width factor *)
Theorem C15_bwr_ls_dom_reciprocal : forall doc m m0 g0 q2 q02 ls thetas d i,
  let den := BWR_LS_den doc m m0 g0 q2 q02 ls thetas d in
  fst den * fst den + snd den * snd den <> 0 ->
  Cmul (BWR_LS doc m m0 g0 q2 q02 ls thetas d i) den = (nth i (ls_widths ls thetas q2 q02 d) 0, 0).
Proof. exact bwr_ls_dom_reciprocal. Qed.
Print Assumptions C15_bwr_ls_dom_reciprocal.
(* the code's default (fix_bug1=False) is NOT the documented width factor: witness (open finding F6) *)
Theorem C15_bwr_ls_default_matches_doc_refuted :
  snd (BWR_LS_den false 2 1 1 1 1 [0%nat] [] 3) < snd (BWR_LS_den true 2 1 1 1 1 [0%nat] [] 3).
Proof. exact bwr_ls_default_differs_from_doc. Qed.
Print Assumptions C15_bwr_ls_default_matches_doc_refuted.
