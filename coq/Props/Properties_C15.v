(* C15 — statements only. *)
From Coq Require Import Lra.
From Coq Require Import Reals List ZArith.
From TFV Require Import Shape.LineShapes Shape.LineShapes_proofs.
Import ListNotations.
Open Scope R_scope.

(* the hard-coded Blatt-Weisskopf table is |theta_L(i w)|^2 (reverse Bessel), L = 0..8 *)
Theorem C15_table_is_bessel : forall L, (L <= 8)%nat -> bprime_table L = bessel_coeff L.
Proof. exact table_is_bessel. Qed.
Print Assumptions C15_table_is_bessel.

Theorem C15_bprime_at_q0 : forall L q0 d, (L <= 8)%nat -> Bprime L q0 q0 d = 1.
Proof. exact bprime_at_q0. Qed.
Print Assumptions C15_bprime_at_q0.

(* q^2-based variant agrees with the q-based one (for every real q, in particular above threshold) *)
Theorem C15_bprime_q2_agrees : forall L q q0 d, (L <= 8)%nat -> Bprime_q2 L (q ^ 2) (q0 ^ 2) d = Bprime L q q0 d.
Proof. exact bprime_q2_agrees. Qed.
Print Assumptions C15_bprime_q2_agrees.

(* ... and stays a finite positive real for every q2, including below threshold (q2 < 0) *)
Theorem C15_bprime_q2_real_pos : forall L q2 q02 d, 0 < Bprime_q2 L q2 q02 d.
Proof. exact bprime_q2_real_pos. Qed.
Print Assumptions C15_bprime_q2_real_pos.

Theorem C15_gamma_at_m0 : forall g0 q0 L m0 d, (L <= 8)%nat -> q0 <> 0 -> m0 <> 0 -> Gamma m0 g0 q0 q0 L m0 d = g0.
Proof. exact gamma_at_m0. Qed.
Print Assumptions C15_gamma_at_m0.

Theorem C15_bw_at_pole : forall m0 g0, m0 <> 0 -> g0 <> 0 -> BW m0 m0 g0 = (0, 1 / (m0 * g0)).
Proof. exact bw_at_pole. Qed.
Print Assumptions C15_bw_at_pole.

Theorem C15_bw_im_pos : forall m m0 g0, 0 < m0 -> 0 < g0 -> 0 < snd (BW m m0 g0).
Proof. exact bw_im_pos. Qed.
Print Assumptions C15_bw_im_pos.

Theorem C15_bwr_at_pole : forall m0 g0 q0 L d,
  (L <= 8)%nat -> m0 <> 0 -> g0 <> 0 -> q0 <> 0 -> BWR m0 m0 g0 q0 q0 L d = (0, 1 / (m0 * g0)).
Proof. exact bwr_at_pole. Qed.
Print Assumptions C15_bwr_at_pole.

Theorem C15_bwr_im_pos : forall m m0 g0 q q0 L d,
  (L <= 8)%nat -> 0 < g0 -> 0 < q -> 0 < q0 -> 0 < m -> 0 < m0 -> 0 < snd (BWR m m0 g0 q q0 L d).
Proof. exact bwr_im_pos. Qed.
Print Assumptions C15_bwr_im_pos.

(* BWR2 (hence BWR_below) is the same function as BWR above threshold: inherits pole value and Im > 0 *)
Theorem C15_bwr2_above : forall m m0 g0 q q0 L d,
  (L <= 8)%nat -> 0 < q -> 0 < q0 -> BWR2 m m0 g0 (q ^ 2) (q0 ^ 2) L d = BWR m m0 g0 q q0 L d.
Proof. exact bwr2_above. Qed.
Print Assumptions C15_bwr2_above.

(* numeric line shape x symbolic denominator (x - i y) = 1 *)
Theorem C15_dom_is_reciprocal : forall x y, x * x + y * y <> 0 -> Cmul (bw_xy x y) (x, - y) = (1, 0).
Proof. exact bw_xy_reciprocal. Qed.
Print Assumptions C15_dom_is_reciprocal.

Theorem C15_flatte_sign : forall sign m m0 ma mb g,
  0 < (m * m - (ma + mb) * (ma + mb)) * (m * m - (ma - mb) * (ma - mb)) / 4 / (m * m) ->
  let p := sqrt (Rabs ((m * m - (ma + mb) * (ma + mb)) * (m * m - (ma - mb) * (ma - mb)) / 4 / (m * m))) in
  let re := m0 * m0 - m * m in
  let im := sign * (p * (g * (m0 / m))) in
  Flatte sign m m0 [(ma, mb, g)] = (re / (re * re + im * im), - im / (re * re + im * im)).
Proof. exact flatte_one_channel_above. Qed.
Print Assumptions C15_flatte_sign.

(* non-vacuity *)
Example C15_example : 0 < snd (BW 1 (3/2) (1/10)).
Proof. apply bw_im_pos; lra. Qed.

(* BWR_LS: the partial-width fractions (cos t0, sin t0 cos t1, ..., prod sin) are normalised for ANY number of couplings *)
Theorem C15_bwr_ls_fractions_normalised : forall thetas, sumsq (gamma_factors thetas) = 1.
Proof. exact gamma_factors_normalised. Qed.
Print Assumptions C15_bwr_ls_fractions_normalised.
(* ... and its numeric line shape times the (symbolic) denominator is the partial-width factor *)
Theorem C15_bwr_ls_dom_reciprocal : forall doc m m0 g0 q2 q02 ls thetas d i,
  let den := BWR_LS_den doc m m0 g0 q2 q02 ls thetas d in
  fst den * fst den + snd den * snd den <> 0 ->
  Cmul (BWR_LS doc m m0 g0 q2 q02 ls thetas d i) den = (nth i (ls_widths ls thetas q2 q02 d) 0, 0).
Proof. exact bwr_ls_dom_reciprocal. Qed.
Print Assumptions C15_bwr_ls_dom_reciprocal.
(* the code's default (fix_bug1=False) is NOT the documented width factor: witness (open finding F6) *)
Theorem C15_bwr_ls_default_matches_doc_refuted :
  snd (BWR_LS_den false 2 1 1 1 1 [0%nat] [] 3) < snd (BWR_LS_den true 2 1 1 1 1 [0%nat] [] 3).
Proof. exact bwr_ls_default_differs_from_doc. Qed.
Print Assumptions C15_bwr_ls_default_matches_doc_refuted.

(* ======== BWR_LS2, MultiBWR, MultiBW (models: Shape/LineShapes2.v) ======== *)
From Coq Require Import Lra ZArith.
From TFV Require Import Shape.LineShapes2 Shape.LineShapes2_proofs.
(* ---- BWR_LS2 ---- *)
(* the code (BWR2 with the coupling's own l) is the documented 1/(m0^2-m^2-i m0 G0 (rho/rho0) g_i^2), gamma_i = 1,
   above threshold, for every coupling i *)
Theorem C15_bwr_ls2_documented : forall m m0 g0 q q0 ls d i,
  (nth i ls 0 <= 8)%nat -> 0 < q -> 0 < q0 ->
  BWR_LS2 m m0 g0 (q ^ 2) (q0 ^ 2) ls d i = BWR_LS2_doc m m0 g0 q q0 1 (nth i ls 0%nat) d.
Proof. exact bwr_ls2_documented. Qed.
Print Assumptions C15_bwr_ls2_documented.

(* the gamma_i of the docstring (absent from the code) is a rescaling of Gamma0 *)
Theorem C15_bwr_ls2_doc_gamma_redundant : forall m m0 g0 q q0 gamma l d,
  BWR_LS2_doc m m0 g0 q q0 gamma l d = BWR_LS2_doc m m0 (g0 * gamma ^ 2) q q0 1 l d.
Proof. exact bwr_ls2_doc_gamma_redundant. Qed.
Print Assumptions C15_bwr_ls2_doc_gamma_redundant.

(* every coupling is the BWR of LineShapes.v with its own l *)
Theorem C15_bwr_ls2_is_bwr : forall m m0 g0 q q0 ls d i,
  (nth i ls 0 <= 8)%nat -> 0 < q -> 0 < q0 ->
  BWR_LS2 m m0 g0 (q ^ 2) (q0 ^ 2) ls d i = BWR m m0 g0 q q0 (nth i ls 0%nat) d.
Proof. exact bwr_ls2_is_bwr. Qed.
Print Assumptions C15_bwr_ls2_is_bwr.

Theorem C15_bwr_ls2_im_pos : forall m m0 g0 q q0 ls d i,
  (nth i ls 0 <= 8)%nat -> 0 < g0 -> 0 < q -> 0 < q0 -> 0 < m -> 0 < m0 ->
  0 < snd (BWR_LS2 m m0 g0 (q ^ 2) (q0 ^ 2) ls d i).
Proof. exact bwr_ls2_im_pos. Qed.
Print Assumptions C15_bwr_ls2_im_pos.

(* Gamma(m0) = Gamma0 in the q^2 variables the model uses *)
Theorem C15_gamma2_at_m0 : forall g0 q02 L m0 d,
  (L <= 8)%nat -> 0 < q02 -> m0 <> 0 -> Gamma2 m0 g0 q02 q02 L m0 d = (g0, 0).
Proof. exact gamma2_at_m0. Qed.
Print Assumptions C15_gamma2_at_m0.

(* value at m = m0: i / (m0 Gamma0), for every coupling *)
Theorem C15_bwr_ls2_at_pole : forall m0 g0 q02 ls d i,
  (nth i ls 0 <= 8)%nat -> 0 < q02 -> m0 <> 0 -> g0 <> 0 ->
  BWR_LS2 m0 m0 g0 q02 q02 ls d i = (0, 1 / (m0 * g0)).
Proof. exact bwr_ls2_at_pole. Qed.
Print Assumptions C15_bwr_ls2_at_pole.

(* connection with BWR_LS (documented form): one coupling => R_0 = g_0 x BWR_LS2 *)
Theorem C15_bwr_ls_single_is_ls2 : forall m m0 g0 q2 q02 l d,
  (l <= 8)%nat -> 0 < q2 -> 0 < q02 ->
  BWR_LS true m m0 g0 q2 q02 [l] [] d 0 = Cscal (ls_barrier l q2 q02 d) (BWR_LS2 m m0 g0 q2 q02 [l] d 0).
Proof. exact bwr_ls_single_is_ls2. Qed.
Print Assumptions C15_bwr_ls_single_is_ls2.

(* Particle.__call__(m) of BWR_LS2 is the S-wave coupling whatever the decay's l list is ... *)
Theorem C15_bwr_ls2_call_is_swave : forall m m0 g0 q2 q02 d, BWR_LS2_call m m0 g0 q2 q02 d = BWR2 m m0 g0 q2 q02 0 d.
Proof. exact bwr_ls2_call_is_swave. Qed.
Print Assumptions C15_bwr_ls2_call_is_swave.
(* ... hence not the line shape of a P-wave-only resonance (observation, witness) *)
Theorem C15_bwr_ls2_call_uses_own_l_refuted :
  snd (BWR_LS2_call 2 1 1 4 1 3) < snd (BWR_LS2 2 1 1 4 1 [1%nat] 3 0).
Proof. exact bwr_ls2_call_not_own_l. Qed.
Print Assumptions C15_bwr_ls2_call_uses_own_l_refuted.

(* ---- MultiBWR: weighted sum of BWR2 terms times the coupling's barrier factor ---- *)
Theorem C15_multibwr_additive : forall m q2 q02 ls d res ca cb,
  length ca = length cb ->
  MultiBWR m q2 q02 ls d res [coeff_add ca cb] 0 =
  Cadd (MultiBWR m q2 q02 ls d res [ca] 0) (MultiBWR m q2 q02 ls d res [cb] 0).
Proof. exact multibwr_additive. Qed.
Print Assumptions C15_multibwr_additive.

Theorem C15_multibwr_homogeneous : forall m q2 q02 ls d res k ca,
  MultiBWR m q2 q02 ls d res [map (Cmul k) ca] 0 = Cmul k (MultiBWR m q2 q02 ls d res [ca] 0).
Proof. exact multibwr_homogeneous. Qed.
Print Assumptions C15_multibwr_homogeneous.

Theorem C15_multibwr_two_terms : forall m q2 q02 ls d m0a g0a m0b g0b ca cb,
  MultiBWR m q2 q02 ls d [(m0a, g0a); (m0b, g0b)] [[ca; cb]] 0 =
  Cscal (ls_barrier (nth 0 ls 0%nat) q2 q02 d)
        (Cadd (Cmul (BWR2 m m0a g0a q2 q02 (lmin ls) d) ca) (Cmul (BWR2 m m0b g0b q2 q02 (lmin ls) d) cb)).
Proof. exact multibwr_two_terms. Qed.
Print Assumptions C15_multibwr_two_terms.

(* one sub-resonance with coefficient 1: barrier factor x BWR2 (min l) *)
Theorem C15_multibwr_single : forall m q2 q02 ls d m0 g0 (coeff : list (list C)) i,
  nth i coeff [] = [(1, 0)] ->
  MultiBWR m q2 q02 ls d [(m0, g0)] coeff i =
  Cscal (ls_barrier (nth i ls 0%nat) q2 q02 d) (BWR2 m m0 g0 q2 q02 (lmin ls) d).
Proof. exact multibwr_single. Qed.
Print Assumptions C15_multibwr_single.

(* ... which for an S wave is exactly BWR *)
Theorem C15_multibwr_single_swave_is_bwr : forall m q q0 d m0 g0,
  0 < q -> 0 < q0 ->
  MultiBWR m (q ^ 2) (q0 ^ 2) [0%nat] d [(m0, g0)] [[(1, 0)]] 0 = BWR m m0 g0 q q0 0 d.
Proof. exact multibwr_single_swave_is_bwr. Qed.
Print Assumptions C15_multibwr_single_swave_is_bwr.

Theorem C15_multibwr_single_im_pos : forall m q q0 ls d m0 g0 (coeff : list (list C)) i,
  nth i coeff [] = [(1, 0)] -> (lmin ls <= 8)%nat ->
  0 < g0 -> 0 < q -> 0 < q0 -> 0 < m -> 0 < m0 ->
  0 < snd (MultiBWR m (q ^ 2) (q0 ^ 2) ls d [(m0, g0)] coeff i).
Proof. exact multibwr_single_im_pos. Qed.
Print Assumptions C15_multibwr_single_im_pos.

(* pole value i/(m0 Gamma0) holds when q02 is the break-up momentum at THAT sub-resonance's mass ... *)
Theorem C15_multibwr_single_at_pole : forall q02 d m0 g0,
  0 < q02 -> m0 <> 0 -> g0 <> 0 ->
  MultiBWR m0 q02 q02 [0%nat] d [(m0, g0)] [[(1, 0)]] 0 = (0, 1 / (m0 * g0)).
Proof. exact multibwr_single_at_pole. Qed.
Print Assumptions C15_multibwr_single_at_pole.

(* ... but the code BEFORE /repo adcce89 used ONE q02 for all sub-resonances (model multi_doms): a second sub-resonance at
   its own mass was not i/(m0 Gamma0) (its Gamma(m0_j) <> Gamma0_j).  Kept as the record of the old behaviour; the repaired
   code is multi_doms_own / MultiBWR_own below (C15_multibwr_member_at_own_pole). *)
Theorem C15_multibwr_sub_resonance_pole_refuted :
  exists m00 g00 m01 g01 ma mb d,
    0 < g01 /\ ma + mb < m00 /\ ma + mb < m01 /\
    nth 1 (multi_doms m01 (get_relative_p2 m01 ma mb) (get_relative_p2 m00 ma mb) 0 d [(m00, g00); (m01, g01)]) (0, 0)
    <> (0, 1 / (m01 * g01)).
Proof. exact multibwr_sub_resonance_pole_refuted. Qed.
Print Assumptions C15_multibwr_sub_resonance_pole_refuted.

(* ---- MultiBW: documented "combine multi BW".  Before /repo fix 4a6337b the code never called its dom_fun and evaluated
   MultiBWR: the OLD code model differs from the documented one (witness); the current code is tied to MultiBW_doc ---- *)
Theorem C15_multibw_is_combination_of_bw_refuted :
  exists m q2 q02 d m0 g0,
    0 < q2 /\ 0 < q02 /\ 0 < g0 /\
    MultiBW_code m q2 q02 [0%nat] d [(m0, g0)] [[(1, 0)]] 0 <> MultiBW_doc m q2 q02 [0%nat] d [(m0, g0)] [[(1, 0)]] 0.
Proof. exact multibw_is_combination_of_bw_refuted. Qed.
Print Assumptions C15_multibw_is_combination_of_bw_refuted.
(* the documented model does reduce to BW *)
Theorem C15_multibw_doc_single_is_bw : forall m q2 q02 d m0 g0,
  MultiBW_doc m q2 q02 [0%nat] d [(m0, g0)] [[(1, 0)]] 0 = BW m m0 g0.
Proof. exact multibw_doc_single_is_bw. Qed.
Print Assumptions C15_multibw_doc_single_is_bw.

(* non-vacuity *)
Example C15b_example : 0 < snd (BWR_LS2 1 (3 / 2) (1 / 10) ((1 / 2) ^ 2) ((3 / 4) ^ 2) [0%nat; 2%nat] 3 1).
Proof. apply bwr_ls2_im_pos; cbn; try lra; auto with arith. Qed.

(* ====================================================================================================
   Hunt round 2: statements about the code AFTER the repairs of patches 1, 3, 5, 8 (build/fix2_C15);
   the behaviour before each repair is kept as a ..._refuted statement.
   ==================================================================================================== *)

(* MultiBWR (patch 3): EVERY member, at its own mass, equals i/(m0_k Gamma0_k) (so Gamma_k(m0_k) = Gamma0_k); the old
   common-q0 behaviour is C15_multibwr_sub_resonance_pole_refuted above *)
Theorem C15_multibwr_member_at_own_pole : forall m1 m2 l d res k m0 g0,
  nth_error res k = Some (m0, g0) ->
  (l <= 8)%nat -> 0 < get_relative_p2 m0 m1 m2 -> m0 <> 0 -> g0 <> 0 ->
  nth k (multi_doms_own m0 (get_relative_p2 m0 m1 m2) m1 m2 l d res) (0, 0) = (0, 1 / (m0 * g0)).
Proof. exact multibwr_member_at_own_pole. Qed.
Print Assumptions C15_multibwr_member_at_own_pole.

(* ... and is the documented BWR of its own (m0_k, Gamma0_k, q0_k) above threshold *)
Theorem C15_multibwr_member_is_bwr : forall m q m1 m2 l d res k m0 g0 q0,
  nth_error res k = Some (m0, g0) ->
  (l <= 8)%nat -> 0 < q -> 0 < q0 -> get_relative_p2 m0 m1 m2 = q0 ^ 2 ->
  nth k (multi_doms_own m (q ^ 2) m1 m2 l d res) (0, 0) = BWR m m0 g0 q q0 l d.
Proof. exact multibwr_member_is_bwr. Qed.
Print Assumptions C15_multibwr_member_is_bwr.

Theorem C15_multibwr_own_single_swave_is_bwr : forall m q q0 m1 m2 d m0 g0,
  0 < q -> 0 < q0 -> get_relative_p2 (multi_ref_mass [(m0, g0)]) m1 m2 = q0 ^ 2 ->
  MultiBWR_own m (q ^ 2) (get_relative_p2 (multi_ref_mass [(m0, g0)]) m1 m2) m1 m2 [0%nat] d [(m0, g0)] [[(1, 0)]] 0 = BWR m m0 g0 q q0 0 d.
Proof. exact multibwr_own_single_swave_is_bwr. Qed.
Print Assumptions C15_multibwr_own_single_swave_is_bwr.

Theorem C15_multibwr_own_additive : forall m q2 q02 m1 m2 ls d res ca cb,
  length ca = length cb ->
  MultiBWR_own m q2 q02 m1 m2 ls d res [coeff_add ca cb] 0 =
  Cadd (MultiBWR_own m q2 q02 m1 m2 ls d res [ca] 0) (MultiBWR_own m q2 q02 m1 m2 ls d res [cb] 0).
Proof. exact multibwr_own_additive. Qed.
Print Assumptions C15_multibwr_own_additive.

Theorem C15_multibwr_own_homogeneous : forall m q2 q02 m1 m2 ls d res k ca,
  MultiBWR_own m q2 q02 m1 m2 ls d res [map (Cmul k) ca] 0 = Cmul k (MultiBWR_own m q2 q02 m1 m2 ls d res [ca] 0).
Proof. exact multibwr_own_homogeneous. Qed.
Print Assumptions C15_multibwr_own_homogeneous.

(* LS-decay (patch 8): the option has_barrier_factor cannot remove the resonance line shape; before the repair it did *)
Theorem C15_ls_decay_keeps_line_shape : forall b g R, ls_decay_amp_opt b g R = Cmul g R.
Proof. exact ls_decay_amp_opt_keeps_line_shape. Qed.
Print Assumptions C15_ls_decay_keeps_line_shape.
Theorem C15_ls_decay_old_keeps_line_shape_refuted : exists g R, ls_decay_amp_opt_old false g R <> Cmul g R.
Proof. exact ls_decay_amp_opt_old_keeps_line_shape_refuted. Qed.
Print Assumptions C15_ls_decay_old_keeps_line_shape_refuted.

(* Particle.__call__ (patch 5): the q^2 handed to BWR2 / BWR_normal / BWR_coupling is the unclamped one of the amplitude;
   above threshold nothing changes, below it the old clamped value differed (and made BWR2 NaN through q0^2 = 0) *)
Theorem C15_call_q2_old_above : forall m m1 m2, 0 < m -> m1 + m2 <= m -> 0 <= m1 -> 0 <= m2 -> call_q2_old m m1 m2 = call_q2 m m1 m2.
Proof. exact call_q2_old_above. Qed.
Print Assumptions C15_call_q2_old_above.
Theorem C15_call_q2_old_below_refuted : exists m0 m1 m2, 0 < m0 < m1 + m2 /\ call_q2_old m0 m1 m2 <> call_q2 m0 m1 m2.
Proof. exact call_q2_old_below_refuted. Qed.
Print Assumptions C15_call_q2_old_below_refuted.
(* m0 below threshold, m above: the q^2-based Breit-Wigner is finite and real *)
Theorem C15_bwr2_m0_below_is_real : forall m m0 g0 q2 q02 L d, q2 / q02 < 0 -> snd (BWR2 m m0 g0 q2 q02 L d) = 0.
Proof. exact bwr2_m0_below_is_real. Qed.
Print Assumptions C15_bwr2_m0_below_is_real.

(* symbolic denominator (patch 1): with the SAME barrier radius it is the reciprocal; with the radius frozen at 3 it is not *)
Theorem C15_bwr_dom_reciprocal : forall m m0 g0 q q0 L d,
  (m0 * m0 - m * m) * (m0 * m0 - m * m) + (m0 * Gamma m g0 q q0 L m0 d) * (m0 * Gamma m g0 q q0 L m0 d) <> 0 ->
  Cmul (BWR m m0 g0 q q0 L d) (BWR_dom m m0 g0 q q0 L d) = (1, 0).
Proof. exact bwr_dom_reciprocal. Qed.
Print Assumptions C15_bwr_dom_reciprocal.
Theorem C15_bwr_dom_ignoring_d_refuted :
  exists m m0 g0 q q0 L d, 0 < g0 /\ 0 < q /\ 0 < q0 /\
    Cmul (BWR m m0 g0 q q0 L d) (BWR_dom m m0 g0 q q0 L 3) <> (1, 0).
Proof. exact bwr_dom_ignoring_d_refuted. Qed.
Print Assumptions C15_bwr_dom_ignoring_d_refuted.
