(* C13 — statements only.  Each closed by [exact] of a lemma from the proof files. *)
From Coq Require Import ZArith List Bool.
From TFV Require Import Comb.LS Comb.LS_proofs.
Import ListNotations.
Open Scope Z_scope.

(* Sound + complete for ALL spins (unbounded): the offered pairs are exactly those
   allowed by the two triangle rules in unit steps, parity and C-parity. *)
Theorem C13_ls_sound_complete :
  forall ja2 jb2 jc2 pa pb pc p_break ca l s2,
    In (l, s2) (ls_list ja2 jb2 jc2 pa pb pc p_break ca) <->
    ls_rule ja2 jb2 jc2 (eff_break pa pb pc p_break) (eff_dl pa pb pc) ca l s2.
Proof. intros. exact (ls_core_sound_complete _ _ _ _ _ _ _ _). Qed.
Print Assumptions C13_ls_sound_complete.

(* each listed once *)
Theorem C13_ls_nodup :
  forall ja2 jb2 jc2 pa pb pc p_break ca, NoDup (ls_list ja2 jb2 jc2 pa pb pc p_break ca).
Proof. intros. exact (ls_core_nodup _ _ _ _ _ _). Qed.
Print Assumptions C13_ls_nodup.

(* user restrictions select exactly the listed l / (l,s) among the allowed ones *)
Theorem C13_restrict_l : forall ls allowed p, In p (restrict_l ls allowed) <-> In p ls /\ In (fst p) allowed.
Proof. exact restrict_l_subset. Qed.
Print Assumptions C13_restrict_l.

(* number of couplings = number of independent helicity amplitudes; finite bound 2j <= 8
   (the property's own quantifier), parity conserving (both signs) and violating *)
Theorem C13_count_eq_helicity_le8 : forall t, In t triples8 -> count_ok t = true.
Proof. exact (proj1 (forallb_forall count_ok triples8) count_all_le8). Qed.
Print Assumptions C13_count_eq_helicity_le8.

(* non-vacuity: 1- -> 1- 0- has the single P-wave; 1/2+ -> 1/2+ 0- parity violating has S and P *)
Example C13_example_1 : ls_list 2 2 0 (Some (-1)) (Some (-1)) (Some (-1)) false None = [(1, 2)].
Proof. vm_compute. reflexivity. Qed.
Example C13_example_2 : ls_list 1 1 0 None None None false None = [(0, 1); (1, 1)].
Proof. vm_compute. reflexivity. Qed.
