(* C13 — statements only.  Each closed by [exact] of a lemma from the proof files. *)
From Coq Require Import ZArith List Bool Reals Permutation.
From TFV Require Import Comb.LS Comb.LS_proofs Comb.LSRank Comb.LSRank_proofs Comb.LSRank_final.
Import ListNotations.
Open Scope Z_scope.

(* Sound + complete for ALL spins (unbounded): the offered pairs are exactly those
   allowed by the two triangle rules in unit steps, parity and C-parity. *)
Theorem C13_ls_sound_complete :
  forall ja2 jb2 jc2 pa pb pc p_break ca l s2,
    In (l, s2) (ls_list ja2 jb2 jc2 pa pb pc p_break ca) <->
    ls_rule ja2 jb2 jc2 (eff_break pa pb pc p_break) (eff_dl pa pb pc) ca l s2.
Proof. intros. exact (ls_core_sound_complete _ _ _ _ _ _ _ _). Qed.
Print Assumptions C13_ls_sound_complete.

(* each listed once *)
Theorem C13_ls_nodup :
  forall ja2 jb2 jc2 pa pb pc p_break ca, NoDup (ls_list ja2 jb2 jc2 pa pb pc p_break ca).
Proof. intros. exact (ls_core_nodup _ _ _ _ _ _). Qed.
Print Assumptions C13_ls_nodup.

(* user restrictions select exactly the listed l / (l,s) among the allowed ones *)
Theorem C13_restrict_l : forall ls allowed p, In p (restrict_l ls allowed) <-> In p ls /\ In (fst p) allowed.
Proof. exact restrict_l_subset. Qed.
Print Assumptions C13_restrict_l.

(* number of couplings = number of independent helicity amplitudes; finite bound 2j <= 8
   (the property's own quantifier), parity conserving (both signs) and violating *)
Theorem C13_count_eq_helicity_le8 : forall t, In t triples8 -> count_ok t = true.
Proof. exact (proj1 (forallb_forall count_ok triples8) count_all_le8). Qed.
Print Assumptions C13_count_eq_helicity_le8.

(* FULL RANK of the map (couplings g_ls) |-> (helicity amplitudes H_{lb,lc}): the matrix with entries
   sqrt((2l+1)/(2ja+1)) <jb lb jc -lc|s lb-lc> <l 0 s lb-lc|ja lb-lc> (exact radicals of Amp/Coupling.v) is injective for
   every spin triple with j <= 5/2 (the property's range) - for all couplings, hence for every list the code can offer
   (parity / C-parity filters) and every l_list restriction.  Certificate: the Gram matrix is the identity within 1e-9
   (one Coq-Interval goal per row, 108 non-empty triples, matrices up to 24 x 24) + strict diagonal dominance => injective. *)
Theorem C13_ls_map_full_rank_le5 : forall ja2 jb2 jc2,
  In ja2 [0; 1; 2; 3; 4; 5]%Z -> In jb2 [0; 1; 2; 3; 4; 5]%Z -> In jc2 [0; 1; 2; 3; 4; 5]%Z ->
  injective_on (ls_matrix ja2 jb2 jc2) (length (ls_cols ja2 jb2 jc2)).
Proof. exact ls_map_full_rank_le5. Qed.
Print Assumptions C13_ls_map_full_rank_le5.

Theorem C13_ls_map_full_rank_offered_le5 : forall ja2 jb2 jc2 pa pb pc p_break ca,
  In ja2 [0; 1; 2; 3; 4; 5]%Z -> In jb2 [0; 1; 2; 3; 4; 5]%Z -> In jc2 [0; 1; 2; 3; 4; 5]%Z ->
  let cols := ls_list ja2 jb2 jc2 pa pb pc p_break ca in
  injective_on (ls_matrix_on ja2 jb2 jc2 cols) (length cols).
Proof. exact ls_map_full_rank_offered_le5. Qed.
Print Assumptions C13_ls_map_full_rank_offered_le5.

Theorem C13_ls_map_full_rank_l_list_le5 : forall ja2 jb2 jc2 pa pb pc p_break ca allowed,
  In ja2 [0; 1; 2; 3; 4; 5]%Z -> In jb2 [0; 1; 2; 3; 4; 5]%Z -> In jc2 [0; 1; 2; 3; 4; 5]%Z ->
  let cols := restrict_l (ls_list ja2 jb2 jc2 pa pb pc p_break ca) allowed in
  injective_on (ls_matrix_on ja2 jb2 jc2 cols) (length cols).
Proof. exact ls_map_full_rank_l_list_le5. Qed.
Print Assumptions C13_ls_map_full_rank_l_list_le5.

(* the ls_list and l_list options together (tf_pwa/amp/core.py get_ls_list after /repo 47acb11): what is offered
   is allowed, listed by the user (when a list is given), has a listed l (when l_list is given), and nothing is
   offered twice - whatever the user wrote (forbidden or repeated entries included) *)
Theorem C13_user_ls_exact : forall enumerated l_list ls_opt p,
  In p (user_ls enumerated l_list ls_opt) <->
  In p enumerated /\
  (match ls_opt with Some u => In p u | None => True end) /\
  (match l_list with Some a => In (fst p) a | None => True end).
Proof. exact user_ls_spec. Qed.
Print Assumptions C13_user_ls_exact.

Theorem C13_user_ls_nodup : forall ja2 jb2 jc2 pa pb pc p_break ca l_list ls_opt,
  NoDup (user_ls (ls_list ja2 jb2 jc2 pa pb pc p_break ca) l_list ls_opt).
Proof. intros. apply user_ls_NoDup. apply C13_ls_nodup. Qed.
Print Assumptions C13_user_ls_nodup.

(* ... and its columns are, up to the user's order, a filter of the offered ones, on which the map stays injective *)
Theorem C13_user_ls_full_rank_le5 : forall ja2 jb2 jc2 pa pb pc p_break ca l_list ls_opt,
  In ja2 [0; 1; 2; 3; 4; 5]%Z -> In jb2 [0; 1; 2; 3; 4; 5]%Z -> In jc2 [0; 1; 2; 3; 4; 5]%Z ->
  exists cols, Permutation (user_ls (ls_list ja2 jb2 jc2 pa pb pc p_break ca) l_list ls_opt) cols /\
               injective_on (ls_matrix_on ja2 jb2 jc2 cols) (length cols).
Proof.
  intros ja2 jb2 jc2 pa pb pc p_break ca l_list ls_opt Ha Hb Hc.
  eexists. split.
  - apply user_ls_perm_filter. apply C13_ls_nodup.
  - apply ls_map_full_rank_user_filter_le5; assumption.
Qed.
Print Assumptions C13_user_ls_full_rank_le5.

(* the behaviour before the repair: forbidden and repeated couplings were offered *)
Theorem C13_user_ls_old_refuted :
  exists enumerated u, ~ incl (user_ls_old enumerated None (Some u)) enumerated /\ ~ NoDup (user_ls_old enumerated None (Some [(1,2);(1,2)]%Z)).
Proof. exact user_ls_old_refuted. Qed.

(* the general lemma behind it (any size): strictly diagonally dominant Gram matrix => injective *)
Theorem C13_gram_dominant_injective : forall M n, rows_wf M n -> gram_dominant M n -> injective_on M n.
Proof. exact gram_dominant_injective. Qed.
Print Assumptions C13_gram_dominant_injective.

(* non-vacuity: 1- -> 1- 0- has the single P-wave; 1/2+ -> 1/2+ 0- parity violating has S and P *)
Example C13_example_1 : ls_list 2 2 0 (Some (-1)) (Some (-1)) (Some (-1)) false None = [(1, 2)].
Proof. vm_compute. reflexivity. Qed.
Example C13_example_2 : ls_list 1 1 0 None None None false None = [(0, 1); (1, 1)].
Proof. vm_compute. reflexivity. Qed.
