(* C13 — statements only.  Each closed by [exact] of a lemma from the proof files. *)
From Coq Require Import ZArith List Bool Reals Permutation.
From TFV Require Import Comb.LS Comb.LS_proofs Comb.LS_mono Comb.LSRank Comb.LSRank_proofs Comb.LSRank_final.
Import ListNotations.
Open Scope Z_scope.

(* Sound + complete for ALL spins (unbounded): the offered pairs are exactly those
   allowed by the two triangle rules in unit steps, parity and C-parity. *)
Theorem C13_ls_sound_complete :
  forall ja2 jb2 jc2 pa pb pc p_break ca l s2,
    In (l, s2) (ls_list ja2 jb2 jc2 pa pb pc p_break ca) <->
    ls_rule ja2 jb2 jc2 (eff_break pa pb pc p_break) (eff_dl pa pb pc) ca l s2.
Proof. intros. exact (ls_core_sound_complete _ _ _ _ _ _ _ _). Qed.
Print Assumptions C13_ls_sound_complete.

(* each listed once *)
Theorem C13_ls_nodup :
  forall ja2 jb2 jc2 pa pb pc p_break ca, NoDup (ls_list ja2 jb2 jc2 pa pb pc p_break ca).
Proof. intros. exact (ls_core_nodup _ _ _ _ _ _). Qed.
Print Assumptions C13_ls_nodup.

(* user restrictions select exactly the listed l / (l,s) among the allowed ones *)
Theorem C13_restrict_l : forall ls allowed p, In p (restrict_l ls allowed) <-> In p ls /\ In (fst p) allowed.
Proof. exact restrict_l_subset. Qed.
Print Assumptions C13_restrict_l.

(* number of couplings = number of independent helicity amplitudes; finite bound 2j <= 8
   (the property's own quantifier), parity conserving (both signs) and violating *)
Theorem C13_count_eq_helicity_le8 : forall t, In t triples8 -> count_ok t = true.
Proof. exact (proj1 (forallb_forall count_ok triples8) count_all_le8). Qed.
Print Assumptions C13_count_eq_helicity_le8.

(* FULL RANK of the map (couplings g_ls) |-> (helicity amplitudes H_{lb,lc}): the matrix with entries
   sqrt((2l+1)/(2ja+1)) <jb lb jc -lc|s lb-lc> <l 0 s lb-lc|ja lb-lc> (exact radicals of Amp/Coupling.v) is injective for
   every spin triple with j <= 5/2 (the property's range) - for all couplings, hence for every list the code can offer
   (parity / C-parity filters) and every l_list restriction.  Certificate: the Gram matrix is the identity within 1e-9
   (one Coq-Interval goal per row, 108 non-empty triples, matrices up to 24 x 24) + strict diagonal dominance => injective. *)
Theorem C13_ls_map_full_rank_le5 : forall ja2 jb2 jc2,
  In ja2 [0; 1; 2; 3; 4; 5]%Z -> In jb2 [0; 1; 2; 3; 4; 5]%Z -> In jc2 [0; 1; 2; 3; 4; 5]%Z ->
  injective_on (ls_matrix ja2 jb2 jc2) (length (ls_cols ja2 jb2 jc2)).
Proof. exact ls_map_full_rank_le5. Qed.
Print Assumptions C13_ls_map_full_rank_le5.

Theorem C13_ls_map_full_rank_offered_le5 : forall ja2 jb2 jc2 pa pb pc p_break ca,
  In ja2 [0; 1; 2; 3; 4; 5]%Z -> In jb2 [0; 1; 2; 3; 4; 5]%Z -> In jc2 [0; 1; 2; 3; 4; 5]%Z ->
  let cols := ls_list ja2 jb2 jc2 pa pb pc p_break ca in
  injective_on (ls_matrix_on ja2 jb2 jc2 cols) (length cols).
Proof. exact ls_map_full_rank_offered_le5. Qed.
Print Assumptions C13_ls_map_full_rank_offered_le5.

Theorem C13_ls_map_full_rank_l_list_le5 : forall ja2 jb2 jc2 pa pb pc p_break ca allowed,
  In ja2 [0; 1; 2; 3; 4; 5]%Z -> In jb2 [0; 1; 2; 3; 4; 5]%Z -> In jc2 [0; 1; 2; 3; 4; 5]%Z ->
  let cols := restrict_l (ls_list ja2 jb2 jc2 pa pb pc p_break ca) allowed in
  injective_on (ls_matrix_on ja2 jb2 jc2 cols) (length cols).
Proof. exact ls_map_full_rank_l_list_le5. Qed.
Print Assumptions C13_ls_map_full_rank_l_list_le5.

(* the ls_list and l_list options together (tf_pwa/amp/core.py get_ls_list after /repo 47acb11): what is offered
   is allowed, listed by the user (when a list is given), has a listed l (when l_list is given), and nothing is
   offered twice - whatever the user wrote (forbidden or repeated entries included) *)
Theorem C13_user_ls_exact : forall enumerated l_list ls_opt p,
  In p (user_ls enumerated l_list ls_opt) <->
  In p enumerated /\
  (match ls_opt with Some u => In p u | None => True end) /\
  (match l_list with Some a => In (fst p) a | None => True end).
Proof. exact user_ls_spec. Qed.
Print Assumptions C13_user_ls_exact.

Theorem C13_user_ls_nodup : forall ja2 jb2 jc2 pa pb pc p_break ca l_list ls_opt,
  NoDup (user_ls (ls_list ja2 jb2 jc2 pa pb pc p_break ca) l_list ls_opt).
Proof. intros. apply user_ls_NoDup. apply C13_ls_nodup. Qed.
Print Assumptions C13_user_ls_nodup.

(* ... and its columns are, up to the user's order, a filter of the offered ones, on which the map stays injective *)
Theorem C13_user_ls_full_rank_le5 : forall ja2 jb2 jc2 pa pb pc p_break ca l_list ls_opt,
  In ja2 [0; 1; 2; 3; 4; 5]%Z -> In jb2 [0; 1; 2; 3; 4; 5]%Z -> In jc2 [0; 1; 2; 3; 4; 5]%Z ->
  exists cols, Permutation (user_ls (ls_list ja2 jb2 jc2 pa pb pc p_break ca) l_list ls_opt) cols /\
               injective_on (ls_matrix_on ja2 jb2 jc2 cols) (length cols).
Proof.
  intros ja2 jb2 jc2 pa pb pc p_break ca l_list ls_opt Ha Hb Hc.
  eexists. split.
  - apply user_ls_perm_filter. apply C13_ls_nodup.
  - apply ls_map_full_rank_user_filter_le5; assumption.
Qed.
Print Assumptions C13_user_ls_full_rank_le5.

(* the behaviour before the repair: forbidden and repeated couplings were offered *)
Theorem C13_user_ls_old_refuted :
  exists enumerated u, ~ incl (user_ls_old enumerated None (Some u)) enumerated /\ ~ NoDup (user_ls_old enumerated None (Some [(1,2);(1,2)]%Z)).
Proof. exact user_ls_old_refuted. Qed.

(* the general lemma behind it (any size): strictly diagonally dominant Gram matrix => injective *)
Theorem C13_gram_dominant_injective : forall M n, rows_wf M n -> gram_dominant M n -> injective_on M n.
Proof. exact gram_dominant_injective. Qed.
Print Assumptions C13_gram_dominant_injective.

(* relations BETWEEN enumerations, all spins (unbounded): switching parity conservation off never removes a
   coupling; the parity-violating list is exactly the union of the two parity-conserving lists, which are disjoint;
   a C-parity requirement only removes couplings and the two C-parity selections partition the integer-s couplings;
   unknown parity of any particle means the parity-violating list whatever p_break says; l is a non-negative integer
   not above ja+jb+jc. *)
Theorem C13_break_superset : forall ja2 jb2 jc2 pa pb pc p_break ca p,
  In p (ls_list ja2 jb2 jc2 pa pb pc p_break ca) -> In p (ls_list ja2 jb2 jc2 pa pb pc true ca).
Proof. exact ls_break_superset. Qed.
Print Assumptions C13_break_superset.
Theorem C13_break_is_union_of_parities : forall ja2 jb2 jc2 ca l s2 dl0,
  In (l, s2) (ls_list_core ja2 jb2 jc2 true dl0 ca) <->
  In (l, s2) (ls_list_core ja2 jb2 jc2 false 0 ca) \/ In (l, s2) (ls_list_core ja2 jb2 jc2 false 1 ca).
Proof. exact ls_core_break_union. Qed.
Print Assumptions C13_break_is_union_of_parities.
Theorem C13_parities_disjoint : forall ja2 jb2 jc2 ca ca' p,
  In p (ls_list_core ja2 jb2 jc2 false 0 ca) -> In p (ls_list_core ja2 jb2 jc2 false 1 ca') -> False.
Proof. exact ls_core_parity_disjoint. Qed.
Print Assumptions C13_parities_disjoint.
Theorem C13_ca_subset : forall ja2 jb2 jc2 pbrk dl ca p,
  In p (ls_list_core ja2 jb2 jc2 pbrk dl ca) -> In p (ls_list_core ja2 jb2 jc2 pbrk dl None).
Proof. exact ls_core_ca_subset. Qed.
Print Assumptions C13_ca_subset.
Theorem C13_ca_partition : forall ja2 jb2 jc2 pbrk dl l s2, s2 mod 2 = 0 ->
  (In (l, s2) (ls_list_core ja2 jb2 jc2 pbrk dl None) <->
   In (l, s2) (ls_list_core ja2 jb2 jc2 pbrk dl (Some 1)) \/ In (l, s2) (ls_list_core ja2 jb2 jc2 pbrk dl (Some (-1)))).
Proof. exact ls_core_ca_union. Qed.
Print Assumptions C13_ca_partition.
Theorem C13_ca_disjoint : forall ja2 jb2 jc2 pbrk dl pbrk' dl' p,
  In p (ls_list_core ja2 jb2 jc2 pbrk dl (Some 1)) -> In p (ls_list_core ja2 jb2 jc2 pbrk' dl' (Some (-1))) -> False.
Proof. exact ls_core_ca_disjoint. Qed.
Print Assumptions C13_ca_disjoint.
Theorem C13_unknown_parity_is_break : forall ja2 jb2 jc2 pa pb pc brk ca,
  (pa = None \/ pb = None \/ pc = None) ->
  ls_list ja2 jb2 jc2 pa pb pc brk ca = ls_list ja2 jb2 jc2 pa pb pc true ca.
Proof. exact ls_unknown_parity_is_break. Qed.
Print Assumptions C13_unknown_parity_is_break.
Theorem C13_l_range : forall ja2 jb2 jc2 pbrk dl ca l s2,
  In (l, s2) (ls_list_core ja2 jb2 jc2 pbrk dl ca) -> 0 <= l /\ 2 * l <= ja2 + jb2 + jc2.
Proof. exact ls_core_l_range. Qed.
Print Assumptions C13_l_range.
(* non-vacuity: 1 -> 1 1 parity violating offers 7 couplings, 3 of them with even l and 4 with odd l *)
Example C13_example_union :
  (length (ls_list_core 2 2 2 true 0 None), length (ls_list_core 2 2 2 false 0 None), length (ls_list_core 2 2 2 false 1 None))
  = (7%nat, 3%nat, 4%nat).
Proof. vm_compute. reflexivity. Qed.

(* non-vacuity: 1- -> 1- 0- has the single P-wave; 1/2+ -> 1/2+ 0- parity violating has S and P *)
Example C13_example_1 : ls_list 2 2 0 (Some (-1)) (Some (-1)) (Some (-1)) false None = [(1, 2)].
Proof. vm_compute. reflexivity. Qed.
Example C13_example_2 : ls_list 1 1 0 None None None false None = [(0, 1); (1, 1)].
Proof. vm_compute. reflexivity. Qed.
