From Coq Require Import List Arith ZArith NArith Bool.
From TFV Require Import Comb.Topology.
Import ListNotations.
Example C14_example_count : map (fun n => length (from_particles n)) [2;3;4;5] = [1;3;15;105].
Proof. vm_compute. reflexivity. Qed.
