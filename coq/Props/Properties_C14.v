(* C14 — statements only.  Each closed by [exact] of a lemma from Comb/Topology_proofs.v. *)
From Coq Require Import List Arith ZArith NArith Bool Permutation.
From TFV Require Import Comb.Topology Comb.Topology_proofs Comb.Topology_le7.
Import ListNotations.

(* (2n-3)!! chains for n final particles - ALL n >= 1 (unbounded).
   [dfact_odd n] = (2n-3)!! = 1, 1, 3, 15, 105, 945, 10395, ...
   (n = 1: the model returns one graph; the implementation raises KeyError there.) *)
Theorem C14_count_double_factorial : forall n, 1 <= n -> length (from_particles n) = dfact_odd n.
Proof. exact count_double_factorial. Qed.
Print Assumptions C14_count_double_factorial.

(* ALL n >= 1 (unbounded, invariant of add_node): the edge list of every enumerated graph is
   (a permutation of) the edges of a binary tree hanging below the top particle, its leaves
   are exactly the given finals f0..f(n-1), each once, its n-1 inner nodes are pairwise
   different, and it has 2n-1 edges. *)
Theorem C14_all_binary_trees_with_leaves :
  forall n g, 1 <= n -> In g (graphs_n n) ->
  exists t : bt, Permutation (g_edges g) (gfrom VTop t)
                 /\ Permutation (leaves t) (seq 0 n)
                 /\ Permutation (inners t) (seq 0 (n - 1))
                 /\ length (g_edges g) = 2 * n - 1.
Proof. exact graphs_are_binary_trees. Qed.
Print Assumptions C14_all_binary_trees_with_leaves.

(* the same fact on the chains handed out (after get_decay_chain), n = 2..7 by evaluation:
   n-1 two-body decays, one top, every inner node produced once and decaying once, leaves
   exactly f0..f(n-1), the table loop reaches every decay *)
Theorem C14_chains_binary_trees_le7 :
  forall n, In n [2; 3; 4; 5; 6; 7] -> forall c, In c (from_particles n) -> chain_bintree_ok n c = true.
Proof. exact chains_bintree_le7_forall. Qed.
Print Assumptions C14_chains_binary_trees_le7.

(* pairwise different topologies, n <= 7 (10395 chains for n = 7), by evaluation.
   General statement (all n) kept visible; not proved: needs "insertion at different edges
   gives different grouping sets". *)
Definition C14_pairwise_distinct_general : Prop :=
  forall n i j, i < length (from_particles n) -> j < length (from_particles n) -> i <> j ->
    topology_same false (nth i (from_particles n) []) (nth j (from_particles n) []) = false.
Theorem C14_pairwise_distinct_le7_partial :
  forall n, In n [1; 2; 3; 4; 5; 6; 7] ->
  forall i j, i < length (from_particles n) -> j < length (from_particles n) -> i <> j ->
    topology_same false (nth i (from_particles n) []) (nth j (from_particles n) []) = false.
Proof. exact pairwise_distinct_le7. Qed.
Print Assumptions C14_pairwise_distinct_le7_partial.

(* same topology  <->  same final-state groupings (ALL chains; identical=true compares the
   groupings after forgetting particle ids) *)
Theorem C14_topology_same_iff :
  forall identical a b,
    topology_same identical a b = true <->
    Permutation (map (id_view identical) (groupings a)) (map (id_view identical) (groupings b)).
Proof. exact topology_same_iff. Qed.
Print Assumptions C14_topology_same_iff.

(* table and chain determine each other, n = 2..7 by evaluation: from_sorted_table (sorted_table c)
   has the decays of c (up to order) and the same topology id.  General statement visible. *)
Definition C14_table_chain_bijection_general : Prop :=
  forall n c, In c (from_particles n) -> table_roundtrip_ok c = true.
Theorem C14_table_chain_bijection_le7_partial :
  forall n, In n [2; 3; 4; 5; 6; 7] -> forall c, In c (from_particles n) -> table_roundtrip_ok c = true.
Proof. exact table_roundtrip_le7_forall. Qed.
Print Assumptions C14_table_chain_bijection_le7_partial.

(* ALL groups: every chain is in exactly one class of topology_structure *)
Theorem C14_structure_partition :
  forall identical chs,
    incl (topology_structure identical chs) (indexed chs)
    /\ forall c, In c (indexed chs) ->
         exists r, In r (topology_structure identical chs)
                   /\ topology_same identical (snd c) (snd r) = true
                   /\ forall r', In r' (topology_structure identical chs) ->
                                 topology_same identical (snd c) (snd r') = true -> r' = r.
Proof. exact structure_partition. Qed.
Print Assumptions C14_structure_partition.

(* get_chains_map (classes named by standard_topology, with particle maps): every chain in
   exactly one class, for the group of all chains over n <= 5 finals and for the group that
   differs only by swapped identical particles; by evaluation.  General statement visible
   (not proved: needs sorted_table (standard_topology c) = renamed sorted_table c). *)
Definition C14_chains_map_partition_general : Prop :=
  forall chs, (forall c, In c chs -> exists n, In c (from_particles n)) -> chains_map_partition_ok false chs = true.
Theorem C14_chains_map_partition_le5_partial :
  (forall n, In n [2; 3; 4; 5] -> chains_map_partition_ok false (from_particles n) = true)
  /\ chains_map_partition_ok false swapped_identical_group = true.
Proof. exact chains_map_partition_le5_both. Qed.
Print Assumptions C14_chains_map_partition_le5_partial.

(* the particle map to / from the standard topology carries decays to decays, every chain for n = 2..7 (the
   property's range; n = 7 evaluated in Comb/Topology_n7.v) *)
Theorem C14_topology_map_homomorphism_le7 :
  forall n, In n [2; 3; 4; 5; 6; 7] -> forall c, In c (from_particles n) ->
    homomorphism_ok (standard_topology c) c && homomorphism_ok c (standard_topology c) = true.
Proof. exact std_homomorphism_le7_forall. Qed.
Print Assumptions C14_topology_map_homomorphism_le7.

(* the membership test of get_chains_map before /repo commit 04ce759 (identical=True against
   classes built with identical=False) does NOT give a partition: KeyError on this group *)
Theorem C14_chains_map_old_flag_refuted : chains_map_gen true swapped_identical_group = None.
Proof. exact chains_map_old_flag_refuted. Qed.
Print Assumptions C14_chains_map_old_flag_refuted.

(* non-vacuity *)
Example C14_example_count : map (fun n => length (from_particles n)) [2; 3; 4; 5] = [1; 3; 15; 105].
Proof. vm_compute. reflexivity. Qed.
Example C14_example_3body :
  from_particles 3 =
  [[(P (-1) 0, [P 1 0; P 2 0]); (P 0 0, [P (-1) 0; P 3 0])];
   [(P 0 0, [P 2 0; P (-2) 0]); (P (-2) 0, [P 1 0; P 3 0])];
   [(P 0 0, [P 1 0; P (-2) 0]); (P (-2) 0, [P 2 0; P 3 0])]]%Z.
Proof. vm_compute. reflexivity. Qed.
