(* C02 — statements only. *)
From Coq Require Import Reals List ZArith Permutation.
From TFV Require Import Base.RBase Shape.LineShapes Rot.Wigner Amp.Dalitz3 Amp.Superpose Amp.Superpose_proofs Amp.Unitary Amp.Unitary_proofs.
Import ListNotations.
Open Scope R_scope.

(* the order in which chains are declared does not matter: the sum of chain amplitudes, hence the
   density, is invariant under any permutation of the chain list *)
Theorem C02_chain_order_irrelevant : forall n cs cs', Permutation cs cs' -> vsum n cs = vsum n cs'.
Proof. exact vsum_perm. Qed.
Print Assumptions C02_chain_order_irrelevant.

(* changing the alignment reference multiplies the final-state helicity index of the TOTAL amplitude
   by one common conjugated Wigner D matrix; such a factor drops out of the helicity sum, for every
   spin 2j<=8 (incl. 1/2) and ALL Euler angles *)
Theorem C02_common_alignment_drops_out : forall j2 alpha beta gamma (X : Z -> C), (0 <= j2 <= 8)%Z ->
  zsum (m_range j2) (fun f => Cnorm2 (D_apply_right j2 alpha beta gamma X f)) = hel_norm2 j2 X.
Proof. exact D_removes_alignment. Qed.
Print Assumptions C02_common_alignment_drops_out.

(* a common rotation of the z axis / of the frame acts on the parent helicity index: drops out too *)
Theorem C02_common_parent_rotation_drops_out : forall j2 alpha beta gamma (X : Z -> C), (0 <= j2 <= 8)%Z ->
  zsum (m_range j2) (fun lam => Cnorm2 (D_apply j2 alpha beta gamma X lam)) = hel_norm2 j2 X.
Proof. exact D_removes_rotation. Qed.
Print Assumptions C02_common_parent_rotation_drops_out.

(* FULL statement (not proved, kept visible): the relative alignment elements R_ref' R_k^-1 and
   R_ref R_k^-1 differ by the common factor R_ref' R_ref^-1, and D is a group homomorphism, so
   that the change of reference IS a common D matrix.  The homomorphism law is not yet a theorem of the
   model; this step is tied to the code (densities under every convention certified equal). *)
Definition C02_reference_change_is_common_unitary_statement : Prop :=
  forall j2 alpha beta gamma (X : Z -> C), (0 <= j2 <= 8)%Z ->
  zsum (m_range j2) (fun f => Cnorm2 (D_apply_right j2 alpha beta gamma X f)) = hel_norm2 j2 X.
