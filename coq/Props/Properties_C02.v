(* C02 — statements only. *)
From Coq Require Import Reals List ZArith Permutation.
From Coquelicot Require Import Complex.
From TFV Require Import Base.RBase Shape.LineShapes Rot.Wigner Rot.DHom_ids Rot.DHom Amp.Dalitz3 Amp.Superpose Amp.Superpose_proofs Amp.Unitary Amp.Unitary_proofs Rot.DHom_apps.
Import ListNotations.
Open Scope R_scope.

(* the order in which chains are declared does not matter: the sum of chain amplitudes, hence the
   density, is invariant under any permutation of the chain list *)
Theorem C02_chain_order_irrelevant : forall n cs cs', Permutation cs cs' -> vsum n cs = vsum n cs'.
Proof. exact vsum_perm. Qed.
Print Assumptions C02_chain_order_irrelevant.

(* changing the alignment reference multiplies the final-state helicity index of the TOTAL amplitude
   by one common conjugated Wigner D matrix; such a factor drops out of the helicity sum, for every
   spin 2j<=8 (incl. 1/2) and ALL Euler angles *)
Theorem C02_common_alignment_drops_out : forall j2 alpha beta gamma (X : Z -> C), (0 <= j2 <= 8)%Z ->
  zsum (m_range j2) (fun f => Cnorm2 (D_apply_right j2 alpha beta gamma X f)) = hel_norm2 j2 X.
Proof. exact D_removes_alignment. Qed.
Print Assumptions C02_common_alignment_drops_out.

(* a common rotation of the z axis / of the frame acts on the parent helicity index: drops out too *)
Theorem C02_common_parent_rotation_drops_out : forall j2 alpha beta gamma (X : Z -> C), (0 <= j2 <= 8)%Z ->
  zsum (m_range j2) (fun lam => Cnorm2 (D_apply j2 alpha beta gamma X lam)) = hel_norm2 j2 X.
Proof. exact D_removes_rotation. Qed.
Print Assumptions C02_common_parent_rotation_drops_out.

(* A change of the alignment reference multiplies every chain's alignment element by ONE common matrix G
   (R_ref' R_k^-1 = (R_ref' R_ref^-1)(R_ref R_k^-1)).  By the group law the summed amplitude is then the old one
   times the spin-j matrix of G - for ANY complex 2x2 G, any number of chains, 2j <= 8 ... *)
Theorem C02_reference_change_is_common_matrix : forall j2 (chs : list chain) (G : M2) f,
  (0 <= j2 <= 8)%Z -> In f (m_range j2) ->
  Famp j2 (realign G chs) f = csum (fun l' => (Famp j2 chs l' * DmatM j2 l' f G)%C) (m_range j2).
Proof. exact align_ref_change_is_common_matrix. Qed.
Print Assumptions C02_reference_change_is_common_matrix.

(* ... and when G is a rotation (given by Euler angles) the helicity-summed density is unchanged *)
Theorem C02_reference_change_preserves_density : forall j2 (chs : list chain) al be ga, (0 <= j2 <= 8)%Z ->
  zsum (m_range j2) (fun f => Cnorm2 (Famp j2 (realign (mconj (Euler al be ga)) chs) f))
  = zsum (m_range j2) (fun l => Cnorm2 (Famp j2 chs l)).
Proof. exact align_ref_change_preserves_density. Qed.
Print Assumptions C02_reference_change_preserves_density.

(* the same on the parent index (common change of z axis / frame acts from the left) *)
Theorem C02_parent_frame_change_preserves_density : forall j2 (chs : list chain) al be ga, (0 <= j2 <= 8)%Z ->
  zsum (m_range j2) (fun lam => Cnorm2 (Hamp j2 (realign_left (mconj (Euler al be ga)) chs) lam))
  = zsum (m_range j2) (fun lam => Cnorm2 (Hamp j2 chs lam)).
Proof. exact align_left_change_preserves_density. Qed.
Print Assumptions C02_parent_frame_change_preserves_density.

(* massless final particles (photon: helicities restricted by `spins: [-1, 1]`): the drop-out theorems above sum over ALL
   helicities, a restricted helicity set is preserved only by an alignment that does not mix helicities.  An alignment that is a
   pure z rotation (beta = 0: the rotation between two helicity frames of a massless particle is a rotation about its momentum)
   multiplies each helicity component by a phase, so any sub-list S of helicities keeps its summed squared modulus; 2j <= 8.
   That the CODE's aligned beta vanishes for a massless particle under every convention is decided on the code's values (layer
   massless_alignment of the check): it fails when the reference is the canonical frame (align_ref: center_mass before the repair). *)
Theorem C02_massless_alignment_is_phase : forall j2 alpha gamma (X : Z -> C) (S : list Z),
  (0 <= j2 <= 8)%Z -> (forall f, In f S -> In f (m_range j2)) ->
  zsum S (fun f => Cnorm2 (D_apply_right j2 alpha 0 gamma X f)) = zsum S (fun f => Cnorm2 (X f)).
Proof. exact z_rotation_alignment_restricted. Qed.
Print Assumptions C02_massless_alignment_is_phase.

(* Not proved: that the code's alignment elements for two conventions differ by a common G (a statement about
   cal_angle's SU(2) bookkeeping) - tied by the certified comparison of the code under every convention; and
   products over several spinning final particles are stated one index at a time. *)
