(* C11 — kinematic transformations are mutually inverse.  Statements only.
   Model: Kin/Boost.v, Kin/Angles.v, Kin/Dalitz.v.  [vel_ok v] is eps < |v|^2 < 1 with eps = 1e-14 (angle.py
   _epsilon): inside the code's guard 0 < |v|^2 <= eps the code drops the (gamma-1)/beta^2 term, so its boost
   is not an exact Lorentz boost there (deviation <= |v|^3 |p| / 2); v = 0 is covered by C11_boost_zero. *)
From Coq Require Import Reals List Lra.
From Interval Require Import Tactic.
From TFV Require Import Base.RBase Kin.Boost Kin.Boost_proofs Kin.Angles Kin.Angles_proofs Kin.Dalitz Kin.Dalitz_proofs.
Import ListNotations.
Open Scope R_scope.

(* ---- boosts *)
Theorem C11_boost_inverse : forall p v, vel_ok v -> boost (boost p v) (neg3 v) = p.
Proof. exact boost_inverse. Qed.
Print Assumptions C11_boost_inverse.

Theorem C11_boost_zero : forall p, boost p zero3 = p.
Proof. exact boost_zero. Qed.
Print Assumptions C11_boost_zero.

Theorem C11_mink_boost : forall p q v, vel_ok v -> mink (boost p v) (boost q v) = mink p q.
Proof. exact mink_boost. Qed.
Print Assumptions C11_mink_boost.

Theorem C11_mass_boost : forall p v, vel_ok v -> mass (boost p v) = mass p.
Proof. exact mass_boost. Qed.
Print Assumptions C11_mass_boost.

Theorem C11_mink_rot : forall R_ p q, orthogonal R_ -> mink (rot4 R_ p) (rot4 R_ q) = mink p q.
Proof. exact mink_rot. Qed.
Print Assumptions C11_mink_rot.

Theorem C11_mass_rot : forall R_ p, orthogonal R_ -> mass (rot4 R_ p) = mass p.
Proof. exact mass_rot. Qed.
Print Assumptions C11_mass_rot.

Theorem C11_rest_vector_of_self : forall p, timelike p -> eps < norm2_3 (boost_vector p) ->
  rest_vector p p = V4 (mass p) 0 0 0.
Proof. exact rest_vector_of_self. Qed.
Print Assumptions C11_rest_vector_of_self.

Theorem C11_rest_vector_of_self_at_rest : forall m, 0 < m ->
  rest_vector (V4 m 0 0 0) (V4 m 0 0 0) = V4 (mass (V4 m 0 0 0)) 0 0 0.
Proof. exact rest_vector_of_self_at_rest. Qed.
Print Assumptions C11_rest_vector_of_self_at_rest.

Theorem C11_rest_vector_inverts_boost : forall p q, vel_ok (boost_vector p) ->
  rest_vector p (boost q (boost_vector p)) = q /\ boost (rest_vector p q) (boost_vector p) = q.
Proof. intros p q H. split; [exact (boost_rest_vector p q H)|exact (rest_vector_boost p q H)]. Qed.
Print Assumptions C11_rest_vector_inverts_boost.

(* no hypotheses: the matrix and the vector boost share gamma and the guarded gamma2 *)
Theorem C11_boost_matrix_agrees : forall p q, mat4_vec (boost_matrix p) q = boost q (boost_vector p).
Proof. exact boost_matrix_agrees. Qed.
Print Assumptions C11_boost_matrix_agrees.

(* ---- one decay vertex: for a right-handed orthonormal frame F = (x,y,z), z axis of any length k handed down
   by the extractor, break-up momentum q, -1 < cos(theta) < 1 and any phi: extracting from the forward
   momentum returns (cos theta, cos phi, sin phi), and the extractor's next x axis is the generator's x'. *)
Theorem C11_vertex_roundtrip : forall F k q c phi,
  rotation F -> 0 < k -> 0 < q -> -1 < c < 1 -> eps <= k -> eps <= k * q * sqrt (1 - c * c) ->
  let h := hel_extract (scale3 k (c3 F)) (c1 F) (fwd_p3 F q c phi) in
  cosb h = c /\ cosa h = cos phi /\ sina h = sin phi /\ xnext h = c1 (next_frame1 F q c phi).
Proof.
  intros F k q c phi HF Hk Hq Hc Gk Gkqs. cbv zeta.
  destruct (sin_theta_facts c Hc) as [Hs0 Hs].
  replace (scale3 k (c3 F)) with (mat3_vec F (scale3 k ez))
    by (apply vec3_eq; unfold mat3_vec, add3, scale3, ez; cbn [vx vy vz]; ring).
  rewrite <- (mat3_vec_ex F), (fwd_p3_loc F q c phi), (next_frame1_loc F q c phi HF Hq Hc).
  rewrite (vertex_extract1 F k q c _ (cos phi) (sin phi) HF Hk Hq Hs (cos_sin_1 phi) Gk Gkqs).
  cbn [cosb cosa sina xnext c1]. repeat split; reflexivity.
Qed.
Print Assumptions C11_vertex_roundtrip.

(* axes convention for the second daughter (momentum -p): same next x axis, flipped y and z *)
Theorem C11_axes_agree_second : forall F k q c phi,
  rotation F -> 0 < k -> 0 < q -> -1 < c < 1 -> eps <= k -> eps <= k * q * sqrt (1 - c * c) ->
  xnext (hel_extract (scale3 k (c3 F)) (c1 F) (neg3 (fwd_p3 F q c phi))) = c1 (next_frame2 F q c phi)
  /\ rotation (next_frame1 F q c phi) /\ rotation (next_frame2 F q c phi).
Proof.
  intros F k q c phi HF Hk Hq Hc Gk Gkqs.
  destruct (sin_theta_facts c Hc) as [Hs0 Hs].
  split; [|split; [apply next_frame1_rotation|apply next_frame2_rotation]; assumption].
  replace (scale3 k (c3 F)) with (mat3_vec F (scale3 k ez))
    by (apply vec3_eq; unfold mat3_vec, add3, scale3, ez; cbn [vx vy vz]; ring).
  rewrite <- (mat3_vec_ex F), (fwd_p3_loc F q c phi).
  replace (neg3 (mat3_vec F (scale3 q (loc_z c (sqrt (1 - c * c)) (cos phi) (sin phi)))))
    with (mat3_vec F (scale3 q (neg3 (loc_z c (sqrt (1 - c * c)) (cos phi) (sin phi)))))
    by (apply vec3_eq; unfold mat3_vec, add3, scale3, neg3; cbn [vx vy vz]; ring).
  rewrite (vertex_extract2_x F k q c _ (cos phi) (sin phi) HF Hq Hs (cos_sin_1 phi) Gkqs).
  unfold next_frame2, flip_frame. rewrite (next_frame1_loc F q c phi HF Hq Hc). reflexivity.
Qed.
Print Assumptions C11_axes_agree_second.

(* two-body break-up: energies add up to the parent mass *)
Theorem C11_breakup_energy : forall m0 m1 m2, 0 <= m1 -> 0 <= m2 -> m1 + m2 < m0 ->
  let q := rel_p m0 m1 m2 in sqrt (m1 * m1 + q * q) + sqrt (m2 * m2 + q * q) = m0.
Proof. exact breakup_energy_sum. Qed.
Print Assumptions C11_breakup_energy.

(* ---- whole cascades.  [tree_ok 1 t]: positive Q at every vertex, final masses >= 0, -1 < cos(theta) < 1,
   and the eps conditions that keep every cross_unit / boost out of its _epsilon fallback.
   For EVERY decay tree t (sequential or branching, any depth, any number of final particles):
   cal_angle applied to the final-state momenta of build_data returns the (cos theta, cos phi, sin phi) of
   every vertex and LorentzVector.M of every particle returns its input mass. *)
Theorem C11_cascade_roundtrip : forall t, tree_ok 1 t ->
  (cal_angle (forget (fwd_mtree id3 t)) = dtree_angles t) /\
  (mtree_masses (infer (forget (fwd_mtree id3 t))) = dtree_masses t).
Proof. exact cascade_roundtrip. Qed.
Print Assumptions C11_cascade_roundtrip.

(* the instance named in the design: A -> R C, R -> B D *)
Theorem C11_cascade_roundtrip_3 : forall mA mR mB mC mD c0 phi0 c1_ phi1,
  let t := DNode mA c0 phi0 (DNode mR c1_ phi1 (DLeaf mB) (DLeaf mD)) (DLeaf mC) in
  tree_ok 1 t ->
  cal_angle (forget (fwd_mtree id3 t)) = [(c0, cos phi0, sin phi0); (c1_, cos phi1, sin phi1)] /\
  mtree_masses (infer (forget (fwd_mtree id3 t))) = [mA; mR; mB; mD; mC].
Proof. intros. apply (cascade_roundtrip t). assumption. Qed.
Print Assumptions C11_cascade_roundtrip_3.

(* ---- Dalitz variables (m12, m23 are the squared invariant masses) *)
Theorem C11_dalitz_reproduces : forall m12 m23 m0 m1 m2 m3, dalitz_physical m12 m23 m0 m1 m2 m3 ->
  let p1 := dalitz_p1 m12 m23 m0 m1 m2 m3 in
  let p2 := dalitz_p2 m12 m23 m0 m1 m2 m3 in
  let p3 := dalitz_p3 m12 m23 m0 m1 m2 m3 in
  mass2 (add4 p1 p2) = m12 /\ mass2 (add4 p2 p3) = m23 /\
  mass2 p1 = m1 ^ 2 /\ mass2 p2 = m2 ^ 2 /\ mass2 p3 = m3 ^ 2 /\ add4 (add4 p1 p2) p3 = V4 m0 0 0 0.
Proof. exact dalitz_reproduces. Qed.
Print Assumptions C11_dalitz_reproduces.

(* ---- non-vacuity *)
Example C11_vel_ok_example : vel_ok (V3 (1/2) 0 0).
Proof. unfold vel_ok, norm2_3, dot3, eps; cbn; lra. Qed.
Example C11_rotation_example : rotation id3.
Proof. exact rotation_id3. Qed.
(* the hypotheses of the cascade theorem are satisfiable: a branching-free 3-body cascade with a massless final particle *)
Example C11_tree_ok_example :
  tree_ok 1 (DNode 2 (1/2) 1 (DNode 1 (-1/3) 2 (DLeaf (1/4)) (DLeaf 0)) (DLeaf (1/4))).
Proof.
  cbn [tree_ok dmass]. unfold rel_p, rmax, eps. repeat split; try lra; try interval.
Qed.
