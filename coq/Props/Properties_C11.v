(* C11 — statements only. *)
From Coq Require Import Reals List Lra.
From TFV Require Import Base.RBase Kin.Boost Kin.Boost_proofs.
Import ListNotations.
Open Scope R_scope.

Theorem C11_boost_inverse : forall p v, vel_ok v -> boost (boost p v) (neg3 v) = p.
Proof. exact boost_inverse. Qed.
Print Assumptions C11_boost_inverse.
