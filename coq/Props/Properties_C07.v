(* C07 - returned gradients and Hessians are the true derivatives of the returned NLL.  Statements only.
   Model: Lik/Grad.v.  Per-event amplitude derivatives are inputs (oracle: TensorFlow autodiff of the
   amplitude alone); the theorems say that the hand-written assembly of gradient, Hessian, Hessian-vector
   product, cfit chain rule, Gaussian-constraint terms and bound-transform chain rules is the derivative
   of the NLL value of Lik/NLL.v (the one C06 ties to the code). *)
From Coq Require Import Reals List Lra.
From Coquelicot Require Import Coquelicot.
From TFV Require Import Base.RSum Lik.NLL Lik.NLL_proofs Lik.Grad Lik.Grad_proofs Lik.GradCfit_proofs.
Import ListNotations.
Open Scope R_scope.

(* gradient component: along any coordinate theta, with per-event f_i(theta), g_j(theta) differentiable *)
Theorem C07_grad_default_is_derive : forall ext (w v : list R) (Fs Gs : list (R -> R)) (dF dG : list R) (t : R),
  Forall2 (fun (F : R -> R) (d : R) => is_derive F t d) Fs dF ->
  Forall2 (fun (G : R -> R) (d : R) => is_derive G t d) Gs dG ->
  List.Forall (fun F : R -> R => eps_clip < F t) Fs ->
  (ext = false -> 0 < rdot v (evalat Gs t)) ->
  is_derive (fun u => nll_gradval ext w (evalat Fs u) v (evalat Gs u)) t
            (grad_default ext w (evalat Fs t) dF v (evalat Gs t) dG).
Proof. exact grad_default_is_derive. Qed.
Print Assumptions C07_grad_default_is_derive.

(* clip_log is C^1 at eps = 1e-6: values and slopes of the two branches agree, dclip_log is the derivative on both sides *)
Theorem C07_clip_log_C1 :
  clip_log eps_clip = ln eps_clip /\ dclip_log eps_clip = / eps_clip /\
  (forall x, eps_clip < x -> is_derive clip_log x (dclip_log x)) /\
  (forall x, x < eps_clip -> is_derive clip_log x (dclip_log x)) /\
  (forall x, x <= eps_clip -> Rabs (dclip_log x - / eps_clip) = Rabs (x - eps_clip) / (eps_clip * eps_clip)).
Proof. exact clip_log_C1. Qed.
Print Assumptions C07_clip_log_C1.

(* Hessian entry (k,l): derivative along coordinate l of gradient component k
   (As, Bs = per-event d_k f, d_k g as functions along coordinate l) - includes the outer-product term *)
Theorem C07_hess_default_is_derive : forall ext (w v : list R) (Fs As Gs Bs : list (R -> R)) (dFl d2F dGl d2G : list R) (t : R),
  Forall2 (fun (F : R -> R) (d : R) => is_derive F t d) Fs dFl ->
  Forall2 (fun (A : R -> R) (d : R) => is_derive A t d) As d2F ->
  Forall2 (fun (G : R -> R) (d : R) => is_derive G t d) Gs dGl ->
  Forall2 (fun (B : R -> R) (d : R) => is_derive B t d) Bs d2G ->
  List.Forall (fun F : R -> R => F t <> 0) Fs ->
  (ext = false -> rdot v (evalat Gs t) <> 0) ->
  is_derive (fun u => grad_default ext w (evalat Fs u) (evalat As u) v (evalat Gs u) (evalat Bs u)) t
            (hess_default ext w (evalat Fs t) (evalat As t) dFl d2F v (evalat Gs t) (evalat Bs t) dGl d2G).
Proof. exact hess_default_is_derive. Qed.
Print Assumptions C07_hess_default_is_derive.

(* Hessian-vector product of grad_hessp_batch = (row k of the Hessian) . p *)
Theorem C07_hessp_is_hess_times_p : forall ext sw int gik (hln hint gi p : list R),
  length hln = length p -> length hint = length p -> length gi = length p ->
  hessp_default ext sw int (rdot hln p) (rdot hint p) gik (rdot gi p)
  = row_dot (hess_row ext sw int gik hln hint gi) p.
Proof. exact hessp_is_hess_times_p. Qed.
Print Assumptions C07_hessp_is_hess_times_p.

(* Gaussian constraints *)
Theorem C07_gauss_grad_is_derive : forall th mean sigma : R,
  is_derive (fun x => gauss_one (x, mean, sigma)) th (gauss_grad (th, mean, sigma)).
Proof. exact gauss_grad_is_derive. Qed.
Print Assumptions C07_gauss_grad_is_derive.

Theorem C07_gauss_hess_is_derive : forall th mean sigma : R,
  is_derive (fun x => gauss_grad (x, mean, sigma)) th (gauss_hess (th, mean, sigma)).
Proof. exact gauss_hess_is_derive. Qed.
Print Assumptions C07_gauss_hess_is_derive.

Theorem C07_total_is_derive : forall (N : R -> R) (th g mean sigma : R),
  is_derive N th g ->
  is_derive (fun x => fcn_total (N x) [(x, mean, sigma)]) th (grad_total g (gauss_grad (th, mean, sigma))).
Proof. exact total_is_derive. Qed.
Print Assumptions C07_total_is_derive.

(* FCN.grad_hessp must return (H + H_c) p - the statement violated by defect F5 (H_c p replaced by 0) *)
Theorem C07_hessp_with_constraint : forall (hrow p : list R) k ch,
  (k < length hrow)%nat ->
  hessp_total (row_dot hrow p) ch (nth k p 0) = row_dot (rzip Rplus hrow (unit_row k (length hrow) ch)) p.
Proof. exact hessp_with_constraint. Qed.
Print Assumptions C07_hessp_with_constraint.

(* bound transforms: first and second derivatives of the three default transforms; range *)
Theorem C07_bound_dydx_is_derive : forall a b x : R,
  is_derive (y_sin a b) x (dy_sin a b x) /\ is_derive (y_lo a) x (dy_lo x) /\ is_derive (y_up b) x (dy_up x).
Proof. exact bound_dydx_is_derive. Qed.
Print Assumptions C07_bound_dydx_is_derive.

Theorem C07_bound_d2ydx2_is_derive : forall a b x : R,
  is_derive (dy_sin a b) x (d2y_sin a b x) /\ is_derive dy_lo x (d2y_lo x) /\ is_derive dy_up x (d2y_up x).
Proof. exact bound_d2ydx2_is_derive. Qed.
Print Assumptions C07_bound_d2ydx2_is_derive.

Theorem C07_bound_range : forall a b x : R, a <= b -> a <= y_sin a b x <= b /\ a <= y_lo a x /\ y_up b x <= b.
Proof. exact bound_range. Qed.
Print Assumptions C07_bound_range.

(* chain rules of the VarsManager wrappers *)
Theorem C07_trans_fcn_grad_chain : forall (F Y : R -> R) (x gy dy : R),
  is_derive F (Y x) gy -> is_derive Y x dy -> is_derive (fun u => F (Y u)) x (trans_grad gy dy).
Proof. exact trans_fcn_grad_chain. Qed.
Print Assumptions C07_trans_fcn_grad_chain.

(* H_x = y' H_y y' + diag(g_y y'') : diagonal and off-diagonal entries *)
Theorem C07_trans_f_grad_hess_chain_diag : forall (G Y dY : R -> R) (x hy d2y : R),
  is_derive G (Y x) hy -> is_derive Y x (dY x) -> is_derive dY x d2y ->
  is_derive (fun u => trans_grad (G (Y u)) (dY u)) x (trans_hess hy (dY x) (dY x) (G (Y x)) d2y true).
Proof. exact trans_f_grad_hess_chain_diag. Qed.
Print Assumptions C07_trans_f_grad_hess_chain_diag.

Theorem C07_trans_f_grad_hess_chain_offdiag : forall (Gk Yl : R -> R) (xl hkl dyl c : R),
  is_derive Gk (Yl xl) hkl -> is_derive Yl xl dyl ->
  is_derive (fun u => trans_grad (Gk (Yl u)) c) xl (trans_hess hkl c dyl 0 0 false).
Proof. exact trans_f_grad_hess_chain_offdiag. Qed.
Print Assumptions C07_trans_f_grad_hess_chain_offdiag.

Theorem C07_trans_grad_hessp_chain : forall (hrow dys p : list R) (dyk gk d2k pk : R),
  length hrow = length p -> length dys = length p ->
  trans_hessp (rdot hrow (rzip Rmult p dys)) dyk gk d2k pk
  = rdot (rzip (fun h dy => trans_hess h dyk dy 0 0 false) hrow dys) p + gk * d2k * pk.
Proof. exact trans_grad_hessp_chain. Qed.
Print Assumptions C07_trans_grad_hessp_chain.

(* cfit: chain rule through I_sig (per event, and for the whole gradient) *)
Theorem C07_cfit_event_is_derive : forall (c1 c2 : R) (S Iu : R -> R) (t dS dI : R),
  is_derive S t dS -> is_derive Iu t dI -> Iu t <> 0 ->
  is_derive (fun u => c1 * S u / Iu u + c2) t (c1 * (dS * Iu t - S t * dI) / (Iu t * Iu t)).
Proof. exact cfit_event_is_derive. Qed.
Print Assumptions C07_cfit_event_is_derive.

Theorem C07_cfit_grad_is_derive : forall (c1 : R) (W c2 : list R) (Ss : list (R -> R)) (dS : list R) (Iu : R -> R) (t dI : R),
  Forall2 (fun (S : R -> R) (d : R) => is_derive S t d) Ss dS ->
  is_derive Iu t dI -> Iu t <> 0 ->
  List.Forall (fun x => 0 < x) (cfit_P c1 (Iu t) (evalat Ss t) c2) ->
  is_derive (fun u => - rdot W (map ln (cfit_P c1 (Iu u) (evalat Ss u) c2))) t
            (grad_cfit c1 W (evalat Ss t) dS c2 (Iu t) dI).
Proof. exact cfit_grad_is_derive. Qed.
Print Assumptions C07_cfit_grad_is_derive.

(* PARTIAL: the cfit / cfit_extended HESSIAN formulas (Grad.hess_cfit, hess_cfit_ext, grad_cfit_ext) are tied to the code by
   Coq-Interval goals but their is_derive theorem is not proved here.  Full statement kept visible: *)
Definition C07_cfit_hess_is_derive_statement : Prop :=
  forall (c1 : R) (W c2 : list R) (Ss As : list (R -> R)) (dSl d2S : list R) (Iu Ik : R -> R) (t dIl d2I : R),
  Forall2 (fun (S : R -> R) (d : R) => is_derive S t d) Ss dSl ->
  Forall2 (fun (A : R -> R) (d : R) => is_derive A t d) As d2S ->
  is_derive Iu t dIl -> is_derive Ik t d2I -> Iu t <> 0 ->
  List.Forall (fun x => 0 < x) (cfit_P c1 (Iu t) (evalat Ss t) c2) ->
  is_derive (fun u => grad_cfit c1 W (evalat Ss u) (evalat As u) c2 (Iu u) (Ik u)) t
            (hess_cfit c1 W (evalat Ss t) (evalat As t) dSl d2S c2 (Iu t) (Ik t) dIl d2I).

(* the value returned alongside the gradient / Hessian is the stand-alone value (same model term; C06) *)
Theorem C07_value_alongside_equals_standalone : forall ext ws bgw f v g,
  let w := blend ws bgw in
  rsum w <> 0 -> rsum (sqs w) <> 0 -> rsum v <> 0 ->
  nll_grad_default ext ws bgw f v g = nll_default ext ws bgw f v g.
Proof. exact value_alongside_equals_standalone. Qed.
Print Assumptions C07_value_alongside_equals_standalone.

(* batch independence of value and gradient: both are sums over events (C06_nll_batch_independent; the
   gradient formula is built from the same rdot sums) *)

(* non-vacuity *)
(* cfit / cfit_extended Hessian: the hand-written second-derivative formulas (chain rule through I_sig with its
   first and second derivatives) are the derivatives of the cfit gradient formulas along any coordinate *)
Theorem C07_cfit_hess_is_derive : forall (c1 : R) (W c2 : list R) (Ss As : list (R -> R)) (dSl d2S : list R)
        (Iu Ik : R -> R) (t dIl d2I : R),
  Forall2 (fun (S : R -> R) (d : R) => is_derive S t d) Ss dSl ->
  Forall2 (fun (A : R -> R) (d : R) => is_derive A t d) As d2S ->
  is_derive Iu t dIl -> is_derive Ik t d2I -> Iu t <> 0 ->
  List.Forall (fun x => x <> 0) (cfit_P c1 (Iu t) (evalat Ss t) c2) ->
  is_derive (fun u => grad_cfit c1 W (evalat Ss u) (evalat As u) c2 (Iu u) (Ik u)) t
            (hess_cfit c1 W (evalat Ss t) (evalat As t) dSl d2S c2 (Iu t) (Ik t) dIl d2I).
Proof. exact cfit_hess_is_derive. Qed.
Print Assumptions C07_cfit_hess_is_derive.

Theorem C07_cfit_ext_hess_is_derive : forall (c1 : R) (W c2 : list R) (Ss As : list (R -> R)) (dSl d2S : list R)
        (Iu Ik : R -> R) (t dIl d2I : R),
  Forall2 (fun (S : R -> R) (d : R) => is_derive S t d) Ss dSl ->
  Forall2 (fun (A : R -> R) (d : R) => is_derive A t d) As d2S ->
  is_derive Iu t dIl -> is_derive Ik t d2I -> Iu t <> 0 ->
  List.Forall (fun x => x <> 0) (cfit_P c1 (Iu t) (evalat Ss t) c2) ->
  is_derive (fun u => grad_cfit_ext c1 W (evalat Ss u) (evalat As u) c2 (Iu u) (Ik u)) t
            (hess_cfit_ext c1 W (evalat Ss t) (evalat As t) dSl d2S c2 (Iu t) (Ik t) dIl d2I).
Proof. exact cfit_ext_hess_is_derive. Qed.
Print Assumptions C07_cfit_ext_hess_is_derive.

Example C07_example_grad : grad_default false [1] [2] [3] [1] [4] [2] = - (3 / 2) + 1 * (2 * / 4).
Proof. unfold grad_default. cbn [rdot rzip rsum int_g]. lra. Qed.
Example C07_example_bound : dy_sin 0 2 0 = 1.
Proof. unfold dy_sin. rewrite cos_0. lra. Qed.
(* finding F13 (repaired by fix_C07/patch_1: FCN.get_grad_hessp of a model with its own nll_grad_batch but
   without grad_hessp_batch returns (g, H.p) from the model's own nll_grad_hessian, so that
   C07_hessp_with_constraint applies to every model): the OLD FCN.grad_hessp returned the DEFAULT-likelihood
   gradient for the cfit family; the two formulas differ already for one event with a background term (witness): *)
Example C07_cfit_grad_differs_from_default_grad :
  grad_cfit (1/2) [1] [1] [1] [1/2] 1 0 <> grad_default false [1] [1] [1] [1] [1] [0].
Proof.
  unfold grad_cfit, grad_default. cbn [cfit_dP cfit_P rzip rdot rsum int_g].
  intros H. field_simplify in H. lra.
Qed.

(* ---- hunt-fix round ---- *)

(* Gaussian constraints on tied names (var_equal): all constraints whose names share the variable cell theta
   enter the value (gauss_term), the gradient and the Hessian diagonal of that coordinate (after patch_2) *)
Theorem C07_gauss_shared_cell_grad_is_derive : forall (ms : list (R * R)) (th : R),
  is_derive (fun x => gauss_term (gauss_cell x ms)) th (gauss_cell_grad th ms).
Proof. exact gauss_cell_grad_is_derive. Qed.
Print Assumptions C07_gauss_shared_cell_grad_is_derive.

Theorem C07_gauss_shared_cell_hess_is_derive : forall (ms : list (R * R)) (th : R),
  is_derive (fun x => gauss_cell_grad x ms) th (gauss_cell_hess th ms).
Proof. exact gauss_cell_hess_is_derive. Qed.
Print Assumptions C07_gauss_shared_cell_hess_is_derive.

Theorem C07_total_shared_is_derive : forall (N : R -> R) (th g : R) (ms : list (R * R)),
  is_derive N th g ->
  is_derive (fun x => fcn_total (N x) (gauss_cell x ms)) th (grad_total g (gauss_cell_grad th ms)).
Proof. exact total_shared_is_derive. Qed.
Print Assumptions C07_total_shared_is_derive.

(* the OLD get_constrain_grad skipped a constraint keyed by the tied (non-head) name: not the derivative of the value *)
Theorem C07_gauss_tied_old_refuted :
  exists (ms : list (bool * (R * R))) (th : R),
    ~ is_derive (fun x => gauss_term (gauss_cell x (map snd ms))) th (gauss_cell_grad_old th ms).
Proof. exact gauss_tied_old_refuted. Qed.
Print Assumptions C07_gauss_tied_old_refuted.

(* Model_cfit.nll with clip_log (patch_5): the stand-alone value is the value returned alongside the gradient *)
Theorem C07_cfit_value_alongside_equals_standalone : forall (fb : R) (w e f b V eg g bm : list R),
  rsum w <> 0 -> rsum (sqs w) <> 0 ->
  cfit_call_clip fb (scale_w w) e f b V eg g bm = cfit_gradval fb (scale_w w) e f b V eg g bm.
Proof. exact cfit_value_alongside_equals_standalone. Qed.
Print Assumptions C07_cfit_value_alongside_equals_standalone.

(* the OLD Model_cfit.nll (plain ln) differs from it for an event density below the clip threshold *)
Theorem C07_cfit_old_value_alongside_refuted :
  exists (fb : R) (W e f b V eg g bm : list R),
    scale_w W = W /\ cfit_call fb W e f b V eg g bm <> cfit_gradval fb W e f b V eg g bm.
Proof. exact cfit_old_value_alongside_refuted. Qed.
Print Assumptions C07_cfit_old_value_alongside_refuted.

(* fit_improve.Cached_FG NaN repair (patch_7): central difference = derivative + d h^2 on cubics (exact on
   quadratics); the OLD quotient (f(x+h) - f(x)) / 2h is half the derivative *)
Theorem C07_cached_fg_central_difference : forall a b c d x h : R, h <> 0 ->
  is_derive (fun u => d * (u * u * u) + a * (u * u) + b * u + c) x (3 * d * (x * x) + 2 * a * x + b) /\
  fd_central (fun u => d * (u * u * u) + a * (u * u) + b * u + c) x h = (3 * d * (x * x) + 2 * a * x + b) + d * (h * h).
Proof. exact cached_fg_central_difference. Qed.
Print Assumptions C07_cached_fg_central_difference.

Theorem C07_cached_fg_old_refuted :
  exists (F : R -> R) (x h dF : R), h <> 0 /\ is_derive F x dF /\ fd_old F x h = dF / 2 /\ fd_old F x h <> dF.
Proof. exact fd_old_refuted. Qed.
Print Assumptions C07_cached_fg_old_refuted.
