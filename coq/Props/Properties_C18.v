(* C18 - structured event data operations are lossless.
   Statements only; each closed by [exact] of a lemma from State/Data_proofs.v.

   [data_split mx b d] = the pieces list(data_split(d, b)) (mx = data_generator's MAX_ITER = 1000,
   used only when d holds no array), [merge_all] = data_merge of the pieces, [uniform n d] = every
   array in d has n rows (one sample), [has_leaf d] = there is an array, [nbatches n b] = number of
   batches of n rows in steps of b (= ceil(n/b)). *)
From Coq Require Import ZArith List Bool Arith.
From TFV Require Import State.Data State.Data_proofs State.DataLazy_proofs.
Import ListNotations.

(* merge (split b d) = d: every tree (any nesting; empty dicts / lists / tuples anywhere), every
   batch size b > 0 - 1, dividing, non-dividing, larger than the sample -, every sample size n > 0. *)
Theorem C18_merge_split_id :
  forall mx b n d,
    0 < b -> 0 < n -> uniform n d -> has_leaf d = true ->
    merge_all (data_split mx b d) = Some d.
Proof. exact merge_split_id. Qed.
Print Assumptions C18_merge_split_id.

(* the model writes sys.maxsize as "the total number of batches of all arrays"; the generator run
   with ANY bound big that is not smaller than the number of batches yields the same pieces *)
Theorem C18_bound_irrelevant :
  forall big mx b n d, 0 < n -> uniform n d -> has_leaf d = true -> nbatches n b <= big ->
    gen big b d = data_split mx b d.
Proof. exact bound_irrelevant. Qed.
Print Assumptions C18_bound_irrelevant.

Theorem C18_nbatches_le : forall n b, 0 < b -> nbatches n b <= n.
Proof. exact nbatches_le. Qed.
Print Assumptions C18_nbatches_le.

(* the leaf level: the batches of an array concatenate to the array *)
Theorem C18_chunks_concat : forall (b : nat) (rows : list Z), 0 < b -> concat (chunk b rows) = rows.
Proof. intros. apply chunk_concat. assumption. Qed.
Print Assumptions C18_chunks_concat.

(* batch_call f = f for every function that commutes with merging ... *)
Theorem C18_batch_call_eq :
  forall fn mx b n d, commutes fn ->
    0 < b -> 0 < n -> uniform n d -> has_leaf d = true ->
    batch_call fn mx b d = Some (fn d).
Proof. exact batch_call_eq. Qed.
Print Assumptions C18_batch_call_eq.
(* ... in particular for every row-wise function applied to the arrays (data_map of an additive g) *)
Theorem C18_rowwise_commutes : forall g, additive g -> commutes (map_leaves g).
Proof. exact map_leaves_commutes. Qed.
Print Assumptions C18_rowwise_commutes.

(* mask: tf.boolean_mask keeps exactly the rows whose flag is set, in order ... *)
Theorem C18_select_spec :
  forall (sel : list bool) (rows : list Z), select sel rows = map snd (filter fst (combine sel rows)).
Proof. exact (select_spec Z). Qed.
Print Assumptions C18_select_spec.
(* ... in EVERY array: whatever path addresses an array, the masked structure holds the selected rows
   of that array there (and nothing else changes) *)
Theorem C18_mask_selects :
  forall sel path d, index (mask sel d) path = option_map (mask sel) (index d path).
Proof. intros. apply mask_index_commute. Qed.
Print Assumptions C18_mask_selects.
(* masks of concatenated samples *)
Theorem C18_mask_merge_rows :
  forall (s1 s2 : list bool) (r1 r2 : list Z), length s1 = length r1 ->
    select (s1 ++ s2) (r1 ++ r2) = select s1 r1 ++ select s2 r2.
Proof. exact (select_app Z). Qed.
Print Assumptions C18_mask_merge_rows.

(* data_index with a key path = successive lookups *)
Theorem C18_index_selects :
  forall p q d, index d (p ++ q) = match index d p with Some x => index x q | None => None end.
Proof. exact index_app. Qed.
Print Assumptions C18_index_selects.

Theorem C18_data_shape : forall n d, uniform n d -> has_leaf d = true -> data_shape d = Some n.
Proof. exact data_shape_uniform. Qed.
Print Assumptions C18_data_shape.

(* dat layout: load (save ps) = ps for any number of particles and events *)
Theorem C18_dat_layout_inverse :
  forall (ps : list (list Z)) N, ps <> [] -> (forall p, In p ps -> length p = N) ->
    load 0%Z (length ps) (save 0%Z ps) = ps.
Proof. exact (dat_layout_inverse 0%Z). Qed.
Print Assumptions C18_dat_layout_inverse.
(* several files, each with a consecutive group of particles *)
Theorem C18_dat_files_inverse :
  forall (groups : list (list (list Z))) N, 0 < N ->
    (forall g, In g groups -> g <> [] /\ forall p, In p g -> length p = N) ->
    load_files 0%Z (length (concat groups)) (map (save 0%Z) groups) = concat groups.
Proof. exact (dat_files_inverse 0%Z). Qed.
Print Assumptions C18_dat_files_inverse.
(* particle order (dat_order / savetxt order): same order on both sides gives every particle its own rows *)
Theorem C18_dat_order_inverse :
  forall (order : list Z) (mom : list (Z * list Z)) N, order <> [] ->
    (forall name, In name order -> exists p, alookup name mom = Some p /\ length p = N) ->
    load_order order (savetxt_order order mom) =
    map (fun name => (name, match alookup name mom with Some p => p | None => [] end)) order.
Proof. exact dat_order_inverse. Qed.
Print Assumptions C18_dat_order_inverse.

(* lazy = eager, LazyCall WITH extra entries (any number of batches, any batch size, extra with or without arrays):
   the lazily produced batches {**f(x_i), **extra_i} merged back are {**f(x), **extra} *)
Theorem C18_lazy_eq_eager :
  forall fn mx b n x extra, commutes fn ->
    0 < b -> 0 < n -> uniform n x -> has_leaf x = true -> uniform n extra ->
    merge_all (lazy_batches fn mx b x extra) = Some (lazy_eval fn x extra).
Proof. exact lazy_with_extra_eq_eager. Qed.
Print Assumptions C18_lazy_eq_eager.
(* the no-extra instance *)
Theorem C18_lazy_eq_eager_no_extra :
  forall fn mx b n x, commutes fn ->
    0 < b -> 0 < n -> uniform n x -> has_leaf x = true ->
    merge_all (lazy_batches fn mx b x empty_dict) = Some (lazy_eval fn x empty_dict).
Proof. exact lazy_eq_eager. Qed.
Print Assumptions C18_lazy_eq_eager_no_extra.
(* the iteration between /repo d64dc15 and 81b15cd violated the statement for a non-empty extra WITHOUT arrays
   (x = {0:[1,2]}, extra = {7:{}}, MAX_ITER 1: row 2 lost) - found while proving the statement; the current one satisfies it *)
Theorem C18_lazy_d64_array_free_extra_refuted :
  ~ lazy_d64_full_statement /\
  merge_all (lazy_batches (fun d => d) 1 1 cx_x cx_extra) = Some (lazy_eval (fun d => d) cx_x cx_extra).
Proof. exact lazy_d64_array_free_extra_refuted. Qed.
Print Assumptions C18_lazy_d64_array_free_extra_refuted.
(* F14 (repaired by d64dc15): the empty extra used to be split on its own (MAX_ITER copies of {}),
   which ended the iteration after MAX_ITER batches; the current iteration does not *)
Example C18_old_lazy_max_iter :
  exists fn mx b x, commutes fn /\ uniform 3 x /\ has_leaf x = true /\
    merge_all (lazy_batches_old fn mx b x empty_dict) <> Some (lazy_eval fn x empty_dict) /\
    merge_all (lazy_batches fn mx b x empty_dict) = Some (lazy_eval fn x empty_dict).
Proof. exact old_lazy_max_iter. Qed.

(* ---- observation ---- *)
(* F10: a structure without any array splits into MAX_ITER empty pieces *)
Theorem C18_split_no_array : forall mx b, data_split mx b (Node KDict FNil) = repeat (Node KDict FNil) mx.
Proof. exact split_no_array. Qed.
Print Assumptions C18_split_no_array.

(* ---- why the repairs 8ca0a85 / 6a76cf5 matter: the generator as it was (gen_old) ---- *)
Example C18_old_empty_tuple_vanishes :
  exists d, uniform 2 d /\ has_leaf d = true /\ merge_all (gen_old 1000 1 d) = None.
Proof. exact old_split_empty_tuple. Qed.
Example C18_old_max_iter_drops_rows :
  exists mx d, uniform 3 d /\ has_leaf d = true /\ merge_all (gen_old mx 1 d) <> Some d.
Proof. exact old_split_max_iter. Qed.
Example C18_new_same_structures :
  let d1 := Node KDict (FCons 0%Z (Leaf [1%Z; 2%Z]) (FCons 1%Z (Node KTuple FNil) FNil)) in
  let d2 := Node KDict (FCons 0%Z (Leaf [1%Z; 2%Z; 3%Z]) (FCons 1%Z (Node KDict FNil) FNil)) in
  merge_all (data_split 1000 1 d1) = Some d1 /\ merge_all (data_split 2 1 d2) = Some d2.
Proof. exact new_split_examples. Qed.

(* non-vacuity *)
Example C18_example_tree :
  let d := Node KDict (FCons 0%Z (Leaf [1; 2; 3; 4; 5]%Z)
                      (FCons 1%Z (Node KList (FCons 0%Z (Leaf [11; 12; 13; 14; 15]%Z) (FCons 0%Z (Node KDict FNil) FNil)))
                      (FCons 2%Z (Node KTuple FNil) FNil))) in
  uniform 5 d /\ has_leaf d = true /\ nbatches 5 2 = 3 /\
  length (data_split 1000 2 d) = 3 /\ merge_all (data_split 1000 2 d) = Some d /\ merge_all (data_split 1000 7 d) = Some d.
Proof. vm_compute. repeat split; auto. Qed.
Example C18_example_dat :
  save 0%Z [[1; 2; 3]; [11; 12; 13]]%Z = [1; 11; 2; 12; 3; 13]%Z /\
  load 0%Z 2 [1; 11; 2; 12; 3; 13]%Z = [[1; 2; 3]; [11; 12; 13]]%Z.
Proof. vm_compute. split; reflexivity. Qed.

(* ---- repairs found by the independent hunt (2026-10): the model describes the code AFTER them ---- *)
(* axis = -1 (data_split(d, b, axis=-1) / data_merge of the pieces with axis=-1): a 2-D array as the list of its rows;
   splitting along the last axis and concatenating along the last axis reproduces the array for every
   batch size and any number of rows.  data_merge passes `axis` down to arrays at every nesting level since the
   repair (trees: the theorems above with "row" = slice along the split axis). *)
Theorem C18_split_merge_last_axis :
  forall b n (m : mat), 0 < b -> 0 < n -> m <> [] -> (forall r, In r m -> length r = n) ->
    concat_last (split_last b m) = m.
Proof. exact split_concat_last_id. Qed.
Print Assumptions C18_split_merge_last_axis.
(* before it, arrays inside a dict / list / tuple were concatenated along axis 0 whatever `axis` said *)
Theorem C18_merge_axis_old_refuted :
  let m := [[1; 2; 3; 4]; [11; 12; 13; 14]]%Z in
  concat_first (split_last 2 m) = [[1; 2]; [11; 12]; [3; 4]; [13; 14]]%Z /\
  concat_first (split_last 2 m) <> m /\ concat_last (split_last 2 m) = m.
Proof. exact merge_axis_old_refuted. Qed.
Print Assumptions C18_merge_axis_old_refuted.

(* LazyFile(x) = LazyCall(identity, x): lazy = eager with extra entries, on every pass *)
Theorem C18_lazyfile_eq_eager :
  forall mx b n x extra, 0 < b -> 0 < n -> uniform n x -> has_leaf x = true -> uniform n extra ->
    merge_all (lazy_batches (fun d => d) mx b x extra) = Some (lazy_eval (fun d => d) x extra).
Proof. exact lazyfile_eq_eager. Qed.
Print Assumptions C18_lazyfile_eq_eager.
(* the old LazyFile.eval (x alone) and the old repeated as_dataset (bare x batches) lost the extra entries *)
Theorem C18_lazyfile_old_refuted :
  uniform 3 lf_x /\ uniform 3 lf_extra /\ has_leaf lf_x = true /\
  merge_all (lazy_batches (fun d => d) 1000 2 lf_x lf_extra) <> Some (lazyfile_eval_old lf_x lf_extra) /\
  merge_all (lazyfile_batches_again_old 1000 2 lf_x lf_extra) <> merge_all (lazy_batches (fun d => d) 1000 2 lf_x lf_extra) /\
  merge_all (lazy_batches (fun d => d) 1000 2 lf_x lf_extra) = Some (lazy_eval (fun d => d) lf_x lf_extra).
Proof. exact lazyfile_old_refuted. Qed.
Print Assumptions C18_lazyfile_old_refuted.

(* a LazyCall over an inner LazyCall shared with another object (copy / data_replace): [lazy_batches_shared fn mx bi bo]
   iterates the inner data with batch size bi and splits the own extra entries with bo.  Since the repair the
   iteration re-asserts its own batch size on the inner object (bi = bo): lazy = eager whatever the other object did *)
Theorem C18_lazy_shared_eq_eager :
  forall fn mx b n x extra, commutes fn ->
    0 < b -> 0 < n -> uniform n x -> has_leaf x = true -> uniform n extra ->
    merge_all (lazy_batches_shared fn mx b b x extra) = Some (lazy_eval fn x extra).
Proof. exact lazy_shared_eq_eager. Qed.
Print Assumptions C18_lazy_shared_eq_eager.
(* before it bi was the batch size last set through ANY sharing object: events lost, weights misaligned *)
Theorem C18_lazy_shared_inner_old_refuted :
  commutes (fun d => d) /\ uniform 4 sh_x /\ uniform 4 sh_extra /\ has_leaf sh_x = true /\
  merge_all (lazy_batches_shared (fun d => d) 1000 1 2 sh_x sh_extra) =
    Some (Node KDict (FCons 0%Z (Leaf [1; 2]%Z) (FCons 1%Z (Leaf [11; 12; 13; 14]%Z) FNil))) /\
  merge_all (lazy_batches_shared (fun d => d) 1000 1 2 sh_x sh_extra) <> Some (lazy_eval (fun d => d) sh_x sh_extra).
Proof. exact lazy_shared_inner_old_refuted. Qed.
Print Assumptions C18_lazy_shared_inner_old_refuted.
