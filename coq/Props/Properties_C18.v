(* C18 - structured event data operations are lossless.
   Statements only; each closed by [exact] of a lemma from State/Data_proofs.v.

   [gen mx b d] = the pieces list(data_split(d, b)) (mx = data_generator's MAX_ITER = 1000),
   [merge_all] = data_merge of the pieces, [uniform n d] = every array in d has n rows (one sample),
   [has_leaf d] = there is an array, [tuples_ok d] = no EMPTY TUPLE anywhere (empty dicts / lists
   are allowed), [nbatches n b] = number of batches of n rows in steps of b (= ceil(n/b)). *)
From Coq Require Import ZArith List Bool Arith.
From TFV Require Import State.Data State.Data_proofs.
Import ListNotations.

(* merge (split b d) = d: every tree (any nesting, empty dicts / lists anywhere), every batch size
   b > 0 - 1, dividing, non-dividing, larger than the sample -, every sample size n > 0. *)
Theorem C18_merge_split_id :
  forall mx b n d,
    0 < b -> 0 < n -> uniform n d -> has_leaf d = true -> tuples_ok d = true -> nbatches n b <= mx ->
    merge_all (gen mx b d) = Some d.
Proof. exact merge_split_id. Qed.
Print Assumptions C18_merge_split_id.

(* no empty container at all: no MAX_ITER condition *)
Theorem C18_merge_split_id_no_empty :
  forall mx b n d, 0 < b -> 0 < n -> uniform n d -> no_empty d = true -> merge_all (gen mx b d) = Some d.
Proof. exact merge_split_id_no_empty. Qed.
Print Assumptions C18_merge_split_id_no_empty.

(* the MAX_ITER condition holds whenever the sample has at most MAX_ITER rows *)
Theorem C18_nbatches_le : forall n b, 0 < b -> nbatches n b <= n.
Proof. exact nbatches_le. Qed.
Print Assumptions C18_nbatches_le.

(* the leaf level: the batches of an array concatenate to the array *)
Theorem C18_chunks_concat : forall (b : nat) (rows : list Z), 0 < b -> concat (chunk b rows) = rows.
Proof. intros. apply chunk_concat. assumption. Qed.
Print Assumptions C18_chunks_concat.

(* batch_call f = f for every function that commutes with merging ... *)
Theorem C18_batch_call_eq :
  forall fn mx b n d, commutes fn ->
    0 < b -> 0 < n -> uniform n d -> has_leaf d = true -> tuples_ok d = true -> nbatches n b <= mx ->
    batch_call fn mx b d = Some (fn d).
Proof. exact batch_call_eq. Qed.
Print Assumptions C18_batch_call_eq.
(* ... in particular for every row-wise function applied to the arrays (data_map of an additive g) *)
Theorem C18_rowwise_commutes : forall g, additive g -> commutes (map_leaves g).
Proof. exact map_leaves_commutes. Qed.
Print Assumptions C18_rowwise_commutes.

(* mask: tf.boolean_mask keeps exactly the rows whose flag is set, in order ... *)
Theorem C18_select_spec :
  forall (sel : list bool) (rows : list Z), select sel rows = map snd (filter fst (combine sel rows)).
Proof. exact (select_spec Z). Qed.
Print Assumptions C18_select_spec.
(* ... in EVERY array: whatever path addresses an array, the masked structure holds the selected rows
   of that array there (and nothing else changes) *)
Theorem C18_mask_selects :
  forall sel path d, index (mask sel d) path = option_map (mask sel) (index d path).
Proof. intros. apply mask_index_commute. Qed.
Print Assumptions C18_mask_selects.
(* masks of concatenated samples *)
Theorem C18_mask_merge_rows :
  forall (s1 s2 : list bool) (r1 r2 : list Z), length s1 = length r1 ->
    select (s1 ++ s2) (r1 ++ r2) = select s1 r1 ++ select s2 r2.
Proof. exact (select_app Z). Qed.
Print Assumptions C18_mask_merge_rows.

(* data_index with a key path = successive lookups *)
Theorem C18_index_selects :
  forall p q d, index d (p ++ q) = match index d p with Some x => index x q | None => None end.
Proof. exact index_app. Qed.
Print Assumptions C18_index_selects.

Theorem C18_data_shape : forall n d, uniform n d -> has_leaf d = true -> data_shape d = Some n.
Proof. exact data_shape_uniform. Qed.
Print Assumptions C18_data_shape.

(* dat layout: load (save ps) = ps for any number of particles and events *)
Theorem C18_dat_layout_inverse :
  forall (ps : list (list Z)) N, ps <> [] -> (forall p, In p ps -> length p = N) ->
    load 0%Z (length ps) (save 0%Z ps) = ps.
Proof. exact (dat_layout_inverse 0%Z). Qed.
Print Assumptions C18_dat_layout_inverse.
(* several files, each with a consecutive group of particles *)
Theorem C18_dat_files_inverse :
  forall (groups : list (list (list Z))) N, 0 < N ->
    (forall g, In g groups -> g <> [] /\ forall p, In p g -> length p = N) ->
    load_files 0%Z (length (concat groups)) (map (save 0%Z) groups) = concat groups.
Proof. exact (dat_files_inverse 0%Z). Qed.
Print Assumptions C18_dat_files_inverse.
(* particle order (dat_order / savetxt order): same order on both sides gives every particle its own rows *)
Theorem C18_dat_order_inverse :
  forall (order : list Z) (mom : list (Z * list Z)) N, order <> [] ->
    (forall name, In name order -> exists p, alookup name mom = Some p /\ length p = N) ->
    load_order order (savetxt_order order mom) =
    map (fun name => (name, match alookup name mom with Some p => p | None => [] end)) order.
Proof. exact dat_order_inverse. Qed.
Print Assumptions C18_dat_order_inverse.

(* lazy = eager, LazyCall without extra entries.  With extra entries the statement
   C18_lazy_full_statement below is tied by the correspondence only. *)
Theorem C18_lazy_eq_eager_partial :
  forall fn mx b n x, commutes fn ->
    0 < b -> 0 < n -> uniform n x -> has_leaf x = true -> tuples_ok x = true -> nbatches n b <= mx ->
    merge_all (lazy_batches fn mx b x empty_dict) = Some (lazy_eval fn x empty_dict).
Proof. exact lazy_eq_eager. Qed.
Print Assumptions C18_lazy_eq_eager_partial.
Definition C18_lazy_full_statement : Prop :=
  forall fn mx b n x extra, commutes fn ->
    0 < b -> 0 < n -> uniform n x -> has_leaf x = true -> tuples_ok x = true -> nbatches n b <= mx ->
    uniform n extra -> tuples_ok extra = true ->
    merge_all (lazy_batches fn mx b x extra) = Some (lazy_eval fn x extra).
(* missing: merging position-wise commutes with {**a, **b} when all f(x_i) have the same keys *)

(* ---- where the hypotheses bite (observations / findings on the current tree) ---- *)
(* F10: a structure without any array splits into MAX_ITER empty pieces *)
Theorem C18_split_no_array : forall mx b, gen mx b (Node KDict FNil) = repeat (Node KDict FNil) mx.
Proof. exact split_no_array. Qed.
Print Assumptions C18_split_no_array.
(* an empty tuple anywhere in the data: data_split yields nothing, the sample vanishes *)
Theorem C18_empty_tuple_refuted :
  exists d, uniform 2 d /\ has_leaf d = true /\ merge_all (gen 1000 1 d) = None.
Proof. exact split_empty_tuple_refuted. Qed.
Print Assumptions C18_empty_tuple_refuted.
(* more than MAX_ITER batches together with an empty container: the surplus rows are dropped *)
Theorem C18_max_iter_refuted :
  exists mx d, uniform 3 d /\ has_leaf d = true /\ tuples_ok d = true /\ merge_all (gen mx 1 d) <> Some d.
Proof. exact split_max_iter_refuted. Qed.
Print Assumptions C18_max_iter_refuted.
Definition C18_full_statement : Prop :=
  forall mx b n d, 0 < b -> 0 < n -> uniform n d -> has_leaf d = true -> merge_all (gen mx b d) = Some d.

(* non-vacuity *)
Example C18_example_tree :
  let d := Node KDict (FCons 0%Z (Leaf [1; 2; 3; 4; 5]%Z)
                      (FCons 1%Z (Node KList (FCons 0%Z (Leaf [11; 12; 13; 14; 15]%Z) (FCons 0%Z (Node KDict FNil) FNil)))
                      (FCons 2%Z (Node KList FNil) FNil))) in
  uniform 5 d /\ has_leaf d = true /\ tuples_ok d = true /\ nbatches 5 2 = 3 /\
  length (gen 1000 2 d) = 3 /\ merge_all (gen 1000 2 d) = Some d /\ merge_all (gen 1000 7 d) = Some d.
Proof. vm_compute. repeat split; auto. Qed.
Example C18_example_dat :
  save 0%Z [[1; 2; 3]; [11; 12; 13]]%Z = [1; 11; 2; 12; 3; 13]%Z /\
  load 0%Z 2 [1; 11; 2; 12; 3; 13]%Z = [[1; 2; 3]; [11; 12; 13]]%Z.
Proof. vm_compute. split; reflexivity. Qed.
