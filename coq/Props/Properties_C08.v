(* C08 - a returned fit result and the model state describe the same point.  Statements only.
   Model: State/Fit.v - the bookkeeping of tf_pwa/fit.py around an optimiser ORACLE ([opt : st -> list R * R],
   universally quantified: the theorems hold for ANY answer x*, f* of the optimiser).  The model is tied to the
   code by real fits on every run (harness/props/c08.py). *)
From Coq Require Import Reals List Bool Arith Lra.
From TFV Require Import State.Fit State.Fit_proofs.
Import ListNotations.
Open Scope R_scope.

(* for every minimiser branch and ANY optimiser answer, the state after the fit reads exactly the values
   listed in the result *)
Theorem C08_fit_state_is_result : forall m opt bd s n v,
  In (n, v) (r_params (snd (fit m opt bd s))) -> read (fst (fit m opt bd s)) n = v.
Proof. exact fit_state_is_result. Qed.
Print Assumptions C08_fit_state_is_result.

(* the result lists every variable, in every branch (iminuit: since patch_1 of the C08 hunt; the old branch listed the
   trainable ones only, see C08_minuit_old_save_load_refuted) *)
Theorem C08_result_names : forall opt bd s,
  map fst (r_params (snd (fit M_bfgs opt bd s))) = allnames s /\
  map fst (r_params (snd (fit M_lbfgsb opt bd s))) = allnames s /\
  map fst (r_params (snd (fit M_newton opt bd s))) = allnames s /\
  map fst (r_params (snd (fit M_minuit opt bd s))) = allnames s.
Proof. exact result_lists_all_names. Qed.
Print Assumptions C08_result_names.

(* fixed variables (their cell holds no trainable variable) are unchanged *)
Theorem C08_fixed_unchanged : forall m opt bd s n,
  ~ In (cellof s n) (map (cellof s) (train s)) -> read (fst (fit m opt bd s)) n = read s n.
Proof. exact fixed_unchanged. Qed.
Print Assumptions C08_fixed_unchanged.

(* tied variables are equal *)
Theorem C08_tied_equal : forall m opt bd s n k,
  cellof s n = cellof s k -> read (fst (fit m opt bd s)) n = read (fst (fit m opt bd s)) k.
Proof. exact tied_equal. Qed.
Print Assumptions C08_tied_equal.

(* range of the bound transforms: a <= T(x) <= b (resp. one-sided) for EVERY real x *)
Theorem C08_bound_range : forall b x, bound_ok b -> in_bound b (bt b x).
Proof. exact bound_range. Qed.
Print Assumptions C08_bound_range.

(* hence, in the branches that minimise in the transformed variables (BFGS, CG, Newton-CG and the trust-region methods), a bounded
   trainable variable ends inside its bounds whatever the optimiser answers ... *)
Theorem C08_bounded_inside_transforming : forall (newton : bool) opt bd s i n b,
  let m := if newton then M_newton else M_bfgs in
  NoDup (map (cellof s) (train s)) -> nth_error (train s) i = Some n -> lookup bd n = Some b -> bound_ok b ->
  length (fst (opt (set_bound s bd))) = length (train s) -> polar_untied s n ->
  in_bound b (read (fst (fit m opt bd s)) n).
Proof. exact bounded_inside_transforming. Qed.
Print Assumptions C08_bounded_inside_transforming.

(* ... and in the box-constrained branches (L-BFGS-B, iminuit) under the contract that the optimiser answers
   inside the box it was given *)
Theorem C08_bounded_inside_box : forall (minuit : bool) opt bd s i n b,
  let m := if minuit then M_minuit else M_lbfgsb in
  NoDup (map (cellof s) (train s)) -> nth_error (train s) i = Some n -> lookup bd n = Some b ->
  length (fst (opt s)) = length (train s) -> polar_untied s n ->
  in_bound b (nth i (fst (opt s)) 0) ->
  in_bound b (read (fst (fit m opt bd s)) n).
Proof. exact bounded_inside_box. Qed.
Print Assumptions C08_bounded_inside_box.

(* the reported minimum is the NLL at the final state, under the optimiser contract f* = F(point it returned)
   and the invariance of the NLL under (r, phi) -> (-r, phi + pi) *)
Theorem C08_fit_min_is_nll_at_state_transforming : forall (F : (name -> R) -> R),
  (forall skip s, F (read (standard_complex skip s)) = F (read s)) ->
  forall (newton : bool) opt bd s,
  let m := if newton then M_newton else M_bfgs in
  let s1 := set_bound s bd in
  snd (opt s1) = F (read (set_trans_var s1 (fst (opt s1)))) ->
  r_min (snd (fit m opt bd s)) = F (read (fst (fit m opt bd s))).
Proof. exact min_is_nll_transforming. Qed.
Print Assumptions C08_fit_min_is_nll_at_state_transforming.

Theorem C08_fit_min_is_nll_at_state_box : forall (F : (name -> R) -> R),
  (forall skip s, F (read (standard_complex skip s)) = F (read s)) ->
  forall (minuit : bool) opt bd s,
  let m := if minuit then M_minuit else M_lbfgsb in
  snd (opt s) = F (read (set_all s (train s) (fst (opt s)))) ->
  r_min (snd (fit m opt bd s)) = F (read (fst (fit m opt bd s))).
Proof. exact min_is_nll_box. Qed.
Print Assumptions C08_fit_min_is_nll_at_state_box.

Theorem C08_fit_not_above_start : forall (F : (name -> R) -> R) m opt bd s,
  snd (opt (match m with M_bfgs | M_newton => set_bound s bd | _ => s end)) <= F (read s) ->
  r_min (snd (fit m opt bd s)) <= F (read s).
Proof. exact not_above_start. Qed.
Print Assumptions C08_fit_not_above_start.

(* repeated fits in one session: ties and name lists never change and bnd_dic is empty again after every fit,
   so every theorem above applies to every fit of the session; fixed stay fixed, tied stay equal *)
Theorem C08_bnd_empty_after_fit : forall opt bd s,
  bnd (fst (fit M_bfgs opt bd s)) = [] /\ bnd (fst (fit M_newton opt bd s)) = [].
Proof. exact fit_bnd_transforming. Qed.
Print Assumptions C08_bnd_empty_after_fit.

Theorem C08_repeat_fit_invariants : forall l bd s, bnd s = [] ->
  same_shape (fit_seq l bd s) s /\ bnd (fit_seq l bd s) = [].
Proof. exact fit_seq_invariants. Qed.
Print Assumptions C08_repeat_fit_invariants.

Theorem C08_repeat_fit_fixed : forall l bd s n,
  ~ In (cellof s n) (map (cellof s) (train s)) -> read (fit_seq l bd s) n = read s n.
Proof. exact fit_seq_fixed. Qed.
Print Assumptions C08_repeat_fit_fixed.

Theorem C08_repeat_fit_tied : forall l bd s n k,
  cellof s n = cellof s k -> read (fit_seq l bd s) n = read (fit_seq l bd s) k.
Proof. exact fit_seq_tied. Qed.
Print Assumptions C08_repeat_fit_tied.

(* writing the values to a file and loading them into a freshly built model with the same variables and ties
   reproduces every value (neglected names keep the fresh model's value, which must already agree) *)
Theorem C08_save_load_identity : forall (s t : st) neg n,
  cellof t = cellof s -> allnames t = allnames s -> In n (allnames s) ->
  (forall k, mem k neg = true -> read t k = read s k) ->
  read (load (save s) neg t) n = read s n.
Proof. exact save_load_identity. Qed.
Print Assumptions C08_save_load_identity.

(* the RESULT of any branch (iminuit included), written to a file and loaded into a freshly built model with the same variables
   and ties, brings that model to the fitted point - whatever the fresh model's fixed values were *)
Theorem C08_result_save_load : forall m opt bd (s t : st) neg n,
  cellof t = cellof s -> allnames t = allnames s -> In n (allnames s) ->
  (forall k, mem k neg = true -> read t k = read (fst (fit m opt bd s)) k) ->
  read (load (r_params (snd (fit m opt bd s))) neg t) n = read (fst (fit m opt bd s)) n.
Proof. exact result_save_load. Qed.
Print Assumptions C08_result_save_load.

(* the iminuit branch BEFORE the repair: a fixed name is absent from the result and the fresh model keeps its own value *)
Theorem C08_minuit_old_save_load_refuted :
  cellof ex_m_t = cellof ex_m_s /\ allnames ex_m_t = allnames ex_m_s /\ In 0%nat (allnames ex_m_s) /\
  ~ In 0%nat (map fst (r_params (snd (fit_minuit_old (fun _ => ([1], 0)) [] ex_m_s)))) /\
  read (load (r_params (snd (fit_minuit_old (fun _ => ([1], 0)) [] ex_m_s))) [] ex_m_t) 0%nat
    <> read (fst (fit_minuit_old (fun _ => ([1], 0)) [] ex_m_s)) 0%nat.
Proof. exact minuit_old_save_load_refuted. Qed.
Print Assumptions C08_minuit_old_save_load_refuted.

(* a BFGS / CG fit stopped by the library's own guard (LargeNumberError -> except_result): same bookkeeping as the Newton
   branches (so every theorem about [fit M_newton] holds for it), in particular bnd_dic is empty again ... *)
Theorem C08_except_is_newton_bookkeeping : fit_except = fit M_newton.
Proof. exact fit_except_is_newton. Qed.
Theorem C08_except_bnd_empty : forall opt bd s, bnd (fst (fit_except opt bd s)) = [].
Proof. exact except_bnd_empty. Qed.
Print Assumptions C08_except_bnd_empty.
(* ... which the early return did NOT do before the repair (patch_7): every declared bound stayed registered *)
Theorem C08_except_old_leaks_bounds_refuted : forall opt bd s, bd <> [] -> bnd (fst (fit_except_old opt bd s)) <> [].
Proof. exact except_old_leaks_bounds. Qed.
Print Assumptions C08_except_old_leaks_bounds_refuted.

(* bounds declared on ANY member of a tie (fit.py _trainable_bounds, patch_6): every configured entry (k, b) is enforced
   through the entry of the listed name of k's cell, which is at least as tight *)
Theorem C08_norm_bounds_refines : forall s bd k b,
  In (k, b) bd -> exists b', lookup (norm_bounds s bd) (head_of s k) = Some b' /\ (forall y, in_bound b' y -> in_bound b y).
Proof. exact norm_bounds_refines. Qed.
Print Assumptions C08_norm_bounds_refines.

Theorem C08_tied_bounded_inside_transforming : forall (newton : bool) opt bd s i n k b,
  let m := if newton then M_newton else M_bfgs in
  NoDup (map (cellof s) (train s)) -> nth_error (train s) i = Some n -> cellof s k = cellof s n -> In (k, b) bd ->
  (forall b', lookup (norm_bounds s bd) n = Some b' -> bound_ok b') ->
  length (fst (opt (set_bound s (norm_bounds s bd)))) = length (train s) -> polar_untied s n ->
  in_bound b (read (fst (fit_cfg m opt bd s)) k).
Proof. exact tied_bounded_inside_transforming. Qed.
Print Assumptions C08_tied_bounded_inside_transforming.

Theorem C08_tied_bounded_inside_box : forall (minuit : bool) opt bd s i n k b,
  let m := if minuit then M_minuit else M_lbfgsb in
  NoDup (map (cellof s) (train s)) -> nth_error (train s) i = Some n -> cellof s k = cellof s n -> In (k, b) bd ->
  length (fst (opt s)) = length (train s) -> polar_untied s n ->
  (forall b', lookup (norm_bounds s bd) n = Some b' -> in_bound b' (nth i (fst (opt s)) 0)) ->
  in_bound b (read (fst (fit_cfg m opt bd s)) k).
Proof. exact tied_bounded_inside_box. Qed.
Print Assumptions C08_tied_bounded_inside_box.

(* before the repair the dictionary was used as given: with the bound [0, 1] on the non-listed member of a tie the shared value
   is whatever the optimiser answers (first part: old = [fit] on the raw dictionary); now it is inside (second part) *)
Theorem C08_tied_bound_old_ignored_refuted : forall x f,
  read (fst (fit M_bfgs (fun _ => ([x], f)) [(1%nat, (Some 0, Some 1))] ex_t_s)) 1%nat = x /\
  0 <= read (fst (fit_cfg M_bfgs (fun _ => ([x], f)) [(1%nat, (Some 0, Some 1))] ex_t_s)) 1%nat <= 1.
Proof. exact tied_bound_old_ignored. Qed.
Print Assumptions C08_tied_bound_old_ignored_refuted.

(* ---- for the record: before the repair standard_complex flipped a FIXED negative radius; now it does not ---- *)
Example C08_std_before_fix_flips_fixed :
  read (standard_complex_old ex_s) 0%nat = 1 /\ read ex_s 0%nat = -1 /\ ~ In 0%nat (train ex_s).
Proof. exact std_old_flips_fixed. Qed.
Example C08_std_keeps_fixed : forall skip, read (standard_complex skip ex_s) 0%nat = -1.
Proof. exact std_new_keeps_fixed. Qed.

(* ---- non-vacuity: a bounded trainable variable, any optimiser answer ---- *)
Example C08_example_bounded : forall x f,
  let s := mkSt (fun n => n) (fun _ => 1 / 2) [0%nat; 1%nat] [0%nat] [] [] in
  2 / 5 <= read (fst (fit M_bfgs (fun _ => ([x], f)) [(0%nat, (Some (2 / 5), Some (3 / 5)))] s)) 0%nat <= 3 / 5.
Proof.
  intros x f s.
  apply (bounded_inside_transforming false (fun _ => ([x], f)) [(0%nat, (Some (2 / 5), Some (3 / 5)))] s 0 0%nat (Some (2 / 5), Some (3 / 5)));
    cbn; try reflexivity; try lra.
  - repeat constructor. intros [].
  - intros rp [].
Qed.

(* the post-fit standardisation stores the wrapped phase (since /repo 7a94ee8): same complex value, phase in [-pi, pi) *)
Theorem C08_std_phase_same_value : forall x, cos (wrap_phase x) = cos x /\ sin (wrap_phase x) = sin x.
Proof. exact wrap_phase_same_value. Qed.
Print Assumptions C08_std_phase_same_value.
Theorem C08_std_phase_range : forall x, - 3 * PI <= x < 3 * PI -> - PI <= wrap_phase x < PI.
Proof. exact wrap_phase_range. Qed.
Print Assumptions C08_std_phase_range.
