(* C08 - a returned fit result and the model state describe the same point.  Statements only.
   Model: State/Fit.v - the bookkeeping of tf_pwa/fit.py around an optimiser ORACLE ([opt : st -> list R * R],
   universally quantified: the theorems hold for ANY answer x*, f* of the optimiser).  The model is tied to the
   code by real fits on every run (harness/props/c08.py). *)
From Coq Require Import Reals List Bool Arith Lra.
From TFV Require Import State.Fit State.Fit_proofs.
Import ListNotations.
Open Scope R_scope.

(* for every minimiser branch and ANY optimiser answer, the state after the fit reads exactly the values
   listed in the result *)
Theorem C08_fit_state_is_result : forall m opt bd s n v,
  In (n, v) (r_params (snd (fit m opt bd s))) -> read (fst (fit m opt bd s)) n = v.
Proof. exact fit_state_is_result. Qed.
Print Assumptions C08_fit_state_is_result.

(* the result lists every variable (scipy branches) resp. every trainable variable (iminuit) *)
Theorem C08_result_names : forall opt bd s,
  map fst (r_params (snd (fit M_bfgs opt bd s))) = allnames s /\
  map fst (r_params (snd (fit M_lbfgsb opt bd s))) = allnames s /\
  map fst (r_params (snd (fit M_newton opt bd s))) = allnames s /\
  map fst (r_params (snd (fit M_minuit opt bd s))) = train s.
Proof. exact result_lists_all_names. Qed.
Print Assumptions C08_result_names.

(* fixed variables (their cell holds no trainable variable) are unchanged *)
Theorem C08_fixed_unchanged : forall m opt bd s n,
  ~ In (cellof s n) (map (cellof s) (train s)) -> read (fst (fit m opt bd s)) n = read s n.
Proof. exact fixed_unchanged. Qed.
Print Assumptions C08_fixed_unchanged.

(* tied variables are equal *)
Theorem C08_tied_equal : forall m opt bd s n k,
  cellof s n = cellof s k -> read (fst (fit m opt bd s)) n = read (fst (fit m opt bd s)) k.
Proof. exact tied_equal. Qed.
Print Assumptions C08_tied_equal.

(* range of the bound transforms: a <= T(x) <= b (resp. one-sided) for EVERY real x *)
Theorem C08_bound_range : forall b x, bound_ok b -> in_bound b (bt b x).
Proof. exact bound_range. Qed.
Print Assumptions C08_bound_range.

(* hence, in the branches that minimise in the transformed variables (BFGS, CG, Newton-CG and the trust-region methods), a bounded
   trainable variable ends inside its bounds whatever the optimiser answers ... *)
Theorem C08_bounded_inside_transforming : forall (newton : bool) opt bd s i n b,
  let m := if newton then M_newton else M_bfgs in
  NoDup (map (cellof s) (train s)) -> nth_error (train s) i = Some n -> lookup bd n = Some b -> bound_ok b ->
  length (fst (opt (set_bound s bd))) = length (train s) -> polar_untied s n ->
  in_bound b (read (fst (fit m opt bd s)) n).
Proof. exact bounded_inside_transforming. Qed.
Print Assumptions C08_bounded_inside_transforming.

(* ... and in the box-constrained branches (L-BFGS-B, iminuit) under the contract that the optimiser answers
   inside the box it was given *)
Theorem C08_bounded_inside_box : forall (minuit : bool) opt bd s i n b,
  let m := if minuit then M_minuit else M_lbfgsb in
  NoDup (map (cellof s) (train s)) -> nth_error (train s) i = Some n -> lookup bd n = Some b ->
  length (fst (opt s)) = length (train s) -> polar_untied s n ->
  in_bound b (nth i (fst (opt s)) 0) ->
  in_bound b (read (fst (fit m opt bd s)) n).
Proof. exact bounded_inside_box. Qed.
Print Assumptions C08_bounded_inside_box.

(* the reported minimum is the NLL at the final state, under the optimiser contract f* = F(point it returned)
   and the invariance of the NLL under (r, phi) -> (-r, phi + pi) *)
Theorem C08_fit_min_is_nll_at_state_transforming : forall (F : (name -> R) -> R),
  (forall skip s, F (read (standard_complex skip s)) = F (read s)) ->
  forall (newton : bool) opt bd s,
  let m := if newton then M_newton else M_bfgs in
  let s1 := set_bound s bd in
  snd (opt s1) = F (read (set_trans_var s1 (fst (opt s1)))) ->
  r_min (snd (fit m opt bd s)) = F (read (fst (fit m opt bd s))).
Proof. exact min_is_nll_transforming. Qed.
Print Assumptions C08_fit_min_is_nll_at_state_transforming.

Theorem C08_fit_min_is_nll_at_state_box : forall (F : (name -> R) -> R),
  (forall skip s, F (read (standard_complex skip s)) = F (read s)) ->
  forall (minuit : bool) opt bd s,
  let m := if minuit then M_minuit else M_lbfgsb in
  snd (opt s) = F (read (set_all s (train s) (fst (opt s)))) ->
  r_min (snd (fit m opt bd s)) = F (read (fst (fit m opt bd s))).
Proof. exact min_is_nll_box. Qed.
Print Assumptions C08_fit_min_is_nll_at_state_box.

Theorem C08_fit_not_above_start : forall (F : (name -> R) -> R) m opt bd s,
  snd (opt (match m with M_bfgs | M_newton => set_bound s bd | _ => s end)) <= F (read s) ->
  r_min (snd (fit m opt bd s)) <= F (read s).
Proof. exact not_above_start. Qed.
Print Assumptions C08_fit_not_above_start.

(* repeated fits in one session: ties and name lists never change and bnd_dic is empty again after every fit,
   so every theorem above applies to every fit of the session; fixed stay fixed, tied stay equal *)
Theorem C08_bnd_empty_after_fit : forall opt bd s,
  bnd (fst (fit M_bfgs opt bd s)) = [] /\ bnd (fst (fit M_newton opt bd s)) = [].
Proof. exact fit_bnd_transforming. Qed.
Print Assumptions C08_bnd_empty_after_fit.

Theorem C08_repeat_fit_invariants : forall l bd s, bnd s = [] ->
  same_shape (fit_seq l bd s) s /\ bnd (fit_seq l bd s) = [].
Proof. exact fit_seq_invariants. Qed.
Print Assumptions C08_repeat_fit_invariants.

Theorem C08_repeat_fit_fixed : forall l bd s n,
  ~ In (cellof s n) (map (cellof s) (train s)) -> read (fit_seq l bd s) n = read s n.
Proof. exact fit_seq_fixed. Qed.
Print Assumptions C08_repeat_fit_fixed.

Theorem C08_repeat_fit_tied : forall l bd s n k,
  cellof s n = cellof s k -> read (fit_seq l bd s) n = read (fit_seq l bd s) k.
Proof. exact fit_seq_tied. Qed.
Print Assumptions C08_repeat_fit_tied.

(* writing the values to a file and loading them into a freshly built model with the same variables and ties
   reproduces every value (neglected names keep the fresh model's value, which must already agree) *)
Theorem C08_save_load_identity : forall (s t : st) neg n,
  cellof t = cellof s -> allnames t = allnames s -> In n (allnames s) ->
  (forall k, mem k neg = true -> read t k = read s k) ->
  read (load (save s) neg t) n = read s n.
Proof. exact save_load_identity. Qed.
Print Assumptions C08_save_load_identity.

(* ---- for the record: before the repair standard_complex flipped a FIXED negative radius; now it does not ---- *)
Example C08_std_before_fix_flips_fixed :
  read (standard_complex_old ex_s) 0%nat = 1 /\ read ex_s 0%nat = -1 /\ ~ In 0%nat (train ex_s).
Proof. exact std_old_flips_fixed. Qed.
Example C08_std_keeps_fixed : forall skip, read (standard_complex skip ex_s) 0%nat = -1.
Proof. exact std_new_keeps_fixed. Qed.

(* ---- non-vacuity: a bounded trainable variable, any optimiser answer ---- *)
Example C08_example_bounded : forall x f,
  let s := mkSt (fun n => n) (fun _ => 1 / 2) [0%nat; 1%nat] [0%nat] [] [] in
  2 / 5 <= read (fst (fit M_bfgs (fun _ => ([x], f)) [(0%nat, (Some (2 / 5), Some (3 / 5)))] s)) 0%nat <= 3 / 5.
Proof.
  intros x f s.
  apply (bounded_inside_transforming false (fun _ => ([x], f)) [(0%nat, (Some (2 / 5), Some (3 / 5)))] s 0 0%nat (Some (2 / 5), Some (3 / 5)));
    cbn; try reflexivity; try lra.
  - repeat constructor. intros [].
  - intros rp [].
Qed.

(* the post-fit standardisation stores the wrapped phase (since /repo 7a94ee8): same complex value, phase in [-pi, pi) *)
Theorem C08_std_phase_same_value : forall x, cos (wrap_phase x) = cos x /\ sin (wrap_phase x) = sin x.
Proof. exact wrap_phase_same_value. Qed.
Print Assumptions C08_std_phase_same_value.
Theorem C08_std_phase_range : forall x, - 7 * PI <= x < 7 * PI -> - PI <= wrap_phase x < PI.
Proof. exact wrap_phase_range. Qed.
Print Assumptions C08_std_phase_range.
