(* C16 — statements only.  Each closed by [exact] of a lemma from State/VarsManager_proofs.v or
   Lik/Bound_proofs.v.  The state machine [step] (State/VarsManager.v) transcribes
   tf_pwa.variable.VarsManager; histories are arbitrary lists of operations run from [init]. *)
From Coq Require Import List String ZArith QArith Bool Reals.
From Coquelicot Require Import Coquelicot.
From TFV Require Import State.VarsManager State.VarsManager_proofs Lik.Bound Lik.Bound_proofs.
Import ListNotations.
Open Scope string_scope.
Open Scope list_scope.

(* ---- reading all parameters and writing them back changes nothing (any state, any value type) *)
Theorem C16_get_set_all_identity :
  forall (V : Type) (s : state V), set_all_dict (dic_for_set s) false s = s.
Proof. intros. exact (get_set_all_identity s). Qed.
Print Assumptions C16_get_set_all_identity.

Theorem C16_get_set_all_list_identity :
  forall (V : Type) (s : state V),
    (forall n, In n (trainable s) -> read s n <> None) ->
    set_all_list (map (fun v => (v, v)) (all_val s)) false s = s.
Proof. intros V s. exact (get_set_all_list_identity s). Qed.
Print Assumptions C16_get_set_all_list_identity.

(* ---- a tied group counts once: the free-parameter list has no duplicates and no two free names
   share a cell, after EVERY history (any interleaving of create / fix / free / tie / share_r /
   bound / set / set_all / refresh / coordinate changes / standardise) without rename/remove
   ([count_safe]).  Freeing or fixing a tied name needs no side condition: set_fix handles the free
   list through the shared object (a configuration applies coef_head / equal ties BEFORE fix_var /
   free_var, so this order is inside the property). *)
Theorem C16_tied_count_once :
  forall (V : Type) (h : list (op V)),
    hist_ok count_safe init h = true ->
    NoDup (trainable (run init h)) /\ one_per_cell (run init h).
Proof.
  intros V h H. destruct (tied_count_once h init count_inv_init H) as (A & B & _). split; assumption.
Qed.
Print Assumptions C16_tied_count_once.

(* the OLD set_fix (bookkeeping by name, [set_fix_old]) REFUTED this for fix/free after a tie: freeing
   the tied name b listed the shared object twice, fixing b left the group in the free list *)
Theorem C16_old_set_fix_after_tie_refuted :
  trainable (set_fix_old "b" None 0%Q true (run init tie_ab)) = ["a"; "b"] /\
  dget "a" (vars (set_fix_old "b" None 0%Q true (run init tie_ab))) =
  dget "b" (vars (set_fix_old "b" None 0%Q true (run init tie_ab))) /\
  trainable (set_fix_old "b" (Some 5%Q) 5%Q false (run init tie_ab)) = ["a"].
Proof. exact old_unfix_after_tie_counts_twice. Qed.
Print Assumptions C16_old_set_fix_after_tie_refuted.

(* set_fix as repaired: freeing b keeps one entry; fixing b at 5 empties the free list, and the bulk
   load that follows moves nothing *)
Theorem C16_fix_free_after_tie :
  trainable (run init unfix_after_tie) = ["a"] /\
  trainable (run init fix_after_tie) = [] /\
  all_dic (run init fix_after_tie) = [("a", 5%Q); ("b", 5%Q)] /\
  hist_ok count_safe init unfix_after_tie = true.
Proof. exact fix_free_after_tie. Qed.
Print Assumptions C16_fix_free_after_tie.

(* tying a free parameter to a fixed one fixes the group at the FIXED member's value (was: at the
   free head's value, so that a fixed parameter changed without being assigned) *)
Theorem C16_tie_fixed_member_keeps_value :
  all_dic (run init tie_fixed_member) = [("a", 3%Q); ("b", 3%Q)] /\ trainable (run init tie_fixed_member) = [].
Proof. exact tie_fixed_member_keeps_value. Qed.
Print Assumptions C16_tie_fixed_member_keeps_value.

(* a complex tie aligns the polar flags of its members with the owner of the kept cells, so a tie of
   a Cartesian to a polar parameter is [polar_safe] (both read the same complex value) *)
Theorem C16_tie_mixed_flags_aligned :
  cplx (run init tie_mixed_flags) = [("a", true); ("b", true)] /\
  hist_ok tie_safe init tie_mixed_flags = true /\
  hist_ok_inv (fun _ _ => true) polar_safe init tie_mixed_flags = true.
Proof. exact tie_mixed_flags_aligned. Qed.
Print Assumptions C16_tie_mixed_flags_aligned.

(* ---- value-phase operations never re-point a name, change the free list or the tie groups *)
Theorem C16_value_ops_keep_structure :
  forall (V : Type) (h : list (op V)) (s : state V),
    forallb value_op h = true ->
    vars (run s h) = vars s /\ trainable (run s h) = trainable s /\ same (run s h) = same s.
Proof.
  intros V h s H. destruct (value_ops_frame h s H) as (A & B & _ & C & _). repeat split; assumption.
Qed.
Print Assumptions C16_value_ops_keep_structure.

(* ---- tied parameters always read the same value: after a tie request on names none of which is
   tied yet ([untied_reals]: the request neither merges nor extends groups), through EVERY sequence
   of value assignments, bulk loads, re-randomisations, coordinate switches, standardisations *)
Theorem C16_tied_read_equal :
  forall (V : Type) (s : state V) ns h,
    untied_reals ns s -> forallb value_op h = true ->
    forall a b, In a ns -> In b ns ->
      read (run (step s (SetSame ns false)) h) a = read (run (step s (SetSame ns false)) h) b.
Proof. intros V s ns h. exact (tied_read_equal s ns h). Qed.
Print Assumptions C16_tied_read_equal.

Theorem C16_tied_read_equal_cplx :
  forall (V : Type) (s : state V) ns h,
    untied_cplxs ns s -> forallb value_op h = true ->
    forall a b, In a ns -> In b ns ->
      let s' := run (step s (SetSame ns true)) h in
      read s' (nr a) = read s' (nr b) /\ read s' (ni a) = read s' (ni b).
Proof. intros V s ns h. exact (tied_read_equal_cplx s ns h). Qed.
Print Assumptions C16_tied_read_equal_cplx.

(* a tie request touching exactly ONE existing group (collect finds the single group g1 with head h1)
   whose members share a cell: afterwards the requested names and all members of g1 share that cell
   (then C16_ties_persist carries the equality through every value-phase history) *)
Theorem C16_set_same_extends_group :
  forall (V : Type) (s : state V) ns gs' g1 h1,
    collect ns (vars s) (same s) [] [] = (gs', g1, [h1]) ->
    (forall x, In x ns -> dmem x (vars s) = true) -> dmem h1 (vars s) = true ->
    (forall x, In x g1 -> dget x (vars s) = dget h1 (vars s)) ->
    forall a b, In a (ns ++ g1) -> In b (ns ++ g1) ->
      dget a (vars (step s (SetSame ns false))) = dget b (vars (step s (SetSame ns false))) /\
      dget a (vars (step s (SetSame ns false))) <> None.
Proof. intros V s ns gs' g1 h1. exact (set_same_extends_group ns s gs' g1 h1). Qed.
Print Assumptions C16_set_same_extends_group.

(* names that share a cell keep reading the same value through every value-phase history *)
Theorem C16_ties_persist :
  forall (V : Type) (s : state V) h a b,
    forallb value_op h = true -> dget a (vars s) = dget b (vars s) -> read (run s h) a = read (run s h) b.
Proof. intros V s h a b. exact (ties_persist s h a b). Qed.
Print Assumptions C16_ties_persist.

(* full statement over whole histories (proved above per tie request: fresh ties and extension of one
   group, each followed by arbitrary value-phase histories; the induction over arbitrary interleavings of
   further config operations is covered by the correspondence + invariant run, not proved): *)
Definition C16_tied_read_equal_full : Prop :=
  forall (h : list (op Q)), hist_ok tie_safe init h = true ->
    forall g a b, In g (same (run init h)) -> In a g -> In b g ->
      dget a (vars (run init h)) <> None -> dget b (vars (run init h)) <> None ->
      read (run init h) a = read (run init h) b.

(* REFUTED outside that class (known finding F11): merging two groups / chaining complex ties *)
Theorem C16_tied_read_refuted :
  same (run init f11_history) = [["b"; "d"; "a"; "c"]] /\
  read (run init f11_history) "a" = Some 9%Q /\ read (run init f11_history) "b" = Some 9%Q /\
  read (run init f11_history) "c" = Some 9%Q /\ read (run init f11_history) "d" = Some 3%Q /\
  forallb value_op [SetV "a" 9%Q 9%Q false] = true.
Proof. exact tied_read_refuted. Qed.
Print Assumptions C16_tied_read_refuted.

Theorem C16_tied_chain_refuted :
  same (run init f11c_history) = [["a1"; "a0"]; ["a2"; "a0"]] /\
  trainable (run init f11c_history) = ["a1r"; "a1i"] /\
  read (run init f11c_history) "a1r" = Some 9%Q /\ read (run init f11c_history) "a0r" = Some 3%Q /\
  read (run init f11c_history) "a2r" = Some 3%Q.
Proof. exact tied_chain_refuted. Qed.
Print Assumptions C16_tied_chain_refuted.

(* ---- a fixed parameter changes only when explicitly assigned: a cell in which no free name lives
   is untouched by bulk loads (list form), re-randomisation and bound bookkeeping; an explicit
   assignment touches only the cell of the named parameter *)
Theorem C16_fixed_changes_only_by_set :
  forall (V : Type) (s : state V) o c,
    bulk_op o = true -> fixed_cell s c -> hget c (heap (step s o)) = hget c (heap s).
Proof. intros V s o c. exact (fixed_changes_only_by_set s o c). Qed.
Print Assumptions C16_fixed_changes_only_by_set.

Theorem C16_explicit_set_only_target :
  forall (V : Type) (s : state V) n v vb vif c,
    dget n (vars s) <> Some c -> hget c (heap (step s (SetV n v vb vif))) = hget c (heap s).
Proof. intros V s n v vb vif c. exact (explicit_set_only_target s n v vb vif c). Qed.
Print Assumptions C16_explicit_set_only_target.

Theorem C16_explicit_set_all_only_targets :
  forall (V : Type) (s : state V) kv vif c,
    (forall x, In x kv -> dget (fst x) (vars s) <> Some c) ->
    hget c (heap (step s (SetAllDict kv vif))) = hget c (heap s).
Proof. intros V s kv vif c. exact (explicit_set_all_only_targets s kv vif c). Qed.
Print Assumptions C16_explicit_set_all_only_targets.

(* ---- polar <-> Cartesian: rp2xy / xy2rp (single and _all) and std_polar keep the complex value of
   EVERY complex parameter, for any interpretation [cv flag a b] of the two stored numbers, provided
   the state is [flags_consistent] and [groups_closed] (complex parameters sharing a cell share both
   cells, the polar flag and the tie group through which the flag is propagated) and the numbers the
   code assigned satisfy the conversion contract (oracle: NumPy/TF cos, sin, sqrt, atan2, |r|, p+pi;
   checked per call by Coq-Interval in the harness).  Both state conditions are preserved by the calls. *)
Theorem C16_polar_switch_preserves_value :
  forall (V C : Type) (cv : bool -> V -> V -> C) (s : state V) t n o zn,
    flags_consistent s -> cvalue cv s n = Some zn ->
    (forall a b, read s (nr n) = Some a -> read s (ni n) = Some b -> cv t (fst o) (snd o) = cv (negb t) a b) ->
    forall m z, cvalue cv s m = Some z -> cvalue cv (conv t n o s) m = Some z.
Proof. intros V C cv s t n o zn. exact (polar_switch_preserves_value cv s t n o zn). Qed.
Print Assumptions C16_polar_switch_preserves_value.

Theorem C16_conv_keeps_consistency :
  forall (V : Type) (s : state V) t n o,
    flags_consistent s -> groups_closed s ->
    flags_consistent (conv t n o s) /\ groups_closed (conv t n o s).
Proof. intros V s t n o. exact (conv_keeps_consistency s t n o). Qed.
Print Assumptions C16_conv_keeps_consistency.

Theorem C16_polar_switch_all_preserves_value :
  forall (V C : Type) (cv : bool -> V -> V -> C) (s : state V) t ns o,
    flags_consistent s -> groups_closed s -> contracts_ok cv t (names_or_all ns s) o s ->
    forall m z, cvalue cv s m = Some z -> cvalue cv (step s (ConvAll t ns o)) m = Some z.
Proof. intros V C cv s t ns o. exact (polar_switch_all_preserves_value cv s t ns o). Qed.
Print Assumptions C16_polar_switch_all_preserves_value.

(* std_polar = xy2rp; if r < 0: (|r|, p + pi); finally p := its representative in [-pi, pi) (the last
   step is performed since the repair of the discarded _std_polar_angle result; its contract, third
   hypothesis, and the range -pi <= pw < pi are checked per call by Coq-Interval in the harness) *)
Theorem C16_std_polar_preserves_value :
  forall (V C : Type) (cv : bool -> V -> V -> C) (s : state V) n o fl pw zn,
    flags_consistent s -> groups_closed s -> cvalue cv s n = Some zn ->
    (forall a b, read s (nr n) = Some a -> read s (ni n) = Some b -> cv true (fst o) (snd o) = cv false a b) ->
    (forall r' p' a b, fl = Some (r', p') ->
       read (conv true n o s) (nr n) = Some a -> read (conv true n o s) (ni n) = Some b ->
       cv true r' p' = cv true a b) ->
    (forall a b, read (std_polar_mid n o fl s) (nr n) = Some a -> read (std_polar_mid n o fl s) (ni n) = Some b ->
       cv true a pw = cv true a b) ->
    forall m z, cvalue cv s m = Some z -> cvalue cv (step s (StdPolar n o fl pw)) m = Some z.
Proof. intros V C cv s n o fl pw zn. exact (std_polar_preserves_value cv s n o fl pw zn). Qed.
Print Assumptions C16_std_polar_preserves_value.

(* the two state conditions have an executable form [polar_safe]; [clean_hist] (evaluated by
   vm_compute for every clean-stream history of the correspondence) demands it of every state along
   the history, so the theorems above apply to each of those histories *)
Theorem C16_polar_safe_sound :
  forall (V : Type) (s : state V), polar_safe s = true -> flags_consistent s /\ groups_closed s.
Proof. intros V s. exact (polar_safe_sound s). Qed.
Print Assumptions C16_polar_safe_sound.

Theorem C16_polar_hist_sound :
  forall (V : Type) (safe : state V -> op V -> bool) h (s : state V),
    hist_ok_inv safe polar_safe s h = true ->
    forall k, (k <= List.length h)%nat ->
      flags_consistent (run s (firstn k h)) /\ groups_closed (run s (firstn k h)).
Proof. intros V safe h s. exact (polar_hist_sound safe h s). Qed.
Print Assumptions C16_polar_hist_sound.

(* not proved universally: that EVERY [tie_safe] history from [init] is polar_safe (it is computed per
   generated history instead), and the std_polar_all / standard_complex folds (same argument as
   C16_polar_switch_all_preserves_value). *)
Definition C16_polar_history_full : Prop :=
  forall (h : list (op Q)), hist_ok tie_safe init h = true -> hist_ok_inv tie_safe polar_safe init h = true.

(* REFUTED without flags_consistent (known finding F7): `var_equal` on the component names of two
   complex parameters, then xy2rp_all.  Whatever values the calls assign within their contract,
   a = 3+4i reads (r1, p1) != (3, 4) afterwards - and the contracts are satisfiable. *)
Theorem C16_polar_switch_refuted :
  forall r1 p1 r2 p2 : R,
    (r1 * cos p1 = 3 -> r1 * sin p1 = 4 -> r2 * cos p2 = r1 -> r2 * sin p2 = p1 ->
     cvalue cvR (run init (f7_prefix 3 4)) "a" = Some (3, 4) /\
     cvalue cvR (run init (f7_history 3 4 r1 p1 r2 p2)) "a" = Some (r1, p1) /\
     (r1, p1) <> (3, 4))%R.
Proof. exact polar_switch_refuted. Qed.
Print Assumptions C16_polar_switch_refuted.

Theorem C16_polar_contracts_satisfiable :
  exists r1 p1 r2 p2 : R, (r1 * cos p1 = 3 /\ r1 * sin p1 = 4 /\ r2 * cos p2 = r1 /\ r2 * sin p2 = p1)%R.
Proof. exact f7_contracts_satisfiable. Qed.
Print Assumptions C16_polar_contracts_satisfiable.

(* REFUTED with overlapping complex tie groups (known finding F12): after rp2xy on h the member
   j2 of the second group still carries a polar flag although its cells already hold (x1, y1), so
   its own rp2xy call converts them again: h finally reads what that call assigned *)
Theorem C16_overlapping_groups_refuted :
  forall r p x1 y1 x2 y2 : R,
    cvalue cvR (run init (f12_prefix r p)) "h" = Some (r * cos p, r * sin p)%R /\
    cvalue cvR (run init (f12_prefix r p)) "j2" = Some (r * cos p, r * sin p)%R /\
    dget "j2" (cplx (step (run init (f12_prefix r p)) (Conv false "h" (x1, y1)))) = Some true /\
    read (step (run init (f12_prefix r p)) (Conv false "h" (x1, y1))) "j2r" = Some x1 /\
    cvalue cvR (run init (f12_history r p x1 y1 x2 y2)) "h" = Some (x2, y2).
Proof. exact overlapping_groups_refuted. Qed.
Print Assumptions C16_overlapping_groups_refuted.

(* ---- bound transforms: mutually inverse on the allowed range, slope = analytic derivative *)
Open Scope R_scope.
Theorem C16_bound2_inverse :
  forall a b, a < b ->
    (forall y, a <= y <= b -> bx2y2 a b (by2x2 a b y) = y) /\
    (forall x, - PI / 2 <= x <= PI / 2 -> by2x2 a b (bx2y2 a b x) = x) /\
    (forall x, a <= bx2y2 a b x <= b).
Proof.
  intros a b H. split; [intros; apply bound2_inv_r; assumption|].
  split; [intros; apply bound2_inv_l; assumption|intros; apply bound2_range; assumption].
Qed.
Print Assumptions C16_bound2_inverse.

Theorem C16_bound_lower_inverse :
  forall a,
    (forall y, a <= y -> bx2y_lo a (by2x_lo a y) = y) /\
    (forall x, 0 <= x -> by2x_lo a (bx2y_lo a x) = x) /\
    (forall x, a <= bx2y_lo a x).
Proof.
  intros a. split; [intros; apply bound_lo_inv_r; assumption|].
  split; [intros; apply bound_lo_inv_l; assumption|intros; apply bound_lo_range].
Qed.
Print Assumptions C16_bound_lower_inverse.

Theorem C16_bound_upper_inverse :
  forall b,
    (forall y, y <= b -> bx2y_up b (by2x_up b y) = y) /\
    (forall x, 0 <= x -> by2x_up b (bx2y_up b x) = x) /\
    (forall x, bx2y_up b x <= b).
Proof.
  intros b. split; [intros; apply bound_up_inv_r; assumption|].
  split; [intros; apply bound_up_inv_l; assumption|intros; apply bound_up_range].
Qed.
Print Assumptions C16_bound_upper_inverse.

(* values outside the range are clamped to it by get_y2x *)
Theorem C16_bound_clamps :
  (forall a b y, a < b -> bx2y2 a b (by2x2 a b y) = bclamp2 a b y) /\
  (forall a y, bx2y_lo a (by2x_lo a y) = bclamp_lo a y) /\
  (forall b y, bx2y_up b (by2x_up b y) = bclamp_up b y).
Proof.
  split; [intros; apply bound2_roundtrip; assumption|].
  split; [intros; apply bound_lo_roundtrip|intros; apply bound_up_roundtrip].
Qed.
Print Assumptions C16_bound_clamps.

Theorem C16_bound_slope_is_derive :
  (forall a b x, is_derive (bx2y2 a b) x (bdydx2 a b x)) /\
  (forall a x, is_derive (bx2y_lo a) x (bdydx_lo x)) /\
  (forall b x, is_derive (bx2y_up b) x (bdydx_up x)).
Proof.
  split; [intros; apply bound2_is_derive|]. split; [intros; apply bound_lo_is_derive|intros; apply bound_up_is_derive].
Qed.
Print Assumptions C16_bound_slope_is_derive.

Theorem C16_bound_second_slope_is_derive :
  (forall a b x, is_derive (bdydx2 a b) x (bd2y2 a b x)) /\
  (forall x, is_derive bdydx_lo x (bd2y_lo x)) /\
  (forall x, is_derive bdydx_up x (bd2y_up x)).
Proof.
  split; [intros; apply bound2_is_derive2|]. split; [intros; apply bound_lo_is_derive2|intros; apply bound_up_is_derive2].
Qed.
Print Assumptions C16_bound_second_slope_is_derive.
Close Scope R_scope.

(* ---- hypotheses are satisfiable ---- *)
Example C16_example_untied :
  untied_reals ["a"; "b"] (run (@init Q) [AddReal "a" 1%Q true true; AddReal "b" 2%Q true true]).
Proof. intros n [<-|[<-|[]]]; vm_compute; split; reflexivity. Qed.
Example C16_example_count_safe :
  hist_ok count_safe (@init Q)
    [AddReal "a" 1%Q true true; AddReal "b" 2%Q true false; SetFix "b" None 0%Q true; SetSame ["a"; "b"] false;
     SetFix "b" None 0%Q true;
     SetAllList [(5%Q, 5%Q)] false] = true.
Proof. vm_compute. reflexivity. Qed.
Example C16_example_polar_safe : hist_ok_inv tie_safe polar_safe init fc_example = true.
Proof. exact fc_example_ok. Qed.
Example C16_example_tie_reads :
  all_dic (run (@init Q) [AddReal "a" 1%Q true true; AddReal "b" 2%Q true true; SetSame ["a"; "b"] false;
                          SetAllList [(5%Q, 5%Q)] false]) = [("a", 5%Q); ("b", 5%Q)].
Proof. vm_compute. reflexivity. Qed.
