(* C16 — statements only (stub while the proofs are being written). *)
From Coq Require Import List String ZArith QArith Bool.
From TFV Require Import State.VarsManager.
Import ListNotations.
Open Scope string_scope.
Example C16_stub : @init Q = @init Q.
Proof. reflexivity. Qed.
