(* C06 - the negative log-likelihood equals its defining formula.  Statements only.
   Model: Lik/NLL.v (per-event densities f, g are inputs: the likelihood layer is isolated from the
   amplitude layer).  w = data weights ++ background weights (background enters with -w_bkg). *)
From Coq Require Import Reals List Lra.
From TFV Require Import Base.RSum Base.RSum_proofs Lik.NLL Lik.NLL_proofs.
Import ListNotations.
Open Scope R_scope.

(* background events without explicit weights enter with -w_bkg each *)
Theorem C06_blend_background : forall ws w_bkg n,
  rsum (blend ws (bg_const_weights w_bkg n)) = rsum ws - INR n * w_bkg.
Proof. exact blend_const_bg. Qed.
Print Assumptions C06_blend_background.

(* alpha = sum w / sum w^2 is applied up to three times by the code; after the first application it is 1 *)
Theorem C06_alpha_idempotent : forall w, rsum w <> 0 -> rsum (sqs w) <> 0 -> alpha (scale_w w) = 1.
Proof. exact alpha_idempotent. Qed.
Print Assumptions C06_alpha_idempotent.

(* FCN.__call__ and the value returned by FCN.nll_grad both equal
   -alpha [ sum w ln f - (sum w) ln( sum v g / sum v ) ]   whenever all densities are above the clip threshold *)
Theorem C06_nll_matches_definition : forall ws bgw f v g,
  let w := blend ws bgw in
  rsum w <> 0 -> rsum (sqs w) <> 0 -> rsum v <> 0 -> Forall (fun x => eps_clip < x) f ->
  nll_default false ws bgw f v g = nll_doc w f v g /\
  nll_grad_default false ws bgw f v g = nll_doc w f v g.
Proof. exact nll_matches_definition. Qed.
Print Assumptions C06_nll_matches_definition.

(* extended: the log of the normalisation integral is replaced by the integral itself *)
Theorem C06_nll_extended_matches_definition : forall ws bgw f v g,
  let w := blend ws bgw in
  rsum w <> 0 -> rsum (sqs w) <> 0 -> rsum v <> 0 -> Forall (fun x => eps_clip < x) f ->
  nll_default true ws bgw f v g = nll_doc_ext w f v g /\
  nll_grad_default true ws bgw f v g = nll_doc_ext w f v g.
Proof. exact nll_extended_matches_definition. Qed.
Print Assumptions C06_nll_extended_matches_definition.

(* the two code paths agree for ALL densities (also below the clip threshold) *)
Theorem C06_value_alongside_equals_standalone : forall ext ws bgw f v g,
  let w := blend ws bgw in
  rsum w <> 0 -> rsum (sqs w) <> 0 -> rsum v <> 0 ->
  nll_grad_default ext ws bgw f v g = nll_default ext ws bgw f v g.
Proof. exact value_alongside_equals_standalone. Qed.
Print Assumptions C06_value_alongside_equals_standalone.

(* clip_log is the logarithm above eps = 1e-6, and its branch-free form is the same function everywhere *)
Theorem C06_clip_log_is_ln : forall x, eps_clip < x -> clip_log x = ln x.
Proof. exact clip_log_hi. Qed.
Print Assumptions C06_clip_log_is_ln.

Theorem C06_clip_log_branch_free : forall x, clip_log x = clip_log_abs x.
Proof. exact clip_log_abs_eq. Qed.
Print Assumptions C06_clip_log_branch_free.

(* batch independence: ANY split of the (weights, densities) samples into batches - unequal, empty,
   non-dividing, larger than the sample - accumulates to the un-batched value, data and MC side *)
Theorem C06_nll_batch_independent : forall ext bd bm, batches_ok bd -> batches_ok bm ->
  nll_gradval_batched ext bd bm
  = nll_gradval ext (concat (map fst bd)) (concat (map snd bd)) (concat (map fst bm)) (concat (map snd bm)).
Proof. exact nll_batch_independent. Qed.
Print Assumptions C06_nll_batch_independent.

Theorem C06_simple_batch_independent : forall bd bm, batches_ok bd -> batches_ok bm ->
  simple_batched bd bm
  = simple_call (concat (map fst bd)) (concat (map snd bd)) (concat (map fst bm)) (concat (map snd bm)).
Proof. exact simple_batch_independent. Qed.
Print Assumptions C06_simple_batch_independent.

Theorem C06_simple_clip_batch_independent : forall bd bm, batches_ok bd -> batches_ok bm ->
  simple_clip_batched bd bm
  = simple_clip_call (concat (map fst bd)) (concat (map snd bd)) (concat (map fst bm)) (concat (map snd bm)).
Proof. exact simple_clip_batch_independent. Qed.
Print Assumptions C06_simple_clip_batch_independent.

(* the underlying list fact *)
Theorem C06_rsum_concat : forall bs, rsum (concat bs) = rsum_batches bs.
Proof. exact rsum_concat. Qed.
Print Assumptions C06_rsum_concat.

(* invariance under a common rescaling of all amplitudes, not extended *)
Theorem C06_nll_scale_invariant : forall c w f v g,
  0 < c -> length w = length f ->
  Forall (fun x => eps_clip < x /\ eps_clip < c * x) f -> 0 < rdot v g / rsum v ->
  nll_base false w (rscale c f) v (rscale c g) = nll_base false w f v g.
Proof. exact nll_scale_invariant. Qed.
Print Assumptions C06_nll_scale_invariant.

Theorem C06_nll_default_scale_invariant : forall c ws bgw f v g,
  0 < c -> length (blend ws bgw) = length f ->
  Forall (fun x => eps_clip < x /\ eps_clip < c * x) f -> 0 < rdot (mc_norm v) g / rsum (mc_norm v) ->
  nll_default false ws bgw (rscale c f) v (rscale c g) = nll_default false ws bgw f v g.
Proof. exact nll_default_scale_invariant. Qed.
Print Assumptions C06_nll_default_scale_invariant.

(* ... and the extended likelihood is not (witness), so the property does not demand it there *)
Theorem C06_nll_extended_not_invariant :
  exists c w f v g, 0 < c /\ nll_base true w (rscale c f) v (rscale c g) <> nll_base true w f v g.
Proof. exact nll_extended_not_invariant. Qed.
Print Assumptions C06_nll_extended_not_invariant.

(* a simultaneous fit's NLL is the sum of its parts (+ one Gaussian-constraint term) *)
Theorem C06_nll_combine_additive : forall a b cs,
  combine (a ++ b) cs = combine a [] + combine b [] + gauss_term cs.
Proof. exact nll_combine_additive. Qed.
Print Assumptions C06_nll_combine_additive.

Theorem C06_combine_is_sum : forall nlls, combine nlls [] = rsum nlls.
Proof. exact combine_no_constr. Qed.
Print Assumptions C06_combine_is_sum.

Theorem C06_gauss_constr_additive : forall a b, gauss_term (a ++ b) = gauss_term a + gauss_term b.
Proof. exact gauss_constr_additive. Qed.
Print Assumptions C06_gauss_constr_additive.

Theorem C06_gauss_term_doc : forall th mean sigma, sigma <> 0 ->
  gauss_term [(th, mean, sigma)] = (th - mean) ^ 2 / (2 * sigma ^ 2).
Proof. exact gauss_term_doc. Qed.
Print Assumptions C06_gauss_term_doc.

(* cfit (code since /repo 9a16823): FCN.__call__ and the value returned by FCN.nll_grad are the SAME function of the
   densities - also below the clip threshold - *)
Theorem C06_cfit_call_equals_gradval : forall fb ws e f b v eg g bm,
  rsum ws <> 0 -> rsum (sqs ws) <> 0 ->
  cfit_default fb ws e f b v eg g bm = cfit_gradval fb (fcn_weight ws []) e f b (mc_norm v) eg g bm.
Proof. exact cfit_call_equals_gradval. Qed.
Print Assumptions C06_cfit_call_equals_gradval.

(* ... and both equal  -alpha sum w ln[ (1-f_bg) eff f / I_sig + f_bg bg / I_bg ],
   I_sig = sum v eff g / sum v, I_bg = sum v bg / sum v,  whenever the mixture densities are above the clip threshold *)
Theorem C06_cfit_matches_doc : forall fb ws e f b v eg g bm,
  rsum ws <> 0 -> rsum (sqs ws) <> 0 ->
  Forall (fun x => eps_clip < x) (cfit_probs fb e f b (mc_norm v) eg g bm) ->
  cfit_default fb ws e f b v eg g bm = cfit_doc fb ws e f b v eg g bm /\
  cfit_gradval fb (fcn_weight ws []) e f b (mc_norm v) eg g bm = cfit_doc fb ws e f b v eg g bm.
Proof. exact cfit_matches_doc. Qed.
Print Assumptions C06_cfit_matches_doc.

(* the code before 9a16823 (plain log in Model_cfit.nll) was the documented mixture everywhere, and therefore NOT the value
   returned alongside the gradient in the clip region (witness: one event of mixture density 1e-8) *)
Theorem C06_cfit_old_matches_doc : forall fb ws e f b v eg g bm,
  rsum ws <> 0 -> rsum (sqs ws) <> 0 ->
  cfit_default_old fb ws e f b v eg g bm = cfit_doc fb ws e f b v eg g bm.
Proof. exact cfit_old_matches_doc. Qed.
Print Assumptions C06_cfit_old_matches_doc.

Theorem C06_cfit_old_call_not_gradval_refuted :
  exists fb ws e f b v eg g bm, rsum ws <> 0 /\ rsum (sqs ws) <> 0 /\
    cfit_default_old fb ws e f b v eg g bm <> cfit_gradval fb (fcn_weight ws []) e f b (mc_norm v) eg g bm.
Proof. exact cfit_old_call_not_gradval_refuted. Qed.
Print Assumptions C06_cfit_old_call_not_gradval_refuted.

(* cfit extended: + the lambda terms  -N ln lambda + lambda,  N = alpha sum w, lambda = I_sig/(1-f_bg) *)
Theorem C06_cfit_ext_call_equals_gradval : forall fb ws e f b v eg g bm,
  rsum ws <> 0 -> rsum (sqs ws) <> 0 ->
  cfit_ext_default fb ws e f b v eg g bm = cfit_ext_gradval fb (fcn_weight ws []) e f b (mc_norm v) eg g bm.
Proof. exact cfit_ext_call_equals_gradval. Qed.
Print Assumptions C06_cfit_ext_call_equals_gradval.

Theorem C06_cfit_extended_matches_doc : forall fb ws e f b v eg g bm,
  rsum ws <> 0 -> rsum (sqs ws) <> 0 ->
  Forall (fun x => eps_clip < x) (cfit_probs fb e f b (mc_norm v) eg g bm) ->
  cfit_ext_default fb ws e f b v eg g bm = cfit_ext_doc fb ws e f b v eg g bm /\
  cfit_ext_gradval fb (fcn_weight ws []) e f b (mc_norm v) eg g bm = cfit_ext_doc fb ws e f b v eg g bm.
Proof. exact cfit_extended_matches_doc. Qed.
Print Assumptions C06_cfit_extended_matches_doc.

Theorem C06_cfit_lambda_doc : forall fb v eg g,
  cfit_lambda fb (mc_norm v) eg g = rdot v (sig_of eg g) / rsum v / (1 - fb).
Proof. exact cfit_lambda_doc. Qed.
Print Assumptions C06_cfit_lambda_doc.

(* correspondence helper: one interval goal on the squared distance certifies element-wise closeness *)
Theorem C06_sqdist_close : forall t a b, 0 <= t -> sqdist a b <= t * t -> length a = length b -> close_list t a b.
Proof. exact sqdist_close. Qed.
Print Assumptions C06_sqdist_close.

(* ---- resolution_size = R > 1: an event is R consecutive smeared samples, the log is taken per event ---- *)

(* R = 1: the resolution formula is the plain formula (value of nll_grad and BaseModel.nll), also for vanishing weights *)
Theorem C06_nll_res_R1 : forall ext w f v g,
  nll_gradval_res ext (chunk 1 w) (chunk 1 f) v g = nll_gradval ext w f v g /\
  nll_base_res ext (chunk 1 w) (chunk 1 f) v g = nll_base ext w f v g.
Proof. exact nll_res_R1. Qed.
Print Assumptions C06_nll_res_R1.

(* batch independence still holds for ANY split into batches of whole events *)
Theorem C06_nll_res_batch_independent : forall ext bd bm, ev_batches_ok bd -> batches_ok bm ->
  nll_gradval_res_batched ext bd bm
  = nll_gradval_res ext (concat (map fst bd)) (concat (map snd bd)) (concat (map fst bm)) (concat (map snd bm)).
Proof. exact nll_res_batch_independent. Qed.
Print Assumptions C06_nll_res_batch_independent.

Theorem C06_rsum_ev_weights : forall we, rsum (ev_weights we) = rsum (concat we).
Proof. exact rsum_ev_weights. Qed.
Print Assumptions C06_rsum_ev_weights.

(* correspondence helper: one interval goal certifies that no event weight vanishes (zero guard inactive) *)
Theorem C06_ev_density_cert : forall c we fe,
  0 < c -> shortfall c (sqs (ev_weights we)) <= c / 2 -> ev_density we fe = ev_density_nz we fe.
Proof. exact ev_density_cert. Qed.
Print Assumptions C06_ev_density_cert.

(* ---- all groupings into simultaneous data sets: one likelihood model per data set ---- *)

(* a per-set configuration entry (bg_frac / bg_weight) given as ONE scalar or as a list with one value per set:
   the FCNs built by get_fcn cover exactly the data sets handed to it, in order *)
Theorem C06_every_data_set_enters : forall (A D : Type) (entry : A + list A) (sets : list D),
  (forall l, entry = inr l -> length l = length sets) ->
  map snd (fcn_parts (models_for_sets entry (length sets)) sets) = sets.
Proof. exact @every_data_set_enters. Qed.
Print Assumptions C06_every_data_set_enters.

(* the code before /verif/build/fix_C06/patch_1.diff (cfit, scalar bg_frac: one model) dropped data sets *)
Theorem C06_old_scalar_bg_frac_refuted :
  exists (entry : R + list R) (sets : list nat),
    (forall l, entry = inr l -> length l = length sets) /\
    (length (fcn_parts (models_for_sets_old entry (length sets)) sets) < length sets)%nat.
Proof. exact old_scalar_entry_drops_sets_refuted. Qed.
Print Assumptions C06_old_scalar_bg_frac_refuted.

(* the code before patch_2.diff reused the model list built for an earlier number of sets *)
Theorem C06_old_stale_model_list_refuted :
  exists (entry : R + list R) (n1 : nat) (sets : list nat),
    (length (fcn_parts (models_for_sets entry n1) sets) < length sets)%nat.
Proof. exact stale_model_list_drops_sets_refuted. Qed.
Print Assumptions C06_old_stale_model_list_refuted.

(* simple_cfit before patch_4.diff ignored the efficiency of the data events *)
Theorem C06_simple_cfit_old_ignores_eff_refuted :
  exists fb W e f b V eg g bm,
    simple_cfit_call_old fb W e [1] f b V eg g bm <> simple_cfit_call fb W e f b V eg g bm.
Proof. exact simple_cfit_old_ignores_eff_refuted. Qed.
Print Assumptions C06_simple_cfit_old_ignores_eff_refuted.

(* OPEN finding (rescaling:clip_log_unnormalised): without the hypothesis "all densities above the clip threshold"
   of C06_nll_scale_invariant the non-extended NLL of the code is NOT invariant under a common rescaling *)
Theorem C06_nll_scale_below_clip_refuted :
  exists c w f v g, 0 < c /\ nll_base false w (rscale c f) v (rscale c g) <> nll_base false w f v g.
Proof. exact nll_scale_below_clip_refuted. Qed.
Print Assumptions C06_nll_scale_below_clip_refuted.

(* non-vacuity: the hypotheses are satisfiable (mixed-sign weights, densities above the threshold) *)
Example C06_example_hyps :
  let w := blend [1; -1/2; 2] (bg_const_weights (1/4) 2) in
  rsum w <> 0 /\ rsum (sqs w) <> 0 /\ Forall (fun x => eps_clip < x) [1; 2; 3; 1/2; 1/3].
Proof.
  cbv [blend bg_const_weights repeat app sqs map rsum eps_clip]. repeat split; try lra.
  repeat constructor; lra.
Qed.
Example C06_example_alpha : alpha [1; 1; 1; 1] = 1.
Proof. unfold alpha, sqs. cbn [map rsum]. field. Qed.
