(* C05 — statements only. *)
From Coq Require Import List Arith Bool Permutation QArith.
From TFV Require Import Amp.Einsum Amp.Einsum_proofs Amp.Einsum_path Amp.Einsum_order Amp.Einsum_order_proofs.
Import ListNotations.

(* the reference value does not depend on the order in which operands are multiplied *)
Theorem C05_product_order_irrelevant :
  forall (K : Type) (kone : K) (kmul : K -> K -> K),
    (forall a b, kmul a b = kmul b a) -> (forall a b c, kmul a (kmul b c) = kmul (kmul a b) c) ->
    forall l1 l2, Permutation l1 l2 -> kprod K kone kmul l1 = kprod K kone kmul l2.
Proof. exact kprod_perm. Qed.
Print Assumptions C05_product_order_irrelevant.

(* shape of the result: one entry per assignment of the output indices, i.e. the product of their sizes *)
Theorem C05_result_length :
  forall (K : Type) (kzero kone : K) (kadd kmul : K -> K -> K) sz ops out,
    length (t_data K (einsum_spec K kzero kone kadd kmul sz ops out)) =
    fold_right (fun i acc => (size_of sz i * acc)%nat) 1%nat out.
Proof. intros. rewrite einsum_spec_length. apply all_asg_length. Qed.
Print Assumptions C05_result_length.

(* commutative-semiring laws used below *)
Definition semiring_laws (K : Type) (kzero kone : K) (kadd kmul : K -> K -> K) : Prop :=
  (forall a b, kadd a b = kadd b a) /\ (forall a b c, kadd a (kadd b c) = kadd (kadd a b) c) /\
  (forall a, kadd kzero a = a) /\ (forall a b, kmul a b = kmul b a) /\
  (forall a b c, kmul a (kmul b c) = kmul (kmul a b) c) /\ (forall a, kmul kone a = a) /\
  (forall a, kmul a kzero = kzero) /\ (forall a b c, kmul a (kadd b c) = kadd (kmul a b) (kmul a c)).

(* contracting any sub-list of operands first, keeping exactly the indices still needed (what the
   routine's out_idx computes), does not change the result: for EVERY expression, shape and choice *)
Theorem C05_partial_contraction_correct :
  forall K kzero kone kadd kmul, semiring_laws K kzero kone kadd kmul ->
  forall sz part rest out,
    einsum_spec K kzero kone kadd kmul sz
      (rest ++ [contract_step K kzero kone kadd kmul sz part (needed K rest out part)]) out
    = einsum_spec K kzero kone kadd kmul sz (part ++ rest) out.
Proof.
  intros K kzero kone kadd kmul [H1 [H2 [H3 [H4 [H5 [H6 [H7 H8]]]]]]].
  exact (contract_two_data K kzero kone kadd kmul H1 H2 H3 H4 H5 H6 H7 H8).
Qed.
Print Assumptions C05_partial_contraction_correct.

(* the loop of tf_pwa.einsum.einsum: for every valid contraction path (any order opt_einsum may
   return), the single tensor left, transposed to the requested output, IS the reference contraction *)
Theorem C05_path_contraction_correct :
  forall K kzero kone kadd kmul, semiring_laws K kzero kone kadd kmul ->
  forall sz out path ops, path <> [] -> valid_path path (length ops) ->
  exists t, eval_path K kzero kone kadd kmul sz path ops out = [t] /\
            transpose_to K kzero sz t out = einsum_spec K kzero kone kadd kmul sz ops out /\
            (forall a, in_range sz out a ->
               tget K kzero sz t a = tget K kzero sz (einsum_spec K kzero kone kadd kmul sz ops out) a).
Proof.
  intros K kzero kone kadd kmul [H1 [H2 [H3 [H4 [H5 [H6 [H7 H8]]]]]]].
  exact (path_contraction_correct K kzero kone kadd kmul H1 H2 H3 H4 H5 H6 H7 H8).
Qed.
Print Assumptions C05_path_contraction_correct.

(* the reference contraction does not depend on the order of the operands *)
Theorem C05_operand_order_irrelevant :
  forall K kzero kone kadd kmul, semiring_laws K kzero kone kadd kmul ->
  forall sz ops ops' out, Permutation ops ops' ->
    einsum_spec K kzero kone kadd kmul sz ops out = einsum_spec K kzero kone kadd kmul sz ops' out.
Proof.
  intros K kzero kone kadd kmul [H1 [H2 [H3 [H4 [H5 [H6 [H7 H8]]]]]]].
  exact (einsum_spec_perm K kzero kone kadd kmul H1 H2 H3 H4 H5).
Qed.
Print Assumptions C05_operand_order_irrelevant.

(* one step of the routine below the contraction path (tensor_einsum_reduce_sum): every operand is transposed to
   the sorted order of ITS indices and reshaped into the common sorted order of ALL indices of the step.  With the
   sort key (order value, index name) of the code after /repo 64ae4f6 the step IS the reference contraction of its
   operands, for every order table (ties included), every size table and all operands without a repeated index
   (operands with one are handed to tf.einsum before this point) *)
Theorem C05_reduce_sum_step_correct :
  forall (K : Type) (kzero kone : K) (kadd kmul : K -> K -> K),
    (forall a b : K, kadd a b = kadd b a) ->
    (forall a b c : K, kadd a (kadd b c) = kadd (kadd a b) c) ->
    (forall a : K, kadd kzero a = a) ->
    forall (sz : list (nat * nat)) (ord : key) (part : list (tensor K)) (keep : list nat),
    (forall t : tensor K, In t part -> NoDup (t_idx K t)) ->
    reduce_sum_step K kzero kone kadd kmul sz (sort_new ord) part keep =
    einsum_spec K kzero kone kadd kmul sz part keep.
Proof. exact reduce_sum_step_new_correct. Qed.
Print Assumptions C05_reduce_sum_step_correct.

(* the transposed layout and the layout the product reads agree: sorting an operand's indices gives the common
   sorted order restricted to them *)
Theorem C05_sort_consistent :
  forall (ord : key) (l all : list nat), NoDup l -> NoDup all -> incl l all ->
    sort_new ord l = filter (fun i : nat => existsb (Nat.eqb i) l) (sort_new ord all).
Proof. exact sort_new_consistent. Qed.
Print Assumptions C05_sort_consistent.

(* with the key of the code BEFORE 64ae4f6 (order value only, Python's stable sort) the statement is false:
   "cbd,dbc->b" with c and d at the same place *)
Theorem C05_reduce_sum_step_old_refuted :
  exists (sz : list (nat * nat)) (ord : key) (part : list (tensor Qc)) (keep : list nat),
    (forall t : tensor Qc, In t part -> NoDup (t_idx Qc t)) /\
    reduce_sum_step_q_old ord sz part keep <> einsum_q sz part keep.
Proof. exact reduce_sum_step_old_refuted. Qed.
Print Assumptions C05_reduce_sum_step_old_refuted.

(* the laws are satisfiable (natural numbers) *)
Example C05_laws_nat : semiring_laws nat 0%nat 1%nat Nat.add Nat.mul.
Proof.
  repeat split; intros; auto using Nat.add_comm, Nat.add_assoc, Nat.mul_comm, Nat.mul_assoc, Nat.mul_1_l, Nat.mul_0_r, Nat.mul_add_distr_l.
Qed.

(* non-vacuity / sanity: "ab,bc->ac" over complex rationals *)
Example C05_example :
  t_data _ (einsum_q [(0,2);(1,2);(2,1)]%nat
     [ {| t_idx := [0;1]%nat; t_data := [(1,0);(2,0);(3,0);(4,0)]%Q |};
       {| t_idx := [1;2]%nat; t_data := [(1,1);(0,1)]%Q |} ] [0;2]%nat) = [(1,3);(3,7)]%Q.
Proof. vm_compute. reflexivity. Qed.
