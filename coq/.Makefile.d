Comb/LS.vo Comb/LS.glob Comb/LS.v.beautified Comb/LS.required_vo: Comb/LS.v 
Comb/LS.vio: Comb/LS.v 
Comb/LS.vos Comb/LS.vok Comb/LS.required_vos: Comb/LS.v 
Comb/LS_proofs.vo Comb/LS_proofs.glob Comb/LS_proofs.v.beautified Comb/LS_proofs.required_vo: Comb/LS_proofs.v Comb/LS.vo
Comb/LS_proofs.vio: Comb/LS_proofs.v Comb/LS.vio
Comb/LS_proofs.vos Comb/LS_proofs.vok Comb/LS_proofs.required_vos: Comb/LS_proofs.v Comb/LS.vos
Props/Properties_C13.vo Props/Properties_C13.glob Props/Properties_C13.v.beautified Props/Properties_C13.required_vo: Props/Properties_C13.v Comb/LS.vo Comb/LS_proofs.vo
Props/Properties_C13.vio: Props/Properties_C13.v Comb/LS.vio Comb/LS_proofs.vio
Props/Properties_C13.vos Props/Properties_C13.vok Props/Properties_C13.required_vos: Props/Properties_C13.v Comb/LS.vos Comb/LS_proofs.vos
