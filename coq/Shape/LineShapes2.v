(* Models of the particle models BWR_LS2, MultiBWR (and its subclass MultiBW) of
   tf_pwa/amp/split_ls.py.  Definitions only; complex numbers are pairs as in LineShapes.v.

   BWR_LS2  (ParticleBWRLS2): documented
        R_i(m) = 1 / (m0^2 - m^2 - i m0 Gamma0 (rho/rho0) g_i^2),  rho = 2q/m,
        g_i = gamma_i (q/q0)^l_i B'_{l_i}(q, q0, d).
      The code has no gamma_i parameter (gamma_i = 1) and evaluates BWR2(m, m0, g0, q2, q02, l_i, d)
      with q2 = get_relative_p2(m, m1, m2), q02 = get_relative_p2(m0, m1, m2) (not clamped at threshold).
      Particle.__call__(m, l=0) evaluates the single coupling l = 0 whatever the decay's l list is.

   MultiBWR (ParticleMultiBWR): the docstring gives no formula ("Combine Multi BWR into one particle");
      transcribed from get_ls_amp:
        R_i(m) = (q/q0)^l_i B'_{l_i}(q,q0,d) * sum_j c_ij BWR2(m, m0_j, g0_j, q2, q02, min_i l_i, d)
      quirks: ONE q02 for all sub-resonances (the decay computes it from Particle.get_mass(), i.e. the
      configured "mass", or - when none is configured - from the mean of the data masses; the method
      ParticleMultiBWR.mass() is shadowed by the instance attribute and never used);
      the running width of every term uses the smallest l of the decay; c_ij = r e^{i phi} (polar variables
      named ..._coeff_i_jr / ..._coeff_i_ji).

   MultiBW (ParticleMultiBW): documented "Combine Multi BW"; it overrides dom_fun, which get_ls_amp never
      calls, so the code evaluates exactly MultiBWR. *)
From Coq Require Import Reals List ZArith.
From TFV Require Import Base.RBase Shape.LineShapes.
Import ListNotations.
Open Scope R_scope.

(* ---------- BWR_LS2 ---------- *)
(* documented partial-width factor g_i *)
Definition ls2_g (gamma : R) (l : nat) (q q0 d : R) : R := gamma * (q / q0) ^ l * Bprime l q q0 d.
(* documented line shape, rho/rho0 = (q/q0)(m0/m) *)
Definition BWR_LS2_doc (m m0 g0 q q0 gamma : R) (l : nat) (d : R) : C :=
  bw_xy (m0 * m0 - m * m) (m0 * g0 * ((q / q0) * (m0 / m)) * (ls2_g gamma l q q0 d) ^ 2).
(* the code: get_ls_amp(m, ls, q2, q02)[i] *)
Definition BWR_LS2 (m m0 g0 q2 q02 : R) (ls : list nat) (d : R) (i : nat) : C :=
  BWR2 m m0 g0 q2 q02 (nth i ls 0%nat) d.
(* the code: __call__(m) with its default l = 0 *)
Definition BWR_LS2_call (m m0 g0 q2 q02 d : R) : C := BWR_LS2 m m0 g0 q2 q02 [0%nat] d 0.

(* LS-decay (ParticleDecayLS / HelicityDecay.get_ls_amp): coupling i contributes g_ls_i * R_i(m) *)
Definition ls_decay_amp (g R : C) : C := Cmul g R.

(* ---------- MultiBWR ---------- *)
(* complex variables of the variable manager are polar: (r, phi) -> r e^{i phi} *)
Definition polar (r phi : R) : C := (r * cos phi, r * sin phi).
Definition Csum (l : list C) : C := fold_right Cadd (0, 0) l.
(* l = min([i[0] for i in ls]) *)
Definition lmin (ls : list nat) : nat := fold_right Nat.min (hd 0%nat ls) ls.
(* one BWR2 per (m0_j, g0_j), all with the same q2, q02, l, d *)
Definition multi_doms (m q2 q02 : R) (l : nat) (d : R) (res : list (R * R)) : list C :=
  map (fun r => BWR2 m (fst r) (snd r) q2 q02 l d) res.
(* reduce_sum(dom * c) *)
Definition multi_mix (cs doms : list C) : C :=
  Csum (map (fun p => Cmul (fst p) (snd p)) (combine doms cs)).
(* assembled from its ingredients (layered tie) *)
Definition MultiBWR_from (bf : R) (cs doms : list C) : C := Cscal bf (multi_mix cs doms).
Definition MultiBWR (m q2 q02 : R) (ls : list nat) (d : R) (res : list (R * R)) (coeff : list (list C)) (i : nat) : C :=
  MultiBWR_from (ls_barrier (nth i ls 0%nat) q2 q02 d) (nth i coeff []) (multi_doms m q2 q02 (lmin ls) d res).
(* element-wise sum of two coefficient rows *)
Definition coeff_add (a b : list C) : list C := map (fun p => Cadd (fst p) (snd p)) (combine a b).

(* ---------- MultiBW ---------- *)
Definition multi_bw_doms (m : R) (res : list (R * R)) : list C := map (fun r => BW m (fst r) (snd r)) res.
(* as documented: a combination of constant-width Breit-Wigners *)
Definition MultiBW_doc (m q2 q02 : R) (ls : list nat) (d : R) (res : list (R * R)) (coeff : list (list C)) (i : nat) : C :=
  MultiBWR_from (ls_barrier (nth i ls 0%nat) q2 q02 d) (nth i coeff []) (multi_bw_doms m res).
(* as coded BEFORE /repo fix 4a6337b: dom_fun was never called, get_ls_amp was inherited unchanged (old model, kept for the
   refutation theorem); since the fix the code is MultiBW_doc, which is what the tie compares against *)
Definition MultiBW_code := MultiBWR.

(* ====================================================================================================
   Hunt round 2 (C15): the code AFTER the repairs of /verif/build/fix2_C15 (patches 3, 5, 8).
   ==================================================================================================== *)

(* ---------- MultiBWR after the repair (patch 3) ----------
   Every member is a BWR normalised at ITS OWN mass: q0_k^2 = get_relative_p2(m0_k, m1, m2), so Gamma_k(m0_k) = Gamma0_k.
   The decay's q02 (barrier factor of the coupling) is taken at the FIRST member's mass (get_mass() = all_mass()[0]); it no
   longer comes from the unrelated `mass:` entry or from the mean mass of the first data batch.
   [multi_doms] / [MultiBWR] above (ONE q02 for all members) describe the code BEFORE the repair and are kept for the
   refutation theorem multibwr_sub_resonance_pole_refuted. *)
Definition multi_doms_own (m q2 m1 m2 : R) (l : nat) (d : R) (res : list (R * R)) : list C :=
  map (fun r => BWR2 m (fst r) (snd r) q2 (get_relative_p2 (fst r) m1 m2) l d) res.
Definition MultiBWR_own (m q2 q02 m1 m2 : R) (ls : list nat) (d : R) (res : list (R * R)) (coeff : list (list C)) (i : nat) : C :=
  MultiBWR_from (ls_barrier (nth i ls 0%nat) q2 q02 d) (nth i coeff []) (multi_doms_own m q2 m1 m2 (lmin ls) d res).
(* the reference mass the decay uses for q02: first member (0 for an empty list, never happens) *)
Definition multi_ref_mass (res : list (R * R)) : R := fst (hd (0, 0) res).

(* ---------- LS-decay and the option has_barrier_factor (patch 8) ----------
   The line shape R_i(m) of the split-LS models is evaluated by the decay; after the repair the option cannot remove it. *)
Definition ls_decay_amp_opt (has_barrier_factor : bool) (g R : C) : C := ls_decay_amp g R.
(* BEFORE the repair: has_barrier_factor = false returned the bare coupling g_ls_i, i.e. R_i(m) = 1 *)
Definition ls_decay_amp_opt_old (has_barrier_factor : bool) (g R : C) : C := if has_barrier_factor then ls_decay_amp g R else g.

(* ---------- Particle.__call__(m): the q^2 handed to the q^2-based models (patch 5) ----------
   after the repair: get_relative_p2 (not clamped), as in the amplitude; before: the square of the clamped momentum *)
Definition call_q2 (m m1 m2 : R) : R := get_relative_p2 m m1 m2.
Definition call_q2_old (m m1 m2 : R) : R := (get_relative_p m m1 m2) ^ 2.

(* ---------- symbolic denominators with the configured barrier radius (patch 1) ----------
   formula.BWR_dom(m, m0, g0, l, m1, m2, d) = m0^2 - m^2 - i m0 Gamma(m; d) *)
Definition BWR_dom (m m0 g0 q q0 : R) (L : nat) (d : R) : C := (m0 * m0 - m * m, - (m0 * Gamma m g0 q q0 L m0 d)).
