From Coq Require Import Reals List ZArith Lra Lia.
From Interval Require Import Tactic.
From TFV Require Import Base.RBase Base.Tie Shape.LineShapes.
Import ListNotations.
Open Scope R_scope.

(* ---- Bessel table ---- *)
Lemma table_is_bessel_le8 :
  forallb (fun L => if list_eq_dec Z.eq_dec (bprime_table L) (bessel_coeff L) then true else false)
          (seq 0 9) = true.
Proof. vm_compute. reflexivity. Qed.

Lemma table_is_bessel L : (L <= 8)%nat -> bprime_table L = bessel_coeff L.
Proof.
  intros H. pose proof table_is_bessel_le8 as T. rewrite forallb_forall in T.
  specialize (T L). assert (Hin : In L (seq 0 9)) by (apply in_seq; lia).
  specialize (T Hin). destruct (list_eq_dec Z.eq_dec (bprime_table L) (bessel_coeff L)); [assumption|discriminate].
Qed.

(* all coefficients positive for L <= 8 *)
Lemma table_pos_le8 : forallb (fun L => forallb (fun c => Z.ltb 0 c) (bprime_table L)) (seq 0 9) = true.
Proof. vm_compute. reflexivity. Qed.

Lemma fold_polyval_pos (cs : list R) (z acc : R) :
  0 <= z -> 0 <= acc -> Forall (fun c => 0 < c) cs -> cs <> [] ->
  0 < fold_left (fun a c => a * z + c) cs acc.
Proof.
  revert acc. induction cs as [|c cs IH]; intros acc Hz Hacc Hpos Hne; [congruence|].
  inversion Hpos as [|? ? Hc Hcs]; subst. simpl.
  assert (Hstep : 0 < acc * z + c) by nra.
  destruct cs as [|c' cs']; [exact Hstep|].
  apply IH; [assumption|lra|assumption|discriminate].
Qed.

Lemma bp_pos L z : (L <= 8)%nat -> 0 <= z -> 0 < bp L z.
Proof.
  intros HL Hz. unfold bp, polyval. apply fold_polyval_pos; [assumption|lra| |].
  - pose proof table_pos_le8 as T. rewrite forallb_forall in T.
    specialize (T L ltac:(apply in_seq; lia)). rewrite forallb_forall in T.
    apply Forall_forall. intros c Hc. apply in_map_iff in Hc. destruct Hc as [k [<- Hk]].
    apply IZR_lt. apply Z.ltb_lt. apply T. exact Hk.
  - destruct L as [|[|[|[|[|[|[|[|[|L]]]]]]]]]; try lia; vm_compute; discriminate.
Qed.

(* ---- barrier factor ---- *)
Lemma bprime_at_q0 L q0 d : (L <= 8)%nat -> Bprime L q0 q0 d = 1.
Proof.
  intros HL. unfold Bprime.
  assert (H : 0 < bp L ((q0 * d) ^ 2)) by (apply bp_pos; [assumption|apply pow2_ge_0]).
  apply Rinv_r. apply Rgt_not_eq. apply sqrt_lt_R0. exact H.
Qed.

Lemma bprime_pos L q q0 d : (L <= 8)%nat -> 0 < Bprime L q q0 d.
Proof.
  intros HL. unfold Bprime. apply Rdiv_lt_0_compat; apply sqrt_lt_R0; apply bp_pos; try assumption; apply pow2_ge_0.
Qed.

Lemma bprime_q2_agrees L q q0 d : (L <= 8)%nat -> Bprime_q2 L (q ^ 2) (q0 ^ 2) d = Bprime L q q0 d.
Proof.
  intros HL. unfold Bprime_q2, Bprime, bp_ratio.
  replace (q0 ^ 2 * d ^ 2) with ((q0 * d) ^ 2) by ring.
  replace (q ^ 2 * d ^ 2) with ((q * d) ^ 2) by ring.
  assert (H0 : 0 < bp L ((q0 * d) ^ 2)) by (apply bp_pos; [assumption|apply pow2_ge_0]).
  assert (H1 : 0 < bp L ((q * d) ^ 2)) by (apply bp_pos; [assumption|apply pow2_ge_0]).
  destruct (Rlt_dec 0 (bp L ((q0 * d) ^ 2) / bp L ((q * d) ^ 2))) as [Hr|Hr].
  - apply sqrt_div_alt. exact H1.
  - exfalso. apply Hr. apply Rdiv_lt_0_compat; assumption.
Qed.

(* below threshold (q2 < 0) Bprime_q2 is the real square root of a positive number or 1: finite *)
Lemma bprime_q2_real_pos L q2 q02 d : 0 < Bprime_q2 L q2 q02 d.
Proof.
  unfold Bprime_q2. destruct (Rlt_dec 0 (bp_ratio L q2 q02 d)) as [H|H].
  - apply sqrt_lt_R0. exact H.
  - rewrite sqrt_1. lra.
Qed.

(* ---- running width ---- *)
Lemma gamma_at_m0 g0 q0 L m0 d : (L <= 8)%nat -> q0 <> 0 -> m0 <> 0 -> Gamma m0 g0 q0 q0 L m0 d = g0.
Proof.
  intros HL Hq Hm. unfold Gamma. rewrite bprime_at_q0 by assumption.
  replace (q0 / q0) with 1 by (field; assumption).
  replace (m0 / m0) with 1 by (field; assumption).
  rewrite !pow1. ring.
Qed.

Lemma gamma_pos m g0 q q0 L m0 d :
  (L <= 8)%nat -> 0 < g0 -> 0 < q -> 0 < q0 -> 0 < m -> 0 < m0 -> 0 < Gamma m g0 q q0 L m0 d.
Proof.
  intros HL Hg Hq Hq0 Hm Hm0. unfold Gamma.
  assert (0 < q / q0) by (apply Rdiv_lt_0_compat; assumption).
  assert (0 < (q / q0) ^ (2 * L + 1)) by (apply pow_lt; assumption).
  assert (0 < m0 / m) by (apply Rdiv_lt_0_compat; assumption).
  assert (0 < Bprime L q q0 d ^ 2) by (apply pow_lt; apply bprime_pos; assumption).
  apply Rmult_lt_0_compat; [apply Rmult_lt_0_compat; [apply Rmult_lt_0_compat|]|]; assumption.
Qed.

(* ---- Breit-Wigner family 1/(x - i y) ---- *)
Lemma bw_xy_im_pos x y : 0 < y -> 0 < snd (bw_xy x y).
Proof. intros Hy. unfold bw_xy; simpl. apply Rdiv_lt_0_compat; [assumption|nra]. Qed.

Lemma bw_xy_at_pole y : y <> 0 -> bw_xy 0 y = (0, 1 / y).
Proof. intros Hy. unfold bw_xy. f_equal; field; assumption. Qed.

(* bw_xy x y is the reciprocal of the denominator x - i y *)
Lemma bw_xy_reciprocal x y : x * x + y * y <> 0 -> Cmul (bw_xy x y) (x, - y) = (1, 0).
Proof. intros H. unfold Cmul, bw_xy; simpl. f_equal; field; assumption. Qed.

Lemma bw_at_pole m0 g0 : m0 <> 0 -> g0 <> 0 -> BW m0 m0 g0 = (0, 1 / (m0 * g0)).
Proof.
  intros Hm Hg. unfold BW. replace (m0 * m0 - m0 * m0) with 0 by ring.
  apply bw_xy_at_pole. apply Rmult_integral_contrapositive_currified; assumption.
Qed.

Lemma bw_im_pos m m0 g0 : 0 < m0 -> 0 < g0 -> 0 < snd (BW m m0 g0).
Proof. intros. unfold BW. apply bw_xy_im_pos. apply Rmult_lt_0_compat; assumption. Qed.

Lemma bwr_at_pole m0 g0 q0 L d :
  (L <= 8)%nat -> m0 <> 0 -> g0 <> 0 -> q0 <> 0 -> BWR m0 m0 g0 q0 q0 L d = (0, 1 / (m0 * g0)).
Proof.
  intros HL Hm Hg Hq. unfold BWR. rewrite gamma_at_m0 by assumption.
  replace (m0 * m0 - m0 * m0) with 0 by ring.
  apply bw_xy_at_pole. apply Rmult_integral_contrapositive_currified; assumption.
Qed.

Lemma bwr_im_pos m m0 g0 q q0 L d :
  (L <= 8)%nat -> 0 < g0 -> 0 < q -> 0 < q0 -> 0 < m -> 0 < m0 -> 0 < snd (BWR m m0 g0 q q0 L d).
Proof.
  intros. unfold BWR. apply bw_xy_im_pos. apply Rmult_lt_0_compat; [assumption|apply gamma_pos; assumption].
Qed.

(* BWR2 agrees with BWR above threshold: q2 = q^2, q02 = q0^2 *)

Lemma gamma2_above m g0 q q0 L m0 d :
  (L <= 8)%nat -> 0 < q -> 0 < q0 ->
  Gamma2 m g0 (q ^ 2) (q0 ^ 2) L m0 d = (Gamma m g0 q q0 L m0 d, 0).
Proof.
  intros HL Hq Hq0. unfold Gamma2, Gamma, Cscal, Csqrt_real; cbn [fst snd].
  assert (Hr : q ^ 2 / q0 ^ 2 = (q / q0) ^ 2) by (field; lra).
  assert (Hpos : 0 <= q ^ 2 / q0 ^ 2) by (rewrite Hr; apply pow2_ge_0).
  rewrite (rmax_0_pos _ Hpos), (rmax_0_neg _ Hpos), sqrt_0.
  rewrite Hr. rewrite sqrt_pow2 by (apply Rlt_le, Rdiv_lt_0_compat; assumption).
  assert (HB : bp_ratio L (q ^ 2) (q0 ^ 2) d = Bprime L q q0 d ^ 2).
  { pose proof (bprime_q2_agrees L q q0 d HL) as A. unfold Bprime_q2 in A.
    assert (Hrat : 0 < bp_ratio L (q ^ 2) (q0 ^ 2) d).
    { unfold bp_ratio. apply Rdiv_lt_0_compat; apply bp_pos; try assumption;
        apply Rmult_le_pos; apply pow2_ge_0. }
    destruct (Rlt_dec 0 (bp_ratio L (q ^ 2) (q0 ^ 2) d)) as [_|N]; [|contradiction].
    rewrite <- A. rewrite pow2_sqrt; [reflexivity|lra]. }
  rewrite HB.
  assert (Hp : (q / q0) ^ (2 * L + 1) = ((q / q0) ^ 2) ^ L * (q / q0))
    by (rewrite pow_add, pow_mult, pow_1; reflexivity).
  rewrite Hp. f_equal; ring.
Qed.

Lemma bwr2_above m m0 g0 q q0 L d :
  (L <= 8)%nat -> 0 < q -> 0 < q0 ->
  BWR2 m m0 g0 (q ^ 2) (q0 ^ 2) L d = BWR m m0 g0 q q0 L d.
Proof.
  intros HL Hq Hq0. unfold BWR2, BWR. rewrite gamma2_above by assumption. cbn [fst snd].
  unfold bw_xy. f_equal.
  - f_equal; ring.
  - replace (- - (m0 * Gamma m g0 q q0 L m0 d)) with (m0 * Gamma m g0 q q0 L m0 d) by ring.
    f_equal; ring.
Qed.

(* Flatte with sign +1 (documented "+ i m0 sum") has NEGATIVE imaginary part above all thresholds
   for positive couplings; sign -1 (FlatteC) positive: the sign convention is the documented one *)
Lemma flatte_one_channel_above sign m m0 ma mb g :
  0 < (m * m - (ma + mb) * (ma + mb)) * (m * m - (ma - mb) * (ma - mb)) / 4 / (m * m) ->
  let p := sqrt (Rabs ((m * m - (ma + mb) * (ma + mb)) * (m * m - (ma - mb) * (ma - mb)) / 4 / (m * m))) in
  let re := m0 * m0 - m * m in
  let im := sign * (p * (g * (m0 / m))) in
  Flatte sign m m0 [(ma, mb, g)] = (re / (re * re + im * im), - im / (re * re + im * im)).
Proof.
  intros Hp p re im. unfold Flatte, flatte_rho, flatte_p; simpl fold_left.
  destruct (Rlt_dec 0 _) as [_|N]; [|contradiction].
  unfold Cscal, Cadd, Cmul; cbn [fst snd]. fold p.
  assert (E1 : m0 * m0 - m * m + sign * (0 + (p * 0 - 0 * (g * (m0 / m)))) = re) by (unfold re; ring).
  assert (E2 : sign * (0 + (p * (g * (m0 / m)) + 0 * 0)) = im) by (unfold im; ring).
  rewrite E1, E2. reflexivity.
Qed.

(* ---- BWR_LS: the partial-width fractions are normalised, for ANY number of couplings ---- *)
Lemma gamma_factors_from_sumsq f thetas : sumsq (gamma_factors_from f thetas) = f * f.
Proof.
  revert f. induction thetas as [|t rest IH]; intros f; simpl.
  - ring.
  - rewrite IH. pose proof (sin2_cos2 t) as H. unfold Rsqr in H.
    replace (f * cos t * (f * cos t) + f * sin t * (f * sin t)) with (f * f * (sin t * sin t + cos t * cos t)) by ring.
    rewrite H. ring.
Qed.
Theorem gamma_factors_normalised thetas : sumsq (gamma_factors thetas) = 1.
Proof. unfold gamma_factors. rewrite gamma_factors_from_sumsq. ring. Qed.
Lemma gamma_factors_length thetas : length (gamma_factors thetas) = S (length thetas).
Proof.
  unfold gamma_factors. generalize 1. induction thetas as [|t rest IH]; intros f; simpl; [reflexivity|].
  rewrite IH. reflexivity.
Qed.

(* numeric line shape x denominator = partial-width factor: the symbolic denominator is the reciprocal *)
Lemma Cinv_mul z : fst z * fst z + snd z * snd z <> 0 -> Cmul (Cinv z) z = (1, 0).
Proof. intros H. destruct z as [x y]. unfold Cmul, Cinv; simpl in *. f_equal; field; exact H. Qed.
Theorem bwr_ls_dom_reciprocal doc m m0 g0 q2 q02 ls thetas d i :
  let den := BWR_LS_den doc m m0 g0 q2 q02 ls thetas d in
  fst den * fst den + snd den * snd den <> 0 ->
  Cmul (BWR_LS doc m m0 g0 q2 q02 ls thetas d i) den = (nth i (ls_widths ls thetas q2 q02 d) 0, 0).
Proof.
  intros den H. unfold BWR_LS. fold den.
  pose proof (Cinv_mul den H) as E. destruct (Cinv den) as [u v], den as [x y].
  unfold Cmul, Cscal in *; cbn [fst snd] in *.
  assert (E1 : u * x - v * y = 1) by (apply (f_equal fst) in E; exact E).
  assert (E2 : u * y + v * x = 0) by (apply (f_equal snd) in E; exact E).
  set (w := nth i (ls_widths ls thetas q2 q02 d) 0).
  f_equal.
  - replace (w * u * x - w * v * y) with (w * (u * x - v * y)) by ring. rewrite E1. ring.
  - replace (w * u * y + w * v * x) with (w * (u * y + v * x)) by ring. rewrite E2. ring.
Qed.

(* the documented width factor and the code's default differ away from the pole *)
Lemma bwr_ls_default_differs_from_doc :
  snd (BWR_LS_den false 2 1 1 1 1 [0%nat] [] 3) < snd (BWR_LS_den true 2 1 1 1 1 [0%nat] [] 3).
Proof. rcompute. rclose. Qed.
