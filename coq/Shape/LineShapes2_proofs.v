From Coq Require Import Reals List ZArith Lra Lia.
From Interval Require Import Tactic.
From TFV Require Import Base.RBase Base.Tie Shape.LineShapes Shape.LineShapes_proofs Shape.LineShapes2.
Import ListNotations.
Open Scope R_scope.

(* ---------- complex helpers ---------- *)
Lemma Cinv_conj x b : Cinv (x, - b) = bw_xy x b.
Proof.
  unfold Cinv, bw_xy; cbn [fst snd]. f_equal.
  - f_equal; ring.
  - replace (- - b) with b by ring. f_equal; ring.
Qed.
Lemma Cmul_one_r z : Cmul z (1, 0) = z.
Proof. destruct z as [u v]. unfold Cmul; cbn [fst snd]. f_equal; ring. Qed.
Lemma Cadd_zero_r z : Cadd z (0, 0) = z.
Proof. destruct z as [u v]. unfold Cadd; cbn [fst snd]. f_equal; ring. Qed.
Lemma Cmul_assoc_comm k x c : Cmul x (Cmul k c) = Cmul k (Cmul x c).
Proof. destruct k, x, c. unfold Cmul; cbn [fst snd]. f_equal; ring. Qed.
Lemma Cmul_Cadd_r k a b : Cmul k (Cadd a b) = Cadd (Cmul k a) (Cmul k b).
Proof. destruct k, a, b. unfold Cmul, Cadd; cbn [fst snd]. f_equal; ring. Qed.
Lemma Cmul_Cadd_l x a b : Cmul x (Cadd a b) = Cadd (Cmul x a) (Cmul x b).
Proof. apply Cmul_Cadd_r. Qed.
Lemma Cmul_zero_r k : Cmul k (0, 0) = (0, 0).
Proof. destruct k. unfold Cmul; cbn [fst snd]. f_equal; ring. Qed.
Lemma Cadd_swap4 a b c d : Cadd (Cadd a b) (Cadd c d) = Cadd (Cadd a c) (Cadd b d).
Proof. destruct a, b, c, d. unfold Cadd; cbn [fst snd]. f_equal; ring. Qed.
Lemma Cscal_Cadd k a b : Cscal k (Cadd a b) = Cadd (Cscal k a) (Cscal k b).
Proof. destruct a, b. unfold Cscal, Cadd; cbn [fst snd]. f_equal; ring. Qed.
Lemma Cscal_Cmul k c z : Cscal k (Cmul c z) = Cmul c (Cscal k z).
Proof. destruct c, z. unfold Cscal, Cmul; cbn [fst snd]. f_equal; ring. Qed.

(* ---------- BWR2 with a real width is 1/(x - i m0 Gamma) ---------- *)
Lemma bwr2_real_gamma m m0 g0 q2 q02 L d :
  snd (Gamma2 m g0 q2 q02 L m0 d) = 0 ->
  BWR2 m m0 g0 q2 q02 L d = bw_xy (m0 * m0 - m * m) (m0 * fst (Gamma2 m g0 q2 q02 L m0 d)).
Proof.
  intros H. unfold BWR2. rewrite H. unfold bw_xy. f_equal.
  - f_equal; ring.
  - replace (- - (m0 * fst (Gamma2 m g0 q2 q02 L m0 d))) with (m0 * fst (Gamma2 m g0 q2 q02 L m0 d)) by ring.
    f_equal; ring.
Qed.

(* above threshold in the q^2 variables: real width r^L sqrt(r) Gamma0 (m0/m) bp_ratio *)
Lemma gamma2_pos_ratio m g0 q2 q02 L m0 d :
  0 <= q2 / q02 ->
  Gamma2 m g0 q2 q02 L m0 d =
  ((q2 / q02) ^ L * (g0 * bp_ratio L q2 q02 d * (m0 / m)) * sqrt (q2 / q02), 0).
Proof.
  intros Hr. unfold Gamma2, Cscal, Csqrt_real; cbn [fst snd].
  rewrite (rmax_0_pos _ Hr), (rmax_0_neg _ Hr), sqrt_0. f_equal; ring.
Qed.

(* Gamma(m0) = Gamma0 in the q^2 variables *)
Lemma gamma2_at_m0 g0 q02 L m0 d :
  (L <= 8)%nat -> 0 < q02 -> m0 <> 0 -> Gamma2 m0 g0 q02 q02 L m0 d = (g0, 0).
Proof.
  intros HL Hq Hm.
  assert (H1 : q02 / q02 = 1) by (field; lra).
  rewrite gamma2_pos_ratio by (rewrite H1; lra).
  rewrite H1, sqrt_1, pow1. unfold bp_ratio.
  assert (Hb : 0 < bp L (q02 * d ^ 2)).
  { apply bp_pos; [assumption|]. apply Rmult_le_pos; [lra|apply pow2_ge_0]. }
  f_equal. field. split; [assumption|lra].
Qed.

(* ---------- BWR_LS2 ---------- *)
(* every coupling is the running-width Breit-Wigner of its own l *)
Lemma bwr_ls2_is_bwr m m0 g0 q q0 ls d i :
  (nth i ls 0 <= 8)%nat -> 0 < q -> 0 < q0 ->
  BWR_LS2 m m0 g0 (q ^ 2) (q0 ^ 2) ls d i = BWR m m0 g0 q q0 (nth i ls 0%nat) d.
Proof. intros. unfold BWR_LS2. apply bwr2_above; assumption. Qed.

(* BWR is the documented BWR_LS2 formula with gamma_i = 1 *)
Lemma bwr_is_ls2_doc m m0 g0 q q0 l d : BWR m m0 g0 q q0 l d = BWR_LS2_doc m m0 g0 q q0 1 l d.
Proof.
  unfold BWR, BWR_LS2_doc, Gamma, ls2_g. f_equal.
  replace (2 * l + 1)%nat with (l + l + 1)%nat by lia.
  rewrite !pow_add, pow_1. ring.
Qed.

(* the code equals the documented formula (gamma_i = 1) above threshold *)
Theorem bwr_ls2_documented m m0 g0 q q0 ls d i :
  (nth i ls 0 <= 8)%nat -> 0 < q -> 0 < q0 ->
  BWR_LS2 m m0 g0 (q ^ 2) (q0 ^ 2) ls d i = BWR_LS2_doc m m0 g0 q q0 1 (nth i ls 0%nat) d.
Proof. intros. rewrite bwr_ls2_is_bwr by assumption. apply bwr_is_ls2_doc. Qed.

(* the documented gamma_i only rescales Gamma0: the code's gamma_i = 1 loses no generality *)
Lemma bwr_ls2_doc_gamma_redundant m m0 g0 q q0 gamma l d :
  BWR_LS2_doc m m0 g0 q q0 gamma l d = BWR_LS2_doc m m0 (g0 * gamma ^ 2) q q0 1 l d.
Proof. unfold BWR_LS2_doc, ls2_g. f_equal. ring. Qed.

Theorem bwr_ls2_im_pos m m0 g0 q q0 ls d i :
  (nth i ls 0 <= 8)%nat -> 0 < g0 -> 0 < q -> 0 < q0 -> 0 < m -> 0 < m0 ->
  0 < snd (BWR_LS2 m m0 g0 (q ^ 2) (q0 ^ 2) ls d i).
Proof. intros. rewrite bwr_ls2_is_bwr by assumption. apply bwr_im_pos; assumption. Qed.

(* value at the pole: i / (m0 Gamma0), for every coupling *)
Theorem bwr_ls2_at_pole m0 g0 q02 ls d i :
  (nth i ls 0 <= 8)%nat -> 0 < q02 -> m0 <> 0 -> g0 <> 0 ->
  BWR_LS2 m0 m0 g0 q02 q02 ls d i = (0, 1 / (m0 * g0)).
Proof.
  intros HL Hq Hm Hg. unfold BWR_LS2.
  rewrite bwr2_real_gamma by (rewrite gamma2_at_m0 by assumption; reflexivity).
  rewrite gamma2_at_m0 by assumption. cbn [fst].
  replace (m0 * m0 - m0 * m0) with 0 by ring.
  apply bw_xy_at_pole. apply Rmult_integral_contrapositive_currified; assumption.
Qed.

(* __call__(m) is the S-wave coupling *)
Lemma bwr_ls2_call_is_swave m m0 g0 q2 q02 d : BWR_LS2_call m m0 g0 q2 q02 d = BWR2 m m0 g0 q2 q02 0 d.
Proof. reflexivity. Qed.
(* ... so for a resonance whose only coupling is l = 1, __call__ is not the coupling's line shape *)
Lemma bwr_ls2_call_not_own_l :
  snd (BWR_LS2_call 2 1 1 4 1 3) < snd (BWR_LS2 2 1 1 4 1 [1%nat] 3 0).
Proof.
  cbv [BWR_LS2_call BWR_LS2 nth BWR2 Gamma2 bp_ratio bp polyval bprime_table map fold_left Cscal Csqrt_real rmax fst snd].
  interval with (i_prec 60).
Qed.

(* ---------- BWR_LS with one coupling = g_0 x BWR_LS2 ---------- *)
Lemma ls_barrier_sq l q2 q02 d :
  (l <= 8)%nat -> 0 < q2 -> 0 < q02 ->
  ls_barrier l q2 q02 d * ls_barrier l q2 q02 d = (q2 / q02) ^ l * bp_ratio l q2 q02 d.
Proof.
  intros HL H2 H02. unfold ls_barrier, Bprime_q2.
  assert (Hr : 0 < q2 / q02) by (apply Rdiv_lt_0_compat; assumption).
  assert (Hb : 0 < bp_ratio l q2 q02 d).
  { unfold bp_ratio. apply Rdiv_lt_0_compat; apply bp_pos; try assumption;
      (apply Rmult_le_pos; [lra|apply pow2_ge_0]). }
  destruct (Rlt_dec 0 (bp_ratio l q2 q02 d)) as [_|N]; [|contradiction].
  replace (sqrt (q2 / q02) ^ l * sqrt (bp_ratio l q2 q02 d) * (sqrt (q2 / q02) ^ l * sqrt (bp_ratio l q2 q02 d)))
    with ((sqrt (q2 / q02) ^ l * sqrt (q2 / q02) ^ l) * (sqrt (bp_ratio l q2 q02 d) * sqrt (bp_ratio l q2 q02 d))) by ring.
  rewrite <- Rpow_mult_distr. rewrite !sqrt_sqrt by lra. reflexivity.
Qed.

Lemma ls_barrier_pos l q2 q02 d : 0 < q2 -> 0 < q02 -> 0 < ls_barrier l q2 q02 d.
Proof.
  intros H2 H02. unfold ls_barrier. apply Rmult_lt_0_compat.
  - apply pow_lt. apply sqrt_lt_R0. apply Rdiv_lt_0_compat; assumption.
  - apply bprime_q2_real_pos.
Qed.

Theorem bwr_ls_single_is_ls2 m m0 g0 q2 q02 l d :
  (l <= 8)%nat -> 0 < q2 -> 0 < q02 ->
  BWR_LS true m m0 g0 q2 q02 [l] [] d 0 =
  Cscal (ls_barrier l q2 q02 d) (BWR_LS2 m m0 g0 q2 q02 [l] d 0).
Proof.
  intros HL H2 H02.
  assert (Hr : 0 <= q2 / q02) by (apply Rlt_le, Rdiv_lt_0_compat; assumption).
  unfold BWR_LS, BWR_LS2, BWR_LS_den, ls_widths, gamma_factors, gamma_factors_from, sumsq.
  cbn [combine map nth fst snd fold_right].
  rewrite Cinv_conj.
  rewrite bwr2_real_gamma by (rewrite gamma2_pos_ratio by assumption; reflexivity).
  rewrite gamma2_pos_ratio by assumption. cbn [fst].
  replace (1 * ls_barrier l q2 q02 d) with (ls_barrier l q2 q02 d) by ring.
  f_equal. f_equal.
  replace (ls_barrier l q2 q02 d * ls_barrier l q2 q02 d + 0) with (ls_barrier l q2 q02 d * ls_barrier l q2 q02 d) by ring.
  rewrite ls_barrier_sq by assumption. ring.
Qed.

(* ---------- MultiBWR: weighted sum structure ---------- *)
Lemma multi_mix_nil_l doms : multi_mix [] doms = (0, 0).
Proof. unfold multi_mix. destruct doms; reflexivity. Qed.
Lemma multi_mix_nil_r cs : multi_mix cs [] = (0, 0).
Proof. reflexivity. Qed.
Lemma multi_mix_cons c cs x xs : multi_mix (c :: cs) (x :: xs) = Cadd (Cmul x c) (multi_mix cs xs).
Proof. reflexivity. Qed.

(* homogeneous in the coefficients *)
Lemma multi_mix_scal k cs doms : multi_mix (map (Cmul k) cs) doms = Cmul k (multi_mix cs doms).
Proof.
  revert doms. induction cs as [|c cs IH]; intros doms.
  - cbn [map]. rewrite multi_mix_nil_l, Cmul_zero_r. reflexivity.
  - destruct doms as [|x xs].
    + rewrite !multi_mix_nil_r, Cmul_zero_r. reflexivity.
    + cbn [map]. rewrite !multi_mix_cons, IH, Cmul_Cadd_r, Cmul_assoc_comm. reflexivity.
Qed.

(* additive in the coefficients *)
Lemma multi_mix_add cs cs' doms :
  length cs = length cs' ->
  multi_mix (coeff_add cs cs') doms = Cadd (multi_mix cs doms) (multi_mix cs' doms).
Proof.
  revert cs' doms. induction cs as [|c cs IH]; intros cs' doms Hlen.
  - destruct cs'; [|discriminate]. unfold coeff_add; cbn [combine map].
    rewrite !multi_mix_nil_l. unfold Cadd; cbn [fst snd]. f_equal; ring.
  - destruct cs' as [|c' cs']; [discriminate|]. injection Hlen as Hlen.
    destruct doms as [|x xs].
    + rewrite !multi_mix_nil_r. unfold Cadd; cbn [fst snd]. f_equal; ring.
    + unfold coeff_add; cbn [combine map fst snd]. fold (coeff_add cs cs').
      rewrite !multi_mix_cons, IH by assumption.
      rewrite Cmul_Cadd_l. apply Cadd_swap4.
Qed.

Theorem multibwr_additive m q2 q02 ls d res ca cb :
  length ca = length cb ->
  MultiBWR m q2 q02 ls d res [coeff_add ca cb] 0 =
  Cadd (MultiBWR m q2 q02 ls d res [ca] 0) (MultiBWR m q2 q02 ls d res [cb] 0).
Proof.
  intros H. unfold MultiBWR, MultiBWR_from. cbn [nth].
  rewrite multi_mix_add by assumption. apply Cscal_Cadd.
Qed.

Theorem multibwr_homogeneous m q2 q02 ls d res k ca :
  MultiBWR m q2 q02 ls d res [map (Cmul k) ca] 0 = Cmul k (MultiBWR m q2 q02 ls d res [ca] 0).
Proof.
  unfold MultiBWR, MultiBWR_from. cbn [nth]. rewrite multi_mix_scal. apply Cscal_Cmul.
Qed.

(* a sub-resonance with coefficient 0 drops out *)
Lemma multi_mix_zero_head cs x xs : multi_mix ((0, 0) :: cs) (x :: xs) = multi_mix cs xs.
Proof.
  rewrite multi_mix_cons, Cmul_zero_r. destruct (multi_mix cs xs). unfold Cadd; cbn [fst snd]. f_equal; ring.
Qed.

(* explicit two-term form *)
Lemma multibwr_two_terms m q2 q02 ls d m0a g0a m0b g0b ca cb :
  MultiBWR m q2 q02 ls d [(m0a, g0a); (m0b, g0b)] [[ca; cb]] 0 =
  Cscal (ls_barrier (nth 0 ls 0%nat) q2 q02 d)
        (Cadd (Cmul (BWR2 m m0a g0a q2 q02 (lmin ls) d) ca) (Cmul (BWR2 m m0b g0b q2 q02 (lmin ls) d) cb)).
Proof.
  unfold MultiBWR, MultiBWR_from, multi_doms. cbn [nth map fst snd].
  rewrite !multi_mix_cons, multi_mix_nil_l, Cadd_zero_r. reflexivity.
Qed.

(* one sub-resonance with coefficient 1: barrier factor x BWR2 *)
Theorem multibwr_single m q2 q02 ls d m0 g0 (coeff : list (list C)) i :
  nth i coeff [] = [(1, 0)] ->
  MultiBWR m q2 q02 ls d [(m0, g0)] coeff i =
  Cscal (ls_barrier (nth i ls 0%nat) q2 q02 d) (BWR2 m m0 g0 q2 q02 (lmin ls) d).
Proof.
  intros H. unfold MultiBWR, MultiBWR_from, multi_doms. rewrite H. cbn [map fst snd].
  rewrite multi_mix_cons, multi_mix_nil_l, Cmul_one_r, Cadd_zero_r. reflexivity.
Qed.

Lemma ls_barrier_0 q2 q02 d : ls_barrier 0 q2 q02 d = 1.
Proof.
  unfold ls_barrier, Bprime_q2, bp_ratio, bp, polyval. cbn [bprime_table map fold_left pow].
  replace ((0 * (q02 * (d * (d * 1))) + 1) / (0 * (q2 * (d * (d * 1))) + 1)) with 1 by (field; lra).
  destruct (Rlt_dec 0 1) as [_|N]; [|exfalso; lra]. rewrite sqrt_1. ring.
Qed.

(* single S-wave sub-resonance, coefficient 1: exactly the BWR of LineShapes.v *)
Theorem multibwr_single_swave_is_bwr m q q0 d m0 g0 :
  0 < q -> 0 < q0 ->
  MultiBWR m (q ^ 2) (q0 ^ 2) [0%nat] d [(m0, g0)] [[(1, 0)]] 0 = BWR m m0 g0 q q0 0 d.
Proof.
  intros Hq Hq0. rewrite multibwr_single by reflexivity.
  cbn [nth lmin fold_right hd Nat.min]. rewrite ls_barrier_0.
  rewrite bwr2_above by (try assumption; lia).
  destruct (BWR m m0 g0 q q0 0 d). unfold Cscal; cbn [fst snd]. f_equal; ring.
Qed.

(* single sub-resonance, any l list: positive imaginary part above threshold *)
Theorem multibwr_single_im_pos m q q0 ls d m0 g0 (coeff : list (list C)) i :
  nth i coeff [] = [(1, 0)] -> (lmin ls <= 8)%nat ->
  0 < g0 -> 0 < q -> 0 < q0 -> 0 < m -> 0 < m0 ->
  0 < snd (MultiBWR m (q ^ 2) (q0 ^ 2) ls d [(m0, g0)] coeff i).
Proof.
  intros Hc HL Hg Hq Hq0 Hm Hm0. rewrite multibwr_single by assumption.
  rewrite bwr2_above by assumption.
  unfold Cscal; cbn [snd]. apply Rmult_lt_0_compat.
  - apply ls_barrier_pos; apply pow_lt; assumption.
  - apply bwr_im_pos; assumption.
Qed.

(* value of a single S-wave term at its pole when q02 is taken at ITS mass *)
Theorem multibwr_single_at_pole q02 d m0 g0 :
  0 < q02 -> m0 <> 0 -> g0 <> 0 ->
  MultiBWR m0 q02 q02 [0%nat] d [(m0, g0)] [[(1, 0)]] 0 = (0, 1 / (m0 * g0)).
Proof.
  intros Hq Hm Hg. rewrite multibwr_single by reflexivity.
  cbn [nth lmin fold_right hd Nat.min]. rewrite ls_barrier_0.
  pose proof (bwr_ls2_at_pole m0 g0 q02 [0%nat] d 0 ltac:(cbn; lia) Hq Hm Hg) as P.
  unfold BWR_LS2 in P. cbn [nth] in P. rewrite P.
  unfold Cscal; cbn [fst snd]. f_equal; ring.
Qed.

(* ---------- deviations ---------- *)
(* MultiBWR normalises every running width at ONE q0: the second sub-resonance, evaluated at its own mass,
   is not i/(m0 Gamma0), i.e. Gamma_j(m0_j) <> Gamma0_j.  Witness: daughters 0.1 + 0.1, q0 from mass 0.5,
   second resonance (0.6, 0.1), S wave. *)
Lemma multibwr_second_term_at_own_mass :
  let ma := 1 / 10 in let mb := 1 / 10 in
  let q02 := get_relative_p2 (1 / 2) ma mb in
  let q2 := get_relative_p2 (3 / 5) ma mb in
  snd (nth 1 (multi_doms (3 / 5) q2 q02 0 3 [(1 / 2, 1 / 20); (3 / 5, 1 / 10)]) (0, 0)) < 1 / (3 / 5 * (1 / 10)) - 3.
Proof.
  cbv [multi_doms map nth fst snd get_relative_p2 BWR2 Gamma2 bp_ratio bp polyval bprime_table fold_left Cscal Csqrt_real rmax].
  interval with (i_prec 60).
Qed.
Theorem multibwr_sub_resonance_pole_refuted :
  exists m00 g00 m01 g01 ma mb d,
    0 < g01 /\ ma + mb < m00 /\ ma + mb < m01 /\
    nth 1 (multi_doms m01 (get_relative_p2 m01 ma mb) (get_relative_p2 m00 ma mb) 0 d [(m00, g00); (m01, g01)]) (0, 0)
    <> (0, 1 / (m01 * g01)).
Proof.
  exists (1 / 2), (1 / 20), (3 / 5), (1 / 10), (1 / 10), (1 / 10), 3.
  split; [lra|]. split; [lra|]. split; [lra|].
  intros H. pose proof multibwr_second_term_at_own_mass as P. cbv zeta in P.
  rewrite H in P. cbn [snd] in P. lra.
Qed.

(* MultiBW: the code (= MultiBWR, dom_fun unused) is not the documented combination of constant-width BW *)
Lemma multibw_code_vs_doc_witness :
  snd (MultiBW_code 1 (1 / 2) (1 / 4) [0%nat] 3 [(1 / 2, 1 / 10)] [[(1, 0)]] 0)
  < snd (MultiBW_doc 1 (1 / 2) (1 / 4) [0%nat] 3 [(1 / 2, 1 / 10)] [[(1, 0)]] 0) - 1 / 100.
Proof.
  cbv [MultiBW_code MultiBW_doc MultiBWR MultiBWR_from multi_mix multi_doms multi_bw_doms Csum lmin hd Nat.min combine
       ls_barrier Bprime_q2 BW bw_xy Cmul Cadd Cscal fold_right map nth fst snd BWR2 Gamma2 bp_ratio bp polyval bprime_table
       fold_left Csqrt_real rmax].
  decide_branches. interval with (i_prec 60).
Qed.
Theorem multibw_is_combination_of_bw_refuted :
  exists m q2 q02 d m0 g0,
    0 < q2 /\ 0 < q02 /\ 0 < g0 /\
    MultiBW_code m q2 q02 [0%nat] d [(m0, g0)] [[(1, 0)]] 0 <> MultiBW_doc m q2 q02 [0%nat] d [(m0, g0)] [[(1, 0)]] 0.
Proof.
  exists 1, (1 / 2), (1 / 4), 3, (1 / 2), (1 / 10).
  split; [lra|]. split; [lra|]. split; [lra|].
  intros H. pose proof multibw_code_vs_doc_witness as P. rewrite H in P. lra.
Qed.
(* what MultiBW documents does hold for the documented model: one term, S wave = BW *)
Lemma multibw_doc_single_is_bw m q2 q02 d m0 g0 :
  MultiBW_doc m q2 q02 [0%nat] d [(m0, g0)] [[(1, 0)]] 0 = BW m m0 g0.
Proof.
  unfold MultiBW_doc, MultiBWR_from, multi_bw_doms. cbn [nth map fst snd].
  rewrite multi_mix_cons, multi_mix_nil_l, Cmul_one_r, Cadd_zero_r, ls_barrier_0.
  destruct (BW m m0 g0). unfold Cscal; cbn [fst snd]. f_equal; ring.
Qed.

(* ====================================================================================================
   Hunt round 2 (C15): the code after the repairs (patches 1, 3, 5, 8 of /verif/build/fix2_C15)
   ==================================================================================================== *)

(* ---------- MultiBWR: every member normalised at its own mass ---------- *)
Lemma multi_doms_own_nth m q2 m1 m2 l d res k m0 g0 :
  nth_error res k = Some (m0, g0) ->
  nth k (multi_doms_own m q2 m1 m2 l d res) (0, 0) = BWR2 m m0 g0 q2 (get_relative_p2 m0 m1 m2) l d.
Proof.
  intros H. unfold multi_doms_own.
  apply nth_error_nth.
  rewrite (map_nth_error _ _ _ H). reflexivity.
Qed.

(* the statement of the property for MultiBWR: EVERY member, evaluated at its own mass, is i/(m0_k Gamma0_k) *)
Theorem multibwr_member_at_own_pole m1 m2 l d res k m0 g0 :
  nth_error res k = Some (m0, g0) ->
  (l <= 8)%nat -> 0 < get_relative_p2 m0 m1 m2 -> m0 <> 0 -> g0 <> 0 ->
  nth k (multi_doms_own m0 (get_relative_p2 m0 m1 m2) m1 m2 l d res) (0, 0) = (0, 1 / (m0 * g0)).
Proof.
  intros H HL Hq Hm Hg. rewrite (multi_doms_own_nth _ _ _ _ _ _ _ _ _ _ H).
  pose proof (bwr_ls2_at_pole m0 g0 (get_relative_p2 m0 m1 m2) [l] d 0 ltac:(cbn; lia) Hq Hm Hg) as P.
  unfold BWR_LS2 in P. cbn [nth] in P. exact P.
Qed.

(* every member is the q-based BWR of its own (m0_k, Gamma0_k, q0_k) above threshold *)
Theorem multibwr_member_is_bwr m q m1 m2 l d res k m0 g0 q0 :
  nth_error res k = Some (m0, g0) ->
  (l <= 8)%nat -> 0 < q -> 0 < q0 -> get_relative_p2 m0 m1 m2 = q0 ^ 2 ->
  nth k (multi_doms_own m (q ^ 2) m1 m2 l d res) (0, 0) = BWR m m0 g0 q q0 l d.
Proof.
  intros H HL Hq Hq0 E. rewrite (multi_doms_own_nth _ _ _ _ _ _ _ _ _ _ H), E.
  apply bwr2_above; assumption.
Qed.

(* a single member: the repaired model coincides with the old one evaluated with that member's own q02 *)
Lemma multibwr_own_single m q2 q02 m1 m2 ls d m0 g0 (coeff : list (list C)) i :
  MultiBWR_own m q2 q02 m1 m2 ls d [(m0, g0)] coeff i =
  MultiBWR_from (ls_barrier (nth i ls 0%nat) q2 q02 d) (nth i coeff []) (multi_doms m q2 (get_relative_p2 m0 m1 m2) (lmin ls) d [(m0, g0)]).
Proof. reflexivity. Qed.

(* single S-wave member with coefficient 1, reference mass = its mass: exactly BWR, hence i/(m0 Gamma0) at the pole *)
Theorem multibwr_own_single_swave_is_bwr m q q0 m1 m2 d m0 g0 :
  0 < q -> 0 < q0 -> get_relative_p2 (multi_ref_mass [(m0, g0)]) m1 m2 = q0 ^ 2 ->
  MultiBWR_own m (q ^ 2) (get_relative_p2 (multi_ref_mass [(m0, g0)]) m1 m2) m1 m2 [0%nat] d [(m0, g0)] [[(1, 0)]] 0 = BWR m m0 g0 q q0 0 d.
Proof.
  intros Hq Hq0 E. rewrite multibwr_own_single.
  unfold multi_ref_mass in *. cbn [hd fst] in *. rewrite E.
  exact (multibwr_single_swave_is_bwr m q q0 d m0 g0 Hq Hq0).
Qed.

(* linear in the coefficients (same proofs as for the old model: only the list of propagators differs) *)
Theorem multibwr_own_additive m q2 q02 m1 m2 ls d res ca cb :
  length ca = length cb ->
  MultiBWR_own m q2 q02 m1 m2 ls d res [coeff_add ca cb] 0 =
  Cadd (MultiBWR_own m q2 q02 m1 m2 ls d res [ca] 0) (MultiBWR_own m q2 q02 m1 m2 ls d res [cb] 0).
Proof.
  intros H. unfold MultiBWR_own, MultiBWR_from. cbn [nth].
  rewrite multi_mix_add by assumption. apply Cscal_Cadd.
Qed.
Theorem multibwr_own_homogeneous m q2 q02 m1 m2 ls d res k ca :
  MultiBWR_own m q2 q02 m1 m2 ls d res [map (Cmul k) ca] 0 = Cmul k (MultiBWR_own m q2 q02 m1 m2 ls d res [ca] 0).
Proof.
  unfold MultiBWR_own, MultiBWR_from. cbn [nth]. rewrite multi_mix_scal. apply Cscal_Cmul.
Qed.

(* ---------- has_barrier_factor cannot remove the line shape ---------- *)
Lemma ls_decay_amp_opt_keeps_line_shape b g R : ls_decay_amp_opt b g R = Cmul g R.
Proof. reflexivity. Qed.
Theorem ls_decay_amp_opt_old_keeps_line_shape_refuted :
  exists g R, ls_decay_amp_opt_old false g R <> Cmul g R.
Proof.
  exists (1, 0), (0, 40). unfold ls_decay_amp_opt_old, Cmul; cbn [fst snd].
  intros H. injection H as H1 H2. lra.
Qed.

(* ---------- Particle.__call__: q^2 ---------- *)
(* above threshold the square of the (clamped) momentum IS get_relative_p2: the repair changes nothing there *)
Lemma call_q2_old_above m m1 m2 : 0 < m -> m1 + m2 <= m -> 0 <= m1 -> 0 <= m2 -> call_q2_old m m1 m2 = call_q2 m m1 m2.
Proof.
  intros Hm Ht H1 H2. unfold call_q2_old, call_q2, get_relative_p, get_relative_p2.
  assert (E : rmax m (m1 + m2) = m) by (rewrite rmax_Rmax; apply Rmax_left; lra).
  rewrite E.
  assert (Hp : 0 <= (m - (m1 + m2)) * (m + (m1 + m2)) * (m - (m1 - m2)) * (m + (m1 - m2))).
  { repeat apply Rmult_le_pos; lra. }
  unfold Rdiv. rewrite Rpow_mult_distr.
  replace (sqrt ((m - (m1 + m2)) * (m + (m1 + m2)) * (m - (m1 - m2)) * (m + (m1 - m2))) ^ 2)
    with ((m - (m1 + m2)) * (m + (m1 + m2)) * (m - (m1 - m2)) * (m + (m1 - m2))).
  2:{ simpl pow. rewrite Rmult_1_r. symmetry. apply sqrt_sqrt. exact Hp. }
  rewrite pow_inv. reflexivity.
Qed.
(* below threshold the old value is clamped to 0 while the amplitude uses the negative q^2: m0 = 0.1 < 0.1 + 0.1 *)
Theorem call_q2_old_below_refuted :
  exists m0 m1 m2, 0 < m0 < m1 + m2 /\ call_q2_old m0 m1 m2 <> call_q2 m0 m1 m2.
Proof.
  exists (1 / 10), (1 / 10), (1 / 10). split; [lra|].
  unfold call_q2_old, call_q2, get_relative_p, get_relative_p2, rmax.
  intros H.
  assert (A : (sqrt ((((1 / 10 + (1 / 10 + 1 / 10) + Rabs (1 / 10 - (1 / 10 + 1 / 10))) / 2 - (1 / 10 + 1 / 10)) *
            ((1 / 10 + (1 / 10 + 1 / 10) + Rabs (1 / 10 - (1 / 10 + 1 / 10))) / 2 + (1 / 10 + 1 / 10)) *
            ((1 / 10 + (1 / 10 + 1 / 10) + Rabs (1 / 10 - (1 / 10 + 1 / 10))) / 2 - (1 / 10 - 1 / 10)) *
            ((1 / 10 + (1 / 10 + 1 / 10) + Rabs (1 / 10 - (1 / 10 + 1 / 10))) / 2 + (1 / 10 - 1 / 10)))) /
            (2 * ((1 / 10 + (1 / 10 + 1 / 10) + Rabs (1 / 10 - (1 / 10 + 1 / 10))) / 2))) ^ 2 >= 0) by interval.
  rewrite H in A.
  assert (B : (1 / 10 - (1 / 10 + 1 / 10)) * (1 / 10 + (1 / 10 + 1 / 10)) * (1 / 10 - (1 / 10 - 1 / 10)) * (1 / 10 + (1 / 10 - 1 / 10)) / (2 * (1 / 10)) ^ 2 < 0) by interval.
  lra.
Qed.
(* with m0 below threshold and m above it (q2/q02 < 0) the q^2-based Breit-Wigner stays finite: it is real, 1/(x + m0 |Gamma|) *)
Lemma bwr2_m0_below_is_real m m0 g0 q2 q02 L d :
  q2 / q02 < 0 -> snd (BWR2 m m0 g0 q2 q02 L d) = 0.
Proof.
  intros Hr. unfold BWR2, Gamma2, Cscal, Csqrt_real; cbn [fst snd].
  assert (E : rmax 0 (q2 / q02) = 0).
  { replace (q2 / q02) with (- (- (q2 / q02))) by ring. apply rmax_0_neg. lra. }
  rewrite E, sqrt_0. unfold Rdiv. rewrite !Rmult_0_r, Ropp_0, Ropp_0. ring.
Qed.

(* ---------- symbolic denominator with the same d is the reciprocal; with a fixed d = 3 it is not ---------- *)
Theorem bwr_dom_reciprocal m m0 g0 q q0 L d :
  (m0 * m0 - m * m) * (m0 * m0 - m * m) + (m0 * Gamma m g0 q q0 L m0 d) * (m0 * Gamma m g0 q q0 L m0 d) <> 0 ->
  Cmul (BWR m m0 g0 q q0 L d) (BWR_dom m m0 g0 q q0 L d) = (1, 0).
Proof. intros H. unfold BWR, BWR_dom. apply bw_xy_reciprocal. exact H. Qed.
Lemma bwr_dom_fixed_d_witness :
  snd (Cmul (BWR 1 (3 / 2) (1 / 10) (1 / 2) (3 / 4) 1 (3 / 2)) (BWR_dom 1 (3 / 2) (1 / 10) (1 / 2) (3 / 4) 1 3)) < - (1 / 100).
Proof.
  cbv [Cmul BWR BWR_dom bw_xy Gamma Bprime bp polyval bprime_table map fold_left fst snd Nat.mul Nat.add].
  interval with (i_prec 60).
Qed.
Theorem bwr_dom_ignoring_d_refuted :
  exists m m0 g0 q q0 L d, 0 < g0 /\ 0 < q /\ 0 < q0 /\
    Cmul (BWR m m0 g0 q q0 L d) (BWR_dom m m0 g0 q q0 L 3) <> (1, 0).
Proof.
  exists 1, (3 / 2), (1 / 10), (1 / 2), (3 / 4), 1%nat, (3 / 2).
  split; [lra|]. split; [lra|]. split; [lra|].
  intros H. pose proof bwr_dom_fixed_d_witness as P. rewrite H in P. cbn [snd] in P. lra.
Qed.
