(* C08 - model of the fit bookkeeping around an optimiser.  Definitions only.

   anchors:  tf_pwa/fit.py  fit_scipy (BFGS/CG branch :286-353, L-BFGS-B branch :354-384, Newton branches :385-390 ->
             fit_newton_cg :424-495, iminuit -> fit_minuit_v2 :93-150), FitResult.save_as :523
             tf_pwa/variable.py  set_bound :442, remove_bound :478, get/set :554-596, set_all :684, standard_complex :752,
             set_trans_var :782, Bound :1033
             tf_pwa/config_loader/config_loader.py  fit :745, set_params :995, save_params :1033
   The optimiser is an ORACLE: a function of the state it is started from, returning some point x* and some value f*.
   Variables are numbered; tied variables (set_same: one shared tf.Variable object) share a storage cell. *)
From Coq Require Import Reals List Bool Arith.
Import ListNotations.
Open Scope R_scope.

Definition name := nat.
Definition bound := (option R * option R)%type.

(* variable.Bound default transforms, fit variable x -> physical value y *)
Definition bt (b : bound) (x : R) : R :=
  match b with
  | (Some lo, Some hi) => (hi - lo) * (sin x + 1) / 2 + lo
  | (Some lo, None) => lo - 1 + sqrt (x ^ 2 + 1)
  | (None, Some hi) => hi + 1 - sqrt (x ^ 2 + 1)
  | (None, None) => x
  end.
Definition in_bound (b : bound) (y : R) : Prop :=
  match b with
  | (Some lo, Some hi) => lo <= y <= hi
  | (Some lo, None) => lo <= y
  | (None, Some hi) => y <= hi
  | (None, None) => True
  end.
Definition bound_ok (b : bound) : Prop :=
  match b with (Some lo, Some hi) => lo <= hi | _ => True end.

Record st := mkSt {
  cellof : name -> nat;            (* storage cell of a name; equal cells = tied names *)
  store : nat -> R;                (* physical values (the tf.Variable contents) *)
  allnames : list name;            (* keys of vm.variables in get_all_dic order *)
  train : list name;               (* vm.trainable_vars, in order *)
  bnd : list (name * bound);       (* vm.bnd_dic *)
  polar : list (name * name)       (* (r, phi) of the polar complex variables standard_complex may touch:
                                      complex_vars entries that are True, not list-valued, not in same_list, and (patch_2 of
                                      the C08 hunt) without a "deltar" companion: the CP factor (r + c dr) e^{i (phi + c dphi)}
                                      is NOT invariant under (r, phi) -> (-r, phi + pi) alone *)
}.

Definition read (s : st) (n : name) : R := store s (cellof s n).
Definition write (s : st) (n : name) (v : R) : st :=
  mkSt (cellof s) (fun k => if Nat.eqb k (cellof s n) then v else store s k) (allnames s) (train s) (bnd s) (polar s).

Fixpoint lookup (l : list (name * bound)) (n : name) : option bound :=
  match l with
  | [] => None
  | (m, b) :: t => if Nat.eqb m n then Some b else lookup t n
  end.
Definition inb (l : list (name * bound)) (n : name) : bool :=
  match lookup l n with Some _ => true | None => false end.
Fixpoint mem (n : name) (l : list name) : bool :=
  match l with [] => false | m :: t => Nat.eqb m n || mem n t end.

(* vm.set_bound(bound_dic): bnd_dic[name] = Bound(...) for every key, new entries win *)
Definition set_bound (s : st) (bd : list (name * bound)) : st :=
  mkSt (cellof s) (store s) (allnames s) (train s) (bd ++ bnd s) (polar s).
(* vm.remove_bound(): values are kept, bnd_dic becomes empty *)
Definition remove_bound (s : st) : st :=
  mkSt (cellof s) (store s) (allnames s) (train s) [] (polar s).

(* vm.set_all(list): physical values of the trainable variables, in order *)
Fixpoint set_all (s : st) (ns : list name) (xs : list R) : st :=
  match ns, xs with
  | n :: ns', x :: xs' => set_all (write s n x) ns' xs'
  | _, _ => s
  end.
(* y_i = T_i(x_i) for bounded names *)
Definition trans_vals (b : list (name * bound)) (ns : list name) (xs : list R) : list R :=
  map (fun p => match lookup b (fst p) with Some bb => bt bb (snd p) | None => snd p end) (combine ns xs).
(* vm.set_trans_var(x) *)
Definition set_trans_var (s : st) (xs : list R) : st :=
  set_all s (train s) (trans_vals (bnd s) (train s) xs).

(* vm.standard_complex(skip) (commit d65ebac): r < 0 -> (|r|, phi + pi), unless the variable is constrained:
   a component is in bnd_dic, is named in [skip] (fit_scipy passes bounds_dict: bnd_dic itself is already
   empty when it gets here), or is not trainable (fixed). *)
Definition std_skip (s : st) (skip : list (name * bound)) (rp : name * name) : bool :=
  inb (bnd s) (fst rp) || inb (bnd s) (snd rp) || inb skip (fst rp) || inb skip (snd rp)
  || negb (mem (fst rp) (train s)) || negb (mem (snd rp) (train s)).
(* written with the branch at the level of the VALUES (r >= 0: both components are assigned their own value,
   i.e. nothing changes), so that the state stays a record and the correspondence goals stay small *)
(* _std_polar_angle (since /repo 7a94ee8 its result is stored): the phase is brought into [-pi, pi).  One step of the wrap
   moves by 2 pi and covers |phi| < 3 pi (start phases lie in [-pi, pi] and a fit moves them by less than 2 pi in every cell the
   harness ties: it checks that range on the optimiser's answer and does not emit the model goal otherwise) *)
Definition wrap1 (x : R) : R := if Rlt_dec x (- PI) then x + 2 * PI else if Rle_dec PI x then x - 2 * PI else x.
Definition wrap_phase (x : R) : R := wrap1 x.
Definition std_one (skip : list (name * bound)) (s : st) (rp : name * name) : st :=
  if std_skip s skip rp then s
  else write (write s (fst rp) (if Rlt_dec (read s (fst rp)) 0 then Rabs (read s (fst rp)) else read s (fst rp)))
             (snd rp) (wrap_phase (if Rlt_dec (read s (fst rp)) 0 then read s (snd rp) + PI else read s (snd rp))).
Definition standard_complex (skip : list (name * bound)) (s : st) : st := fold_left (std_one skip) (polar s) s.

(* the standard_complex of the tree before the repair: only bnd_dic (already emptied) was consulted *)
Definition std_one_old (s : st) (rp : name * name) : st :=
  if inb (bnd s) (fst rp) || inb (bnd s) (snd rp) then s
  else write (write s (fst rp) (if Rlt_dec (read s (fst rp)) 0 then Rabs (read s (fst rp)) else read s (fst rp)))
             (snd rp) (if Rlt_dec (read s (fst rp)) 0 then read s (snd rp) + PI else read s (snd rp)).
Definition standard_complex_old (s : st) : st := fold_left std_one_old (polar s) s.

(* fcn.get_params() = vm.get_all_dic(): every variable;  before the repair (patch_1 of the C08 hunt) the iminuit branch listed
   the trainable ones only *)
Definition get_params (s : st) : list (name * R) := map (fun n => (n, read s n)) (allnames s).
Definition get_params_train (s : st) : list (name * R) := map (fun n => (n, read s n)) (train s).

Record result := mkRes { r_params : list (name * R); r_min : R }.

Inductive method := M_bfgs | M_lbfgsb | M_newton | M_minuit.

Definition oracle := st -> (list R * R)%type.

(* BFGS, CG: set_bound, minimise in the transformed variables, set_trans_var, remove_bound, standard_complex *)
Definition fit_bfgs (opt : oracle) (bd : list (name * bound)) (s : st) : st * result :=
  let s1 := set_bound s bd in
  let xf := opt s1 in
  let s2 := set_trans_var s1 (fst xf) in
  let s3 := remove_bound s2 in
  let s4 := standard_complex bd s3 in
  (s4, mkRes (get_params s4) (snd xf)).
(* L-BFGS-B: minimise in the physical variables inside the box, set_all, standard_complex *)
Definition fit_lbfgsb (opt : oracle) (bd : list (name * bound)) (s : st) : st * result :=
  let xf := opt s in
  let s2 := set_all s (train s) (fst xf) in
  let s4 := standard_complex bd s2 in
  (s4, mkRes (get_params s4) (snd xf)).
(* Newton-CG, trust-* (with Hessian or Hessian-vector products): as BFGS without standard_complex *)
Definition fit_newton (opt : oracle) (bd : list (name * bound)) (s : st) : st * result :=
  let s1 := set_bound s bd in
  let xf := opt s1 in
  let s2 := set_trans_var s1 (fst xf) in
  let s3 := remove_bound s2 in
  (s3, mkRes (get_params s3) (snd xf)).
(* iminuit: minimise in the physical variables with limits, write m.values back; the result is fcn.get_params() as in the
   other branches *)
Definition fit_minuit (opt : oracle) (bd : list (name * bound)) (s : st) : st * result :=
  let xf := opt s in
  let s2 := set_all s (train s) (fst xf) in
  (s2, mkRes (get_params s2) (snd xf)).
(* the iminuit branch before the repair: FitResult(dict(zip(var_names, m.values)), ...) *)
Definition fit_minuit_old (opt : oracle) (bd : list (name * bound)) (s : st) : st * result :=
  let xf := opt s in
  let s2 := set_all s (train s) (fst xf) in
  (s2, mkRes (get_params_train s2) (snd xf)).

(* BFGS / CG stopped by the library's own guard (LargeNumberError raised in the callback -> except_result): the model stays at
   the last evaluated point x (the oracle's answer here), the bounds are removed (patch_7 of the C08 hunt), the result is
   vm.get_all_dic() and fcn.cached_nll *)
Definition fit_except (opt : oracle) (bd : list (name * bound)) (s : st) : st * result :=
  let s1 := set_bound s bd in
  let xf := opt s1 in
  let s2 := set_trans_var s1 (fst xf) in
  let s3 := remove_bound s2 in
  (s3, mkRes (get_params s3) (snd xf)).
(* before the repair the early return left bnd_dic as set_bound had made it *)
Definition fit_except_old (opt : oracle) (bd : list (name * bound)) (s : st) : st * result :=
  let s1 := set_bound s bd in
  let xf := opt s1 in
  let s2 := set_trans_var s1 (fst xf) in
  (s2, mkRes (get_params s2) (snd xf)).

Definition fit (m : method) : oracle -> list (name * bound) -> st -> st * result :=
  match m with M_bfgs => fit_bfgs | M_lbfgsb => fit_lbfgsb | M_newton => fit_newton | M_minuit => fit_minuit end.

(* fit.py _trainable_bounds (patch_6 of the C08 hunt): the bounds dictionary handed to fit_scipy is keyed by ANY name; tied names
   share one variable of which only one name is listed in trainable_vars, so every entry is moved to the listed name of its
   cell and entries meeting there are intersected.  Before the repair the dictionary was used as given: an entry on a name
   that is not the listed one of its tie was never looked up. *)
Definition head_of (s : st) (n : name) : name :=
  fold_left (fun h t => if Nat.eqb (cellof s t) (cellof s n) then t else h) (train s) n.
Definition lo_isect (l l0 : option R) : option R :=
  match l, l0 with
  | None, _ => l0
  | Some a, None => Some a
  | Some a, Some a0 => Some (if Rlt_dec a a0 then a0 else a)
  end.
Definition hi_isect (u u0 : option R) : option R :=
  match u, u0 with
  | None, _ => u0
  | Some b, None => Some b
  | Some b, Some b0 => Some (if Rlt_dec b0 b then b0 else b)
  end.
Definition norm_step (s : st) (acc : list (name * bound)) (nb : name * bound) : list (name * bound) :=
  (head_of s (fst nb),
   (lo_isect (fst (snd nb)) (fst (match lookup acc (head_of s (fst nb)) with Some b => b | None => (None, None) end)),
    hi_isect (snd (snd nb)) (snd (match lookup acc (head_of s (fst nb)) with Some b => b | None => (None, None) end)))) :: acc.
Definition norm_bounds (s : st) (bd : list (name * bound)) : list (name * bound) := fold_left (norm_step s) bd [].
(* fit as ConfigLoader.fit reaches it: bound_dic as configured *)
Definition fit_cfg (m : method) (opt : oracle) (bd : list (name * bound)) (s : st) : st * result :=
  fit m opt (norm_bounds s bd) s.
Definition fit_except_cfg (opt : oracle) (bd : list (name * bound)) (s : st) : st * result :=
  fit_except opt (norm_bounds s bd) s.

(* a session: several fits one after the other, each with its own optimiser answer *)
Fixpoint fit_seq (l : list (method * oracle)) (bd : list (name * bound)) (s : st) : st :=
  match l with
  | [] => s
  | (m, opt) :: t => fit_seq t bd (fst (fit m opt bd s))
  end.

(* FitResult.save_as / save_params write {name: value}; ConfigLoader.set_params(file) reads it back with
   vm.set_all(dict) (physical values), skipping the names in _neglect_when_set_params *)
Definition save (s : st) : list (name * R) := get_params s.
Fixpoint load (l : list (name * R)) (neglect : list name) (s : st) : st :=
  match l with
  | [] => s
  | (n, v) :: t => load t neglect (if mem n neglect then s else write s n v)
  end.

(* same variables, same ties *)
Definition same_shape (s t : st) : Prop :=
  cellof s = cellof t /\ allnames s = allnames t /\ train s = train t /\ polar s = polar t.
