(* C17 - model of the cached evaluation path of AbsPDF.__call__ (use_tf_function: True).
   Definitions only.  Anchors:
     tf_pwa/amp/amp.py   AbsPDF.__call__, AbsPDF.cached_available, BaseAmplitudeModel.cached_available
     tf_pwa/experimental/wrap_function.py   WrapFun.__call__ (one concrete function per argument structure,
                                            traced at the first use and kept)

   A tf.function trace of pdf(data) keeps every PYTHON-level value the density reads as a constant:
   the mask dictionary vm.mask_vars (VarsManager.read), the chain selection chains_idx and the
   mask_factor flags.  tf.Variables (the parameter values) are read when the trace is executed.
   (The configuration table is read when the model is constructed, not by the density.) *)
From Coq Require Import ZArith List Bool.
From TFV Require Import State.Overrides.
Import ListNotations.
Open Scope Z_scope.

Record trace := mkTrace { t_mask : amap; t_cidx : list Z; t_flags : list bool }.
Definition trace_of (s : state) : trace := mkTrace (maskv s) (cidx s) (mflags s).
(* the state whose eager density equals what the trace returns when executed in state s *)
Definition replay (t : trace) (s : state) : state :=
  mkState (vars s) (t_mask t) (t_cidx t) (nfull s) (t_flags t) (conf s).

(* cached_available() before the repair of finding C17-1:  return not self.decay_group.not_full *)
Definition cav_old (s : state) : bool := negb (nfull s).
(* ... after it: not not_full, no masked parameter, no mask_factor flag set *)
Definition cav (s : state) : bool :=
  negb (nfull s) && (match maskv s with [] => true | _ => false end) && forallb negb (mflags s).

(* AbsPDF.__call__(data) for a data set already registered in f_data:
     if cached_available(): return cached_fun(data)   (traced at the first use)
     return pdf(data)
   result: the state whose eager density is returned, and the trace cache afterwards *)
Definition call (avail : state -> bool) (tc : option trace) (s : state) : state * option trace :=
  if avail s then match tc with
                  | None => (s, Some (trace_of s))
                  | Some t => (replay t s, tc)
                  end
  else (s, tc).

(* a session: the model is evaluated in the states l one after the other; the states the returned
   densities belong to *)
Fixpoint calls (avail : state -> bool) (tc : option trace) (l : list state) : list state :=
  match l with
  | [] => []
  | s :: r => let (x, tc') := call avail tc s in x :: calls avail tc' r
  end.
