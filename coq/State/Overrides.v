(* C17 - model of the temporary-override blocks and read-only helper computations.
   Definitions only.  Anchors:
     tf_pwa/amp/amp.py      AbsPDF.temp_params / mask_params, BaseAmplitudeModel.temp_used_res,
                            partial_weight, temp_total_gls_one, factor_iteration
     tf_pwa/amp/core.py     DecayGroup.set_used_res / add_used_chains / set_used_chains /
                            temp_used_res / partial_weight / partial_weight_interference /
                            factor_iteration, DecayChain.factor_iteration
     tf_pwa/variable.py     VarsManager.read / get_all_dic / set / set_all / temp_params / mask_params
     tf_pwa/config.py       set_config / get_config / temp_config
     tf_pwa/fitfractions.py cal_fitfractions(_no_grad), FitFractions.append_int

   Values never enter arithmetic here (they are only copied), so a value is the exact pair
   (numerator, denominator) that float.as_integer_ratio returns; names are numbers. *)
From Coq Require Import ZArith List Bool.
Import ListNotations.
Open Scope Z_scope.

Definition val := (Z * Z)%type.
Definition amap := list (Z * val).            (* a Python dict name -> value, in insertion order *)

Fixpoint lookup (k : Z) (m : amap) : option val :=
  match m with
  | [] => None
  | kv :: r => if fst kv =? k then Some (snd kv) else lookup k r
  end.
Definition keys (m : amap) : list Z := map fst m.
Definition has_key (k : Z) (m : amap) : bool := match lookup k m with Some _ => true | None => false end.
Definition getv (k : Z) (m : amap) : val := match lookup k m with Some v => v | None => (0, 1) end.

(* VarsManager.set(name, value, val_in_fit=False): assign if the name exists, otherwise warn *)
Definition set_one (k : Z) (v : val) (m : amap) : amap :=
  map (fun kv => if fst kv =? k then (fst kv, v) else kv) m.
(* VarsManager.set_all(dict): for name in vals: self.set(name, vals[name]) *)
Definition set_all (upd m : amap) : amap :=
  fold_left (fun acc kv => set_one (fst kv) (snd kv) acc) upd m.

(* ---- model state ---- *)
Record state := mkState {
  vars   : amap;        (* vm.variables : physical values *)
  maskv  : amap;        (* vm.mask_vars *)
  cidx   : list Z;      (* decay_group.chains_idx *)
  nfull  : bool;        (* decay_group.not_full *)
  mflags : list bool;   (* mask_factor of every chain and decay, in temp_total_gls_one's order *)
  conf   : amap         (* tf_pwa.config table *)
}.
Definition upd_vars (m : amap) (s : state) := mkState m (maskv s) (cidx s) (nfull s) (mflags s) (conf s).
Definition upd_mask (m : amap) (s : state) := mkState (vars s) m (cidx s) (nfull s) (mflags s) (conf s).
Definition upd_chain (l : list Z) (b : bool) (s : state) := mkState (vars s) (maskv s) l b (mflags s) (conf s).
Definition upd_flags (l : list bool) (s : state) := mkState (vars s) (maskv s) (cidx s) (nfull s) l (conf s).
Definition upd_conf (m : amap) (s : state) := mkState (vars s) (maskv s) (cidx s) (nfull s) (mflags s) m.

(* static structure of the decay group *)
Record env := mkEnv {
  nch    : Z;                       (* len(decay_group.chains) *)
  resmap : list (Z * list Z);       (* resonance -> chains whose .inner contains it *)
  fnames : list (Z * list amap);    (* chain -> the mask dicts DecayChain.factor_iteration(deep=1) yields *)
  tied   : list (Z * list Z)        (* name -> the names bound to the same tf.Variable (vm.variables order, the name itself
                                       included); names without an entry are bound to a variable of their own.  The [vars]
                                       component treats names as independent cells: it describes models without tied names *)
}.
Definition chains_of (e : env) (r : Z) : list Z :=
  match find (fun p => fst p =? r) (resmap e) with Some p => snd p | None => [] end.
Definition tied_of (e : env) (k : Z) : list Z :=
  match find (fun p => fst p =? k) (tied e) with Some p => snd p | None => [] end.
Definition fnames_of (e : env) (i : Z) : list amap :=
  match find (fun p => fst p =? i) (fnames e) with Some p => snd p | None => [] end.
Definition zrange (n : Z) : list Z := map Z.of_nat (seq 0 (Z.to_nat n)).
Definition memz (x : Z) (l : list Z) : bool := existsb (Z.eqb x) l.

(* VarsManager.get_all_dic() = AbsPDF.get_params(): {name: self.get(name, val_in_fit=False)}, the STORED values
   (since the C16 repair; before, {name: self.read(name)} - read() returns the MASKED value when the
   name is in mask_vars: get_all_dic_masked) *)
Definition get_all_dic (s : state) : amap := vars s.
Definition get_all_dic_masked (s : state) : amap :=
  map (fun kv => (fst kv, match lookup (fst kv) (maskv s) with Some v => v | None => snd kv end)) (vars s).

(* Python  d[k] = v : replace the value of an existing key in place, append a new key *)
Definition dict_set (k : Z) (v : val) (m : amap) : amap :=
  if has_key k m then set_one k v m else m ++ [(k, v)].
(* VarsManager.mask_params(params) (since the C16 repair a nested mask MERGES with the outer one, the inner
   values winning; before, the inner dict replaced the outer mask):
     new_mask = dict(old_mask)
     for k, v in params.items(): new_mask[k] = v; for i in variables: if variables[i] is variables.get(k): new_mask[i] = v *)
Definition mask_merge (e : env) (p old : amap) : amap :=
  fold_left (fun acc kv => fold_left (fun a i => dict_set i (snd kv) a) (tied_of e (fst kv))
                                     (dict_set (fst kv) (snd kv) acc)) p old.

(* DecayGroup.set_used_chains: chains_idx = list(used); not_full = (len(chains_idx) != len(chains)) *)
Definition nf_of (e : env) (l : list Z) : bool := negb (Z.of_nat (length l) =? nch e).
Definition set_used_chains (e : env) (l : list Z) (s : state) : state := upd_chain l (nf_of e l) s.
(* DecayGroup.add_used_chains: append missing indices IN PLACE; not_full is not recomputed *)
Definition add_used_chains (ints : list Z) (s : state) : state :=
  upd_chain (fold_left (fun c i => if memz i c then c else c ++ [i]) ints (cidx s)) (nfull s) s.
(* DecayGroup.set_used_res(res) (only=False): the chains containing one of the named resonances
   (list of a set of small ints: ascending), then the explicitly given chain indices appended *)
Definition set_used_res (e : env) (res ints : list Z) (s : state) : state :=
  add_used_chains ints
    (set_used_chains e (filter (fun j => existsb (fun r => memz j (chains_of e r)) res) (zrange (nch e))) s).

(* ---- control flow ---- *)
Inductive result := Ok (s : state) | Exn (s : state).   (* the state is global: an exception leaves one too *)
Definition st_of (r : result) : state := match r with Ok s => s | Exn s => s end.
Definition is_exn (r : result) : bool := match r with Ok _ => false | Exn _ => true end.
(* number of evaluation points passed so far, and the states seen there (latest first) *)
Definition world := (nat * list state)%type.
Definition comp := world -> state -> world * result.

(* try: body  finally: fin *)
Definition try_finally (body : comp) (fin : state -> state) : comp :=
  fun w s => let (w', r) := body w s in
             (w', match r with Ok s' => Ok (fin s') | Exn s' => Exn (fin s') end).
(* body; fin     (restore statement after the body, no finally: pre-fix control flow) *)
Definition then_restore (body : comp) (fin : state -> state) : comp :=
  fun w s => let (w', r) := body w s in
             (w', match r with Ok s' => Ok (fin s') | Exn s' => Exn s' end).

(* @contextmanager: save; try: set; yield finally: restore   (temp_params managers, since the
   repair of finding C17-2: the assignment of the new values is inside the try), resp.
   save; set; try: yield finally: restore   (the other managers: their set phase cannot stop half-way).
   [enter] returns None when the SAVE statements before the try raise (nothing has been modified
   at that point in any manager).  A set phase that raises half-way is a block whose body is
   replaced by [raise_here] (see blk_raises). *)
Definition with_block {A : Type} (enter : state -> option (state * A)) (exit : A -> state -> state)
           (body : comp) : comp :=
  fun w s => match enter s with
             | None => (w, Exn s)
             | Some (s1, sv) => try_finally body (exit sv) w s1
             end.
Definition with_block_old {A : Type} (enter : state -> option (state * A)) (exit : A -> state -> state)
           (body : comp) : comp :=
  fun w s => match enter s with
             | None => (w, Exn s)
             | Some (s1, sv) => then_restore body (exit sv) w s1
             end.

Inductive blk :=
| BTempParams (p : amap)                (* AbsPDF.temp_params(dict) *)
| BVmTempParams (p : amap)              (* VarsManager.temp_params(dict) *)
| BMaskParams (p : amap)                (* AbsPDF.mask_params / VarsManager.mask_params *)
| BTempUsedRes (res ints : list Z)      (* temp_used_res(names + chain indices) *)
| BTotalGlsOne                          (* temp_total_gls_one *)
| BTempConfig (name : Z) (v : val)      (* temp_config(name, v) *)
(* the assignment of the new values raises half-way (an unusable value, a too short list): the
   entries p have been assigned when the exception leaves set_all - inside the try *)
| BTempParamsBad (p : amap)             (* AbsPDF.temp_params(dict / list): p = the entries before the failing one *)
| BVmTempParamsBad (p : amap) (rest : list Z).  (* VarsManager.temp_params(dict): rest = names of the failing and the later entries *)
Inductive saved := SvMap (m : amap) | SvIdx (l : list Z) | SvFlags (l : list bool).

(* for i, j in zip(mask_part, old_mask): i.mask_factor = j *)
Fixpoint zipset (old cur : list bool) : list bool :=
  match old, cur with
  | o :: os, _ :: cs => o :: zipset os cs
  | _, cs => cs
  end.

Definition blk_enter (e : env) (b : blk) (s : state) : option (state * saved) :=
  match b with
  | BTempParams p =>        (* {k: vm.get(k, val_in_fit=False) for k in vm.variables}: the stored values *)
      Some (upd_vars (set_all p (vars s)) s, SvMap (vars s))
  | BVmTempParams p =>      (* self.get(i, val_in_fit=False) raises for an unknown name *)
      if forallb (fun k => has_key k (vars s)) (keys p)
      then Some (upd_vars (set_all p (vars s)) s, SvMap (map (fun kv => (fst kv, getv (fst kv) (vars s))) p))
      else None
  | BMaskParams p => Some (upd_mask (mask_merge e p (maskv s)) s, SvMap (maskv s))
  | BTempUsedRes res ints => Some (set_used_res e res ints s, SvIdx (cidx s))
  | BTotalGlsOne => Some (upd_flags (map (fun _ => true) (mflags s)) s, SvFlags (mflags s))
  | BTempConfig name v =>   (* get_config / set_config raise for an unregistered name *)
      if has_key name (conf s)
      then Some (upd_conf (set_one name v (conf s)) s, SvMap [(name, getv name (conf s))])
      else None
  | BTempParamsBad p => Some (upd_vars (set_all p (vars s)) s, SvMap (vars s))
  | BVmTempParamsBad p rest =>   (* old_params is built from ALL keys before anything is assigned *)
      if forallb (fun k => has_key k (vars s)) (keys p ++ rest)
      then Some (upd_vars (set_all p (vars s)) s, SvMap (map (fun k => (k, getv k (vars s))) (keys p ++ rest)))
      else None
  end.
(* the set phase of the manager raises (inside its try): the with-body is never reached *)
Definition blk_raises (b : blk) : bool :=
  match b with BTempParamsBad _ | BVmTempParamsBad _ _ => true | _ => false end.
Definition raise_here : comp := fun w s => (w, Exn s).
Definition blk_exit (e : env) (b : blk) (sv : saved) (s : state) : state :=
  match b, sv with
  | BTempParams _, SvMap m => upd_vars (set_all m (vars s)) s
  | BVmTempParams _, SvMap m => upd_vars (set_all m (vars s)) s
  | BMaskParams _, SvMap m => upd_mask m s
  | BTempUsedRes _ _, SvIdx l => set_used_chains e l s
  | BTotalGlsOne, SvFlags l => upd_flags (zipset l (mflags s)) s
  | BTempConfig _ _, SvMap m => upd_conf (set_all m (conf s)) s
  | BTempParamsBad _, SvMap m => upd_vars (set_all m (vars s)) s
  | BVmTempParamsBad _ _, SvMap m => upd_vars (set_all m (vars s)) s
  | _, _ => s
  end.

(* read-only helpers: [pre] evaluations before anything is modified, then
   o = chains_idx; try: for step in steps: step(); evaluate nb times  finally: set_used_chains(o) *)
Inductive helper :=
| HPartialWeight (combine : list (list Z * list Z))  (* DecayGroup.partial_weight: set_used_res(entry) *)
| HPartialWeightBase (combine : list (list Z))       (* BaseAmplitudeModel.partial_weight: set_used_chains(entry) *)
| HInterference                                      (* partial_weight_interference: combinations(range(n),2) *)
| HFitFractions (res : list Z) (nb : nat)            (* cal_fitfractions / _no_grad on nb batches *)
| HAppendInt (res : list Z)                          (* FitFractions.append_int *)
| HCachedShapePdf (cs : list Z).                     (* CachedShapeAmplitudeModel.pdf, cs = cached_shape_idx: one density evaluation;
                                                        old = chains_idx; set_used_chains([i for i in old if i not in cs]);
                                                        try: build_params_vector finally: set_used_chains(old)
                                                        (try/finally since the repair of finding C17-3) *)

Definition pairs_lt (n : Z) : list (Z * Z) :=
  flat_map (fun i => map (fun j => (i, j)) (filter (fun j => i <? j) (zrange n))) (zrange n).
(* for i in range(n): for j in range(i,-1,-1): set_used_res([res[i]]) if i==j else set_used_res([res[i],res[j]]) *)
Definition ff_pair_steps (e : env) (res : list Z) : list (state -> state) :=
  flat_map (fun i => map (fun j => if Nat.eqb i j then set_used_res e [nth i res 0] []
                                   else set_used_res e [nth i res 0; nth j res 0] [])
                         (rev (seq 0 (S i))))
           (seq 0 (length res)).
(* (evaluations before the try, evaluations per step, steps) *)
Definition helper_plan (e : env) (h : helper) : nat * nat * list (state -> state) :=
  match h with
  | HPartialWeight combine => (O, 1%nat, map (fun c => set_used_res e (fst c) (snd c)) combine)
  | HPartialWeightBase combine => (O, 1%nat, map (fun c => set_used_chains e c) combine)
  | HInterference => (O, 1%nat, map (fun p => set_used_chains e [fst p; snd p]) (pairs_lt (nch e)))
  | HFitFractions res nb => (O, nb, set_used_res e res [] :: ff_pair_steps e res)
  | HAppendInt res => (O, 1%nat, set_used_res e res [] :: ff_pair_steps e res)  (* since /repo fix: the total refers to the listed
                                                                                   resonances; before, it was evaluated under the selection
                                                                                   active at the call: plan (1, 1, ff_pair_steps e res) *)
  | HCachedShapePdf cs => (O, 1%nat, [fun s => set_used_chains e (filter (fun i => negb (memz i cs)) (cidx s)) s])
  end.

Inductive prog :=
| PEval                              (* user code / an amplitude evaluation: reads the model, may raise *)
| PSeq (a b : prog)
| PWith (b : blk) (body : prog)      (* with <manager>: body *)
| PHelper (h : helper)
| PFactorIter (body : prog).         (* for chain, names in amp.factor_iteration(deep=2): body *)

(* for a in l: f a   (stop at the first exception) *)
Fixpoint foreach {A : Type} (l : list A) (f : A -> comp) : comp :=
  fun w s => match l with
             | [] => (w, Ok s)
             | a :: r => match f a w s with
                         | (w', Ok s') => foreach r f w' s'
                         | (w', Exn s') => (w', Exn s')
                         end
             end.

Section Run.
  Variable e : env.
  (* the only thing user code and amplitude evaluations do to the model: look at it and possibly
     raise.  [ev k s] = "the k-th evaluation point, reached in state s, raises". *)
  Variable ev : nat -> state -> bool.

  Definition tick : comp :=
    fun w s => ((S (fst w), s :: snd w), if ev (fst w) s then Exn s else Ok s).
  Definition ticks (n : nat) : comp := foreach (seq 0 n) (fun _ => tick).
  Definition run_steps (nb : nat) (steps : list (state -> state)) : comp :=
    foreach steps (fun f w s => ticks nb w (f s)).
  Definition run_helper (h : helper) : comp :=
    fun w s => let '(pre, nb, steps) := helper_plan e h in
               match ticks pre w s with
               | (w', Ok _) => try_finally (run_steps nb steps) (set_used_chains e (cidx s)) w' s
               | (w', Exn x) => (w', Exn x)
               end.

  Fixpoint run (p : prog) : comp :=
    match p with
    | PEval => tick
    | PSeq a b => fun w s => match run a w s with
                             | (w', Ok s') => run b w' s'
                             | (w', Exn s') => (w', Exn s')
                             end
    | PWith b body => with_block (blk_enter e b) (blk_exit e b) (if blk_raises b then raise_here else run body)
    | PHelper h => run_helper h
    | PFactorIter body =>
        (* DecayGroup.factor_iteration: old = chains_idx; try: for i in old: set_used_chains([i]);
             for j in chains[i].factor_iteration(): (with vm.mask_params(j): yield)  finally: restore.
           Leaving the consumer loop by an exception (or break) closes the generators, which runs
           the pending finally clauses innermost first. *)
        fun w s =>
          try_finally
            (foreach (cidx s) (fun i w1 s1 =>
               foreach (fnames_of e i)
                 (fun j => with_block (blk_enter e (BMaskParams j)) (blk_exit e (BMaskParams j)) (run body))
                 w1 (set_used_chains e [i] s1)))
            (set_used_chains e (cidx s)) w s
    end.
End Run.

(* ---- pre-fix control flow (kept to document why the repairs matter; not tied to the code) ---- *)
Section Old.
  Variable e : env.
  Variable ev : nat -> state -> bool.
  (* F3: the managers restored after the yield without try/finally *)
  Definition old_block (b : blk) (body : comp) : comp :=
    with_block_old (blk_enter e b) (blk_exit e b) body.
  (* F3b: VarsManager.temp_params saved get(i) = the fit-space value y2x(value) of a bounded
     parameter and wrote it back as physical value *)
  Variable y2x : val -> val.
  Definition old_vm_temp_params (p : amap) (body : comp) : comp :=
    with_block_old
      (fun s => Some (upd_vars (set_all p (vars s)) s,
                      map (fun kv => (fst kv, y2x (getv (fst kv) (vars s)))) p))
      (fun m s => upd_vars (set_all m (vars s)) s) body.
  (* F11: AbsPDF.temp_params saved get_params() = the MASKED view (and, before F3, had no finally) *)
  Definition old_amp_temp_params (p : amap) (body : comp) : comp :=
    with_block (fun s => Some (upd_vars (set_all p (vars s)) s, get_all_dic_masked s))
               (fun m s => upd_vars (set_all m (vars s)) s) body.
  (* mask_params before the C16 repair: the inner dictionary REPLACED the outer mask inside the block
     (restoration on exit was the same) *)
  Definition old_mask_enter (p : amap) (s : state) : option (state * saved) := Some (upd_mask p s, SvMap (maskv s)).
  (* F4: cal_fitfractions ended with amp.set_used_res(amp.used_res) = all resonances, no finally *)
  Definition old_fitfractions (all_res res : list Z) (nb : nat) : comp :=
    then_restore (run_steps ev nb (set_used_res e res [] :: ff_pair_steps e res)) (set_used_res e all_res []).
  (* finding C17-2: the temp_params managers assigned the new values BEFORE the try: an assignment
     that raised half-way left the entries assigned so far (p) in the model *)
  Definition old_temp_params_bad (p : amap) : comp :=
    fun w s => (w, Exn (upd_vars (set_all p (vars s)) s)).
  (* finding C17-3: CachedShapeAmplitudeModel.pdf widened the selection again after
     build_params_vector without try/finally *)
  Definition old_cached_shape_pdf (cs : list Z) : comp :=
    fun w s => then_restore
      (run_steps ev 1 [fun x => set_used_chains e (filter (fun i => negb (memz i cs)) (cidx x)) x])
      (set_used_chains e (cidx s)) w s.
End Old.

(* ---- evaluation helpers for the correspondence ---- *)
Definition val_eqb (a b : val) : bool := (fst a =? fst b) && (snd a =? snd b).
Fixpoint list_eqb {A : Type} (eqb : A -> A -> bool) (a b : list A) : bool :=
  match a, b with
  | [], [] => true
  | x :: a', y :: b' => eqb x y && list_eqb eqb a' b'
  | _, _ => false
  end.
Definition amap_eqb : amap -> amap -> bool := list_eqb (fun p q => (fst p =? fst q) && val_eqb (snd p) (snd q)).
Definition state_eqb (a b : state) : bool :=
  amap_eqb (vars a) (vars b) && amap_eqb (maskv a) (maskv b) && list_eqb Z.eqb (cidx a) (cidx b)
  && Bool.eqb (nfull a) (nfull b) && list_eqb Bool.eqb (mflags a) (mflags b) && amap_eqb (conf a) (conf b).
(* one implementation run: program, failing evaluation index (None = no injected exception),
   initial state; observed: states at the evaluation points in order, final state, whether an
   exception reached the caller *)
Definition check_run (e : env) (p : prog) (k : option nat) (s0 : state)
           (otrace : list state) (ofinal : state) (oexn : bool) : bool :=
  let ev := fun n (_ : state) => match k with Some k' => Nat.eqb n k' | None => false end in
  let '((_, tr), r) := run e ev p (O, []) s0 in
  list_eqb state_eqb (rev tr) otrace && state_eqb (st_of r) ofinal && Bool.eqb (is_exn r) oexn.
