(* C17 - lemmas about the cached evaluation path (State/TraceCache.v). *)
From Coq Require Import ZArith List Bool Lia.
From TFV Require Import State.Overrides State.Overrides_proofs State.TraceCache.
Import ListNotations.
Open Scope Z_scope.

(* what a state reports about the model apart from the order of a complete chain selection *)
Definition same_model (e : env) (x s : state) : Prop :=
  vars x = vars s /\ maskv x = maskv s /\ mflags x = mflags s /\ conf x = conf s /\ nfull x = nfull s /\
  (cidx x = cidx s \/ (Z.of_nat (length (cidx x)) = nch e /\ Z.of_nat (length (cidx s)) = nch e)).

Lemma same_model_refl : forall e s, same_model e s s.
Proof. intros. unfold same_model. tauto. Qed.

Lemma all_false : forall l, forallb negb l = true -> l = repeat false (length l).
Proof.
  induction l as [|b r IH]; cbn; intros H; [reflexivity|].
  apply andb_prop in H. destruct H as [Hb Hr]. destruct b; [discriminate|]. f_equal. auto.
Qed.

Lemma cav_true : forall s, cav s = true ->
  nfull s = false /\ maskv s = [] /\ mflags s = repeat false (length (mflags s)).
Proof.
  intros s H. unfold cav in H. apply andb_prop in H. destruct H as [H H3].
  apply andb_prop in H. destruct H as [H1 H2].
  repeat split.
  - destruct (nfull s); [discriminate|reflexivity].
  - destruct (maskv s); [reflexivity|discriminate].
  - apply all_false. exact H3.
Qed.

Lemma full_length : forall e s, nf_consistent e s -> nfull s = false -> Z.of_nat (length (cidx s)) = nch e.
Proof.
  unfold nf_consistent, nf_of. intros e s C F. rewrite F in C.
  destruct (Z.of_nat (length (cidx s)) =? nch e) eqn:E; [apply Z.eqb_eq; exact E|discriminate].
Qed.

(* the traces the repaired cached_available lets in: made with no mask, no flag, all n chains *)
Definition tinv (e : env) (n : nat) (tc : option trace) : Prop :=
  forall t, tc = Some t -> t_mask t = [] /\ t_flags t = repeat false n /\ Z.of_nat (length (t_cidx t)) = nch e.

Lemma call_exact : forall e n tc s,
  nf_consistent e s -> length (mflags s) = n -> tinv e n tc ->
  same_model e (fst (call cav tc s)) s /\ tinv e n (snd (call cav tc s)).
Proof.
  intros e n tc s C L I. unfold call. destruct (cav s) eqn:A.
  - destruct (cav_true s A) as [F [Mk Fl]]. rewrite L in Fl.
    pose proof (full_length e s C F) as Len.
    destruct tc as [t|]; cbn [fst snd].
    + destruct (I t eq_refl) as [T1 [T2 T3]]. split; [|exact I].
      unfold same_model, replay. cbn. rewrite T1, T2, Mk, Fl. repeat split; auto.
    + split; [apply same_model_refl|].
      intros t Et. inversion Et; subst t. unfold trace_of. cbn. auto.
  - cbn [fst snd]. split; [apply same_model_refl|exact I].
Qed.

(* every session: whatever the states in which the model is evaluated - inside or outside
   override blocks, in any order -, the cached path returns the density of the actual state *)
Theorem calls_exact : forall e n l tc,
  Forall (fun s => nf_consistent e s /\ length (mflags s) = n) l -> tinv e n tc ->
  Forall2 (same_model e) (calls cav tc l) l.
Proof.
  intros e n. induction l as [|s r IH]; intros tc H I; cbn [calls]; [constructor|].
  apply Forall_cons_iff in H. destruct H as [[C L] Hr].
  destruct (call_exact e n tc s C L I) as [S I'].
  destruct (call cav tc s) as [x tc']. cbn [fst snd] in S, I'.
  constructor; [exact S|apply IH; assumption].
Qed.

Lemma tinv_none : forall e n, tinv e n None.
Proof. intros e n t H. discriminate. Qed.

(* finding C17-1: with the old test a density evaluated inside a masked block (full selection)
   was traced there, and the evaluation after the block returned the density of the MASKED model *)
Lemma calls_old_keeps_mask :
  map maskv (calls cav_old None [upd_mask [(0, (3, 4))] ex_state; ex_state]) = [[(0, (3, 4))]; [(0, (3, 4))]].
Proof. vm_compute. reflexivity. Qed.
Lemma calls_old_keeps_flags :
  map mflags (calls cav_old None [upd_flags [true; true] ex_state; ex_state]) = [[true; true]; [true; true]].
Proof. vm_compute. reflexivity. Qed.
Lemma calls_old_refuted :
  exists e n l, Forall (fun s => nf_consistent e s /\ length (mflags s) = n) l /\
                ~ Forall2 (same_model e) (calls cav_old None l) l.
Proof.
  exists ex_env, 2%nat, [upd_mask [(0, (3, 4))] ex_state; ex_state]. split.
  - repeat constructor.
  - intro H. inversion H as [|? ? ? ? _ H2]; subst. inversion H2 as [|? ? ? ? S _]; subst.
    destruct S as [_ [M _]]. cbn in M. discriminate.
Qed.
(* the same sessions with the repaired test *)
Lemma calls_new_example :
  calls cav None [upd_mask [(0, (3, 4))] ex_state; ex_state; upd_flags [true; true] ex_state; ex_state]
  = [upd_mask [(0, (3, 4))] ex_state; ex_state; upd_flags [true; true] ex_state; ex_state].
Proof. vm_compute. reflexivity. Qed.
