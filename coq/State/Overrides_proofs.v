(* C17 - lemmas about the override-block model (State/Overrides.v). *)
From Coq Require Import ZArith List Bool Lia.
From TFV Require Import State.Overrides.
Import ListNotations.
Open Scope Z_scope.

(* ------------------------------------------------------------------ association lists *)

(* value of key k after the updates upd were applied to an entry (k, v): last update wins *)
Fixpoint upd_val (upd : amap) (k : Z) (v : val) : val :=
  match upd with
  | [] => v
  | u :: r => upd_val r k (if k =? fst u then snd u else v)
  end.

Lemma set_all_map : forall upd m,
  set_all upd m = map (fun kv => (fst kv, upd_val upd (fst kv) (snd kv))) m.
Proof.
  induction upd as [|u r IH]; intros m.
  - cbn. rewrite <- (map_id m) at 1. apply map_ext. intros [k v]; reflexivity.
  - unfold set_all in *. cbn [fold_left]. rewrite IH. unfold set_one. rewrite map_map.
    apply map_ext. intros [k v]. cbn [fst snd upd_val].
    destruct (k =? fst u); reflexivity.
Qed.

Lemma keys_set_all : forall upd m, keys (set_all upd m) = keys m.
Proof.
  intros. rewrite set_all_map. unfold keys. rewrite map_map. apply map_ext. reflexivity.
Qed.

Lemma upd_val_notin : forall upd k v, ~ In k (keys upd) -> upd_val upd k v = v.
Proof.
  induction upd as [|u r IH]; cbn; intros k v H; [reflexivity|].
  destruct (k =? fst u) eqn:E.
  - apply Z.eqb_eq in E. exfalso. apply H. left. auto.
  - apply IH. intro. apply H. right. assumption.
Qed.

Lemma upd_val_const : forall upd k x,
  In k (keys upd) -> (forall x', In (k, x') upd -> x' = x) -> forall v, upd_val upd k v = x.
Proof.
  induction upd as [|[ku vu] r IH]; cbn [keys map fst snd In upd_val]; intros k x Hin Hall v.
  - contradiction.
  - destruct (k =? ku) eqn:E.
    + apply Z.eqb_eq in E. subst ku.
      assert (vu = x) by (apply Hall; left; reflexivity). subst vu.
      destruct (in_dec Z.eq_dec k (keys r)) as [i|n].
      * apply IH; auto.
      * apply upd_val_notin; auto.
    + apply IH; auto. destruct Hin as [H|H]; [apply Z.eqb_neq in E; congruence|exact H].
Qed.

Lemma lookup_nodup : forall m k v, NoDup (keys m) -> In (k, v) m -> lookup k m = Some v.
Proof.
  induction m as [|[k' v'] r IH]; cbn [keys map fst snd In lookup]; intros k v Hnd Hin.
  - contradiction.
  - inversion Hnd as [|? ? Hni Hnd']; subst. destruct Hin as [H|H].
    + inversion H; subst. rewrite Z.eqb_refl. reflexivity.
    + destruct (k' =? k) eqn:E.
      * apply Z.eqb_eq in E. subst. exfalso. apply Hni. apply in_map_iff. exists (k, v). auto.
      * apply IH; auto.
Qed.

Lemma nodup_val_unique : forall m k v v', NoDup (keys m) -> In (k, v) m -> In (k, v') m -> v' = v.
Proof.
  intros m k v v' Hnd H1 H2.
  pose proof (lookup_nodup _ _ _ Hnd H1) as E1. pose proof (lookup_nodup _ _ _ Hnd H2) as E2.
  congruence.
Qed.

Lemma map_keys_eq : forall (g : Z -> val -> val) m' m,
  keys m' = keys m -> (forall k x, In (k, x) m -> forall v, g k v = x) ->
  map (fun kv => (fst kv, g (fst kv) (snd kv))) m' = m.
Proof.
  induction m' as [|[k v] r IH]; destruct m as [|[k2 x] r2]; cbn [keys map fst snd]; intros Hk Hg;
    try discriminate; auto.
  inversion Hk; subst. f_equal.
  - rewrite (Hg k2 x); [reflexivity|left; reflexivity].
  - apply IH; auto. intros. apply Hg. right. assumption.
Qed.

(* writing back a complete dictionary restores it, whatever values the entries held meanwhile *)
Lemma set_all_self : forall m m', NoDup (keys m) -> keys m' = keys m -> set_all m m' = m.
Proof.
  intros m m' Hnd Hk. rewrite set_all_map. apply map_keys_eq with (g := upd_val m); auto.
  intros k x Hin v. apply upd_val_const.
  - apply in_map_iff. exists (k, x). auto.
  - intros x' Hin'. eapply nodup_val_unique; eauto.
Qed.

(* save the listed names, overwrite them, write the saved values back *)
Lemma set_all_saved : forall m p, NoDup (keys m) ->
  set_all (map (fun kv => (fst kv, getv (fst kv) m)) p) (set_all p m) = m.
Proof.
  intros m p Hnd. rewrite !set_all_map, map_map. cbn [fst snd].
  transitivity (map (fun kv : Z * val => kv) m); [|apply map_id].
  apply map_ext_in. intros [k v] Hin. cbn [fst snd]. f_equal.
  assert (Hk : keys (map (fun kv : Z * val => (fst kv, getv (fst kv) m)) p) = keys p).
  { unfold keys. rewrite map_map. reflexivity. }
  destruct (in_dec Z.eq_dec k (keys p)) as [i|n].
  - apply upd_val_const; [rewrite Hk; exact i|].
    intros x' Hin'. apply in_map_iff in Hin'. destruct Hin' as [[k2 v2] [E _]].
    cbn [fst snd] in E. inversion E; subst. unfold getv. rewrite (lookup_nodup _ _ _ Hnd Hin). reflexivity.
  - rewrite upd_val_notin; [|rewrite Hk; exact n]. apply upd_val_notin. exact n.
Qed.

(* the same with the saved names given as a list that covers the overwritten ones
   (VarsManager.temp_params saves every key of its argument, also those it never gets to assign) *)
Lemma set_all_saved_keys : forall m p K, NoDup (keys m) -> incl (keys p) K ->
  set_all (map (fun k => (k, getv k m)) K) (set_all p m) = m.
Proof.
  intros m p K Hnd Hinc. rewrite !set_all_map, map_map. cbn [fst snd].
  transitivity (map (fun kv : Z * val => kv) m); [|apply map_id].
  apply map_ext_in. intros [k v] Hin. cbn [fst snd]. f_equal.
  assert (Hk : keys (map (fun k : Z => (k, getv k m)) K) = K).
  { unfold keys. rewrite map_map. cbn [fst]. apply map_id. }
  destruct (in_dec Z.eq_dec k K) as [i|n].
  - apply upd_val_const; [rewrite Hk; exact i|].
    intros x' Hin'. apply in_map_iff in Hin'. destruct Hin' as [k2 [E _]].
    inversion E; subst. unfold getv. rewrite (lookup_nodup _ _ _ Hnd Hin). reflexivity.
  - rewrite upd_val_notin; [|rewrite Hk; exact n]. apply upd_val_notin. intro H. apply n. apply Hinc. exact H.
Qed.

Lemma set_one_back : forall c k v, NoDup (keys c) -> set_one k (getv k c) (set_one k v c) = c.
Proof. intros c k v H. exact (set_all_saved c [(k, v)] H). Qed.

Lemma zipset_same_length : forall l l', length l = length l' -> zipset l l' = l.
Proof.
  induction l; destruct l'; cbn; intros; try discriminate; auto. f_equal. auto.
Qed.

(* ------------------------------------------------------------------ states *)

(* equal in everything but the derived flag not_full *)
Definition eqm (a b : state) : Prop :=
  vars a = vars b /\ maskv a = maskv b /\ cidx a = cidx b /\ mflags a = mflags b /\ conf a = conf b.
(* s' is s again: same parameters, mask, chain selection, flags, configuration; not_full is either the
   old flag or the value set_used_chains computes for the (same) selection *)
Definition restored (e : env) (s s' : state) : Prop :=
  eqm s' s /\ (nfull s' = nfull s \/ nfull s' = nf_of e (cidx s)).
(* everything but the chain selection equal *)
Definition sbc (a b : state) : Prop :=
  vars a = vars b /\ maskv a = maskv b /\ mflags a = mflags b /\ conf a = conf b.
Definition good (s : state) : Prop := NoDup (keys (vars s)) /\ NoDup (keys (conf s)).
(* not_full agrees with the selection (true after every set_used_chains) *)
Definition nf_consistent (e : env) (s : state) : Prop := nfull s = nf_of e (cidx s).

Lemma restored_refl : forall e s, restored e s s.
Proof. intros. unfold restored, eqm. tauto. Qed.

Lemma restored_trans : forall e s s1 s2, restored e s s1 -> restored e s1 s2 -> restored e s s2.
Proof.
  unfold restored, eqm. intros e s s1 s2 [[A1 [A2 [A3 [A4 A5]]]] N1] [[B1 [B2 [B3 [B4 B5]]]] N2].
  repeat split; try congruence.
  rewrite A3 in N2. destruct N2 as [N2|N2]; [rewrite N2; exact N1|right; exact N2].
Qed.

Lemma restored_full : forall e s s', nf_consistent e s -> restored e s s' -> s' = s.
Proof.
  unfold restored, eqm, nf_consistent. intros e s s' C [[A1 [A2 [A3 [A4 A5]]]] N].
  assert (nfull s' = nfull s) by (destruct N; congruence).
  destruct s, s'; cbn in *; congruence.
Qed.

Lemma good_eqm : forall s s', eqm s' s -> good s -> good s'.
Proof. unfold eqm, good. intros s s' [A1 [_ [_ [_ A5]]]] [G1 G2]. rewrite A1, A5. tauto. Qed.
(* ------------------------------------------------------------------ control flow *)

Lemma try_finally_st : forall body fin w s,
  st_of (snd (try_finally body fin w s)) = fin (st_of (snd (body w s))).
Proof. intros. unfold try_finally. destruct (body w s) as [w' [s'|s']]; reflexivity. Qed.

Lemma try_finally_exn : forall body fin w s,
  is_exn (snd (try_finally body fin w s)) = is_exn (snd (body w s)).
Proof. intros. unfold try_finally. destruct (body w s) as [w' [s'|s']]; reflexivity. Qed.

Lemma with_block_st : forall (A : Type) (enter : state -> option (state * A)) exit body w s,
  st_of (snd (with_block enter exit body w s)) =
  match enter s with None => s | Some (s1, sv) => exit sv (st_of (snd (body w s1))) end.
Proof.
  intros. unfold with_block. destruct (enter s) as [[s1 sv]|]; [apply try_finally_st|reflexivity].
Qed.

(* a block never swallows the exception of its body *)
Lemma with_block_exn : forall (A : Type) (enter : state -> option (state * A)) exit body w s,
  is_exn (snd (with_block enter exit body w s)) =
  match enter s with None => true | Some (s1, _) => is_exn (snd (body w s1)) end.
Proof.
  intros. unfold with_block. destruct (enter s) as [[s1 sv]|]; [apply try_finally_exn|reflexivity].
Qed.

(* generic statement: a manager whose exit undoes its enter, around ANY body that leaves the state
   as it found it (normally or by raising), leaves the state as it found it *)
Lemma with_block_neutral : forall (A : Type) (enter : state -> option (state * A)) exit (body : comp),
  (forall s s1 sv, enter s = Some (s1, sv) -> exit sv s1 = s) ->
  (forall w s, st_of (snd (body w s)) = s) ->
  forall w s, st_of (snd (with_block enter exit body w s)) = s.
Proof.
  intros A enter exit body Hlaw Hb w s. rewrite with_block_st.
  destruct (enter s) as [[s1 sv]|] eqn:E; [|reflexivity]. rewrite Hb. eapply Hlaw; eauto.
Qed.

Lemma foreach_inv : forall (A : Type) (I : state -> Prop) (l : list A) (f : A -> comp),
  (forall a w s, In a l -> I s -> I (st_of (snd (f a w s)))) ->
  forall w s, I s -> I (st_of (snd (foreach l f w s))).
Proof.
  induction l as [|a r IH]; intros f H w s Hs; cbn [foreach]; [exact Hs|].
  pose proof (H a w s (or_introl eq_refl) Hs) as Ha.
  destruct (f a w s) as [w' [s'|s']]; cbn [snd st_of] in *.
  - apply IH; auto. intros. apply H; auto. right. assumption.
  - exact Ha.
Qed.

Section RunFacts.
  Variable e : env.
  Variable ev : nat -> state -> bool.

  Lemma tick_st : forall w s, st_of (snd (tick ev w s)) = s.
  Proof. intros. unfold tick. cbn [snd]. destruct (ev (fst w) s); reflexivity. Qed.

  Lemma ticks_st : forall n w s, st_of (snd (ticks ev n w s)) = s.
  Proof.
    intros. unfold ticks. apply (foreach_inv nat (fun x => x = s)); auto.
    intros a w' s' _ ->. apply tick_st.
  Qed.

  Definition step_ok (f : state -> state) : Prop := forall x, sbc (f x) x.

  Lemma set_used_chains_ok : forall l, step_ok (set_used_chains e l).
  Proof. intros l x. unfold sbc. cbn. tauto. Qed.
  Lemma set_used_res_ok : forall r i, step_ok (set_used_res e r i).
  Proof. intros r i x. unfold sbc. cbn. tauto. Qed.

  Lemma sbc_trans : forall a b c, sbc a b -> sbc b c -> sbc a c.
  Proof. unfold sbc. intros a b c [? [? [? ?]]] [? [? [? ?]]]. repeat split; congruence. Qed.

  Lemma run_steps_sbc : forall nb steps, Forall step_ok steps ->
    forall w s, sbc (st_of (snd (run_steps ev nb steps w s))) s.
  Proof.
    intros nb steps Hs w s. unfold run_steps.
    apply (foreach_inv _ (fun x => sbc x s)).
    - intros f w' s' Hin Hx. rewrite ticks_st. eapply sbc_trans; [|exact Hx].
      rewrite Forall_forall in Hs. apply Hs. exact Hin.
    - unfold sbc. tauto.
  Qed.

  Lemma ff_pair_steps_ok : forall res, Forall step_ok (ff_pair_steps e res).
  Proof.
    intros res. apply Forall_forall. intros f Hin. unfold ff_pair_steps in Hin.
    apply in_flat_map in Hin. destruct Hin as [i [_ Hin]]. apply in_map_iff in Hin.
    destruct Hin as [j [E _]]. subst f. destruct (Nat.eqb i j); apply set_used_res_ok.
  Qed.

  Lemma helper_plan_ok : forall h, Forall step_ok (snd (helper_plan e h)).
  Proof.
    destruct h; cbn [helper_plan snd].
    - apply Forall_forall. intros f Hin. apply in_map_iff in Hin. destruct Hin as [c [E _]]. subst. apply set_used_res_ok.
    - apply Forall_forall. intros f Hin. apply in_map_iff in Hin. destruct Hin as [c [E _]]. subst. apply set_used_chains_ok.
    - apply Forall_forall. intros f Hin. apply in_map_iff in Hin. destruct Hin as [c [E _]]. subst. apply set_used_chains_ok.
    - constructor; [apply set_used_res_ok|apply ff_pair_steps_ok].
    - constructor; [apply set_used_res_ok|apply ff_pair_steps_ok].
    - constructor; [|constructor]. intros x. apply set_used_chains_ok.
  Qed.

  (* restoring the selection after something that only changed the selection *)
  Lemma chains_back : forall s s', sbc s' s -> restored e s (set_used_chains e (cidx s) s').
  Proof.
    intros s s' [A1 [A2 [A3 A4]]]. unfold restored, eqm. cbn. repeat split; auto.
  Qed.

  (* read-only helpers: an exception at ANY evaluation (the oracle ev is arbitrary) *)
  Lemma run_helper_restores : forall h w s, restored e s (st_of (snd (run_helper e ev h w s))).
  Proof.
    intros h w s. unfold run_helper. pose proof (helper_plan_ok h) as Hok.
    destruct (helper_plan e h) as [[pre nb] steps]. cbn [snd] in Hok.
    pose proof (ticks_st pre w s) as Ht.
    destruct (ticks ev pre w s) as [w' [x|x]]; cbn [snd st_of] in Ht.
    - rewrite try_finally_st. apply chains_back. apply run_steps_sbc. exact Hok.
    - cbn [snd st_of]. subst x. apply restored_refl.
  Qed.

  (* ---- the managers ---- *)
  Lemma blk_enter_inv : forall b s s1 sv, blk_enter e b s = Some (s1, sv) -> good s -> good s1.
  Proof.
    intros b s s1 sv E [G1 G2]. unfold good.
    destruct b; cbn [blk_enter] in E.
    - inversion E; subst; cbn. rewrite keys_set_all. tauto.
    - destruct (forallb _ _); [|discriminate]. inversion E; subst; cbn. rewrite keys_set_all. tauto.
    - inversion E; subst; cbn. tauto.
    - inversion E; subst; cbn. tauto.
    - inversion E; subst; cbn. tauto.
    - destruct (has_key _ _); [|discriminate]. inversion E; subst; cbn.
      change (set_one name v (conf s)) with (set_all [(name, v)] (conf s)). rewrite keys_set_all. tauto.
    - inversion E; subst; cbn. rewrite keys_set_all. tauto.
    - destruct (forallb _ _); [|discriminate]. inversion E; subst; cbn. rewrite keys_set_all. tauto.
  Qed.

  (* exit of a manager after a body that gave the state back as it was at entry *)
  Lemma blk_exit_restores : forall b s s1 sv s2,
    blk_enter e b s = Some (s1, sv) -> good s ->
    restored e s1 s2 -> restored e s (blk_exit e b sv s2).
  Proof.
    intros b s s1 sv s2 E [G1 G2] [[A1 [A2 [A3 [A4 A5]]]] N].
    destruct b; cbn [blk_enter] in E.
    - (* AbsPDF.temp_params *)
      inversion E; subst; clear E. cbn in *. unfold restored, eqm. cbn.
      rewrite set_all_self; [|exact G1|rewrite A1; apply keys_set_all].
      repeat split; auto.
    - (* VarsManager.temp_params *)
      destruct (forallb _ _); [|discriminate]. inversion E; subst; clear E. cbn in *.
      unfold restored, eqm. cbn. rewrite A1. rewrite set_all_saved; [|exact G1]. repeat split; auto.
    - (* mask_params *)
      inversion E; subst; clear E. cbn in *. unfold restored, eqm. cbn. repeat split; auto.
    - (* temp_used_res *)
      inversion E; subst; clear E. cbn in *. unfold restored, eqm. cbn. repeat split; auto.
    - (* temp_total_gls_one *)
      inversion E; subst; clear E. cbn in *. unfold restored, eqm. cbn. rewrite A4.
      rewrite zipset_same_length; [|rewrite map_length; reflexivity]. repeat split; auto.
    - (* temp_config *)
      destruct (has_key _ _); [|discriminate]. inversion E; subst; clear E. cbn in *.
      unfold restored, eqm. cbn. rewrite A5.
      rewrite set_one_back; [|exact G2]. repeat split; auto.
    - (* AbsPDF.temp_params, assignment raising half-way *)
      inversion E; subst; clear E. cbn in *. unfold restored, eqm. cbn.
      rewrite set_all_self; [|exact G1|rewrite A1; apply keys_set_all].
      repeat split; auto.
    - (* VarsManager.temp_params, assignment raising half-way *)
      destruct (forallb _ _); [|discriminate]. inversion E; subst; clear E. cbn in *.
      unfold restored, eqm. cbn. rewrite A1.
      rewrite set_all_saved_keys; [|exact G1|apply incl_appl; apply incl_refl]. repeat split; auto.
  Qed.

  (* ---- arbitrary nesting, an exception at any evaluation point ---- *)
  Theorem run_restores : forall p w s, good s -> restored e s (st_of (snd (run e ev p w s))).
  Proof.
    induction p as [|a IHa b IHb|b body IH|h|body IH]; intros w s G.
    - cbn [run]. rewrite tick_st. apply restored_refl.
    - cbn [run]. pose proof (IHa w s G) as Ra.
      destruct (run e ev a w s) as [w' [s'|s']]; cbn [snd st_of] in Ra |- *; [|exact Ra].
      eapply restored_trans; [exact Ra|]. apply IHb. eapply good_eqm; [apply Ra|exact G].
    - cbn [run]. rewrite with_block_st.
      destruct (blk_enter e b s) as [[s1 sv]|] eqn:E; [|apply restored_refl].
      apply (blk_exit_restores b s s1 sv _ E G).
      destruct (blk_raises b); [apply restored_refl|]. apply IH. exact (blk_enter_inv b s s1 sv E G).
    - cbn [run]. apply run_helper_restores.
    - cbn [run]. rewrite try_finally_st. apply chains_back.
      assert (Hinv : (fun x => sbc x s /\ good x) (st_of (snd
                (foreach (cidx s) (fun i w1 s1 =>
                   foreach (fnames_of e i)
                     (fun j => with_block (blk_enter e (BMaskParams j)) (blk_exit e (BMaskParams j)) (run e ev body))
                     w1 (set_used_chains e [i] s1)) w s)))).
      { apply foreach_inv.
        - intros i w1 s1 _ [Hx Gx].
          apply (foreach_inv _ (fun x => sbc x s /\ good x)).
          + intros j w2 s2 _ [Hy Gy]. rewrite with_block_st. cbn [blk_enter blk_exit].
            assert (Gm : good (upd_mask (mask_merge e j (maskv s2)) s2)) by exact Gy.
            pose proof (IH w2 (upd_mask (mask_merge e j (maskv s2)) s2) Gm) as R.
            destruct R as [[A1 [A2 [A3 [A4 A5]]]] _]. cbn in A1, A2, A3, A4, A5.
            destruct Hy as [B1 [B2 [B3 B4]]]. unfold sbc, good. cbn.
            rewrite A1, A4, A5. destruct Gy as [Gy1 Gy2]. repeat split; auto.
          + split; [|exact Gx]. eapply sbc_trans; [apply set_used_chains_ok|exact Hx].
        - split; [unfold sbc; tauto|exact G]. }
      apply Hinv.
  Qed.

  Corollary run_restores_exact : forall p w s,
    good s -> nf_consistent e s -> st_of (snd (run e ev p w s)) = s.
  Proof.
    intros. apply (restored_full e); auto. apply run_restores; auto.
  Qed.

  (* ---- per-manager component theorems: ANY body (it may assign parameters, select chains ...) ---- *)
  Lemma temp_params_any_body : forall pdict (body : comp) w s,
    NoDup (keys (vars s)) ->
    (forall w' x, keys (vars (st_of (snd (body w' x)))) = keys (vars x)) ->
    vars (st_of (snd (with_block (blk_enter e (BTempParams pdict)) (blk_exit e (BTempParams pdict)) body w s))) = vars s.
  Proof.
    intros pdict body w s Hnd Hk. rewrite with_block_st. cbn [blk_enter blk_exit]. cbn.
    apply set_all_self; auto.
    rewrite Hk. cbn. apply keys_set_all.
  Qed.

  Lemma temp_used_res_any_body : forall res ints (body : comp) w s,
    let r := st_of (snd (with_block (blk_enter e (BTempUsedRes res ints)) (blk_exit e (BTempUsedRes res ints)) body w s)) in
    cidx r = cidx s /\ nf_consistent e r.
  Proof.
    intros. subst r. rewrite with_block_st. cbn [blk_enter blk_exit]. unfold nf_consistent. cbn. auto.
  Qed.

  Lemma mask_params_any_body : forall pdict (body : comp) w s,
    maskv (st_of (snd (with_block (blk_enter e (BMaskParams pdict)) (blk_exit e (BMaskParams pdict)) body w s))) = maskv s.
  Proof. intros. rewrite with_block_st. cbn [blk_enter blk_exit]. reflexivity. Qed.

  Lemma helper_any_state : forall h w s,
    let r := st_of (snd (run_helper e ev h w s)) in cidx r = cidx s /\ vars r = vars s /\ maskv r = maskv s.
  Proof.
    intros. subst r. destruct (run_helper_restores h w s) as [[A1 [A2 [A3 _]]] _]. auto.
  Qed.
End RunFacts.

(* ------------------------------------------------------------------ example data *)
Definition ex_env : env := mkEnv 3 [(0, [0]); (1, [1]); (2, [2])] [(0, [[]]); (1, [[(3, (0, 1))]]); (2, [[]])] [].
Definition ex_state : state :=
  mkState [(0, (1, 2)); (1, (3, 5)); (3, (1, 1))] [] [0; 1; 2] false [false; false] [(0, (0, 1))].
Definition never (n : nat) (s : state) := false.

(* the nestings that leaked before the F11 repair now restore (instances of run_restores_exact) *)
Lemma temp_params_under_mask_ok :
  st_of (snd (run ex_env never
        (PWith (BMaskParams [(0, (3, 4))]) (PWith (BTempParams [(1, (5, 8))]) PEval)) (O, []) ex_state)) = ex_state.
Proof. vm_compute. reflexivity. Qed.
Lemma temp_params_in_factor_iteration_ok :
  st_of (snd (run ex_env never (PFactorIter (PWith (BTempParams [(1, (5, 8))]) PEval)) (O, []) ex_state)) = ex_state.
Proof. vm_compute. reflexivity. Qed.

(* ------------------------------------------------------------------ pre-fix control flow *)
Definition raise_now : comp := fun w s => (w, Exn s).
Definition return_now : comp := fun w s => (w, Ok s).

(* F3: restore-after-yield without finally leaks whenever the manager changed anything and the body raises *)
Lemma old_block_leaks : forall e b s s1 sv,
  blk_enter e b s = Some (s1, sv) -> s1 <> s ->
  st_of (snd (old_block e b raise_now (O, []) s)) <> s.
Proof.
  intros e b s s1 sv E D. unfold old_block, with_block_old. rewrite E. cbn. exact D.
Qed.

(* F3b: a bounded parameter came back as its fit-space value even on normal exit *)
Lemma old_vm_temp_params_corrupts : forall (y2x : val -> val) v, y2x v <> v ->
  exists s pdict, vars (st_of (snd (old_vm_temp_params y2x pdict return_now (O, []) s))) <> vars s.
Proof.
  intros y2x v D. exists (mkState [(0, v)] [] [] false [] []), [(0, v)].
  cbn. intro H. inversion H. auto.
Qed.

(* F4: the fit-fraction helpers ended on "all resonances", not on the previous selection *)
Lemma old_fitfractions_widens :
  cidx (st_of (snd (old_fitfractions ex_env never [0; 1; 2] [0; 1] 1
                      (O, []) (set_used_chains ex_env [0; 1] ex_state)))) = [0; 1; 2].
Proof. vm_compute. reflexivity. Qed.
(* ... and not at all when the integration raised *)
Lemma old_fitfractions_exn_leaks :
  cidx (st_of (snd (old_fitfractions ex_env (fun n _ => Nat.eqb n 1) [0; 1; 2] [0; 1] 1
                      (O, []) ex_state))) = [0].
Proof. vm_compute. reflexivity. Qed.

(* finding C17-2: values assigned before the try stayed when the assignment raised half-way *)
Lemma old_temp_params_bad_leaks : forall p s,
  set_all p (vars s) <> vars s ->
  vars (st_of (snd (old_temp_params_bad p (O, []) s))) <> vars s.
Proof. intros p s D. exact D. Qed.
Lemma old_temp_params_bad_example :
  vars (st_of (snd (old_temp_params_bad [(1, (5, 8))] (O, []) ex_state))) = [(0, (1, 2)); (1, (5, 8)); (3, (1, 1))].
Proof. vm_compute. reflexivity. Qed.
(* the repaired managers on the same input: nothing stays, the exception still reaches the caller *)
Lemma temp_params_bad_ok : forall e ev p body w s, good s ->
  restored e s (st_of (snd (run e ev (PWith (BTempParamsBad p) body) w s))) /\
  is_exn (snd (run e ev (PWith (BTempParamsBad p) body) w s)) = true.
Proof.
  intros e ev p body w s G. split; [apply run_restores; exact G|].
  cbn [run]. rewrite with_block_exn. cbn [blk_enter blk_raises]. reflexivity.
Qed.
Lemma vm_temp_params_bad_ok : forall e ev p rest body w s, good s ->
  restored e s (st_of (snd (run e ev (PWith (BVmTempParamsBad p rest) body) w s))) /\
  is_exn (snd (run e ev (PWith (BVmTempParamsBad p rest) body) w s)) = true.
Proof.
  intros e ev p rest body w s G. split; [apply run_restores; exact G|].
  cbn [run]. rewrite with_block_exn. cbn [blk_enter blk_raises].
  destruct (forallb _ _); reflexivity.
Qed.

(* finding C17-3: an exception inside build_params_vector left the narrowed selection [0] *)
Lemma old_cached_shape_pdf_exn_leaks :
  cidx (st_of (snd (old_cached_shape_pdf ex_env (fun n _ => Nat.eqb n 0) [1; 2] (O, []) ex_state))) = [0].
Proof. vm_compute. reflexivity. Qed.
Lemma cached_shape_pdf_exn_ok :
  st_of (snd (run_helper ex_env (fun n _ => Nat.eqb n 0) (HCachedShapePdf [1; 2]) (O, []) ex_state)) = ex_state.
Proof. vm_compute. reflexivity. Qed.

(* F11: the masked view written back: the mask value 3/4 stays in variable 0 after both blocks *)
Lemma old_amp_temp_params_under_mask_leaks :
  vars (st_of (snd (with_block (blk_enter ex_env (BMaskParams [(0, (3, 4))])) (blk_exit ex_env (BMaskParams [(0, (3, 4))]))
                      (old_amp_temp_params [(1, (5, 8))] return_now) (O, []) ex_state)))
  = [(0, (3, 4)); (1, (3, 5)); (3, (1, 1))].
Proof. vm_compute. reflexivity. Qed.

(* nested masks merge (inner values win, new names are appended, the order of the outer mask is kept);
   a name tied to others masks them all; the exit puts the outer mask back *)
Lemma mask_merge_example :
  mask_merge ex_env [(1, (5, 8)); (0, (7, 8))] [(0, (3, 4)); (3, (1, 2))] = [(0, (7, 8)); (3, (1, 2)); (1, (5, 8))].
Proof. vm_compute. reflexivity. Qed.
Lemma mask_merge_tied_example :
  mask_merge (mkEnv 3 [] [] [(1, [1; 3]); (3, [1; 3])]) [(3, (5, 8))] [(0, (3, 4))] = [(0, (3, 4)); (3, (5, 8)); (1, (5, 8))].
Proof. vm_compute. reflexivity. Qed.
Lemma nested_mask_example :
  let p := PWith (BMaskParams [(0, (3, 4))]) (PSeq PEval (PSeq (PWith (BMaskParams [(1, (5, 8))]) PEval) PEval)) in
  map maskv (rev (snd (fst (run ex_env never p (O, []) ex_state)))) = [[(0, (3, 4))]; [(0, (3, 4)); (1, (5, 8))]; [(0, (3, 4))]]
  /\ st_of (snd (run ex_env never p (O, []) ex_state)) = ex_state.
Proof. vm_compute. split; reflexivity. Qed.
(* before the C16 repair the inner block saw only its own dictionary *)
Lemma old_nested_mask_replaced :
  map maskv (rev (snd (fst (with_block (old_mask_enter [(0, (3, 4))]) (blk_exit ex_env (BMaskParams []))
                              (with_block (old_mask_enter [(1, (5, 8))]) (blk_exit ex_env (BMaskParams [])) (tick never))
                              (O, []) ex_state))))
  = [[(1, (5, 8))]].
Proof. vm_compute. reflexivity. Qed.

(* ------------------------------------------------------------------ packaged forms *)
Lemma run_density_unchanged : forall (A : Type) (density : state -> A) e ev p w s,
  (forall a b, eqm a b -> density a = density b) -> good s ->
  density (st_of (snd (run e ev p w s))) = density s.
Proof.
  intros A density e ev p w s Hd G. apply Hd. apply (run_restores e ev p w s G).
Qed.
