(* Model of tf_pwa/variable.py class VarsManager (lines 82-1030) as an executable state
   machine.  Definitions only; lemmas live in VarsManager_proofs.v.

   Names are Python strings; the components of a complex parameter [n] are [n ++ "r"] and
   [n ++ "i"] exactly as in the code.  [self.variables] maps a name to a tf.Variable *object*;
   tied names share one object.  Here: [vars] maps a name to a cell id, [heap] maps a cell id to
   (value, the object's _trainable attribute).  Python dicts are insertion-ordered association
   lists ([dset] keeps the position of an existing key, appends a new one; [ddel] deletes).
   Values are an abstract type [V]: the state machine only MOVES values.  Every number the code
   computes (random draws, cos/sin/sqrt/atan2 results, abs, +pi, bound transforms) is carried by
   the operation as an oracle value captured from the implementation; its contract is a
   hypothesis of the theorems and is checked numerically (Coq-Interval) by the harness. *)
From Coq Require Import List Bool String ZArith QArith.
Import ListNotations.
Open Scope string_scope.
Open Scope list_scope.

Definition name := string.
Definition nr (n : name) : name := (n ++ "r")%string.
Definition ni (n : name) : name := (n ++ "i")%string.

Definition smem (x : name) (l : list name) : bool := existsb (String.eqb x) l.
(* list.remove(x): removes the first occurrence (callers guard with "in") *)
Fixpoint lremove (x : name) (l : list name) : list name :=
  match l with
  | [] => []
  | y :: t => if String.eqb x y then t else y :: lremove x t
  end.
Definition ladd (x : name) (l : list name) : list name := if smem x l then l else l ++ [x].

Section Dict.
  Context {A : Type}.
  Fixpoint dget (k : name) (d : list (name * A)) : option A :=
    match d with
    | [] => None
    | (k', v) :: t => if String.eqb k k' then Some v else dget k t
    end.
  Fixpoint dset (k : name) (v : A) (d : list (name * A)) : list (name * A) :=
    match d with
    | [] => [(k, v)]
    | (k', v') :: t => if String.eqb k k' then (k, v) :: t else (k', v') :: dset k v t
    end.
  Fixpoint ddel (k : name) (d : list (name * A)) : list (name * A) :=
    match d with
    | [] => []
    | (k', v') :: t => if String.eqb k k' then t else (k', v') :: ddel k t
    end.
  Definition dmem (k : name) (d : list (name * A)) : bool :=
    match dget k d with Some _ => true | None => false end.
End Dict.

Section Heap.
  Context {V : Type}.
  Fixpoint hget (c : Z) (h : list (Z * (V * bool))) : option (V * bool) :=
    match h with
    | [] => None
    | (c', x) :: t => if Z.eqb c c' then Some x else hget c t
    end.
  Fixpoint hset_val (c : Z) (v : V) (h : list (Z * (V * bool))) : list (Z * (V * bool)) :=
    match h with
    | [] => []
    | (c', (v', f)) :: t => if Z.eqb c c' then (c', (v, f)) :: t else (c', (v', f)) :: hset_val c v t
    end.
  Fixpoint hset_flag (c : Z) (f : bool) (h : list (Z * (V * bool))) : list (Z * (V * bool)) :=
    match h with
    | [] => []
    | (c', (v', f')) :: t => if Z.eqb c c' then (c', (v', f)) :: t else (c', (v', f')) :: hset_flag c f t
    end.
End Heap.

(* first tie group containing n / same_list without that group *)
Fixpoint find_group (n : name) (gs : list (list name)) : option (list name) :=
  match gs with
  | [] => None
  | g :: t => if smem n g then Some g else find_group n t
  end.
Fixpoint remove_group (n : name) (gs : list (list name)) : list (list name) :=
  match gs with
  | [] => []
  | g :: t => if smem n g then t else g :: remove_group n t
  end.

Section Model.
  Context {V : Type}.

  Record state := mk {
    vars : list (name * Z);          (* self.variables : name -> object *)
    heap : list (Z * (V * bool));    (* object -> (value, _trainable) *)
    next : Z;                        (* fresh object id *)
    trainable : list name;           (* self.trainable_vars *)
    cplx : list (name * bool);       (* self.complex_vars : name -> polar flag *)
    same : list (list name);         (* self.same_list *)
    bnd : list name;                 (* keys of self.bnd_dic *)
    initv : list (name * V);         (* self.init_val *)
    polar : bool                     (* self.polar *)
  }.

  Definition init : state := mk [] [] 0 [] [] [] [] [] true.

  Definition set_vars x s := mk x (heap s) (next s) (trainable s) (cplx s) (same s) (bnd s) (initv s) (polar s).
  Definition set_heap x s := mk (vars s) x (next s) (trainable s) (cplx s) (same s) (bnd s) (initv s) (polar s).
  Definition set_train x s := mk (vars s) (heap s) (next s) x (cplx s) (same s) (bnd s) (initv s) (polar s).
  Definition set_cplx x s := mk (vars s) (heap s) (next s) (trainable s) x (same s) (bnd s) (initv s) (polar s).
  Definition set_groups x s := mk (vars s) (heap s) (next s) (trainable s) (cplx s) x (bnd s) (initv s) (polar s).
  Definition set_bnd x s := mk (vars s) (heap s) (next s) (trainable s) (cplx s) (same s) x (initv s) (polar s).
  Definition set_polar x s := mk (vars s) (heap s) (next s) (trainable s) (cplx s) (same s) (bnd s) (initv s) x.

  (* ---- reading ---- *)
  Definition read (s : state) (n : name) : option V :=
    match dget n (vars s) with
    | Some c => match hget c (heap s) with Some (v, _) => Some v | None => None end
    | None => None
    end.
  Definition cell_flag (s : state) (n : name) : bool :=
    match dget n (vars s) with
    | Some c => match hget c (heap s) with Some (_, f) => f | None => false end
    | None => false
    end.
  (* self.variables[n].assign(v) *)
  Definition write (n : name) (v : V) (s : state) : state :=
    match dget n (vars s) with
    | Some c => set_heap (hset_val c v (heap s)) s
    | None => s
    end.

  Fixpoint opt_list {A} (l : list (option A)) : list A :=
    match l with [] => [] | Some x :: t => x :: opt_list t | None :: t => opt_list t end.
  (* get_all_dic() *)
  Definition all_dic (s : state) : list (name * V) :=
    opt_list (map (fun kc => match read s (fst kc) with Some v => Some (fst kc, v) | None => None end) (vars s)).
  (* get_all_val() (val_in_fit=False) *)
  Definition all_val (s : state) : list V := opt_list (map (read s) (trainable s)).

  (* ---- _add_real_var (variable.py:136).  [explicit]: a value was passed (recorded in init_val);
     otherwise [v] is the random draw (oracle). ---- *)
  Definition add_real (n : name) (v : V) (explicit tr : bool) (s : state) : state :=
    let t1 := if dmem n (vars s) then lremove n (trainable s) else trainable s in
    let c := next s in
    mk (dset n c (vars s)) (heap s ++ [(c, (v, tr))]) (c + 1)%Z
       (if tr then t1 ++ [n] else t1) (cplx s) (same s) (bnd s)
       (if explicit then dset n v (initv s) else initv s) (polar s).

  (* add_complex_var (variable.py:171) *)
  Definition add_complex (n : name) (p : option bool) (tr : bool) (vr vi : V) (s : state) : state :=
    let pf := match p with Some b => b | None => polar s end in
    let s2 := add_real (ni n) vi (negb tr) tr (add_real (nr n) vr (negb tr) tr s) in
    set_cplx (dset n pf (cplx s2)) s2.

  (* set_fix (variable.py:415); [vb] = Bound.get_y2x(value), used when the name is bounded.
     The free list is handled through the shared object (repair of hunt finding F10): [listed] =
     the free names whose object is that of [n]; freeing appends [n] only if none is listed, fixing
     removes all of them. *)
  Definition cell_eqb (s : state) (i : name) (c : Z) : bool :=
    match dget i (vars s) with Some c' => Z.eqb c' c | None => false end.
  Definition set_fix (n : name) (value : option V) (vb : V) (unfix : bool) (s : state) : state :=
    match dget n (vars s) with
    | None => s
    | Some c =>
      let h1 := match value with
                | None => heap s
                | Some v => hset_val c (if smem n (bnd s) then vb else v) (heap s)
                end in
      let t := if unfix
               then match filter (fun i => cell_eqb s i c) (trainable s) with
                    | [] => trainable s ++ [n]
                    | _ :: _ => trainable s
                    end
               else filter (fun i => negb (cell_eqb s i c)) (trainable s) in
      set_train t (set_heap (hset_flag c unfix h1) s)
    end.
  (* the code before that repair: bookkeeping by name only *)
  Definition set_fix_old (n : name) (value : option V) (vb : V) (unfix : bool) (s : state) : state :=
    match dget n (vars s) with
    | None => s
    | Some c =>
      let h1 := match value with
                | None => heap s
                | Some v => hset_val c (if smem n (bnd s) then vb else v) (heap s)
                end in
      let t := if unfix then ladd n (trainable s) else lremove n (trainable s) in
      set_train t (set_heap (hset_flag c unfix h1) s)
    end.

  (* set_bound / remove_bound: bookkeeping only (the commented-out value transform is gone) *)
  Definition set_bound (ns : list name) (s : state) : state :=
    set_bnd (fold_left (fun b n => ladd n b) ns (bnd s)) s.
  Definition remove_bound (s : state) : state := set_bnd [] s.

  (* ---- set_same (variable.py:500) ---- *)
  Fixpoint collect (ns : list name) (vs : list (name * Z)) (gs : list (list name)) (tmp heads : list name)
    : list (list name) * list name * list name :=
    match ns with
    | [] => (gs, tmp, heads)
    | n :: t =>
      if dmem n vs then
        match find_group n gs with
        | Some g => collect t vs (remove_group n gs) (tmp ++ g) (heads ++ [hd n g])
        | None => collect t vs gs tmp heads
        end
      else collect t vs gs tmp heads
    end.

  (* The loop over name_list[1:]: a free member leaves the free list; a member that is not free
     takes the head out of the free list and - repair of hunt finding F6 - at that moment its value is
     assigned to the head's object (the group is fixed at the fixed member's value). *)
  Definition copy_val (src dst : name) (s : state) : state :=
    match read s src with Some v => write dst v s | None => s end.
  Definition sr_step (h : name) (ts : list name * state) (n : name) : list name * state :=
    if smem n (fst ts) then (lremove n (fst ts), snd ts)
    else (lremove h (fst ts), if smem h (fst ts) then copy_val n h (snd ts) else snd ts).
  Definition same_real (l0 : list name) (s : state) : state :=
    let l := filter (fun i => dmem i (vars s)) l0 in
    match l with
    | [] => s
    | h :: rest =>
      match dget h (vars s) with
      | None => s
      | Some c =>
        let ts := fold_left (sr_step h) rest (trainable s, s) in
        let vs := fold_left (fun vs n => dset n c vs) l (vars (snd ts)) in
        set_vars vs (set_train (fst ts) (snd ts))
      end
    end.

  (* cplx=True: every member of the (merged) group that is a complex parameter takes the polar flag
     of the first name whose cells are kept (repair of hunt finding F7) *)
  Definition align_flags (newl nl : list name) (d : list (name * bool)) : list (name * bool) :=
    match newl with
    | [] => d
    | h :: _ => match dget h d with
                | Some f => fold_left (fun d i => if dmem i d then dset i f d else d) nl d
                | None => d
                end
    end.
  Definition set_same (ns : list name) (cx : bool) (s : state) : state :=
    let '(gs, tmp, heads) := collect ns (vars s) (same s) [] [] in
    let newl := heads ++ filter (fun i => negb (smem i tmp)) ns in
    let nl := fold_left (fun acc i => ladd i acc) tmp ns in
    let s1 := set_groups gs s in
    let s2 := if cx then same_real (map ni newl) (same_real (map nr newl) s1) else same_real newl s1 in
    let s3 := if cx then set_cplx (align_flags newl nl (cplx s2)) s2 else s2 in
    set_groups (same s3 ++ [nl]) s3.

  (* ---- set / set_all (variable.py:580, 684); [vb] = Bound.get_x2y(value) ---- *)
  Definition set_v (n : name) (v vb : V) (vif : bool) (s : state) : state :=
    write n (if vif && smem n (bnd s) then vb else v) s.
  Definition set_all_dict (kv : list (name * (V * V))) (vif : bool) (s : state) : state :=
    fold_left (fun s x => set_v (fst x) (fst (snd x)) (snd (snd x)) vif s) kv s.
  Definition set_all_list (vs : list (V * V)) (vif : bool) (s : state) : state :=
    fold_left (fun s x => set_v (fst x) (fst (snd x)) (snd (snd x)) vif s) (combine (trainable s) vs) s.

  (* ---- refresh_vars (variable.py:329) with self.init_val / self.bnd_dic.  [o] = the values the
     implementation ended up with (random draws = oracle).  Written names: trainable components of
     complex parameters, trainable names with an init value (gets that value), trainable bounded
     names without init value. ---- *)
  Definition write_o (o : list (name * V)) (n : name) (s : state) : state :=
    match dget n o with Some v => write n v s | None => s end.
  Definition refresh (o : list (name * V)) (s : state) : state :=
    let s1 := fold_left (fun s kf =>
                let n := fst kf in
                let s' := if smem (nr n) (trainable s) then write_o o (nr n) s else s in
                if smem (ni n) (trainable s') then write_o o (ni n) s' else s') (cplx s) s in
    let s2 := fold_left (fun s n => match dget n (initv s) with Some v => write n v s | None => s end)
                        (trainable s1) s1 in
    fold_left (fun s n => if negb (dmem n (initv s)) && smem n (trainable s) then write_o o n s else s)
              (bnd s2) s2.

  (* ---- rp2xy / xy2rp (variable.py:598-636).  [target] = the new polar flag (false: rp2xy,
     true: xy2rp); [o] = the two values the code assigned (r cos p, r sin p) resp.
     (sqrt(x^2+y^2), atan2(y,x)).  Flags are propagated to the FIRST tie group containing [n]. ---- *)
  Definition propagate (n : name) (target : bool) (s : state) : list (name * bool) :=
    match find_group n (same s) with
    | Some g => fold_left (fun d i => dset i target d) g (cplx s)
    | None => cplx s
    end.
  Definition conv (target : bool) (n : name) (o : V * V) (s : state) : state :=
    match dget n (cplx s) with
    | None => s
    | Some f =>
      if Bool.eqb f target then s
      else
        let s1 := write (ni n) (snd o) (write (nr n) (fst o) s) in
        let s2 := set_cplx (dset n target (cplx s1)) s1 in
        set_cplx (propagate n target s2) s2
    end.
  Definition olook {A} (o : list (name * A)) (n : name) (dflt : A) : A :=
    match dget n o with Some x => x | None => dflt end.
  Definition names_or_all (ns : list name) (s : state) : list name :=
    match ns with [] => map fst (cplx s) | _ => ns end.
  (* rp2xy_all / xy2rp_all (variable.py:699-721): "if not name_list: all"; sets self.polar *)
  Definition conv_all (target : bool) (ns : list name) (o : list (name * (V * V))) (s : state) : state :=
    let s1 := fold_left (fun s n => match dget n o with Some x => conv target n x s | None => s end)
                        (names_or_all ns s) s in
    set_polar target s1.

  (* std_polar (variable.py:727): xy2rp, then if r < 0: r := |r|, p := p + pi.  The decision and
     the two new values are oracle ([flip = Some (|r|, p+pi)] iff the code saw r < 0). *)
  Definition std_polar_mid (n : name) (o : V * V) (flip : option (V * V)) (s : state) : state :=
    let s1 := conv true n o s in
    match flip with
    | None => s1
    | Some (r', p') => write (ni n) p' (write (nr n) r' s1)
    end.
  (* ... and finally p := _std_polar_angle(p), the phase brought into [-pi, pi) (repair of hunt
     finding F1: the result used to be discarded); [pw] = the assigned value (oracle) *)
  Definition std_polar (n : name) (o : V * V) (flip : option (V * V)) (pw : V) (s : state) : state :=
    write (ni n) pw (std_polar_mid n o flip s).
  Definition std_polar_all (o : list (name * (((V * V) * option (V * V)) * V))) (s : state) : state :=
    fold_left (fun s n => match dget n o with Some x => std_polar n (fst (fst x)) (snd (fst x)) (snd x) s | None => s end)
              (map fst (cplx s)) s.
  (* standard_complex (variable.py:752): only polar parameters without constraints on their
     component names (a cplx=True tie stores the complex name, so it does not count). *)
  Definition has_constrains (k : name) (s : state) : bool :=
    existsb (fun g => smem (nr k) g || smem (ni k) g) (same s) || smem (nr k) (bnd s) || smem (ni k) (bnd s).
  Definition standard_complex (o : list (name * (((V * V) * option (V * V)) * V))) (s : state) : state :=
    fold_left (fun s n =>
                 match dget n (cplx s) with
                 | Some true => if has_constrains n s then s
                                else match dget n o with Some x => std_polar n (fst (fst x)) (snd (fst x)) (snd x) s | None => s end
                 | _ => s
                 end) (map fst (cplx s)) s.

  (* set_share_r (variable.py:487) *)
  Definition set_share_r (ns : list name) (o : list (name * (V * V))) (s : state) : state :=
    let s1 := conv_all true ns o s in
    let s2 := set_same (map nr ns) false s1 in
    set_cplx (fold_left (fun d n => dset n true d) ns (cplx s2)) s2.

  (* remove_var / rename_var (variable.py:236-327) *)
  Definition remove_real (n : name) (s : state) : state :=
    let t := if cell_flag s n then lremove n (trainable s) else trainable s in
    mk (ddel n (vars s)) (heap s) (next s) t (cplx s) (map (lremove n) (same s))
       (lremove n (bnd s)) (initv s) (polar s).
  Definition remove_var (n : name) (s : state) : state :=
    if dmem n (cplx s) then
      let s0 := set_cplx (ddel n (cplx s)) s in
      let t1 := if cell_flag s0 (nr n) then lremove (nr n) (trainable s0) else trainable s0 in
      let t2 := if cell_flag s0 (ni n) then lremove (ni n) t1 else t1 in
      mk (ddel (ni n) (ddel (nr n) (vars s0))) (heap s0) (next s0) t2 (cplx s0)
         (map (fun l => lremove (ni n) (lremove (nr n) l)) (same s0))
         (lremove (ni n) (lremove (nr n) (bnd s0))) (initv s0) (polar s0)
    else remove_real n s.

  Definition lrename (a b : name) (l : list name) : list name :=
    if smem a l then lremove a l ++ [b] else l.
  Definition vrename (a b : name) (vs : list (name * Z)) : list (name * Z) :=
    match dget a vs with Some c => ddel a (dset b c vs) | None => vs end.
  Definition brename (a b : name) (l : list name) : list name :=
    if smem a l then lremove a (ladd b l) else l.
  Definition rename_real (a b : name) (s : state) : state :=
    let t := if cell_flag s a then lremove a (trainable s) ++ [b] else trainable s in
    mk (vrename a b (vars s)) (heap s) (next s) t (cplx s) (map (lrename a b) (same s))
       (brename a b (bnd s)) (initv s) (polar s).
  Definition rename_var (a b : name) (cx : bool) (s : state) : state :=
    if cx then
      match dget a (cplx s) with
      | None => s
      | Some f =>
        let cp := ddel a (dset b f (cplx s)) in
        let t1 := if cell_flag s (nr a) then lrename (nr a) (nr b) (trainable s) else trainable s in
        let t2 := if cell_flag s (ni a) then lrename (ni a) (ni b) t1 else t1 in
        mk (vrename (ni a) (ni b) (vrename (nr a) (nr b) (vars s))) (heap s) (next s) t2 cp
           (map (fun l => lrename (ni a) (ni b) (lrename (nr a) (nr b) l)) (same s))
           (brename (ni a) (ni b) (brename (nr a) (nr b) (bnd s))) (initv s) (polar s)
      end
    else rename_real a b s.

  (* ---- operations ---- *)
  Inductive op :=
  | AddReal (n : name) (v : V) (explicit tr : bool)
  | AddComplex (n : name) (p : option bool) (tr : bool) (vr vi : V)
  | SetFix (n : name) (value : option V) (vb : V) (unfix : bool)
  | SetBound (ns : list name)
  | RemoveBound
  | SetSame (ns : list name) (cx : bool)
  | ShareR (ns : list name) (o : list (name * (V * V)))
  | SetV (n : name) (v vb : V) (vif : bool)
  | SetAllDict (kv : list (name * (V * V))) (vif : bool)
  | SetAllList (vs : list (V * V)) (vif : bool)
  | Refresh (o : list (name * V))
  | Conv (target : bool) (n : name) (o : V * V)              (* rp2xy (false) / xy2rp (true) *)
  | ConvAll (target : bool) (ns : list name) (o : list (name * (V * V)))
  | StdPolar (n : name) (o : V * V) (flip : option (V * V)) (pw : V)
  | StdPolarAll (o : list (name * (((V * V) * option (V * V)) * V)))
  | StandardComplex (o : list (name * (((V * V) * option (V * V)) * V)))
  | RemoveVar (n : name)
  | RenameVar (a b : name) (cx : bool).

  Definition step (s : state) (o : op) : state :=
    match o with
    | AddReal n v e tr => add_real n v e tr s
    | AddComplex n p tr vr vi => add_complex n p tr vr vi s
    | SetFix n v vb u => set_fix n v vb u s
    | SetBound ns => set_bound ns s
    | RemoveBound => remove_bound s
    | SetSame ns cx => set_same ns cx s
    | ShareR ns o => set_share_r ns o s
    | SetV n v vb vif => set_v n v vb vif s
    | SetAllDict kv vif => set_all_dict kv vif s
    | SetAllList vs vif => set_all_list vs vif s
    | Refresh o => refresh o s
    | Conv t n o => conv t n o s
    | ConvAll t ns o => conv_all t ns o s
    | StdPolar n o f pw => std_polar n o f pw s
    | StdPolarAll o => std_polar_all o s
    | StandardComplex o => standard_complex o s
    | RemoveVar n => remove_var n s
    | RenameVar a b cx => rename_var a b cx s
    end.

  Definition run (s : state) (h : list op) : state := fold_left step h s.

  (* ---- classes of operations used by the theorems ---- *)
  (* value phase: assignments, bulk loads, re-randomisation, coordinate changes, standardise *)
  Definition value_op (o : op) : bool :=
    match o with
    | SetV _ _ _ _ | SetAllDict _ _ | SetAllList _ _ | Refresh _ | Conv _ _ _ | ConvAll _ _ _
    | StdPolar _ _ _ _ | StdPolarAll _ | StandardComplex _ | SetBound _ | RemoveBound => true
    | _ => false
    end.
  (* bulk / random operations that must not touch a fixed parameter *)
  Definition bulk_op (o : op) : bool :=
    match o with
    | SetAllList _ _ | Refresh _ | SetBound _ | RemoveBound => true
    | _ => false
    end.

  (* no other trainable name points to the cell of n (safe to free n) *)
  Definition unfix_safe (s : state) (n : name) : bool :=
    match dget n (vars s) with
    | None => true
    | Some c => forallb (fun m => String.eqb m n ||
                   match dget m (vars s) with Some c' => negb (Z.eqb c c') | None => true end) (trainable s)
    end.
  (* operations under which "NoDup trainable / one trainable name per cell" is proved (freeing a tied
     name needs no side condition any more: set_fix looks at the shared object) *)
  Definition count_safe (s : state) (o : op) : bool :=
    match o with
    | RenameVar _ _ _ | RemoveVar _ => false
    | _ => true
    end.
  Fixpoint hist_ok (safe : state -> op -> bool) (s : state) (h : list op) : bool :=
    match h with
    | [] => true
    | o :: t => safe s o && hist_ok safe (step s o) t
    end.

  (* a tie request that neither merges nor overlaps existing groups (F11/F12 excluded) and does
     not tie component names of complex parameters (F7 excluded) *)
  Definition in_groups (n : name) (s : state) : bool := existsb (smem n) (same s).
  Definition is_component (n : name) (s : state) : bool :=
    existsb (fun kf => String.eqb n (nr (fst kf)) || String.eqb n (ni (fst kf))) (cplx s).
  Fixpoint nodupb (l : list name) : bool :=
    match l with [] => true | x :: t => negb (smem x t) && nodupb t end.
  Definition fresh_name (n : name) (s : state) : bool :=
    negb (dmem n (vars s)) && negb (dmem n (cplx s)) && negb (in_groups n s).
  Definition untied_real (n : name) (s : state) : bool :=
    dmem n (vars s) && negb (in_groups n s) && negb (is_component n s).
  Definition untied_cplx (n : name) (s : state) : bool :=
    dmem n (cplx s) && dmem (nr n) (vars s) && dmem (ni n) (vars s)
    && negb (in_groups n s) && negb (in_groups (nr n) s) && negb (in_groups (ni n) s).
  Definition tie_safe (s : state) (o : op) : bool :=
    match o with
    | SetSame ns false =>
        (* distinct existing non-component names touching at most one existing group *)
        nodupb ns && forallb (fun n => dmem n (vars s) && negb (is_component n s)) ns
        && (let '(_, _, heads) := collect ns (vars s) (same s) [] [] in Nat.leb (List.length heads) 1)
    | SetSame ns true =>
        (* distinct untied complex parameters (in any coordinates: the flags are aligned by the tie) *)
        nodupb ns && forallb (fun n => untied_cplx n s) ns
    | ShareR _ _ => false
    | RemoveVar n => if dmem n (cplx s) then untied_cplx n s else untied_real n s
    | RenameVar a b false => untied_real a s && fresh_name b s
    | RenameVar a b true => untied_cplx a s && fresh_name b s && fresh_name (nr b) s && fresh_name (ni b) s
    | AddReal n _ _ _ => fresh_name n s
    | AddComplex n _ _ _ _ => fresh_name n s && fresh_name (nr n) s && fresh_name (ni n) s
    | _ => true
    end.
End Model.

Arguments state : clear implicits.
Arguments op : clear implicits.

(* ---- executable form of the hypotheses of the polar/Cartesian theorems (soundness:
   polar_safe_sound in VarsManager_proofs.v) ---- *)
Section FCB.
  Context {V : Type}.
  Definition group_of_b (n : name) (s : state V) : list name :=
    match find_group n (same s) with Some g => g | None => [] end.
  Definition cell_is (s : state V) (x : name) (c : Z) : bool :=
    match dget x (vars s) with Some c' => Z.eqb c' c | None => false end.
  Definition fc_pair_ok (s : state V) (n : name) (fn : bool) (cr ci : Z) (m : name) : bool :=
    if String.eqb m n then true else
    match dget m (cplx s) with
    | None => true
    | Some fm =>
      if smem m (group_of_b n s)
      then cell_is s (nr m) cr && cell_is s (ni m) ci && Bool.eqb fm fn
      else negb (cell_is s (nr m) cr) && negb (cell_is s (nr m) ci) &&
           negb (cell_is s (ni m) cr) && negb (cell_is s (ni m) ci)
    end.
  Definition flags_consistentb (s : state V) : bool :=
    forallb (fun nf =>
      let n := fst nf in
      match dget n (cplx s), dget (nr n) (vars s), dget (ni n) (vars s) with
      | Some fn, Some cr, Some ci => negb (Z.eqb cr ci) && forallb (fun mf => fc_pair_ok s n fn cr ci (fst mf)) (cplx s)
      | _, _, _ => true
      end) (cplx s).
  Fixpoint names_eqb0 (a b : list name) : bool :=
    match a, b with
    | [], [] => true
    | x :: a', y :: b' => String.eqb x y && names_eqb0 a' b'
    | _, _ => false
    end.
  Definition groups_closedb (s : state V) : bool :=
    forallb (fun nf =>
      forallb (fun m => dmem m (cplx s) && names_eqb0 (group_of_b m s) (group_of_b (fst nf) s))
              (group_of_b (fst nf) s)) (cplx s).
  Definition polar_safe (s : state V) : bool := flags_consistentb s && groups_closedb s.
  (* every state along the history satisfies [inv] and every operation is [safe] *)
  Fixpoint hist_ok_inv (safe : state V -> op V -> bool) (inv : state V -> bool) (s : state V) (h : list (op V)) : bool :=
    match h with
    | [] => inv s
    | o :: t => inv s && safe s o && hist_ok_inv safe inv (step s o) t
    end.
End FCB.

(* ------------------------------------------------------------------------------------------
   Evaluation helpers for the correspondence (V = Q: floats as exact rationals).
   One case = the op list plus, after every op, what the implementation shows. *)
Record obs := mkobs {
  o_dic : list (name * Q);       (* get_all_dic() *)
  o_train : list name;           (* trainable_vars (ordered) *)
  o_vals : list Q;               (* get_all_val() *)
  o_cplx : list (name * bool);   (* complex_vars *)
  o_same : list (list name);     (* same_list *)
  o_bnd : list name;             (* bnd_dic keys *)
  o_polar : bool                 (* vm.polar *)
}.

Fixpoint names_eqb (a b : list name) : bool :=
  match a, b with
  | [], [] => true
  | x :: a', y :: b' => String.eqb x y && names_eqb a' b'
  | _, _ => false
  end.
Fixpoint qs_eqb (a b : list Q) : bool :=
  match a, b with
  | [], [] => true
  | x :: a', y :: b' => Qeq_bool x y && qs_eqb a' b'
  | _, _ => false
  end.
Definition subset_names (a b : list name) : bool := forallb (fun x => smem x b) a.
Definition set_eqb (a b : list name) : bool :=
  Nat.eqb (List.length a) (List.length b) && subset_names a b && subset_names b a.
(* dictionaries compared as maps *)
Definition dicq_eqb (a b : list (name * Q)) : bool :=
  Nat.eqb (List.length a) (List.length b) &&
  forallb (fun kv => match dget (fst kv) b with Some v => Qeq_bool (snd kv) v | None => false end) a.
Definition dicb_eqb (a b : list (name * bool)) : bool :=
  Nat.eqb (List.length a) (List.length b) &&
  forallb (fun kv => match dget (fst kv) b with Some v => Bool.eqb (snd kv) v | None => false end) a.
(* same_list compared as a set of sets *)
Definition groups_eqb (a b : list (list name)) : bool :=
  Nat.eqb (List.length a) (List.length b) &&
  forallb (fun g => existsb (set_eqb g) b) a && forallb (fun g => existsb (set_eqb g) a) b.

(* component code of the first observable that differs (0 = all agree) *)
Definition obs_diff (s : state Q) (o : obs) : Z :=
  if negb (dicq_eqb (all_dic s) (o_dic o)) then 1
  else if negb (names_eqb (trainable s) (o_train o)) then 2
  else if negb (qs_eqb (all_val s) (o_vals o)) then 3
  else if negb (dicb_eqb (cplx s) (o_cplx o)) then 4
  else if negb (groups_eqb (same s) (o_same o)) then 5
  else if negb (set_eqb (bnd s) (o_bnd o)) then 6
  else if negb (Bool.eqb (polar s) (o_polar o)) then 7
  else 0.
Definition obs_ok (s : state Q) (o : obs) : bool := Z.eqb (obs_diff s o) 0.

Fixpoint check_from (s : state Q) (h : list (op Q * obs)) : bool :=
  match h with
  | [] => true
  | (o, ob) :: t => let s' := step s o in obs_ok s' ob && check_from s' t
  end.
Definition check_hist (h : list (op Q * obs)) : bool := check_from init h.

(* (index of the first disagreeing step, component code), (-1, 0) if none: used for diagnosis *)
Fixpoint first_bad_from (s : state Q) (k : Z) (h : list (op Q * obs)) : Z * Z :=
  match h with
  | [] => ((-1)%Z, 0%Z)
  | (o, ob) :: t => let s' := step s o in
                    let d := obs_diff s' ob in
                    if Z.eqb d 0 then first_bad_from s' (k + 1)%Z t else (k, d)
  end.
Definition first_bad (h : list (op Q * obs)) : Z * Z := first_bad_from init 0 h.

(* the stream classification used by the harness, decided by the model itself *)
Definition clean_hist (h : list (op Q * obs)) : bool :=
  hist_ok tie_safe init (map fst h) && hist_ok_inv (fun _ _ => true) polar_safe init (map fst h).
(* one boolean per generated history: the model reproduces every observation AND classifies the
   history as the harness stream claims (clean / known-finding pattern) *)
Definition check_clean (h : list (op Q * obs)) : bool := check_hist h && clean_hist h.
Definition check_known (h : list (op Q * obs)) : bool := check_hist h && negb (clean_hist h).
