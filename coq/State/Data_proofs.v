(* C18 - lemmas about the structured-data model (State/Data.v). *)
From Coq Require Import ZArith List Bool Arith Lia.
From TFV Require Import State.Data.
Import ListNotations.

Scheme data_ind2 := Induction for data Sort Prop
  with forest_ind2 := Induction for forest Sort Prop.
Combined Scheme data_forest_ind from data_ind2, forest_ind2.

(* ------------------------------------------------------------------ lists *)
Section Lists.
  Context {A : Type}.

  Lemma map_nth_seq : forall (l : list A) d, map (fun i => nth i l d) (seq 0 (length l)) = l.
  Proof.
    induction l as [|a l IH]; intros d; [reflexivity|].
    cbn [length seq map nth]. f_equal. rewrite <- seq_shift, map_map. apply IH.
  Qed.

  Lemma repeat_map_seq : forall (x : A) n s, map (fun _ => x) (seq s n) = repeat x n.
  Proof. induction n; intros s; cbn; [reflexivity|f_equal; apply IHn]. Qed.

  Lemma chunk_aux_fuel : forall n f1 f2 (l : list A), 0 < n -> length l <= f1 -> length l <= f2 ->
    chunk_aux f1 n l = chunk_aux f2 n l.
  Proof.
    induction f1 as [|f1 IH]; intros f2 l Hn H1 H2.
    - destruct l; [|cbn in H1; lia]. destruct f2; reflexivity.
    - destruct l as [|a l]; [destruct f2; reflexivity|].
      destruct f2 as [|f2]; [cbn in H2; lia|]. cbn [chunk_aux]. f_equal.
      apply IH; auto; rewrite skipn_length; cbn [length] in *; lia.
  Qed.

  Lemma chunk_aux_concat : forall n f (l : list A), 0 < n -> length l <= f -> concat (chunk_aux f n l) = l.
  Proof.
    induction f as [|f IH]; intros l Hn H.
    - destruct l; [reflexivity|cbn in H; lia].
    - destruct l as [|a l]; [reflexivity|]. cbn [chunk_aux concat].
      rewrite IH; auto; [apply firstn_skipn|]. rewrite skipn_length. cbn [length] in *. lia.
  Qed.

  Lemma chunk_concat : forall n (l : list A), 0 < n -> concat (chunk n l) = l.
  Proof. intros. unfold chunk. apply chunk_aux_concat; auto. Qed.

  Lemma chunk_aux_S : forall n f (l : list A), l <> [] ->
    chunk_aux (S f) n l = firstn n l :: chunk_aux f n (skipn n l).
  Proof. intros n f l H. destruct l; [congruence|reflexivity]. Qed.

  Lemma chunk_app : forall n (x l : list A), 0 < n -> length x = n -> chunk n (x ++ l) = x :: chunk n l.
  Proof.
    intros n x l Hn Hx. subst n. unfold chunk. rewrite app_length.
    replace (length x + length l) with (S (length x + length l - 1)) by lia.
    rewrite chunk_aux_S; [|destruct x; [cbn in Hn; lia|discriminate]].
    rewrite firstn_app, skipn_app, Nat.sub_diag, firstn_all, skipn_all.
    cbn [firstn skipn app]. rewrite app_nil_r. f_equal.
    apply chunk_aux_fuel; auto; lia.
  Qed.

  Lemma chunk_flat_map : forall (B : Type) n (f : B -> list A) (l : list B), 0 < n ->
    (forall x, In x l -> length (f x) = n) -> chunk n (flat_map f l) = map f l.
  Proof.
    induction l as [|b l IH]; intros Hn H; [reflexivity|].
    cbn [flat_map map]. rewrite chunk_app; auto; [|apply H; left; reflexivity].
    f_equal. apply IH; auto. intros. apply H. right. assumption.
  Qed.

  Lemma chunk_aux_length_dep : forall n f (l l' : list A), length l = length l' ->
    length (chunk_aux f n l) = length (chunk_aux f n l').
  Proof.
    induction f as [|f IH]; intros l l' H; [reflexivity|].
    destruct l, l'; try discriminate; [reflexivity|]. cbn [chunk_aux length]. f_equal.
    apply IH. rewrite !skipn_length. cbn [length] in *. lia.
  Qed.

  Lemma chunk_length_dep : forall n (l l' : list A), length l = length l' ->
    length (chunk n l) = length (chunk n l').
  Proof. intros. unfold chunk. rewrite H. apply chunk_aux_length_dep. exact H. Qed.

  Lemma chunk_aux_length_le : forall n f (l : list A), 0 < n -> length (chunk_aux f n l) <= length l.
  Proof.
    induction f as [|f IH]; intros l Hn; [cbn; lia|].
    destruct l as [|a l]; [cbn; lia|]. cbn [chunk_aux length].
    specialize (IH (skipn n (a :: l)) Hn). rewrite skipn_length in IH. cbn [length] in IH. lia.
  Qed.

  Lemma chunk_nonempty : forall n (l : list A), l <> [] -> 1 <= length (chunk n l).
  Proof. intros n l H. destruct l; [congruence|]. unfold chunk. cbn. lia. Qed.

  Lemma flat_map_length_const : forall (B : Type) n (f : B -> list A) (l : list B),
    (forall x, In x l -> length (f x) = n) -> length (flat_map f l) = length l * n.
  Proof.
    induction l as [|b l IH]; intros H; [reflexivity|].
    cbn [flat_map length]. rewrite app_length, IH, H; [lia|left; reflexivity|].
    intros. apply H. right. assumption.
  Qed.
End Lists.

Lemma zipw_map_seq : forall (A B C : Type) (h : A -> B -> C) (f : nat -> A) (g : nat -> B) a c s,
  zipw h (map f (seq s a)) (map g (seq s c)) = map (fun i => h (f i) (g i)) (seq s (Nat.min a c)).
Proof.
  induction a as [|a IH]; intros c s; [reflexivity|].
  destruct c as [|c]; [reflexivity|]. cbn [seq map zipw Nat.min]. f_equal. apply IH.
Qed.

(* ------------------------------------------------------------------ dat layout *)
Section DatProofs.
  Context {A : Type}.
  Variable dflt : A.

  Lemma nth_map_rows : forall (ps : list (list A)) k ev,
    nth k (map (fun p => nth ev p dflt) ps) dflt = nth ev (nth k ps []) dflt.
  Proof.
    intros. rewrite <- (map_nth (fun p => nth ev p dflt) ps [] k).
    replace (nth ev [] dflt) with dflt by (destruct ev; reflexivity). reflexivity.
  Qed.

  (* load (save ps) = ps: any number of particles, any number of events *)
  Theorem dat_layout_inverse : forall (ps : list (list A)) N,
    ps <> [] -> (forall p, In p ps -> length p = N) -> load dflt (length ps) (save dflt ps) = ps.
  Proof.
    intros ps N Hne Hlen. unfold load, save.
    assert (HN : length (hd [] ps) = N) by (destruct ps; [congruence|apply Hlen; left; reflexivity]).
    rewrite HN.
    rewrite chunk_flat_map; [|destruct ps; [congruence|cbn; lia]|intros; apply map_length].
    transitivity (map (fun k => nth k ps []) (seq 0 (length ps))); [|apply map_nth_seq].
    apply map_ext_in. intros k Hk. apply in_seq in Hk.
    rewrite map_map.
    assert (Hk' : length (nth k ps []) = N) by (apply Hlen; apply nth_In; lia).
    transitivity (map (fun ev => nth ev (nth k ps []) dflt) (seq 0 (length (nth k ps []))));
      [|apply map_nth_seq].
    rewrite Hk'. apply map_ext. intros ev. apply nth_map_rows.
  Qed.

  Lemma save_length : forall (ps : list (list A)) N, ps <> [] -> (forall p, In p ps -> length p = N) ->
    length (save dflt ps) = length ps * N.
  Proof.
    intros ps N Hne Hlen. unfold save.
    assert (HN : length (hd [] ps) = N) by (destruct ps; [congruence|apply Hlen; left; reflexivity]).
    rewrite HN. rewrite (flat_map_length_const _ (length ps)); [rewrite seq_length; lia|].
    intros. apply map_length.
  Qed.

  Lemma total_rows : forall (groups : list (list (list A))) N,
    (forall g, In g groups -> g <> [] /\ forall p, In p g -> length p = N) ->
    fold_right plus 0 (map (@length A) (map (save dflt) groups)) = length (concat groups) * N.
  Proof.
    induction groups as [|g r IH]; intros N H; [reflexivity|].
    cbn [map fold_right concat]. rewrite app_length, (IH N); [|intros; apply H; right; assumption].
    destruct (H g (or_introl eq_refl)) as [Hne Hl]. rewrite (save_length g N); auto. lia.
  Qed.

  (* several files, each carrying a consecutive group of particles for all events *)
  Theorem dat_files_inverse : forall (groups : list (list (list A))) N, 0 < N ->
    (forall g, In g groups -> g <> [] /\ forall p, In p g -> length p = N) ->
    load_files dflt (length (concat groups)) (map (save dflt) groups) = concat groups.
  Proof.
    intros groups N HN H. unfold load_files. rewrite (total_rows groups N H).
    destruct groups as [|g0 r]; [reflexivity|].
    assert (Hn : length (concat (g0 :: r)) <> 0).
    { cbn [concat]. rewrite app_length. destruct (H g0 (or_introl eq_refl)) as [Hne _].
      destruct g0; [congruence|cbn; lia]. }
    rewrite Nat.mul_comm, Nat.div_mul; auto.
    rewrite flat_map_concat_map, map_map. f_equal.
    transitivity (map (fun x : list (list A) => x) (g0 :: r)); [|apply map_id].
    apply map_ext_in. intros g Hg. destruct (H g Hg) as [Hne Hl].
    rewrite (save_length g N); auto. rewrite Nat.div_mul; [|lia].
    apply (dat_layout_inverse g N); auto.
  Qed.
End DatProofs.

Lemma combine_map_self : forall (K V : Type) (f : K -> V) (l : list K),
  combine l (map f l) = map (fun x => (x, f x)) l.
Proof. induction l; cbn; [reflexivity|f_equal; assumption]. Qed.

(* particle order: writing with an order and reading with the same order gives every particle its own rows *)
Theorem dat_order_inverse : forall (order : list Z) (mom : list (Z * list Z)) N,
  order <> [] ->
  (forall name, In name order -> exists p, alookup name mom = Some p /\ length p = N) ->
  load_order order (savetxt_order order mom) =
  map (fun name => (name, match alookup name mom with Some p => p | None => [] end)) order.
Proof.
  intros order mom N Hne H. unfold load_order, savetxt_order, assign.
  set (get := fun name => match alookup name mom with Some p => p | None => [] end).
  rewrite <- (map_length get order) at 1.
  rewrite (dat_layout_inverse 0%Z (map get order) N).
  - apply combine_map_self.
  - destruct order; [congruence|discriminate].
  - intros p Hp. apply in_map_iff in Hp. destruct Hp as [name [E Hin]]. subst p.
    destruct (H name Hin) as [q [E L]]. unfold get. rewrite E. exact L.
Qed.

(* ------------------------------------------------------------------ split / merge *)
(* the i-th piece: every array replaced by its i-th batch *)
Fixpoint pick (b i : nat) (d : data) : data :=
  match d with
  | Leaf r => Leaf (nth i (chunk b r) [])
  | Node k f => Node k (pickf b i f)
  end
with pickf (b i : nat) (f : forest) : forest :=
  match f with
  | FNil => FNil
  | FCons key d r => FCons key (pick b i d) (pickf b i r)
  end.
(* number of pieces the generator yields *)
Fixpoint cnt (mx b : nat) (d : data) : nat :=
  match d with
  | Leaf r => length (chunk b r)
  | Node k f => match cntf mx b f with
                | None => mx
                | Some c => c
                end
  end
with cntf (mx b : nat) (f : forest) : option nat :=
  match f with
  | FNil => None
  | FCons _ d r => Some (match cntf mx b r with None => cnt mx b d | Some c => Nat.min (cnt mx b d) c end)
  end.

Lemma cntf_none : forall mx b f, cntf mx b f = None -> f = FNil.
Proof. destruct f; [reflexivity|discriminate]. Qed.

Lemma gen_spec : forall mx b,
  (forall d, gen mx b d = map (fun i => pick b i d) (seq 0 (cnt mx b d))) /\
  (forall f, genf mx b f = option_map (fun c => map (fun i => pickf b i f) (seq 0 c)) (cntf mx b f)).
Proof.
  intros mx b. apply data_forest_ind.
  - intros r. cbn [gen cnt pick].
    rewrite <- (map_map (fun i => nth i (chunk b r) []) Leaf). rewrite map_nth_seq. reflexivity.
  - intros k f IH. cbn [gen cnt]. rewrite IH. destruct (cntf mx b f) as [c|] eqn:E; cbn [option_map].
    + rewrite map_map. reflexivity.
    + apply cntf_none in E. subst f. cbn [pick pickf]. symmetry. apply repeat_map_seq.
  - reflexivity.
  - intros key d IHd r IHr. cbn [genf cntf option_map]. rewrite IHd, IHr. f_equal.
    destruct (cntf mx b r) as [c|] eqn:E; cbn [option_map].
    + rewrite zipw_map_seq. reflexivity.
    + apply cntf_none in E. subst r. rewrite map_map. reflexivity.
Qed.

(* every array splits into exactly K batches *)
Fixpoint cover (b K : nat) (d : data) : Prop :=
  match d with
  | Leaf r => length (chunk b r) = K
  | Node _ f => coverf b K f
  end
with coverf (b K : nat) (f : forest) : Prop :=
  match f with
  | FNil => True
  | FCons _ d r => cover b K d /\ coverf b K r
  end.
(* every array has n rows *)
Fixpoint uniform (n : nat) (d : data) : Prop :=
  match d with
  | Leaf r => length r = n
  | Node _ f => uniformf n f
  end
with uniformf (n : nat) (f : forest) : Prop :=
  match f with
  | FNil => True
  | FCons _ d r => uniform n d /\ uniformf n r
  end.
Definition nbatches (n b : nat) : nat := length (chunk b (repeat 0%Z n)).

Lemma uniform_cover : forall b n,
  (forall d, uniform n d -> cover b (nbatches n b) d) /\ (forall f, uniformf n f -> coverf b (nbatches n b) f).
Proof.
  intros b n. apply data_forest_ind; cbn; auto.
  - intros r H. unfold nbatches. apply chunk_length_dep. rewrite repeat_length. exact H.
  - intros key d IHd r IHr [H1 H2]. auto.
Qed.

Lemma heads_tails_map : forall (key : Z) (fd : nat -> data) (fr : nat -> forest) (l : list nat),
  heads_tails (map (fun i => FCons key (fd i) (fr i)) l) = Some (map fd l, map fr l).
Proof. induction l as [|i l IH]; cbn; [reflexivity|rewrite IH; reflexivity]. Qed.

Lemma merge_picks : forall b K, 0 < b -> 1 <= K ->
  (forall d, cover b K d -> merge (pick b 0 d) (map (fun i => pick b i d) (seq 1 (K - 1))) = d) /\
  (forall f, coverf b K f -> mergef (pickf b 0 f) (map (fun i => pickf b i f) (seq 1 (K - 1))) = f).
Proof.
  intros b K Hb HK. apply data_forest_ind.
  - intros r Hc. cbn [cover] in Hc. cbn [pick merge]. f_equal.
    rewrite map_map. cbn [rows_of].
    change (nth 0 (chunk b r) [] ++ concat (map (fun i => nth i (chunk b r) []) (seq 1 (K - 1))))
      with (concat (map (fun i => nth i (chunk b r) []) (0 :: seq 1 (K - 1)))).
    replace (0 :: seq 1 (K - 1)) with (seq 0 K) by (destruct K; [lia|cbn; rewrite Nat.sub_0_r; reflexivity]).
    rewrite <- Hc. rewrite map_nth_seq. apply chunk_concat. exact Hb.
  - intros k f IH Hc. cbn [cover] in Hc. cbn [pick merge]. f_equal.
    rewrite map_map. cbn [forest_of]. apply IH. exact Hc.
  - reflexivity.
  - intros key d IHd r IHr [Hd Hr]. cbn [pickf mergef].
    rewrite heads_tails_map. f_equal; auto.
Qed.

Lemma cnt_cases : forall mx b K, K <= mx ->
  (forall d, cover b K d ->
     (has_leaf d = true -> cnt mx b d = K) /\ (has_leaf d = false -> cnt mx b d = mx)) /\
  (forall f, coverf b K f ->
     match cntf mx b f with
     | None => f = FNil
     | Some c => (has_leaff f = true -> c = K) /\ (has_leaff f = false -> c = mx)
     end).
Proof.
  intros mx b K HK. apply data_forest_ind.
  - intros r Hc. cbn in *. split; [auto|discriminate].
  - intros k f IH Hc. cbn [cover has_leaf cnt] in *. specialize (IH Hc).
    destruct (cntf mx b f) as [c|]; [exact IH|].
    subst f. cbn. split; [discriminate|reflexivity].
  - intros _. reflexivity.
  - intros key d IHd r IHr [Hd Hr]. specialize (IHd Hd). specialize (IHr Hr).
    cbn [cntf has_leaff]. destruct IHd as [D1 D2].
    destruct (cntf mx b r) as [c|].
    + destruct IHr as [R1 R2]. destruct (has_leaf d), (has_leaff r); cbn [orb]; split; intros; try discriminate;
        repeat match goal with H : ?x = ?x -> _ |- _ => specialize (H eq_refl) end; lia.
    + subst r. cbn [has_leaff]. rewrite orb_false_r. split; auto.
Qed.

Lemma leaf_bound_ge : forall b K,
  (forall d, cover b K d -> has_leaf d = true -> K <= leaf_bound b d) /\
  (forall f, coverf b K f -> has_leaff f = true -> K <= leaf_boundf b f).
Proof.
  intros b K. apply data_forest_ind.
  - intros r Hc _. cbn in *. lia.
  - intros k f IH Hc Hl. cbn in *. auto.
  - intros _ H. discriminate.
  - intros key d IHd r IHr [Hd Hr] Hl. cbn [has_leaff leaf_boundf] in *.
    apply orb_true_iff in Hl. destruct Hl as [Hl|Hl]; [specialize (IHd Hd Hl)|specialize (IHr Hr Hl)]; lia.
Qed.

Lemma gen_pieces : forall mx b K d, 1 <= K -> cnt mx b d = K ->
  gen mx b d = pick b 0 d :: map (fun i => pick b i d) (seq 1 (K - 1)).
Proof.
  intros mx b K d HK Hc. rewrite (proj1 (gen_spec mx b)), Hc.
  destruct K; [lia|]. replace (S K - 1) with K by lia. reflexivity.
Qed.

Lemma nbatches_pos : forall n b, 0 < n -> 1 <= nbatches n b.
Proof. intros. unfold nbatches. apply chunk_nonempty. destruct n; [lia|discriminate]. Qed.

Lemma nbatches_le : forall n b, 0 < b -> nbatches n b <= n.
Proof.
  intros. unfold nbatches, chunk. etransitivity; [apply chunk_aux_length_le; assumption|].
  rewrite repeat_length. lia.
Qed.

(* every bound that is not smaller than the number of batches gives the same pieces *)
Lemma gen_bound_any : forall mx b n d, 0 < n -> uniform n d -> has_leaf d = true -> nbatches n b <= mx ->
  gen mx b d = pick b 0 d :: map (fun i => pick b i d) (seq 1 (nbatches n b - 1)).
Proof.
  intros mx b n d Hn Hu Hl Hmx.
  pose proof (proj1 (uniform_cover b n) d Hu) as Hc.
  destruct (proj1 (cnt_cases mx b _ Hmx) d Hc) as [C _].
  apply gen_pieces; [apply nbatches_pos; exact Hn|exact (C Hl)].
Qed.

Lemma data_split_pieces : forall mx b n d, 0 < n -> uniform n d -> has_leaf d = true ->
  data_split mx b d = pick b 0 d :: map (fun i => pick b i d) (seq 1 (nbatches n b - 1)).
Proof.
  intros mx b n d Hn Hu Hl. unfold data_split. rewrite Hl.
  apply gen_bound_any; auto.
  apply (proj1 (leaf_bound_ge b _) d); auto. apply (proj1 (uniform_cover b n)). exact Hu.
Qed.

(* sys.maxsize stand-in: the generator run with ANY bound big >= number of batches (in particular
   sys.maxsize) yields exactly the pieces of the model's data_split *)
Theorem bound_irrelevant : forall big mx b n d, 0 < n -> uniform n d -> has_leaf d = true ->
  nbatches n b <= big -> gen big b d = data_split mx b d.
Proof.
  intros. rewrite (data_split_pieces mx b n d); auto. apply gen_bound_any; auto.
Qed.

(* merge (split b d) = d *)
Theorem merge_split_id : forall mx b n d,
  0 < b -> 0 < n -> uniform n d -> has_leaf d = true ->
  merge_all (data_split mx b d) = Some d.
Proof.
  intros mx b n d Hb Hn Hu Hl.
  rewrite (data_split_pieces mx b n d Hn Hu Hl). cbn [merge_all]. f_equal.
  apply (proj1 (merge_picks b _ Hb (nbatches_pos n b Hn))).
  apply (proj1 (uniform_cover b n)). exact Hu.
Qed.

(* ------------------------------------------------------------------ batch_call *)
Definition commutes (fn : data -> data) : Prop :=
  forall d0 others, merge (fn d0) (map fn others) = fn (merge d0 others).
Definition additive (g : list Z -> list Z) : Prop := forall a b, g (a ++ b) = g a ++ g b.

Theorem batch_call_eq : forall fn mx b n d, commutes fn ->
  0 < b -> 0 < n -> uniform n d -> has_leaf d = true ->
  batch_call fn mx b d = Some (fn d).
Proof.
  intros fn mx b n d Hf Hb Hn Hu Hl. unfold batch_call.
  pose proof (merge_split_id mx b n d Hb Hn Hu Hl) as M.
  destruct (data_split mx b d) as [|p0 rest]; [discriminate|]. cbn [merge_all map] in *.
  inversion M as [M']. rewrite Hf, M'. reflexivity.
Qed.

Lemma additive_nil : forall g, additive g -> g [] = [].
Proof.
  intros g H. pose proof (H [] []) as E. cbn in E.
  apply (f_equal (@length Z)) in E. rewrite app_length in E.
  destruct (g []); [reflexivity|cbn in E; lia].
Qed.

Lemma additive_concat : forall g, additive g -> forall l, g (concat l) = concat (map g l).
Proof.
  intros g H. induction l as [|a l IH]; cbn; [apply additive_nil; assumption|]. rewrite H, IH. reflexivity.
Qed.

Lemma heads_tails_map_leaves : forall g (others : list forest),
  heads_tails (map (map_leavesf g) others) =
  match heads_tails others with
  | Some (hs, ts) => Some (map (map_leaves g) hs, map (map_leavesf g) ts)
  | None => None
  end.
Proof.
  induction others as [|f r IH]; [reflexivity|]. destruct f; cbn; [reflexivity|].
  rewrite IH. destruct (heads_tails r) as [[hs ts]|]; reflexivity.
Qed.

Lemma map_leaves_commutes_aux : forall g, additive g ->
  (forall d0 others, merge (map_leaves g d0) (map (map_leaves g) others) = map_leaves g (merge d0 others)) /\
  (forall f others, mergef (map_leavesf g f) (map (map_leavesf g) others) = map_leavesf g (mergef f others)).
Proof.
  intros g Hg. apply data_forest_ind.
  - intros r others. cbn [map_leaves merge]. f_equal. rewrite Hg, (additive_concat g Hg). f_equal.
    rewrite !map_map. f_equal. apply map_ext. intros [r'|k f]; cbn; [reflexivity|symmetry; apply additive_nil; assumption].
  - intros k f IH others. cbn [map_leaves merge]. f_equal. rewrite map_map.
    rewrite <- IH. f_equal. rewrite map_map. apply map_ext. intros [r'|k' f']; reflexivity.
  - reflexivity.
  - intros key d IHd r IHr others. cbn [map_leavesf mergef]. rewrite heads_tails_map_leaves.
    destruct (heads_tails others) as [[hs ts]|]; [|reflexivity].
    cbn [map_leavesf]. rewrite IHd, IHr. reflexivity.
Qed.

Theorem map_leaves_commutes : forall g, additive g -> commutes (map_leaves g).
Proof. intros g H d0 others. apply (proj1 (map_leaves_commutes_aux g H)). Qed.

Lemma affine_additive : forall a c, additive (affine a c).
Proof. intros a c x y. unfold affine. apply map_app. Qed.

(* ------------------------------------------------------------------ mask / index / shape *)
Lemma select_spec : forall (A : Type) (sel : list bool) (rows : list A),
  select sel rows = map snd (filter fst (combine sel rows)).
Proof.
  induction sel as [|s sel IH]; intros rows; [reflexivity|].
  destruct rows as [|r rows]; [reflexivity|]. cbn [select combine filter fst].
  destruct s; cbn [map snd]; rewrite IH; reflexivity.
Qed.

Lemma select_app : forall (A : Type) (s1 s2 : list bool) (r1 r2 : list A), length s1 = length r1 ->
  select (s1 ++ s2) (r1 ++ r2) = select s1 r1 ++ select s2 r2.
Proof.
  induction s1 as [|s s1 IH]; intros s2 r1 r2 H; destruct r1 as [|r r1]; try discriminate; [reflexivity|].
  cbn [app select]. injection H as H. destruct s; cbn [app]; rewrite IH; auto.
Qed.

Lemma select_all : forall (A : Type) (rows : list A), select (repeat true (length rows)) rows = rows.
Proof. induction rows; cbn; [reflexivity|f_equal; assumption]. Qed.

Lemma idx1_map_leaves : forall g d p, idx1 (map_leaves g d) p = option_map (map_leaves g) (idx1 d p).
Proof.
  intros g [r|k f] p; [reflexivity|].
  assert (L : forall key f, flookup key (map_leavesf g f) = option_map (map_leaves g) (flookup key f)).
  { induction f0 as [|key' d' r' IH]; cbn; [reflexivity|]. destruct (Z.eqb key' key); [reflexivity|apply IH]. }
  assert (N : forall i f, fnth i (map_leavesf g f) = option_map (map_leaves g) (fnth i f)).
  { intros i f0. revert i. induction f0 as [|key' d' r' IH]; intros i; destruct i; cbn; try reflexivity.
    apply IH. }
  destruct k, p; cbn; auto.
Qed.

(* masking selects, at every path, exactly the flagged rows of the array found there *)
Theorem mask_index_commute : forall g path d,
  index (map_leaves g d) path = option_map (map_leaves g) (index d path).
Proof.
  induction path as [|p path IH]; intros d; [reflexivity|]. cbn [index].
  rewrite idx1_map_leaves. destruct (idx1 d p); cbn [option_map]; [apply IH|reflexivity].
Qed.

Lemma index_app : forall p q d,
  index d (p ++ q) = match index d p with Some x => index x q | None => None end.
Proof.
  induction p as [|a p IH]; intros q d; [reflexivity|]. cbn [app index].
  destruct (idx1 d a); [apply IH|reflexivity].
Qed.

Lemma shape_aux : forall n,
  (forall d, uniform n d -> (forall r, first_leaf d = Some r -> length r = n) /\ (has_leaf d = true -> first_leaf d <> None)) /\
  (forall f, uniformf n f -> (forall r, first_leaff f = Some r -> length r = n) /\ (has_leaff f = true -> first_leaff f <> None)).
Proof.
  intros n. apply data_forest_ind.
  - intros r H. cbn in *. split; [intros r' E; inversion E as [E1]; rewrite <- E1; exact H|discriminate].
  - intros k f IH H. cbn in *. auto.
  - intros _. cbn. split; [discriminate|discriminate].
  - intros key d IHd r IHr [Hd Hr]. cbn [first_leaff has_leaff].
    destruct (IHd Hd) as [D1 D2]. destruct (IHr Hr) as [R1 R2].
    destruct (first_leaf d) as [x|] eqn:E.
    + split; [intros r' E'; inversion E' as [E1]; rewrite <- E1; apply D1; reflexivity|discriminate].
    + split; [exact R1|]. intros H. apply orb_true_iff in H. destruct H as [H|H]; [exfalso; apply (D2 H); reflexivity|auto].
Qed.

Theorem data_shape_uniform : forall n d, uniform n d -> has_leaf d = true -> data_shape d = Some n.
Proof.
  intros n d Hu Hl. destruct (proj1 (shape_aux n) d Hu) as [A B]. unfold data_shape.
  destruct (first_leaf d) as [r|] eqn:E; [cbn; f_equal; apply A; reflexivity|exfalso; apply (B Hl); reflexivity].
Qed.

(* ------------------------------------------------------------------ lazy = eager *)
Definition empty_dict : data := Node KDict FNil.
Definition wrap (a : data) : data := dict_union a empty_dict.

Lemma fapp_nil : forall f, fapp f FNil = f.
Proof. induction f; cbn; [reflexivity|f_equal; assumption]. Qed.

Lemma wrap_commutes : commutes wrap.
Proof.
  intros d0 others. unfold wrap, dict_union, empty_dict. cbn [forest_of]. rewrite !fapp_nil.
  cbn [merge]. f_equal. rewrite map_map.
  replace (map (fun x => forest_of (Node KDict (fapp (forest_of x) FNil))) others) with (map forest_of others)
    by (apply map_ext; intros; cbn; rewrite fapp_nil; reflexivity).
  destruct d0; reflexivity.
Qed.

Lemma zipw_repeat : forall (A B C : Type) (h : A -> B -> C) (l : list A) (y : B) n, length l <= n ->
  zipw h l (repeat y n) = map (fun x => h x y) l.
Proof.
  induction l as [|a l IH]; intros y n H; [reflexivity|].
  destruct n; [cbn in H; lia|]. cbn. f_equal. apply IH. cbn in H. lia.
Qed.

(* a LazyCall without extra entries: merging its batches = its eager value, any number of batches *)
Theorem lazy_eq_eager : forall fn mx b n x, commutes fn ->
  0 < b -> 0 < n -> uniform n x -> has_leaf x = true ->
  merge_all (lazy_batches fn mx b x empty_dict) = Some (lazy_eval fn x empty_dict).
Proof.
  intros fn mx b n x Hf Hb Hn Hu Hl. unfold lazy_batches, lazy_eval. cbv zeta.
  (* the empty extra has no array: it is repeated once per data batch *)
  assert (E : forall m, data_split m b empty_dict = repeat empty_dict m) by reflexivity.
  rewrite E, zipw_repeat by (rewrite map_length; apply le_n).
  rewrite map_map.
  assert (Hw : commutes (fun p => wrap (fn p))).
  { intros d0 others. rewrite <- (map_map fn wrap), wrap_commutes, Hf. reflexivity. }
  exact (batch_call_eq (fun p => wrap (fn p)) mx b n x Hw Hb Hn Hu Hl).
Qed.

(* F14 (old): the empty extra split on its own stopped the iteration after MAX_ITER batches *)
Lemma old_lazy_max_iter : exists fn mx b x, commutes fn /\ uniform 3 x /\ has_leaf x = true /\
  merge_all (lazy_batches_old fn mx b x empty_dict) <> Some (lazy_eval fn x empty_dict) /\
  merge_all (lazy_batches fn mx b x empty_dict) = Some (lazy_eval fn x empty_dict).
Proof.
  exists (fun d => d), 2, 1, (Node KDict (FCons 0%Z (Leaf [1%Z; 2%Z; 3%Z]) FNil)).
  split; [intros d0 others; rewrite map_id; reflexivity|].
  cbn. repeat split; auto. intro H. discriminate H.
Qed.

(* ------------------------------------------------------------------ observation, and the generator before the repairs *)
(* F10: nothing but empty containers: MAX_ITER copies *)
Lemma split_no_array : forall mx b, data_split mx b (Node KDict FNil) = repeat (Node KDict FNil) mx.
Proof. reflexivity. Qed.
(* F12 (old): an empty tuple anywhere: no batch at all, the data vanish *)
Lemma old_split_empty_tuple : exists d, uniform 2 d /\ has_leaf d = true /\ merge_all (gen_old 1000 1 d) = None.
Proof.
  exists (Node KDict (FCons 0%Z (Leaf [1%Z; 2%Z]) (FCons 1%Z (Node KTuple FNil) FNil))).
  cbn. auto.
Qed.
(* F13 (old): more batches than MAX_ITER while an empty container is present: rows are dropped *)
Lemma old_split_max_iter : exists mx d, uniform 3 d /\ has_leaf d = true /\ merge_all (gen_old mx 1 d) <> Some d.
Proof.
  exists 2, (Node KDict (FCons 0%Z (Leaf [1%Z; 2%Z; 3%Z]) (FCons 1%Z (Node KDict FNil) FNil))).
  cbn. repeat split; auto. intro H. discriminate H.
Qed.
(* the same two structures with the current generator *)
Lemma new_split_examples :
  let d1 := Node KDict (FCons 0%Z (Leaf [1%Z; 2%Z]) (FCons 1%Z (Node KTuple FNil) FNil)) in
  let d2 := Node KDict (FCons 0%Z (Leaf [1%Z; 2%Z; 3%Z]) (FCons 1%Z (Node KDict FNil) FNil)) in
  merge_all (data_split 1000 1 d1) = Some d1 /\ merge_all (data_split 2 1 d2) = Some d2.
Proof. cbn. split; reflexivity. Qed.
