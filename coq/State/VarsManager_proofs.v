(* Lemmas about the VarsManager state machine (coq/State/VarsManager.v). *)
From Coq Require Import List Bool String ZArith QArith Lia.
From TFV Require Import State.VarsManager.
Import ListNotations.
Open Scope string_scope.
Open Scope list_scope.

(* ---------------------------------------------------------------- names and lists *)
Lemma seqb_refl x : String.eqb x x = true.
Proof. apply String.eqb_refl. Qed.
Lemma seqb_eq x y : String.eqb x y = true <-> x = y.
Proof. apply String.eqb_eq. Qed.
Lemma seqb_neq x y : String.eqb x y = false <-> x <> y.
Proof. apply String.eqb_neq. Qed.

Lemma smem_In x l : smem x l = true <-> In x l.
Proof.
  unfold smem. rewrite existsb_exists. split.
  - intros [y [Hy He]]. apply seqb_eq in He. subst. exact Hy.
  - intros H. exists x. split; [exact H|apply seqb_refl].
Qed.
Lemma smem_false x l : smem x l = false <-> ~ In x l.
Proof. rewrite <- smem_In. destruct (smem x l); split; intro H; try congruence; try (exfalso; apply H; reflexivity). Qed.

Lemma lremove_incl x y l : In y (lremove x l) -> In y l.
Proof.
  induction l as [|z t IH]; simpl; [tauto|].
  destruct (String.eqb x z); simpl; intuition.
Qed.
Lemma lremove_NoDup x l : NoDup l -> NoDup (lremove x l).
Proof.
  induction 1 as [|z t Hz Ht IH]; simpl; [constructor|].
  destruct (String.eqb x z); [exact Ht|]. constructor; [|exact IH].
  intros H. apply Hz. eapply lremove_incl; eauto.
Qed.
Lemma lremove_notin x l : NoDup l -> ~ In x (lremove x l).
Proof.
  induction 1 as [|z t Hz Ht IH]; simpl; [tauto|].
  destruct (String.eqb x z) eqn:E.
  - apply seqb_eq in E. subst. exact Hz.
  - apply seqb_neq in E. simpl. intros [H|H]; [congruence|auto].
Qed.
Lemma lremove_other x y l : x <> y -> In y l -> In y (lremove x l).
Proof.
  intros Hn. induction l as [|z t IH]; simpl; [tauto|].
  destruct (String.eqb x z) eqn:E.
  - apply seqb_eq in E. subst. intros [H|H]; [congruence|exact H].
  - simpl. intuition.
Qed.

(* "ar" is never "bi": the component names of complex parameters cannot collide *)
Lemma nr_ni_neq a b : nr a <> ni b.
Proof.
  unfold nr, ni. revert b. induction a as [|x a IH]; intros b; simpl.
  - destruct b as [|y b]; simpl; [discriminate|].
    intros H. injection H as _ H. destruct b; discriminate.
  - destruct b as [|y b]; simpl.
    + intros H. injection H as _ H. destruct a; discriminate.
    + intros H. injection H as _ H. exact (IH _ H).
Qed.
Lemma nr_inj a b : nr a = nr b -> a = b.
Proof.
  unfold nr. revert b. induction a as [|x a IH]; intros b; simpl.
  - destruct b as [|y b]; simpl; [reflexivity|]. intros H. injection H as _ H. destruct b; discriminate.
  - destruct b as [|y b]; simpl.
    + intros H. injection H as _ H. destruct a; discriminate.
    + intros H. injection H as Hx H. f_equal; auto.
Qed.
Lemma ni_inj a b : ni a = ni b -> a = b.
Proof.
  unfold ni. revert b. induction a as [|x a IH]; intros b; simpl.
  - destruct b as [|y b]; simpl; [reflexivity|]. intros H. injection H as _ H. destruct b; discriminate.
  - destruct b as [|y b]; simpl.
    + intros H. injection H as _ H. destruct a; discriminate.
    + intros H. injection H as Hx H. f_equal; auto.
Qed.

(* ---------------------------------------------------------------- dictionaries and heap *)
Section DictLemmas.
  Context {A : Type}.
  Lemma dget_dset_same k (v : A) d : dget k (dset k v d) = Some v.
  Proof.
    induction d as [|[k' v'] t IH]; simpl.
    - rewrite seqb_refl. reflexivity.
    - destruct (String.eqb k k') eqn:E; simpl; rewrite ?seqb_refl, ?E; auto.
  Qed.
  Lemma dget_dset_other k k' (v : A) d : k <> k' -> dget k (dset k' v d) = dget k d.
  Proof.
    intros Hn. induction d as [|[k2 v2] t IH]; simpl.
    - apply seqb_neq in Hn. rewrite Hn. reflexivity.
    - destruct (String.eqb k' k2) eqn:E; simpl.
      + apply seqb_eq in E. subst k2. apply seqb_neq in Hn. rewrite Hn. reflexivity.
      + destruct (String.eqb k k2); auto.
  Qed.
  Lemma dget_dset k k' (v : A) d : dget k (dset k' v d) = if String.eqb k k' then Some v else dget k d.
  Proof.
    destruct (String.eqb k k') eqn:E.
    - apply seqb_eq in E. subst. apply dget_dset_same.
    - apply seqb_neq in E. apply dget_dset_other. exact E.
  Qed.
  Lemma dget_fold_dset k (v : A) g d :
    dget k (fold_left (fun d i => dset i v d) g d) = if smem k g then Some v else dget k d.
  Proof.
    revert d. induction g as [|i g IH]; intros d; simpl; [reflexivity|].
    rewrite IH. rewrite dget_dset. rewrite String.eqb_sym.
    destruct (String.eqb i k); simpl; destruct (smem k g); reflexivity.
  Qed.
  Lemma dget_In k (v : A) d : dget k d = Some v -> In (k, v) d.
  Proof.
    induction d as [|[k' v'] t IH]; simpl; [discriminate|].
    destruct (String.eqb k k') eqn:E.
    - apply seqb_eq in E. subst. intros H. injection H as ->. left. reflexivity.
    - intros H. right. auto.
  Qed.
End DictLemmas.

Section HeapLemmas.
  Context {V : Type}.
  Implicit Types h : list (Z * (V * bool)).
  Lemma hset_val_same c v f h : hget c h = Some (v, f) -> hset_val c v h = h.
  Proof.
    induction h as [|[c' [v' f']] t IH]; simpl; [reflexivity|].
    destruct (Z.eqb c c') eqn:E.
    - intros H. injection H as -> ->. reflexivity.
    - intros H. rewrite IH; auto.
  Qed.
  Lemma hget_hset_val_other c c' v h : c <> c' -> hget c (hset_val c' v h) = hget c h.
  Proof.
    intros Hn. induction h as [|[c2 [v2 f2]] t IH]; simpl; [reflexivity|].
    destruct (Z.eqb c' c2) eqn:E; simpl.
    - apply Z.eqb_eq in E. subst c2. apply Z.eqb_neq in Hn. rewrite Hn. reflexivity.
    - destruct (Z.eqb c c2); auto.
  Qed.
  Lemma hget_hset_val_same c v h v0 f : hget c h = Some (v0, f) -> hget c (hset_val c v h) = Some (v, f).
  Proof.
    induction h as [|[c2 [v2 f2]] t IH]; simpl; [discriminate|].
    destruct (Z.eqb c c2) eqn:E; simpl; rewrite E.
    - intros H. injection H as -> ->. reflexivity.
    - auto.
  Qed.
  Lemma hget_hset_flag_fst c c' b h :
    option_map fst (hget c (hset_flag c' b h)) = option_map fst (hget c h).
  Proof.
    induction h as [|[c2 [v2 f2]] t IH]; simpl; [reflexivity|].
    destruct (Z.eqb c' c2) eqn:E; simpl; destruct (Z.eqb c c2); simpl; auto.
  Qed.
End HeapLemmas.

(* ---------------------------------------------------------------- the machine *)
Section Machine.
  Context {V : Type}.
  Notation state := (state V).
  Notation op := (op V).
  Implicit Types s : state.

  Lemma set_heap_id s : set_heap (heap s) s = s.
  Proof. destruct s; reflexivity. Qed.

  Lemma write_same s n v : read s n = Some v -> write n v s = s.
  Proof.
    unfold read, write. destruct (dget n (vars s)) as [c|]; [|reflexivity].
    destruct (hget c (heap s)) as [[v0 f]|] eqn:E; [|discriminate].
    intros H. injection H as ->. rewrite (hset_val_same _ _ _ _ E). apply set_heap_id.
  Qed.

  Lemma In_opt_list {A} (x : A) l : In x (opt_list l) <-> In (Some x) l.
  Proof.
    induction l as [|[y|] t IH]; simpl; [tauto| |].
    - rewrite IH. split; intros [H|H]; auto; left; congruence.
    - rewrite IH. split; [auto|]. intros [H|H]; [discriminate|exact H].
  Qed.

  Lemma all_dic_read s n v : In (n, v) (all_dic s) -> read s n = Some v.
  Proof.
    unfold all_dic. rewrite In_opt_list, in_map_iff. intros [[k c] [H _]]. simpl in H.
    destruct (read s k) eqn:E; [|discriminate]. injection H as -> ->. exact E.
  Qed.

  (* generic fold invariant *)
  Lemma fold_inv {X} (P : state -> Prop) (f : state -> X -> state) l :
    forall s, P s -> (forall s' x, In x l -> P s' -> P (f s' x)) -> P (fold_left f l s).
  Proof.
    induction l as [|x t IH]; intros s Hs Hf; simpl; [exact Hs|].
    apply IH; [apply Hf; [left; reflexivity|exact Hs]|].
    intros s' y Hy. apply Hf. right. exact Hy.
  Qed.

  (* ---- reading all parameters and writing them back changes nothing ---- *)
  Definition dic_for_set s : list (name * (V * V)) := map (fun kv => (fst kv, (snd kv, snd kv))) (all_dic s).

  Lemma get_set_all_identity s : set_all_dict (dic_for_set s) false s = s.
  Proof.
    unfold set_all_dict.
    apply (fold_inv (fun s' => s' = s)); [reflexivity|].
    intros s' x Hx ->. unfold dic_for_set in Hx. apply in_map_iff in Hx.
    destruct Hx as [[n v] [<- Hin]]. simpl. unfold set_v. simpl.
    apply write_same. apply all_dic_read. exact Hin.
  Qed.

  (* the list form: set_all(get_all_val()) *)
  Lemma get_set_all_list_identity s :
    (forall n, In n (trainable s) -> read s n <> None) ->
    set_all_list (map (fun v => (v, v)) (all_val s)) false s = s.
  Proof.
    intros Hr. unfold set_all_list.
    apply (fold_inv (fun s' => s' = s)); [reflexivity|].
    intros s' x Hx ->. unfold set_v. simpl. apply write_same.
    revert Hx. unfold all_val. generalize (trainable s) Hr. clear Hr.
    induction l as [|n t IH]; intros Hr; simpl; [tauto|].
    destruct (read s n) as [v|] eqn:E.
    - simpl. intros [<-|H]; simpl; [exact E|]. apply IH; [|exact H]. intros m Hm. apply Hr. right. exact Hm.
    - exfalso. apply (Hr n); [left; reflexivity|exact E].
  Qed.

  (* ---- frames: what an operation leaves alone ---- *)
  Definition frame s s' :=
    vars s' = vars s /\ trainable s' = trainable s /\ next s' = next s /\ same s' = same s /\ initv s' = initv s.
  Definition keeps (c : Z) s s' := hget c (heap s') = hget c (heap s).
  Definition fk c s s' := frame s s' /\ keeps c s s'.

  Lemma frame_refl s : frame s s.
  Proof. repeat split. Qed.
  Lemma frame_trans s1 s2 s3 : frame s1 s2 -> frame s2 s3 -> frame s1 s3.
  Proof. unfold frame. intuition congruence. Qed.
  Lemma fk_refl c s : fk c s s.
  Proof. split; [apply frame_refl|reflexivity]. Qed.
  Lemma fk_trans c s1 s2 s3 : fk c s1 s2 -> fk c s2 s3 -> fk c s1 s3.
  Proof. unfold fk, keeps. intros [F1 K1] [F2 K2]. split; [eapply frame_trans; eauto|congruence]. Qed.

  Lemma frame_write n v s : frame s (write n v s).
  Proof. unfold write. destruct (dget n (vars s)); repeat split. Qed.
  Lemma frame_set_cplx x s : frame s (set_cplx x s).
  Proof. repeat split. Qed.
  Lemma frame_set_polar x s : frame s (set_polar x s).
  Proof. repeat split. Qed.
  Lemma frame_set_bnd x s : frame s (set_bnd x s).
  Proof. repeat split. Qed.

  Lemma keeps_write c n v s : dget n (vars s) <> Some c -> keeps c s (write n v s).
  Proof.
    unfold keeps, write. destruct (dget n (vars s)) as [c'|]; [|reflexivity].
    intros H. simpl. apply hget_hset_val_other. congruence.
  Qed.
  Lemma fk_write c n v s : dget n (vars s) <> Some c -> fk c s (write n v s).
  Proof. intros. split; [apply frame_write|apply keeps_write; assumption]. Qed.

  Lemma frame_write_o o n s : frame s (write_o o n s).
  Proof. unfold write_o. destruct (dget n o); [apply frame_write|apply frame_refl]. Qed.
  Lemma frame_set_v n v vb vif s : frame s (set_v n v vb vif s).
  Proof. apply frame_write. Qed.

  Lemma frame_conv t n o s : frame s (conv t n o s).
  Proof.
    unfold conv. destruct (dget n (cplx s)) as [f|]; [|apply frame_refl].
    destruct (Bool.eqb f t); [apply frame_refl|].
    eapply frame_trans; [|apply frame_set_cplx].
    eapply frame_trans; [|apply frame_set_cplx].
    eapply frame_trans; apply frame_write.
  Qed.
  Lemma frame_std_polar_mid n o fl s : frame s (std_polar_mid n o fl s).
  Proof.
    unfold std_polar_mid. destruct fl as [[r p]|]; [|apply frame_conv].
    eapply frame_trans; [apply frame_conv|]. eapply frame_trans; apply frame_write.
  Qed.
  Lemma frame_std_polar n o fl pw s : frame s (std_polar n o fl pw s).
  Proof. unfold std_polar. eapply frame_trans; [apply frame_std_polar_mid|apply frame_write]. Qed.
  Lemma frame_fold {X} (f : state -> X -> state) l s :
    (forall s' x, frame s' (f s' x)) -> frame s (fold_left f l s).
  Proof.
    intros H. apply (fold_inv (frame s)); [apply frame_refl|].
    intros s' x _ Hs. eapply frame_trans; [exact Hs|apply H].
  Qed.

  (* every value-phase operation leaves variables, trainable list, ties alone *)
  Lemma value_op_frame o s : value_op o = true -> frame s (step s o).
  Proof.
    destruct o; simpl; try discriminate; intros _.
    - apply frame_set_bnd.
    - apply frame_set_bnd.
    - apply frame_set_v.
    - unfold set_all_dict. apply frame_fold. intros. apply frame_set_v.
    - unfold set_all_list. apply frame_fold. intros. apply frame_set_v.
    - unfold refresh. cbv zeta.
      match goal with |- frame s (fold_left ?f3 ?l3 (fold_left ?f2 ?l2 (fold_left ?f1 ?l1 s))) =>
        assert (H1 : forall l s0, frame s0 (fold_left f1 l s0));
        [|assert (H2 : forall l s0, frame s0 (fold_left f2 l s0));
          [|assert (H3 : forall l s0, frame s0 (fold_left f3 l s0))]] end.
      + intros l s0. apply frame_fold. intros s' x.
        destruct (smem (nr (fst x)) (trainable s')).
        * destruct (smem (ni (fst x)) (trainable (write_o o (nr (fst x)) s'))).
          -- eapply frame_trans; apply frame_write_o.
          -- apply frame_write_o.
        * destruct (smem (ni (fst x)) (trainable s')); [apply frame_write_o|apply frame_refl].
      + intros l s0. apply frame_fold. intros s' x.
        destruct (dget x (initv s')); [apply frame_write|apply frame_refl].
      + intros l s0. apply frame_fold. intros s' x.
        destruct (negb (dmem x (initv s')) && smem x (trainable s')); [apply frame_write_o|apply frame_refl].
      + eapply frame_trans; [apply H1|]. eapply frame_trans; [apply H2|apply H3].
    - apply frame_conv.
    - unfold conv_all. eapply frame_trans; [|apply frame_set_polar].
      apply frame_fold. intros s' x. destruct (dget x o); [apply frame_conv|apply frame_refl].
    - apply frame_std_polar.
    - unfold std_polar_all. apply frame_fold. intros s' x.
      destruct (dget x o); [apply frame_std_polar|apply frame_refl].
    - unfold standard_complex. apply frame_fold. intros s' x.
      destruct (dget x (cplx s')) as [[|]|]; try apply frame_refl.
      destruct (has_constrains x s'); [apply frame_refl|].
      destruct (dget x o); [apply frame_std_polar|apply frame_refl].
  Qed.

  Lemma value_ops_frame h : forall s, forallb value_op h = true -> frame s (run s h).
  Proof.
    induction h as [|o t IH]; intros s; simpl; [intros; apply frame_refl|].
    intros H. apply andb_prop in H. destruct H as [Ho Ht].
    eapply frame_trans; [apply value_op_frame; exact Ho|]. apply IH. exact Ht.
  Qed.

  (* ---- fixed parameters ---- *)
  (* no free parameter lives in cell c *)
  Definition fixed_cell s (c : Z) := forall n, In n (trainable s) -> dget n (vars s) <> Some c.

  Lemma fixed_cell_frame c s s' : frame s s' -> fixed_cell s c -> fixed_cell s' c.
  Proof. unfold frame, fixed_cell. intros (Hv & Ht & _) H n. rewrite Hv, Ht. apply H. Qed.

  Lemma fixed_changes_only_by_set s o c :
    bulk_op o = true -> fixed_cell s c -> hget c (heap (step s o)) = hget c (heap s).
  Proof.
    intros Hb Hf. cut (fk c s (step s o)); [intros [_ K]; exact K|].
    destruct o; simpl in Hb; try discriminate; simpl.
    - split; [apply frame_set_bnd|reflexivity].
    - split; [apply frame_set_bnd|reflexivity].
    - (* SetAllList *)
      unfold set_all_list. apply (fold_inv (fk c s)); [apply fk_refl|].
      intros s' x Hx Hs. eapply fk_trans; [exact Hs|]. apply fk_write.
      destruct Hs as [F _]. apply (fixed_cell_frame c _ _ F Hf).
      destruct F as (_ & -> & _). destruct x as [n vv]. apply in_combine_l in Hx. exact Hx.
    - (* Refresh *)
      unfold refresh.
      assert (W : forall s' n, fk c s s' -> smem n (trainable s') = true -> fk c s (write_o o n s')).
      { intros s' n Hs Hn. eapply fk_trans; [exact Hs|]. unfold write_o.
        destruct (dget n o); [|apply fk_refl]. apply fk_write.
        destruct Hs as [F _]. apply (fixed_cell_frame c _ _ F Hf). apply smem_In. exact Hn. }
      apply (fold_inv (fk c s)).
      apply (fold_inv (fk c s)).
      apply (fold_inv (fk c s)); [apply fk_refl|].
      + intros s' x _ Hs.
        destruct (smem (nr (fst x)) (trainable s')) eqn:E1.
        * destruct (smem (ni (fst x)) (trainable (write_o o (nr (fst x)) s'))) eqn:E2.
          -- apply W; [apply W; assumption|exact E2].
          -- apply W; assumption.
        * destruct (smem (ni (fst x)) (trainable s')) eqn:E2; [apply W; assumption|exact Hs].
      + intros s' n Hn Hs. destruct (dget n (initv s')); [|exact Hs].
        eapply fk_trans; [exact Hs|]. apply fk_write.
        (* n is a free name of the state after phase 1, whose trainable list is that of s *)
        match goal with |- dget n (vars s') <> Some c => idtac end.
        destruct Hs as [F _]. apply (fixed_cell_frame c _ _ F Hf).
        destruct F as (_ & -> & _).
        match type of Hn with In n (trainable ?s1) =>
          assert (F1 : frame s s1) by
            (apply frame_fold; intros s2 x;
             destruct (smem (nr (fst x)) (trainable s2));
             [destruct (smem (ni (fst x)) (trainable (write_o o (nr (fst x)) s2)));
              [eapply frame_trans; apply frame_write_o|apply frame_write_o]
             |destruct (smem (ni (fst x)) (trainable s2)); [apply frame_write_o|apply frame_refl]]) end.
        destruct F1 as (_ & E & _). rewrite <- E. exact Hn.
      + intros s' n _ Hs.
        destruct (negb (dmem n (initv s')) && smem n (trainable s')) eqn:E; [|exact Hs].
        apply andb_prop in E. destruct E as [_ E]. apply W; assumption.
  Qed.

  (* an explicit assignment touches only the cell of the named parameter *)
  Lemma explicit_set_only_target s n v vb vif c :
    dget n (vars s) <> Some c -> hget c (heap (step s (SetV n v vb vif))) = hget c (heap s).
  Proof. intros H. simpl. unfold set_v. apply keeps_write. exact H. Qed.

  Lemma explicit_set_all_only_targets s kv vif c :
    (forall x, In x kv -> dget (fst x) (vars s) <> Some c) ->
    hget c (heap (step s (SetAllDict kv vif))) = hget c (heap s).
  Proof.
    intros H. simpl. unfold set_all_dict.
    cut (fk c s (fold_left (fun s x => set_v (fst x) (fst (snd x)) (snd (snd x)) vif s) kv s)); [intros [_ K]; exact K|].
    apply (fold_inv (fk c s)); [apply fk_refl|].
    intros s' x Hx Hs. eapply fk_trans; [exact Hs|]. apply fk_write.
    destruct Hs as [(-> & _) _]. apply H. exact Hx.
  Qed.
End Machine.

(* ---------------------------------------------------------------- a tied group counts once *)
Section Count.
  Context {V : Type}.
  Notation state := (state V).
  Notation op := (op V).
  Implicit Types s : state.

  (* at most one free name per cell *)
  Definition one_per_cell s :=
    forall a b c, In a (trainable s) -> In b (trainable s) ->
                  dget a (vars s) = Some c -> dget b (vars s) = Some c -> a = b.
  Definition cells_below_next s := forall n c, dget n (vars s) = Some c -> (c < next s)%Z.
  Definition free_exist s := forall n, In n (trainable s) -> dget n (vars s) <> None.
  Definition count_inv s := NoDup (trainable s) /\ one_per_cell s /\ cells_below_next s /\ free_exist s.

  Lemma count_inv_init : count_inv (@init V).
  Proof.
    unfold count_inv, one_per_cell, cells_below_next, free_exist. simpl.
    split; [constructor|]. split; [intros; tauto|]. split; [intros; discriminate|intros; tauto].
  Qed.

  Lemma count_inv_frame s s' : frame s s' -> count_inv s -> count_inv s'.
  Proof.
    unfold frame, count_inv, one_per_cell, cells_below_next, free_exist.
    intros (Hv & Ht & Hn & _) H. rewrite Hv, Ht, Hn. exact H.
  Qed.

  (* changing only heap / flags / bounds / groups keeps the invariant *)
  Lemma count_inv_ext s s' :
    vars s' = vars s -> trainable s' = trainable s -> next s' = next s -> count_inv s -> count_inv s'.
  Proof.
    unfold count_inv, one_per_cell, cells_below_next, free_exist.
    intros Hv Ht Hn H. rewrite Hv, Ht, Hn. exact H.
  Qed.

  Lemma NoDup_app_intro_single (l : list name) n : NoDup l -> ~ In n l -> NoDup (l ++ [n]).
  Proof.
    induction 1 as [|x t Hx Ht IH]; simpl; intros Hn.
    - constructor; [tauto|constructor].
    - constructor.
      + intros H. apply in_app_or in H. destruct H as [H|[H|[]]]; [auto|]. apply Hn. left. congruence.
      + apply IH. intros H. apply Hn. right. exact H.
  Qed.

  Lemma dmem_false_dget {A} n (d : list (name * A)) : dmem n d = false -> dget n d = None.
  Proof. unfold dmem. destruct (dget n d); [discriminate|reflexivity]. Qed.
  Lemma dmem_true_dget {A} n (d : list (name * A)) : dmem n d = true -> dget n d <> None.
  Proof. unfold dmem. destruct (dget n d); [discriminate|intros; discriminate]. Qed.

  Lemma count_add_real n v e tr s : count_inv s -> count_inv (add_real n v e tr s).
  Proof.
    intros (Hnd & Hone & Hlt & Hex).
    set (t1 := if dmem n (vars s) then lremove n (trainable s) else trainable s).
    assert (Ht1 : NoDup t1 /\ ~ In n t1 /\ (forall x, In x t1 -> In x (trainable s))).
    { unfold t1. destruct (dmem n (vars s)) eqn:E.
      - split; [apply lremove_NoDup; exact Hnd|]. split; [apply lremove_notin; exact Hnd|].
        intros x. apply lremove_incl.
      - split; [exact Hnd|]. split; [|tauto].
        intros Hin. apply (Hex n Hin). apply dmem_false_dget. exact E. }
    destruct Ht1 as (Hnd1 & Hn1 & Hsub).
    assert (Hin' : forall x, In x (if tr then t1 ++ [n] else t1) -> x = n \/ (x <> n /\ In x (trainable s))).
    { intros x Hx. destruct (String.eqb x n) eqn:E; [left; apply seqb_eq; exact E|right].
      apply seqb_neq in E. split; [exact E|]. destruct tr; [apply in_app_or in Hx; destruct Hx as [Hx|[Hx|[]]]; [auto|congruence]|auto]. }
    unfold add_real. fold t1. unfold count_inv, one_per_cell, cells_below_next, free_exist. simpl.
    repeat split.
    - destruct tr; [|exact Hnd1]. apply NoDup_app_intro_single; assumption.
    - intros a b c Ha Hb. rewrite !dget_dset.
      destruct (Hin' a Ha) as [->|[Na Ia]]; destruct (Hin' b Hb) as [->|[Nb Ib]]; auto.
      + rewrite seqb_refl. apply seqb_neq in Nb. rewrite Nb. intros H1 H2. injection H1 as <-.
        apply Hlt in H2. lia.
      + rewrite seqb_refl. apply seqb_neq in Na. rewrite Na. intros H1 H2. injection H2 as <-.
        apply Hlt in H1. lia.
      + apply seqb_neq in Na. apply seqb_neq in Nb. rewrite Na, Nb. apply Hone; assumption.
    - intros m c. rewrite dget_dset. destruct (String.eqb m n).
      + intros H. injection H as <-. lia.
      + intros H. apply Hlt in H. lia.
    - intros m Hm. rewrite dget_dset. destruct (String.eqb m n) eqn:E; [discriminate|].
      apply seqb_neq in E. destruct (Hin' m Hm) as [->|[_ I]]; [congruence|apply Hex; exact I].
  Qed.

  Lemma count_add_complex n p tr vr vi s : count_inv s -> count_inv (add_complex n p tr vr vi s).
  Proof.
    intros H. unfold add_complex.
    eapply count_inv_ext; [| | |apply count_add_real; apply count_add_real; exact H]; reflexivity.
  Qed.

  Lemma unfix_safe_spec s n c :
    unfix_safe s n = true -> dget n (vars s) = Some c ->
    forall m, In m (trainable s) -> dget m (vars s) = Some c -> m = n.
  Proof.
    unfold unfix_safe. intros H Hc. rewrite Hc in H. rewrite forallb_forall in H.
    intros m Hm Hmc. specialize (H m Hm). rewrite Hmc in H.
    apply orb_prop in H. destruct H as [H|H]; [apply seqb_eq; exact H|].
    rewrite Z.eqb_refl in H. discriminate.
  Qed.

  Lemma filter_nil_false {A} (f : A -> bool) l x : filter f l = [] -> In x l -> f x = false.
  Proof.
    intros H Hx. destruct (f x) eqn:E; [|reflexivity].
    assert (In x (filter f l)) by (apply filter_In; split; assumption). rewrite H in *. contradiction.
  Qed.

  Lemma count_set_fix n v vb u s : count_inv s -> count_inv (set_fix n v vb u s).
  Proof.
    intros (Hnd & Hone & Hlt & Hex). unfold set_fix.
    destruct (dget n (vars s)) as [c|] eqn:Ec; [|repeat split; assumption].
    unfold count_inv, one_per_cell, cells_below_next, free_exist. simpl.
    destruct u.
    - destruct (filter (fun i => cell_eqb s i c) (trainable s)) as [|x0 l0] eqn:El.
      + assert (Hno : forall m, In m (trainable s) -> dget m (vars s) <> Some c).
        { intros m Hm Hc. pose proof (filter_nil_false _ _ m El Hm) as F. unfold cell_eqb in F.
          rewrite Hc, Z.eqb_refl in F. discriminate. }
        repeat split.
        * apply NoDup_app_intro_single; [exact Hnd|]. intros Hn. exact (Hno n Hn Ec).
        * intros a b c0 Ha Hb Hca Hcb.
          apply in_app_or in Ha. apply in_app_or in Hb.
          destruct Ha as [Ha|[Ea|[]]]; destruct Hb as [Hb|[Eb|[]]].
          -- eapply Hone; eauto.
          -- exfalso. rewrite <- Eb in Hcb. rewrite Ec in Hcb. injection Hcb as Hcb. subst c0. exact (Hno a Ha Hca).
          -- exfalso. rewrite <- Ea in Hca. rewrite Ec in Hca. injection Hca as Hca. subst c0. exact (Hno b Hb Hcb).
          -- congruence.
        * exact Hlt.
        * intros m Hm. apply in_app_or in Hm. destruct Hm as [Hm|[Emn|[]]]; [auto|subst m; congruence].
      + repeat split; assumption.
    - repeat split.
      + apply NoDup_filter. exact Hnd.
      + intros a b c0 Ha Hb. apply filter_In in Ha. apply filter_In in Hb. apply Hone; [apply Ha|apply Hb].
      + exact Hlt.
      + intros m Hm. apply filter_In in Hm. apply Hex. apply Hm.
  Qed.

  (* the trainable-list part of same_real *)
  Definition sr_fold (h : name) (rest t : list name) :=
    fold_left (fun t n => if smem n t then lremove n t else lremove h t) rest t.
  Lemma sr_fold_incl h rest : forall t x, In x (sr_fold h rest t) -> In x t.
  Proof.
    unfold sr_fold. induction rest as [|n r IH]; intros t x; simpl; [tauto|].
    intros H. apply IH in H. destruct (smem n t); eapply lremove_incl; eauto.
  Qed.
  Lemma sr_fold_NoDup h rest : forall t, NoDup t -> NoDup (sr_fold h rest t).
  Proof.
    unfold sr_fold. induction rest as [|n r IH]; intros t Ht; simpl; [exact Ht|].
    apply IH. destruct (smem n t); apply lremove_NoDup; exact Ht.
  Qed.
  Lemma sr_fold_removes h rest : forall t n, NoDup t -> In n rest -> ~ In n (sr_fold h rest t).
  Proof.
    unfold sr_fold. induction rest as [|m r IH]; intros t n Ht; simpl; [tauto|].
    intros [<-|Hn].
    - intros H. apply (sr_fold_incl h r) in H. destruct (smem m t) eqn:E.
      + revert H. apply lremove_notin. exact Ht.
      + apply smem_false in E. apply E. eapply lremove_incl; eauto.
    - apply IH; [|exact Hn]. destruct (smem m t); apply lremove_NoDup; exact Ht.
  Qed.

  (* the joint fold of same_real: its list part is sr_fold, its state part only writes values *)
  Lemma frame_copy_val a b s : frame s (copy_val a b s).
  Proof. unfold copy_val. destruct (read s a); [apply frame_write|apply frame_refl]. Qed.
  Lemma sr_pair_fold h rest : forall t s,
    fst (fold_left (sr_step h) rest (t, s)) = sr_fold h rest t /\
    frame s (snd (fold_left (sr_step h) rest (t, s))).
  Proof.
    unfold sr_fold. induction rest as [|n r IH]; intros t s; simpl; [split; [reflexivity|apply frame_refl]|].
    assert (E0 : sr_step h (t, s) n = if smem n t then (lremove n t, s)
                 else (lremove h t, if smem h t then copy_val n h s else s)) by reflexivity.
    rewrite E0. clear E0. destruct (smem n t).
    - apply IH.
    - destruct (IH (lremove h t) (if smem h t then copy_val n h s else s)) as [E F]. split; [exact E|].
      eapply frame_trans; [|exact F]. destruct (smem h t); [apply frame_copy_val|apply frame_refl].
  Qed.

  Lemma dget_fold_dset_cell (c : Z) l : forall vs k,
    dget k (fold_left (fun vs n => dset n c vs) l vs) = if smem k l then Some c else dget k vs.
  Proof.
    induction l as [|i l IH]; intros vs k; simpl; [reflexivity|].
    rewrite IH, dget_dset, String.eqb_sym.
    destruct (String.eqb i k); simpl; destruct (smem k l); reflexivity.
  Qed.

  Lemma count_same_real l0 s : count_inv s -> count_inv (same_real l0 s).
  Proof.
    intros (Hnd & Hone & Hlt & Hex). unfold same_real.
    destruct (filter (fun i => dmem i (vars s)) l0) as [|h rest] eqn:El; [repeat split; assumption|].
    destruct (dget h (vars s)) as [c|] eqn:Ec; [|repeat split; assumption].
    destruct (sr_pair_fold h rest (trainable s) s) as [Et (Fv & _ & Fn & _)].
    unfold count_inv, one_per_cell, cells_below_next, free_exist, set_vars, set_train.
    cbn [vars trainable next heap cplx same bnd initv polar].
    rewrite Et, Fv, Fn.
    assert (Hl : forall x, In x (h :: rest) -> dget x (vars s) <> None).
    { intros x Hx. rewrite <- El in Hx. apply filter_In in Hx. destruct Hx as [_ Hx].
      apply dmem_true_dget. exact Hx. }
    repeat split.
    - apply sr_fold_NoDup. exact Hnd.
    - intros a b c0 Ha Hb. rewrite !dget_fold_dset_cell.
      assert (Hin : forall x, In x (sr_fold h rest (trainable s)) -> smem x (h :: rest) = true -> x = h).
      { intros x Hx Hm. apply smem_In in Hm. destruct Hm as [<-|Hm]; [reflexivity|].
        exfalso. revert Hx. apply sr_fold_removes; assumption. }
      pose proof (sr_fold_incl _ _ _ _ Ha) as Ia. pose proof (sr_fold_incl _ _ _ _ Hb) as Ib.
      destruct (smem a (h :: rest)) eqn:Ea; destruct (smem b (h :: rest)) eqn:Eb.
      + intros _ _. rewrite (Hin a Ha Ea), (Hin b Hb Eb). reflexivity.
      + intros H1 H2. injection H1 as <-. rewrite (Hin a Ha Ea) in *.
        exfalso. assert (b = h) by (eapply Hone; eauto). subst b.
        simpl in Eb. rewrite seqb_refl in Eb. discriminate.
      + intros H1 H2. injection H2 as <-. rewrite (Hin b Hb Eb) in *.
        exfalso. assert (a = h) by (eapply Hone; eauto). subst a.
        simpl in Ea. rewrite seqb_refl in Ea. discriminate.
      + apply Hone; assumption.
    - intros m c0. rewrite dget_fold_dset_cell. destruct (smem m (h :: rest)).
      + intros H. injection H as <-. eapply Hlt; eauto.
      + apply Hlt.
    - intros m Hm. rewrite dget_fold_dset_cell. destruct (smem m (h :: rest)); [discriminate|].
      apply Hex. eapply sr_fold_incl; eauto.
  Qed.

  Lemma count_set_same ns cx s : count_inv s -> count_inv (set_same ns cx s).
  Proof.
    intros H. unfold set_same.
    destruct (collect ns (vars s) (same s) [] []) as [[gs tmp] heads].
    set (s1 := set_groups gs s).
    assert (H1 : count_inv s1) by (eapply count_inv_ext; [| | |exact H]; reflexivity).
    destruct cx.
    - eapply count_inv_ext; [| | |apply count_same_real; apply count_same_real; exact H1]; reflexivity.
    - eapply count_inv_ext; [| | |apply count_same_real; exact H1]; reflexivity.
  Qed.

  Lemma count_step s o : count_safe s o = true -> count_inv s -> count_inv (step s o).
  Proof.
    intros Hs H.
    destruct (value_op o) eqn:Ev; [eapply count_inv_frame; [apply value_op_frame; exact Ev|exact H]|].
    destruct o; simpl in Ev; try discriminate; simpl.
    - apply count_add_real. exact H.
    - apply count_add_complex. exact H.
    - apply count_set_fix. exact H.
    - apply count_set_same. exact H.
    - (* ShareR *)
      unfold set_share_r. eapply count_inv_ext; [| | |apply count_set_same; eapply count_inv_frame;
        [apply (value_op_frame (ConvAll true ns o)); reflexivity|exact H]]; reflexivity.
  Qed.

  (* NoDup of the trainable list and one trainable name per cell, for every history *)
  Theorem tied_count_once h : forall s,
    count_inv s -> hist_ok count_safe s h = true -> count_inv (run s h).
  Proof.
    induction h as [|o t IH]; intros s Hs; simpl; [auto|].
    intros H. apply andb_prop in H. destruct H as [Ho Ht].
    apply IH; [apply count_step; assumption|exact Ht].
  Qed.
End Count.

(* ---------------------------------------------------------------- tied names read the same value *)
Section Ties.
  Context {V : Type}.
  Notation state := (state V).
  Notation op := (op V).
  Implicit Types s : state.

  Lemma find_group_none n gs : existsb (smem n) gs = false -> find_group n gs = None.
  Proof.
    induction gs as [|g t IH]; simpl; [reflexivity|].
    destruct (smem n g); simpl; [discriminate|exact IH].
  Qed.
  Lemma collect_nohit ns vs gs tmp heads :
    (forall n, In n ns -> find_group n gs = None) -> collect ns vs gs tmp heads = (gs, tmp, heads).
  Proof.
    induction ns as [|a ns IH]; simpl; intros H; [reflexivity|].
    destruct (dmem a vs); [rewrite (H a (or_introl eq_refl))|]; apply IH; intros; apply H; right; assumption.
  Qed.
  Lemma filter_all {A} (f : A -> bool) l : (forall x, In x l -> f x = true) -> filter f l = l.
  Proof.
    induction l as [|x t IH]; simpl; intros H; [reflexivity|].
    rewrite (H x (or_introl eq_refl)). f_equal. apply IH. intros; apply H; right; assumption.
  Qed.

  (* names sharing a cell read the same value, and value operations never re-point a name *)
  Lemma shared_cell_read s a b : dget a (vars s) = dget b (vars s) -> read s a = read s b.
  Proof. unfold read. intros ->. reflexivity. Qed.

  Lemma ties_persist s h a b :
    forallb value_op h = true -> dget a (vars s) = dget b (vars s) -> read (run s h) a = read (run s h) b.
  Proof.
    intros Hh E. apply shared_cell_read. destruct (value_ops_frame h s Hh) as (-> & _). exact E.
  Qed.

  (* same_real on names that all exist points every one of them to the cell of the first *)
  Lemma same_real_points h rest s c :
    (forall x, In x (h :: rest) -> dmem x (vars s) = true) -> dget h (vars s) = Some c ->
    forall k, dget k (vars (same_real (h :: rest) s)) = if smem k (h :: rest) then Some c else dget k (vars s).
  Proof.
    intros Hall Hc k. unfold same_real. rewrite (filter_all _ _ Hall). rewrite Hc.
    destruct (sr_pair_fold h rest (trainable s) s) as [_ (Fv & _)].
    unfold set_vars, set_train. cbn [vars]. rewrite Fv. apply dget_fold_dset_cell.
  Qed.

  Definition untied_reals (ns : list name) s :=
    forall n, In n ns -> dmem n (vars s) = true /\ in_groups n s = false.

  (* a fresh tie request (no name already tied): all names end up in one cell *)
  Lemma set_same_fresh_shares ns s :
    untied_reals ns s ->
    forall a b, In a ns -> In b ns ->
      dget a (vars (set_same ns false s)) = dget b (vars (set_same ns false s)) /\
      dget a (vars (set_same ns false s)) <> None.
  Proof.
    intros Hu a b Ha Hb. unfold set_same.
    rewrite collect_nohit by (intros n Hn; apply find_group_none; apply (Hu n Hn)).
    cbn [app]. rewrite (filter_all (fun i => negb (smem i [])) ns) by reflexivity.
    destruct ns as [|h rest]; [destruct Ha|].
    destruct (dget h (vars s)) as [c|] eqn:Ec.
    2:{ exfalso. destruct (Hu h (or_introl eq_refl)) as [Hd _]. unfold dmem in Hd. rewrite Ec in Hd. discriminate. }
    cbn [vars set_groups].
    rewrite !(same_real_points h rest (set_groups (same s) s) c); try assumption.
    - apply smem_In in Ha. apply smem_In in Hb. rewrite Ha, Hb. split; [reflexivity|discriminate].
    - intros x Hx. apply (Hu x Hx).
    - intros x Hx. apply (Hu x Hx).
  Qed.

  Theorem tied_read_equal s ns h :
    untied_reals ns s -> forallb value_op h = true ->
    forall a b, In a ns -> In b ns ->
      read (run (step s (SetSame ns false)) h) a = read (run (step s (SetSame ns false)) h) b.
  Proof.
    intros Hu Hh a b Ha Hb. apply ties_persist; [exact Hh|].
    simpl. apply (set_same_fresh_shares ns s Hu a b Ha Hb).
  Qed.

  (* complex ties: untied complex parameters whose components exist *)
  Definition untied_cplxs (ns : list name) s :=
    forall n, In n ns -> in_groups n s = false /\ dmem (nr n) (vars s) = true /\ dmem (ni n) (vars s) = true.

  Lemma smem_map_nr_ni a ns : smem (nr a) (map ni ns) = false.
  Proof.
    apply smem_false. intros H. apply in_map_iff in H. destruct H as [x [H _]].
    symmetry in H. exact (nr_ni_neq _ _ H).
  Qed.
  Lemma smem_map_ni_nr a ns : smem (ni a) (map nr ns) = false.
  Proof.
    apply smem_false. intros H. apply in_map_iff in H. destruct H as [x [H _]].
    exact (nr_ni_neq _ _ H).
  Qed.

  Lemma set_same_cplx_fresh_shares ns s :
    untied_cplxs ns s ->
    forall a b, In a ns -> In b ns ->
      let s' := set_same ns true s in
      dget (nr a) (vars s') = dget (nr b) (vars s') /\ dget (ni a) (vars s') = dget (ni b) (vars s').
  Proof.
    intros Hu a b Ha Hb. unfold set_same.
    rewrite collect_nohit by (intros n Hn; apply find_group_none; apply (Hu n Hn)).
    cbn [app]. rewrite (filter_all (fun i => negb (smem i [])) ns) by reflexivity.
    destruct ns as [|h rest]; [destruct Ha|].
    set (s1 := set_groups (same s) s).
    assert (Hr : forall x, In x (map nr (h :: rest)) -> dmem x (vars s1) = true).
    { intros x Hx. apply in_map_iff in Hx. destruct Hx as [y [<- Hy]]. apply (Hu y Hy). }
    destruct (dget (nr h) (vars s1)) as [cr|] eqn:Ecr.
    2:{ exfalso. specialize (Hr (nr h) (or_introl eq_refl)). unfold dmem in Hr. rewrite Ecr in Hr. discriminate. }
    set (s2 := same_real (map nr (h :: rest)) s1).
    assert (G2 : forall k, dget k (vars s2) = if smem k (map nr (h :: rest)) then Some cr else dget k (vars s1)).
    { intros k. apply (same_real_points (nr h) (map nr rest) s1 cr); assumption. }
    assert (Hi : forall x, In x (map ni (h :: rest)) -> dmem x (vars s2) = true).
    { intros x Hx. apply in_map_iff in Hx. destruct Hx as [y [<- Hy]].
      unfold dmem. rewrite G2, smem_map_ni_nr. apply (Hu y Hy). }
    destruct (dget (ni h) (vars s2)) as [ci|] eqn:Eci.
    2:{ exfalso. specialize (Hi (ni h) (or_introl eq_refl)). unfold dmem in Hi. rewrite Eci in Hi. discriminate. }
    cbv zeta. cbn [vars set_groups].
    assert (G3 : forall k, dget k (vars (same_real (map ni (h :: rest)) s2)) =
                           if smem k (map ni (h :: rest)) then Some ci else dget k (vars s2)).
    { intros k. apply (same_real_points (ni h) (map ni rest) s2 ci); assumption. }
    rewrite !G3, !smem_map_nr_ni, !G2.
    assert (Ma : forall x, In x (h :: rest) -> smem (nr x) (map nr (h :: rest)) = true /\ smem (ni x) (map ni (h :: rest)) = true).
    { intros x Hx. split; apply smem_In; apply in_map; exact Hx. }
    destruct (Ma a Ha) as [-> ->]. destruct (Ma b Hb) as [-> ->]. split; reflexivity.
  Qed.

  Theorem tied_read_equal_cplx s ns h :
    untied_cplxs ns s -> forallb value_op h = true ->
    forall a b, In a ns -> In b ns ->
      let s' := run (step s (SetSame ns true)) h in
      read s' (nr a) = read s' (nr b) /\ read s' (ni a) = read s' (ni b).
  Proof.
    intros Hu Hh a b Ha Hb. cbv zeta.
    destruct (set_same_cplx_fresh_shares ns s Hu a b Ha Hb) as [E1 E2].
    split; apply ties_persist; assumption.
  Qed.
End Ties.

Section Extend.
  Context {V : Type}.
  Implicit Types s : state V.
  (* a tie request that touches exactly one existing group g1 (head h1) whose members share a cell:
     afterwards the requested names and all members of g1 share that cell *)
  Lemma set_same_extends_group ns s gs' g1 h1 :
    collect ns (vars s) (same s) [] [] = (gs', g1, [h1]) ->
    (forall x, In x ns -> dmem x (vars s) = true) -> dmem h1 (vars s) = true ->
    (forall x, In x g1 -> dget x (vars s) = dget h1 (vars s)) ->
    forall a b, In a (ns ++ g1) -> In b (ns ++ g1) ->
      dget a (vars (set_same ns false s)) = dget b (vars (set_same ns false s)) /\
      dget a (vars (set_same ns false s)) <> None.
  Proof.
    intros Hc Hns Hh Hg a b Ha Hb. unfold set_same. rewrite Hc.
    cbn [app]. set (rest := filter (fun i => negb (smem i g1)) ns).
    destruct (dget h1 (vars s)) as [c|] eqn:Ec; [|unfold dmem in Hh; rewrite Ec in Hh; discriminate].
    cbn [vars set_groups].
    assert (Hall : forall x, In x (h1 :: rest) -> dmem x (vars (set_groups gs' s)) = true).
    { intros x [<-|Hx]; [exact Hh|]. apply filter_In in Hx. apply Hns. apply Hx. }
    rewrite !(same_real_points h1 rest (set_groups gs' s) c Hall Ec).
    assert (K : forall k, In k (ns ++ g1) ->
                (if smem k (h1 :: rest) then Some c else dget k (vars (set_groups gs' s))) = Some c).
    { intros k Hk. destruct (smem k (h1 :: rest)) eqn:E; [reflexivity|].
      apply smem_false in E. cbn [vars set_groups].
      apply in_app_or in Hk. destruct Hk as [Hk|Hk].
      - destruct (smem k g1) eqn:Eg.
        + apply smem_In in Eg. rewrite (Hg k Eg). reflexivity.
        + exfalso. apply E. right. apply filter_In. split; [exact Hk|]. rewrite Eg. reflexivity.
      - rewrite (Hg k Hk). reflexivity. }
    rewrite (K a Ha), (K b Hb). split; [reflexivity|discriminate].
  Qed.
End Extend.

(* ---------------------------------------------------------------- polar <-> Cartesian *)
Section Polar.
  Context {V C : Type} (cv : bool -> V -> V -> C).
  Notation state := (state V).
  Implicit Types s : state.

  (* the complex value of parameter n: cv flag (first component) (second component) *)
  Definition cvalue s (n : name) : option C :=
    match dget n (cplx s), read s (nr n), read s (ni n) with
    | Some f, Some a, Some b => Some (cv f a b)
    | _, _, _ => None
    end.
  Definition group_of (n : name) s : list name :=
    match find_group n (same s) with Some g => g | None => [] end.

  (* complex parameters that share a component cell share both, carry the same polar flag and sit
     in the tie group through which rp2xy/xy2rp propagate the flag; everything else is disjoint *)
  Definition flags_consistent s :=
    forall n fn cr ci,
      dget n (cplx s) = Some fn -> dget (nr n) (vars s) = Some cr -> dget (ni n) (vars s) = Some ci ->
      cr <> ci /\
      forall m fm, m <> n -> dget m (cplx s) = Some fm ->
        if smem m (group_of n s)
        then dget (nr m) (vars s) = Some cr /\ dget (ni m) (vars s) = Some ci /\ fm = fn
        else dget (nr m) (vars s) <> Some cr /\ dget (nr m) (vars s) <> Some ci /\
             dget (ni m) (vars s) <> Some cr /\ dget (ni m) (vars s) <> Some ci.

  Lemma read_two_writes s n1 n2 o1 o2 c1 c2 a fa b fb :
    dget n1 (vars s) = Some c1 -> dget n2 (vars s) = Some c2 -> c1 <> c2 ->
    hget c1 (heap s) = Some (a, fa) -> hget c2 (heap s) = Some (b, fb) ->
    forall x cx, dget x (vars s) = Some cx ->
      read (write n2 o2 (write n1 o1 s)) x =
      if Z.eqb cx c1 then Some o1 else if Z.eqb cx c2 then Some o2 else read s x.
  Proof.
    intros H1 H2 Hn Ha Hb x cx Hx.
    unfold write at 2. rewrite H1. unfold write. cbn [vars set_heap]. rewrite H2.
    unfold read. cbn [vars heap set_heap]. rewrite Hx.
    destruct (Z.eqb cx c1) eqn:E1.
    - apply Z.eqb_eq in E1. subst cx.
      rewrite hget_hset_val_other by exact Hn.
      rewrite (hget_hset_val_same _ _ _ _ _ Ha). reflexivity.
    - apply Z.eqb_neq in E1. destruct (Z.eqb cx c2) eqn:E2.
      + apply Z.eqb_eq in E2. subst cx.
        assert (Hb' : hget c2 (hset_val c1 o1 (heap s)) = Some (b, fb))
          by (rewrite hget_hset_val_other by congruence; exact Hb).
        rewrite (hget_hset_val_same _ _ _ _ _ Hb'). reflexivity.
      + apply Z.eqb_neq in E2. rewrite !hget_hset_val_other by congruence. reflexivity.
  Qed.

  Lemma dget_propagate n t s m :
    dget m (propagate n t (set_cplx (dset n t (cplx s)) s)) =
    if smem m (group_of n s) then Some t else if String.eqb m n then Some t else dget m (cplx s).
  Proof.
    unfold propagate, group_of. cbn [same cplx set_cplx].
    destruct (find_group n (same s)) as [g|].
    - rewrite dget_fold_dset. destruct (smem m g); [reflexivity|]. apply dget_dset.
    - simpl. apply dget_dset.
  Qed.

  (* one rp2xy / xy2rp call keeps the complex value of EVERY complex parameter, provided the two
     values the code assigned satisfy the conversion contract (oracle: cos/sin resp. sqrt/atan2) *)
  Theorem polar_switch_preserves_value s t n o zn :
    flags_consistent s -> cvalue s n = Some zn ->
    (forall a b, read s (nr n) = Some a -> read s (ni n) = Some b -> cv t (fst o) (snd o) = cv (negb t) a b) ->
    forall m z, cvalue s m = Some z -> cvalue (conv t n o s) m = Some z.
  Proof.
    intros FC Hn Hor m z Hm. unfold conv.
    destruct (dget n (cplx s)) as [f|] eqn:Ef; [|exact Hm].
    destruct (Bool.eqb f t) eqn:Eft; [exact Hm|].
    assert (Hf : f = negb t) by (destruct f, t; simpl in Eft |- *; try reflexivity; discriminate).
    (* the cells of n *)
    unfold cvalue in Hn. rewrite Ef in Hn.
    destruct (read s (nr n)) as [a|] eqn:Ra; [|discriminate].
    destruct (read s (ni n)) as [b|] eqn:Rb; [|discriminate].
    pose proof Ra as Ra'. pose proof Rb as Rb'. unfold read in Ra', Rb'.
    destruct (dget (nr n) (vars s)) as [cr|] eqn:Ecr; [|discriminate].
    destruct (dget (ni n) (vars s)) as [ci|] eqn:Eci; [|discriminate].
    destruct (hget cr (heap s)) as [[a0 fa]|] eqn:Ha; [|discriminate]. injection Ra' as ->.
    destruct (hget ci (heap s)) as [[b0 fb]|] eqn:Hb; [|discriminate]. injection Rb' as ->.
    destruct (FC n f cr ci Ef Ecr Eci) as [Hne Hoth].
    pose proof (read_two_writes s (nr n) (ni n) (fst o) (snd o) cr ci a fa b fb Ecr Eci Hne Ha Hb) as RW.
    set (s1 := write (ni n) (snd o) (write (nr n) (fst o) s)) in *.
    assert (Hv1 : vars s1 = vars s).
    { unfold s1. destruct (frame_trans _ _ _ (frame_write (nr n) (fst o) s) (frame_write (ni n) (snd o) _)) as (E & _). exact E. }
    assert (Hc1 : cplx s1 = cplx s).
    { unfold s1, write. destruct (dget (nr n) (vars s)); cbn [vars set_heap];
        destruct (dget (ni n) (vars s)); reflexivity. }
    assert (Hs1 : same s1 = same s).
    { unfold s1. destruct (frame_trans _ _ _ (frame_write (nr n) (fst o) s) (frame_write (ni n) (snd o) _)) as (_ & _ & _ & E & _). exact E. }
    (* flags after the call *)
    assert (FL : forall k, dget k (cplx (set_cplx (propagate n t (set_cplx (dset n t (cplx s1)) s1))
                                                  (set_cplx (dset n t (cplx s1)) s1))) =
                           if smem k (group_of n s) then Some t else if String.eqb k n then Some t else dget k (cplx s)).
    { intros k. cbn [cplx set_cplx]. rewrite dget_propagate. unfold group_of. rewrite Hs1, Hc1. reflexivity. }
    (* reads after the call *)
    assert (RD : forall x, read (set_cplx (propagate n t (set_cplx (dset n t (cplx s1)) s1))
                                         (set_cplx (dset n t (cplx s1)) s1)) x = read s1 x) by reflexivity.
    unfold cvalue. rewrite FL, !RD.
    unfold cvalue in Hm.
    destruct (dget m (cplx s)) as [fm|] eqn:Efm; [|discriminate].
    destruct (read s (nr m)) as [am|] eqn:Ram; [|discriminate].
    destruct (read s (ni m)) as [bm|] eqn:Rbm; [|discriminate].
    injection Hm as <-.
    destruct (String.eqb m n) eqn:Emn.
    - (* the converted parameter itself *)
      apply seqb_eq in Emn. subst m.
      rewrite (RW (nr n) cr Ecr), (RW (ni n) ci Eci), Z.eqb_refl.
      assert (E : Z.eqb ci cr = false) by (apply Z.eqb_neq; congruence). rewrite E, Z.eqb_refl.
      rewrite Ef in Efm. injection Efm as <-. rewrite Ra in Ram. rewrite Rb in Rbm.
      injection Ram as <-. injection Rbm as <-.
      destruct (smem n (group_of n s)); rewrite (Hor a b eq_refl eq_refl), Hf; reflexivity.
    - apply seqb_neq in Emn. specialize (Hoth m fm Emn Efm).
      destruct (smem m (group_of n s)) eqn:Eg.
      + (* tied to it: same cells, same old flag *)
        destruct Hoth as (Hr & Hi & ->).
        rewrite (RW (nr m) cr Hr), (RW (ni m) ci Hi), Z.eqb_refl.
        assert (E : Z.eqb ci cr = false) by (apply Z.eqb_neq; congruence). rewrite E, Z.eqb_refl.
        assert (am = a) by (unfold read in Ram, Ra; rewrite Hr in Ram; rewrite Ecr in Ra; congruence).
        assert (bm = b) by (unfold read in Rbm, Rb; rewrite Hi in Rbm; rewrite Eci in Rb; congruence).
        subst am bm. rewrite (Hor a b eq_refl eq_refl), Hf. reflexivity.
      + (* unrelated: different cells, flag untouched *)
        destruct Hoth as (H1 & H2 & H3 & H4).
        assert (R1 : read s1 (nr m) = Some am).
        { pose proof Ram as Q. unfold read in Q. destruct (dget (nr m) (vars s)) as [cx|] eqn:Ex; [|discriminate].
          rewrite (RW (nr m) cx Ex).
          assert (E1 : Z.eqb cx cr = false) by (apply Z.eqb_neq; congruence).
          assert (E2 : Z.eqb cx ci = false) by (apply Z.eqb_neq; congruence).
          rewrite E1, E2. exact Ram. }
        assert (R2 : read s1 (ni m) = Some bm).
        { pose proof Rbm as Q. unfold read in Q. destruct (dget (ni m) (vars s)) as [cx|] eqn:Ex; [|discriminate].
          rewrite (RW (ni m) cx Ex).
          assert (E1 : Z.eqb cx cr = false) by (apply Z.eqb_neq; congruence).
          assert (E2 : Z.eqb cx ci = false) by (apply Z.eqb_neq; congruence).
          rewrite E1, E2. exact Rbm. }
        rewrite R1, R2. reflexivity.
  Qed.

  (* the call keeps flags_consistent (so the theorem applies to the next call as well) *)
  Lemma conv_keeps_structure s t n o :
    vars (conv t n o s) = vars s /\ same (conv t n o s) = same s.
  Proof. destruct (frame_conv t n o s) as (E1 & _ & _ & E2 & _). split; assumption. Qed.
End Polar.

(* ---------------------------------------------------------------- composition over *_all and std_polar *)
Section PolarAll.
  Context {V C : Type} (cv : bool -> V -> V -> C).
  Notation state := (state V).
  Implicit Types s : state.

  (* tie groups behave like classes on the complex parameters: every member of the group through
     which a complex parameter propagates its flag is a complex parameter with the same group *)
  Definition groups_closed s :=
    forall n, dmem n (cplx s) = true -> forall m, In m (group_of n s) ->
      dmem m (cplx s) = true /\ group_of m s = group_of n s.

  Lemma find_group_In n gs g : find_group n gs = Some g -> In n g.
  Proof.
    induction gs as [|g0 t IH]; simpl; [discriminate|].
    destruct (smem n g0) eqn:E; [|exact IH]. intros H. injection H as <-. apply smem_In. exact E.
  Qed.
  Lemma group_of_self n m s : In m (group_of n s) -> In n (group_of n s).
  Proof.
    unfold group_of. destruct (find_group n (same s)) as [g|] eqn:E; [|intros []].
    intros _. eapply find_group_In; eauto.
  Qed.

  Lemma conv_effect s t n0 o f :
    dget n0 (cplx s) = Some f -> Bool.eqb f t = false ->
    vars (conv t n0 o s) = vars s /\ same (conv t n0 o s) = same s /\
    forall k, dget k (cplx (conv t n0 o s)) =
              if smem k (group_of n0 s) then Some t else if String.eqb k n0 then Some t else dget k (cplx s).
  Proof.
    intros Ef Eft.
    destruct (frame_conv t n0 o s) as (Hv & _ & _ & Hs & _).
    split; [exact Hv|]. split; [exact Hs|].
    intros k. unfold conv. rewrite Ef, Eft.
    set (s1 := write (ni n0) (snd o) (write (nr n0) (fst o) s)).
    assert (Hc1 : cplx s1 = cplx s).
    { unfold s1, write. destruct (dget (nr n0) (vars s)); cbn [vars set_heap];
        destruct (dget (ni n0) (vars s)); reflexivity. }
    assert (Hs1 : same s1 = same s).
    { unfold s1. destruct (frame_trans _ _ _ (frame_write (nr n0) (fst o) s) (frame_write (ni n0) (snd o) _)) as (_ & _ & _ & E & _). exact E. }
    cbn [cplx set_cplx]. rewrite dget_propagate. unfold group_of. rewrite Hs1, Hc1. reflexivity.
  Qed.

  Lemma conv_keeps_consistency s t n0 o :
    flags_consistent s -> groups_closed s ->
    flags_consistent (conv t n0 o s) /\ groups_closed (conv t n0 o s).
  Proof.
    intros FC GC.
    destruct (dget n0 (cplx s)) as [f|] eqn:Ef.
    2:{ unfold conv. rewrite Ef. split; assumption. }
    destruct (Bool.eqb f t) eqn:Eft.
    1:{ unfold conv. rewrite Ef, Eft. split; assumption. }
    destruct (conv_effect s t n0 o f Ef Eft) as (Hv & Hs & Hc).
    set (s' := conv t n0 o s) in *.
    assert (Hg : forall k, group_of k s' = group_of k s) by (intros k; unfold group_of; rewrite Hs; reflexivity).
    assert (Hn0 : dmem n0 (cplx s) = true) by (unfold dmem; rewrite Ef; reflexivity).
    (* membership in complex_vars is unchanged *)
    assert (Hm : forall k, dmem k (cplx s') = dmem k (cplx s)).
    { intros k. unfold dmem at 1. rewrite Hc.
      destruct (smem k (group_of n0 s)) eqn:E1.
      - apply smem_In in E1. destruct (GC n0 Hn0 k E1) as [-> _]. reflexivity.
      - destruct (String.eqb k n0) eqn:E2; [apply seqb_eq in E2; subst k; rewrite Hn0; reflexivity|reflexivity]. }
    (* "affected" is constant on groups *)
    assert (Aff : forall n m, dmem n (cplx s) = true -> In m (group_of n s) ->
                  (smem n (group_of n0 s) || String.eqb n n0) = (smem m (group_of n0 s) || String.eqb m n0)).
    { intros n m Hn Hmn.
      destruct (GC n Hn m Hmn) as [Hmc Hgm].
      pose proof (group_of_self n m s Hmn) as Hnn.
      assert (Hmm : In m (group_of m s)) by (rewrite Hgm; exact Hmn).
      apply Bool.eq_iff_eq_true. rewrite !orb_true_iff, !smem_In, !seqb_eq. split.
      - intros [H|H].
        + left. destruct (GC n0 Hn0 n H) as [_ E]. rewrite <- E. exact Hmn.
        + left. subst n. exact Hmn.
      - intros [H|H].
        + left. destruct (GC n0 Hn0 m H) as [_ E]. rewrite <- E, Hgm. exact Hnn.
        + left. subst m. rewrite Hgm. exact Hnn. }
    split.
    - intros n fn' cr ci Hfn Hcr Hci. rewrite Hv in Hcr, Hci.
      assert (Hnc : dmem n (cplx s) = true) by (rewrite <- Hm; unfold dmem; rewrite Hfn; reflexivity).
      destruct (dget n (cplx s)) as [fn|] eqn:Efn; [|unfold dmem in Hnc; rewrite Efn in Hnc; discriminate].
      destruct (FC n fn cr ci Efn Hcr Hci) as [Hne Hoth]. split; [exact Hne|].
      intros m fm' Hmn Hfm. rewrite Hv, Hg.
      assert (Hmc : dmem m (cplx s) = true) by (rewrite <- Hm; unfold dmem; rewrite Hfm; reflexivity).
      destruct (dget m (cplx s)) as [fm|] eqn:Efm; [|unfold dmem in Hmc; rewrite Efm in Hmc; discriminate].
      specialize (Hoth m fm Hmn Efm).
      destruct (smem m (group_of n s)) eqn:Eg; [|exact Hoth].
      destruct Hoth as (H1 & H2 & H3). split; [exact H1|]. split; [exact H2|].
      apply smem_In in Eg. pose proof (Aff n m Hnc Eg) as A.
      rewrite Hc in Hfn, Hfm. rewrite Efn in Hfn. rewrite Efm in Hfm.
      destruct (smem n (group_of n0 s)); destruct (smem m (group_of n0 s));
        destruct (String.eqb n n0); destruct (String.eqb m n0); simpl in A; try discriminate; congruence.
    - intros n Hn m Hmn. rewrite Hm in Hn. rewrite Hg in Hmn. rewrite Hm, !Hg. apply GC; assumption.
  Qed.

  (* contracts of the calls made by rp2xy_all / xy2rp_all, each relative to the state it sees *)
  Fixpoint contracts_ok (t : bool) (ns : list name) (o : list (name * (V * V))) s : Prop :=
    match ns with
    | [] => True
    | x :: r =>
      match dget x o with
      | Some ox =>
        (dmem x (cplx s) = true -> cvalue cv s x <> None) /\
        (forall a b, read s (nr x) = Some a -> read s (ni x) = Some b -> cv t (fst ox) (snd ox) = cv (negb t) a b) /\
        contracts_ok t r o (conv t x ox s)
      | None => contracts_ok t r o s
      end
    end.

  Lemma conv_fold_preserves t o : forall ns s,
    flags_consistent s -> groups_closed s -> contracts_ok t ns o s ->
    let s' := fold_left (fun s n => match dget n o with Some x => conv t n x s | None => s end) ns s in
    flags_consistent s' /\ groups_closed s' /\ forall m z, cvalue cv s m = Some z -> cvalue cv s' m = Some z.
  Proof.
    induction ns as [|x r IH]; intros s FC GC HC; simpl; [auto|].
    simpl in HC. destruct (dget x o) as [ox|]; [|apply IH; assumption].
    destruct HC as (Hex & Hor & HC).
    destruct (conv_keeps_consistency s t x ox FC GC) as [FC' GC'].
    destruct (IH _ FC' GC' HC) as (F2 & G2 & P2). split; [exact F2|]. split; [exact G2|].
    intros m z Hm. apply P2.
    destruct (dget x (cplx s)) as [f|] eqn:Ef.
    - assert (Hx : cvalue cv s x <> None) by (apply Hex; unfold dmem; rewrite Ef; reflexivity).
      destruct (cvalue cv s x) as [zx|] eqn:Ex; [|congruence].
      eapply polar_switch_preserves_value; eauto.
    - unfold conv. rewrite Ef. exact Hm.
  Qed.

  (* rp2xy_all / xy2rp_all keep the complex value of every complex parameter *)
  Theorem polar_switch_all_preserves_value s t ns o :
    flags_consistent s -> groups_closed s -> contracts_ok t (names_or_all ns s) o s ->
    forall m z, cvalue cv s m = Some z -> cvalue cv (conv_all t ns o s) m = Some z.
  Proof.
    intros FC GC HC m z Hm. unfold conv_all.
    destruct (conv_fold_preserves t o (names_or_all ns s) s FC GC HC) as (_ & _ & P).
    specialize (P m z Hm). unfold cvalue in *. exact P.
  Qed.

  (* rewriting the two cells of n with another representation of the same complex number in the
     same coordinates (std_polar's  r -> |r|, p -> p + pi) keeps every complex value *)
  Lemma rewrite_preserves_value s n r' p' f zn :
    flags_consistent s -> dget n (cplx s) = Some f -> cvalue cv s n = Some zn ->
    (forall a b, read s (nr n) = Some a -> read s (ni n) = Some b -> cv f r' p' = cv f a b) ->
    forall m z, cvalue cv s m = Some z -> cvalue cv (write (ni n) p' (write (nr n) r' s)) m = Some z.
  Proof.
    intros FC Ef Hn Hor m z Hm.
    unfold cvalue in Hn. rewrite Ef in Hn.
    destruct (read s (nr n)) as [a|] eqn:Ra; [|discriminate].
    destruct (read s (ni n)) as [b|] eqn:Rb; [|discriminate].
    pose proof Ra as Ra'. pose proof Rb as Rb'. unfold read in Ra', Rb'.
    destruct (dget (nr n) (vars s)) as [cr|] eqn:Ecr; [|discriminate].
    destruct (dget (ni n) (vars s)) as [ci|] eqn:Eci; [|discriminate].
    destruct (hget cr (heap s)) as [[a0 fa]|] eqn:Ha; [|discriminate]. injection Ra' as ->.
    destruct (hget ci (heap s)) as [[b0 fb]|] eqn:Hb; [|discriminate]. injection Rb' as ->.
    destruct (FC n f cr ci Ef Ecr Eci) as [Hne Hoth].
    pose proof (read_two_writes s (nr n) (ni n) r' p' cr ci a fa b fb Ecr Eci Hne Ha Hb) as RW.
    set (s1 := write (ni n) p' (write (nr n) r' s)) in *.
    assert (Hc1 : cplx s1 = cplx s).
    { unfold s1, write. destruct (dget (nr n) (vars s)); cbn [vars set_heap];
        destruct (dget (ni n) (vars s)); reflexivity. }
    unfold cvalue. rewrite Hc1. unfold cvalue in Hm.
    destruct (dget m (cplx s)) as [fm|] eqn:Efm; [|discriminate].
    destruct (read s (nr m)) as [am|] eqn:Ram; [|discriminate].
    destruct (read s (ni m)) as [bm|] eqn:Rbm; [|discriminate].
    injection Hm as <-.
    assert (E : Z.eqb ci cr = false) by (apply Z.eqb_neq; congruence).
    destruct (String.eqb m n) eqn:Emn.
    - apply seqb_eq in Emn. subst m.
      rewrite (RW (nr n) cr Ecr), (RW (ni n) ci Eci), Z.eqb_refl, E, Z.eqb_refl.
      rewrite Ef in Efm. injection Efm as <-. rewrite Ra in Ram. rewrite Rb in Rbm.
      injection Ram as <-. injection Rbm as <-. rewrite (Hor a b eq_refl eq_refl). reflexivity.
    - apply seqb_neq in Emn. specialize (Hoth m fm Emn Efm).
      destruct (smem m (group_of n s)) eqn:Eg.
      + destruct Hoth as (Hr & Hi & ->).
        rewrite (RW (nr m) cr Hr), (RW (ni m) ci Hi), Z.eqb_refl, E, Z.eqb_refl.
        assert (am = a) by (unfold read in Ram, Ra; rewrite Hr in Ram; rewrite Ecr in Ra; congruence).
        assert (bm = b) by (unfold read in Rbm, Rb; rewrite Hi in Rbm; rewrite Eci in Rb; congruence).
        subst am bm. rewrite (Hor a b eq_refl eq_refl). reflexivity.
      + destruct Hoth as (H1 & H2 & H3 & H4).
        assert (R1 : read s1 (nr m) = Some am).
        { pose proof Ram as Q. unfold read in Q. destruct (dget (nr m) (vars s)) as [cx|] eqn:Ex; [|discriminate].
          rewrite (RW (nr m) cx Ex).
          assert (E1 : Z.eqb cx cr = false) by (apply Z.eqb_neq; congruence).
          assert (E2 : Z.eqb cx ci = false) by (apply Z.eqb_neq; congruence).
          rewrite E1, E2. exact Ram. }
        assert (R2 : read s1 (ni m) = Some bm).
        { pose proof Rbm as Q. unfold read in Q. destruct (dget (ni m) (vars s)) as [cx|] eqn:Ex; [|discriminate].
          rewrite (RW (ni m) cx Ex).
          assert (E1 : Z.eqb cx cr = false) by (apply Z.eqb_neq; congruence).
          assert (E2 : Z.eqb cx ci = false) by (apply Z.eqb_neq; congruence).
          rewrite E1, E2. exact Rbm. }
        rewrite R1, R2. reflexivity.
  Qed.

  (* std_polar: xy2rp (contract 1) then, if the code saw r < 0, (|r|, p + pi) (contract 2) *)
  Lemma std_polar_mid_preserves_value s n o fl zn :
    flags_consistent s -> groups_closed s -> cvalue cv s n = Some zn ->
    (forall a b, read s (nr n) = Some a -> read s (ni n) = Some b -> cv true (fst o) (snd o) = cv false a b) ->
    (forall r' p' a b, fl = Some (r', p') ->
       read (conv true n o s) (nr n) = Some a -> read (conv true n o s) (ni n) = Some b ->
       cv true r' p' = cv true a b) ->
    forall m z, cvalue cv s m = Some z -> cvalue cv (std_polar_mid n o fl s) m = Some z.
  Proof.
    intros FC GC Hn H1 H2 m z Hm. unfold std_polar_mid.
    assert (P1 : forall k zk, cvalue cv s k = Some zk -> cvalue cv (conv true n o s) k = Some zk)
      by (intros k zk; eapply polar_switch_preserves_value; eauto).
    destruct fl as [[r' p']|]; [|apply P1; exact Hm].
    destruct (conv_keeps_consistency s true n o FC GC) as [FC' _].
    pose proof (P1 n zn Hn) as Hn'.
    assert (Ef' : dget n (cplx (conv true n o s)) = Some true).
    { unfold cvalue in Hn. destruct (dget n (cplx s)) as [f|] eqn:Ef; [|discriminate].
      destruct (Bool.eqb f true) eqn:Eft.
      - unfold conv. rewrite Ef, Eft. destruct f; [exact Ef|discriminate].
      - destruct (conv_effect s true n o f Ef Eft) as (_ & _ & Hc). rewrite Hc, seqb_refl.
        destruct (smem n (group_of n s)); reflexivity. }
    eapply rewrite_preserves_value; eauto.
  Qed.

  (* writes keep the state conditions (they only mention variables, flags and groups) *)
  Lemma flags_consistent_ext s s' :
    vars s' = vars s -> cplx s' = cplx s -> same s' = same s -> flags_consistent s -> flags_consistent s'.
  Proof. unfold flags_consistent, group_of. intros -> -> -> H. exact H. Qed.
  Lemma write_ext n v s :
    vars (write n v s) = vars s /\ cplx (write n v s) = cplx s /\ same (write n v s) = same s.
  Proof. unfold write. destruct (dget n (vars s)); repeat split. Qed.
  Lemma conv_flag_true s n o f : dget n (cplx s) = Some f -> dget n (cplx (conv true n o s)) = Some true.
  Proof.
    intros Ef. destruct (Bool.eqb f true) eqn:Eft.
    - unfold conv. rewrite Ef, Eft. destruct f; [exact Ef|discriminate].
    - destruct (conv_effect s true n o f Ef Eft) as (_ & _ & Hc). rewrite Hc, seqb_refl.
      destruct (smem n (group_of n s)); reflexivity.
  Qed.

  (* ... and finally the phase is replaced by its representative in [-pi, pi) (contract 3: the same
     complex number with the radius that is stored at that moment) *)
  Theorem std_polar_preserves_value s n o fl pw zn :
    flags_consistent s -> groups_closed s -> cvalue cv s n = Some zn ->
    (forall a b, read s (nr n) = Some a -> read s (ni n) = Some b -> cv true (fst o) (snd o) = cv false a b) ->
    (forall r' p' a b, fl = Some (r', p') ->
       read (conv true n o s) (nr n) = Some a -> read (conv true n o s) (ni n) = Some b ->
       cv true r' p' = cv true a b) ->
    (forall a b, read (std_polar_mid n o fl s) (nr n) = Some a -> read (std_polar_mid n o fl s) (ni n) = Some b ->
       cv true a pw = cv true a b) ->
    forall m z, cvalue cv s m = Some z -> cvalue cv (std_polar n o fl pw s) m = Some z.
  Proof.
    intros FC GC Hn H1 H2 H3 m z Hm. unfold std_polar.
    pose proof (std_polar_mid_preserves_value s n o fl zn FC GC Hn H1 H2) as P2.
    set (s2 := std_polar_mid n o fl s) in *.
    assert (X : vars s2 = vars (conv true n o s) /\ cplx s2 = cplx (conv true n o s) /\ same s2 = same (conv true n o s)).
    { unfold s2, std_polar_mid. destruct fl as [[r' p']|]; [|repeat split].
      destruct (write_ext (nr n) r' (conv true n o s)) as (A1 & A2 & A3).
      destruct (write_ext (ni n) p' (write (nr n) r' (conv true n o s))) as (B1 & B2 & B3).
      repeat split; congruence. }
    destruct X as (Xv & Xc & Xs).
    destruct (conv_keeps_consistency s true n o FC GC) as [FC' _].
    assert (FC2 : flags_consistent s2) by (eapply flags_consistent_ext; eauto).
    pose proof (P2 n zn Hn) as Hn2.
    assert (Ef2 : dget n (cplx s2) = Some true).
    { rewrite Xc. unfold cvalue in Hn. destruct (dget n (cplx s)) as [f|] eqn:Ef; [|discriminate].
      eapply conv_flag_true; eauto. }
    pose proof Hn2 as Hr. unfold cvalue in Hr. rewrite Ef2 in Hr.
    destruct (read s2 (nr n)) as [a|] eqn:Ra; [|discriminate].
    destruct (read s2 (ni n)) as [b|] eqn:Rb; [|discriminate].
    rewrite <- (write_same s2 (nr n) a Ra) at 1.
    eapply (rewrite_preserves_value s2 n a pw true zn); eauto.
    intros a' b' Ra' Rb'. rewrite Ra in Ra'. rewrite Rb in Rb'. injection Ra' as <-. injection Rb' as <-.
    apply H3; reflexivity.
  Qed.
End PolarAll.

(* ---------------------------------------------------------------- executable polar hypotheses are sound *)
Section FCBsound.
  Context {V : Type}.
  Implicit Types s : state V.

  Lemma names_eqb0_eq a b : names_eqb0 a b = true -> a = b.
  Proof.
    revert b. induction a as [|x a IH]; intros [|y b]; simpl; try discriminate; [reflexivity|].
    intros H. apply andb_prop in H. destruct H as [H1 H2]. apply seqb_eq in H1. subst. f_equal. auto.
  Qed.
  Lemma group_of_b_eq n s : group_of_b n s = group_of n s.
  Proof. reflexivity. Qed.
  Lemma cell_is_true s x c : cell_is s x c = true <-> dget x (vars s) = Some c.
  Proof.
    unfold cell_is. destruct (dget x (vars s)) as [c'|]; split; intros H; try discriminate.
    - apply Z.eqb_eq in H. subst. reflexivity.
    - injection H as ->. apply Z.eqb_refl.
  Qed.
  Lemma cell_is_false s x c : cell_is s x c = false <-> dget x (vars s) <> Some c.
  Proof.
    rewrite <- cell_is_true. destruct (cell_is s x c); split; intros H; try congruence; try (exfalso; apply H; reflexivity).
  Qed.
  Lemma dget_In_key {A} k (v : A) d : dget k d = Some v -> In (k, v) d.
  Proof. apply dget_In. Qed.

  Lemma flags_consistentb_sound s : flags_consistentb s = true -> flags_consistent s.
  Proof.
    unfold flags_consistentb. rewrite forallb_forall. intros H n fn cr ci Hfn Hcr Hci.
    specialize (H (n, fn) (dget_In _ _ _ Hfn)). simpl in H. rewrite Hfn, Hcr, Hci in H.
    apply andb_prop in H. destruct H as [H1 H2]. split.
    - apply negb_true_iff in H1. apply Z.eqb_neq in H1. exact H1.
    - intros m fm Hmn Hfm. rewrite forallb_forall in H2.
      specialize (H2 (m, fm) (dget_In _ _ _ Hfm)). simpl in H2. unfold fc_pair_ok in H2.
      apply seqb_neq in Hmn. rewrite Hmn, Hfm in H2. rewrite group_of_b_eq in H2.
      destruct (smem m (group_of n s)).
      + apply andb_prop in H2. destruct H2 as [H2 H3]. apply andb_prop in H2. destruct H2 as [H2 H4].
        apply cell_is_true in H2. apply cell_is_true in H4. apply Bool.eqb_prop in H3. auto.
      + apply andb_prop in H2. destruct H2 as [H2 H3]. apply andb_prop in H2. destruct H2 as [H2 H4].
        apply andb_prop in H2. destruct H2 as [H2 H5].
        apply negb_true_iff in H2, H3, H4, H5.
        apply cell_is_false in H2, H3, H4, H5. auto.
  Qed.

  Lemma groups_closedb_sound s : groups_closedb s = true -> groups_closed s.
  Proof.
    unfold groups_closedb. rewrite forallb_forall. intros H n Hn m Hm.
    unfold dmem in Hn. destruct (dget n (cplx s)) as [fn|] eqn:Efn; [|discriminate].
    specialize (H (n, fn) (dget_In _ _ _ Efn)). simpl in H. rewrite forallb_forall in H.
    rewrite group_of_b_eq in H. specialize (H m Hm). apply andb_prop in H. destruct H as [H1 H2].
    split; [exact H1|]. apply names_eqb0_eq in H2. exact H2.
  Qed.

  Lemma polar_safe_sound s : polar_safe s = true -> flags_consistent s /\ groups_closed s.
  Proof.
    unfold polar_safe. intros H. apply andb_prop in H. destruct H as [H1 H2].
    split; [apply flags_consistentb_sound|apply groups_closedb_sound]; assumption.
  Qed.
End FCBsound.


Lemma polar_hist_sound {V : Type} (safe : state V -> op V -> bool) : forall h (s : state V),
  hist_ok_inv safe polar_safe s h = true ->
  forall k, (k <= List.length h)%nat -> flags_consistent (run s (firstn k h)) /\ groups_closed (run s (firstn k h)).
Proof.
  induction h as [|o t IH]; intros s H k Hk; simpl in H.
  - destruct k; simpl; apply polar_safe_sound; exact H.
  - apply andb_prop in H. destruct H as [H Ht]. apply andb_prop in H. destruct H as [Hi _].
    destruct k as [|k]; simpl; [apply polar_safe_sound; exact Hi|].
    apply IH; [exact Ht|simpl in Hk; lia].
Qed.

(* ---------------------------------------------------------------- refutations (known findings) *)
From Coq Require Import Reals Lra.

Section Refutations.
  Open Scope R_scope.

  Lemma cos4_neg : cos 4 < 0.
  Proof. apply cos_lt_0; pose proof PI2_3_2; pose proof PI_4; lra. Qed.

  Definition cvR (f : bool) (a b : R) : R * R := if f then (a * cos b, a * sin b) else (a, b).

  (* F7: `var_equal` on the real component names of two complex parameters, then xy2rp_all.
     [r1 p1] / [r2 p2] are the values assigned by the first / second xy2rp call. *)
  Definition f7_prefix (x y : R) : list (op R) :=
    [AddComplex "a" (Some false) true 0 0; AddComplex "b" (Some false) true 0 0;
     SetAllDict [("ar", (x, x)); ("ai", (y, y)); ("br", (x, x)); ("bi", (y, y))] false;
     SetSame ["ar"; "br"] false; SetSame ["ai"; "bi"] false].
  Definition f7_history (x y r1 p1 r2 p2 : R) : list (op R) :=
    f7_prefix x y ++ [ConvAll true [] [("a", (r1, p1)); ("b", (r2, p2))]].

  Lemma f7_computation x y r1 p1 r2 p2 :
    cvalue cvR (run init (f7_prefix x y)) "a" = Some (x, y) /\
    cvalue cvR (run init (f7_prefix x y)) "b" = Some (x, y) /\
    (* what the second call (on b) reads: the polar values written by the first call *)
    read (step (run init (f7_prefix x y)) (Conv true "a" (r1, p1))) "br" = Some r1 /\
    read (step (run init (f7_prefix x y)) (Conv true "a" (r1, p1))) "bi" = Some p1 /\
    dget "b" (cplx (step (run init (f7_prefix x y)) (Conv true "a" (r1, p1)))) = Some false /\
    cvalue cvR (run init (f7_history x y r1 p1 r2 p2)) "a" = Some (r2 * cos p2, r2 * sin p2).
  Proof. vm_compute. repeat split. Qed.

  (* with every call satisfying its contract, a = 3+4i does not survive the switch *)
  Lemma polar_switch_refuted r1 p1 r2 p2 :
    r1 * cos p1 = 3 -> r1 * sin p1 = 4 ->          (* first call: converts (3,4) *)
    r2 * cos p2 = r1 -> r2 * sin p2 = p1 ->        (* second call: converts what it reads, (r1,p1) *)
    cvalue cvR (run init (f7_prefix 3 4)) "a" = Some (3, 4) /\
    cvalue cvR (run init (f7_history 3 4 r1 p1 r2 p2)) "a" = Some (r1, p1) /\
    (r1, p1) <> (3, 4).
  Proof.
    intros H1 H2 H3 H4.
    destruct (f7_computation 3 4 r1 p1 r2 p2) as (Ha & _ & _ & _ & _ & Hz).
    split; [exact Ha|]. split; [rewrite Hz, H3, H4; reflexivity|].
    intros E. injection E as -> ->.
    pose proof cos4_neg. lra.
  Qed.

  (* the contracts are satisfiable: polar coordinates exist *)
  Lemma polar_exists_pos x y : 0 < x -> exists r p, 0 < r /\ r * cos p = x /\ r * sin p = y.
  Proof.
    intros Hx. exists (sqrt (x * x + y * y)), (atan (y / x)).
    assert (Hs : 0 < x * x + y * y) by nra.
    assert (Hr : 0 < sqrt (x * x + y * y)) by (apply sqrt_lt_R0; exact Hs).
    assert (E : sqrt (1 + (y / x)²) = sqrt (x * x + y * y) / x).
    { replace (1 + (y / x)²) with ((x * x + y * y) / (x * x)) by (unfold Rsqr; field; lra).
      rewrite sqrt_div_alt by nra. rewrite sqrt_square by lra. reflexivity. }
    split; [exact Hr|]. rewrite cos_atan, sin_atan, E. split; field; lra.
  Qed.
  Lemma f7_contracts_satisfiable :
    exists r1 p1 r2 p2, r1 * cos p1 = 3 /\ r1 * sin p1 = 4 /\ r2 * cos p2 = r1 /\ r2 * sin p2 = p1.
  Proof.
    destruct (polar_exists_pos 3 4 ltac:(lra)) as (r1 & p1 & Hr & A & B).
    destruct (polar_exists_pos r1 p1 Hr) as (r2 & p2 & _ & C & D).
    exists r1, p1, r2, p2. repeat split; assumption.
  Qed.

  (* F12: two complex tie groups sharing a member; rp2xy_all converts the shared cells twice *)
  Definition f12_prefix (r p : R) : list (op R) :=
    [AddComplex "h" (Some true) true 0 0; AddComplex "j1" (Some true) true 0 0; AddComplex "j2" (Some true) true 0 0;
     SetSame ["h"; "j1"] true; SetSame ["h"; "j2"] true;
     SetAllDict [("hr", (r, r)); ("hi", (p, p))] false].
  Definition f12_history (r p x1 y1 x2 y2 : R) : list (op R) :=
    f12_prefix r p ++ [ConvAll false [] [("h", (x1, y1)); ("j1", (0, 0)); ("j2", (x2, y2))]].
  Lemma overlapping_groups_refuted r p x1 y1 x2 y2 :
    cvalue cvR (run init (f12_prefix r p)) "h" = Some (r * cos p, r * sin p) /\
    cvalue cvR (run init (f12_prefix r p)) "j2" = Some (r * cos p, r * sin p) /\
    (* the third call (j2) still sees a polar flag although the cells already hold x1, y1 *)
    dget "j2" (cplx (step (run init (f12_prefix r p)) (Conv false "h" (x1, y1)))) = Some true /\
    read (step (run init (f12_prefix r p)) (Conv false "h" (x1, y1))) "j2r" = Some x1 /\
    cvalue cvR (run init (f12_history r p x1 y1 x2 y2)) "h" = Some (x2, y2).
  Proof. vm_compute. repeat split. Qed.
End Refutations.

(* F11 on exact rationals: merging two tie groups leaves a member on its old cell *)
Definition f11_history : list (op Q) :=
  [AddReal "a" 1 true true; AddReal "b" 2 true true; AddReal "c" 3 true true; AddReal "d" 4 true true;
   SetSame ["a"; "b"] false; SetSame ["c"; "d"] false; SetSame ["b"; "d"] false;
   SetV "a" 9 9 false]%Q.
Lemma tied_read_refuted :
  same (run init f11_history) = [["b"; "d"; "a"; "c"]] /\
  read (run init f11_history) "a" = Some 9%Q /\ read (run init f11_history) "b" = Some 9%Q /\
  read (run init f11_history) "c" = Some 9%Q /\ read (run init f11_history) "d" = Some 3%Q /\
  forallb value_op [SetV "a" 9%Q 9%Q false] = true.
Proof. vm_compute. repeat split. Qed.

(* the chain of complex ties made by `equal:` / Variable.sameas: a1 keeps its own free cell,
   a0 and a2 share another cell that is no longer free (it received a0's value 3 when a0, which is
   not in the free list, was taken for a fixed member) *)
Definition f11c_history : list (op Q) :=
  [AddComplex "a0" (Some true) true 1 2; AddComplex "a1" (Some true) true 3 4; AddComplex "a2" (Some true) true 5 6;
   SetSame ["a1"; "a0"] true; SetSame ["a2"; "a0"] true; SetV "a1r" 9 9 false]%Q.
Lemma tied_chain_refuted :
  same (run init f11c_history) = [["a1"; "a0"]; ["a2"; "a0"]] /\
  trainable (run init f11c_history) = ["a1r"; "a1i"] /\
  read (run init f11c_history) "a1r" = Some 9%Q /\ read (run init f11c_history) "a0r" = Some 3%Q /\
  read (run init f11c_history) "a2r" = Some 3%Q.
Proof. vm_compute. repeat split. Qed.

(* fix / free of a tied name (a configuration applies coef_head / equal ties before fix_var / free_var).
   With the OLD set_fix (bookkeeping by name) freeing the tied name b listed the shared object twice and
   fixing b left the group free; set_fix as repaired handles both through the shared object. *)
Definition tie_ab : list (op Q) :=
  [AddReal "a" 1 true true; AddReal "b" 2 true true; SetSame ["a"; "b"] false]%Q.
Definition unfix_after_tie : list (op Q) := tie_ab ++ [SetFix "b" None 0%Q true].
Definition fix_after_tie : list (op Q) := tie_ab ++ [SetFix "b" (Some 5%Q) 5%Q false; SetAllList [(7%Q, 7%Q)] false].
Lemma old_unfix_after_tie_counts_twice :
  trainable (set_fix_old "b" None 0%Q true (run init tie_ab)) = ["a"; "b"] /\
  dget "a" (vars (set_fix_old "b" None 0%Q true (run init tie_ab))) =
  dget "b" (vars (set_fix_old "b" None 0%Q true (run init tie_ab))) /\
  trainable (set_fix_old "b" (Some 5%Q) 5%Q false (run init tie_ab)) = ["a"].
Proof. vm_compute. repeat split. Qed.
Lemma fix_free_after_tie :
  trainable (run init unfix_after_tie) = ["a"] /\
  trainable (run init fix_after_tie) = [] /\
  all_dic (run init fix_after_tie) = [("a", 5%Q); ("b", 5%Q)] /\
  hist_ok count_safe init unfix_after_tie = true.
Proof. vm_compute. repeat split. Qed.

(* tying a free parameter to a fixed one: the group is fixed at the fixed member's value *)
Definition tie_fixed_member : list (op Q) :=
  [AddReal "a" (7 # 10) true true; AddReal "b" 3 true false; SetSame ["a"; "b"] false]%Q.
Lemma tie_fixed_member_keeps_value :
  all_dic (run init tie_fixed_member) = [("a", 3%Q); ("b", 3%Q)] /\ trainable (run init tie_fixed_member) = [].
Proof. vm_compute. repeat split. Qed.

(* tying a Cartesian parameter to a polar one: both read the shared cells as polar *)
Definition tie_mixed_flags : list (op Q) :=
  [AddComplex "a" (Some true) true 1 2; AddComplex "b" (Some false) true 3 4; SetSame ["a"; "b"] true]%Q.
Lemma tie_mixed_flags_aligned :
  cplx (run init tie_mixed_flags) = [("a", true); ("b", true)] /\
  hist_ok tie_safe init tie_mixed_flags = true /\
  hist_ok_inv (fun _ _ => true) polar_safe init tie_mixed_flags = true.
Proof. vm_compute. repeat split. Qed.

(* non-vacuity of flags_consistent: two tied and one free complex parameter *)
Definition fc_example : list (op Q) :=
  [AddComplex "a" (Some true) true 1 2; AddComplex "b" (Some true) true 3 4; AddComplex "c" (Some false) true 5 6;
   SetSame ["a"; "b"] true]%Q.
Lemma fc_example_ok : hist_ok_inv tie_safe polar_safe init fc_example = true.
Proof. vm_compute. reflexivity. Qed.
