(* C18 - model of the structured event-data helpers.  Definitions only.  Anchors:
     tf_pwa/data.py  _data_split, data_generator, data_split, data_merge, data_map, data_mask,
                     data_index, data_shape, batch_call, LazyCall.eval/__iter__, load_dat_file
     tf_pwa/cal_angle.py CalAngleData.savetxt, tf_pwa/config_loader/data.py SimpleData.savetxt
   A leaf array is its list of rows; a row is an integer event id (the correspondence uses arrays
   whose entries encode the id), so every comparison is exact. *)
From Coq Require Import ZArith List Bool Arith.
Import ListNotations.

Inductive kind := KDict | KList | KTuple.
(* children as an explicit forest (key is meaningful for dicts only) *)
Inductive data := Leaf (rows : list Z) | Node (k : kind) (f : forest)
with forest := FNil | FCons (key : Z) (d : data) (r : forest).

(* ---- _data_split on a leaf: dat[i : min(i+b, size)] for i in range(0, size, b); the same
   function is numpy's reshape(-1, n, ...) when n divides the length ---- *)
Section Chunk.
  Context {A : Type}.
  Fixpoint chunk_aux (fuel n : nat) (l : list A) : list (list A) :=
    match fuel with
    | O => []
    | S f => match l with
             | [] => []
             | _ :: _ => firstn n l :: chunk_aux f n (skipn n l)
             end
    end.
  Definition chunk (n : nat) (l : list A) : list (list A) := chunk_aux (length l) n l.
End Chunk.

(* zip(a, b) with a combining function: stops at the shorter one *)
Fixpoint zipw {A B C : Type} (f : A -> B -> C) (la : list A) (lb : list B) : list C :=
  match la, lb with
  | a :: ra, b :: rb => f a b :: zipw f ra rb
  | _, _ => []
  end.

(* ---- data_generator(data, _data_split, (b,)) with bound mx on the copies of an empty container:
   the list of yielded pieces.  An EMPTY dict / list / tuple yields itself mx times; a non-empty
   container zips the generators of its children (stops with the shortest). ---- *)
Fixpoint gen (mx b : nat) (d : data) : list data :=
  match d with
  | Leaf rows => map Leaf (chunk b rows)
  | Node k f => match genf mx b f with
                | None => repeat (Node k FNil) mx
                | Some fs => map (Node k) fs
                end
  end
with genf (mx b : nat) (f : forest) : option (list forest) :=
  match f with
  | FNil => None
  | FCons key d r => Some (match genf mx b r with
                           | None => map (fun x => FCons key x FNil) (gen mx b d)
                           | Some rs => zipw (FCons key) (gen mx b d) rs
                           end)
  end.

(* _has_array *)
Fixpoint has_leaf (d : data) : bool :=
  match d with
  | Leaf _ => true
  | Node _ f => has_leaff f
  end
with has_leaff (f : forest) : bool :=
  match f with
  | FNil => false
  | FCons _ d r => has_leaf d || has_leaff r
  end.
(* total number of batches of all arrays *)
Fixpoint leaf_bound (b : nat) (d : data) : nat :=
  match d with
  | Leaf rows => length (chunk b rows)
  | Node _ f => leaf_boundf b f
  end
with leaf_boundf (b : nat) (f : forest) : nat :=
  match f with
  | FNil => O
  | FCons _ d r => leaf_bound b d + leaf_boundf b r
  end.
(* data_split(data, b): "if _has_array(data): MAX_ITER = sys.maxsize", otherwise MAX_ITER (mx) = 1000.
   sys.maxsize is represented by leaf_bound, which is never smaller than the number of batches of
   the shortest array: by Data_proofs.bound_irrelevant every bound >= that number gives the same pieces. *)
Definition data_split (mx b : nat) (d : data) : list data :=
  gen (if has_leaf d then leaf_bound b d else mx) b d.

(* the generator before the repairs 8ca0a85 / 6a76cf5: an empty tuple was not special-cased (it
   yields nothing) and the bound MAX_ITER applied to every structure *)
Fixpoint gen_old (mx b : nat) (d : data) : list data :=
  match d with
  | Leaf rows => map Leaf (chunk b rows)
  | Node k f => match genf_old mx b f with
                | None => match k with KTuple => [] | _ => repeat (Node k FNil) mx end
                | Some fs => map (Node k) fs
                end
  end
with genf_old (mx b : nat) (f : forest) : option (list forest) :=
  match f with
  | FNil => None
  | FCons key d r => Some (match genf_old mx b r with
                           | None => map (fun x => FCons key x FNil) (gen_old mx b d)
                           | Some rs => zipw (FCons key) (gen_old mx b d) rs
                           end)
  end.

(* ---- data_merge of the pieces: the type and keys of the first piece; children merged position by
   position (pieces produced by data_split have identical key sequences; zip truncation when a
   later piece has fewer children); leaves concatenated.  Errors (mixed types) are not modelled. ---- *)
Definition rows_of (d : data) : list Z := match d with Leaf r => r | Node _ _ => [] end.
Definition forest_of (d : data) : forest := match d with Node _ f => f | Leaf _ => FNil end.
Fixpoint heads_tails (l : list forest) : option (list data * list forest) :=
  match l with
  | [] => Some ([], [])
  | FNil :: _ => None
  | FCons _ d r :: t => match heads_tails t with
                        | Some (hs, ts) => Some (d :: hs, r :: ts)
                        | None => None
                        end
  end.
Fixpoint merge (d0 : data) (others : list data) : data :=
  match d0 with
  | Leaf r => Leaf (r ++ concat (map rows_of others))
  | Node k f => Node k (mergef f (map forest_of others))
  end
with mergef (f : forest) (others : list forest) : forest :=
  match f with
  | FNil => FNil
  | FCons key d r => match heads_tails others with
                     | Some (hs, ts) => FCons key (merge d hs) (mergef r ts)
                     | None => FNil
                     end
  end.
(* assert len(data) > 0 *)
Definition merge_all (l : list data) : option data :=
  match l with [] => None | d :: r => Some (merge d r) end.

(* ---- data_map / data_mask ---- *)
Fixpoint map_leaves (g : list Z -> list Z) (d : data) : data :=
  match d with
  | Leaf r => Leaf (g r)
  | Node k f => Node k (map_leavesf g f)
  end
with map_leavesf (g : list Z -> list Z) (f : forest) : forest :=
  match f with
  | FNil => FNil
  | FCons key d r => FCons key (map_leaves g d) (map_leavesf g r)
  end.
(* tf.boolean_mask(rows, sel) *)
Fixpoint select {A : Type} (sel : list bool) (rows : list A) : list A :=
  match sel, rows with
  | s :: ss, r :: rs => if s then r :: select ss rs else select ss rs
  | _, _ => []
  end.
Definition mask (sel : list bool) (d : data) : data := map_leaves (select sel) d.

(* ---- data_index(data, path) ---- *)
Inductive pkey := PK (k : Z) | PI (i : nat).
Fixpoint flookup (k : Z) (f : forest) : option data :=
  match f with
  | FNil => None
  | FCons key d r => if Z.eqb key k then Some d else flookup k r
  end.
Fixpoint fnth (i : nat) (f : forest) : option data :=
  match f, i with
  | FNil, _ => None
  | FCons _ d _, O => Some d
  | FCons _ _ r, S j => fnth j r
  end.
Definition idx1 (d : data) (p : pkey) : option data :=
  match d, p with
  | Node KDict f, PK k => flookup k f
  | Node KList f, PI i => fnth i f
  | Node KTuple f, PI i => fnth i f
  | _, _ => None
  end.
Fixpoint index (d : data) (path : list pkey) : option data :=
  match path with
  | [] => Some d
  | p :: r => match idx1 d p with Some x => index x r | None => None end
  end.

(* ---- data_shape: shape[0] of the first array in traversal order ---- *)
Fixpoint first_leaf (d : data) : option (list Z) :=
  match d with
  | Leaf r => Some r
  | Node _ f => first_leaff f
  end
with first_leaff (f : forest) : option (list Z) :=
  match f with
  | FNil => None
  | FCons _ d r => match first_leaf d with Some x => Some x | None => first_leaff r end
  end.
Definition data_shape (d : data) : option nat := option_map (@length Z) (first_leaf d).

(* ---- batch_call(function, data, batch): data_merge of [function(i) for i in data_split(data, batch)] ---- *)
Definition batch_call (fn : data -> data) (mx b : nat) (d : data) : option data :=
  merge_all (map fn (data_split mx b d)).

(* ---- LazyCall(f, x) with .extra: eval() = {**f(x), **extra};
   iteration after as_dataset(b): {**f(x_i), **extra_i} for x_i, extra_i in zip(split(x), split(extra)) ---- *)
Fixpoint fapp (a b : forest) : forest :=
  match a with FNil => b | FCons k d r => FCons k d (fapp r b) end.
Definition dict_union (a b : data) : data := Node KDict (fapp (forest_of a) (forest_of b)).
Definition lazy_eval (fn : data -> data) (x extra : data) : data := dict_union (fn x) extra.
(* LazyCall._extra_batches (since /repo fix for array-free extras): the extra entries are split with the same batch
   size and FOLLOW the data batches, however many there are - an extra without any array (empty, or only empty
   containers) is repeated unchanged: data_split bounded by the number of data batches *)
Definition lazy_batches (fn : data -> data) (mx b : nat) (x extra : data) : list data :=
  let xs := data_split mx b x in
  zipw dict_union (map fn xs) (data_split (length xs) b extra).
(* between d64dc15 and that fix: itertools.repeat({}) when `not self.extra`, otherwise split_generator(self.extra, batch)
   with its own MAX_ITER bound: a non-empty extra WITHOUT arrays stopped the iteration after MAX_ITER batches *)
Definition lazy_batches_d64 (fn : data -> data) (mx b : nat) (x extra : data) : list data :=
  match forest_of extra with
  | FNil => map (fun p => dict_union (fn p) (Node KDict FNil)) (data_split mx b x)
  | FCons _ _ _ => zipw dict_union (map fn (data_split mx b x)) (data_split mx b extra)
  end.
(* before d64dc15 the empty extra was split on its own: only MAX_ITER copies of {} *)
Definition lazy_batches_old (fn : data -> data) (mx b : nat) (x extra : data) : list data :=
  zipw dict_union (map fn (data_split mx b x)) (data_split mx b extra).

(* ---- dat-file layout ---- *)
Section Dat.
  Context {A : Type}.
  Variable dflt : A.
  (* savetxt: np.stack(pi).transpose((1,0,2)).reshape((-1,4)): row ev*n + k = particle k of event ev *)
  Definition save (ps : list (list A)) : list A :=
    flat_map (fun ev => map (fun p => nth ev p dflt) ps) (seq 0 (length (hd [] ps))).
  (* load_dat_file, one file: reshape((-1, n, 4)).transpose((1,0,2)): column k = particle k *)
  Definition load (n : nat) (rows : list A) : list (list A) :=
    map (fun k => map (fun grp => nth k grp dflt) (chunk n rows)) (seq 0 n).
  (* several files: n_data = total // n; file f carries size_f // n_data consecutive particles *)
  Definition load_files (n : nat) (files : list (list A)) : list (list A) :=
    let n_data := Nat.div (fold_right plus O (map (@length A) files)) n in
    flat_map (fun rows => load (Nat.div (length rows) n_data) rows) files.
  (* ret[particles[idx]] = column idx *)
  Definition assign {K : Type} (particles : list K) (cols : list (list A)) : list (K * list A) :=
    combine particles cols.
End Dat.
(* writing with an explicit particle order, reading with the same order *)
Fixpoint alookup {V : Type} (k : Z) (m : list (Z * V)) : option V :=
  match m with [] => None | (k', v) :: r => if Z.eqb k' k then Some v else alookup k r end.
Definition savetxt_order (order : list Z) (momenta : list (Z * list Z)) : list Z :=
  save 0%Z (map (fun name => match alookup name momenta with Some p => p | None => [] end) order).
Definition load_order (order : list Z) (rows : list Z) : list (Z * list Z) :=
  assign order (load 0%Z (length order) rows).

(* ---- evaluation helpers for the correspondence ---- *)
Fixpoint list_eqb {A : Type} (eqb : A -> A -> bool) (a b : list A) : bool :=
  match a, b with
  | [], [] => true
  | x :: a', y :: b' => eqb x y && list_eqb eqb a' b'
  | _, _ => false
  end.
Definition kind_eqb (a b : kind) : bool :=
  match a, b with KDict, KDict | KList, KList | KTuple, KTuple => true | _, _ => false end.
Fixpoint data_eqb (a b : data) : bool :=
  match a, b with
  | Leaf r, Leaf r' => list_eqb Z.eqb r r'
  | Node k f, Node k' f' => kind_eqb k k' && forest_eqb f f'
  | _, _ => false
  end
with forest_eqb (a b : forest) : bool :=
  match a, b with
  | FNil, FNil => true
  | FCons k d r, FCons k' d' r' => Z.eqb k k' && data_eqb d d' && forest_eqb r r'
  | _, _ => false
  end.
Definition odata_eqb (a b : option data) : bool :=
  match a, b with Some x, Some y => data_eqb x y | None, None => true | _, _ => false end.
Definition cols_eqb : list (list Z) -> list (list Z) -> bool := list_eqb (list_eqb Z.eqb).
Definition acols_eqb : list (Z * list Z) -> list (Z * list Z) -> bool :=
  list_eqb (fun p q => Z.eqb (fst p) (fst q) && list_eqb Z.eqb (snd p) (snd q)).
(* the row-wise test functions of the correspondence *)
Definition affine (a c : Z) (rows : list Z) : list Z := map (fun x => (a * x + c)%Z) rows.
(* a function returning one array computed from the first array of its argument *)
Definition to_leaf (a c : Z) (d : data) : data :=
  Leaf (affine a c (match first_leaf d with Some r => r | None => [] end)).

(* ---- split / merge along the LAST axis (data_split / data_merge with axis=-1) of a 2-D array given as
   the list of its rows (each row runs along the last axis).  Anchors: _data_split axis == -1 branch,
   data_merge: tf.concat(data, axis=axis) with the SAME axis at every nesting level (after the repair of
   the recursion, which used to drop `axis` for arrays inside a dict / list / tuple). ---- *)
Definition mat := list (list Z).
(* dat[..., i : min(i+b, size)] for i in range(0, size, b) *)
Definition split_last (b : nat) (m : mat) : list mat :=
  map (fun j => map (fun r => nth j (chunk b r) []) m) (seq 0 (length (chunk b (hd [] m)))).
(* tf.concat(pieces, axis=-1): row i of the result = rows i of the pieces one after the other *)
Definition concat_last (ps : list mat) : mat :=
  map (fun i => concat (map (fun p => nth i p []) ps)) (seq 0 (length (hd [] ps))).
(* tf.concat(pieces, axis=0): what the recursion did for nested arrays before the repair *)
Definition concat_first (ps : list mat) : mat := concat ps.
Definition mat_eqb : mat -> mat -> bool := list_eqb (list_eqb Z.eqb).

(* ---- LazyFile(x) = LazyCall(identity, x) (iteration and, after the repair, eval: lazy_batches / lazy_eval with
   fn = identity).  Before the repair eval() returned x alone and a repeated as_dataset(b) the bare x batches. ---- *)
Definition lazyfile_eval_old (x extra : data) : data := x.
Definition lazyfile_batches_again_old (mx b : nat) (x extra : data) : list data := data_split mx b x.

(* ---- a LazyCall whose inner LazyCall is SHARED with another object (LazyCall.copy / data_replace): the inner
   object is iterated with batch size bi, the own extra entries are split with bo.  After the repair
   (__iter__ re-asserts self.x.as_dataset(self.batch_size)) bi = bo always; before, bi was whatever the last
   as_dataset call on ANY object sharing the inner one had set. ---- *)
Definition lazy_batches_shared (fn : data -> data) (mx bi bo : nat) (x extra : data) : list data :=
  let xs := data_split mx bi x in
  zipw dict_union (map fn xs) (data_split (length xs) bo extra).
