(* C08 - lemmas about the model State/Fit.v *)
From Coq Require Import Reals List Bool Arith Lra Lia.
From TFV Require Import State.Fit.
Import ListNotations.
Open Scope R_scope.

(* ---------- reading and writing ---------- *)
Lemma read_write_same s n v m : cellof s m = cellof s n -> read (write s n v) m = v.
Proof. intros H. unfold read, write; cbn. rewrite H, Nat.eqb_refl. reflexivity. Qed.

Lemma read_write_other s n v m : cellof s m <> cellof s n -> read (write s n v) m = read s m.
Proof. intros H. unfold read, write; cbn. apply Nat.eqb_neq in H. rewrite H. reflexivity. Qed.

Lemma mem_In n l : mem n l = true -> In n l.
Proof.
  induction l as [|a l IH]; cbn; [discriminate|]. intros H. apply orb_true_iff in H as [H|H].
  - left. apply Nat.eqb_eq. exact H.
  - right. apply IH, H.
Qed.

(* ---------- the shape (ties, name lists) never changes ---------- *)
Definition shape_eq (s t : st) : Prop :=
  cellof s = cellof t /\ allnames s = allnames t /\ train s = train t /\ polar s = polar t.

Lemma shape_refl s : shape_eq s s.
Proof. repeat split. Qed.
Lemma shape_trans a b c : shape_eq a b -> shape_eq b c -> shape_eq a c.
Proof. intros (A1 & A2 & A3 & A4) (B1 & B2 & B3 & B4). repeat split; congruence. Qed.

Lemma set_all_shape ns : forall s xs, shape_eq (set_all s ns xs) s /\ bnd (set_all s ns xs) = bnd s.
Proof.
  induction ns as [|n ns IH]; intros s xs; [split; [apply shape_refl | reflexivity]|].
  destruct xs as [|x xs]; [split; [apply shape_refl | reflexivity]|]. cbn [set_all].
  destruct (IH (write s n x) xs) as [H1 H2]. split; [|rewrite H2; reflexivity].
  eapply shape_trans; [exact H1|]. repeat split.
Qed.

Lemma std_one_shape skip s rp : shape_eq (std_one skip s rp) s /\ bnd (std_one skip s rp) = bnd s.
Proof.
  unfold std_one. destruct (std_skip s skip rp); [split; [apply shape_refl | reflexivity]|].
  split; [repeat split | reflexivity].
Qed.

Lemma std_fold_shape skip l : forall s, shape_eq (fold_left (std_one skip) l s) s /\ bnd (fold_left (std_one skip) l s) = bnd s.
Proof.
  induction l as [|a l IH]; intros s; [split; [apply shape_refl | reflexivity]|]. cbn [fold_left].
  destruct (IH (std_one skip s a)) as [H1 H2]. destruct (std_one_shape skip s a) as [H3 H4].
  split; [eapply shape_trans; eassumption | congruence].
Qed.

Lemma standard_complex_shape skip s : shape_eq (standard_complex skip s) s /\ bnd (standard_complex skip s) = bnd s.
Proof. apply std_fold_shape. Qed.

Lemma fit_shape m opt bd s : shape_eq (fst (fit m opt bd s)) s.
Proof.
  destruct m; cbn [fit fit_bfgs fit_lbfgsb fit_newton fit_minuit fst].
  - eapply shape_trans; [apply standard_complex_shape|]. unfold set_trans_var.
    eapply shape_trans with (b := set_bound s bd); [|repeat split].
    destruct (set_all_shape (train (set_bound s bd)) (set_bound s bd)
                (trans_vals (bnd (set_bound s bd)) (train (set_bound s bd)) (fst (opt (set_bound s bd))))) as [(A & B & C & D) _].
    repeat split; assumption.
  - eapply shape_trans; [apply standard_complex_shape|]. apply set_all_shape.
  - unfold set_trans_var.
    destruct (set_all_shape (train (set_bound s bd)) (set_bound s bd)
                (trans_vals (bnd (set_bound s bd)) (train (set_bound s bd)) (fst (opt (set_bound s bd))))) as [(A & B & C & D) _].
    repeat split; assumption.
  - apply set_all_shape.
Qed.

(* bnd_dic after a fit: empty for the branches that install transforms, untouched for the others *)
Lemma fit_bnd m opt bd s : bnd s = [] -> bnd (fst (fit m opt bd s)) = [].
Proof.
  intros Hb. destruct m; cbn [fit fit_bfgs fit_lbfgsb fit_newton fit_minuit fst].
  - destruct (standard_complex_shape bd (remove_bound (set_trans_var (set_bound s bd) (fst (opt (set_bound s bd)))))) as [_ H]. rewrite H. reflexivity.
  - destruct (standard_complex_shape bd (set_all s (train s) (fst (opt s)))) as [_ H]. rewrite H.
    destruct (set_all_shape (train s) s (fst (opt s))) as [_ H2]. rewrite H2. exact Hb.
  - reflexivity.
  - destruct (set_all_shape (train s) s (fst (opt s))) as [_ H2]. rewrite H2. exact Hb.
Qed.

Lemma fit_bnd_transforming opt bd s :
  bnd (fst (fit M_bfgs opt bd s)) = [] /\ bnd (fst (fit M_newton opt bd s)) = [].
Proof.
  split; cbn [fit fit_bfgs fit_newton fst]; [|reflexivity].
  destruct (standard_complex_shape bd (remove_bound (set_trans_var (set_bound s bd) (fst (opt (set_bound s bd)))))) as [_ H]. rewrite H. reflexivity.
Qed.

(* ---------- what a fit can and cannot touch ---------- *)
Lemma set_all_untouched ns : forall s xs m,
  ~ In (cellof s m) (map (cellof s) ns) -> read (set_all s ns xs) m = read s m.
Proof.
  induction ns as [|n ns IH]; intros s xs m H; [reflexivity|]. destruct xs as [|x xs]; [reflexivity|]. cbn [set_all].
  rewrite IH.
  - apply read_write_other. intros E. apply H. left. symmetry. exact E.
  - intros Hin. apply H. right. exact Hin.
Qed.

Lemma std_one_read skip s rp m :
  (std_skip s skip rp = false -> cellof s (fst rp) <> cellof s m /\ cellof s (snd rp) <> cellof s m) ->
  read (std_one skip s rp) m = read s m.
Proof.
  intros H. unfold std_one. destruct (std_skip s skip rp) eqn:E; [reflexivity|].
  destruct (H eq_refl) as [H1 H2].
  rewrite read_write_other; [apply read_write_other|]; cbn; intros X; [apply H1 | apply H2]; symmetry; exact X.
Qed.

Lemma std_skip_shape skip s t rp : shape_eq t s -> bnd t = bnd s -> std_skip t skip rp = std_skip s skip rp.
Proof. intros (A & B & C & D) E. unfold std_skip. rewrite E, C. reflexivity. Qed.

Lemma std_fold_read skip l : forall s m,
  (forall rp, In rp l -> std_skip s skip rp = false -> cellof s (fst rp) <> cellof s m /\ cellof s (snd rp) <> cellof s m) ->
  read (fold_left (std_one skip) l s) m = read s m.
Proof.
  induction l as [|a l IH]; intros s m H; [reflexivity|]. cbn [fold_left].
  destruct (std_one_shape skip s a) as [Hs Hb].
  rewrite IH.
  - apply std_one_read. apply H. left. reflexivity.
  - intros rp Hin Hsk. rewrite (std_skip_shape skip s _ rp Hs Hb) in Hsk.
    destruct Hs as (Hc & _). rewrite Hc. apply H; [right; exact Hin | exact Hsk].
Qed.

(* standard_complex never writes a cell that holds no trainable variable *)
Lemma std_fixed_untouched skip s m :
  ~ In (cellof s m) (map (cellof s) (train s)) -> read (standard_complex skip s) m = read s m.
Proof.
  intros H. apply std_fold_read. intros rp _ Hsk. unfold std_skip in Hsk.
  apply orb_false_iff in Hsk as [Hsk H2]. apply orb_false_iff in Hsk as [_ H1].
  apply negb_false_iff in H1. apply negb_false_iff in H2.
  split; intros E; apply H; rewrite <- E; apply in_map; apply mem_In; assumption.
Qed.

Lemma fixed_unchanged m opt bd s n :
  ~ In (cellof s n) (map (cellof s) (train s)) -> read (fst (fit m opt bd s)) n = read s n.
Proof.
  intros H. destruct m; cbn [fit fit_bfgs fit_lbfgsb fit_newton fit_minuit fst].
  - rewrite std_fixed_untouched.
    + unfold set_trans_var. change (read (remove_bound ?t) n) with (read t n).
      rewrite set_all_untouched; [reflexivity | exact H].
    + destruct (set_all_shape (train (set_bound s bd)) (set_bound s bd)
                  (trans_vals (bnd (set_bound s bd)) (train (set_bound s bd)) (fst (opt (set_bound s bd))))) as [(A & B & C & D) _].
      cbn [remove_bound cellof train]. unfold set_trans_var. rewrite A, C. exact H.
  - rewrite std_fixed_untouched.
    + apply set_all_untouched. exact H.
    + destruct (set_all_shape (train s) s (fst (opt s))) as [(A & B & C & D) _]. rewrite A, C. exact H.
  - unfold set_trans_var. change (read (remove_bound ?t) n) with (read t n).
    rewrite set_all_untouched; [reflexivity | exact H].
  - apply set_all_untouched. exact H.
Qed.

(* ---------- state = result, for ANY optimiser answer ---------- *)
Lemma fit_state_is_result m opt bd s n v :
  In (n, v) (r_params (snd (fit m opt bd s))) -> read (fst (fit m opt bd s)) n = v.
Proof.
  destruct m; cbn [fit fit_bfgs fit_lbfgsb fit_newton fit_minuit fst snd r_params];
    unfold get_params, get_params_train; intros H; apply in_map_iff in H as (k & E & _); inversion E; subst; reflexivity.
Qed.

Lemma result_lists_all_names opt bd s :
  map fst (r_params (snd (fit M_bfgs opt bd s))) = allnames s /\
  map fst (r_params (snd (fit M_lbfgsb opt bd s))) = allnames s /\
  map fst (r_params (snd (fit M_newton opt bd s))) = allnames s /\
  map fst (r_params (snd (fit M_minuit opt bd s))) = allnames s.
Proof.
  assert (E : forall (f : name -> R) l, map fst (map (fun n => (n, f n)) l) = l).
  { intros f l. rewrite map_map. cbn. apply map_id. }
  pose proof (fit_shape M_bfgs opt bd s) as (_ & A1 & _).
  pose proof (fit_shape M_lbfgsb opt bd s) as (_ & A2 & _).
  pose proof (fit_shape M_newton opt bd s) as (_ & A3 & _).
  pose proof (fit_shape M_minuit opt bd s) as (_ & A4 & _).
  cbn [fit fit_bfgs fit_lbfgsb fit_newton fit_minuit fst snd r_params] in *. unfold get_params, get_params_train.
  rewrite !E. repeat split; assumption.
Qed.

Lemma tied_equal m opt bd s n k :
  cellof s n = cellof s k -> read (fst (fit m opt bd s)) n = read (fst (fit m opt bd s)) k.
Proof.
  intros H. destruct (fit_shape m opt bd s) as (Hc & _). unfold read. rewrite Hc, H. reflexivity.
Qed.

(* ---------- range of the bound transforms ---------- *)
Lemma sqrt_x2p1_ge1 x : 1 <= sqrt (x ^ 2 + 1).
Proof.
  rewrite <- sqrt_1 at 1. apply sqrt_le_1_alt. pose proof (pow2_ge_0 x). lra.
Qed.

Lemma bound_range b x : bound_ok b -> in_bound b (bt b x).
Proof.
  destruct b as [[lo|] [hi|]]; cbn [bound_ok in_bound bt]; intros H.
  - pose proof (SIN_bound x) as [S1 S2]. split; nra.
  - pose proof (sqrt_x2p1_ge1 x). lra.
  - pose proof (sqrt_x2p1_ge1 x). lra.
  - exact I.
Qed.

(* ---------- value of a trainable variable after the write-back ---------- *)
Lemma set_all_nth ns : forall s xs i n,
  NoDup (map (cellof s) ns) -> nth_error ns i = Some n -> (i < length xs)%nat ->
  read (set_all s ns xs) n = nth i xs 0.
Proof.
  induction ns as [|a ns IH]; intros s xs i n Hnd Hn Hl; [destruct i; discriminate|].
  destruct xs as [|x xs]; [cbn in Hl; lia|]. cbn [set_all map] in *. inversion Hnd as [|? ? Hnotin Hnd']; subst.
  destruct i as [|i].
  - cbn in Hn. inversion Hn; subst. cbn [nth].
    rewrite set_all_untouched; [apply read_write_same; reflexivity | exact Hnotin].
  - cbn in Hn. cbn [nth]. apply (IH (write s a x) xs i n); [exact Hnd' | exact Hn | cbn in Hl; lia].
Qed.

Lemma trans_vals_nth b ns : forall xs i n, nth_error ns i = Some n -> (i < length xs)%nat ->
  nth i (trans_vals b ns xs) 0 = match lookup b n with Some bb => bt bb (nth i xs 0) | None => nth i xs 0 end.
Proof.
  unfold trans_vals. induction ns as [|a ns IH]; intros xs i n Hn Hl; [destruct i; discriminate|].
  destruct xs as [|x xs]; [cbn in Hl; lia|]. destruct i as [|i].
  - cbn in Hn. inversion Hn; subst. reflexivity.
  - cbn [combine map nth]. apply IH; [exact Hn | cbn in Hl; lia].
Qed.

Lemma trans_vals_length b ns xs : length ns = length xs -> length (trans_vals b ns xs) = length xs.
Proof. intros H. unfold trans_vals. rewrite map_length, combine_length, H. apply Nat.min_id. Qed.

Lemma lookup_app_some l1 l2 n b : lookup l1 n = Some b -> lookup (l1 ++ l2) n = Some b.
Proof.
  induction l1 as [|[m bb] l1 IH]; cbn; [discriminate|]. destruct (Nat.eqb m n); [auto | exact IH].
Qed.

(* polar components are not tied to anything (standard_complex skips same_list members) *)
Definition polar_untied (s : st) (n : name) : Prop :=
  forall rp, In rp (polar s) ->
    (cellof s (fst rp) = cellof s n -> fst rp = n) /\ (cellof s (snd rp) = cellof s n -> snd rp = n).

Lemma std_bounded_untouched bd s n :
  inb bd n = true -> polar_untied s n -> read (standard_complex bd s) n = read s n.
Proof.
  intros Hb Hu. apply std_fold_read. intros rp Hin Hsk. unfold std_skip in Hsk.
  apply orb_false_iff in Hsk as [Hsk _]. apply orb_false_iff in Hsk as [Hsk _].
  apply orb_false_iff in Hsk as [Hsk H2]. apply orb_false_iff in Hsk as [_ H1].
  destruct (Hu rp Hin) as [U1 U2].
  split; intros E; [apply U1 in E | apply U2 in E]; rewrite E in *; congruence.
Qed.

(* bounded variables end inside their bounds: transforming branches, for ANY optimiser answer *)
Lemma bounded_inside_transforming (newton : bool) opt bd s i n b :
  let m := if newton then M_newton else M_bfgs in
  NoDup (map (cellof s) (train s)) -> nth_error (train s) i = Some n -> lookup bd n = Some b -> bound_ok b ->
  length (fst (opt (set_bound s bd))) = length (train s) -> polar_untied s n ->
  in_bound b (read (fst (fit m opt bd s)) n).
Proof.
  intros m Hnd Hn Hl Hok Hlen Hu.
  assert (Hi : (i < length (train s))%nat) by (apply nth_error_Some; congruence).
  assert (Hval : read (set_trans_var (set_bound s bd) (fst (opt (set_bound s bd)))) n = bt b (nth i (fst (opt (set_bound s bd))) 0)).
  { unfold set_trans_var. cbn [set_bound train bnd].
    rewrite (set_all_nth (train s) (set_bound s bd) _ i n Hnd Hn).
    - rewrite (trans_vals_nth _ (train s) _ i n Hn) by lia. rewrite (lookup_app_some bd (bnd s) n b Hl). reflexivity.
    - rewrite trans_vals_length by (symmetry; exact Hlen). lia. }
  destruct newton; subst m; cbn [fit fit_bfgs fit_newton fst].
  - change (read (remove_bound ?t) n) with (read t n). rewrite Hval. apply bound_range, Hok.
  - rewrite std_bounded_untouched.
    + change (read (remove_bound ?t) n) with (read t n). rewrite Hval. apply bound_range, Hok.
    + unfold inb. rewrite Hl. reflexivity.
    + intros rp Hin.
      destruct (set_all_shape (train (set_bound s bd)) (set_bound s bd)
                  (trans_vals (bnd (set_bound s bd)) (train (set_bound s bd)) (fst (opt (set_bound s bd))))) as [(A & B & C & D) _].
      cbn [remove_bound cellof polar] in *. unfold set_trans_var in *. rewrite A. rewrite D in Hin. apply (Hu rp Hin).
Qed.

(* box-constrained branches: under the contract that the optimiser answers inside the box *)
Lemma bounded_inside_box (minuit : bool) opt bd s i n b :
  let m := if minuit then M_minuit else M_lbfgsb in
  NoDup (map (cellof s) (train s)) -> nth_error (train s) i = Some n -> lookup bd n = Some b ->
  length (fst (opt s)) = length (train s) -> polar_untied s n ->
  in_bound b (nth i (fst (opt s)) 0) ->
  in_bound b (read (fst (fit m opt bd s)) n).
Proof.
  intros m Hnd Hn Hl Hlen Hu Hbox.
  assert (Hi : (i < length (train s))%nat) by (apply nth_error_Some; congruence).
  assert (Hval : read (set_all s (train s) (fst (opt s))) n = nth i (fst (opt s)) 0)
    by (apply set_all_nth; [exact Hnd | exact Hn | lia]).
  destruct minuit; subst m; cbn [fit fit_lbfgsb fit_minuit fst].
  - rewrite Hval. exact Hbox.
  - rewrite std_bounded_untouched; [rewrite Hval; exact Hbox | unfold inb; rewrite Hl; reflexivity|].
    intros rp Hin. destruct (set_all_shape (train s) s (fst (opt s))) as [(A & B & C & D) _].
    rewrite A. rewrite D in Hin. apply (Hu rp Hin).
Qed.

(* ---------- the reported minimum ---------- *)
Section Minimum.
  Variable F : (name -> R) -> R.            (* the NLL as a function of the readable state *)
  (* the NLL does not change under (r, phi) -> (-r, phi + pi) *)
  Hypothesis F_std : forall skip s, F (read (standard_complex skip s)) = F (read s).

  Lemma min_is_nll_transforming (newton : bool) opt bd s :
    let m := if newton then M_newton else M_bfgs in
    let s1 := set_bound s bd in
    snd (opt s1) = F (read (set_trans_var s1 (fst (opt s1)))) ->
    r_min (snd (fit m opt bd s)) = F (read (fst (fit m opt bd s))).
  Proof.
    intros m s1 H. destruct newton; subst m; cbn [fit fit_bfgs fit_newton fst snd r_min].
    - exact H.
    - rewrite F_std. exact H.
  Qed.

  Lemma min_is_nll_box (minuit : bool) opt bd s :
    let m := if minuit then M_minuit else M_lbfgsb in
    snd (opt s) = F (read (set_all s (train s) (fst (opt s)))) ->
    r_min (snd (fit m opt bd s)) = F (read (fst (fit m opt bd s))).
  Proof.
    intros m H. destruct minuit; subst m; cbn [fit fit_lbfgsb fit_minuit fst snd r_min].
    - exact H.
    - rewrite F_std. exact H.
  Qed.

  Lemma not_above_start m opt bd s :
    snd (opt (match m with M_bfgs | M_newton => set_bound s bd | _ => s end)) <= F (read s) ->
    r_min (snd (fit m opt bd s)) <= F (read s).
  Proof. destruct m; cbn [fit fit_bfgs fit_lbfgsb fit_newton fit_minuit snd r_min]; intros H; exact H. Qed.
End Minimum.

(* ---------- repeated fits in one session ---------- *)
Lemma fit_seq_invariants l bd : forall s, bnd s = [] -> shape_eq (fit_seq l bd s) s /\ bnd (fit_seq l bd s) = [].
Proof.
  induction l as [|[m opt] l IH]; intros s Hb; [split; [apply shape_refl | exact Hb]|]. cbn [fit_seq].
  destruct (IH (fst (fit m opt bd s)) (fit_bnd m opt bd s Hb)) as [H1 H2].
  split; [eapply shape_trans; [exact H1 | apply fit_shape] | exact H2].
Qed.

Lemma fit_seq_fixed l bd : forall s n,
  ~ In (cellof s n) (map (cellof s) (train s)) -> read (fit_seq l bd s) n = read s n.
Proof.
  induction l as [|[m opt] l IH]; intros s n H; [reflexivity|]. cbn [fit_seq].
  destruct (fit_shape m opt bd s) as (A & _ & C & _).
  rewrite IH; [apply fixed_unchanged; exact H | rewrite A, C; exact H].
Qed.

Lemma fit_seq_tied l bd s n k : cellof s n = cellof s k -> read (fit_seq l bd s) n = read (fit_seq l bd s) k.
Proof.
  intros H. destruct l as [|p l]; [unfold read; cbn; rewrite H; reflexivity|].
  assert (Hs : cellof (fit_seq (p :: l) bd s) = cellof s).
  { revert s H. induction (p :: l) as [|[m opt] l' IH]; intros s H; [reflexivity|]. cbn [fit_seq].
    destruct (fit_shape m opt bd s) as (A & _). rewrite IH; [exact A | rewrite A; exact H]. }
  unfold read. rewrite Hs, H. reflexivity.
Qed.

(* ---------- save / load ---------- *)
Lemma load_store l neg : forall (s t : st) k,
  (forall n v, In (n, v) l -> v = store s (cellof t n)) ->
  store (load l neg t) k = (if existsb (fun p => negb (mem (fst p) neg) && Nat.eqb k (cellof t (fst p))) l then store s k else store t k)
  /\ cellof (load l neg t) = cellof t.
Proof.
  induction l as [|[n v] l IH]; intros s t k H; [split; reflexivity|]. cbn [load existsb fst].
  destruct (mem n neg) eqn:En; cbn [negb andb orb].
  - apply IH. intros n' v' Hin. apply H. right. exact Hin.
  - destruct (IH s (write t n v) k) as [H1 H2].
    { intros n' v' Hin. cbn [write cellof]. apply H. right. exact Hin. }
    cbn [write cellof] in H1, H2. split; [|exact H2]. rewrite H1.
    assert (Ev : v = store s (cellof t n)) by (apply H; left; reflexivity).
    destruct (existsb _ l) eqn:El.
    + rewrite orb_true_r. reflexivity.
    + rewrite orb_false_r. unfold write; cbn [store]. destruct (Nat.eqb k (cellof t n)) eqn:Ek; [|reflexivity].
      apply Nat.eqb_eq in Ek. rewrite Ek. exact Ev.
Qed.

Lemma save_load_identity (s t : st) neg n :
  cellof t = cellof s -> allnames t = allnames s ->
  In n (allnames s) ->
  (forall k, mem k neg = true -> read t k = read s k) ->
  read (load (save s) neg t) n = read s n.
Proof.
  intros Hc Ha Hin Hneg.
  destruct (load_store (save s) neg s t (cellof t n)) as [H1 H2].
  { intros k v Hk. unfold save, get_params in Hk. apply in_map_iff in Hk as (k' & E & _). inversion E; subst.
    unfold read. rewrite Hc. reflexivity. }
  unfold read. rewrite H2, H1. destruct (existsb _ (save s)) eqn:Ee.
  - rewrite Hc. reflexivity.
  - destruct (mem n neg) eqn:En.
    + specialize (Hneg n En). unfold read in Hneg. rewrite Hc in *. exact Hneg.
    + exfalso. rewrite <- not_true_iff_false in Ee. apply Ee. apply existsb_exists.
      exists (n, read s n). split.
      * unfold save, get_params. apply in_map_iff. exists n. split; [reflexivity | exact Hin].
      * cbn [fst]. rewrite En, Nat.eqb_refl. reflexivity.
Qed.

(* ---------- the tree before the repair: standard_complex flipped a FIXED negative radius ---------- *)
Definition ex_s : st := mkSt (fun n => n) (fun k => match k with 0%nat => -1 | _ => 0 end) [0%nat; 1%nat] [1%nat] [] [(0%nat, 1%nat)].

Lemma std_old_flips_fixed : read (standard_complex_old ex_s) 0%nat = 1 /\ read ex_s 0%nat = -1 /\ ~ In 0%nat (train ex_s).
Proof.
  unfold standard_complex_old, std_one_old, ex_s, read; cbn.
  split; [|split; [reflexivity | intros [H|[]]; discriminate]].
  destruct (Rlt_dec (-1) 0) as [_|N]; [|exfalso; apply N; lra].
  rewrite Rabs_left by lra. lra.
Qed.

Lemma std_new_keeps_fixed skip : read (standard_complex skip ex_s) 0%nat = -1.
Proof. rewrite std_fixed_untouched; [reflexivity|]. cbn. intros [H|[]]; discriminate. Qed.

(* ---------- the phase wrap of std_polar (stored since /repo 7a94ee8) ---------- *)
Lemma trig_plus_2PI x : cos (x + 2 * PI) = cos x /\ sin (x + 2 * PI) = sin x.
Proof. rewrite cos_plus, sin_plus, cos_2PI, sin_2PI. split; ring. Qed.
Lemma trig_minus_2PI x : cos (x - 2 * PI) = cos x /\ sin (x - 2 * PI) = sin x.
Proof.
  destruct (trig_plus_2PI (x - 2 * PI)) as [A B]. replace (x - 2 * PI + 2 * PI) with x in A, B by ring.
  split; symmetry; assumption.
Qed.
Lemma wrap1_trig x : cos (wrap1 x) = cos x /\ sin (wrap1 x) = sin x.
Proof.
  unfold wrap1. destruct (Rlt_dec x (- PI)); [apply trig_plus_2PI|].
  destruct (Rle_dec PI x); [apply trig_minus_2PI|split; reflexivity].
Qed.
(* the standardised phase describes the same complex number ... *)
Theorem wrap_phase_same_value x : cos (wrap_phase x) = cos x /\ sin (wrap_phase x) = sin x.
Proof. unfold wrap_phase. apply wrap1_trig. Qed.
(* ... and lies in [-pi, pi) for every phase one step can reach *)
Lemma wrap1_step x a : 0 <= a -> - (2 * a + 3) * PI <= x < (2 * a + 3) * PI ->
  - (2 * a + 1) * PI <= wrap1 x < (2 * a + 1) * PI.
Proof.
  intros Ha [H1 H2]. pose proof PI_RGT_0 as P. unfold wrap1.
  destruct (Rlt_dec x (- PI)) as [L|L]; [|destruct (Rle_dec PI x) as [G|G]]; nra.
Qed.
Theorem wrap_phase_range x : - 3 * PI <= x < 3 * PI -> - PI <= wrap_phase x < PI.
Proof.
  intros H. unfold wrap_phase. pose proof (wrap1_step x 0 ltac:(lra)) as C. lra.
Qed.

(* ---------- the result written to a file and loaded into a fresh model (every branch, iminuit included) ---------- *)
Lemma result_is_save m opt bd s : r_params (snd (fit m opt bd s)) = save (fst (fit m opt bd s)).
Proof. destruct m; reflexivity. Qed.

Lemma result_save_load m opt bd (s t : st) neg n :
  cellof t = cellof s -> allnames t = allnames s -> In n (allnames s) ->
  (forall k, mem k neg = true -> read t k = read (fst (fit m opt bd s)) k) ->
  read (load (r_params (snd (fit m opt bd s))) neg t) n = read (fst (fit m opt bd s)) n.
Proof.
  intros Hc Ha Hin Hneg. rewrite result_is_save. destruct (fit_shape m opt bd s) as (A & B & _).
  apply save_load_identity; [congruence | congruence | rewrite B; exact Hin | exact Hneg].
Qed.

(* the iminuit branch before the repair: the result omitted the fixed names, and a fresh model whose fixed value differs
   (the default fixed chain total is drawn at random by every model build) is NOT brought to the fitted point by the file *)
Definition ex_m_s : st := mkSt (fun n => n) (fun _ => 1) [0%nat; 1%nat] [1%nat] [] [].
Definition ex_m_t : st := mkSt (fun n => n) (fun _ => 0) [0%nat; 1%nat] [1%nat] [] [].
Lemma minuit_old_save_load_refuted :
  cellof ex_m_t = cellof ex_m_s /\ allnames ex_m_t = allnames ex_m_s /\ In 0%nat (allnames ex_m_s) /\
  ~ In 0%nat (map fst (r_params (snd (fit_minuit_old (fun _ => ([1], 0)) [] ex_m_s)))) /\
  read (load (r_params (snd (fit_minuit_old (fun _ => ([1], 0)) [] ex_m_s))) [] ex_m_t) 0%nat
    <> read (fst (fit_minuit_old (fun _ => ([1], 0)) [] ex_m_s)) 0%nat.
Proof.
  repeat split; [left; reflexivity | cbn; intros [H|[]]; discriminate |].
  unfold read; cbn. lra.
Qed.

(* ---------- the early return of the library's own guard (LargeNumberError) ---------- *)
Lemma fit_except_is_newton : fit_except = fit M_newton.
Proof. reflexivity. Qed.

Lemma except_bnd_empty opt bd s : bnd (fst (fit_except opt bd s)) = [].
Proof. reflexivity. Qed.

Lemma except_old_leaks_bounds opt bd s : bd <> [] -> bnd (fst (fit_except_old opt bd s)) <> [].
Proof.
  intros H. cbn [fit_except_old fst]. unfold set_trans_var.
  destruct (set_all_shape (train (set_bound s bd)) (set_bound s bd)
              (trans_vals (bnd (set_bound s bd)) (train (set_bound s bd)) (fst (opt (set_bound s bd))))) as [_ E].
  rewrite E. cbn [set_bound bnd]. destruct bd; [congruence | discriminate].
Qed.

(* ---------- bounds declared on any member of a tie ---------- *)
Definition refines (b' b : bound) : Prop := forall y, in_bound b' y -> in_bound b y.

Lemma refines_refl b : refines b b.
Proof. intros y H; exact H. Qed.
Lemma refines_trans a b c : refines a b -> refines b c -> refines a c.
Proof. intros H1 H2 y H. apply H2, H1, H. Qed.

Lemma isect_refines l u l0 u0 :
  refines (lo_isect l l0, hi_isect u u0) (l, u) /\ refines (lo_isect l l0, hi_isect u u0) (l0, u0).
Proof.
  split; intros y; destruct l as [a|], l0 as [a0|], u as [b|], u0 as [b0|]; cbn [lo_isect hi_isect in_bound];
    repeat match goal with |- context [Rlt_dec ?p ?q] => destruct (Rlt_dec p q) end; intros; lra.
Qed.

Lemma norm_step_acc s acc nb h bh :
  lookup acc h = Some bh -> exists b', lookup (norm_step s acc nb) h = Some b' /\ refines b' bh.
Proof.
  intros H. unfold norm_step. cbn [lookup]. destruct (Nat.eqb (head_of s (fst nb)) h) eqn:E.
  - apply Nat.eqb_eq in E. rewrite E, H. eexists; split; [reflexivity|].
    destruct bh as [l0 u0]. cbn [fst snd]. apply isect_refines.
  - exists bh. split; [exact H | apply refines_refl].
Qed.

Lemma norm_step_new s acc k b :
  exists b', lookup (norm_step s acc (k, b)) (head_of s k) = Some b' /\ refines b' b.
Proof.
  unfold norm_step. cbn [lookup fst snd]. rewrite Nat.eqb_refl. eexists; split; [reflexivity|].
  destruct b as [l u]. cbn [fst snd]. apply isect_refines.
Qed.

Lemma norm_fold_acc s bd : forall acc h bh,
  lookup acc h = Some bh -> exists b', lookup (fold_left (norm_step s) bd acc) h = Some b' /\ refines b' bh.
Proof.
  induction bd as [|nb bd IH]; intros acc h bh H; [exists bh; split; [exact H | apply refines_refl]|].
  cbn [fold_left]. destruct (norm_step_acc s acc nb h bh H) as (b1 & H1 & R1).
  destruct (IH _ h b1 H1) as (b2 & H2 & R2). exists b2. split; [exact H2 | eapply refines_trans; eassumption].
Qed.

Lemma norm_fold_new s bd : forall acc k b,
  In (k, b) bd -> exists b', lookup (fold_left (norm_step s) bd acc) (head_of s k) = Some b' /\ refines b' b.
Proof.
  induction bd as [|nb bd IH]; intros acc k b Hin; [destruct Hin|]. cbn [fold_left]. destruct Hin as [E|Hin].
  - subst nb. destruct (norm_step_new s acc k b) as (b1 & H1 & R1).
    destruct (norm_fold_acc s bd _ _ b1 H1) as (b2 & H2 & R2). exists b2. split; [exact H2 | eapply refines_trans; eassumption].
  - apply IH, Hin.
Qed.

(* every declared bound is enforced through the entry of the listed name of its cell *)
Lemma norm_bounds_refines s bd k b :
  In (k, b) bd -> exists b', lookup (norm_bounds s bd) (head_of s k) = Some b' /\ refines b' b.
Proof. apply norm_fold_new. Qed.

Lemma head_fold s k l : forall h,
  (forall t, In t l -> cellof s t <> cellof s k) -> fold_left (fun h t => if Nat.eqb (cellof s t) (cellof s k) then t else h) l h = h.
Proof.
  induction l as [|a l IH]; intros h H; [reflexivity|]. cbn [fold_left].
  assert (E : Nat.eqb (cellof s a) (cellof s k) = false) by (apply Nat.eqb_neq, H; left; reflexivity).
  rewrite E. apply IH. intros t Ht. apply H. right. exact Ht.
Qed.

Lemma head_of_listed s k n :
  NoDup (map (cellof s) (train s)) -> In n (train s) -> cellof s k = cellof s n -> head_of s k = n.
Proof.
  intros Hnd Hin Hc. unfold head_of.
  assert (G : forall h, fold_left (fun h t => if Nat.eqb (cellof s t) (cellof s k) then t else h) (train s) h = n).
  { revert Hnd Hin. induction (train s) as [|a l IH]; intros Hnd Hin h; [destruct Hin|].
    cbn [fold_left map] in *. inversion Hnd as [|? ? Hnot Hnd']; subst. destruct Hin as [E|Hin].
    - subst a. rewrite Hc, Nat.eqb_refl. apply head_fold. intros t Ht E. apply Hnot. rewrite <- E. apply in_map, Ht.
    - apply IH; assumption. }
  apply G.
Qed.

(* a bound declared on ANY member k of a tie holds for the shared value after a fit in the transforming branches ... *)
Lemma tied_bounded_inside_transforming (newton : bool) opt bd s i n k b :
  let m := if newton then M_newton else M_bfgs in
  NoDup (map (cellof s) (train s)) -> nth_error (train s) i = Some n -> cellof s k = cellof s n -> In (k, b) bd ->
  (forall b', lookup (norm_bounds s bd) n = Some b' -> bound_ok b') ->
  length (fst (opt (set_bound s (norm_bounds s bd)))) = length (train s) -> polar_untied s n ->
  in_bound b (read (fst (fit_cfg m opt bd s)) k).
Proof.
  intros m Hnd Hn Hc Hin Hok Hlen Hu.
  assert (Hh : head_of s k = n) by (apply head_of_listed; [exact Hnd | eapply nth_error_In; exact Hn | exact Hc]).
  destruct (norm_bounds_refines s bd k b Hin) as (b' & Hl & R). rewrite Hh in Hl.
  unfold fit_cfg. rewrite (tied_equal m opt (norm_bounds s bd) s k n Hc). apply R.
  apply (bounded_inside_transforming newton opt (norm_bounds s bd) s i n b'); auto.
Qed.

(* ... and in the box-constrained branches under the contract that the optimiser answers inside the box it was given *)
Lemma tied_bounded_inside_box (minuit : bool) opt bd s i n k b :
  let m := if minuit then M_minuit else M_lbfgsb in
  NoDup (map (cellof s) (train s)) -> nth_error (train s) i = Some n -> cellof s k = cellof s n -> In (k, b) bd ->
  length (fst (opt s)) = length (train s) -> polar_untied s n ->
  (forall b', lookup (norm_bounds s bd) n = Some b' -> in_bound b' (nth i (fst (opt s)) 0)) ->
  in_bound b (read (fst (fit_cfg m opt bd s)) k).
Proof.
  intros m Hnd Hn Hc Hin Hlen Hu Hbox.
  assert (Hh : head_of s k = n) by (apply head_of_listed; [exact Hnd | eapply nth_error_In; exact Hn | exact Hc]).
  destruct (norm_bounds_refines s bd k b Hin) as (b' & Hl & R). rewrite Hh in Hl.
  unfold fit_cfg. rewrite (tied_equal m opt (norm_bounds s bd) s k n Hc). apply R.
  apply (bounded_inside_box minuit opt (norm_bounds s bd) s i n b'); auto.
Qed.

(* the tree before the repair used the dictionary as given: a bound on a name that is not the listed one of its tie is never
   looked up; with the optimiser answering x the shared value is x, whatever the bound *)
Definition ex_t_s : st := mkSt (fun n => 0%nat) (fun _ => 0) [0%nat; 1%nat] [0%nat] [] [].
Lemma tied_bound_old_ignored x f :
  read (fst (fit M_bfgs (fun _ => ([x], f)) [(1%nat, (Some 0, Some 1))] ex_t_s)) 1%nat = x /\
  0 <= read (fst (fit_cfg M_bfgs (fun _ => ([x], f)) [(1%nat, (Some 0, Some 1))] ex_t_s)) 1%nat <= 1.
Proof.
  split; [unfold read; cbn; reflexivity|].
  unfold read; cbn. pose proof (SIN_bound x). lra.
Qed.
