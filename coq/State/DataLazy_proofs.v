(* C18 - LazyCall WITH extra entries: merging the lazily produced batches {**f(x_i), **extra_i}
   gives the eager value {**f(x), **extra}.  Anchors: tf_pwa/data.py LazyCall.eval / __iter__ /
   _extra_batches (after d64dc15), data_merge.  Model: State/Data.v; earlier lemmas: State/Data_proofs.v.

   Result (model after /repo 81b15cd: the extra entries follow the data batches).
   * lazy_with_extra_eq_eager: the full statement C18_lazy_full_statement of Props/Properties_C18.v,
     exactly as written (hypothesis on extra: `uniform n extra` only), holds for lazy_batches.
     No hypothesis on the keys of fn's results is needed: `commutes fn` (quantified over ALL pieces)
     already forces fn to return the same number of entries on every batch (fn_width_const).
   * the intermediate iteration lazy_batches_d64 (d64dc15 .. 81b15cd) violated it: a non-empty extra
     WITHOUT any array was split on its own with the bound MAX_ITER (mx); when x needs more batches
     than mx the zip stopped early (lazy_d64_array_free_extra_refuted).  lazy_d64_with_extra is what
     that version satisfied. *)
From Coq Require Import ZArith List Bool Arith Lia.
From TFV Require Import State.Data State.Data_proofs.
Import ListNotations.

(* ------------------------------------------------------------------ lists *)
Lemma seq_0_S_pred : forall K, 1 <= K -> seq 0 K = 0 :: seq 1 (K - 1).
Proof. intros K HK. destruct K as [|K']; [lia|]. replace (S K' - 1) with K' by lia. reflexivity. Qed.

(* ------------------------------------------------------------------ the pieces of a split, as an indexed family *)
Lemma data_split_seq : forall mx b n d, uniform n d -> has_leaf d = true ->
  data_split mx b d = map (fun i => pick b i d) (seq 0 (nbatches n b)).
Proof.
  intros mx b n d Hu Hl. unfold data_split. rewrite Hl. rewrite (proj1 (gen_spec _ b)).
  pose proof (proj1 (uniform_cover b n) d Hu) as Hc.
  pose proof (proj1 (leaf_bound_ge b _) d Hc Hl) as Hle.
  destruct (proj1 (cnt_cases (leaf_bound b d) b _ Hle) d Hc) as [C _].
  rewrite (C Hl). reflexivity.
Qed.

(* with or without arrays: at least nbatches pieces as soon as the bound allows it *)
Lemma data_split_seq_any : forall mx b n d, uniform n d ->
  (has_leaf d = true \/ nbatches n b <= mx) ->
  exists c, nbatches n b <= c /\ data_split mx b d = map (fun i => pick b i d) (seq 0 c).
Proof.
  intros mx b n d Hu Hor. destruct (has_leaf d) eqn:Hl.
  - exists (nbatches n b). split; [lia|]. apply data_split_seq; assumption.
  - destruct Hor as [Hbad|Hmx]; [discriminate|].
    exists mx. split; [exact Hmx|]. unfold data_split. rewrite Hl. rewrite (proj1 (gen_spec _ b)).
    pose proof (proj1 (uniform_cover b n) d Hu) as Hc.
    destruct (proj1 (cnt_cases mx b _ Hmx) d Hc) as [_ C].
    rewrite (C Hl). reflexivity.
Qed.

(* ------------------------------------------------------------------ merging position-wise and {**a, **b} *)
Fixpoint flen (f : forest) : nat := match f with FNil => 0 | FCons _ _ r => S (flen r) end.
Definition fhead (f : forest) : data := match f with FCons _ d _ => d | FNil => Leaf [] end.
Definition ftail (f : forest) : forest := match f with FCons _ _ r => r | FNil => FNil end.

Lemma forest_of_merge : forall d0 others,
  forest_of (merge d0 others) = mergef (forest_of d0) (map forest_of others).
Proof. intros [r|k f] others; reflexivity. Qed.

Lemma heads_tails_nonempty : forall (I : Type) (F : I -> forest) (l : list I),
  (forall i, In i l -> flen (F i) <> 0) ->
  heads_tails (map F l) = Some (map (fun i => fhead (F i)) l, map (fun i => ftail (F i)) l).
Proof.
  induction l as [|i l IH]; intros H; [reflexivity|]. cbn [map heads_tails].
  destruct (F i) as [|key d r] eqn:E.
  - exfalso. apply (H i (or_introl eq_refl)). rewrite E. reflexivity.
  - rewrite IH; [reflexivity|]. intros j Hj. apply H. right. exact Hj.
Qed.

(* the missing lemma: when all first parts have the same number of entries, merging the
   concatenations = concatenating the merges *)
Lemma mergef_fapp : forall (I : Type) (l : list I) (Es : I -> forest) E0 A0 (As : I -> forest),
  (forall i, In i l -> flen (As i) = flen A0) ->
  mergef (fapp A0 E0) (map (fun i => fapp (As i) (Es i)) l) =
  fapp (mergef A0 (map As l)) (mergef E0 (map Es l)).
Proof.
  intros I l Es E0. induction A0 as [|key d r IH]; intros As Hlen.
  - cbn [fapp mergef]. f_equal. apply map_ext_in. intros i Hi.
    specialize (Hlen i Hi). destruct (As i); [reflexivity|discriminate].
  - cbn [fapp mergef].
    rewrite (heads_tails_nonempty I (fun i => fapp (As i) (Es i)) l).
    2:{ intros i Hi. specialize (Hlen i Hi). destruct (As i); [discriminate|cbn; lia]. }
    rewrite (heads_tails_nonempty I As l).
    2:{ intros i Hi. rewrite (Hlen i Hi). cbn. lia. }
    cbn [fapp]. f_equal.
    + f_equal. apply map_ext_in. intros i Hi. specialize (Hlen i Hi).
      destruct (As i); [discriminate|reflexivity].
    + rewrite <- (IH (fun i => ftail (As i))).
      * f_equal. apply map_ext_in. intros i Hi. specialize (Hlen i Hi).
        destruct (As i); [discriminate|reflexivity].
      * intros i Hi. specialize (Hlen i Hi). destruct (As i); [discriminate|].
        cbn [flen ftail] in *. lia.
Qed.

(* ------------------------------------------------------------------ commutes fn fixes the width of fn on all batches *)
(* the structure with every array replaced by an empty dict *)
Fixpoint blank (d : data) : data :=
  match d with
  | Leaf _ => Node KDict FNil
  | Node k f => Node k (blankf f)
  end
with blankf (f : forest) : forest :=
  match f with
  | FNil => FNil
  | FCons key d r => FCons key (blank d) (blankf r)
  end.

Lemma merge_blank_r : forall b i,
  (forall d, merge (pick b i d) [blank d] = pick b i d) /\
  (forall f, mergef (pickf b i f) [blankf f] = pickf b i f).
Proof.
  intros b i. apply data_forest_ind.
  - intros r. cbn. rewrite app_nil_r. reflexivity.
  - intros k f IH. cbn [pick blank merge map forest_of]. rewrite IH. reflexivity.
  - reflexivity.
  - intros key d IHd r IHr. cbn [pickf blankf mergef heads_tails]. rewrite IHd, IHr. reflexivity.
Qed.

Lemma merge_blank_l : forall b i,
  (forall d, merge (blank d) [pick b i d] = blank d) /\
  (forall f, mergef (blankf f) [pickf b i f] = blankf f).
Proof.
  intros b i. apply data_forest_ind.
  - intros r. reflexivity.
  - intros k f IH. cbn [pick blank merge map forest_of]. rewrite IH. reflexivity.
  - reflexivity.
  - intros key d IHd r IHr. cbn [pickf blankf mergef heads_tails]. rewrite IHd, IHr. reflexivity.
Qed.

Lemma flen_mergef_le : forall A B, flen (mergef A [B]) <= flen B.
Proof.
  induction A as [|key d r IH]; intros B; [cbn; lia|].
  destruct B as [|key' d' r']; [cbn; lia|].
  cbn [mergef heads_tails flen]. specialize (IH r'). lia.
Qed.

Lemma flen_merge_fix : forall u v, merge u [v] = u -> flen (forest_of u) <= flen (forest_of v).
Proof.
  intros [r|k A] v H; [cbn; lia|]. cbn [merge map forest_of] in *.
  injection H as H. rewrite <- H at 1. apply flen_mergef_le.
Qed.

(* fn returns the same number of entries on every batch of d *)
Lemma fn_width_const : forall fn b d i j, commutes fn ->
  flen (forest_of (fn (pick b i d))) = flen (forest_of (fn (pick b j d))).
Proof.
  intros fn b d i j Hf.
  assert (Hle : forall i', flen (forest_of (fn (pick b i' d))) <= flen (forest_of (fn (blank d)))).
  { intros i'. apply flen_merge_fix.
    pose proof (Hf (pick b i' d) [blank d]) as E. cbn [map] in E. rewrite E.
    rewrite (proj1 (merge_blank_r b i')). reflexivity. }
  assert (Hge : forall i', flen (forest_of (fn (blank d))) <= flen (forest_of (fn (pick b i' d)))).
  { intros i'. apply flen_merge_fix.
    pose proof (Hf (blank d) [pick b i' d]) as E. cbn [map] in E. rewrite E.
    rewrite (proj1 (merge_blank_l b i')). reflexivity. }
  pose proof (Hle i). pose proof (Hge i). pose proof (Hle j). pose proof (Hge j). lia.
Qed.

(* ------------------------------------------------------------------ lazy = eager with extra entries *)
(* core: the batches of x zipped with at least as many pieces of extra *)
Lemma lazy_zip_core : forall fn b n x extra c, commutes fn ->
  0 < b -> 0 < n -> uniform n x -> uniform n extra -> nbatches n b <= c ->
  merge_all (zipw dict_union (map fn (map (fun i => pick b i x) (seq 0 (nbatches n b))))
                             (map (fun i => pick b i extra) (seq 0 c)))
  = Some (lazy_eval fn x extra).
Proof.
  intros fn b n x extra c Hf Hb Hn Hu Hue Hc.
  pose proof (nbatches_pos n b Hn) as HK.
  rewrite map_map, zipw_map_seq.
  rewrite (Nat.min_l _ _ Hc), (seq_0_S_pred _ HK).
  cbn [map merge_all]. f_equal.
  unfold lazy_eval, dict_union. cbn [merge]. f_equal.
  rewrite map_map. cbn [forest_of].
  rewrite (mergef_fapp nat (seq 1 (nbatches n b - 1))
             (fun i => forest_of (pick b i extra)) (forest_of (pick b 0 extra))
             (forest_of (fn (pick b 0 x))) (fun i => forest_of (fn (pick b i x)))).
  2:{ intros i _. apply fn_width_const. exact Hf. }
  f_equal.
  - rewrite <- (map_map (fun i => fn (pick b i x)) forest_of), <- forest_of_merge.
    rewrite <- (map_map (fun i => pick b i x) fn), Hf.
    rewrite (proj1 (merge_picks b _ Hb HK) x (proj1 (uniform_cover b n) x Hu)). reflexivity.
  - rewrite <- (map_map (fun i => pick b i extra) forest_of), <- forest_of_merge.
    rewrite (proj1 (merge_picks b _ Hb HK) extra (proj1 (uniform_cover b n) extra Hue)). reflexivity.
Qed.

(* FINAL: LazyCall with extra entries, current iteration (extra follows the data batches): the full
   statement of Props/Properties_C18.v (C18_lazy_full_statement), exactly as written there *)
Theorem lazy_with_extra_eq_eager : forall fn mx b n x extra, commutes fn ->
  0 < b -> 0 < n -> uniform n x -> has_leaf x = true -> uniform n extra ->
  merge_all (lazy_batches fn mx b x extra) = Some (lazy_eval fn x extra).
Proof.
  intros fn mx b n x extra Hf Hb Hn Hu Hl Hue.
  unfold lazy_batches. cbv zeta.
  rewrite (data_split_seq mx b n x Hu Hl), map_length, seq_length.
  destruct (data_split_seq_any (nbatches n b) b n extra Hue (or_intror (le_n _))) as [c [Hc Hse]].
  rewrite Hse. apply lazy_zip_core; assumption.
Qed.

(* the empty extra of Data_proofs.lazy_eq_eager is an instance *)
Corollary lazy_eq_eager_instance : forall fn mx b n x, commutes fn ->
  0 < b -> 0 < n -> uniform n x -> has_leaf x = true ->
  merge_all (lazy_batches fn mx b x empty_dict) = Some (lazy_eval fn x empty_dict).
Proof.
  intros fn mx b n x Hf Hb Hn Hu Hl.
  apply (lazy_with_extra_eq_eager fn mx b n x empty_dict); auto. exact I.
Qed.

(* ------------------------------------------------------------------ the intermediate iteration (d64dc15 .. 81b15cd) *)
(* empty extra ({}; in the model any value without children): the batches repeat {} *)
Lemma lazy_d64_empty_extra : forall fn mx b n x extra, commutes fn ->
  0 < b -> 0 < n -> uniform n x -> has_leaf x = true -> forest_of extra = FNil ->
  merge_all (lazy_batches_d64 fn mx b x extra) = Some (lazy_eval fn x extra).
Proof.
  intros fn mx b n x extra Hf Hb Hn Hu Hl HE.
  unfold lazy_batches_d64, lazy_eval, dict_union. rewrite HE.
  assert (Hw : commutes (fun p => wrap (fn p))).
  { intros d0 others. rewrite <- (map_map fn wrap), wrap_commutes, Hf. reflexivity. }
  exact (batch_call_eq (fun p => wrap (fn p)) mx b n x Hw Hb Hn Hu Hl).
Qed.

(* what that version did satisfy: extra empty, or with an array, or no more batches than MAX_ITER *)
Theorem lazy_d64_with_extra : forall fn mx b n x extra, commutes fn ->
  0 < b -> 0 < n -> uniform n x -> has_leaf x = true -> uniform n extra ->
  (forest_of extra = FNil \/ has_leaf extra = true \/ nbatches n b <= mx) ->
  merge_all (lazy_batches_d64 fn mx b x extra) = Some (lazy_eval fn x extra).
Proof.
  intros fn mx b n x extra Hf Hb Hn Hu Hl Hue Hor.
  destruct (forest_of extra) as [|ekey ed er] eqn:HE.
  { apply (lazy_d64_empty_extra fn mx b n x extra); assumption. }
  destruct Hor as [Hbad|Hor]; [discriminate|].
  destruct (data_split_seq_any mx b n extra Hue Hor) as [c [Hc Hse]].
  unfold lazy_batches_d64. rewrite HE.
  rewrite (data_split_seq mx b n x Hu Hl), Hse. apply lazy_zip_core; assumption.
Qed.

(* the full statement for the intermediate version *)
Definition lazy_d64_full_statement : Prop :=
  forall fn mx b n x extra, commutes fn ->
    0 < b -> 0 < n -> uniform n x -> has_leaf x = true -> uniform n extra ->
    merge_all (lazy_batches_d64 fn mx b x extra) = Some (lazy_eval fn x extra).

Definition cx_x : data := Node KDict (FCons 0%Z (Leaf [1%Z; 2%Z]) FNil).
(* extra = {7: {}}: not empty (so it was split, not repeated), no array (so MAX_ITER bounded its copies) *)
Definition cx_extra : data := Node KDict (FCons 7%Z (Node KDict FNil) FNil).

Lemma id_commutes : commutes (fun d => d).
Proof. intros d0 others. rewrite map_id. reflexivity. Qed.

(* witness: fn = identity, MAX_ITER = 1, batch = 1, x = {0: [1,2]}, extra = {7: {}}:
   intermediate version: only the first batch survives the zip, the row 2 is lost;
   current version: both batches, the merge is the eager value *)
Example lazy_d64_array_free_extra_witness :
  uniform 2 cx_x /\ has_leaf cx_x = true /\ uniform 2 cx_extra /\ has_leaf cx_extra = false /\
  merge_all (lazy_batches_d64 (fun d => d) 1 1 cx_x cx_extra)
    = Some (Node KDict (FCons 0%Z (Leaf [1%Z]) (FCons 7%Z (Node KDict FNil) FNil))) /\
  lazy_eval (fun d => d) cx_x cx_extra
    = Node KDict (FCons 0%Z (Leaf [1%Z; 2%Z]) (FCons 7%Z (Node KDict FNil) FNil)) /\
  length (lazy_batches (fun d => d) 1 1 cx_x cx_extra) = 2 /\
  merge_all (lazy_batches (fun d => d) 1 1 cx_x cx_extra) = Some (lazy_eval (fun d => d) cx_x cx_extra).
Proof. vm_compute. repeat split; reflexivity. Qed.

Example lazy_d64_array_free_extra_refuted :
  ~ lazy_d64_full_statement /\
  merge_all (lazy_batches (fun d => d) 1 1 cx_x cx_extra) = Some (lazy_eval (fun d => d) cx_x cx_extra).
Proof.
  split; [|vm_compute; reflexivity].
  intros H.
  assert (U : uniform 2 cx_x) by (cbn; auto).
  assert (Ue : uniform 2 cx_extra) by (cbn; auto).
  specialize (H (fun d => d) 1 1 2 cx_x cx_extra id_commutes (le_n 1) (le_S _ _ (le_n 1)) U eq_refl Ue).
  vm_compute in H. discriminate H.
Qed.

(* with MAX_ITER = 0 the intermediate version yielded nothing at all (data_merge would fail its
   assertion); the current one is not affected by MAX_ITER *)
Example lazy_d64_array_free_extra_none :
  merge_all (lazy_batches_d64 (fun d => d) 0 1 cx_x cx_extra) = None /\
  merge_all (lazy_batches (fun d => d) 0 1 cx_x cx_extra) = Some (lazy_eval (fun d => d) cx_x cx_extra).
Proof. vm_compute. split; reflexivity. Qed.

(* ------------------------------------------------------------------ non-vacuity *)
Definition ex_fn : data -> data := map_leaves (affine 2 1).
(* x = {1: [1..5], 2: [ [10,20,30,40,50], () ]} *)
Definition ex_x : data :=
  Node KDict (FCons 1%Z (Leaf [1%Z; 2%Z; 3%Z; 4%Z; 5%Z])
             (FCons 2%Z (Node KList (FCons 0%Z (Leaf [10%Z; 20%Z; 30%Z; 40%Z; 50%Z])
                                    (FCons 1%Z (Node KTuple FNil) FNil))) FNil)).
(* extra = {3: [7,8,9,10,11], 4: {5: [0,1,0,1,0]}} *)
Definition ex_extra : data :=
  Node KDict (FCons 3%Z (Leaf [7%Z; 8%Z; 9%Z; 10%Z; 11%Z])
             (FCons 4%Z (Node KDict (FCons 5%Z (Leaf [0%Z; 1%Z; 0%Z; 1%Z; 0%Z]) FNil)) FNil)).

(* both sides computed: three batches (2 + 2 + 1 rows), merged back = eager value *)
Example lazy_with_extra_example :
  length (lazy_batches ex_fn 1000 2 ex_x ex_extra) = 3 /\
  nth 2 (lazy_batches ex_fn 1000 2 ex_x ex_extra) (Leaf []) =
    Node KDict (FCons 1%Z (Leaf [11%Z])
               (FCons 2%Z (Node KList (FCons 0%Z (Leaf [101%Z]) (FCons 1%Z (Node KTuple FNil) FNil)))
               (FCons 3%Z (Leaf [11%Z])
               (FCons 4%Z (Node KDict (FCons 5%Z (Leaf [0%Z]) FNil)) FNil)))) /\
  lazy_eval ex_fn ex_x ex_extra =
    Node KDict (FCons 1%Z (Leaf [3%Z; 5%Z; 7%Z; 9%Z; 11%Z])
               (FCons 2%Z (Node KList (FCons 0%Z (Leaf [21%Z; 41%Z; 61%Z; 81%Z; 101%Z])
                                      (FCons 1%Z (Node KTuple FNil) FNil)))
               (FCons 3%Z (Leaf [7%Z; 8%Z; 9%Z; 10%Z; 11%Z])
               (FCons 4%Z (Node KDict (FCons 5%Z (Leaf [0%Z; 1%Z; 0%Z; 1%Z; 0%Z]) FNil)) FNil)))) /\
  merge_all (lazy_batches ex_fn 1000 2 ex_x ex_extra) = Some (lazy_eval ex_fn ex_x ex_extra).
Proof. vm_compute. repeat split; reflexivity. Qed.

(* the hypotheses of the theorem are satisfiable on the same data: the theorem gives the same equation *)
Example lazy_with_extra_example_by_theorem :
  merge_all (lazy_batches ex_fn 1000 2 ex_x ex_extra) = Some (lazy_eval ex_fn ex_x ex_extra).
Proof.
  apply (lazy_with_extra_eq_eager ex_fn 1000 2 5 ex_x ex_extra).
  - apply map_leaves_commutes. apply affine_additive.
  - lia.
  - lia.
  - cbn. auto.
  - reflexivity.
  - cbn. auto.
Qed.

(* an extra made of empty containers only follows the data batches too *)
Example lazy_with_array_free_extra_example :
  let extra := Node KDict (FCons 3%Z (Node KDict FNil) (FCons 4%Z (Node KList (FCons 0%Z (Node KTuple FNil) FNil)) FNil)) in
  length (lazy_batches ex_fn 1 2 ex_x extra) = 3 /\
  merge_all (lazy_batches ex_fn 1 2 ex_x extra) = Some (lazy_eval ex_fn ex_x extra).
Proof. vm_compute. split; reflexivity. Qed.

Print Assumptions lazy_with_extra_eq_eager.
Print Assumptions lazy_d64_array_free_extra_refuted.

(* ================================================================== repairs of 2026-10 (C18 hunt) *)
(* ------------------------------------------------------------------ LazyFile = LazyCall(identity) *)
Lemma commutes_id : commutes (fun d => d).
Proof. intros d0 others. rewrite map_id. reflexivity. Qed.

Theorem lazyfile_eq_eager : forall mx b n x extra,
  0 < b -> 0 < n -> uniform n x -> has_leaf x = true -> uniform n extra ->
  merge_all (lazy_batches (fun d => d) mx b x extra) = Some (lazy_eval (fun d => d) x extra).
Proof. intros. apply (lazy_with_extra_eq_eager (fun d => d) mx b n); auto using commutes_id. Qed.

Definition lf_x := Node KDict (FCons 0%Z (Leaf [1; 2; 3]%Z) FNil).
Definition lf_extra := Node KDict (FCons 1%Z (Leaf [11; 12; 13]%Z) FNil).
(* the old eval() and the old second pass lose the extra entries that the first pass yields *)
Theorem lazyfile_old_refuted :
  uniform 3 lf_x /\ uniform 3 lf_extra /\ has_leaf lf_x = true /\
  merge_all (lazy_batches (fun d => d) 1000 2 lf_x lf_extra) <> Some (lazyfile_eval_old lf_x lf_extra) /\
  merge_all (lazyfile_batches_again_old 1000 2 lf_x lf_extra) <> merge_all (lazy_batches (fun d => d) 1000 2 lf_x lf_extra) /\
  merge_all (lazy_batches (fun d => d) 1000 2 lf_x lf_extra) = Some (lazy_eval (fun d => d) lf_x lf_extra).
Proof.
  repeat split; try (cbn; auto; fail); try reflexivity; vm_compute; discriminate.
Qed.

(* ------------------------------------------------------------------ shared inner LazyCall *)
Lemma lazy_shared_same : forall fn mx b x extra,
  lazy_batches_shared fn mx b b x extra = lazy_batches fn mx b x extra.
Proof. reflexivity. Qed.

Theorem lazy_shared_eq_eager : forall fn mx b n x extra, commutes fn ->
  0 < b -> 0 < n -> uniform n x -> has_leaf x = true -> uniform n extra ->
  merge_all (lazy_batches_shared fn mx b b x extra) = Some (lazy_eval fn x extra).
Proof. intros. rewrite lazy_shared_same. eapply lazy_with_extra_eq_eager; eauto. Qed.

Definition sh_x := Node KDict (FCons 0%Z (Leaf [1; 2; 3; 4]%Z) FNil).
Definition sh_extra := Node KDict (FCons 1%Z (Leaf [11; 12; 13; 14]%Z) FNil).
(* inner batch size 1 (set through the other object), own batch size 2: two one-row pieces of x meet the
   two two-row pieces of the extra: rows 3, 4 are lost and the weights no longer belong to the events *)
Theorem lazy_shared_inner_old_refuted :
  commutes (fun d => d) /\ uniform 4 sh_x /\ uniform 4 sh_extra /\ has_leaf sh_x = true /\
  merge_all (lazy_batches_shared (fun d => d) 1000 1 2 sh_x sh_extra) =
    Some (Node KDict (FCons 0%Z (Leaf [1; 2]%Z) (FCons 1%Z (Leaf [11; 12; 13; 14]%Z) FNil))) /\
  merge_all (lazy_batches_shared (fun d => d) 1000 1 2 sh_x sh_extra) <> Some (lazy_eval (fun d => d) sh_x sh_extra).
Proof.
  split; [exact commutes_id|].
  repeat split; try (cbn; auto; fail); try reflexivity; vm_compute; discriminate.
Qed.

(* ------------------------------------------------------------------ axis = -1 *)
Lemma map_nth_seq : forall (A : Type) (l : list A) (d : A), map (fun j => nth j l d) (seq 0 (length l)) = l.
Proof.
  intros A l d. apply (nth_ext _ _ d d).
  - rewrite map_length, seq_length. reflexivity.
  - intros k Hk. rewrite map_length, seq_length in Hk.
    rewrite (nth_indep _ d (nth (length l) l d)) by (rewrite map_length, seq_length; exact Hk).
    rewrite (map_nth (fun j => nth j l d) (seq 0 (length l)) (length l) k).
    rewrite seq_nth by exact Hk. reflexivity.
Qed.

Theorem split_concat_last_id : forall b n (m : mat),
  0 < b -> 0 < n -> m <> [] -> (forall r, In r m -> length r = n) ->
  concat_last (split_last b m) = m.
Proof.
  intros b n m Hb Hn Hm Hr.
  destruct m as [|r0 m']; [congruence|]. clear Hm.
  set (m := r0 :: m') in *.
  assert (L0 : length r0 = n) by (apply Hr; left; reflexivity).
  set (K := length (chunk b r0)).
  assert (HK : 1 <= K).
  { apply chunk_nonempty. intro E. subst r0. cbn in L0. lia. }
  unfold concat_last, split_last. change (hd [] m) with r0. fold K.
  assert (Hhd : length (hd [] (map (fun j => map (fun r => nth j (chunk b r) []) m) (seq 0 K))) = length m).
  { rewrite (seq_0_S_pred K HK). cbn [map hd]. rewrite map_length. reflexivity. }
  rewrite Hhd.
  rewrite <- (map_nth_seq _ m []) at 2.
  apply map_ext_in. intros i Hi. apply in_seq in Hi.
  rewrite map_map.
  assert (Li : length (nth i m []) = n) by (apply Hr; apply nth_In; lia).
  rewrite (map_ext_in _ (fun j => nth j (chunk b (nth i m [])) [])).
  - replace K with (length (chunk b (nth i m []))).
    + rewrite map_nth_seq. apply chunk_concat. exact Hb.
    + unfold K. apply chunk_length_dep. lia.
  - intros j _.
    rewrite (nth_indep _ [] ((fun r => nth j (chunk b r) []) [])) by (rewrite map_length; lia).
    rewrite (map_nth (fun r => nth j (chunk b r) [])). reflexivity.
Qed.

(* before the repair a nested array split along the last axis was merged along the FIRST one *)
Theorem merge_axis_old_refuted :
  let m := [[1; 2; 3; 4]; [11; 12; 13; 14]]%Z in
  concat_first (split_last 2 m) = [[1; 2]; [11; 12]; [3; 4]; [13; 14]]%Z /\
  concat_first (split_last 2 m) <> m /\ concat_last (split_last 2 m) = m.
Proof. vm_compute. repeat split; try reflexivity. discriminate. Qed.

Print Assumptions lazyfile_eq_eager.
Print Assumptions lazy_shared_inner_old_refuted.
Print Assumptions split_concat_last_id.
