(* Clebsch-Gordan coefficients by Racah's closed form, as exact radicals:
   <j1 m1 j2 m2 | J M> = S * sqrt(A) with S, A rational.  All arguments doubled.  Definitions only. *)
From Coq Require Import List ZArith QArith.
From TFV Require Import Rot.Wigner.
Import ListNotations.
Open Scope Z_scope.

Definition cg_valid (j1 m1 j2 m2 J M : Z) : bool :=
  (0 <=? j1) && (0 <=? j2) && (0 <=? J) &&
  (Z.abs m1 <=? j1) && (Z.abs m2 <=? j2) && (Z.abs M <=? J) &&
  Z.even (j1 + m1) && Z.even (j2 + m2) && Z.even (J + M) &&
  (M =? m1 + m2) && (Z.abs (j1 - j2) <=? J) && (J <=? j1 + j2) && Z.even (j1 + j2 + J).

(* k (doubled) ranges over values making every factorial argument non-negative *)
Definition cg_k_range (j1 m1 j2 m2 J : Z) : list Z :=
  let lo := Z.max 0 (Z.max (j2 - J - m1) (j1 + m2 - J)) in
  let hi := Z.min (j1 + j2 - J) (Z.min (j1 - m1) (j2 + m2)) in
  map (fun i => lo + 2 * Z.of_nat i) (seq 0 (Z.to_nat ((hi - lo) / 2 + 1))).

Definition cg_sum (j1 m1 j2 m2 J : Z) : Q :=
  fold_right (fun k acc =>
      Qplus ((if Z.even (k / 2) then 1 else -1) #
             Z.to_pos (fh k * fh (j1 + j2 - J - k) * fh (j1 - m1 - k) * fh (j2 + m2 - k)
                       * fh (J - j2 + m1 + k) * fh (J - j1 - m2 + k))) acc)
    (0 # 1) (cg_k_range j1 m1 j2 m2 J).

Definition cg_A (j1 m1 j2 m2 J M : Z) : Q :=
  ((J + 1) * fh (J + j1 - j2) * fh (J - j1 + j2) * fh (j1 + j2 - J)
   * fh (J + M) * fh (J - M) * fh (j1 - m1) * fh (j1 + m1) * fh (j2 - m2) * fh (j2 + m2))
  # Z.to_pos (fh (j1 + j2 + J + 2)).

(* squared value and sign *)
Definition cg_sq (j1 m1 j2 m2 J M : Z) : Q :=
  if cg_valid j1 m1 j2 m2 J M
  then Qred (cg_sum j1 m1 j2 m2 J * cg_sum j1 m1 j2 m2 J * cg_A j1 m1 j2 m2 J M) else 0#1.
Definition cg_sign (j1 m1 j2 m2 J M : Z) : Z :=
  if cg_valid j1 m1 j2 m2 J M then
    match Qnum (Qred (cg_sum j1 m1 j2 m2 J)) with Z0 => 0 | Zpos _ => 1 | Zneg _ => -1 end
  else 0.

(* one implementation value w (exact rational of the float) against the radical *)
Definition cg_ok (tol : Q) (c : Z * Z * Z * Z * Z * Z * Q) : bool :=
  let '(j1, m1, j2, m2, J, M, w) := c in
  let d := (w * w - cg_sq j1 m1 j2 m2 J M)%Q in
  Qle_bool (- tol) d && Qle_bool d tol &&
  match cg_sign j1 m1 j2 m2 J M with
  | 0 => true
  | Zpos _ => Qle_bool 0 w
  | Zneg _ => Qle_bool w 0
  end.

(* lookup with the symmetry sign of get_cg_coef: swap (j1,m1)<->(j2,m2) costs (-1)^(j1+j2-J) *)
Definition cg_swap_sign (j1 j2 J : Z) : Z := if Z.even ((j1 + j2 - J) / 2) then 1 else -1.
