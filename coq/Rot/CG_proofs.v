From Coq Require Import List ZArith QArith Bool Lia.
From TFV Require Import Rot.Wigner Rot.CG.
Import ListNotations.
Open Scope Z_scope.

Definition spins8 : list Z := [0;1;2;3;4;5;6;7;8].
Definition mrange (j : Z) : list Z := m_range j.

(* normalisation: for every (j1, j2, J, M) allowed, sum over m1 of CG^2 = 1 *)
Definition norm_ok (j1 j2 : Z) : bool :=
  forallb (fun J =>
    forallb (fun M =>
      if (Z.abs (j1 - j2) <=? J) && (J <=? j1 + j2) && Z.even (j1 + j2 + J) then
        Qeq_bool (fold_right (fun m1 acc => Qplus (cg_sq j1 m1 j2 (M - m1) J M) acc) (0#1) (mrange j1)) (1#1)
      else true) (mrange J))
    (map Z.of_nat (seq 0 17)).

Lemma cg_normalised_le8 : forallb (fun j1 => forallb (fun j2 => norm_ok j1 j2) spins8) spins8 = true.
Proof. vm_compute. reflexivity. Qed.

(* exchange symmetry used by the table lookup: <j2 m2 j1 m1|J M> = (-1)^(j1+j2-J) <j1 m1 j2 m2|J M> *)
Definition swap_ok (j1 j2 : Z) : bool :=
  forallb (fun m1 => forallb (fun m2 => forallb (fun J =>
     let M := m1 + m2 in
     Qeq_bool (cg_sq j2 m2 j1 m1 J M) (cg_sq j1 m1 j2 m2 J M) &&
     (cg_sign j2 m2 j1 m1 J M =? cg_swap_sign j1 j2 J * cg_sign j1 m1 j2 m2 J M))
     (filter (fun J => (Z.abs (j1 - j2) <=? J) && (J <=? j1 + j2) && Z.even (j1 + j2 + J)) (map Z.of_nat (seq 0 17))))
     (mrange j2)) (mrange j1).

Lemma cg_swap_le8 : forallb (fun j1 => forallb (fun j2 => swap_ok j1 j2) spins8) spins8 = true.
Proof. vm_compute. reflexivity. Qed.

(* m -> -m symmetry: <j1 -m1 j2 -m2|J -M> = (-1)^(j1+j2-J) <j1 m1 j2 m2|J M> *)
Definition flip_ok (j1 j2 : Z) : bool :=
  forallb (fun m1 => forallb (fun m2 => forallb (fun J =>
     let M := m1 + m2 in
     Qeq_bool (cg_sq j1 (- m1) j2 (- m2) J (- M)) (cg_sq j1 m1 j2 m2 J M) &&
     (cg_sign j1 (- m1) j2 (- m2) J (- M) =? cg_swap_sign j1 j2 J * cg_sign j1 m1 j2 m2 J M))
     (filter (fun J => (Z.abs (j1 - j2) <=? J) && (J <=? j1 + j2) && Z.even (j1 + j2 + J)) (map Z.of_nat (seq 0 17))))
     (mrange j2)) (mrange j1).

Lemma cg_flip_le8 : forallb (fun j1 => forallb (fun j2 => flip_ok j1 j2) spins8) spins8 = true.
Proof. vm_compute. reflexivity. Qed.
