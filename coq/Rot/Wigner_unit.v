From Coq Require Import Reals List ZArith Lra Lia.
From TFV Require Import Base.RBase Rot.Wigner.
Import ListNotations.
Open Scope R_scope.

Ltac rcompute := cbv -[Rplus Rminus Rmult Rdiv Ropp Rinv Rabs Rle Rlt IZR pow sqrt cos sin atan exp ln PI].

(* The 2 x 285 polynomial identities behind unitarity (slow file, kept separate) *)
(* Gram sums of the rational parts *)
Definition gram (j2 m2 k2 : Z) (c s : R) : R :=
  fold_right (fun n2 acc => IZR (a_of j2 n2) * dtilde j2 m2 n2 c s * dtilde j2 k2 n2 c s + acc) 0 (m_range j2).
Definition gram_col (j2 m2 k2 : Z) (c s : R) : R :=
  fold_right (fun n2 acc => IZR (a_of j2 n2) * dtilde j2 n2 m2 c s * dtilde j2 n2 k2 c s + acc) 0 (m_range j2).
Definition delta (m k : Z) : R := if Z.eqb m k then 1 else 0.

Definition all_jmk : list (Z * Z * Z) :=
  flat_map (fun j2 => flat_map (fun m => map (fun k => (j2, m, k)) (m_range j2)) (m_range j2))
           (map Z.of_nat (seq 0 9)).

Definition unit_stmt (t : Z * Z * Z) : Prop :=
  forall c s, gram (fst (fst t)) (snd (fst t)) (snd t) c s * IZR (a_of (fst (fst t)) (snd (fst t)))
              = delta (snd (fst t)) (snd t) * (c * c + s * s) ^ Z.to_nat (fst (fst t)).
Definition unit_col_stmt (t : Z * Z * Z) : Prop :=
  forall c s, gram_col (fst (fst t)) (snd (fst t)) (snd t) c s * IZR (a_of (fst (fst t)) (snd (fst t)))
              = delta (snd (fst t)) (snd t) * (c * c + s * s) ^ Z.to_nat (fst (fst t)).

(* 285 homogeneous polynomial identities, each closed by field *)
Lemma unit_all : Forall unit_stmt all_jmk.
Proof.
  let l := eval vm_compute in all_jmk in change (Forall unit_stmt l).
  repeat (apply Forall_cons; [unfold unit_stmt; intros c s; rcompute; field | ]).
  apply Forall_nil.
Qed.

Lemma unit_col_all : Forall unit_col_stmt all_jmk.
Proof.
  let l := eval vm_compute in all_jmk in change (Forall unit_col_stmt l).
  repeat (apply Forall_cons; [unfold unit_col_stmt; intros c s; rcompute; field | ]).
  apply Forall_nil.
Qed.

Lemma in_all_jmk j2 m2 k2 :
  (0 <= j2 <= 8)%Z -> In m2 (m_range j2) -> In k2 (m_range j2) -> In (j2, m2, k2) all_jmk.
Proof.
  intros Hj Hm Hk. unfold all_jmk. apply in_flat_map. exists j2. split.
  - apply in_map_iff. exists (Z.to_nat j2). split; [lia|]. apply in_seq. lia.
  - apply in_flat_map. exists m2. split; [exact Hm|]. apply in_map_iff. exists k2. split; [reflexivity|exact Hk].
Qed.

Lemma gram_identity j2 m2 k2 c s :
  (0 <= j2 <= 8)%Z -> In m2 (m_range j2) -> In k2 (m_range j2) ->
  gram j2 m2 k2 c s * IZR (a_of j2 m2) = delta m2 k2 * (c * c + s * s) ^ Z.to_nat j2.
Proof.
  intros Hj Hm Hk. pose proof unit_all as U. rewrite Forall_forall in U.
  exact (U (j2, m2, k2) (in_all_jmk j2 m2 k2 Hj Hm Hk) c s).
Qed.

Lemma gram_col_identity j2 m2 k2 c s :
  (0 <= j2 <= 8)%Z -> In m2 (m_range j2) -> In k2 (m_range j2) ->
  gram_col j2 m2 k2 c s * IZR (a_of j2 m2) = delta m2 k2 * (c * c + s * s) ^ Z.to_nat j2.
Proof.
  intros Hj Hm Hk. pose proof unit_col_all as U. rewrite Forall_forall in U.
  exact (U (j2, m2, k2) (in_all_jmk j2 m2 k2 Hj Hm Hk) c s).
Qed.

