(* Applications of the D-matrix group law (Rot/DHom.v):
   (A) C02: a change of alignment reference multiplies all chain amplitudes by one common spin-j
       matrix; when that matrix is a (conjugated) Euler rotation the helicity-summed density is unchanged.
   (B) C12: the Euler angles extracted by SU2M.get_euler_angle (tf_pwa/angle.py) reproduce the
       SU(2) element. *)
From Coq Require Import Reals List ZArith Lra Lia Ring.
From TFV Require Import Base.RBase Shape.LineShapes Amp.Dalitz3 Rot.Wigner Rot.Wigner_unit Rot.Wigner_proofs
     Amp.Unitary Amp.Unitary_proofs.
From Coquelicot Require Import Complex.
From TFV Require Import Rot.DHom_ids Rot.DHom.
Import ListNotations.
Open Scope R_scope.

(* ---------- bridge: the project's pair arithmetic is Coquelicot's ---------- *)
Lemma Cmul_Cmult (x y : C) : Cmul x y = Cmult x y.
Proof. reflexivity. Qed.
Lemma Cadd_Cplus (x y : C) : Cadd x y = Cplus x y.
Proof. reflexivity. Qed.
Lemma czsum_csum L (f : Z -> C) : czsum L f = csum f L.
Proof. reflexivity. Qed.

(* ---------- finite complex sums ---------- *)
Lemma csum_zero {A} (l : list A) : csum (fun _ => RtoC 0) l = RtoC 0.
Proof. unfold csum. induction l as [|k l IH]; simpl; [reflexivity|]. rewrite IH. ring. Qed.
Lemma csum_plus {A} (f g : A -> C) l : csum (fun k => (f k + g k)%C) l = (csum f l + csum g l)%C.
Proof. unfold csum. induction l as [|k l IH]; simpl; [ring|]. rewrite IH. ring. Qed.
Lemma csum_mul_r {A} (f : A -> C) x l : (csum f l * x)%C = csum (fun k => (f k * x)%C) l.
Proof. unfold csum. induction l as [|k l IH]; simpl; [ring|]. rewrite <- IH. ring. Qed.
Lemma csum_swap {A B} (f : A -> B -> C) l1 l2 :
  csum (fun a => csum (fun b => f a b) l2) l1 = csum (fun b => csum (fun a => f a b) l1) l2.
Proof.
  induction l1 as [|a l1 IH].
  - simpl. rewrite csum_zero. reflexivity.
  - change (csum (fun a0 => csum (fun b => f a0 b) l2) (a :: l1))
      with (csum (fun b => f a b) l2 + csum (fun a0 => csum (fun b => f a0 b) l2) l1)%C.
    rewrite IH, <- csum_plus. reflexivity.
Qed.
Lemma csum_ext_in {A} (f g : A -> C) l : (forall k, In k l -> f k = g k) -> csum f l = csum g l.
Proof. apply tsum_ext_in. Qed.

(* ---------- (A) alignment on the final-state helicity: row vector times D ---------- *)
(* a chain = (helicity vector a : Z -> C, alignment element W : M2) *)
Definition chain : Type := ((Z -> C) * M2)%type.

(* F_f = sum_chains sum_l a_l D^j_{l f}(W) *)
Definition Famp (j2 : Z) (chs : list chain) (f : Z) : C :=
  fold_right (fun ch acc => (csum (fun l => (fst ch l * DmatM j2 l f (snd ch))%C) (m_range j2) + acc)%C)
             (RtoC 0) chs.
(* every alignment element multiplied on the right by a common G *)
Definition realign (G : M2) (chs : list chain) : list chain :=
  map (fun ch => (fst ch, mmul (snd ch) G)) chs.

Lemma Famp_cons j2 ch chs f :
  Famp j2 (ch :: chs) f
  = (csum (fun l => (fst ch l * DmatM j2 l f (snd ch))%C) (m_range j2) + Famp j2 chs f)%C.
Proof. reflexivity. Qed.

Lemma row_times_product j2 (a : Z -> C) (W G : M2) f :
  (0 <= j2 <= 8)%Z -> In f (m_range j2) ->
  csum (fun l => (a l * DmatM j2 l f (mmul W G))%C) (m_range j2)
  = csum (fun l' => (csum (fun l => (a l * DmatM j2 l l' W)%C) (m_range j2) * DmatM j2 l' f G)%C) (m_range j2).
Proof.
  intros Hj Hf.
  rewrite (csum_ext_in _ (fun l => csum (fun k => (a l * DmatM j2 l k W * DmatM j2 k f G)%C) (m_range j2))).
  2:{ intros l Hl. rewrite (D_group_law j2 l f W G Hj Hl Hf), csum_scal.
      apply tsum_ext. intros k. ring. }
  rewrite csum_swap. apply tsum_ext. intros k. rewrite csum_mul_r. reflexivity.
Qed.

Theorem align_ref_change_is_common_matrix j2 (chs : list chain) (G : M2) f :
  (0 <= j2 <= 8)%Z -> In f (m_range j2) ->
  Famp j2 (realign G chs) f = csum (fun l' => (Famp j2 chs l' * DmatM j2 l' f G)%C) (m_range j2).
Proof.
  intros Hj Hf. induction chs as [|[a W] chs IH].
  - cbn [realign map Famp fold_right]. symmetry.
    rewrite (csum_ext_in _ (fun _ => RtoC 0)); [apply csum_zero | intros k _; ring].
  - change (realign G ((a, W) :: chs)) with ((a, mmul W G) :: realign G chs).
    rewrite !Famp_cons. cbn [fst snd]. rewrite IH.
    rewrite (csum_ext_in _ _ _ (fun l' _ => f_equal (fun z => (z * DmatM j2 l' f G)%C) (Famp_cons j2 (a, W) chs l'))).
    cbn [fst snd]. rewrite (row_times_product j2 a W G f Hj Hf).
    rewrite <- csum_plus. apply tsum_ext. intros k. ring.
Qed.

(* with G a conjugated Euler rotation, this is the action D_apply_right of the model's Dconj *)
Lemma realign_is_D_apply_right j2 (chs : list chain) al be ga f :
  (0 <= j2 <= 8)%Z -> In f (m_range j2) ->
  Famp j2 (realign (mconj (Euler al be ga)) chs) f = D_apply_right j2 al be ga (Famp j2 chs) f.
Proof.
  intros Hj Hf. rewrite (align_ref_change_is_common_matrix j2 chs _ f Hj Hf).
  unfold D_apply_right. rewrite czsum_csum. apply csum_ext_in. intros l Hl.
  rewrite (Dconj_is_Dmat j2 l f al be ga Hj Hl Hf). reflexivity.
Qed.

Theorem align_ref_change_preserves_density j2 (chs : list chain) al be ga :
  (0 <= j2 <= 8)%Z ->
  zsum (m_range j2) (fun f => Cnorm2 (Famp j2 (realign (mconj (Euler al be ga)) chs) f))
  = zsum (m_range j2) (fun l => Cnorm2 (Famp j2 chs l)).
Proof.
  intros Hj.
  rewrite (zsum_ext _ _ (fun f => Cnorm2 (D_apply_right j2 al be ga (Famp j2 chs) f))).
  2:{ intros f Hf. rewrite (realign_is_D_apply_right j2 chs al be ga f Hj Hf). reflexivity. }
  exact (D_removes_alignment j2 al be ga (Famp j2 chs) Hj).
Qed.

(* ---------- mirror: common matrix on the LEFT of the parent index ---------- *)
(* H_lam = sum_chains sum_mu D^j_{lam mu}(W) b_mu *)
Definition Hamp (j2 : Z) (chs : list chain) (lam : Z) : C :=
  fold_right (fun ch acc => (csum (fun mu => (DmatM j2 lam mu (snd ch) * fst ch mu)%C) (m_range j2) + acc)%C)
             (RtoC 0) chs.
Definition realign_left (G : M2) (chs : list chain) : list chain :=
  map (fun ch => (fst ch, mmul G (snd ch))) chs.

Lemma Hamp_cons j2 ch chs lam :
  Hamp j2 (ch :: chs) lam
  = (csum (fun mu => (DmatM j2 lam mu (snd ch) * fst ch mu)%C) (m_range j2) + Hamp j2 chs lam)%C.
Proof. reflexivity. Qed.

Lemma product_times_col j2 (b : Z -> C) (G W : M2) lam :
  (0 <= j2 <= 8)%Z -> In lam (m_range j2) ->
  csum (fun mu => (DmatM j2 lam mu (mmul G W) * b mu)%C) (m_range j2)
  = csum (fun k => (DmatM j2 lam k G * csum (fun mu => (DmatM j2 k mu W * b mu)%C) (m_range j2))%C) (m_range j2).
Proof.
  intros Hj Hl.
  rewrite (csum_ext_in _ (fun mu => csum (fun k => (DmatM j2 lam k G * (DmatM j2 k mu W * b mu))%C) (m_range j2))).
  2:{ intros mu Hmu. rewrite (D_group_law j2 lam mu G W Hj Hl Hmu), csum_mul_r.
      apply tsum_ext. intros k. ring. }
  rewrite csum_swap. apply tsum_ext. intros k. rewrite csum_scal. reflexivity.
Qed.

Theorem align_left_change_is_common_matrix j2 (chs : list chain) (G : M2) lam :
  (0 <= j2 <= 8)%Z -> In lam (m_range j2) ->
  Hamp j2 (realign_left G chs) lam = csum (fun k => (DmatM j2 lam k G * Hamp j2 chs k)%C) (m_range j2).
Proof.
  intros Hj Hl. induction chs as [|[b W] chs IH].
  - cbn [realign_left map Hamp fold_right]. symmetry.
    rewrite (csum_ext_in _ (fun _ => RtoC 0)); [apply csum_zero | intros k _; ring].
  - change (realign_left G ((b, W) :: chs)) with ((b, mmul G W) :: realign_left G chs).
    rewrite !Hamp_cons. cbn [fst snd]. rewrite IH.
    rewrite (csum_ext_in _ _ _ (fun k _ => f_equal (fun z => (DmatM j2 lam k G * z)%C) (Hamp_cons j2 (b, W) chs k))).
    cbn [fst snd]. rewrite (product_times_col j2 b G W lam Hj Hl).
    rewrite <- csum_plus. apply tsum_ext. intros k. ring.
Qed.

Theorem align_left_change_preserves_density j2 (chs : list chain) al be ga :
  (0 <= j2 <= 8)%Z ->
  zsum (m_range j2) (fun lam => Cnorm2 (Hamp j2 (realign_left (mconj (Euler al be ga)) chs) lam))
  = zsum (m_range j2) (fun mu => Cnorm2 (Hamp j2 chs mu)).
Proof.
  intros Hj.
  rewrite (zsum_ext _ _ (fun lam => Cnorm2 (D_apply j2 al be ga (Hamp j2 chs) lam))).
  2:{ intros lam Hl. rewrite (align_left_change_is_common_matrix j2 chs _ lam Hj Hl).
      unfold D_apply. rewrite czsum_csum. f_equal. apply csum_ext_in. intros k Hk.
      rewrite (Dconj_is_Dmat j2 lam k al be ga Hj Hl Hk). reflexivity. }
  exact (D_removes_rotation j2 al be ga (Hamp j2 chs) Hj).
Qed.

(* ---------- (B) Euler angles extracted from an SU(2) element ---------- *)
Lemma dsmall_half_pp b : dsmall 1 1 1 b = cos (b / 2).
Proof. unfold dsmall, dsmall_cs. rcompute. rewrite sqrt_1. field. Qed.
Lemma dsmall_half_pm b : dsmall 1 1 (-1) b = - sin (b / 2).
Proof. unfold dsmall, dsmall_cs. rcompute. rewrite sqrt_1. field. Qed.
Lemma dsmall_half_mp b : dsmall 1 (-1) 1 b = sin (b / 2).
Proof. unfold dsmall, dsmall_cs. rcompute. rewrite sqrt_1. field. Qed.
Lemma dsmall_half_mm b : dsmall 1 (-1) (-1) b = cos (b / 2).
Proof. unfold dsmall, dsmall_cs. rcompute. rewrite sqrt_1. field. Qed.

Lemma Cmod_sq (z : C) : Cmod z ^ 2 = fst z * fst z + snd z * snd z.
Proof. unfold Cmod. rewrite pow2_sqrt; [ring|]. nra. Qed.

(* half-angle: on [0, PI], cos(beta/2) and sin(beta/2) are the nonnegative roots *)
Lemma half_angle beta r1 r0 :
  0 <= beta <= PI -> 0 <= r1 -> 0 <= r0 -> r1 ^ 2 + r0 ^ 2 = 1 -> cos beta = r1 ^ 2 - r0 ^ 2 ->
  cos (beta / 2) = r1 /\ sin (beta / 2) = r0.
Proof.
  intros Hb H1 H0 Hn Hc.
  assert (Hch : 0 <= cos (beta / 2)) by (apply cos_ge_0; lra).
  assert (Hsh : 0 <= sin (beta / 2)) by (apply sin_ge_0; lra).
  pose proof (cos_2a_cos (beta / 2)) as E1. pose proof (cos_2a_sin (beta / 2)) as E2.
  replace (2 * (beta / 2)) with beta in E1, E2 by field.
  split; apply Rsqr_inj; try assumption; unfold Rsqr; nra.
Qed.

(* SU2M.get_euler_angle, general form: x = [[x00,x01],[x10,x11]] with x00 = conj x11, x01 = -conj x10,
   |x11|^2 + |x10|^2 = 1; apg, amg any reals with |x11| e^{i apg} = x11 and |x10| e^{-i amg} = x10
   (no condition on amg when x10 = 0, none on apg when x11 = 0); beta in [0,PI] with
   cos beta = Re (x00 x11 + x01 x10).  Then x_{mn} = Dconj 1 n2 m2 (apg+amg) beta (apg-amg),
   matrix index 0 <-> m = -1/2, index 1 <-> m = +1/2. *)
Theorem euler_extract_reproduces_gen (x00 x01 x10 x11 : C) apg amg beta :
  x00 = Cconj x11 -> x01 = Copp (Cconj x10) ->
  Cmod x11 ^ 2 + Cmod x10 ^ 2 = 1 ->
  cos apg * Cmod x11 = fst x11 -> sin apg * Cmod x11 = snd x11 ->
  cos amg * Cmod x10 = fst x10 -> sin amg * Cmod x10 = - snd x10 ->
  0 <= beta <= PI -> cos beta = fst (x00 * x11 + x01 * x10)%C ->
  Dconj 1 (-1) (-1) (apg + amg) beta (apg - amg) = x00 /\
  Dconj 1 1 (-1) (apg + amg) beta (apg - amg) = x01 /\
  Dconj 1 (-1) 1 (apg + amg) beta (apg - amg) = x10 /\
  Dconj 1 1 1 (apg + amg) beta (apg - amg) = x11.
Proof.
  intros E00 E01 Hn Hc1 Hs1 Hc0 Hs0 Hb Hcb.
  assert (Hcb' : cos beta = Cmod x11 ^ 2 - Cmod x10 ^ 2).
  { rewrite Hcb, E00, E01, !Cmod_sq. destruct x11 as [p1 q1], x10 as [p0 q0]. simpl. ring. }
  destruct (half_angle beta (Cmod x11) (Cmod x10) Hb (Cmod_ge_0 _) (Cmod_ge_0 _) Hn Hcb') as [Hch Hsh].
  subst x00 x01. unfold Dconj.
  rewrite dsmall_half_mm, dsmall_half_pm, dsmall_half_mp, dsmall_half_pp, Hch, Hsh.
  replace (IZR (-1) / 2 * (apg + amg) + IZR (-1) / 2 * (apg - amg)) with (- apg) by field.
  replace (IZR 1 / 2 * (apg + amg) + IZR (-1) / 2 * (apg - amg)) with amg by field.
  replace (IZR (-1) / 2 * (apg + amg) + IZR 1 / 2 * (apg - amg)) with (- amg) by field.
  replace (IZR 1 / 2 * (apg + amg) + IZR 1 / 2 * (apg - amg)) with apg by field.
  rewrite !cos_neg, !sin_neg.
  destruct x11 as [p1 q1], x10 as [p0 q0]. unfold Cconj, Copp. simpl fst in *. simpl snd in *.
  repeat split; f_equal; lra.
Qed.

(* the code since /repo a129335: beta = 2 atan2(|x10|, |x11|).  The contract of atan2 on the unit vector (|x11|, |x10|) of
   the first quadrant is  cos(beta/2) = |x11|, sin(beta/2) = |x10|  (no range condition is needed: it enters only through
   these two values); the acos form above is the special case obtained through half_angle. *)
Theorem euler_extract_reproduces_atan2 (x00 x01 x10 x11 : C) apg amg beta :
  x00 = Cconj x11 -> x01 = Copp (Cconj x10) ->
  cos apg * Cmod x11 = fst x11 -> sin apg * Cmod x11 = snd x11 ->
  cos amg * Cmod x10 = fst x10 -> sin amg * Cmod x10 = - snd x10 ->
  cos (beta / 2) = Cmod x11 -> sin (beta / 2) = Cmod x10 ->
  Dconj 1 (-1) (-1) (apg + amg) beta (apg - amg) = x00 /\
  Dconj 1 1 (-1) (apg + amg) beta (apg - amg) = x01 /\
  Dconj 1 (-1) 1 (apg + amg) beta (apg - amg) = x10 /\
  Dconj 1 1 1 (apg + amg) beta (apg - amg) = x11.
Proof.
  intros E00 E01 Hc1 Hs1 Hc0 Hs0 Hch Hsh.
  subst x00 x01. unfold Dconj.
  rewrite dsmall_half_mm, dsmall_half_pm, dsmall_half_mp, dsmall_half_pp, Hch, Hsh.
  replace (IZR (-1) / 2 * (apg + amg) + IZR (-1) / 2 * (apg - amg)) with (- apg) by field.
  replace (IZR 1 / 2 * (apg + amg) + IZR (-1) / 2 * (apg - amg)) with amg by field.
  replace (IZR (-1) / 2 * (apg + amg) + IZR 1 / 2 * (apg - amg)) with (- amg) by field.
  replace (IZR 1 / 2 * (apg + amg) + IZR 1 / 2 * (apg - amg)) with apg by field.
  rewrite !cos_neg, !sin_neg.
  destruct x11 as [p1 q1], x10 as [p0 q0]. unfold Cconj, Copp. simpl fst in *. simpl snd in *.
  repeat split; f_equal; lra.
Qed.

(* the two extractions agree on SU(2): an angle with the atan2 contract in [0, PI] has the acos contract *)
Lemma atan2_contract_is_acos_contract (x00 x01 x10 x11 : C) beta :
  x00 = Cconj x11 -> x01 = Copp (Cconj x10) ->
  cos (beta / 2) = Cmod x11 -> sin (beta / 2) = Cmod x10 ->
  cos beta = fst (x00 * x11 + x01 * x10)%C.
Proof.
  intros E00 E01 Hch Hsh.
  replace beta with (2 * (beta / 2)) at 1 by field.
  rewrite cos_2a, Hch, Hsh, E00, E01.
  replace (Cmod x11 * Cmod x11) with (Cmod x11 ^ 2) by ring.
  replace (Cmod x10 * Cmod x10) with (Cmod x10 ^ 2) by ring.
  rewrite !Cmod_sq. destruct x11 as [p1 q1], x10 as [p0 q0]. simpl. ring.
Qed.

(* the contract of tf.math.angle for nonzero arguments *)
Theorem euler_extract_reproduces (x00 x01 x10 x11 : C) apg amg beta :
  x00 = Cconj x11 -> x01 = Copp (Cconj x10) ->
  Cmod x11 ^ 2 + Cmod x10 ^ 2 = 1 -> x11 <> RtoC 0 -> x10 <> RtoC 0 ->
  cos apg = fst x11 / Cmod x11 -> sin apg = snd x11 / Cmod x11 ->
  cos amg = fst x10 / Cmod x10 -> sin amg = - snd x10 / Cmod x10 ->
  0 <= beta <= PI -> cos beta = fst (x00 * x11 + x01 * x10)%C ->
  Dconj 1 (-1) (-1) (apg + amg) beta (apg - amg) = x00 /\
  Dconj 1 1 (-1) (apg + amg) beta (apg - amg) = x01 /\
  Dconj 1 (-1) 1 (apg + amg) beta (apg - amg) = x10 /\
  Dconj 1 1 1 (apg + amg) beta (apg - amg) = x11.
Proof.
  intros E00 E01 Hn N1 N0 Hc1 Hs1 Hc0 Hs0 Hb Hcb.
  pose proof (Cmod_gt_0 x11) as [P1 _]. specialize (P1 N1).
  pose proof (Cmod_gt_0 x10) as [P0 _]. specialize (P0 N0).
  apply (euler_extract_reproduces_gen x00 x01 x10 x11 apg amg beta); try assumption.
  - rewrite Hc1. field. lra.
  - rewrite Hs1. field. lra.
  - rewrite Hc0. field. lra.
  - rewrite Hs0. field. lra.
Qed.

(* edge beta = 0 (x10 = 0): only apg = (alpha+gamma)/2 is determined; any amg reproduces x *)
Corollary euler_extract_beta0 (x00 x01 x11 : C) apg amg beta :
  x00 = Cconj x11 -> x01 = RtoC 0 -> Cmod x11 = 1 ->
  cos apg = fst x11 -> sin apg = snd x11 ->
  0 <= beta <= PI -> cos beta = fst (x00 * x11 + x01 * RtoC 0)%C ->
  Dconj 1 (-1) (-1) (apg + amg) beta (apg - amg) = x00 /\
  Dconj 1 1 (-1) (apg + amg) beta (apg - amg) = x01 /\
  Dconj 1 (-1) 1 (apg + amg) beta (apg - amg) = RtoC 0 /\
  Dconj 1 1 1 (apg + amg) beta (apg - amg) = x11.
Proof.
  intros E00 E01 Hm Hc Hs Hb Hcb.
  apply (euler_extract_reproduces_gen x00 x01 (RtoC 0) x11 apg amg beta); try assumption.
  - rewrite E01. unfold Cconj, Copp, RtoC. simpl. f_equal; ring.
  - rewrite Hm, Cmod_0. ring.
  - rewrite Hm. lra.
  - rewrite Hm. lra.
  - rewrite Cmod_0. simpl. ring.
  - rewrite Cmod_0. simpl. ring.
Qed.

(* edge beta = PI (x11 = 0): only amg = (alpha-gamma)/2 is determined; any apg reproduces x *)
Corollary euler_extract_betaPI (x00 x01 x10 : C) apg amg beta :
  x00 = RtoC 0 -> x01 = Copp (Cconj x10) -> Cmod x10 = 1 ->
  cos amg = fst x10 -> sin amg = - snd x10 ->
  0 <= beta <= PI -> cos beta = fst (x00 * RtoC 0 + x01 * x10)%C ->
  Dconj 1 (-1) (-1) (apg + amg) beta (apg - amg) = x00 /\
  Dconj 1 1 (-1) (apg + amg) beta (apg - amg) = x01 /\
  Dconj 1 (-1) 1 (apg + amg) beta (apg - amg) = x10 /\
  Dconj 1 1 1 (apg + amg) beta (apg - amg) = RtoC 0.
Proof.
  intros E00 E01 Hm Hc Hs Hb Hcb.
  apply (euler_extract_reproduces_gen x00 x01 x10 (RtoC 0) apg amg beta); try assumption.
  - rewrite E00. unfold Cconj, RtoC. simpl. f_equal; ring.
  - rewrite Hm, Cmod_0. ring.
  - rewrite Cmod_0. simpl. ring.
  - rewrite Cmod_0. simpl. ring.
  - rewrite Hm. lra.
  - rewrite Hm. lra.
Qed.

(* in matrix form: the conjugated Euler rotation of the extracted angles is x with both indices
   reversed and transposed, i.e. (row +1/2, col -1/2) of conj(Euler) is x01 *)
Corollary euler_extract_matrix (x00 x01 x10 x11 : C) apg amg beta :
  x00 = Cconj x11 -> x01 = Copp (Cconj x10) ->
  Cmod x11 ^ 2 + Cmod x10 ^ 2 = 1 ->
  cos apg * Cmod x11 = fst x11 -> sin apg * Cmod x11 = snd x11 ->
  cos amg * Cmod x10 = fst x10 -> sin amg * Cmod x10 = - snd x10 ->
  0 <= beta <= PI -> cos beta = fst (x00 * x11 + x01 * x10)%C ->
  mconj (Euler (apg + amg) beta (apg - amg)) = (x11, x01, x10, x00).
Proof.
  intros E00 E01 Hn Hc1 Hs1 Hc0 Hs0 Hb Hcb.
  destruct (euler_extract_reproduces_gen x00 x01 x10 x11 apg amg beta E00 E01 Hn Hc1 Hs1 Hc0 Hs0 Hb Hcb)
    as [A [B [Cc D]]].
  assert (Hj : (0 <= 1 <= 8)%Z) by lia.
  assert (Ip : In 1%Z (m_range 1)) by (vm_compute; tauto).
  assert (Im : In (-1)%Z (m_range 1)) by (vm_compute; tauto).
  rewrite (Dconj_is_Dmat 1 (-1) (-1) _ _ _ Hj Im Im) in A.
  rewrite (Dconj_is_Dmat 1 1 (-1) _ _ _ Hj Ip Im) in B.
  rewrite (Dconj_is_Dmat 1 (-1) 1 _ _ _ Hj Im Ip) in Cc.
  rewrite (Dconj_is_Dmat 1 1 1 _ _ _ Hj Ip Ip) in D.
  destruct (mconj (Euler (apg + amg) beta (apg - amg))) as [[[a b] c] d].
  destruct (Dmat_half a b c d) as [Ha [Hb' [Hc Hd]]].
  rewrite Ha in D. rewrite Hb' in B. rewrite Hc in Cc. rewrite Hd in A. subst. reflexivity.
Qed.

Print Assumptions align_ref_change_is_common_matrix.
Print Assumptions align_ref_change_preserves_density.
Print Assumptions align_left_change_preserves_density.
Print Assumptions euler_extract_reproduces_gen.
Print Assumptions euler_extract_reproduces.
Print Assumptions euler_extract_matrix.


(* ---------- C02, massless final particles (restricted helicities): a pure z rotation is a phase ---------- *)
(* d^j(0) = 1: 285 evaluations of the rational part at c = 1, s = 0 *)
Definition d0_stmt (t : Z * Z * Z) : Prop :=
  dtilde (fst (fst t)) (snd (fst t)) (snd t) 1 0 * IZR (a_of (fst (fst t)) (snd (fst t))) = delta (snd (fst t)) (snd t).
Lemma d0_all : Forall d0_stmt all_jmk.
Proof.
  let l := eval vm_compute in all_jmk in change (Forall d0_stmt l).
  repeat (apply Forall_cons; [unfold d0_stmt; rcompute; field | ]).
  apply Forall_nil.
Qed.

Lemma dsmall_zero j2 m2 k2 :
  (0 <= j2 <= 8)%Z -> In m2 (m_range j2) -> In k2 (m_range j2) -> dsmall j2 m2 k2 0 = delta m2 k2.
Proof.
  intros Hj Hm Hk. unfold dsmall. replace (0 / 2) with 0 by field. rewrite cos_0, sin_0.
  pose proof d0_all as U. rewrite Forall_forall in U.
  pose proof (U (j2, m2, k2) (in_all_jmk j2 m2 k2 Hj Hm Hk)) as G. unfold d0_stmt in G. cbn [fst snd] in G.
  assert (Hg : dtilde j2 m2 k2 1 0 = delta m2 k2 / IZR (a_of j2 m2)).
  { apply (Rmult_eq_reg_r (IZR (a_of j2 m2))); [|apply Rgt_not_eq, a_of_Rpos].
    rewrite G. field. apply Rgt_not_eq, a_of_Rpos. }
  unfold dsmall_cs. rewrite Hg, mult_IZR. apply delta_sqrt.
Qed.

Theorem z_rotation_alignment_is_phase j2 alpha gamma (X : Z -> C) f :
  (0 <= j2 <= 8)%Z -> In f (m_range j2) ->
  D_apply_right j2 alpha 0 gamma X f
  = Cmul (cos (IZR f / 2 * (alpha + gamma)), sin (IZR f / 2 * (alpha + gamma))) (X f).
Proof.
  intros Hj Hf. unfold D_apply_right.
  rewrite (czsum_ext (m_range j2) _
            (fun l => Cscal (delta f l) (Cmul (cos (IZR l / 2 * alpha + IZR f / 2 * gamma), sin (IZR l / 2 * alpha + IZR f / 2 * gamma)) (X l)))).
  2:{ intros l Hl. unfold Dconj. rewrite (dsmall_zero j2 l f Hj Hl Hf).
      replace (delta l f) with (delta f l) by (unfold delta; rewrite Z.eqb_sym; reflexivity).
      destruct (X l) as [x y]. unfold Cmul, Cscal; simpl. f_equal; ring. }
  apply injective_projections.
  - rewrite czsum_fst.
    rewrite (zsum_ext (m_range j2) _ (fun l => delta f l * fst (Cmul (cos (IZR l / 2 * alpha + IZR f / 2 * gamma), sin (IZR l / 2 * alpha + IZR f / 2 * gamma)) (X l)))).
    2:{ intros l _. unfold Cscal. reflexivity. }
    rewrite (zsum_delta (m_range j2) _ f (m_range_nodup j2) Hf).
    replace (IZR f / 2 * alpha + IZR f / 2 * gamma) with (IZR f / 2 * (alpha + gamma)) by ring. reflexivity.
  - rewrite czsum_snd.
    rewrite (zsum_ext (m_range j2) _ (fun l => delta f l * snd (Cmul (cos (IZR l / 2 * alpha + IZR f / 2 * gamma), sin (IZR l / 2 * alpha + IZR f / 2 * gamma)) (X l)))).
    2:{ intros l _. unfold Cscal. reflexivity. }
    rewrite (zsum_delta (m_range j2) _ f (m_range_nodup j2) Hf).
    replace (IZR f / 2 * alpha + IZR f / 2 * gamma) with (IZR f / 2 * (alpha + gamma)) by ring. reflexivity.
Qed.

(* hence any sub-list S of helicities (the `spins` of a massless particle) keeps its summed squared modulus *)
Theorem z_rotation_alignment_restricted j2 alpha gamma (X : Z -> C) (S : list Z) :
  (0 <= j2 <= 8)%Z -> (forall f, In f S -> In f (m_range j2)) ->
  zsum S (fun f => Cnorm2 (D_apply_right j2 alpha 0 gamma X f)) = zsum S (fun f => Cnorm2 (X f)).
Proof.
  intros Hj HS. apply zsum_ext. intros f Hf.
  rewrite (z_rotation_alignment_is_phase j2 alpha gamma X f Hj (HS f Hf)). apply Cnorm2_phase.
Qed.
Print Assumptions z_rotation_alignment_restricted.
