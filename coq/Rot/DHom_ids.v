(* Symmetric-power (spin-j) matrices of a 2x2 matrix over an arbitrary commutative ring, and the
   enumerated polynomial identities (2j <= 8) behind the group law of the Wigner D matrices.
   Slow file: 4 x 285 identities closed by ring / field.  The theorems are in DHom.v. *)
From Coq Require Import Reals List ZArith Lra Lia Ring.
From TFV Require Import Base.RBase Rot.Wigner Rot.Wigner_unit.
Import ListNotations.

(* binomial coefficients (Pascal), computable *)
Fixpoint binom (n k : nat) : N :=
  match k, n with
  | O, _ => 1%N
  | S _, O => 0%N
  | S k', S n' => (binom n' k' + binom n' k)%N
  end.

(* j+m and j-m from doubled indices *)
Definition hp (j2 m2 : Z) : nat := Z.to_nat ((j2 + m2) / 2).
Definition hm (j2 m2 : Z) : nat := Z.to_nat ((j2 - m2) / 2).

(* summation range of the x-power taken from the first factor *)
Definition psym_idx (p q q' : nat) : list nat :=
  filter (fun i => (p - i <=? q')%nat) (seq 0 (S (Nat.min p q))).

Section Gen.
Variables (T : Type) (tO tI : T) (tadd tmul tsub : T -> T -> T) (topp : T -> T).

Fixpoint tpow (x : T) (n : nat) : T := match n with O => tI | S k => tmul x (tpow x k) end.
(* integer constants written with 1, +, * only, so that ring sees them as constants *)
Fixpoint tofpos (p : positive) : T :=
  match p with
  | xH => tI
  | xO q => tmul (tadd tI tI) (tofpos q)
  | xI q => tadd tI (tmul (tadd tI tI) (tofpos q))
  end.
Definition tofN (n : N) : T := match n with N0 => tO | Npos p => tofpos p end.
Definition tsum {A} (f : A -> T) (l : list A) : T := fold_right (fun i acc => tadd (f i) acc) tO l.

(* Psym j m n [[a,b],[c,d]] = coefficient of x^(j+m) y^(j-m) in (a x + c y)^(j+n) (b x + d y)^(j-n)
   = sum_i C(j+n,i) C(j-n,j+m-i) a^i c^(j+n-i) b^(j+m-i) d^(i-m-n).
   With rho(U) f (x,y) = f ((x,y) U) and e_n = x^(j+n) y^(j-n):  rho(U) e_n = sum_m Psym_mn(U) e_m,
   and rho(U) rho(U') = rho(U U'), so Psym(U U') = Psym(U) Psym(U') as matrices (hom_stmt below). *)
Definition psym_term (p q q' : nat) (a b c d : T) (i : nat) : T :=
  tmul (tofN (binom q i * binom q' (p - i))%N)
       (tmul (tmul (tpow a i) (tpow c (q - i))) (tmul (tpow b (p - i)) (tpow d (q' - (p - i))))).
Definition Psym (j2 m2 n2 : Z) (a b c d : T) : T :=
  tsum (psym_term (hp j2 m2) (hp j2 n2) (hm j2 n2) a b c d) (psym_idx (hp j2 m2) (hp j2 n2) (hm j2 n2)).

Hypothesis Tth : ring_theory tO tI tadd tmul tsub topp eq.
Add Ring Tring : Tth.

Ltac tcompute := cbv -[tO tI tadd tmul tsub topp].

(* multiplicativity *)
Definition hom_stmt (t : Z * Z * Z) : Prop :=
  forall a b c d a' b' c' d',
    Psym (fst (fst t)) (snd (fst t)) (snd t)
         (tadd (tmul a a') (tmul b c')) (tadd (tmul a b') (tmul b d'))
         (tadd (tmul c a') (tmul d c')) (tadd (tmul c b') (tmul d d'))
    = tsum (fun k2 => tmul (Psym (fst (fst t)) (snd (fst t)) k2 a b c d)
                           (Psym (fst (fst t)) k2 (snd t) a' b' c' d')) (m_range (fst (fst t))).

Lemma hom_all : Forall hom_stmt all_jmk.
Proof.
  let l := eval vm_compute in all_jmk in change (Forall hom_stmt l).
  repeat (apply Forall_cons; [unfold hom_stmt; intros; tcompute; ring | ]).
  apply Forall_nil.
Qed.

(* left and right multiplication by diagonal matrices diag(u,u') U diag(w,w') *)
Definition scale_stmt (t : Z * Z * Z) : Prop :=
  forall u u' w w' a b c d,
    Psym (fst (fst t)) (snd (fst t)) (snd t)
         (tmul (tmul u a) w) (tmul (tmul u b) w') (tmul (tmul u' c) w) (tmul (tmul u' d) w')
    = tmul (tmul (tmul (tpow u (hp (fst (fst t)) (snd (fst t)))) (tpow u' (hm (fst (fst t)) (snd (fst t)))))
                 (tmul (tpow w (hp (fst (fst t)) (snd t))) (tpow w' (hm (fst (fst t)) (snd t)))))
           (Psym (fst (fst t)) (snd (fst t)) (snd t) a b c d).

Lemma scale_all : Forall scale_stmt all_jmk.
Proof.
  let l := eval vm_compute in all_jmk in change (Forall scale_stmt l).
  repeat (apply Forall_cons; [unfold scale_stmt; intros; tcompute; ring | ]).
  apply Forall_nil.
Qed.

(* identity matrix *)
Definition one_stmt (t : Z * Z * Z) : Prop :=
  Psym (fst (fst t)) (snd (fst t)) (snd t) tI tO tO tI
  = if Z.eqb (snd (fst t)) (snd t) then tI else tO.

Lemma one_all : Forall one_stmt all_jmk.
Proof.
  let l := eval vm_compute in all_jmk in change (Forall one_stmt l).
  repeat (apply Forall_cons; [unfold one_stmt; tcompute; ring | ]).
  apply Forall_nil.
Qed.

Lemma Psym_hom_gen j2 m2 n2 :
  (0 <= j2 <= 8)%Z -> In m2 (m_range j2) -> In n2 (m_range j2) ->
  forall a b c d a' b' c' d',
    Psym j2 m2 n2 (tadd (tmul a a') (tmul b c')) (tadd (tmul a b') (tmul b d'))
                  (tadd (tmul c a') (tmul d c')) (tadd (tmul c b') (tmul d d'))
    = tsum (fun k2 => tmul (Psym j2 m2 k2 a b c d) (Psym j2 k2 n2 a' b' c' d')) (m_range j2).
Proof.
  intros Hj Hm Hn. pose proof hom_all as U. rewrite Forall_forall in U.
  exact (U (j2, m2, n2) (in_all_jmk j2 m2 n2 Hj Hm Hn)).
Qed.

Lemma Psym_scale_gen j2 m2 n2 :
  (0 <= j2 <= 8)%Z -> In m2 (m_range j2) -> In n2 (m_range j2) ->
  forall u u' w w' a b c d,
    Psym j2 m2 n2 (tmul (tmul u a) w) (tmul (tmul u b) w') (tmul (tmul u' c) w) (tmul (tmul u' d) w')
    = tmul (tmul (tmul (tpow u (hp j2 m2)) (tpow u' (hm j2 m2)))
                 (tmul (tpow w (hp j2 n2)) (tpow w' (hm j2 n2))))
           (Psym j2 m2 n2 a b c d).
Proof.
  intros Hj Hm Hn. pose proof scale_all as U. rewrite Forall_forall in U.
  exact (U (j2, m2, n2) (in_all_jmk j2 m2 n2 Hj Hm Hn)).
Qed.

Lemma Psym_one_gen j2 m2 n2 :
  (0 <= j2 <= 8)%Z -> In m2 (m_range j2) -> In n2 (m_range j2) ->
  Psym j2 m2 n2 tI tO tO tI = if Z.eqb m2 n2 then tI else tO.
Proof.
  intros Hj Hm Hn. pose proof one_all as U. rewrite Forall_forall in U.
  exact (U (j2, m2, n2) (in_all_jmk j2 m2 n2 Hj Hm Hn)).
Qed.
End Gen.

Arguments tsum {T} tO tadd {A} f l.

(* real instance and the link with the rational part of Wigner's formula *)
Open Scope R_scope.
Definition PsymR : Z -> Z -> Z -> R -> R -> R -> R -> R := Psym R 0 1 Rplus Rmult.

(* a_n * dtilde_mn(c,s) = Psym_mn [[c,-s],[s,c]] *)
Definition link_stmt (t : Z * Z * Z) : Prop :=
  forall c s, IZR (a_of (fst (fst t)) (snd t)) * dtilde (fst (fst t)) (snd (fst t)) (snd t) c s
              = PsymR (fst (fst t)) (snd (fst t)) (snd t) c (- s) s c.

Lemma link_all : Forall link_stmt all_jmk.
Proof.
  let l := eval vm_compute in all_jmk in change (Forall link_stmt l).
  repeat (apply Forall_cons; [unfold link_stmt; intros c s; rcompute; field | ]).
  apply Forall_nil.
Qed.

Lemma Psym_link j2 m2 n2 c s :
  (0 <= j2 <= 8)%Z -> In m2 (m_range j2) -> In n2 (m_range j2) ->
  IZR (a_of j2 n2) * dtilde j2 m2 n2 c s = PsymR j2 m2 n2 c (- s) s c.
Proof.
  intros Hj Hm Hn. pose proof link_all as U. rewrite Forall_forall in U.
  exact (U (j2, m2, n2) (in_all_jmk j2 m2 n2 Hj Hm Hn) c s).
Qed.

Print Assumptions Psym_hom_gen.
Print Assumptions Psym_scale_gen.
Print Assumptions Psym_link.
