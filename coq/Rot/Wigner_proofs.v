From Coq Require Import Reals List ZArith Lra Lia.
From TFV Require Import Base.RBase Rot.Wigner Rot.Wigner_unit.
Import ListNotations.
Open Scope R_scope.

(* positivity of the factorial weights *)
Lemma zfact_pos n : (0 < zfact n)%Z.
Proof. induction n as [|n IH]; [reflexivity|]. change (zfact (S n)) with (Z.of_nat (S n) * zfact n)%Z. apply Z.mul_pos_pos; [lia|exact IH]. Qed.
Lemma a_of_pos j2 m2 : (0 < a_of j2 m2)%Z.
Proof. unfold a_of, fh. apply Z.mul_pos_pos; apply zfact_pos. Qed.
Lemma a_of_Rpos j2 m2 : 0 < IZR (a_of j2 m2).
Proof. apply IZR_lt. apply a_of_pos. Qed.

(* row sums of products of d entries *)
Definition dd_row (j2 m2 k2 : Z) (c s : R) : R :=
  fold_right (fun n2 acc => dsmall_cs j2 m2 n2 c s * dsmall_cs j2 k2 n2 c s + acc) 0 (m_range j2).
Definition dd_col (j2 m2 k2 : Z) (c s : R) : R :=
  fold_right (fun n2 acc => dsmall_cs j2 n2 m2 c s * dsmall_cs j2 n2 k2 c s + acc) 0 (m_range j2).

Lemma sqrt_pair a b x : 0 < a -> 0 < b -> 0 < x ->
  sqrt (a * x) * sqrt (b * x) = sqrt (a * b) * x.
Proof.
  intros Ha Hb Hx. rewrite <- sqrt_mult by nra.
  replace (a * x * (b * x)) with ((a * b) * (x * x)) by ring.
  rewrite sqrt_mult by nra. rewrite sqrt_square by lra. reflexivity.
Qed.

Lemma dd_row_gram j2 m2 k2 c s :
  dd_row j2 m2 k2 c s = sqrt (IZR (a_of j2 m2) * IZR (a_of j2 k2)) * gram j2 m2 k2 c s.
Proof.
  unfold dd_row, gram. induction (m_range j2) as [|n ns IH]; simpl fold_right; [ring|].
  rewrite IH. unfold dsmall_cs. rewrite !mult_IZR.
  pose proof (sqrt_pair _ _ _ (a_of_Rpos j2 m2) (a_of_Rpos j2 k2) (a_of_Rpos j2 n)) as E.
  set (A := sqrt (IZR (a_of j2 m2) * IZR (a_of j2 n))) in *.
  set (B := sqrt (IZR (a_of j2 k2) * IZR (a_of j2 n))) in *.
  replace (A * dtilde j2 m2 n c s * (B * dtilde j2 k2 n c s))
    with ((A * B) * (dtilde j2 m2 n c s * dtilde j2 k2 n c s)) by ring.
  rewrite E. ring.
Qed.

Lemma dd_col_gram j2 m2 k2 c s :
  dd_col j2 m2 k2 c s = sqrt (IZR (a_of j2 m2) * IZR (a_of j2 k2)) * gram_col j2 m2 k2 c s.
Proof.
  unfold dd_col, gram_col. induction (m_range j2) as [|n ns IH]; simpl fold_right; [ring|].
  rewrite IH. unfold dsmall_cs. rewrite !mult_IZR.
  pose proof (sqrt_pair _ _ _ (a_of_Rpos j2 m2) (a_of_Rpos j2 k2) (a_of_Rpos j2 n)) as E.
  rewrite (Rmult_comm (IZR (a_of j2 n)) (IZR (a_of j2 m2))).
  rewrite (Rmult_comm (IZR (a_of j2 n)) (IZR (a_of j2 k2))).
  set (A := sqrt (IZR (a_of j2 m2) * IZR (a_of j2 n))) in *.
  set (B := sqrt (IZR (a_of j2 k2) * IZR (a_of j2 n))) in *.
  replace (A * dtilde j2 n m2 c s * (B * dtilde j2 n k2 c s))
    with ((A * B) * (dtilde j2 n m2 c s * dtilde j2 n k2 c s)) by ring.
  rewrite E. ring.
Qed.

Lemma delta_sqrt j2 m2 k2 :
  sqrt (IZR (a_of j2 m2) * IZR (a_of j2 k2)) * (delta m2 k2 / IZR (a_of j2 m2)) = delta m2 k2.
Proof.
  unfold delta. destruct (Z.eqb_spec m2 k2) as [->|Hne].
  - rewrite sqrt_square by (apply Rlt_le, a_of_Rpos). field. apply Rgt_not_eq, a_of_Rpos.
  - unfold Rdiv. rewrite Rmult_0_l, Rmult_0_r. reflexivity.
Qed.

(* orthogonality of rows and of columns of d^j(beta): d d^T = d^T d = 1, all 2j <= 8, all angles *)
Theorem d_rows_orthonormal j2 m2 k2 c s :
  (0 <= j2 <= 8)%Z -> In m2 (m_range j2) -> In k2 (m_range j2) -> c * c + s * s = 1 ->
  dd_row j2 m2 k2 c s = delta m2 k2.
Proof.
  intros Hj Hm Hk Hcs. rewrite dd_row_gram.
  pose proof (gram_identity j2 m2 k2 c s Hj Hm Hk) as G. rewrite Hcs, pow1, Rmult_1_r in G.
  assert (Hg : gram j2 m2 k2 c s = delta m2 k2 / IZR (a_of j2 m2)).
  { apply (Rmult_eq_reg_r (IZR (a_of j2 m2))); [|apply Rgt_not_eq, a_of_Rpos].
    rewrite G. field. apply Rgt_not_eq, a_of_Rpos. }
  rewrite Hg. apply delta_sqrt.
Qed.

Theorem d_cols_orthonormal j2 m2 k2 c s :
  (0 <= j2 <= 8)%Z -> In m2 (m_range j2) -> In k2 (m_range j2) -> c * c + s * s = 1 ->
  dd_col j2 m2 k2 c s = delta m2 k2.
Proof.
  intros Hj Hm Hk Hcs. rewrite dd_col_gram.
  pose proof (gram_col_identity j2 m2 k2 c s Hj Hm Hk) as G. rewrite Hcs, pow1, Rmult_1_r in G.
  assert (Hg : gram_col j2 m2 k2 c s = delta m2 k2 / IZR (a_of j2 m2)).
  { apply (Rmult_eq_reg_r (IZR (a_of j2 m2))); [|apply Rgt_not_eq, a_of_Rpos].
    rewrite G. field. apply Rgt_not_eq, a_of_Rpos. }
  rewrite Hg. apply delta_sqrt.
Qed.

Corollary d_rows_orthonormal_angle j2 m2 k2 beta :
  (0 <= j2 <= 8)%Z -> In m2 (m_range j2) -> In k2 (m_range j2) ->
  fold_right (fun n2 acc => dsmall j2 m2 n2 beta * dsmall j2 k2 n2 beta + acc) 0 (m_range j2) = delta m2 k2.
Proof.
  intros Hj Hm Hk. apply (d_rows_orthonormal j2 m2 k2 (cos (beta / 2)) (sin (beta / 2)) Hj Hm Hk).
  pose proof (sin2_cos2 (beta / 2)) as H. unfold Rsqr in H. lra.
Qed.
