(* Model of tf_pwa/dfun.py: Wigner small-d from the weight table, conjugated D matrix,
   helicity-difference gather.  Definitions only.  All spin-like indices are doubled (2j, 2m). *)
From Coq Require Import Reals List ZArith.
From TFV Require Import Base.RBase.
Import ListNotations.

Open Scope Z_scope.
Fixpoint zfact (n : nat) : Z := match n with O => 1 | S k => Z.of_nat n * zfact k end.
(* f(x) = (x >> 1)!  on doubled arguments *)
Definition fh (x2 : Z) : Z := zfact (Z.to_nat (x2 / 2)).

(* a_m = (j+m)! (j-m)! *)
Definition a_of (j2 m2 : Z) : Z := fh (j2 + m2) * fh (j2 - m2).

(* doubled k runs over max(0, n-m) .. min(j-m, j+n) step 2 *)
Definition k_range (j2 m2 n2 : Z) : list Z :=
  let lo := Z.max 0 (n2 - m2) in
  let hi := Z.min (j2 - m2) (j2 + n2) in
  map (fun i => lo + 2 * Z.of_nat i) (seq 0 (Z.to_nat ((hi - lo) / 2 + 1))).

(* one term of Wigner's sum: power l of sin(beta/2), sign, denominator *)
Definition d_term (j2 m2 n2 k2 : Z) : (nat * Z * Z) :=
  (Z.to_nat ((2 * k2 + (m2 - n2)) / 2),
   (if Z.even ((k2 + m2 - n2) / 2) then 1 else -1),
   fh (j2 - m2 - k2) * fh (j2 + n2 - k2) * fh (k2 + m2 - n2) * fh k2).
Definition d_terms (j2 m2 n2 : Z) : list (nat * Z * Z) := map (d_term j2 m2 n2) (k_range j2 m2 n2).

(* the weight table entry w_l^{(j,m,n)} as (sign, numerator N, denominator D): w = sign*sqrt(N)/D;
   zero when no k gives this l *)
Definition weight_entry (j2 m2 n2 : Z) (l : nat) : option (Z * Z * Z) :=
  match filter (fun t => Nat.eqb (fst (fst t)) l) (d_terms j2 m2 n2) with
  | (_, sg, dn) :: _ => Some (sg, a_of j2 m2 * a_of j2 n2, dn)
  | [] => None
  end.
Open Scope R_scope.

(* rational part: sum_k sign/D * s^l * c^(2j-l) *)
Definition dtilde (j2 m2 n2 : Z) (c s : R) : R :=
  fold_right (fun t acc => let '(l, sg, dn) := t in
                IZR sg / IZR dn * s ^ l * c ^ (Z.to_nat j2 - l) + acc) 0 (d_terms j2 m2 n2).
(* d^j_{mn}(beta) with c = cos(beta/2), s = sin(beta/2) *)
Definition dsmall_cs (j2 m2 n2 : Z) (c s : R) : R :=
  sqrt (IZR (a_of j2 m2 * a_of j2 n2)) * dtilde j2 m2 n2 c s.
Definition dsmall (j2 m2 n2 : Z) (beta : R) : R := dsmall_cs j2 m2 n2 (cos (beta / 2)) (sin (beta / 2)).

(* D^{j*}_{mn}(alpha,beta,gamma) = e^{i m alpha} d_mn(beta) e^{i n gamma}; (re, im) *)
Definition Dconj (j2 m2 n2 : Z) (alpha beta gamma : R) : R * R :=
  let ph := IZR m2 / 2 * alpha + IZR n2 / 2 * gamma in
  (cos ph * dsmall j2 m2 n2 beta, sin ph * dsmall j2 m2 n2 beta).

(* helicity gather of Dfun_delta_v2: entry (la, lb - lc) or 0 when |lb-lc| > j *)
Definition D_lambda (j2 la2 lb2 lc2 : Z) (alpha beta gamma : R) : R * R :=
  if (Z.abs (lb2 - lc2) <=? j2)%Z then Dconj j2 la2 (lb2 - lc2) alpha beta gamma else (0, 0).

(* index list of _tuple_delta_D_index *)
Definition delta_index (j2 : Z) (la lb lc : list Z) : list Z :=
  let ln := (j2 + 1)%Z in
  flat_map (fun a => flat_map (fun b => map (fun c =>
     let delta := (b - c)%Z in
     if (Z.abs delta <=? j2)%Z then (((a + j2) / 2) * ln + (delta + j2) / 2)%Z else (ln * ln)%Z) lc) lb) la.

(* all doubled m for spin j2 *)
Definition m_range (j2 : Z) : list Z := map (fun i => (- j2 + 2 * Z.of_nat i)%Z) (seq 0 (Z.to_nat (j2 + 1))).

(* evaluation helper: exact check of one implementation weight w (a rational from float) against
   sign*sqrt(N)/D : sign agrees and | w^2 D^2 - N | <= tol * N *)
Open Scope Q_scope.
From Coq Require Import QArith.
Definition weight_ok (e : option (Z * Z * Z)) (w : Q) (tol : Q) : bool :=
  match e with
  | None => Qeq_bool w 0
  | Some (sg, N, D) =>
      let d2 := (w * w * inject_Z (D * D) - inject_Z N) in
      Qle_bool (- (tol * inject_Z N)) d2 && Qle_bool d2 (tol * inject_Z N) &&
      (if (0 <? sg)%Z then Qle_bool 0 w else Qle_bool w 0)
  end.
