(* Group law of the Wigner D matrices for every spin 2j <= 8.
   Dmat^j(U) = normalised 2j-th symmetric power of a complex 2x2 matrix U (all of GL2, no unitarity
   needed): Dmat(U U') = Dmat(U) Dmat(U').  Link with the model of tf_pwa/dfun.py (Rot/Wigner.v):
     dsmall_cs j m n c s      = Dmat^j_mn [[c,-s],[s,c]]                        (real)
     Dconj j m n al be ga     = Dmat^j_mn (conj (Rz al Ry be Rz ga))            (complex)
                              = conj (Dmat^j_mn (Rz al Ry be Rz ga)),
   with Rz phi = diag(e^{-i phi/2}, e^{i phi/2}), Ry be = [[cos be/2, -sin be/2],[sin be/2, cos be/2]].
   The enumerated polynomial identities are in DHom_ids.v. *)
From Coq Require Import Reals List ZArith Lra Lia Ring.
From Coquelicot Require Import Complex.
From TFV Require Import Base.RBase Rot.Wigner Rot.Wigner_unit Rot.Wigner_proofs Rot.DHom_ids.
Import ListNotations.

(* ---------- generic facts on tsum and ring morphisms ---------- *)
Section Morph.
Variables (T T' : Type) (tO tI : T) (tadd tmul : T -> T -> T)
          (sO sI : T') (sadd smul : T' -> T' -> T') (phi : T -> T').
Hypotheses (phi0 : phi tO = sO) (phi1 : phi tI = sI)
           (phiadd : forall x y, phi (tadd x y) = sadd (phi x) (phi y))
           (phimul : forall x y, phi (tmul x y) = smul (phi x) (phi y)).

Lemma phi_tpow x n : phi (tpow T tI tmul x n) = tpow T' sI smul (phi x) n.
Proof. induction n as [|n IH]; simpl; [exact phi1|]. rewrite phimul, IH. reflexivity. Qed.

Lemma phi_tofpos p : phi (tofpos T tI tadd tmul p) = tofpos T' sI sadd smul p.
Proof.
  induction p as [p IH|p IH|]; simpl.
  - rewrite phiadd, phimul, phiadd, phi1, IH. reflexivity.
  - rewrite phimul, phiadd, phi1, IH. reflexivity.
  - exact phi1.
Qed.

Lemma phi_tofN n : phi (tofN T tO tI tadd tmul n) = tofN T' sO sI sadd smul n.
Proof. destruct n; simpl; [exact phi0|apply phi_tofpos]. Qed.

Lemma phi_Psym j2 m2 n2 a b c d :
  phi (Psym T tO tI tadd tmul j2 m2 n2 a b c d)
  = Psym T' sO sI sadd smul j2 m2 n2 (phi a) (phi b) (phi c) (phi d).
Proof.
  unfold Psym. induction (psym_idx (hp j2 m2) (hp j2 n2) (hm j2 n2)) as [|i l IH]; simpl.
  - exact phi0.
  - rewrite phiadd, IH. f_equal. unfold psym_term.
    rewrite !phimul, phi_tofN, !phi_tpow. reflexivity.
Qed.
End Morph.

Lemma tsum_ext {T A} (tO : T) tadd (f g : A -> T) l :
  (forall k, f k = g k) -> tsum tO tadd f l = tsum tO tadd g l.
Proof. intros H. induction l as [|k l IH]; simpl; [reflexivity|]. rewrite H, IH. reflexivity. Qed.

(* normalisation sqrt(a_m) / sqrt(a_n) *)
Open Scope R_scope.
Definition nrm (j2 m2 n2 : Z) : R := sqrt (IZR (a_of j2 m2)) / sqrt (IZR (a_of j2 n2)).

Lemma sqrt_a_neq j2 m2 : sqrt (IZR (a_of j2 m2)) <> 0.
Proof. apply Rgt_not_eq, sqrt_lt_R0, a_of_Rpos. Qed.

Lemma nrm_mul j2 m2 k2 n2 : nrm j2 m2 k2 * nrm j2 k2 n2 = nrm j2 m2 n2.
Proof. unfold nrm. field. split; apply sqrt_a_neq. Qed.

(* ---------- real matrices: the d-matrix link ---------- *)
Definition rsum {A} (f : A -> R) (l : list A) : R := tsum 0 Rplus f l.
Definition DmatR (j2 m2 n2 : Z) (a b c d : R) : R := nrm j2 m2 n2 * PsymR j2 m2 n2 a b c d.

Lemma rsum_scal {A} x (f : A -> R) l : x * rsum f l = rsum (fun k => x * f k) l.
Proof. unfold rsum. induction l as [|k l IH]; simpl; [ring|]. rewrite <- IH. ring. Qed.

Theorem PsymR_hom j2 m2 n2 :
  (0 <= j2 <= 8)%Z -> In m2 (m_range j2) -> In n2 (m_range j2) ->
  forall a b c d a' b' c' d',
    PsymR j2 m2 n2 (a * a' + b * c') (a * b' + b * d') (c * a' + d * c') (c * b' + d * d')
    = rsum (fun k2 => PsymR j2 m2 k2 a b c d * PsymR j2 k2 n2 a' b' c' d') (m_range j2).
Proof. exact (Psym_hom_gen R 0 1 Rplus Rmult Rminus Ropp RTheory j2 m2 n2). Qed.

Theorem DmatR_hom j2 m2 n2 :
  (0 <= j2 <= 8)%Z -> In m2 (m_range j2) -> In n2 (m_range j2) ->
  forall a b c d a' b' c' d',
    DmatR j2 m2 n2 (a * a' + b * c') (a * b' + b * d') (c * a' + d * c') (c * b' + d * d')
    = rsum (fun k2 => DmatR j2 m2 k2 a b c d * DmatR j2 k2 n2 a' b' c' d') (m_range j2).
Proof.
  intros Hj Hm Hn a b c d a' b' c' d'. unfold DmatR.
  rewrite (PsymR_hom j2 m2 n2 Hj Hm Hn), rsum_scal. apply tsum_ext. intros k.
  rewrite <- (nrm_mul j2 m2 k n2). ring.
Qed.

(* d^j_{mn} is the (m,n) entry of the spin-j matrix of the real rotation [[c,-s],[s,c]] *)
Theorem dsmall_cs_is_Dmat j2 m2 n2 c s :
  (0 <= j2 <= 8)%Z -> In m2 (m_range j2) -> In n2 (m_range j2) ->
  dsmall_cs j2 m2 n2 c s = DmatR j2 m2 n2 c (- s) s c.
Proof.
  intros Hj Hm Hn. unfold dsmall_cs, DmatR, nrm. rewrite <- (Psym_link j2 m2 n2 c s Hj Hm Hn).
  rewrite mult_IZR, sqrt_mult by (apply Rlt_le, a_of_Rpos).
  pose proof (sqrt_a_neq j2 n2) as Hx.
  pose proof (sqrt_sqrt _ (Rlt_le _ _ (a_of_Rpos j2 n2))) as E.
  set (x := sqrt (IZR (a_of j2 n2))) in *. rewrite <- E. field. exact Hx.
Qed.

(* composition of rotations about y:  d^j(b1) d^j(b2) = d^j(b1 + b2) *)
Theorem dsmall_add j2 m2 n2 b1 b2 :
  (0 <= j2 <= 8)%Z -> In m2 (m_range j2) -> In n2 (m_range j2) ->
  fold_right (fun k2 acc => dsmall j2 m2 k2 b1 * dsmall j2 k2 n2 b2 + acc) 0 (m_range j2)
  = dsmall j2 m2 n2 (b1 + b2).
Proof.
  intros Hj Hm Hn. unfold dsmall.
  set (c1 := cos (b1 / 2)). set (s1 := sin (b1 / 2)). set (c2 := cos (b2 / 2)). set (s2 := sin (b2 / 2)).
  assert (Ec : cos ((b1 + b2) / 2) = c1 * c2 + - s1 * s2).
  { replace ((b1 + b2) / 2) with (b1 / 2 + b2 / 2) by field. rewrite cos_plus. unfold c1, c2, s1, s2. ring. }
  assert (Es : sin ((b1 + b2) / 2) = s1 * c2 + c1 * s2).
  { replace ((b1 + b2) / 2) with (b1 / 2 + b2 / 2) by field. rewrite sin_plus. unfold c1, c2, s1, s2. ring. }
  rewrite (dsmall_cs_is_Dmat j2 m2 n2 _ _ Hj Hm Hn), Ec, Es.
  transitivity (DmatR j2 m2 n2 (c1 * c2 + - s1 * s2) (c1 * - s2 + - s1 * c2)
                                (s1 * c2 + c1 * s2) (s1 * - s2 + c1 * c2)); [|f_equal; ring].
  rewrite (DmatR_hom j2 m2 n2 Hj Hm Hn). unfold rsum, tsum.
  assert (G : forall l, (forall k, In k l -> In k (m_range j2)) ->
     fold_right (fun k2 acc => dsmall_cs j2 m2 k2 c1 s1 * dsmall_cs j2 k2 n2 c2 s2 + acc) 0 l
     = fold_right (fun i acc => DmatR j2 m2 i c1 (- s1) s1 c1 * DmatR j2 i n2 c2 (- s2) s2 c2 + acc) 0 l).
  { induction l as [|k l IH]; intros Hl; simpl; [reflexivity|].
    rewrite IH by (intros; apply Hl; right; assumption).
    rewrite (dsmall_cs_is_Dmat j2 m2 k), (dsmall_cs_is_Dmat j2 k n2); auto; apply Hl; left; reflexivity. }
  apply G. auto.
Qed.

(* ---------- complex matrices ---------- *)
Definition PsymC : Z -> Z -> Z -> C -> C -> C -> C -> C := Psym C (RtoC 0) (RtoC 1) Cplus Cmult.
Definition csum {A} (f : A -> C) (l : list A) : C := tsum (RtoC 0) Cplus f l.
Definition DmatC (j2 m2 n2 : Z) (a b c d : C) : C :=
  Cmult (RtoC (nrm j2 m2 n2)) (PsymC j2 m2 n2 a b c d).

Lemma csum_scal {A} x (f : A -> C) l : Cmult x (csum f l) = csum (fun k => Cmult x (f k)) l.
Proof. unfold csum. induction l as [|k l IH]; simpl; [ring|]. rewrite <- IH. ring. Qed.

(* step 2: the unnormalised symmetric power is multiplicative *)
Theorem Psym_hom j2 m2 n2 :
  (0 <= j2 <= 8)%Z -> In m2 (m_range j2) -> In n2 (m_range j2) ->
  forall a b c d a' b' c' d' : C,
    PsymC j2 m2 n2 (a * a' + b * c')%C (a * b' + b * d')%C (c * a' + d * c')%C (c * b' + d * d')%C
    = csum (fun k2 => (PsymC j2 m2 k2 a b c d * PsymC j2 k2 n2 a' b' c' d')%C) (m_range j2).
Proof. exact (Psym_hom_gen C (RtoC 0) (RtoC 1) Cplus Cmult Cminus Copp C_ring_theory j2 m2 n2). Qed.

(* step 3: so is the normalised one *)
Theorem Dmat_hom j2 m2 n2 :
  (0 <= j2 <= 8)%Z -> In m2 (m_range j2) -> In n2 (m_range j2) ->
  forall a b c d a' b' c' d' : C,
    DmatC j2 m2 n2 (a * a' + b * c')%C (a * b' + b * d')%C (c * a' + d * c')%C (c * b' + d * d')%C
    = csum (fun k2 => (DmatC j2 m2 k2 a b c d * DmatC j2 k2 n2 a' b' c' d')%C) (m_range j2).
Proof.
  intros Hj Hm Hn a b c d a' b' c' d'. unfold DmatC.
  rewrite (Psym_hom j2 m2 n2 Hj Hm Hn), csum_scal. apply tsum_ext. intros k.
  rewrite <- (nrm_mul j2 m2 k n2), RtoC_mult. ring.
Qed.

(* 2x2 complex matrices [[a,b],[c,d]] as 4-tuples *)
Definition M2 : Type := (C * C * C * C)%type.
Definition mmul (U V : M2) : M2 :=
  let '(a, b, c, d) := U in let '(a', b', c', d') := V in
  (a * a' + b * c', a * b' + b * d', c * a' + d * c', c * b' + d * d')%C.
Definition mconj (U : M2) : M2 := let '(a, b, c, d) := U in (Cconj a, Cconj b, Cconj c, Cconj d).
Definition DmatM (j2 m2 n2 : Z) (U : M2) : C := let '(a, b, c, d) := U in DmatC j2 m2 n2 a b c d.

(* step 5: group law of the spin-j matrices, all complex 2x2 matrices, 2j <= 8 *)
Theorem D_group_law j2 m2 n2 (U V : M2) :
  (0 <= j2 <= 8)%Z -> In m2 (m_range j2) -> In n2 (m_range j2) ->
  DmatM j2 m2 n2 (mmul U V) = csum (fun k2 => (DmatM j2 m2 k2 U * DmatM j2 k2 n2 V)%C) (m_range j2).
Proof.
  intros Hj Hm Hn. destruct U as [[[a b] c] d]. destruct V as [[[a' b'] c'] d'].
  exact (Dmat_hom j2 m2 n2 Hj Hm Hn a b c d a' b' c' d').
Qed.

(* unit matrix *)
Theorem Dmat_one j2 m2 n2 :
  (0 <= j2 <= 8)%Z -> In m2 (m_range j2) -> In n2 (m_range j2) ->
  DmatM j2 m2 n2 (RtoC 1, RtoC 0, RtoC 0, RtoC 1) = RtoC (delta m2 n2).
Proof.
  intros Hj Hm Hn. unfold DmatM, DmatC, PsymC.
  rewrite (Psym_one_gen C (RtoC 0) (RtoC 1) Cplus Cmult Cminus Copp C_ring_theory j2 m2 n2 Hj Hm Hn).
  unfold delta. destruct (Z.eqb_spec m2 n2) as [->|Hne].
  - unfold nrm. replace (sqrt (IZR (a_of j2 n2)) / sqrt (IZR (a_of j2 n2))) with 1
      by (field; apply sqrt_a_neq). ring.
  - ring.
Qed.

(* complex conjugation and the embedding of R are ring morphisms *)
Lemma Cconj_plus (x y : C) : Cconj (x + y)%C = (Cconj x + Cconj y)%C.
Proof. apply injective_projections; simpl; ring. Qed.
Lemma Cconj_mult (x y : C) : Cconj (x * y)%C = (Cconj x * Cconj y)%C.
Proof. apply injective_projections; simpl; ring. Qed.
Lemma Cconj_R (x : R) : Cconj (RtoC x) = RtoC x.
Proof. apply injective_projections; simpl; ring. Qed.

Theorem Dmat_conj j2 m2 n2 U : DmatM j2 m2 n2 (mconj U) = Cconj (DmatM j2 m2 n2 U).
Proof.
  destruct U as [[[a b] c] d]. unfold mconj, DmatM, DmatC, PsymC.
  rewrite Cconj_mult, Cconj_R.
  rewrite (phi_Psym C C (RtoC 0) (RtoC 1) Cplus Cmult (RtoC 0) (RtoC 1) Cplus Cmult Cconj
             (Cconj_R 0) (Cconj_R 1) Cconj_plus Cconj_mult).
  reflexivity.
Qed.

Theorem Dmat_real j2 m2 n2 (a b c d : R) :
  DmatC j2 m2 n2 (RtoC a) (RtoC b) (RtoC c) (RtoC d) = RtoC (DmatR j2 m2 n2 a b c d).
Proof.
  unfold DmatC, DmatR, PsymC, PsymR. rewrite RtoC_mult.
  rewrite (phi_Psym R C 0 1 Rplus Rmult (RtoC 0) (RtoC 1) Cplus Cmult RtoC
             eq_refl eq_refl RtoC_plus RtoC_mult).
  reflexivity.
Qed.

(* ---------- Euler angles ---------- *)
Definition cis (t : R) : C := (cos t, sin t).

Lemma cis_mul a b : (cis a * cis b)%C = cis (a + b).
Proof. unfold cis. apply injective_projections; simpl; [rewrite cos_plus|rewrite sin_plus]; ring. Qed.

Lemma cis_0 : cis 0 = RtoC 1.
Proof. unfold cis, RtoC. rewrite cos_0, sin_0. reflexivity. Qed.

Lemma cis_pow t n : tpow C (RtoC 1) Cmult (cis t) n = cis (INR n * t).
Proof.
  induction n as [|n IH].
  - simpl. rewrite Rmult_0_l, cis_0. reflexivity.
  - change (tpow C (RtoC 1) Cmult (cis t) (S n)) with (Cmult (cis t) (tpow C (RtoC 1) Cmult (cis t) n)).
    rewrite IH, cis_mul, S_INR. f_equal. ring.
Qed.

Lemma Cconj_cis t : Cconj (cis t) = cis (- t).
Proof. unfold cis, Cconj. simpl. rewrite cos_neg, sin_neg. reflexivity. Qed.

(* (j+m) - (j-m) = 2m/2 on the doubled-index range *)
Lemma hp_hm_diff j2 m2 : In m2 (m_range j2) -> INR (hp j2 m2) - INR (hm j2 m2) = IZR m2.
Proof.
  unfold m_range. intros H. apply in_map_iff in H. destruct H as [x [E Hx]]. apply in_seq in Hx.
  unfold hp, hm. subst m2.
  replace (j2 + (- j2 + 2 * Z.of_nat x))%Z with (Z.of_nat x * 2)%Z by lia.
  replace (j2 - (- j2 + 2 * Z.of_nat x))%Z with ((j2 - Z.of_nat x) * 2)%Z by lia.
  rewrite !Z.div_mul by lia. rewrite Nat2Z.id.
  rewrite (INR_IZR_INZ (Z.to_nat _)), Z2Nat.id by lia.
  rewrite INR_IZR_INZ, <- minus_IZR. f_equal. lia.
Qed.

Lemma cis_phase j2 m2 t :
  In m2 (m_range j2) ->
  (tpow C (RtoC 1) Cmult (cis (t / 2)) (hp j2 m2) * tpow C (RtoC 1) Cmult (cis (- (t / 2))) (hm j2 m2))%C
  = cis (IZR m2 / 2 * t).
Proof.
  intros H. rewrite !cis_pow, cis_mul. f_equal. rewrite <- (hp_hm_diff j2 m2 H). field.
Qed.

(* Rz phi = diag(e^{-i phi/2}, e^{i phi/2}), Ry beta = [[c,-s],[s,c]], Euler = Rz(al) Ry(be) Rz(ga) *)
Definition Rz (phi : R) : M2 := (cis (- (phi / 2)), RtoC 0, RtoC 0, cis (phi / 2)).
Definition Ry (beta : R) : M2 :=
  (RtoC (cos (beta / 2)), RtoC (- sin (beta / 2)), RtoC (sin (beta / 2)), RtoC (cos (beta / 2))).
Definition Euler (al be ga : R) : M2 := mmul (mmul (Rz al) (Ry be)) (Rz ga).

Lemma mconj_mmul U V : mconj (mmul U V) = mmul (mconj U) (mconj V).
Proof.
  destruct U as [[[a b] c] d]. destruct V as [[[a' b'] c'] d']. unfold mmul, mconj.
  rewrite !Cconj_plus, !Cconj_mult. reflexivity.
Qed.

Lemma mconj_Rz phi : mconj (Rz phi) = Rz (- phi).
Proof.
  unfold Rz, mconj. rewrite !Cconj_cis, !Cconj_R.
  replace (- phi / 2) with (- (phi / 2)) by field. reflexivity.
Qed.

Lemma mconj_Ry beta : mconj (Ry beta) = Ry beta.
Proof. unfold Ry, mconj. rewrite !Cconj_R. reflexivity. Qed.

Lemma mconj_Euler al be ga : mconj (Euler al be ga) = Euler (- al) be (- ga).
Proof. unfold Euler. rewrite !mconj_mmul, !mconj_Rz, mconj_Ry. reflexivity. Qed.

Lemma Euler_conj_entries al be ga :
  mconj (Euler al be ga)
  = (cis (al / 2) * RtoC (cos (be / 2)) * cis (ga / 2),
     cis (al / 2) * RtoC (- sin (be / 2)) * cis (- (ga / 2)),
     cis (- (al / 2)) * RtoC (sin (be / 2)) * cis (ga / 2),
     cis (- (al / 2)) * RtoC (cos (be / 2)) * cis (- (ga / 2)))%C.
Proof.
  rewrite mconj_Euler. unfold Euler, Rz, Ry, mmul.
  replace (- al / 2) with (- (al / 2)) by field. replace (- ga / 2) with (- (ga / 2)) by field.
  rewrite !Ropp_involutive.
  apply f_equal2; [apply f_equal2; [apply f_equal2|]|]; ring.
Qed.

(* spin 1/2 is the defining representation; rows/columns ordered m = +1/2, -1/2 *)
Lemma Dmat_half (a b c d : C) :
  DmatM 1 1 1 (a, b, c, d) = a /\ DmatM 1 1 (-1) (a, b, c, d) = b /\
  DmatM 1 (-1) 1 (a, b, c, d) = c /\ DmatM 1 (-1) (-1) (a, b, c, d) = d.
Proof.
  unfold DmatM, DmatC, nrm. change (a_of 1 1) with 1%Z. change (a_of 1 (-1)) with 1%Z.
  rewrite sqrt_1. replace (1 / 1) with 1 by field.
  repeat split; cbv -[Cplus Cmult RtoC C IZR]; ring.
Qed.

(* explicit entries of the Euler rotation *)
Lemma Euler_entries al be ga :
  Euler al be ga
  = (cis (- (al / 2)) * RtoC (cos (be / 2)) * cis (- (ga / 2)),
     cis (- (al / 2)) * RtoC (- sin (be / 2)) * cis (ga / 2),
     cis (al / 2) * RtoC (sin (be / 2)) * cis (- (ga / 2)),
     cis (al / 2) * RtoC (cos (be / 2)) * cis (ga / 2))%C.
Proof.
  unfold Euler, Rz, Ry, mmul.
  apply f_equal2; [apply f_equal2; [apply f_equal2|]|]; ring.
Qed.

(* elementary products of the Euler factors (the hypothesis of Dconj_group_law is satisfiable) *)
Ltac m2_ring := apply f_equal2; [apply f_equal2; [apply f_equal2|]|]; ring.

Lemma mmul_assoc U V W : mmul (mmul U V) W = mmul U (mmul V W).
Proof.
  destruct U as [[[a b] c] d]. destruct V as [[[a' b'] c'] d']. destruct W as [[[a'' b''] c''] d''].
  unfold mmul. m2_ring.
Qed.

Lemma Rz_add p q : mmul (Rz p) (Rz q) = Rz (p + q).
Proof.
  unfold Rz, mmul.
  replace (- ((p + q) / 2)) with (- (p / 2) + - (q / 2)) by field.
  replace ((p + q) / 2) with (p / 2 + q / 2) by field.
  rewrite <- !cis_mul. m2_ring.
Qed.

Lemma Ry_add p q : mmul (Ry p) (Ry q) = Ry (p + q).
Proof.
  unfold Ry, mmul. replace ((p + q) / 2) with (p / 2 + q / 2) by field.
  rewrite cos_plus, sin_plus. rewrite <- !RtoC_mult, <- !RtoC_plus.
  apply f_equal2; [apply f_equal2; [apply f_equal2|]|]; f_equal; ring.
Qed.

Lemma Euler_Rz_r al be ga p : mmul (Euler al be ga) (Rz p) = Euler al be (ga + p).
Proof. unfold Euler. rewrite mmul_assoc, Rz_add. reflexivity. Qed.

Lemma Euler_Rz_l al be ga p : mmul (Rz p) (Euler al be ga) = Euler (p + al) be ga.
Proof. unfold Euler. rewrite <- !mmul_assoc, Rz_add. reflexivity. Qed.

(* step 4: the model's conjugated D function is the spin-j matrix of the conjugated Euler rotation *)
Theorem Dconj_is_Dmat j2 m2 n2 al be ga :
  (0 <= j2 <= 8)%Z -> In m2 (m_range j2) -> In n2 (m_range j2) ->
  Dconj j2 m2 n2 al be ga = DmatM j2 m2 n2 (mconj (Euler al be ga)).
Proof.
  intros Hj Hm Hn. rewrite Euler_conj_entries. unfold DmatM, DmatC, PsymC.
  rewrite (Psym_scale_gen C (RtoC 0) (RtoC 1) Cplus Cmult Cminus Copp C_ring_theory j2 m2 n2 Hj Hm Hn).
  rewrite (cis_phase j2 m2 al Hm), (cis_phase j2 n2 ga Hn), cis_mul.
  rewrite <- (phi_Psym R C 0 1 Rplus Rmult (RtoC 0) (RtoC 1) Cplus Cmult RtoC
                eq_refl eq_refl RtoC_plus RtoC_mult).
  unfold Dconj, dsmall. rewrite (dsmall_cs_is_Dmat j2 m2 n2 _ _ Hj Hm Hn). unfold DmatR, PsymR.
  unfold cis, RtoC, Cmult. apply injective_projections; simpl; ring.
Qed.

Corollary Dconj_is_conj_Dmat j2 m2 n2 al be ga :
  (0 <= j2 <= 8)%Z -> In m2 (m_range j2) -> In n2 (m_range j2) ->
  Dconj j2 m2 n2 al be ga = Cconj (DmatM j2 m2 n2 (Euler al be ga)).
Proof. intros Hj Hm Hn. rewrite <- Dmat_conj. apply Dconj_is_Dmat; assumption. Qed.

Corollary Dconj_is_Dmat_neg j2 m2 n2 al be ga :
  (0 <= j2 <= 8)%Z -> In m2 (m_range j2) -> In n2 (m_range j2) ->
  Dconj j2 m2 n2 al be ga = DmatM j2 m2 n2 (Euler (- al) be (- ga)).
Proof. intros Hj Hm Hn. rewrite <- mconj_Euler. apply Dconj_is_Dmat; assumption. Qed.

Lemma tsum_ext_in {T A} (tO : T) tadd (f g : A -> T) l :
  (forall k, In k l -> f k = g k) -> tsum tO tadd f l = tsum tO tadd g l.
Proof.
  intros H. induction l as [|k l IH]; simpl; [reflexivity|].
  rewrite (H k) by (left; reflexivity). rewrite IH by (intros; apply H; right; assumption). reflexivity.
Qed.

(* step 5, Euler form: if the SU(2) product of two Euler rotations is a third Euler rotation
   (equality of 2x2 complex matrices), the conjugated D functions of the model multiply accordingly *)
Theorem Dconj_group_law j2 m2 n2 a1 b1 g1 a2 b2 g2 a3 b3 g3 :
  (0 <= j2 <= 8)%Z -> In m2 (m_range j2) -> In n2 (m_range j2) ->
  mmul (Euler a1 b1 g1) (Euler a2 b2 g2) = Euler a3 b3 g3 ->
  csum (fun k2 => (Dconj j2 m2 k2 a1 b1 g1 * Dconj j2 k2 n2 a2 b2 g2)%C) (m_range j2)
  = Dconj j2 m2 n2 a3 b3 g3.
Proof.
  intros Hj Hm Hn HE. rewrite (Dconj_is_Dmat j2 m2 n2 a3 b3 g3 Hj Hm Hn), <- HE, mconj_mmul.
  rewrite (D_group_law j2 m2 n2 _ _ Hj Hm Hn). apply tsum_ext_in. intros k Hk.
  rewrite (Dconj_is_Dmat j2 m2 k a1 b1 g1 Hj Hm Hk), (Dconj_is_Dmat j2 k n2 a2 b2 g2 Hj Hk Hn).
  reflexivity.
Qed.

Print Assumptions D_group_law.
Print Assumptions dsmall_cs_is_Dmat.
Print Assumptions dsmall_add.
Print Assumptions Dconj_is_Dmat.
Print Assumptions Dconj_group_law.
