(* Group law of the Wigner D matrices for every spin 2j <= 8.
   Dmat^j(U) = normalised 2j-th symmetric power of a complex 2x2 matrix U (all of GL2, no unitarity
   needed): Dmat(U U') = Dmat(U) Dmat(U').  Link with the model of tf_pwa/dfun.py (Rot/Wigner.v):
     dsmall_cs j m n c s      = Dmat^j_mn [[c,-s],[s,c]]                        (real)
     Dconj j m n al be ga     = Dmat^j_mn (conj (Rz al Ry be Rz ga))            (complex)
                              = conj (Dmat^j_mn (Rz al Ry be Rz ga)),
   with Rz phi = diag(e^{-i phi/2}, e^{i phi/2}), Ry be = [[cos be/2, -sin be/2],[sin be/2, cos be/2]].
   The enumerated polynomial identities are in DHom_ids.v. *)
From Coq Require Import Reals List ZArith Lra Lia Ring.
From Coquelicot Require Import Complex.
From TFV Require Import Base.RBase Rot.Wigner Rot.Wigner_unit Rot.Wigner_proofs Rot.DHom_ids.
Import ListNotations.

(* ---------- generic facts on tsum and ring morphisms ---------- *)
Section Morph.
Variables (T T' : Type) (tO tI : T) (tadd tmul : T -> T -> T)
          (sO sI : T') (sadd smul : T' -> T' -> T') (phi : T -> T').
Hypotheses (phi0 : phi tO = sO) (phi1 : phi tI = sI)
           (phiadd : forall x y, phi (tadd x y) = sadd (phi x) (phi y))
           (phimul : forall x y, phi (tmul x y) = smul (phi x) (phi y)).

Lemma phi_tpow x n : phi (tpow T tI tmul x n) = tpow T' sI smul (phi x) n.
Proof. induction n as [|n IH]; simpl; [exact phi1|]. rewrite phimul, IH. reflexivity. Qed.

Lemma phi_tofpos p : phi (tofpos T tI tadd tmul p) = tofpos T' sI sadd smul p.
Proof.
  induction p as [p IH|p IH|]; simpl.
  - rewrite phiadd, phimul, phiadd, phi1, IH. reflexivity.
  - rewrite phimul, phiadd, phi1, IH. reflexivity.
  - exact phi1.
Qed.

Lemma phi_tofN n : phi (tofN T tO tI tadd tmul n) = tofN T' sO sI sadd smul n.
Proof. destruct n; simpl; [exact phi0|apply phi_tofpos]. Qed.

Lemma phi_Psym j2 m2 n2 a b c d :
  phi (Psym T tO tI tadd tmul j2 m2 n2 a b c d)
  = Psym T' sO sI sadd smul j2 m2 n2 (phi a) (phi b) (phi c) (phi d).
Proof.
  unfold Psym. induction (psym_idx (hp j2 m2) (hp j2 n2) (hm j2 n2)) as [|i l IH]; simpl.
  - exact phi0.
  - rewrite phiadd, IH. f_equal. unfold psym_term.
    rewrite !phimul, phi_tofN, !phi_tpow. reflexivity.
Qed.
End Morph.

Lemma tsum_ext {T A} (tO : T) tadd (f g : A -> T) l :
  (forall k, f k = g k) -> tsum tO tadd f l = tsum tO tadd g l.
Proof. intros H. induction l as [|k l IH]; simpl; [reflexivity|]. rewrite H, IH. reflexivity. Qed.

(* normalisation sqrt(a_m) / sqrt(a_n) *)
Open Scope R_scope.
Definition nrm (j2 m2 n2 : Z) : R := sqrt (IZR (a_of j2 m2)) / sqrt (IZR (a_of j2 n2)).

Lemma sqrt_a_neq j2 m2 : sqrt (IZR (a_of j2 m2)) <> 0.
Proof. apply Rgt_not_eq, sqrt_lt_R0, a_of_Rpos. Qed.

Lemma nrm_mul j2 m2 k2 n2 : nrm j2 m2 k2 * nrm j2 k2 n2 = nrm j2 m2 n2.
Proof. unfold nrm. field. split; apply sqrt_a_neq. Qed.

(* ---------- real matrices: the d-matrix link ---------- *)
Definition rsum {A} (f : A -> R) (l : list A) : R := tsum 0 Rplus f l.
Definition DmatR (j2 m2 n2 : Z) (a b c d : R) : R := nrm j2 m2 n2 * PsymR j2 m2 n2 a b c d.

Lemma rsum_scal {A} x (f : A -> R) l : x * rsum f l = rsum (fun k => x * f k) l.
Proof. unfold rsum. induction l as [|k l IH]; simpl; [ring|]. rewrite <- IH. ring. Qed.

Theorem PsymR_hom j2 m2 n2 :
  (0 <= j2 <= 8)%Z -> In m2 (m_range j2) -> In n2 (m_range j2) ->
  forall a b c d a' b' c' d',
    PsymR j2 m2 n2 (a * a' + b * c') (a * b' + b * d') (c * a' + d * c') (c * b' + d * d')
    = rsum (fun k2 => PsymR j2 m2 k2 a b c d * PsymR j2 k2 n2 a' b' c' d') (m_range j2).
Proof. exact (Psym_hom_gen R 0 1 Rplus Rmult Rminus Ropp RTheory j2 m2 n2). Qed.

Theorem DmatR_hom j2 m2 n2 :
  (0 <= j2 <= 8)%Z -> In m2 (m_range j2) -> In n2 (m_range j2) ->
  forall a b c d a' b' c' d',
    DmatR j2 m2 n2 (a * a' + b * c') (a * b' + b * d') (c * a' + d * c') (c * b' + d * d')
    = rsum (fun k2 => DmatR j2 m2 k2 a b c d * DmatR j2 k2 n2 a' b' c' d') (m_range j2).
Proof.
  intros Hj Hm Hn a b c d a' b' c' d'. unfold DmatR.
  rewrite (PsymR_hom j2 m2 n2 Hj Hm Hn), rsum_scal. apply tsum_ext. intros k.
  rewrite <- (nrm_mul j2 m2 k n2). ring.
Qed.

(* d^j_{mn} is the (m,n) entry of the spin-j matrix of the real rotation [[c,-s],[s,c]] *)
Theorem dsmall_cs_is_Dmat j2 m2 n2 c s :
  (0 <= j2 <= 8)%Z -> In m2 (m_range j2) -> In n2 (m_range j2) ->
  dsmall_cs j2 m2 n2 c s = DmatR j2 m2 n2 c (- s) s c.
Proof.
  intros Hj Hm Hn. unfold dsmall_cs, DmatR, nrm. rewrite <- (Psym_link j2 m2 n2 c s Hj Hm Hn).
  rewrite mult_IZR, sqrt_mult by (apply Rlt_le, a_of_Rpos).
  pose proof (sqrt_a_neq j2 n2) as Hx.
  pose proof (sqrt_sqrt _ (Rlt_le _ _ (a_of_Rpos j2 n2))) as E.
  set (x := sqrt (IZR (a_of j2 n2))) in *. rewrite <- E. field. exact Hx.
Qed.

(* composition of rotations about y:  d^j(b1) d^j(b2) = d^j(b1 + b2) *)
Theorem dsmall_add j2 m2 n2 b1 b2 :
  (0 <= j2 <= 8)%Z -> In m2 (m_range j2) -> In n2 (m_range j2) ->
  fold_right (fun k2 acc => dsmall j2 m2 k2 b1 * dsmall j2 k2 n2 b2 + acc) 0 (m_range j2)
  = dsmall j2 m2 n2 (b1 + b2).
Proof.
  intros Hj Hm Hn. unfold dsmall.
  set (c1 := cos (b1 / 2)). set (s1 := sin (b1 / 2)). set (c2 := cos (b2 / 2)). set (s2 := sin (b2 / 2)).
  assert (Ec : cos ((b1 + b2) / 2) = c1 * c2 + - s1 * s2).
  { replace ((b1 + b2) / 2) with (b1 / 2 + b2 / 2) by field. rewrite cos_plus. unfold c1, c2, s1, s2. ring. }
  assert (Es : sin ((b1 + b2) / 2) = s1 * c2 + c1 * s2).
  { replace ((b1 + b2) / 2) with (b1 / 2 + b2 / 2) by field. rewrite sin_plus. unfold c1, c2, s1, s2. ring. }
  rewrite (dsmall_cs_is_Dmat j2 m2 n2 _ _ Hj Hm Hn), Ec, Es.
  transitivity (DmatR j2 m2 n2 (c1 * c2 + - s1 * s2) (c1 * - s2 + - s1 * c2)
                                (s1 * c2 + c1 * s2) (s1 * - s2 + c1 * c2)); [|f_equal; ring].
  rewrite (DmatR_hom j2 m2 n2 Hj Hm Hn). unfold rsum, tsum.
  assert (G : forall l, (forall k, In k l -> In k (m_range j2)) ->
     fold_right (fun k2 acc => dsmall_cs j2 m2 k2 c1 s1 * dsmall_cs j2 k2 n2 c2 s2 + acc) 0 l
     = fold_right (fun i acc => DmatR j2 m2 i c1 (- s1) s1 c1 * DmatR j2 i n2 c2 (- s2) s2 c2 + acc) 0 l).
  { induction l as [|k l IH]; intros Hl; simpl; [reflexivity|].
    rewrite IH by (intros; apply Hl; right; assumption).
    rewrite (dsmall_cs_is_Dmat j2 m2 k), (dsmall_cs_is_Dmat j2 k n2); auto; apply Hl; left; reflexivity. }
  apply G. auto.
Qed.
