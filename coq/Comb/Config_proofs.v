From Coq Require Import List Arith ZArith Bool Lia.
From TFV Require Import Comb.LS Comb.Config.
Import ListNotations.
Open Scope Z_scope.

(* ================================================================== 1. the cut *)
Lemma nonempty_true {A} (l : list A) : nonempty l = true <-> l <> [].
Proof. destruct l; simpl; split; congruence. Qed.

Lemma chain_kept_iff oc : chain_kept oc = true <-> forall d, In d oc -> snd d <> [].
Proof.
  unfold chain_kept. rewrite forallb_forall. split; intros H d Hd; apply nonempty_true; auto.
Qed.

(* a chain is in the loaded model iff it is an enumerated chain all of whose decays have a
   non-empty (l,s) list: nothing allowed is dropped, nothing forbidden is kept *)
Lemma cut_exact c chs oc :
  load_chains c = Some chs ->
  (In oc chs <-> In oc (map (annotate (snd (particle_item c))) (raw_chains c))
                 /\ forall d, In d oc -> snd d <> []).
Proof.
  unfold load_chains. intros H.
  destruct (filter chain_kept (map (annotate (snd (particle_item c))) (raw_chains c))) eqn:E; [discriminate|].
  injection H as <-. rewrite <- E, filter_In, chain_kept_iff. tauto.
Qed.

Lemma load_none_iff c :
  load_chains c = None <->
  forall oc, In oc (map (annotate (snd (particle_item c))) (raw_chains c)) -> exists d, In d oc /\ snd d = [].
Proof.
  unfold load_chains.
  destruct (filter chain_kept (map (annotate (snd (particle_item c))) (raw_chains c))) eqn:E.
  - split; [|reflexivity]. intros _ oc Hoc.
    assert (Hn : ~ In oc (filter chain_kept (map (annotate (snd (particle_item c))) (raw_chains c)))) by (rewrite E; auto).
    rewrite filter_In in Hn.
    destruct (chain_kept oc) eqn:K; [tauto|].
    unfold chain_kept in K.
    assert (Hx : exists d, In d oc /\ nonempty (snd d) = false).
    { clear -K. induction oc as [|d r IH]; simpl in K; [discriminate|].
      destruct (nonempty (snd d)) eqn:N.
      - destruct (IH K) as [x [Hx1 Hx2]]. exists x. split; [right|]; assumption.
      - exists d. split; [left; reflexivity | exact N]. }
    destruct Hx as [d [Hd Hn']]. exists d. split; [exact Hd|]. destruct (snd d); [reflexivity | discriminate].
  - split; [discriminate|]. intros H.
    assert (Hin : In o (filter chain_kept (map (annotate (snd (particle_item c))) (raw_chains c)))) by (rewrite E; left; reflexivity).
    apply filter_In in Hin. destruct Hin as [H1 H2]. destruct (H o H1) as [d [Hd He]].
    rewrite chain_kept_iff in H2. exfalso. exact (H2 d Hd He).
Qed.

(* ================================================================== 2. aliases *)
Lemma rename_key_idem k : rename_key (rename_key k) = rename_key k.
Proof. destruct k; reflexivity. Qed.

Definition expand_alias_props (p : props) : props := map (fun kv => (rename_key (fst kv), snd kv)) p.

Lemma rename_params_expand p : rename_params (expand_alias_props p) = rename_params p.
Proof.
  unfold rename_params, expand_alias_props. generalize (@nil (pkey * Z)).
  induction p as [|[k v] r IH]; intros acc; simpl; [reflexivity|].
  rewrite rename_key_idem. apply IH.
Qed.

Lemma dget_map_val {V W} (f : V -> W) (d : list (Z * V)) n :
  dget Z.eqb (map (fun kv => (fst kv, f (snd kv))) d) n = option_map f (dget Z.eqb d n).
Proof.
  induction d as [|[k v] r IH]; simpl; [reflexivity|]. destruct (n =? k); [reflexivity | exact IH].
Qed.

(* writing Par / m0 / g0 instead of P / mass / width anywhere in the property table gives the
   same particle (the keys are expanded in place) *)
Lemma alias_equiv (pr : pprop_t) n :
  pinfo_of (map (fun kv => (fst kv, expand_alias_props (snd kv))) pr) n = pinfo_of pr n.
Proof.
  unfold pinfo_of. rewrite dget_map_val.
  destruct (dget Z.eqb pr n) as [p|]; simpl; [rewrite rename_params_expand|]; reflexivity.
Qed.

(* ================================================================== 3. candidate lists *)
Lemma all_combine_singletons j : all_combine (map (fun n => [n]) j) = [j].
Proof. induction j as [|a r IH]; simpl; [reflexivity|]. rewrite IH. reflexivity. Qed.

Lemma wrap_nil n : wrap [] n = [n].
Proof. reflexivity. Qed.

(* the cards written out for every candidate *)
Definition explicit_recs (m : pmap_t) (r : drec) : list drec :=
  flat_map (fun i => map (fun j => mkD i j (d_params r)) (all_combine (map (wrap m) (d_outs r))))
           (wrap m (d_core r)).

Lemma expand_rec_explicit i j p : expand_rec [] (mkD i j p) = [((i, j), p)].
Proof.
  unfold expand_rec. simpl d_core. simpl d_outs. simpl d_params. rewrite wrap_nil. simpl.
  replace (map (wrap []) j) with (map (fun n => [n]) j) by (apply map_ext; intros; reflexivity).
  rewrite all_combine_singletons. reflexivity.
Qed.

Lemma flat_map_flat_map {A B C} (f : A -> list B) (g : B -> list C) l :
  flat_map g (flat_map f l) = flat_map (fun x => flat_map g (f x)) l.
Proof. induction l as [|a r IH]; simpl; [reflexivity|]. rewrite flat_map_app, IH. reflexivity. Qed.

Lemma flat_map_map {A B C} (f : A -> B) (g : B -> list C) l :
  flat_map g (map f l) = flat_map (fun x => g (f x)) l.
Proof. induction l as [|a r IH]; simpl; [reflexivity|]. rewrite IH. reflexivity. Qed.

Lemma flat_map_singleton {A B} (f : A -> B) l : flat_map (fun x => [f x]) l = map f l.
Proof. induction l as [|a r IH]; simpl; [reflexivity|]. rewrite IH. reflexivity. Qed.

Lemma candidate_rec_equiv m r : flat_map (expand_rec []) (explicit_recs m r) = expand_rec m r.
Proof.
  unfold explicit_recs, expand_rec. rewrite flat_map_flat_map.
  apply flat_map_ext. intros i. rewrite flat_map_map.
  erewrite flat_map_ext by (intros j; apply expand_rec_explicit).
  apply flat_map_singleton.
Qed.

(* a decay section with candidate lists = the section with every card written out for every
   candidate and no candidate map *)
Lemma candidate_list_equiv m recs :
  all_decs [] (flat_map (explicit_recs m) recs) = all_decs m recs.
Proof.
  unfold all_decs. rewrite flat_map_flat_map. apply flat_map_ext. intros r. apply candidate_rec_equiv.
Qed.

(* ================================================================== 4. includes *)
Lemma dset_absent {V} (d : list (Z * V)) k v : dget Z.eqb d k = None -> dset Z.eqb d k v = d ++ [(k, v)].
Proof.
  induction d as [|[k' v'] r IH]; simpl; [reflexivity|].
  destruct (k =? k'); [discriminate|]. intros H. rewrite IH by exact H. reflexivity.
Qed.

Lemma dget_app_absent {V} (d e : list (Z * V)) k : dget Z.eqb d k = None -> dget Z.eqb (d ++ e) k = dget Z.eqb e k.
Proof.
  induction d as [|[k' v'] r IH]; simpl; [reflexivity|]. destruct (k =? k'); [discriminate | exact IH].
Qed.

(* an included file that only brings new particles is the same as writing them at the end *)
Lemma include_equiv_new s : forall d,
  (forall k, In k (map fst s) -> dget Z.eqb d k = None) -> NoDup (map fst s) ->
  do_include d s = d ++ s.
Proof.
  unfold do_include. induction s as [|[k v] r IH]; intros d Hd ND; simpl.
  - rewrite app_nil_r. reflexivity.
  - rewrite (Hd k) by (left; reflexivity).
    rewrite dset_absent by (apply Hd; left; reflexivity).
    inversion ND as [|? ? Hk ND']; subst.
    change (fold_left _ r (d ++ [(k, v)])) with (do_include (d ++ [(k, v)]) r).
    unfold do_include in *. rewrite IH.
    + rewrite <- app_assoc. reflexivity.
    + intros k' Hk'. rewrite dget_app_absent by (apply Hd; right; exact Hk').
      simpl. destruct (k' =? k) eqn:E; [|reflexivity].
      apply Z.eqb_eq in E. subst k'. simpl in Hk. contradiction.
    + exact ND'.
Qed.

(* a property dict present in both: the included dict without the keys the entry already has,
   then the entry's own keys *)
Lemma include_equiv_override d k dp sp :
  dget Z.eqb d k = Some (PVProps dp) ->
  do_include d [(k, PVProps sp)] = dset Z.eqb d k (PVProps (merge_props sp dp)).
Proof. unfold do_include. simpl. intros ->. reflexivity. Qed.
(* the merge before the repair *)
Lemma include_old_override d k dp sp :
  dget Z.eqb d k = Some (PVProps dp) ->
  do_include_old d [(k, PVProps sp)] = dset Z.eqb d k (PVProps (dupdate pkey_eqb sp dp)).
Proof. unfold do_include_old. simpl. intros ->. reflexivity. Qed.

(* --- includes and aliases together: per canonical key (mass, width, P ...) the entry's own value
   wins over the included file's, whatever spelling either of them uses *)
Lemma pkey_eqb_eq a b : pkey_eqb a b = true <-> a = b.
Proof.
  destruct a, b; simpl; split; intros H; try discriminate; try reflexivity.
  - apply Z.eqb_eq in H. subst. reflexivity.
  - injection H as ->. apply Z.eqb_refl.
Qed.
Lemma pkey_eqb_refl a : pkey_eqb a a = true.
Proof. apply pkey_eqb_eq. reflexivity. Qed.

Lemma dget_dset_pkey (d : props) k' v k :
  dget pkey_eqb (dset pkey_eqb d k' v) k = if pkey_eqb k k' then Some v else dget pkey_eqb d k.
Proof.
  induction d as [|[k0 v0] r IH]; simpl.
  - reflexivity.
  - destruct (pkey_eqb k' k0) eqn:E0; simpl.
    + apply pkey_eqb_eq in E0. subst k0. destruct (pkey_eqb k k'); reflexivity.
    + rewrite IH. destruct (pkey_eqb k k0) eqn:E1; [|reflexivity].
      destruct (pkey_eqb k k') eqn:E2; [|reflexivity].
      apply pkey_eqb_eq in E1. apply pkey_eqb_eq in E2. subst k0 k'.
      rewrite pkey_eqb_refl in E0. discriminate.
Qed.

Definition key_val (k : pkey) (kv : pkey * Z) : option Z :=
  if pkey_eqb k (rename_key (fst kv)) then Some (snd kv) else None.

(* rename_params: the LAST entry whose renamed key is k gives the value *)
Lemma rename_params_last p k :
  dget pkey_eqb (rename_params p) k = last_some (key_val k) p None.
Proof.
  unfold rename_params.
  assert (G : forall acc, dget pkey_eqb (fold_left (fun acc kv => dset pkey_eqb acc (rename_key (fst kv)) (snd kv)) p acc) k
                          = last_some (key_val k) p (dget pkey_eqb acc k)).
  { induction p as [|kv r IH]; intros acc; simpl; [reflexivity|].
    rewrite IH, dget_dset_pkey. unfold key_val. destruct (pkey_eqb k (rename_key (fst kv))); reflexivity. }
  apply (G []).
Qed.

Lemma last_some_app {A B} (f : A -> option B) a b acc :
  last_some f (a ++ b) acc = last_some f b (last_some f a acc).
Proof. revert acc. induction a as [|x r IH]; intros acc; simpl; [reflexivity | apply IH]. Qed.
Lemma last_some_acc {A B} (f : A -> option B) l acc :
  last_some f l acc = match last_some f l None with Some y => Some y | None => acc end.
Proof.
  revert acc. induction l as [|x r IH]; intros acc; simpl; [reflexivity|].
  rewrite IH. rewrite (IH (match f x with Some y => Some y | None => None end)).
  destruct (last_some f r None); [reflexivity|]. destruct (f x); reflexivity.
Qed.
Lemma last_some_none {A B} (f : A -> option B) l :
  last_some f l None = None -> forall x, In x l -> f x = None.
Proof.
  induction l as [|y r IH]; simpl; [intros _ x []|].
  intros H x [->|Hx].
  - rewrite last_some_acc in H. destruct (last_some f r None); [discriminate|]. destruct (f x); [discriminate | reflexivity].
  - apply IH; [|exact Hx]. rewrite last_some_acc in H. destruct (last_some f r None); [discriminate | reflexivity].
Qed.
Lemma last_some_filter {A B} (f : A -> option B) (P : A -> bool) l :
  (forall x, In x l -> f x <> None -> P x = true) ->
  forall acc, last_some f (filter P l) acc = last_some f l acc.
Proof.
  induction l as [|x r IH]; intros H acc; simpl; [reflexivity|].
  destruct (P x) eqn:E; simpl.
  - apply IH. intros y Hy. apply H. right. exact Hy.
  - destruct (f x) eqn:F.
    + rewrite H in E; [discriminate | left; reflexivity | rewrite F; discriminate].
    + apply IH. intros y Hy. apply H. right. exact Hy.
Qed.

Lemma include_main_wins sp dp k :
  dget pkey_eqb (rename_params (merge_props sp dp)) k
  = match dget pkey_eqb (rename_params dp) k with
    | Some v => Some v
    | None => dget pkey_eqb (rename_params sp) k
    end.
Proof.
  rewrite !rename_params_last. unfold merge_props. rewrite last_some_app, last_some_acc.
  destruct (last_some (key_val k) dp None) eqn:E; [reflexivity|].
  apply last_some_filter. intros x Hx Fx.
  destruct (pkey_mem (fst x) dp) eqn:M; [|reflexivity]. exfalso.
  unfold pkey_mem in M. apply existsb_exists in M. destruct M as [y [Hy Ey]].
  apply pkey_eqb_eq in Ey.
  pose proof (last_some_none _ _ E y Hy) as N.
  unfold key_val in N, Fx. rewrite <- Ey in N. destruct (pkey_eqb k (rename_key (fst x))); [discriminate | apply Fx; reflexivity].
Qed.

(* the merge before the repair did not have this property: main file `mass: 4` (after a first
   include that wrote `m0: 3`), second include `mass: 9` -> the particle gets mass 3 *)
Lemma include_old_alias_refuted :
  exists sp dp k v,
    dget pkey_eqb (rename_params dp) k = Some v /\
    dget pkey_eqb (rename_params (dupdate pkey_eqb sp dp)) k <> Some v.
Proof.
  exists [(KMass, 9)], [(KM0, 3); (KMass, 4)], KMass, 4. split; [reflexivity|]. vm_compute. discriminate.
Qed.

(* ================================================================== 4b. decay lists after the cut *)
Lemma pid_eqb0_eq a b : pid_eqb0 a b = true <-> a = b.
Proof.
  destruct a as [a1 a2], b as [b1 b2]. unfold pid_eqb0. simpl. rewrite andb_true_iff, !Z.eqb_eq.
  split; [intros [-> ->]; reflexivity | intros H; injection H as -> ->; split; reflexivity].
Qed.
(* no phantom: the decay list of a particle of the loaded model = the decays of the kept chains
   that start from it *)
Lemma cut_decay_lists chs p d :
  In d (decays_of_particle chs p) <-> fst d = p /\ exists oc, In oc chs /\ In d (chain_struct oc).
Proof.
  unfold decays_of_particle, all_sdecs. rewrite filter_In, in_flat_map, pid_eqb0_eq. tauto.
Qed.

(* the cut before the repair left a phantom: X1 -> [K2, D1 | forbidden K2 -> B C] *)
Definition phantom_config : config :=
  mkC [(3,[EList [DName 1;DName 2;DOpts [OPbreak true]]]);(1,[EList [DName 4;DName 5];EList [DName 6;DName 7]]);
       (6,[EItem (DName 8);EItem (DName 5)]);(4,[EItem (DName 8);EItem (DName 7)])]
      3 (Some [(KJ,0);(KP,(-1));(KMass,5300000)])
      [(8, Some [(KJ,2);(KP,(-1));(KMass,1000000)]);(7, Some [(KJ,0);(KP,(-1));(KMass,500000)]);
       (5, Some [(KJ,0);(KP,(-1));(KMass,140000)]);(2, Some [(KJ,0);(KP,(-1));(KMass,140000)])]
      [(1, PVProps [(KJ,2);(KP,1);(KMass,3000000);(KWidth,200000)]);(6, PVProps [(KJ,2);(KP,(-1));(KMass,1400000);(KWidth,100000)]);
       (4, PVList [CName 9]);(9, PVProps [(KJ,0);(KP,1);(KMass,1900000);(KWidth,100000)])] [].
Lemma cut_old_phantom :
  exists chs d, load_chains phantom_config = Some chs /\ In d (decay_table_old phantom_config)
                /\ in_some_chain chs d = false.
Proof.
  eexists. exists ((1, 0), [(9, 0); (5, 0)]). split; [vm_compute; reflexivity|].
  split; [vm_compute; tauto | vm_compute; reflexivity].
Qed.

(* ================================================================== 5. cross_combine = n-ary product *)
Fixpoint nprod {A} (x : list (list (list A))) : list (list A) :=
  match x with
  | [] => [[]]
  | h :: t => flat_map (fun i => map (fun j => i ++ j) (nprod t)) h
  end.

Lemma nprod_nonempty {A} (x : list (list (list A))) : Forall (fun l => l <> []) x -> nprod x <> [].
Proof.
  induction 1 as [|h t Hh Ht IH]; simpl; [discriminate|].
  destruct h as [|i h']; [congruence|]. simpl.
  destruct (nprod t) as [|j r]; [congruence|]. simpl. discriminate.
Qed.

(* on non-empty argument lists cross_combine is the ordered n-ary product *)
Lemma cross_combine_product {A} (x : list (list (list A))) :
  x <> [] -> Forall (fun l => l <> []) x -> cross_combine x = nprod x.
Proof.
  induction x as [|h t IH]; intros Hx HF; [congruence|].
  inversion HF as [|? ? Hh Ht]; subst.
  destruct t as [|h' t'].
  - simpl. apply flat_map_ext. intros i. rewrite app_nil_r. reflexivity.
  - assert (E : cross_combine (h' :: t') = nprod (h' :: t')) by (apply IH; [discriminate | exact Ht]).
    change (cross_combine (h :: h' :: t')) with
      (flat_map (fun i => match cross_combine (h' :: t') with [] => [i] | _ => map (fun j => i ++ j) (cross_combine (h' :: t')) end) h).
    rewrite E. pose proof (nprod_nonempty _ Ht) as NE.
    change (nprod (h :: h' :: t')) with (flat_map (fun i => map (fun j => i ++ j) (nprod (h' :: t'))) h).
    destruct (nprod (h' :: t')) eqn:N; [congruence|]. reflexivity.
Qed.

Lemma in_nprod {A} (x : list (list (list A))) c :
  In c (nprod x) <-> exists picks, Forall2 (fun p l => In p l) picks x /\ c = concat picks.
Proof.
  revert c. induction x as [|h t IH]; intros c; simpl.
  - split.
    + intros [<-|[]]. exists []. split; [constructor | reflexivity].
    + intros [picks [HF ->]]. inversion HF. left. reflexivity.
  - rewrite in_flat_map. split.
    + intros [i [Hi Hc]]. apply in_map_iff in Hc. destruct Hc as [j [<- Hj]].
      apply IH in Hj. destruct Hj as [picks [HF ->]].
      exists (i :: picks). split; [constructor; assumption | reflexivity].
    + intros [picks [HF ->]]. inversion HF as [|p l ps ls Hp Hrest]; subst.
      exists p. split; [exact Hp|]. apply in_map_iff. exists (concat ps). split; [reflexivity|].
      apply IH. exists ps. split; [exact Hrest | reflexivity].
Qed.

(* ================================================================== 6. chain_decay = trees of declared decays *)
(* [is_chain n D p c]: c is the pre-order list of the decays of a tree of depth <= n, rooted at p,
   every vertex a declared decay of its mother; a daughter is a leaf exactly when it has no
   declared decay *)
Fixpoint is_chain (n : nat) (D : list bdec) (p : name) (c : list bdec) : Prop :=
  match n with
  | O => False
  | S m => exists d subs,
             In d (decays_of D p)
             /\ Forall2 (fun o s => (decays_of D o = [] /\ s = []) \/ (decays_of D o <> [] /\ is_chain m D o s)) (snd d) subs
             /\ c = d :: concat subs
  end.
(* the declared decays below p have depth at most n (no particle is its own ancestor) *)
Fixpoint bounded (n : nat) (D : list bdec) (p : name) : Prop :=
  match n with
  | O => decays_of D p = []
  | S m => forall d, In d (decays_of D p) -> forall o, In o (snd d) -> bounded m D o
  end.

Lemma filter_nonempty_all {A} (l : list (list A)) : Forall (fun x => x <> []) (filter nonempty l).
Proof.
  apply Forall_forall. intros x Hx. apply filter_In in Hx. destruct Hx as [_ Hx]. apply nonempty_true. exact Hx.
Qed.

Lemma cc_prod (x : list (list (list (name * list name)))) :
  x <> [] -> Forall (fun l => l <> []) x -> cross_combine x = nprod x.
Proof. apply cross_combine_product. Qed.

Lemma chain_decay_nil_iff n D p : chain_decay (S n) D p = [] <-> decays_of D p = [].
Proof.
  change (chain_decay (S n) D p) with
    (flat_map (fun d => cross_combine ([[d]] :: filter nonempty (map (chain_decay n D) (snd d)))) (decays_of D p)).
  split.
  - intros H. destruct (decays_of D p) as [|d r]; [reflexivity|]. exfalso.
    cbn [flat_map] in H. apply app_eq_nil in H. destruct H as [H _].
    match type of H with @cross_combine ?A ?X = _ =>
      assert (NE : X <> []) by discriminate;
      assert (FA : Forall (fun l => l <> []) X) by (constructor; [discriminate | apply filter_nonempty_all]);
      rewrite (@cross_combine_product A X NE FA) in H;
      exact (nprod_nonempty _ FA H)
    end.
  - intros ->. reflexivity.
Qed.

Lemma in_filtered_product {A} (F : name -> list (list A)) outs c :
  In c (nprod (filter nonempty (map F outs))) <->
  exists subs, Forall2 (fun o s => (F o = [] /\ s = []) \/ (F o <> [] /\ In s (F o))) outs subs /\ c = concat subs.
Proof.
  revert c. induction outs as [|o r IH]; intros c.
  - simpl. split.
    + intros [<-|[]]. exists []. split; [constructor | reflexivity].
    + intros [subs [HF ->]]. inversion HF. left. reflexivity.
  - simpl map. simpl filter. destruct (F o) as [|x xs] eqn:E.
    + simpl nonempty. cbv iota. rewrite IH. split.
      * intros [subs [HF ->]]. exists ([] :: subs). split; [constructor; [left; split; [exact E | reflexivity] | exact HF] | reflexivity].
      * intros [subs [HF ->]]. inversion HF as [|? s ? ss Hs Hrest]; subst.
        destruct Hs as [[_ ->]|[Hne _]]; [|rewrite E in Hne; congruence].
        exists ss. split; [exact Hrest | reflexivity].
    + simpl nonempty. cbv iota. change (nprod ((x :: xs) :: filter nonempty (map F r))) with
        (flat_map (fun i => map (fun j => i ++ j) (nprod (filter nonempty (map F r)))) (x :: xs)).
      rewrite in_flat_map. split.
      * intros [i [Hi Hc]]. apply in_map_iff in Hc. destruct Hc as [j [<- Hj]].
        apply IH in Hj. destruct Hj as [subs [HF ->]].
        exists (i :: subs). split; [|reflexivity]. constructor; [|exact HF].
        right. rewrite E. split; [discriminate | exact Hi].
      * intros [subs [HF ->]]. inversion HF as [|? s ? ss Hs Hrest]; subst.
        destruct Hs as [[He _]|[_ Hin]]; [rewrite E in He; discriminate|].
        rewrite E in Hin.
        exists s. split; [exact Hin|]. apply in_map_iff. exists (concat ss). split; [reflexivity|].
        apply IH. exists ss. split; [exact Hrest | reflexivity].
Qed.

Lemma Forall2_impl_in {A B} (P Q : A -> B -> Prop) l l' :
  (forall a b, In a l -> P a b -> Q a b) -> Forall2 P l l' -> Forall2 Q l l'.
Proof.
  intros H HF. induction HF as [|a b l l' Hab HF IH]; constructor.
  - apply H; [left; reflexivity | exact Hab].
  - apply IH. intros a' b' Ha'. apply H. right. exact Ha'.
Qed.

(* sound and complete: with enough fuel for the depth of the declared decays, the enumerated
   chains are exactly the trees of declared decays rooted at p *)
Lemma chain_decay_sound_complete D : forall n p,
  bounded n D p -> forall c, In c (chain_decay (S n) D p) <-> is_chain (S n) D p c.
Proof.
  induction n as [|m IH]; intros p HB c.
  - simpl in HB. simpl. rewrite HB. simpl. split; [intros [] | intros [d [subs [[] _]]]].
  - change (chain_decay (S (S m)) D p) with
      (flat_map (fun d => cross_combine ([[d]] :: filter nonempty (map (chain_decay (S m) D) (snd d)))) (decays_of D p)).
    rewrite in_flat_map.
    assert (STEP : forall d, In d (decays_of D p) ->
      (In c (cross_combine ([[d]] :: filter nonempty (map (chain_decay (S m) D) (snd d)))) <->
       exists subs, Forall2 (fun o s => (decays_of D o = [] /\ s = []) \/ (decays_of D o <> [] /\ is_chain (S m) D o s)) (snd d) subs
                    /\ c = d :: concat subs)).
    { intros d Hd.
      match goal with |- context [@cross_combine ?A ?X] =>
        assert (NE : X <> []) by discriminate;
        assert (FA : Forall (fun l => l <> []) X) by (constructor; [discriminate | apply filter_nonempty_all]);
        rewrite (@cross_combine_product A X NE FA)
      end.
      change (nprod ([[d]] :: filter nonempty (map (chain_decay (S m) D) (snd d)))) with
        (flat_map (fun i => map (fun j => i ++ j) (nprod (filter nonempty (map (chain_decay (S m) D) (snd d))))) [[d]]).
      simpl flat_map. rewrite app_nil_r, in_map_iff.
      split.
      - intros [j [<- Hj]]. apply in_filtered_product in Hj. destruct Hj as [subs [HF ->]].
        exists subs. split; [|reflexivity].
        eapply Forall2_impl_in; [|exact HF]. intros o s Ho [[H1 H2]|[H1 H2]].
        + left. split; [apply (chain_decay_nil_iff m); exact H1 | exact H2].
        + right. split; [intro E; apply H1; apply (chain_decay_nil_iff m); exact E|].
          apply IH; [exact (HB d Hd o Ho) | exact H2].
      - intros [subs [HF ->]]. exists (concat subs). split; [reflexivity|].
        apply in_filtered_product. exists subs. split; [|reflexivity].
        eapply Forall2_impl_in; [|exact HF]. intros o s Ho [[H1 H2]|[H1 H2]].
        + left. split; [apply (chain_decay_nil_iff m); exact H1 | exact H2].
        + right. split; [intro E; apply H1; apply (chain_decay_nil_iff m); exact E|].
          apply IH; [exact (HB d Hd o Ho) | exact H2]. }
    split.
    + intros [d [Hd Hc]]. exists d. apply (STEP d Hd) in Hc. destruct Hc as [subs [HF Hc]].
      exists subs. repeat split; assumption.
    + intros [d [subs [Hd [HF Hc]]]]. exists d. split; [exact Hd|]. apply (STEP d Hd).
      exists subs. split; assumption.
Qed.

(* ================================================================== 7. declared final state *)
(* every enumerated chain ends in exactly the declared final state (as a multiset) *)
Lemma raw_chain_final_state c ch :
  In ch (raw_chains c) ->
  zlist_eqb (zsort (chain_leaves (map fst ch))) (zsort (map fst (c_finals c))) = true.
Proof.
  unfold raw_chains. destruct (particle_item c) as [m pr].
  intros H. apply in_map_iff in H. destruct H as [x [<- Hx]].
  apply filter_In in Hx. destruct Hx as [_ Hx].
  rewrite map_map. simpl. rewrite map_id. exact Hx.
Qed.

(* the example configuration of tf_pwa.utils.create_test_config:  A -> R_BC D, R_BC -> B C
   names: A=1 B=2 C=3 D=4 R_BC=5;  R_BC is 0+ *)
Definition example_config : config :=
  mkC [(1, [EList [DName 5; DName 4]]); (5, [EItem (DName 2); EItem (DName 3)])]
      1 (Some [(KJ, 0); (KP, -1); (KMass, 1000000)])
      [(2, Some [(KJ, 0); (KP, -1)]); (3, Some [(KJ, 0); (KP, -1)]); (4, Some [(KJ, 0); (KPar, -1)])]
      [(5, PVProps [(KJ, 0); (KPar, 1); (KM0, 500000); (KG0, 50000)])] [].
Lemma example_config_loads :
  load_chains example_config = Some [[((1, 0), [(5, 0); (4, 0)], [(0, 0)]); ((5, 0), [(2, 0); (3, 0)], [(0, 0)])]].
Proof. vm_compute. reflexivity. Qed.
(* with R_BC 0- both decays are parity forbidden: the only chain is cut, the load fails *)
Definition example_config_forbidden : config :=
  mkC (c_decay example_config) 1 (c_top_props example_config) (c_finals example_config)
      [(5, PVProps [(KJ, 0); (KP, -1)])] [].
Lemma example_config_forbidden_cut : load_chains example_config_forbidden = None.
Proof. vm_compute. reflexivity. Qed.
