(* C14: n = 2..6 (Topology_proofs) and n = 7 (Topology_n7) put together. *)
From Coq Require Import List ZArith Bool.
From TFV Require Import Comb.Topology Comb.Topology_proofs Comb.Topology_n7.
Import ListNotations.

Lemma std_homomorphism_le7_forall :
  forall n, In n [2; 3; 4; 5; 6; 7] -> forall c, In c (from_particles n) ->
    homomorphism_ok (standard_topology c) c && homomorphism_ok c (standard_topology c) = true.
Proof.
  intros n Hn c Hc. simpl in Hn.
  destruct Hn as [<-|[<-|[<-|[<-|[<-|[<-|[]]]]]]].
  - apply (std_homomorphism_le6_forall 2); [simpl; tauto|exact Hc].
  - apply (std_homomorphism_le6_forall 3); [simpl; tauto|exact Hc].
  - apply (std_homomorphism_le6_forall 4); [simpl; tauto|exact Hc].
  - apply (std_homomorphism_le6_forall 5); [simpl; tauto|exact Hc].
  - apply (std_homomorphism_le6_forall 6); [simpl; tauto|exact Hc].
  - exact (std_homomorphism_7_forall c Hc).
Qed.
