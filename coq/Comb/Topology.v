(* Model of tf_pwa/particle.py: decay-chain topologies.  Definitions only.
     DecayChain.from_particles        :628-658   (get_graphs)
     _Chain_Graph                     :797-843   (add_edge, add_node, get_decay_chain)
     split_particle_type_list         :463-488
     DecayChain.sorted_table          :545-570
     DecayChain.from_sorted_table     :585-626   (split_len :496, utils.deep_ordered_iter)
     topology_id / topology_same      :660-673, :743-753
     standard_topology / topology_map :698-741
     DecayGroup.topology_structure / get_chains_map :902-940

   Particles.  A BaseParticle is identified by (name, id) and ordered by that pair; names are
   mapped to integers by the harness preserving their (string) order.  The particles created by
   standard_topology are named after their list of final particles: [G g].
   Quirk not modelled: standard_topology orders the parts of that name by *string* order of
   "name:id", the model by (name,id); this only changes the spelling of the name. *)
From Coq Require Import List Arith ZArith NArith Bool MSets.MSetPositive.
Import ListNotations.

(* ------------------------------------------------------------------ orders, sorting *)
Definition zz_leb (a b : Z * Z) : bool :=
  (fst a <? fst b)%Z || ((fst a =? fst b)%Z && (snd a <=? snd b)%Z).

(* Python's list comparison *)
Fixpoint lex_leb {A} (leb : A -> A -> bool) (x y : list A) : bool :=
  match x, y with
  | [], _ => true
  | _ :: _, [] => false
  | a :: x', b :: y' => if leb a b then (if leb b a then lex_leb leb x' y' else true) else false
  end.

Inductive particle := P (name id : Z) | G (g : list (Z * Z)).

Definition p_leb (a b : particle) : bool :=
  match a, b with
  | P n i, P m j => zz_leb (n, i) (m, j)
  | P _ _, G _ => true
  | G _, P _ _ => false
  | G x, G y => lex_leb zz_leb x y
  end.
Definition p_eqb (a b : particle) : bool := p_leb a b && p_leb b a.

Fixpoint list_eqb {A} (eqb : A -> A -> bool) (x y : list A) : bool :=
  match x, y with
  | [], [] => true
  | a :: x', b :: y' => eqb a b && list_eqb eqb x' y'
  | _, _ => false
  end.

(* list.sort() / sorted() *)
Fixpoint insert {A} (leb : A -> A -> bool) (a : A) (l : list A) : list A :=
  match l with
  | [] => [a]
  | b :: r => if leb a b then a :: l else b :: insert leb a r
  end.
Definition isort {A} (leb : A -> A -> bool) (l : list A) : list A := fold_right (insert leb) [] l.

(* ------------------------------------------------------------------ _Chain_Graph *)
Inductive vtx := VTop | VLeaf (i : nat) | VNode (k : nat).
Definition vtx_eqb (a b : vtx) : bool :=
  match a, b with
  | VTop, VTop => true
  | VLeaf i, VLeaf j => Nat.eqb i j
  | VNode i, VNode j => Nat.eqb i j
  | _, _ => false
  end.
Definition edge := (vtx * vtx)%type.
Definition edge_eqb (e f : edge) : bool := vtx_eqb (fst e) (fst f) && vtx_eqb (snd e) (snd f).

(* list.remove(e): first occurrence *)
Fixpoint remove_first (e : edge) (l : list edge) : list edge :=
  match l with
  | [] => []
  | f :: r => if edge_eqb e f then r else f :: remove_first e r
  end.

Record graph := mkG { g_edges : list edge; g_count : nat }.

Definition add_node (g : graph) (e : edge) (d : vtx) : graph :=
  let nd := VNode (g_count g) in
  mkG (remove_first e (g_edges g) ++ [(fst e, nd); (nd, snd e); (nd, d)]) (S (g_count g)).

Fixpoint get_graphs (g : graph) (ps : list vtx) : list graph :=
  match ps with
  | [] => [g]
  | p :: ps' => flat_map (fun e => get_graphs (add_node g e p) ps') (g_edges g)
  end.

Definition base_graph (f0 : vtx) : graph := mkG [(VTop, f0)] 0.

(* get_decay_chain: dict core -> outs in edge order, keys in first-appearance order;
   then decay_list[top] = decay_list[tmp]; del decay_list[tmp] *)
Definition vdecay := (vtx * list vtx)%type.
Fixpoint dl_add (dl : list vdecay) (i j : vtx) : list vdecay :=
  match dl with
  | [] => [(i, [j])]
  | (k, v) :: r => if vtx_eqb k i then (k, v ++ [j]) :: r else (k, v) :: dl_add r i j
  end.
Definition decay_list (g : graph) : list vdecay :=
  fold_left (fun dl e => dl_add dl (fst e) (snd e)) (g_edges g) [].
Fixpoint dl_get (dl : list vdecay) (i : vtx) : option (list vtx) :=
  match dl with
  | [] => None
  | (k, v) :: r => if vtx_eqb k i then Some v else dl_get r i
  end.
(* for a single final particle the implementation raises KeyError: modelled as [] *)
Definition get_decay_chain (g : graph) : list vdecay :=
  let dl := decay_list g in
  match dl_get dl VTop with
  | Some [tmp] =>
      match dl_get dl tmp with
      | Some outs =>
          map (fun kv => if vtx_eqb (fst kv) VTop then (VTop, outs) else kv)
              (filter (fun kv => negb (vtx_eqb (fst kv) tmp)) dl)
      | None => []
      end
  | _ => []
  end.

(* vertices as particles: top "A", finals f0 < f1 < ..., inner nodes any other names *)
Definition pv (v : vtx) : particle :=
  match v with
  | VTop => P 0 0
  | VLeaf i => P (Z.of_nat (S i)) 0
  | VNode k => P (- Z.of_nat (S k)) 0
  end.

Definition decay := (particle * list particle)%type.
Definition chain := list decay.

Definition chain_of_graph (g : graph) : chain :=
  map (fun d => (pv (fst d), map pv (snd d))) (get_decay_chain g).

Definition graphs_n (n : nat) : list graph :=
  match n with
  | 0 => []
  | S m => get_graphs (base_graph (VLeaf 0)) (map VLeaf (seq 1 m))
  end.
(* DecayChain.from_particles(top, [f0 .. f(n-1)]) *)
Definition from_particles (n : nat) : list chain := map chain_of_graph (graphs_n n).

(* (2n-3)!! as a function of n: 1, 1, 3, 15, 105, ... *)
Fixpoint dfact_odd (n : nat) : nat :=
  match n with
  | 0 => 1
  | S m => match m with 0 => 1 | S _ => (2 * m - 1) * dfact_odd m end
  end.

(* ------------------------------------------------------------------ chains, sorted_table *)
Definition mem (x : particle) (l : list particle) : bool := existsb (p_eqb x) l.

(* split_particle_type_list *)
Definition cores (c : chain) : list particle := map fst c.
Definition all_outs (c : chain) : list particle := flat_map snd c.
Definition inner_l (c : chain) := filter (fun i => mem i (all_outs c)) (cores c).
Definition top_l (c : chain) := filter (fun i => negb (mem i (inner_l c))) (cores c).
Definition outs_l (c : chain) := filter (fun i => negb (mem i (inner_l c))) (all_outs c).
Definition chain_top (c : chain) : particle := hd (P 0 0) (top_l c).
Definition chain_outs (c : chain) : list particle := isort p_leb (outs_l c).

(* insertion-ordered dict *)
Definition table := list (particle * list particle).
Fixpoint tget (t : table) (k : particle) : option (list particle) :=
  match t with
  | [] => None
  | (k', v) :: r => if p_eqb k k' then Some v else tget r k
  end.
Definition tmem (t : table) (k : particle) : bool :=
  match tget t k with Some _ => true | None => false end.
Definition tval (t : table) (k : particle) : list particle :=
  match tget t k with Some v => v | None => [] end.
Fixpoint tset (t : table) (k : particle) (v : list particle) : table :=
  match t with
  | [] => [(k, v)]
  | (k', v') :: r => if p_eqb k k' then (k', v) :: r else (k', v') :: tset r k v
  end.

(* one sweep of the while loop body *)
Fixpoint st_pass (dd : table) (ch : chain) : table * chain :=
  match ch with
  | [] => (dd, [])
  | d :: r =>
      if forallb (tmem dd) (snd d)
      then st_pass (tset dd (fst d) (isort p_leb (flat_map (tval dd) (snd d)))) r
      else let '(dd', rem) := st_pass dd r in (dd', d :: rem)
  end.
(* "while chain:" - does not terminate on a chain that is not a tree; fuel = number of decays *)
Fixpoint st_loop (fuel : nat) (dd : table) (ch : chain) : table :=
  match ch with
  | [] => dd
  | _ => match fuel with
         | 0 => dd
         | S f => let '(dd', rem) := st_pass dd ch in st_loop f dd' rem
         end
  end.
Definition sorted_table (c : chain) : table :=
  let outs := chain_outs c in
  tset (st_loop (length c) (fold_left (fun t i => tset t i [i]) outs []) c) (chain_top c) outs.

Definition groupings (c : chain) : list (list particle) := map snd (sorted_table c).

(* ------------------------------------------------------------------ topology_id / same *)
Definition strip (p : particle) : particle := match p with P n _ => P n 0 | G g => G g end.
Definition id_view (identical : bool) (g : list particle) : list particle :=
  if identical then map strip g else g.
Definition topology_id (identical : bool) (c : chain) : list (list particle) :=
  isort (lex_leb p_leb) (map (id_view identical) (groupings c)).
Definition topology_same (identical : bool) (a b : chain) : bool :=
  list_eqb (list_eqb p_eqb) (topology_id identical a) (topology_id identical b).

(* ------------------------------------------------------------------ standard_topology *)
Definition zz_of (p : particle) : Z * Z := match p with P n i => (n, i) | G _ => (0, 0)%Z end.
Definition std_name (c : chain) (tbl : table) (k : particle) : particle :=
  if p_eqb k (chain_top c) then k
  else if mem k (chain_outs c) then k
  else match tget tbl k with Some v => G (map zz_of v) | None => k end.
Definition standard_topology (c : chain) : chain :=
  let tbl := sorted_table c in
  map (fun d => (std_name c tbl (fst d), map (std_name c tbl) (snd d))) c.

(* ------------------------------------------------------------------ topology_map *)
Definition pmap := list (particle * particle).
Fixpoint pm_get (m : pmap) (k : particle) : option particle :=
  match m with
  | [] => None
  | (k', v) :: r => if p_eqb k k' then Some v else pm_get r k
  end.
Definition particle_map (a b : chain) : pmap :=
  let tb := sorted_table b in
  flat_map (fun kv =>
              match find (fun kw => list_eqb p_eqb (snd kv) (snd kw)) tb with
              | Some kw => [(fst kv, fst kw)]
              | None => []
              end) (sorted_table a).
(* BaseDecay.__eq__: same core and same sorted outs *)
Definition decay_eqb (d e : decay) : bool :=
  p_eqb (fst d) (fst e) && list_eqb p_eqb (isort p_leb (snd d)) (isort p_leb (snd e)).
Fixpoint find_idx {A} (f : A -> bool) (l : list A) (i : nat) : option nat :=
  match l with
  | [] => None
  | x :: r => if f x then Some i else find_idx f r (S i)
  end.
Fixpoint all_some {A} (l : list (option A)) : option (list A) :=
  match l with
  | [] => Some []
  | Some x :: r => match all_some r with Some r' => Some (x :: r') | None => None end
  | None :: _ => None
  end.
(* result: particle map (dict order) and, per decay of [a], the index of the matching decay
   of [b] (None = no entry); overall None = KeyError *)
Definition topology_map (a b : chain) : option (pmap * list (option nat)) :=
  let pm := particle_map a b in
  match all_some (map (fun d => match pm_get pm (fst d), all_some (map (pm_get pm) (snd d)) with
                                | Some c, Some o => Some (find_idx (decay_eqb (c, o)) b 0)
                                | _, _ => None
                                end) a) with
  | Some dm => Some (pm, dm)
  | None => None
  end.

(* ------------------------------------------------------------------ DecayGroup *)
(* indices of the first chain of every class *)
Fixpoint topo_reps (identical : bool) (chs : list (nat * chain)) (acc : list (nat * chain)) :=
  match chs with
  | [] => acc
  | c :: r =>
      if existsb (fun j => topology_same identical (snd c) (snd j)) acc
      then topo_reps identical r acc
      else topo_reps identical r (acc ++ [c])
  end.
Definition indexed {A} (l : list A) : list (nat * A) := combine (seq 0 (length l)) l.
Definition topology_structure (identical : bool) (chs : list chain) : list (nat * chain) :=
  topo_reps identical (indexed chs) [].

(* get_chains_map: classes from topology_structure() [identical=False, standard=True], members
   selected with topology_same(j, False) (flag [member_identical] = false; before /repo commit
   04ce759 the call was topology_same(j), i.e. identical=True - kept as the flag value [true]
   only for the refutation example).  None = the implementation raises KeyError. *)
Definition chains_map_gen (member_identical : bool) (chs : list chain)
  : option (list (list (nat * (pmap * list (option nat))))) :=
  all_some
    (map (fun rep =>
            let dc := standard_topology (snd rep) in
            all_some
              (flat_map (fun j => if topology_same member_identical dc (snd j)
                                  then [match topology_map dc (snd j) with
                                        | Some m => Some (fst j, m)
                                        | None => None
                                        end]
                                  else []) (indexed chs)))
         (topology_structure false chs)).
Definition get_chains_map := chains_map_gen false.

(* ------------------------------------------------------------------ from_sorted_table *)
(* utils.deep_ordered_range: increasing index tuples of length k, lexicographic *)
Fixpoint subs {A} (k : nat) (l : list A) : list (list A) :=
  match l with
  | [] => match k with 0 => [[]] | S _ => [] end
  | x :: r => match k with
              | 0 => [[]]
              | S k' => map (cons x) (subs k' r) ++ subs k r
              end
  end.
Definition deep_search (val : list particle) (base : table) : option (list particle) :=
  find (fun i => list_eqb p_eqb (isort p_leb (flat_map (tval base) i)) (isort p_leb val))
       (flat_map (fun k => subs k (map fst base)) (seq 2 (length base - 1))).
Definition tremove (t : table) (ks : list particle) : table :=
  filter (fun kv => negb (mem (fst kv) ks)) t.
Fixpoint fst_entries (base : table) (es : table) (acc : chain) : option (chain * table) :=
  match es with
  | [] => Some (acc, base)
  | j :: r =>
      match deep_search (snd j) base with
      | Some found => fst_entries (tset (tremove base found) (fst j) (snd j)) r (acc ++ [(fst j, found)])
      | None => None
      end
  end.
Fixpoint fst_layers (t : table) (sizes : list nat) (base : table) (acc : chain) : option chain :=
  match sizes with
  | [] => Some acc
  | L :: r =>
      match fst_entries base (filter (fun kv => Nat.eqb (length (snd kv)) L) t) acc with
      | Some (acc', base') => fst_layers t r base' acc'
      | None => None
      end
  end.
Definition from_sorted_table (t : table) : option chain :=
  let maxl := list_max (map (fun kv => length (snd kv)) t) in
  fst_layers t (seq 2 (maxl - 1)) (filter (fun kv => Nat.eqb (length (snd kv)) 1) t) [].

(* ================================================================== evaluation helpers
   (used by the correspondence cases and by the finite theorems) *)

(* exact code of a grouping over finals f0..f6: base-8 digits (index+1) *)
Definition name_digit (p : particle) : N := match p with P n _ => Z.to_N n | G _ => 0%N end.
Definition group_code (g : list particle) : N := fold_left (fun acc p => (acc * 8 + name_digit p)%N) g 0%N.
(* merge sort on N (evaluation only) *)
Fixpoint mergeN (a : list N) : list N -> list N :=
  match a with
  | [] => fun b => b
  | x :: a' =>
      fix inner (b : list N) : list N :=
        match b with
        | [] => a
        | y :: b' => if (x <=? y)%N then x :: mergeN a' b else y :: inner b'
        end
  end.
Fixpoint split2 {A} (l : list A) : list A * list A :=
  match l with
  | [] => ([], [])
  | [x] => ([x], [])
  | x :: y :: r => let '(a, b) := split2 r in (x :: a, y :: b)
  end.
Fixpoint msortN_f (fuel : nat) (l : list N) : list N :=
  match fuel with
  | 0 => l
  | S f => match l with
           | [] | [_] => l
           | _ => let '(a, b) := split2 l in mergeN (msortN_f f a) (msortN_f f b)
           end
  end.
Definition msortN (l : list N) : list N := msortN_f (S (Nat.log2 (length l) + 1)) l.
(* a chain's set of groupings as one number: sorted grouping codes, 21 bits each *)
Definition chain_key (c : chain) : N :=
  fold_left (fun acc x => (acc * 2097152 + x)%N) (msortN (map group_code (groupings c))) 0%N.
Definition enum_keys (n : nat) : list N := msortN (map chain_key (from_particles n)).
Definition enum_ok (n : nat) (impl_keys : list N) : bool := list_eqb N.eqb (enum_keys n) impl_keys.

(* binary tree over exactly the leaves f0..f(n-1) *)
Definition leaf_p (i : nat) : particle := P (Z.of_nat (S i)) 0.
Definition chain_bintree_ok (n : nat) (c : chain) : bool :=
  let finals := map leaf_p (seq 0 n) in
  let st := sorted_table c in
  Nat.eqb (length c) (n - 1)
  && forallb (fun d => Nat.eqb (length (snd d)) 2) c
  && list_eqb p_eqb (top_l c) [P 0 0]
  && list_eqb p_eqb (chain_outs c) finals                       (* leaves: exactly the finals, once *)
  && list_eqb p_eqb (isort p_leb (cores c)) (isort p_leb (P 0 0 :: inner_l c))
  && Nat.eqb (length (inner_l c)) (n - 2)                         (* every inner node produced once *)
  && Nat.eqb (length (all_outs c)) (2 * (n - 1))
  && list_eqb p_eqb (tval st (P 0 0)) finals
  && forallb (fun d => tmem st (fst d)) c                         (* the loop reached every decay: acyclic, connected *)
  && forallb (fun d => Nat.eqb (length (tval st (fst d))) (length (flat_map (tval st) (snd d)))) c.

(* same decays up to order of decays and of daughters *)
Definition decay_leb (d e : decay) : bool := p_leb (fst d) (fst e).
Definition chain_canon (c : chain) : chain :=
  isort decay_leb (map (fun d => (fst d, isort p_leb (snd d))) c).
Definition chain_eqb (a b : chain) : bool :=
  list_eqb (fun d e => p_eqb (fst d) (fst e) && list_eqb p_eqb (snd d) (snd e)) a b.
Definition chain_same_decays (a b : chain) : bool := chain_eqb (chain_canon a) (chain_canon b).

Definition table_roundtrip_ok (c : chain) : bool :=
  match from_sorted_table (sorted_table c) with
  | Some c' => chain_same_decays c c'
               && list_eqb (list_eqb p_eqb) (topology_id false c') (topology_id false c)
  | None => false
  end.

(* the particle map of topology_map a b carries every decay of a to a decay of b *)
Definition homomorphism_ok (a b : chain) : bool :=
  match topology_map a b with
  | Some (pm, dm) =>
      forallb (fun d => match pm_get pm (fst d), all_some (map (pm_get pm) (snd d)) with
                        | Some c, Some o => existsb (decay_eqb (c, o)) b
                        | _, _ => false
                        end) a
      && forallb (fun x => match x with Some _ => true | None => false end) dm
  | None => false
  end.

(* every chain index occurs in exactly one class *)
Definition count_occ_nat (x : nat) (l : list nat) : nat := length (filter (Nat.eqb x) l).
Definition partition_ok (n : nat) (classes : list (list nat)) : bool :=
  forallb (fun i => Nat.eqb (count_occ_nat i (concat classes)) 1) (seq 0 n)
  && Nat.eqb (length (concat classes)) n.
Definition chains_map_partition_ok (flag : bool) (chs : list chain) : bool :=
  match chains_map_gen flag chs with
  | Some cls => partition_ok (length chs) (map (map fst) cls)
  | None => false
  end.

(* comparison helpers for the decay-group correspondence *)
Definition pmap_eqb (a b : pmap) : bool :=
  list_eqb (fun x y => p_eqb (fst x) (fst y) && p_eqb (snd x) (snd y)) a b.
Definition optnat_eqb (a b : option nat) : bool :=
  match a, b with Some x, Some y => Nat.eqb x y | None, None => true | _, _ => false end.
Definition tmap_eqb (a b : option (pmap * list (option nat))) : bool :=
  match a, b with
  | Some (p, d), Some (p', d') => pmap_eqb p p' && list_eqb optnat_eqb d d'
  | None, None => true
  | _, _ => false
  end.
Definition table_eqb (a b : table) : bool :=
  list_eqb (fun x y => p_eqb (fst x) (fst y) && list_eqb p_eqb (snd x) (snd y)) a b.
Definition cmap_eqb (a b : option (list (list (nat * (pmap * list (option nat)))))) : bool :=
  match a, b with
  | Some x, Some y =>
      list_eqb (list_eqb (fun u v => Nat.eqb (fst u) (fst v) && tmap_eqb (Some (snd u)) (Some (snd v)))) x y
  | None, None => true
  | _, _ => false
  end.

(* pairwise distinctness of the topology ids of the enumerated chains (evaluation): the ids are
   coded as numbers and inserted one by one into a set *)
Definition id_code (tid : list (list particle)) : N :=
  fold_left (fun acc g => (acc * 2097152 + group_code g)%N) tid 0%N.
Fixpoint pos_nodup (s : PositiveSet.t) (l : list positive) : bool :=
  match l with
  | [] => true
  | x :: r => if PositiveSet.mem x s then false else pos_nodup (PositiveSet.add x s) r
  end.
Definition distinct_ok (n : nat) : bool :=
  pos_nodup PositiveSet.empty
            (map (fun c => N.succ_pos (id_code (topology_id false c))) (from_particles n)).

(* the reproducer of the get_chains_map defect fixed in /repo 04ce759:
   A -> R pi:1, R -> B pi:2   and   A -> S pi:2, S -> B pi:1   (A=0, B=1, R=3, S=4, pi=2) *)
Definition swapped_identical_group : list chain :=
  [ [(P 0 0, [P 3 0; P 2 1]); (P 3 0, [P 1 0; P 2 2])];
    [(P 0 0, [P 4 0; P 2 2]); (P 4 0, [P 1 0; P 2 1])] ].
