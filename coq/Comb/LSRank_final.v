(* Full rank of the LS -> helicity map for all spins j <= 5/2 (doubled spins 0..5): final theorems.
   Certificates: Comb/LSRank_cases_<ja2>.v (generated); general lemma: Comb/LSRank_proofs.v. *)
From Coq Require Import Reals List ZArith QArith Bool.
From TFV Require Import Comb.LS Amp.Coupling Amp.Chain Comb.LSRank Comb.LSRank_proofs.
From TFV Require Import Comb.LSRank_cases_0 Comb.LSRank_cases_1 Comb.LSRank_cases_2
                        Comb.LSRank_cases_3 Comb.LSRank_cases_4 Comb.LSRank_cases_5.
Import ListNotations.
Open Scope R_scope.

(* the LS <-> helicity transformation is orthonormal on its columns: Gram = identity within 1e-9 *)
Theorem ls_gram_near_identity_le5 : forall ja2 jb2 jc2,
  In ja2 spins5 -> In jb2 spins5 -> In jc2 spins5 -> gram_near_id ja2 jb2 jc2.
Proof.
  intros ja2 jb2 jc2 Ha Hb Hc. destruct_spin Ha.
  - exact (near_id_ja0 _ _ Hb Hc).
  - exact (near_id_ja1 _ _ Hb Hc).
  - exact (near_id_ja2 _ _ Hb Hc).
  - exact (near_id_ja3 _ _ Hb Hc).
  - exact (near_id_ja4 _ _ Hb Hc).
  - exact (near_id_ja5 _ _ Hb Hc).
Qed.

(* FULL RANK: the map (couplings g_ls) |-> (helicity amplitudes H_{lb,lc}) is injective, all couplings
   offered (parity violating list), every spin triple with j <= 5/2.
   Unfolded:  forall x, length x = length (ls_cols ja2 jb2 jc2) ->
              mat_vec (ls_matrix ja2 jb2 jc2) x = repeat 0 (length (ls_matrix ja2 jb2 jc2)) ->
              x = repeat 0 (length (ls_cols ja2 jb2 jc2)). *)
Theorem ls_map_full_rank_le5 : forall ja2 jb2 jc2,
  In ja2 [0; 1; 2; 3; 4; 5]%Z -> In jb2 [0; 1; 2; 3; 4; 5]%Z -> In jc2 [0; 1; 2; 3; 4; 5]%Z ->
  injective_on (ls_matrix ja2 jb2 jc2) (length (ls_cols ja2 jb2 jc2)).
Proof.
  intros ja2 jb2 jc2 Ha Hb Hc.
  exact (near_id_injective _ _ _ (ls_gram_near_identity_le5 _ _ _ Ha Hb Hc)).
Qed.

(* ... and for ANY sub-list of the couplings, given by a boolean mask over [ls_cols] *)
Corollary ls_map_full_rank_mask_le5 : forall ja2 jb2 jc2 (mask : list bool),
  In ja2 [0; 1; 2; 3; 4; 5]%Z -> In jb2 [0; 1; 2; 3; 4; 5]%Z -> In jc2 [0; 1; 2; 3; 4; 5]%Z ->
  let cols := select mask (ls_cols ja2 jb2 jc2) in
  injective_on (ls_matrix_on ja2 jb2 jc2 cols) (length cols).
Proof.
  intros ja2 jb2 jc2 mask Ha Hb Hc cols.
  exact (ls_injective_select _ _ _ _ mask (ls_map_full_rank_le5 _ _ _ Ha Hb Hc)).
Qed.

(* ... in particular for every list GetA2BC_LS_list can offer (parities known or not, p_break,
   C-parity filter) and for its l_list restriction *)
Corollary ls_map_full_rank_offered_le5 : forall ja2 jb2 jc2 pa pb pc p_break ca,
  In ja2 [0; 1; 2; 3; 4; 5]%Z -> In jb2 [0; 1; 2; 3; 4; 5]%Z -> In jc2 [0; 1; 2; 3; 4; 5]%Z ->
  let cols := ls_list ja2 jb2 jc2 pa pb pc p_break ca in
  injective_on (ls_matrix_on ja2 jb2 jc2 cols) (length cols).
Proof.
  intros ja2 jb2 jc2 pa pb pc p_break ca Ha Hb Hc cols.
  exact (ls_injective_offered _ _ _ pa pb pc p_break ca (ls_map_full_rank_le5 _ _ _ Ha Hb Hc)).
Qed.

Corollary ls_map_full_rank_l_list_le5 : forall ja2 jb2 jc2 pa pb pc p_break ca allowed,
  In ja2 [0; 1; 2; 3; 4; 5]%Z -> In jb2 [0; 1; 2; 3; 4; 5]%Z -> In jc2 [0; 1; 2; 3; 4; 5]%Z ->
  let cols := restrict_l (ls_list ja2 jb2 jc2 pa pb pc p_break ca) allowed in
  injective_on (ls_matrix_on ja2 jb2 jc2 cols) (length cols).
Proof.
  intros ja2 jb2 jc2 pa pb pc p_break ca allowed Ha Hb Hc cols.
  exact (ls_injective_restrict_l _ _ _ pa pb pc p_break ca allowed
           (ls_map_full_rank_le5 _ _ _ Ha Hb Hc)).
Qed.

(* ... and for the columns kept by the ls_list and l_list options together (any predicate on the columns):
   user_ls is a permutation of exactly such a filter (LS_proofs.user_ls_perm_filter) *)
Corollary ls_map_full_rank_user_filter_le5 : forall ja2 jb2 jc2 pa pb pc p_break ca (keep : Z * Z -> bool),
  In ja2 [0; 1; 2; 3; 4; 5]%Z -> In jb2 [0; 1; 2; 3; 4; 5]%Z -> In jc2 [0; 1; 2; 3; 4; 5]%Z ->
  let cols := filter keep (ls_list ja2 jb2 jc2 pa pb pc p_break ca) in
  injective_on (ls_matrix_on ja2 jb2 jc2 cols) (length cols).
Proof.
  intros ja2 jb2 jc2 pa pb pc p_break ca keep Ha Hb Hc cols.
  exact (ls_injective_filter _ _ _ _ keep
           (ls_injective_offered _ _ _ pa pb pc p_break ca (ls_map_full_rank_le5 _ _ _ Ha Hb Hc))).
Qed.

(* ---------- non-vacuity ---------- *)
(* 1 -> 1 1 (doubled (2,2,2)): 7 couplings (l, 2s), 7 helicity pairs, a 7 x 7 matrix *)
Example ls_rank_example_222_cols :
  ls_cols 2 2 2 = [(1, 0); (0, 2); (1, 2); (2, 2); (1, 4); (2, 4); (3, 4)]%Z.
Proof. vm_compute. reflexivity. Qed.
Example ls_rank_example_222_rows :
  hel_pairs 2 2 2 = [(-2, -2); (-2, 0); (0, -2); (0, 0); (0, 2); (2, 0); (2, 2)]%Z.
Proof. vm_compute. reflexivity. Qed.
Example ls_rank_example_222 : forall x : list R,
  length x = 7%nat -> mat_vec (ls_matrix 2 2 2) x = repeat 0 7 -> x = repeat 0 7.
Proof.
  assert (H : injective_on (ls_matrix 2 2 2) (length (ls_cols 2 2 2)))
    by (apply ls_map_full_rank_le5; cbn [In]; auto 10).
  exact H.
Qed.

(* 1/2 -> 1/2 0 (doubled (1,1,0)): S and P wave; the matrix is sqrt(1/2) * [[1, 1], [1, -1]]
   (rows: helicity -1/2, +1/2; columns: (l,2s) = (0,1), (1,1)); entries as (sign, square) *)
Example ls_rank_example_110 :
  ls_cols 1 1 0 = [(0, 1); (1, 1)]%Z /\ hel_pairs 1 1 0 = [(-1, 0); (1, 0)]%Z /\
  ls_sym 1 1 0 (ls_cols 1 1 0) = [[(1, 1 # 2); (1, 1 # 2)]; [(1, 1 # 2); (-1, 1 # 2)]]%Z.
Proof. vm_compute. repeat split. Qed.
(* the same matrix as reals: literally the entries of [ls_matrix] *)
Example ls_rank_example_110_R :
  ls_matrix 1 1 0 = [[1 * sqrt (Q2R (1 # 2)); 1 * sqrt (Q2R (1 # 2))];
                     [1 * sqrt (Q2R (1 # 2)); -1 * sqrt (Q2R (1 # 2))]].
Proof. reflexivity. Qed.

(* a sub-list at work: 1- -> 1- 1- parity conserving (the decay of the repository's own unit test,
   len(ls) == 4) is offered the odd-l sub-list of the 7 couplings; the 7 x 4 matrix is injective *)
Example ls_rank_example_222_parity :
  let cols := ls_list 2 2 2 (Some (-1)%Z) (Some (-1)%Z) (Some (-1)%Z) false None in
  cols = [(1, 0); (1, 2); (1, 4); (3, 4)]%Z /\
  injective_on (ls_matrix_on 2 2 2 cols) 4.
Proof.
  split; [vm_compute; reflexivity|].
  assert (H := ls_map_full_rank_offered_le5 2 2 2 (Some (-1)%Z) (Some (-1)%Z) (Some (-1)%Z) false None).
  cbv zeta in H. apply H; cbn [In]; auto 10.
Qed.

Print Assumptions ls_map_full_rank_le5.
Print Assumptions ls_map_full_rank_l_list_le5.
