(* Lemmas for Comb/LSRank.v.
   1. strict diagonal dominance of the Gram matrix M^T M  ==>  M injective (any size);
   2. the symbolic (sign, squared value) matrix interprets to [ls_matrix_on], its symbolic Gram
      rows interpret to the real Gram rows; [gram_near_id] ==> [ls_injective];
   3. injectivity is inherited by every sub-list of columns (mask / filter), and every list produced
      by [ls_list_core] / [restrict_l] is such a sub-list. *)
From Coq Require Import Reals List ZArith QArith Bool Lia Lra.
From TFV Require Import Comb.LS Amp.Coupling Amp.Chain Comb.LSRank.
Import ListNotations.
Open Scope R_scope.

(* ================= 1. finite sums over index lists ================= *)
Definition sumf (f : nat -> R) (l : list nat) : R := fold_right (fun j acc => f j + acc) 0 l.
Definition sumf_ex (f : nat -> R) (i : nat) (l : list nat) : R :=
  fold_right (fun j acc => if Nat.eqb j i then acc else f j + acc) 0 l.

Lemma sumf_ext : forall f g l, (forall j, In j l -> f j = g j) -> sumf f l = sumf g l.
Proof.
  intros f g l; induction l as [|a l IH]; intros H; simpl; [reflexivity|].
  rewrite (H a (or_introl eq_refl)), IH; [reflexivity|].
  intros j Hj; apply H; right; exact Hj.
Qed.

Lemma sumf_plus : forall f g l, sumf (fun j => f j + g j) l = sumf f l + sumf g l.
Proof. intros f g l; induction l as [|a l IH]; simpl; [lra | rewrite IH; lra]. Qed.

Lemma sumf_scal : forall c f l, sumf (fun j => c * f j) l = c * sumf f l.
Proof. intros c f l; induction l as [|a l IH]; simpl; [lra | rewrite IH; lra]. Qed.

Lemma sumf_map : forall f (h : nat -> nat) l, sumf f (map h l) = sumf (fun j => f (h j)) l.
Proof. intros f h l; induction l as [|a l IH]; simpl; [reflexivity | rewrite IH; reflexivity]. Qed.

Lemma sumf_zero : forall f l, (forall j, In j l -> f j = 0) -> sumf f l = 0.
Proof.
  intros f l; induction l as [|a l IH]; intros H; simpl; [reflexivity|].
  rewrite (H a (or_introl eq_refl)), IH; [lra|]. intros j Hj; apply H; right; exact Hj.
Qed.

Lemma sumf_ex_notin : forall f i l, ~ In i l -> sumf_ex f i l = sumf f l.
Proof.
  intros f i l; induction l as [|a l IH]; intros H; simpl; [reflexivity|].
  destruct (Nat.eqb_spec a i) as [E|E].
  - exfalso; apply H; left; exact E.
  - rewrite IH; [reflexivity|]. intros Hi; apply H; right; exact Hi.
Qed.

Lemma sumf_split : forall f i l, NoDup l -> In i l -> sumf f l = f i + sumf_ex f i l.
Proof.
  intros f i l; induction l as [|a l IH]; intros Hnd Hin; [destruct Hin|].
  inversion Hnd as [|? ? Hna Hnd']; subst. simpl.
  destruct (Nat.eqb_spec a i) as [E|E].
  - subst a. rewrite sumf_ex_notin by exact Hna. reflexivity.
  - destruct Hin as [Hin|Hin]; [exfalso; exact (E Hin)|].
    rewrite (IH Hnd' Hin). lra.
Qed.

Lemma sumf_ex_abs : forall f i l, Rabs (sumf_ex f i l) <= sumf_ex (fun j => Rabs (f j)) i l.
Proof.
  intros f i l; induction l as [|a l IH]; simpl.
  - rewrite Rabs_R0; lra.
  - destruct (Nat.eqb a i); [exact IH|].
    eapply Rle_trans; [apply Rabs_triang|]. lra.
Qed.

Lemma sumf_ex_le : forall f g i l, (forall j, In j l -> f j <= g j) -> sumf_ex f i l <= sumf_ex g i l.
Proof.
  intros f g i l; induction l as [|a l IH]; intros H; simpl; [lra|].
  assert (IH' : sumf_ex f i l <= sumf_ex g i l) by (apply IH; intros j Hj; apply H; right; exact Hj).
  destruct (Nat.eqb a i); [exact IH'|].
  pose proof (H a (or_introl eq_refl)). lra.
Qed.

Lemma sumf_ex_scal : forall c f i l, sumf_ex (fun j => f j * c) i l = c * sumf_ex f i l.
Proof.
  intros c f i l; induction l as [|a l IH]; simpl; [lra|].
  destruct (Nat.eqb a i); [exact IH | rewrite IH; lra].
Qed.

(* dot product as an indexed sum *)
Lemma dot_sumf : forall n r x, length r = n -> length x = n ->
  dot r x = sumf (fun j => nth j r 0 * nth j x 0) (seq 0 n).
Proof.
  induction n as [|n IH]; intros r x Hr Hx.
  - destruct r; [|discriminate]. reflexivity.
  - destruct r as [|a r]; [discriminate|]. destruct x as [|b x]; [discriminate|].
    injection Hr as Hr. injection Hx as Hx.
    change (seq 0 (S n)) with (0%nat :: seq 1 n). rewrite <- seq_shift.
    set (F := fun j => nth j (a :: r) 0 * nth j (b :: x) 0).
    change (dot (a :: r) (b :: x)) with (a * b + dot r x).
    change (sumf F (0%nat :: map S (seq 0 n))) with (F 0%nat + sumf F (map S (seq 0 n))).
    rewrite sumf_map. unfold F. cbn [nth]. rewrite (IH r x Hr Hx). reflexivity.
Qed.

Lemma dot_zero_r : forall r n, dot r (repeat 0 n) = 0.
Proof.
  induction r as [|a r IH]; intros n; [reflexivity|].
  destruct n; [reflexivity|]. cbn [repeat dot]. rewrite IH. lra.
Qed.

(* ================= Gram matrix times x ================= *)
Lemma col_dot_cons : forall r M i j, col_dot (r :: M) i j = nth i r 0 * nth j r 0 + col_dot M i j.
Proof. reflexivity. Qed.

Lemma gram_x_zero : forall n M x, rows_wf M n -> length x = n ->
  mat_vec M x = repeat 0 (length M) ->
  forall i, sumf (fun j => col_dot M i j * nth j x 0) (seq 0 n) = 0.
Proof.
  intros n M x; induction M as [|r M IH]; intros Hwf Hx HM i.
  - apply sumf_zero; intros j _. unfold col_dot; simpl; lra.
  - inversion Hwf as [|? ? Hr Hwf']; subst.
    cbn [mat_vec map length repeat] in HM. injection HM as Hd HM.
    rewrite (sumf_ext _ (fun j => nth i r 0 * (nth j r 0 * nth j x 0) + col_dot M i j * nth j x 0)).
    2:{ intros j _. rewrite col_dot_cons. ring. }
    rewrite sumf_plus, sumf_scal, <- (dot_sumf (length x) r x Hr eq_refl), Hd.
    rewrite (IH Hwf' eq_refl HM i). lra.
Qed.

(* an index of maximal value *)
Lemma exists_max : forall (f : nat -> R) n, (0 < n)%nat ->
  exists i, (i < n)%nat /\ forall j, (j < n)%nat -> f j <= f i.
Proof.
  intros f n; induction n as [|n IH]; intros Hn; [lia|].
  destruct n as [|n].
  - exists 0%nat; split; [lia|]. intros j Hj. replace j with 0%nat by lia. lra.
  - destruct IH as [i [Hi Hmax]]; [lia|].
    destruct (Rle_dec (f (S n)) (f i)) as [L|L].
    + exists i; split; [lia|]. intros j Hj.
      destruct (Nat.eq_dec j (S n)) as [->|Hne]; [exact L | apply Hmax; lia].
    + exists (S n); split; [lia|]. intros j Hj.
      destruct (Nat.eq_dec j (S n)) as [->|Hne]; [lra|].
      pose proof (Hmax j ltac:(lia)). lra.
Qed.

Lemma offsum_sumf_ex : forall M n i,
  offsum M n i = sumf_ex (fun j => Rabs (col_dot M i j)) i (seq 0 n).
Proof. reflexivity. Qed.

(* ---- the general lemma: Gram matrix strictly diagonally dominant ==> injective ---- *)
Theorem gram_dominant_injective : forall M n,
  rows_wf M n -> gram_dominant M n -> injective_on M n.
Proof.
  intros M n Hwf Hdom x Hx HM.
  destruct (Nat.eq_dec n 0) as [->|Hn0].
  { destruct x; [reflexivity | discriminate]. }
  destruct (exists_max (fun j => Rabs (nth j x 0)) n ltac:(lia)) as [i [Hi Hmax]].
  set (a := Rabs (nth i x 0)) in *.
  assert (Ha0 : 0 <= a) by apply Rabs_pos.
  destruct (Req_dec a 0) as [Hz|Hnz].
  - (* all components vanish *)
    apply (nth_ext _ _ 0 0); [rewrite repeat_length; exact Hx|].
    intros k Hk. rewrite Hx in Hk.
    rewrite nth_repeat.
    pose proof (Hmax k Hk) as Hle. pose proof (Rabs_pos (nth k x 0)) as Hp.
    assert (E : Rabs (nth k x 0) = 0) by lra.
    destruct (Req_dec (nth k x 0) 0) as [E0|E0]; [exact E0|].
    exfalso. apply (Rabs_no_R0 _ E0). exact E.
  - exfalso.
    pose proof (gram_x_zero n M x Hwf Hx HM i) as Hg.
    rewrite (sumf_split _ i (seq 0 n) (seq_NoDup n 0)) in Hg by (apply in_seq; lia).
    pose proof (Hdom i Hi) as Hd. rewrite offsum_sumf_ex in Hd.
    set (g := col_dot M i i) in *.
    set (rest := sumf_ex (fun j => col_dot M i j * nth j x 0) i (seq 0 n)) in *.
    assert (Hrest : Rabs rest <= a * sumf_ex (fun j => Rabs (col_dot M i j)) i (seq 0 n)).
    { unfold rest. eapply Rle_trans; [apply sumf_ex_abs|].
      rewrite <- sumf_ex_scal. apply sumf_ex_le. intros j Hj.
      apply in_seq in Hj. rewrite Rabs_mult.
      apply Rmult_le_compat_l; [apply Rabs_pos | apply Hmax; lia]. }
    assert (Hgx : Rabs (g * nth i x 0) = Rabs rest).
    { replace (g * nth i x 0) with (- rest) by lra. apply Rabs_Ropp. }
    rewrite Rabs_mult in Hgx. fold a in Hgx.
    assert (Hgle : g <= Rabs g) by apply RRle_abs.
    set (o := sumf_ex (fun j => Rabs (col_dot M i j)) i (seq 0 n)) in *.
    assert (Hpos : 0 < a) by lra.
    assert (H1 : g * a <= Rabs g * a) by (apply Rmult_le_compat_r; lra).
    assert (H2 : a * o < a * g) by (apply Rmult_lt_compat_l; assumption).
    lra.
Qed.

(* ================= 2. symbolic matrix ================= *)
Lemma interp_eq : forall e, interp e = IZR (fst e) * sqrt (Q2R (snd e)).
Proof. intros [s q]; unfold interp; cbn [fst snd]. destruct s; [lra | reflexivity | reflexivity]. Qed.

Lemma ls_matrix_on_sym : forall ja2 jb2 jc2 cols,
  ls_matrix_on ja2 jb2 jc2 cols = map (map interp) (ls_sym ja2 jb2 jc2 cols).
Proof.
  intros. unfold ls_matrix_on, ls_sym. rewrite map_map. apply map_ext; intros r.
  rewrite map_map. apply map_ext; intros c. rewrite interp_eq. reflexivity.
Qed.

Lemma interp_default : interp (0%Z, 0%Q) = 0.
Proof. reflexivity. Qed.

Lemma col_dot_sym : forall S i j,
  col_dot (map (map interp) S) i j = interp_terms (sym_col_dot S i j).
Proof.
  intros S i j; induction S as [|r S IH]; [reflexivity|].
  cbn [map]. rewrite col_dot_cons, IH.
  rewrite <- interp_default, !map_nth.
  unfold sym_col_dot at 2. cbn [flat_map]. fold (sym_col_dot S i j).
  set (a := nth i r (0%Z, 0%Q)). set (b := nth j r (0%Z, 0%Q)). cbv zeta.
  destruct (Z.eqb_spec (fst a * fst b) 0) as [E|E].
  - cbn [app]. apply Z.mul_eq_0 in E.
    destruct a as [sa qa], b as [sb qb]; cbn [fst] in E.
    destruct E as [-> | ->]; unfold interp; cbn [fst snd]; lra.
  - cbn [app]. unfold interp_terms at 2. cbn [fold_right fst snd].
    fold (interp_terms (sym_col_dot S i j)).
    rewrite !interp_eq, mult_IZR. ring.
Qed.

Lemma offsum_sym : forall S n i,
  offsum (map (map interp) S) n i = interp_off (sym_off_row S n i).
Proof.
  intros S n i. unfold offsum, sym_off_row. generalize (seq 0 n) as l.
  induction l as [|j l IH]; [reflexivity|].
  cbn [fold_right filter]. destruct (Nat.eqb j i); cbn [negb].
  - exact IH.
  - cbn [map]. unfold interp_off at 1. cbn [fold_right]. fold (interp_off (map (sym_col_dot S i) (filter (fun j0 => negb (Nat.eqb j0 i)) l))).
    rewrite IH, col_dot_sym. reflexivity.
Qed.

Lemma row_cert_dominant : forall off diag, row_cert off diag -> interp_off off < interp_terms diag.
Proof.
  intros off diag [H1 H2]. unfold gram_eps in *.
  unfold Rabs in H2. destruct (Rcase_abs _); lra.
Qed.

Lemma ls_matrix_on_wf : forall ja2 jb2 jc2 cols, rows_wf (ls_matrix_on ja2 jb2 jc2 cols) (length cols).
Proof.
  intros. unfold rows_wf, ls_matrix_on. apply Forall_forall. intros r Hr.
  apply in_map_iff in Hr. destruct Hr as [p [<- _]]. apply map_length.
Qed.

Lemma ls_matrix_on_length : forall ja2 jb2 jc2 cols,
  length (ls_matrix_on ja2 jb2 jc2 cols) = length (hel_pairs ja2 jb2 jc2).
Proof. intros. unfold ls_matrix_on. apply map_length. Qed.

(* Gram = identity within 1e-9  ==>  strictly diagonally dominant *)
Lemma near_id_dominant : forall ja2 jb2 jc2,
  gram_near_id ja2 jb2 jc2 -> gram_dominant (ls_matrix ja2 jb2 jc2) (length (ls_cols ja2 jb2 jc2)).
Proof.
  intros ja2 jb2 jc2 H i Hi. unfold ls_matrix. rewrite ls_matrix_on_sym.
  rewrite offsum_sym, col_dot_sym.
  unfold gram_near_id, sym_rows in H. rewrite Forall_forall in H.
  assert (Hin : In i (seq 0 (length (ls_cols ja2 jb2 jc2)))) by (apply in_seq; lia).
  pose proof (H _ (in_map _ _ i Hin)) as Hc. cbn [fst snd] in Hc.
  exact (row_cert_dominant _ _ Hc).
Qed.

Theorem near_id_injective : forall ja2 jb2 jc2, gram_near_id ja2 jb2 jc2 -> ls_injective ja2 jb2 jc2.
Proof.
  intros ja2 jb2 jc2 H. unfold ls_injective, ls_injective_on.
  apply gram_dominant_injective; [apply ls_matrix_on_wf | exact (near_id_dominant _ _ _ H)].
Qed.

(* empty coupling list: nothing to certify *)
Lemma near_id_empty : forall ja2 jb2 jc2, ls_cols ja2 jb2 jc2 = [] -> gram_near_id ja2 jb2 jc2.
Proof. intros ja2 jb2 jc2 E. unfold gram_near_id. rewrite E. apply Forall_nil. Qed.

(* ================= 3. sub-lists of columns ================= *)
(* x on the selected columns, padded with 0 on the dropped ones *)
Fixpoint expand {A : Type} (mask : list bool) (l : list A) (x : list R) : list R :=
  match l with
  | [] => []
  | _ :: l' =>
      match mask with
      | [] => 0 :: expand [] l' x
      | true :: m' => hd 0 x :: expand m' l' (tl x)
      | false :: m' => 0 :: expand m' l' x
      end
  end.

Lemma select_nil_mask : forall (A : Type) (l : list A), select [] l = [].
Proof. intros A l; destruct l; reflexivity. Qed.

Lemma expand_length : forall (A : Type) (l : list A) mask x, length (expand mask l x) = length l.
Proof.
  intros A l; induction l as [|a l IH]; intros mask x; [reflexivity|].
  destruct mask as [|[|] m]; cbn [expand length]; rewrite IH; reflexivity.
Qed.

Lemma dot_expand : forall (A : Type) (f : A -> R) (l : list A) mask x,
  length x = length (select mask l) ->
  dot (map f l) (expand mask l x) = dot (map f (select mask l)) x.
Proof.
  intros A f l; induction l as [|a l IH]; intros mask x Hx.
  - destruct mask; reflexivity.
  - destruct mask as [|[|] m].
    + cbn [select] in Hx. destruct x; [|discriminate].
      cbn [expand map dot select]. rewrite (IH [] []) by (rewrite select_nil_mask; reflexivity).
      rewrite select_nil_mask. cbn [map dot]. lra.
    + cbn [select] in Hx |- *. destruct x as [|y x]; [discriminate|]. injection Hx as Hx.
      cbn [expand map dot hd tl]. rewrite (IH m x Hx). reflexivity.
    + cbn [select] in Hx |- *. cbn [expand map dot]. rewrite (IH m x Hx). lra.
Qed.

Lemma expand_zero : forall (A : Type) (l : list A) mask x,
  length x = length (select mask l) ->
  expand mask l x = repeat 0 (length l) -> x = repeat 0 (length x).
Proof.
  intros A l; induction l as [|a l IH]; intros mask x Hx He.
  - destruct mask; cbn [select] in Hx; destruct x; try discriminate; reflexivity.
  - destruct mask as [|[|] m].
    + cbn [select] in Hx. destruct x; [reflexivity | discriminate].
    + cbn [select] in Hx. destruct x as [|y x]; [discriminate|]. injection Hx as Hx.
      cbn [expand hd tl length repeat] in He. injection He as Hy He.
      cbn [length repeat]. rewrite Hy. f_equal. exact (IH m x Hx He).
    + cbn [select] in Hx. cbn [expand length repeat] in He. injection He as He.
      exact (IH m x Hx He).
Qed.

(* injectivity on a column list is inherited by every masked sub-list *)
Theorem ls_injective_select : forall ja2 jb2 jc2 cols mask,
  ls_injective_on ja2 jb2 jc2 cols -> ls_injective_on ja2 jb2 jc2 (select mask cols).
Proof.
  intros ja2 jb2 jc2 cols mask H x Hx HM.
  rewrite <- Hx. apply (expand_zero _ cols mask x Hx).
  apply H; [apply expand_length|].
  rewrite ls_matrix_on_length in *. rewrite <- HM.
  unfold mat_vec, ls_matrix_on. rewrite !map_map. apply map_ext. intros r.
  apply dot_expand. exact Hx.
Qed.

Lemma filter_select : forall (A : Type) (f : A -> bool) (l : list A), filter f l = select (map f l) l.
Proof.
  intros A f l; induction l as [|a l IH]; [reflexivity|].
  cbn [filter map select]. destruct (f a); rewrite IH; reflexivity.
Qed.

Corollary ls_injective_filter : forall ja2 jb2 jc2 cols f,
  ls_injective_on ja2 jb2 jc2 cols -> ls_injective_on ja2 jb2 jc2 (filter f cols).
Proof. intros. rewrite filter_select. apply ls_injective_select. assumption. Qed.

(* every enumeration of GetA2BC_LS_list (any parity / C-parity options) is a filter of [ls_cols] *)
Lemma filter_map_comm : forall (A B : Type) (g : A -> B) (P : B -> bool) (l : list A),
  filter P (map g l) = map g (filter (fun a => P (g a)) l).
Proof.
  intros A B g P l; induction l as [|a l IH]; [reflexivity|].
  cbn [map filter]. destruct (P (g a)); cbn [map]; rewrite IH; reflexivity.
Qed.

Lemma filter_true : forall (A : Type) (l : list A), filter (fun _ => true) l = l.
Proof. intros A l; induction l as [|a l IH]; [reflexivity | cbn [filter]; rewrite IH; reflexivity]. Qed.

Definition ls_keep (pbrk : bool) (dl : Z) (ca : option Z) (p : Z * Z) : bool :=
  ca_ok ca (fst p) (snd p) && parity_ok pbrk dl (fst p).

Lemma ls_list_core_filter : forall ja2 jb2 jc2 pbrk dl ca,
  ls_list_core ja2 jb2 jc2 pbrk dl ca = filter (ls_keep pbrk dl ca) (ls_cols ja2 jb2 jc2).
Proof.
  intros. unfold ls_cols, ls_list_core.
  generalize (srange (Z.abs (jb2 - jc2)) (jb2 + jc2)) as ss.
  induction ss as [|s2 ss IH]; [reflexivity|].
  cbn [flat_map]. rewrite filter_app, <- IH. f_equal.
  unfold ls_of_s. destruct (Z.odd (Z.abs (ja2 - s2))); [reflexivity|].
  rewrite filter_map_comm. f_equal.
  rewrite (filter_ext (fun l2 => ca_ok None (l2 / 2) s2 && parity_ok true 0 (l2 / 2)) (fun _ => true))
    by reflexivity.
  rewrite filter_true. reflexivity.
Qed.

(* ... and so is everything the decay can end up with: parity / C-parity options and an l_list *)
Corollary ls_injective_offered : forall ja2 jb2 jc2 pa pb pc p_break ca,
  ls_injective ja2 jb2 jc2 -> ls_injective_on ja2 jb2 jc2 (ls_list ja2 jb2 jc2 pa pb pc p_break ca).
Proof.
  intros. unfold ls_list. rewrite ls_list_core_filter. apply ls_injective_filter. assumption.
Qed.

Corollary ls_injective_restrict_l : forall ja2 jb2 jc2 pa pb pc p_break ca allowed,
  ls_injective ja2 jb2 jc2 ->
  ls_injective_on ja2 jb2 jc2 (restrict_l (ls_list ja2 jb2 jc2 pa pb pc p_break ca) allowed).
Proof.
  intros. unfold restrict_l. apply ls_injective_filter. apply ls_injective_offered. assumption.
Qed.

(* ================= tactics for the per-triple certificates ================= *)
From Interval Require Import Tactic.

Ltac lsrank_row :=
  split;
  cbv [interp_off interp_terms fold_right fst snd Q2R Qnum Qden gram_eps]; interval with (i_prec 60).

(* evaluate the exact radicals (signs, rational squares) and the symbolic Gram rows by vm_compute,
   then certify every row with interval arithmetic *)
Ltac lsrank_near_id :=
  unfold gram_near_id;
  match goal with |- List.Forall _ ?L =>
    let L' := eval vm_compute in L in
    replace L with L' by (vm_compute; reflexivity)
  end;
  repeat (apply List.Forall_cons; [ cbv beta iota delta [fst snd]; lsrank_row | ]);
  apply List.Forall_nil.

Ltac destruct_spin H :=
  unfold spins5 in H; cbn [In] in H;
  repeat (destruct H as [<- | H]; [ | ]); [ .. | destruct H ].
