From Coq Require Import ZArith List Bool Lia Permutation.
From TFV Require Import Comb.LS.
Import ListNotations.
Open Scope Z_scope.

Lemma In_srange a b x :
  In x (srange a b) <-> a <= x <= b /\ (x - a) mod 2 = 0.
Proof.
  unfold srange. rewrite in_map_iff. split.
  - intros [k [Hk Hin]]. apply in_seq in Hin. subst x.
    assert (Hn : Z.of_nat k < (b - a) / 2 + 1) by lia.
    split.
    + assert (0 <= Z.of_nat k) by lia.
      assert (Z.of_nat k <= (b - a) / 2) by lia.
      assert (2 * ((b - a) / 2) <= b - a) by (apply Z.mul_div_le; lia).
      lia.
    + replace (a + 2 * Z.of_nat k - a) with (Z.of_nat k * 2) by lia.
      apply Z.mod_mul. lia.
  - intros [[Hlo Hhi] Hm].
    exists (Z.to_nat ((x - a) / 2)). split.
    + rewrite Z2Nat.id by (apply Z.div_pos; lia).
      pose proof (Z.div_mod (x - a) 2 ltac:(lia)). lia.
    + apply in_seq. split; [lia|].
      assert ((x - a) / 2 <= (b - a) / 2) by (apply Z.div_le_mono; lia).
      assert (0 <= (x - a) / 2) by (apply Z.div_pos; lia).
      lia.
Qed.

Lemma NoDup_srange a b : NoDup (srange a b).
Proof.
  unfold srange. apply FinFun.Injective_map_NoDup.
  - intros x y H. lia.
  - apply seq_NoDup.
Qed.

(* the declarative selection rule, on doubled spins; l is an integer by typing *)
Definition ls_spec (ja2 jb2 jc2 : Z) (pbrk : bool) (dl : Z) (ca : option Z) (l s2 : Z) : Prop :=
  Z.abs (jb2 - jc2) <= s2 <= jb2 + jc2 /\ (s2 - Z.abs (jb2 - jc2)) mod 2 = 0 /\
  Z.abs (ja2 - s2) <= 2 * l <= ja2 + s2 /\
  (pbrk = true \/ l mod 2 = dl) /\
  match ca with None => True
           | Some c => s2 mod 2 = 0 /\ c = (if Z.even (l + s2 / 2) then 1 else -1) end.

(* strengthened: the triangle rule includes the unit-step condition *)
Definition tri_l (ja2 s2 l : Z) : Prop :=
  Z.abs (ja2 - s2) <= 2 * l <= ja2 + s2 /\ (2 * l - Z.abs (ja2 - s2)) mod 2 = 0.

Definition ca_spec (ca : option Z) (l s2 : Z) : Prop :=
  match ca with None => True
           | Some c => s2 mod 2 = 0 /\ c = (if Z.even (l + s2 / 2) then 1 else -1) end.

Lemma ca_ok_spec ca l s2 : ca_ok ca l s2 = true <-> ca_spec ca l s2.
Proof.
  unfold ca_ok, ca_spec. destruct ca as [c|]; [|tauto].
  rewrite andb_true_iff, Z.eqb_eq, Z.even_spec. split.
  - intros [[k Hk] Hc]. split; [|exact Hc]. subst s2. rewrite Z.mul_comm. apply Z.mod_mul. lia.
  - intros [Hm Hc]. split; [|exact Hc]. exists (s2 / 2).
    pose proof (Z.div_mod s2 2 ltac:(lia)). lia.
Qed.

Lemma parity_ok_spec pbrk dl l : parity_ok pbrk dl l = true <-> (pbrk = true \/ l mod 2 = dl).
Proof. unfold parity_ok. rewrite orb_true_iff, Z.eqb_eq. tauto. Qed.

Lemma ls_of_s_spec ja2 pbrk dl ca s2 l s' :
  In (l, s') (ls_of_s ja2 pbrk dl ca s2) <->
  s' = s2 /\ tri_l ja2 s2 l /\ (pbrk = true \/ l mod 2 = dl) /\ ca_spec ca l s2.
Proof.
  unfold ls_of_s, tri_l. set (lo := Z.abs (ja2 - s2)).
  destruct (Z.odd lo) eqn:Hodd.
  - split; [intros []|]. intros [_ [[_ Hm] _]]. exfalso.
    apply Z.odd_spec in Hodd. destruct Hodd as [k Hk].
    pose proof (Z.div_mod (2 * l - lo) 2 ltac:(lia)) as Hd. lia.
  - rewrite in_map_iff. split.
    + intros [l2 [Heq Hin]]. inversion Heq; subst; clear Heq.
      apply filter_In in Hin. destruct Hin as [Hr Hf].
      apply In_srange in Hr. destruct Hr as [Hr Hm].
      apply andb_true_iff in Hf. destruct Hf as [Hca Hpar].
      assert (He : Z.even lo = true) by (rewrite <- Z.negb_odd, Hodd; reflexivity).
      apply Z.even_spec in He. destruct He as [k Hk].
      assert (H2 : 2 * (l2 / 2) = l2).
      { pose proof (Z.div_mod (l2 - lo) 2 ltac:(lia)) as Hd.
        pose proof (Z.div_mod l2 2 ltac:(lia)) as Hd2.
        pose proof (Z.mod_pos_bound l2 2 ltac:(lia)). lia. }
      repeat split; try lia.
      * rewrite H2. exact Hm.
      * apply parity_ok_spec. exact Hpar.
      * apply ca_ok_spec. exact Hca.
    + intros [-> [[Hr Hm] [Hpar Hca]]].
      exists (2 * l). split.
      * f_equal. rewrite Z.mul_comm. apply Z.div_mul. lia.
      * apply filter_In. split.
        -- apply In_srange. split; [exact Hr|exact Hm].
        -- rewrite (Z.mul_comm 2 l), Z.div_mul by lia.
           apply andb_true_iff. split; [apply ca_ok_spec; exact Hca | apply parity_ok_spec; exact Hpar].
Qed.

Definition ls_rule (ja2 jb2 jc2 : Z) (pbrk : bool) (dl : Z) (ca : option Z) (l s2 : Z) : Prop :=
  (Z.abs (jb2 - jc2) <= s2 <= jb2 + jc2 /\ (s2 - Z.abs (jb2 - jc2)) mod 2 = 0) /\
  tri_l ja2 s2 l /\ (pbrk = true \/ l mod 2 = dl) /\ ca_spec ca l s2.

Theorem ls_core_sound_complete ja2 jb2 jc2 pbrk dl ca l s2 :
  In (l, s2) (ls_list_core ja2 jb2 jc2 pbrk dl ca) <-> ls_rule ja2 jb2 jc2 pbrk dl ca l s2.
Proof.
  unfold ls_list_core, ls_rule. rewrite in_flat_map. split.
  - intros [s [Hs Hin]]. apply ls_of_s_spec in Hin. destruct Hin as [-> Hrest].
    apply In_srange in Hs. tauto.
  - intros [Hs Hrest]. exists s2. split.
    + apply In_srange. exact Hs.
    + apply ls_of_s_spec. tauto.
Qed.

Lemma NoDup_app_intro {A} (l1 l2 : list A) :
  NoDup l1 -> NoDup l2 -> (forall x, In x l1 -> In x l2 -> False) -> NoDup (l1 ++ l2).
Proof.
  induction l1 as [|a l1 IH]; intros H1 H2 Hd; simpl; [exact H2|].
  inversion H1 as [|? ? Hn H1']; subst. constructor.
  - rewrite in_app_iff. intros [Hin|Hin]; [exact (Hn Hin)|]. apply (Hd a); [left; reflexivity|exact Hin].
  - apply IH; [exact H1'|exact H2|]. intros x Hx1 Hx2. apply (Hd x); [right; exact Hx1|exact Hx2].
Qed.

Lemma NoDup_flat_map_disjoint {A B} (f : A -> list B) (l : list A) :
  NoDup l -> (forall a, In a l -> NoDup (f a)) ->
  (forall a a' b, In a l -> In a' l -> In b (f a) -> In b (f a') -> a = a') ->
  NoDup (flat_map f l).
Proof.
  induction l as [|a l IH]; intros Hnd Hf Hdisj; simpl; [constructor|].
  inversion Hnd as [|? ? Hnotin Hnd']; subst.
  apply NoDup_app_intro.
  - apply Hf. left. reflexivity.
  - apply IH; [exact Hnd'| |].
    + intros a0 Ha0. apply Hf. right. exact Ha0.
    + intros a1 a2 b H1 H2. apply Hdisj; right; assumption.
  - intros b Hb1 Hb2. apply in_flat_map in Hb2. destruct Hb2 as [a' [Ha' Hb2]].
    assert (a = a') by (apply (Hdisj a a' b); [left; reflexivity|right; exact Ha'|exact Hb1|exact Hb2]).
    subst a'. exact (Hnotin Ha').
Qed.

Lemma NoDup_ls_of_s ja2 pbrk dl ca s2 : NoDup (ls_of_s ja2 pbrk dl ca s2).
Proof.
  unfold ls_of_s. destruct (Z.odd (Z.abs (ja2 - s2))) eqn:Hodd; [constructor|].
  set (lo := Z.abs (ja2 - s2)).
  assert (He : Z.even lo = true) by (rewrite <- Z.negb_odd; fold lo in Hodd; rewrite Hodd; reflexivity).
  apply Z.even_spec in He. destruct He as [k Hk].
  (* injectivity of l2 -> l2/2 on the even numbers of the range *)
  assert (Hinj : forall x y, In x (srange lo (ja2 + s2)) -> In y (srange lo (ja2 + s2)) ->
                             (x / 2, s2) = (y / 2, s2) -> x = y).
  { intros x y Hx Hy Heq. inversion Heq as [Hq].
    apply In_srange in Hx. apply In_srange in Hy. destruct Hx as [_ Hx]. destruct Hy as [_ Hy].
    pose proof (Z.div_mod (x - lo) 2 ltac:(lia)). pose proof (Z.div_mod (y - lo) 2 ltac:(lia)).
    pose proof (Z.div_mod x 2 ltac:(lia)). pose proof (Z.div_mod y 2 ltac:(lia)).
    pose proof (Z.mod_pos_bound x 2 ltac:(lia)). pose proof (Z.mod_pos_bound y 2 ltac:(lia)). lia. }
  assert (Hnd : NoDup (filter (fun l2 => ca_ok ca (l2 / 2) s2 && parity_ok pbrk dl (l2 / 2)) (srange lo (ja2 + s2))))
    by (apply NoDup_filter, NoDup_srange).
  revert Hnd.
  assert (Hsub : forall x, In x (filter (fun l2 => ca_ok ca (l2 / 2) s2 && parity_ok pbrk dl (l2 / 2)) (srange lo (ja2 + s2))) -> In x (srange lo (ja2 + s2)))
    by (intros x Hx; apply filter_In in Hx; tauto).
  revert Hsub.
  generalize (filter (fun l2 => ca_ok ca (l2 / 2) s2 && parity_ok pbrk dl (l2 / 2)) (srange lo (ja2 + s2))).
  intros L Hsub Hnd. induction Hnd as [|x L Hnotin Hnd IH]; simpl; [constructor|].
  constructor.
  - rewrite in_map_iff. intros [y [Hy Hin]]. apply Hnotin.
    assert (y = x) by (apply Hinj; [apply Hsub; right; exact Hin|apply Hsub; left; reflexivity|exact Hy]).
    subst y. exact Hin.
  - apply IH. intros z Hz. apply Hsub. right. exact Hz.
Qed.

Theorem ls_core_nodup ja2 jb2 jc2 pbrk dl ca : NoDup (ls_list_core ja2 jb2 jc2 pbrk dl ca).
Proof.
  unfold ls_list_core. apply NoDup_flat_map_disjoint.
  - apply NoDup_srange.
  - intros s _. apply NoDup_ls_of_s.
  - intros s s' [l x] _ _ H1 H2.
    apply ls_of_s_spec in H1. apply ls_of_s_spec in H2. destruct H1 as [-> _]. destruct H2 as [-> _]. reflexivity.
Qed.

Lemma restrict_l_subset ls allowed p : In p (restrict_l ls allowed) <-> In p ls /\ In (fst p) allowed.
Proof.
  unfold restrict_l. rewrite filter_In, existsb_exists. split.
  - intros [H [x [Hx Heq]]]. apply Z.eqb_eq in Heq. subst x. tauto.
  - intros [H Ha]. split; [exact H|]. exists (fst p). split; [exact Ha|apply Z.eqb_refl].
Qed.

(* number of couplings = number of independent helicity amplitudes, all 2j <= 8 *)
Definition spins8 : list Z := [0;1;2;3;4;5;6;7;8].
Definition triples8 : list (Z * Z * Z) :=
  filter (fun t => let '(a, b, c) := t in Z.even (a + b + c)) (list_prod (list_prod spins8 spins8) spins8).

Definition count_ok (t : Z * Z * Z) : bool :=
  let '(a, b, c) := t in
  (* parity violating *)
  (Z.of_nat (length (ls_list_core a b c true 0 None)) =? n_helicity a b c true false) &&
  (* parity conserving, both values of pa*pb*pc *)
  forallb (fun dl =>
     let ppp_neg := (dl =? 1) in
     let sgn_neg := Z.odd ((a - b - c) / 2) in
     let eta_neg := xorb ppp_neg sgn_neg in
     Z.of_nat (length (ls_list_core a b c false dl None)) =? n_helicity a b c false eta_neg) [0; 1].

Lemma count_all_le8 : forallb count_ok triples8 = true.
Proof. vm_compute. reflexivity. Qed.

(* ---- the ls_list / l_list options restrict the enumeration (get_ls_list after /repo 47acb11) ---- *)
Lemma pair_eqb_eq p q : pair_eqb p q = true <-> p = q.
Proof.
  unfold pair_eqb. destruct p as [a b], q as [c d]. cbn [fst snd].
  rewrite andb_true_iff, !Z.eqb_eq. split.
  - intros [-> ->]. reflexivity.
  - intros H. injection H as -> ->. split; reflexivity.
Qed.

Lemma pair_mem_In p l : pair_mem p l = true <-> In p l.
Proof.
  unfold pair_mem. rewrite existsb_exists. split.
  - intros [q [Hq He]]. apply pair_eqb_eq in He. subst q. exact Hq.
  - intros H. exists p. split; [exact H|]. apply pair_eqb_eq. reflexivity.
Qed.

Lemma dedup_first_In l p : In p (dedup_first l) <-> In p l.
Proof.
  induction l as [|q r IH]; cbn [dedup_first]; [tauto|].
  cbn [In]. rewrite filter_In, IH. split.
  - intros [H|[H _]]; [left; exact H|right; exact H].
  - intros [H|H]; [left; exact H|].
    destruct (pair_eqb q p) eqn:E.
    + apply pair_eqb_eq in E. left. exact E.
    + right. split; [exact H|]. reflexivity.
Qed.

Lemma NoDup_filter_pairs (f : Z * Z -> bool) l : NoDup l -> NoDup (filter f l).
Proof.
  induction 1 as [|x l Hx Hl IH]; cbn [filter]; [constructor|].
  destruct (f x); [constructor; [|exact IH]|exact IH].
  intros Hin. apply filter_In in Hin. apply Hx. apply Hin.
Qed.

Lemma dedup_first_NoDup l : NoDup (dedup_first l).
Proof.
  induction l as [|q r IH]; cbn [dedup_first]; constructor.
  - intros Hin. apply filter_In in Hin. destruct Hin as [_ Hn].
    assert (E : pair_eqb q q = true) by (apply pair_eqb_eq; reflexivity).
    cbv beta in Hn. rewrite E in Hn. discriminate Hn.
  - apply NoDup_filter_pairs. exact IH.
Qed.

(* the order of the user's list is kept: the result is a sub-sequence of the de-duplicated option *)
Lemma user_ls_spec enumerated l_list ls_opt p :
  In p (user_ls enumerated l_list ls_opt) <->
  In p enumerated /\
  (match ls_opt with Some u => In p u | None => True end) /\
  (match l_list with Some a => In (fst p) a | None => True end).
Proof.
  unfold user_ls. destruct ls_opt as [u|]; destruct l_list as [a|];
    rewrite ?restrict_l_subset, ?filter_In, ?pair_mem_In, ?dedup_first_In; tauto.
Qed.

Lemma user_ls_NoDup enumerated l_list ls_opt :
  NoDup enumerated -> NoDup (user_ls enumerated l_list ls_opt).
Proof.
  intros He. unfold user_ls, restrict_l.
  destruct ls_opt as [u|]; destruct l_list as [a|];
    repeat apply NoDup_filter_pairs; try exact He; apply dedup_first_NoDup.
Qed.

Lemma existsb_Zeqb_In x a : existsb (Z.eqb x) a = true <-> In x a.
Proof.
  rewrite existsb_exists. split.
  - intros [y [Hy He]]. apply Z.eqb_eq in He. subst y. exact Hy.
  - intros H. exists x. split; [exact H|apply Z.eqb_refl].
Qed.

(* as a SET of columns the offered list is the enumeration filtered by both options (the rank statement
   C13_ls_map_full_rank_* is about such filters; the user's order only permutes the columns) *)
Lemma user_ls_perm_filter enumerated l_list ls_opt :
  NoDup enumerated ->
  Permutation (user_ls enumerated l_list ls_opt)
    (filter (fun p => (match ls_opt with Some u => pair_mem p u | None => true end) &&
                      (match l_list with Some a => existsb (Z.eqb (fst p)) a | None => true end)) enumerated).
Proof.
  intros He. apply NoDup_Permutation.
  - apply user_ls_NoDup. exact He.
  - apply NoDup_filter_pairs. exact He.
  - intros p. rewrite user_ls_spec, filter_In, andb_true_iff.
    destruct ls_opt as [u|]; destruct l_list as [a|];
      rewrite ?pair_mem_In, ?existsb_Zeqb_In; intuition.
Qed.

(* the behaviour before the repair offered forbidden and repeated couplings *)
Example user_ls_old_refuted :
  exists enumerated u, ~ incl (user_ls_old enumerated None (Some u)) enumerated /\ ~ NoDup (user_ls_old enumerated None (Some [(1,2);(1,2)])).
Proof.
  exists [(1, 0)], [(0, 0); (1, 0)]. split.
  - intros H. specialize (H (0, 0) (or_introl eq_refl)). cbn in H. destruct H as [H|[]]. discriminate H.
  - intros H. inversion H as [|x l Hx Hl]; subst. apply Hx. left. reflexivity.
Qed.
