(* Model of tf_pwa/particle.py:207-248 GetA2BC_LS_list.  Definitions only.
   Spins are doubled integers (2j).  A result pair is (l, 2s). *)
From Coq Require Import ZArith List Bool.
Import ListNotations.
Open Scope Z_scope.

(* _spin_range(a,b) on doubled values: a, a+2, ... <= b *)
Definition srange (a b : Z) : list Z :=
  map (fun k => a + 2 * Z.of_nat k) (seq 0 (Z.to_nat ((b - a) / 2 + 1))).

(* dl = 0 if pa*pb*pc == 1 else 1 *)
Definition dl_of (pa pb pc : Z) : Z := if pa * pb * pc =? 1 then 0 else 1.

(* effective p_break and dl:  "if pa is None or pb is None or pc is None: p_break = True" *)
Definition eff_break (pa pb pc : option Z) (p_break : bool) : bool :=
  match pa, pb, pc with Some _, Some _, Some _ => p_break | _, _, _ => true end.
Definition eff_dl (pa pb pc : option Z) : Z :=
  match pa, pb, pc with Some a, Some b, Some c => dl_of a b c | _, _, _ => 0 end.

Definition parity_ok (pbrk : bool) (dl l : Z) : bool := pbrk || (l mod 2 =? dl).

(* "if ca != (-1) ** (l + s): continue".  For half-integer s Python yields a
   complex number, never equal to ca: the pair is skipped. *)
Definition ca_ok (ca : option Z) (l s2 : Z) : bool :=
  match ca with
  | None => true
  | Some c => Z.even s2 && (c =? (if Z.even (l + s2 / 2) then 1 else -1))
  end.

Definition ls_of_s (ja2 : Z) (pbrk : bool) (dl : Z) (ca : option Z) (s2 : Z) : list (Z * Z) :=
  let lo := Z.abs (ja2 - s2) in
  if Z.odd lo then []  (* half-integer l: break at the first iteration *)
  else map (fun l2 => (l2 / 2, s2))
           (filter (fun l2 => ca_ok ca (l2 / 2) s2 && parity_ok pbrk dl (l2 / 2))
                   (srange lo (ja2 + s2))).

Definition ls_list_core (ja2 jb2 jc2 : Z) (pbrk : bool) (dl : Z) (ca : option Z) : list (Z * Z) :=
  flat_map (ls_of_s ja2 pbrk dl ca) (srange (Z.abs (jb2 - jc2)) (jb2 + jc2)).

Definition ls_list (ja2 jb2 jc2 : Z) (pa pb pc : option Z) (p_break : bool) (ca : option Z) :=
  ls_list_core ja2 jb2 jc2 (eff_break pa pb pc p_break) (eff_dl pa pb pc) ca.

(* user restrictions, tf_pwa/amp/core.py get_ls_list (after /repo 47acb11): the ls_list option RESTRICTS the enumeration -
   its entries are kept in the user's order, each one once (dict.fromkeys keeps first occurrences), and only if the
   enumeration allows them; l_list then keeps the pairs whose l is listed (also together with ls_list).
   Before 47acb11 an explicit ls_list REPLACED the enumeration (returned as given, forbidden and repeated entries
   included, l_list ignored): user_ls_old. *)
Definition restrict_l (ls : list (Z * Z)) (allowed : list Z) : list (Z * Z) :=
  filter (fun p => existsb (Z.eqb (fst p)) allowed) ls.
Definition pair_eqb (p q : Z * Z) : bool := (fst p =? fst q) && (snd p =? snd q).
Definition pair_mem (p : Z * Z) (l : list (Z * Z)) : bool := existsb (pair_eqb p) l.
Fixpoint dedup_first (l : list (Z * Z)) : list (Z * Z) :=
  match l with
  | [] => []
  | p :: r => p :: filter (fun q => negb (pair_eqb p q)) (dedup_first r)
  end.
Definition user_ls (enumerated : list (Z * Z)) (l_list : option (list Z)) (ls_opt : option (list (Z * Z))) :=
  let base := match ls_opt with
              | Some u => filter (fun p => pair_mem p enumerated) (dedup_first u)
              | None => enumerated
              end in
  match l_list with Some a => restrict_l base a | None => base end.
Definition user_ls_old (enumerated : list (Z * Z)) (l_list : option (list Z)) (ls_opt : option (list (Z * Z))) :=
  match ls_opt with
  | Some u => u
  | None => match l_list with Some a => restrict_l enumerated a | None => enumerated end
  end.

(* ---- evaluation helpers for the correspondence (exact list comparison) ---- *)
Fixpoint pairs_eqb (a b : list (Z * Z)) : bool :=
  match a, b with
  | [], [] => true
  | (x, y) :: a', (x', y') :: b' => (x =? x') && (y =? y') && pairs_eqb a' b'
  | _, _ => false
  end.
Definition optz_of (z : Z) : option Z := if z =? 0 then None else Some z.
(* one implementation call: ((pa,pb,pc) with 0 = None, p_break, ca with 0 = None, output) *)
Definition ls_case_ok (ja2 jb2 jc2 : Z) (c : Z * Z * Z * bool * Z * list (Z * Z)) : bool :=
  let '(pa, pb, pc, brk, ca, out) := c in
  pairs_eqb (ls_list ja2 jb2 jc2 (optz_of pa) (optz_of pb) (optz_of pc) brk (optz_of ca)) out.

(* number of independent helicity amplitudes for A -> B C (full helicity ranges):
   pairs (lb, lc) with |lb - lc| <= ja; with parity conservation pairs (lb,lc) and
   (-lb,-lc) are related by eta = pa pb pc (-1)^(ja-jb-jc): count orbits, dropping the
   self-conjugate pair (0,0) when eta = -1. *)
Definition hel_pairs (ja2 jb2 jc2 : Z) : list (Z * Z) :=
  filter (fun p => Z.abs (fst p - snd p) <=? ja2)
         (list_prod (srange (- jb2) jb2) (srange (- jc2) jc2)).

Definition n_helicity (ja2 jb2 jc2 : Z) (pbrk : bool) (eta_neg : bool) : Z :=
  let hp := hel_pairs ja2 jb2 jc2 in
  let n := Z.of_nat (length hp) in
  if pbrk then n
  else
    let has00 := existsb (fun p => (fst p =? 0) && (snd p =? 0)) hp in
    if has00 then (if eta_neg then (n - 1) / 2 else (n + 1) / 2) else n / 2.
