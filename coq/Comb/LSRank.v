(* Full rank of the LS -> helicity coupling map (HelicityDecay.get_cg_matrix, tf_pwa/amp/core.py;
   couplings of tf_pwa/particle.py GetA2BC_LS_list).  Definitions only (lemmas: LSRank_proofs.v,
   per-triple certificates: LSRank_cases_<ja2>.v, final theorems: LSRank_final.v).

   The matrix has one row per helicity pair (lb, lc) of [hel_pairs] and one column per coupling
   (l, 2s) of the parity-violating enumeration [ls_list_core .. true 0 None]; its entries are
   literally [cgm_R] (Amp/Chain.v).  Doubled spins and helicities; l plain. *)
From Coq Require Import Reals List ZArith QArith Bool.
From TFV Require Import Comb.LS Amp.Coupling Amp.Chain.
Import ListNotations.
Open Scope R_scope.

(* ---------- the matrix ---------- *)
(* all couplings: parity violating, no C-parity filter *)
Definition ls_cols (ja2 jb2 jc2 : Z) : list (Z * Z) := ls_list_core ja2 jb2 jc2 true 0%Z None.

(* matrix on an arbitrary column list (sub-lists of [ls_cols] are what restrictions produce) *)
Definition ls_matrix_on (ja2 jb2 jc2 : Z) (cols : list (Z * Z)) : list (list R) :=
  map (fun r => map (fun c => cgm_R ja2 jb2 jc2 (fst c) (snd c) (fst r) (snd r)) cols)
      (hel_pairs ja2 jb2 jc2).
Definition ls_matrix (ja2 jb2 jc2 : Z) : list (list R) :=
  ls_matrix_on ja2 jb2 jc2 (ls_cols ja2 jb2 jc2).

(* ---------- linear algebra on lists ---------- *)
Fixpoint dot (a b : list R) : R :=
  match a, b with
  | x :: a', y :: b' => x * y + dot a' b'
  | _, _ => 0
  end.
Definition mat_vec (M : list (list R)) (x : list R) : list R := map (fun r => dot r x) M.

(* M (n columns) is injective: M x = 0 -> x = 0 *)
Definition injective_on (M : list (list R)) (n : nat) : Prop :=
  forall x : list R, length x = n -> mat_vec M x = repeat 0 (length M) -> x = repeat 0 n.

Definition ls_injective_on (ja2 jb2 jc2 : Z) (cols : list (Z * Z)) : Prop :=
  injective_on (ls_matrix_on ja2 jb2 jc2 cols) (length cols).
Definition ls_injective (ja2 jb2 jc2 : Z) : Prop := ls_injective_on ja2 jb2 jc2 (ls_cols ja2 jb2 jc2).

(* sub-list of the columns selected by a boolean mask *)
Fixpoint select {A : Type} (mask : list bool) (l : list A) : list A :=
  match mask, l with
  | b :: mask', a :: l' => if b then a :: select mask' l' else select mask' l'
  | _, _ => []
  end.

(* ---------- Gram matrix and strict diagonal dominance ---------- *)
(* G_ij = sum over rows r of M_ri M_rj *)
Definition col_dot (M : list (list R)) (i j : nat) : R :=
  fold_right (fun r acc => nth i r 0 * nth j r 0 + acc) 0 M.
(* sum_{j < n, j <> i} |G_ij| *)
Definition offsum (M : list (list R)) (n i : nat) : R :=
  fold_right (fun j acc => if Nat.eqb j i then acc else Rabs (col_dot M i j) + acc) 0 (seq 0 n).
Definition gram_dominant (M : list (list R)) (n : nat) : Prop :=
  forall i, (i < n)%nat -> offsum M n i < col_dot M i i.
Definition rows_wf (M : list (list R)) (n : nat) : Prop := List.Forall (fun r => length r = n) M.

(* ---------- exact-radical (symbolic) matrix: sign and squared value ---------- *)
Definition interp (e : Z * Q) : R :=
  match fst e with Z0 => 0 | s => IZR s * sqrt (Q2R (snd e)) end.

Definition ls_sym (ja2 jb2 jc2 : Z) (cols : list (Z * Z)) : list (list (Z * Q)) :=
  map (fun r => map (fun c => (cgm_sign ja2 jb2 jc2 (fst c) (snd c) (fst r) (snd r),
                               cgm_sq ja2 jb2 jc2 (fst c) (snd c) (fst r) (snd r))) cols)
      (hel_pairs ja2 jb2 jc2).

(* symbolic Gram entry: the non-zero products  (s_i s_j, q_i, q_j)  over the rows *)
Definition sym_col_dot (S : list (list (Z * Q))) (i j : nat) : list (Z * Q * Q) :=
  flat_map (fun r => let a := nth i r (0%Z, 0%Q) in let b := nth j r (0%Z, 0%Q) in
                     if (fst a * fst b =? 0)%Z then [] else [(fst a * fst b, snd a, snd b)%Z]) S.
Definition interp_terms (l : list (Z * Q * Q)) : R :=
  fold_right (fun t acc => IZR (fst (fst t)) * (sqrt (Q2R (snd (fst t))) * sqrt (Q2R (snd t))) + acc) 0 l.

(* off-diagonal symbolic entries of Gram row i *)
Definition sym_off_row (S : list (list (Z * Q))) (n i : nat) : list (list (Z * Q * Q)) :=
  map (sym_col_dot S i) (filter (fun j => negb (Nat.eqb j i)) (seq 0 n)).
Definition interp_off (L : list (list (Z * Q * Q))) : R :=
  fold_right (fun l acc => Rabs (interp_terms l) + acc) 0 L.

(* certificate for one Gram row: off-diagonal mass <= 1e-9 and |G_ii - 1| <= 1e-9 *)
Definition gram_eps : R := / 1000000000.
Definition row_cert (off : list (list (Z * Q * Q))) (diag : list (Z * Q * Q)) : Prop :=
  interp_off off <= gram_eps /\ Rabs (interp_terms diag - 1) <= gram_eps.
(* all rows: Gram matrix = identity within 1e-9 (row-sum norm) *)
Definition sym_rows (S : list (list (Z * Q))) (n : nat)
  : list (list (list (Z * Q * Q)) * list (Z * Q * Q)) :=
  map (fun i => (sym_off_row S n i, sym_col_dot S i i)) (seq 0 n).
Definition gram_near_id (ja2 jb2 jc2 : Z) : Prop :=
  List.Forall (fun p => row_cert (fst p) (snd p))
              (sym_rows (ls_sym ja2 jb2 jc2 (ls_cols ja2 jb2 jc2)) (length (ls_cols ja2 jb2 jc2))).

(* the spin range of the certificate files: doubled spins 0..5 (j <= 5/2) *)
Definition spins5 : list Z := [0; 1; 2; 3; 4; 5]%Z.
