(* C13 - relations BETWEEN enumerations of GetA2BC_LS_list (all spins, unbounded):
   what the switches p_break / parities / ca may and may not change. *)
From Coq Require Import ZArith List Bool Lia.
From TFV Require Import Comb.LS Comb.LS_proofs.
Import ListNotations.
Open Scope Z_scope.

Local Ltac rule4 tp := split; [tauto | split; [tauto | split; [tp | tauto]]].

(* switching parity conservation off never removes a coupling *)
Lemma ls_core_break_superset ja2 jb2 jc2 pbrk dl ca p :
  In p (ls_list_core ja2 jb2 jc2 pbrk dl ca) -> In p (ls_list_core ja2 jb2 jc2 true dl ca).
Proof.
  destruct p as [l s2]. rewrite !ls_core_sound_complete. unfold ls_rule.
  intros (Hs & Ht & _ & Hc). rule4 ltac:(left; reflexivity).
Qed.

(* the parity-violating enumeration is exactly the union of the two parity-conserving ones ... *)
Lemma ls_core_break_union ja2 jb2 jc2 ca l s2 dl0 :
  In (l, s2) (ls_list_core ja2 jb2 jc2 true dl0 ca) <->
  In (l, s2) (ls_list_core ja2 jb2 jc2 false 0 ca) \/ In (l, s2) (ls_list_core ja2 jb2 jc2 false 1 ca).
Proof.
  rewrite !ls_core_sound_complete. unfold ls_rule. split.
  - intros (Hs & Ht & _ & Hc).
    pose proof (Z.mod_pos_bound l 2 ltac:(lia)) as Hb.
    destruct (Z.eq_dec (l mod 2) 0) as [H0|H0].
    + left. rule4 ltac:(right; exact H0).
    + right. rule4 ltac:(right; lia).
  - intros [(Hs & Ht & _ & Hc)|(Hs & Ht & _ & Hc)]; rule4 ltac:(left; reflexivity).
Qed.

(* ... and the two are disjoint: no coupling is offered for both overall parities *)
Lemma ls_core_parity_disjoint ja2 jb2 jc2 ca ca' p :
  In p (ls_list_core ja2 jb2 jc2 false 0 ca) -> In p (ls_list_core ja2 jb2 jc2 false 1 ca') -> False.
Proof.
  destruct p as [l s2]. rewrite !ls_core_sound_complete. unfold ls_rule.
  intros (_ & _ & [H|H] & _) (_ & _ & [H'|H'] & _); try discriminate. lia.
Qed.

(* a C-parity requirement only removes couplings *)
Lemma ls_core_ca_subset ja2 jb2 jc2 pbrk dl ca p :
  In p (ls_list_core ja2 jb2 jc2 pbrk dl ca) -> In p (ls_list_core ja2 jb2 jc2 pbrk dl None).
Proof.
  destruct p as [l s2]. rewrite !ls_core_sound_complete. unfold ls_rule, ca_spec.
  intros (Hs & Ht & Hp & _). tauto.
Qed.

(* the two C-parity selections partition the integer-s part of the unrestricted enumeration *)
Lemma ls_core_ca_union ja2 jb2 jc2 pbrk dl l s2 :
  s2 mod 2 = 0 ->
  (In (l, s2) (ls_list_core ja2 jb2 jc2 pbrk dl None) <->
   In (l, s2) (ls_list_core ja2 jb2 jc2 pbrk dl (Some 1)) \/ In (l, s2) (ls_list_core ja2 jb2 jc2 pbrk dl (Some (-1)))).
Proof.
  intros Hev. rewrite !ls_core_sound_complete. unfold ls_rule, ca_spec. split.
  - intros (Hs & Ht & Hp & _). destruct (Z.even (l + s2 / 2)) eqn:E.
    + left. split; [exact Hs | split; [exact Ht | split; [exact Hp | split; [exact Hev | reflexivity]]]].
    + right. split; [exact Hs | split; [exact Ht | split; [exact Hp | split; [exact Hev | reflexivity]]]].
  - intros [(Hs & Ht & Hp & _)|(Hs & Ht & Hp & _)]; tauto.
Qed.

Lemma ls_core_ca_disjoint ja2 jb2 jc2 pbrk dl pbrk' dl' p :
  In p (ls_list_core ja2 jb2 jc2 pbrk dl (Some 1)) -> In p (ls_list_core ja2 jb2 jc2 pbrk' dl' (Some (-1))) -> False.
Proof.
  destruct p as [l s2]. rewrite !ls_core_sound_complete. unfold ls_rule, ca_spec.
  intros (_ & _ & _ & _ & H) (_ & _ & _ & _ & H'). destruct (Z.even (l + s2 / 2)); discriminate.
Qed.

(* every offered l is a non-negative integer, bounded by (ja2 + jb2 + jc2)/2 *)
Lemma ls_core_l_range ja2 jb2 jc2 pbrk dl ca l s2 :
  In (l, s2) (ls_list_core ja2 jb2 jc2 pbrk dl ca) -> 0 <= l /\ 2 * l <= ja2 + jb2 + jc2.
Proof.
  rewrite ls_core_sound_complete. unfold ls_rule, tri_l. intros ((Hs & _) & (Ht & _) & _). lia.
Qed.

(* the same for the public entry point *)
Lemma ls_break_superset ja2 jb2 jc2 pa pb pc brk ca p :
  In p (ls_list ja2 jb2 jc2 pa pb pc brk ca) -> In p (ls_list ja2 jb2 jc2 pa pb pc true ca).
Proof.
  unfold ls_list. intros H. apply ls_core_break_superset in H.
  replace (eff_break pa pb pc true) with true by (destruct pa, pb, pc; reflexivity). exact H.
Qed.

Lemma ls_unknown_parity_is_break ja2 jb2 jc2 pa pb pc brk ca :
  (pa = None \/ pb = None \/ pc = None) ->
  ls_list ja2 jb2 jc2 pa pb pc brk ca = ls_list ja2 jb2 jc2 pa pb pc true ca.
Proof.
  unfold ls_list. intros H.
  replace (eff_break pa pb pc brk) with true by (destruct pa, pb, pc; try reflexivity; destruct H as [H|[H|H]]; discriminate).
  replace (eff_break pa pb pc true) with true by (destruct pa, pb, pc; reflexivity). reflexivity.
Qed.
