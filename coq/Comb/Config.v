(* Model of the decay-card loader.  Definitions only.
     tf_pwa/config_loader/decay_config.py
        _list2decay / decay_item             :139-165
        _do_include_dict                     :167-176
        particle_item_list / particle_item   :178-236
        rename_params (particle_key_map)     :238-247, :61-72
        decay_cut / decay_cut_ls             :27-31, :270-292
        get_decay_struct                     :294-421
     tf_pwa/particle.py  cross_combine :20-40, BaseParticle.chain_decay :165-175,
                         add_decay :119-124 (duplicates by (core, sorted outs) ignored)
     tf_pwa/amp/core.py  HelicityDecay.get_ls_list :1212-1233 (via Comb/LS.v user_ls),
                         parameter naming :230-271 (structure only, see [pname])

   Particle names are integers (the harness numbers the strings).  Spins are doubled.
   Restrictions of the modelled grammar (stated, enforced by the generator):
   two-body decays; $top and $finals given; final-state names pairwise different; a dict
   inside a candidate list has depth 1; values of included files for a key already present
   are property dicts; no particle is its own ancestor (chain_decay would not terminate).
   A resonance may be a candidate of several slots (the generator does this for slots that are not
   nested).  The model describes _do_include_dict and decay_cut AFTER their repair (patch_9 / patch_1
   of the C19 fix round); the behaviour before is kept as do_include_old / decay_table_old. *)
From Coq Require Import List Arith ZArith Bool.
From TFV Require Import Comb.LS.
Import ListNotations.
Open Scope Z_scope.

Definition name := Z.

(* ------------------------------------------------------------------ ordered dicts *)
Section Dict.
  Context {K V : Type} (eqb : K -> K -> bool).
  Fixpoint dget (d : list (K * V)) (k : K) : option V :=
    match d with
    | [] => None
    | (k', v) :: r => if eqb k k' then Some v else dget r k
    end.
  (* d[k] = v : in place when present, appended otherwise *)
  Fixpoint dset (d : list (K * V)) (k : K) (v : V) : list (K * V) :=
    match d with
    | [] => [(k, v)]
    | (k', v') :: r => if eqb k k' then (k', v) :: r else (k', v') :: dset r k v
    end.
  (* a.update(b) *)
  Definition dupdate (a b : list (K * V)) : list (K * V) :=
    fold_left (fun acc kv => dset acc (fst kv) (snd kv)) b a.
End Dict.

(* ------------------------------------------------------------------ decay section *)
Inductive dopt :=
| OPbreak (b : bool) | OCbreak (b : bool) | OLlist (l : list Z) | OLslist (ls : list (Z * Z))
| OOther (k : Z).                      (* model, curve_style, has_barrier_factor, ... *)
Inductive ditem := DName (n : name) | DOpts (o : list dopt).
Inductive dentry := EItem (i : ditem) | EList (l : list ditem).
Definition dsection := list (name * list dentry).

Record drec := mkD { d_core : name; d_outs : list name; d_params : list dopt }.

(* _list2decay: names in order; option dicts merged, later keys win (see [opt_*]: last match) *)
Definition list2decay (core : name) (items : list ditem) : drec :=
  mkD core
      (flat_map (fun i => match i with DName n => [n] | DOpts _ => [] end) items)
      (flat_map (fun i => match i with DName _ => [] | DOpts o => o end) items).

Definition is_elist (e : dentry) : bool := match e with EList _ => true | EItem _ => false end.
(* decay_item: "if all(isinstance(i, list) ...)": a list of decays, else one decay *)
Definition decay_item (ds : dsection) : list drec :=
  flat_map (fun co =>
              let '(core, outs) := co in
              if forallb is_elist outs
              then map (fun e => match e with EList l => list2decay core l | EItem _ => list2decay core [] end) outs
              else [list2decay core (flat_map (fun e => match e with EItem i => [i] | EList _ => [] end) outs)])
           ds.

Fixpoint last_some {A B} (f : A -> option B) (l : list A) (acc : option B) : option B :=
  match l with
  | [] => acc
  | x :: r => last_some f r (match f x with Some y => Some y | None => acc end)
  end.
Definition opt_pbreak (o : list dopt) : bool :=
  match last_some (fun x => match x with OPbreak b => Some b | _ => None end) o None with Some b => b | None => false end.
Definition opt_cbreak (o : list dopt) : bool :=
  match last_some (fun x => match x with OCbreak b => Some b | _ => None end) o None with Some b => b | None => true end.
Definition opt_llist (o : list dopt) : option (list Z) :=
  last_some (fun x => match x with OLlist l => Some l | _ => None end) o None.
Definition opt_lslist (o : list dopt) : option (list (Z * Z)) :=
  last_some (fun x => match x with OLslist l => Some l | _ => None end) o None.

(* ------------------------------------------------------------------ particle section *)
Inductive pkey := KJ | KP | KPar | KC | KMass | KM0 | KWidth | KG0
                 | KFloat            (* float: [m] / [g] / [m, g]; value = 1, 2, 3 *)
                 | KOther (k : Z).
Definition pkey_eqb (a b : pkey) : bool :=
  match a, b with
  | KJ, KJ | KP, KP | KPar, KPar | KC, KC | KMass, KMass | KM0, KM0 | KWidth, KWidth | KG0, KG0 | KFloat, KFloat => true
  | KOther x, KOther y => x =? y
  | _, _ => false
  end.
Definition props := list (pkey * Z).   (* values: 2J, P, C, mass and width in 1e-6 units *)

Inductive pcand :=
| CName (n : name)                      (* "Zc_4025" *)
| CProps (n : name) (p : props)         (* {Zc: {J: 1, ...}} inside a candidate list *)
| CSub (n : name) (l : list name).      (* {R2: [a, b]} inside a candidate list *)
Inductive pval := PVProps (p : props) | PVList (l : list pcand).
Definition psection := list (name * pval).

Record config := mkC {
  c_decay : dsection;
  c_top : name;
  c_top_props : option props;            (* $top: {A: {...}}  /  $top: A *)
  c_finals : list (name * option props); (* $finals: {B: {...}, ...}  /  [B, C, D] *)
  c_particle : psection;                 (* the other keys, in order *)
  c_includes : list psection             (* contents of the $include files, in order *)
}.

(* _do_include_dict(d, s), one property dict: the included dict without the keys the entry already
   has, followed by the entry's own keys (`new = {k: v for k in s[i] if k not in d[i]};
   new.update(d[i])`; the keys of a dict are pairwise different, so update appends).
   The position matters: rename_params lets the LAST of m0 / mass win. *)
Definition pkey_mem (k : pkey) (p : props) : bool := existsb (fun kv => pkey_eqb k (fst kv)) p.
Definition merge_props (sp dp : props) : props :=
  filter (fun kv => negb (pkey_mem (fst kv) dp)) sp ++ dp.
Definition do_include (d s : psection) : psection :=
  fold_left (fun d iv =>
               let '(i, sv) := iv in
               match dget Z.eqb d i with
               | Some (PVProps dp) =>
                   match sv with
                   | PVProps sp => dset Z.eqb d i (PVProps (merge_props sp dp))
                   | PVList _ => d
                   end
               | Some (PVList _) => d
               | None => dset Z.eqb d i sv
               end) s d.
(* before the repair (`s[i].update(d[i]); d[i] = s[i]`): the keys kept the positions they had in
   the included dict - see Config_proofs.include_old_alias_refuted *)
Definition do_include_old (d s : psection) : psection :=
  fold_left (fun d iv =>
               let '(i, sv) := iv in
               match dget Z.eqb d i with
               | Some (PVProps dp) =>
                   match sv with
                   | PVProps sp => dset Z.eqb d i (PVProps (dupdate pkey_eqb sp dp))
                   | PVList _ => d
                   end
               | Some (PVList _) => d
               | None => dset Z.eqb d i sv
               end) s d.

Definition pmap_t := list (name * list name).
Definition pprop_t := list (name * props).
Definition mget (m : pmap_t) (k : name) : list name :=
  match dget Z.eqb m k with Some l => l | None => [] end.

Definition cand_step (particle : name) (st : pmap_t * pprop_t) (c : pcand) : pmap_t * pprop_t :=
  let '(m, pr) := st in
  match c with
  | CName i => (dset Z.eqb m particle (mget m particle ++ [i]), pr)
  | CProps k p => (m, dset Z.eqb pr k p)
  | CSub k l => (dset Z.eqb m k (mget m k ++ l), pr)
  end.
(* particle_item_list *)
Definition particle_item_list (ps : psection) : pmap_t * pprop_t :=
  fold_left (fun st pv =>
               let '(particle, v) := pv in
               match v with
               | PVProps p => (fst st, dset Z.eqb (snd st) particle p)
               | PVList [] => (dset Z.eqb (fst st) particle [], snd st)
               | PVList l => fold_left (cand_step particle) l st
               end) ps ([], []).
(* particle_item *)
Definition particle_item (c : config) : pmap_t * pprop_t :=
  let merged := fold_left do_include (c_includes c) (c_particle c) in
  let '(m, pr) := particle_item_list merged in
  let pr1 := match c_top_props c with Some p => dset Z.eqb pr (c_top c) p | None => pr end in
  let pr2 := fold_left (fun pr fp => match snd fp with Some p => dset Z.eqb pr (fst fp) p | None => pr end)
                       (c_finals c) pr1 in
  (m, pr2).

(* rename_params with particle_key_map: Par -> P, m0 -> mass, g0 -> width *)
Definition rename_key (k : pkey) : pkey :=
  match k with KPar => KP | KM0 => KMass | KG0 => KWidth | k => k end.
Definition rename_params (p : props) : props :=
  fold_left (fun acc kv => dset pkey_eqb acc (rename_key (fst kv)) (snd kv)) p [].

Record pinfo := mkP { p_J : Z; p_P : Z; p_C : option Z; p_mass : option Z; p_width : option Z }.
Definition pinfo_of (pr : pprop_t) (n : name) : pinfo :=
  let p := rename_params (match dget Z.eqb pr n with Some p => p | None => [] end) in
  mkP (match dget pkey_eqb p KJ with Some j => j | None => 0 end)
      (match dget pkey_eqb p KP with Some x => x | None => -1 end)
      (dget pkey_eqb p KC) (dget pkey_eqb p KMass) (dget pkey_eqb p KWidth).

(* ------------------------------------------------------------------ decays between base particles *)
Definition bdec := (name * list name)%type.
Definition wrap (m : pmap_t) (n : name) : list name :=
  match dget Z.eqb m n with Some l => l | None => [n] end.
Fixpoint all_combine (outs : list (list name)) : list (list name) :=
  match outs with
  | [] => [[]]
  | h :: t => flat_map (fun i => map (cons i) (all_combine t)) h
  end.
Definition expand_rec (m : pmap_t) (r : drec) : list (bdec * list dopt) :=
  flat_map (fun i => map (fun j => ((i, j), d_params r)) (all_combine (map (wrap m) (d_outs r))))
           (wrap m (d_core r)).
Definition all_decs (m : pmap_t) (recs : list drec) : list (bdec * list dopt) :=
  flat_map (expand_rec m) recs.

Fixpoint zinsert (a : Z) (l : list Z) : list Z :=
  match l with [] => [a] | b :: r => if a <=? b then a :: l else b :: zinsert a r end.
Definition zsort (l : list Z) : list Z := fold_right zinsert [] l.
Fixpoint zlist_eqb (a b : list Z) : bool :=
  match a, b with [] , [] => true | x :: a', y :: b' => (x =? y) && zlist_eqb a' b' | _, _ => false end.
(* BaseDecay.__eq__ : same core, same sorted daughters *)
Definition bdec_eqb (d e : bdec) : bool := (fst d =? fst e) && zlist_eqb (zsort (snd d)) (zsort (snd e)).

(* particle.decay lists: first occurrence kept (add_decay) *)
Fixpoint dedup (l : list bdec) (seen : list bdec) : list bdec :=
  match l with
  | [] => []
  | d :: r => if existsb (bdec_eqb d) seen then dedup r seen else d :: dedup r (seen ++ [d])
  end.
Definition base_decays (ad : list (bdec * list dopt)) : list bdec := dedup (map fst ad) [].
Definition decays_of (D : list bdec) (p : name) : list bdec := filter (fun d => fst d =? p) D.
(* new_decay_params[dec_i] = params : the last record with an equal decay wins *)
Definition params_of (ad : list (bdec * list dopt)) (d : bdec) : list dopt :=
  match last_some (fun x => if bdec_eqb (fst x) d then Some (snd x) else None) ad None with
  | Some o => o | None => [] end.

(* ------------------------------------------------------------------ chain_decay *)
Fixpoint cross_combine {A} (x : list (list (list A))) : list (list A) :=
  match x with
  | [] => []
  | head :: tail =>
      let other := cross_combine tail in
      flat_map (fun i => match other with [] => [i] | _ => map (fun j => i ++ j) other end) head
  end.
Definition nonempty {A} (l : list A) : bool := match l with [] => false | _ => true end.
Fixpoint chain_decay (fuel : nat) (D : list bdec) (p : name) : list (list bdec) :=
  match fuel with
  | O => []
  | S f =>
      flat_map (fun d => cross_combine ([[d]] :: filter nonempty (map (chain_decay f D) (snd d))))
               (decays_of D p)
  end.

(* final state of a chain: daughters that do not decay in it (split_particle_type_list) *)
Definition zmem (x : Z) (l : list Z) : bool := existsb (Z.eqb x) l.
Definition chain_leaves (c : list bdec) : list name :=
  let cores := map fst c in
  let outs := flat_map snd c in
  let inner := filter (fun i => zmem i outs) cores in
  filter (fun i => negb (zmem i inner)) outs.

(* per-chain renumbering name -> name:id (count_input / count_output) *)
Definition count_z (x : Z) (l : list Z) : Z := Z.of_nat (length (filter (Z.eqb x) l)).
Definition pid := (name * Z)%type.
Fixpoint renumber (c : list bdec) (seen_in seen_out : list name) : list (pid * list pid) :=
  match c with
  | [] => []
  | d :: r =>
      let core := (fst d, count_z (fst d) seen_in) in
      let outs := (fix go (o : list name) (so : list name) : list pid :=
                     match o with [] => [] | j :: o' => (j, count_z j so) :: go o' (so ++ [j]) end)
                    (snd d) seen_out in
      (core, outs) :: renumber r (seen_in ++ [fst d]) (seen_out ++ snd d)
  end.

(* ------------------------------------------------------------------ cut and result *)
Definition decay_ls (pr : pprop_t) (core : name) (outs : list name) (o : list dopt) : list (Z * Z) :=
  match outs with
  | [b; c] =>
      let A := pinfo_of pr core in let B := pinfo_of pr b in let C := pinfo_of pr c in
      let ca := if opt_cbreak o then None else p_C A in
      user_ls (ls_list (p_J A) (p_J B) (p_J C) (Some (p_P A)) (Some (p_P B)) (Some (p_P C)) (opt_pbreak o) ca)
              (opt_llist o) (opt_lslist o)
  | _ => []
  end.

Definition odecay := (pid * list pid * list (Z * Z))%type.
Definition ochain := list odecay.

Definition fuel_of (D : list bdec) : nat := S (length D).
(* chains before the cut, in the implementation's order *)
Definition raw_chains (c : config) : list (list (bdec * list dopt)) :=
  let '(m, pr) := particle_item c in
  let ad := all_decs m (decay_item (c_decay c)) in
  let D := base_decays ad in
  map (fun ch => map (fun d => (d, params_of ad d)) ch)
      (filter (fun ch => zlist_eqb (zsort (chain_leaves ch)) (zsort (map fst (c_finals c))))
              (chain_decay (fuel_of D) D (c_top c))).
Definition annotate (pr : pprop_t) (ch : list (bdec * list dopt)) : ochain :=
  map (fun x => let '(dn, dp) := x in (fst dn, snd dn, decay_ls pr (fst (fst dp)) (snd (fst dp)) (snd dp)))
      (combine (renumber (map fst ch) [] []) ch).
(* ls_cut: a chain is kept iff every decay has a non-empty (l,s) list *)
Definition chain_kept (oc : ochain) : bool := forallb (fun d => nonempty (snd d)) oc.
Definition load_chains (c : config) : option (list ochain) :=
  let pr := snd (particle_item c) in
  match filter chain_kept (map (annotate pr) (raw_chains c)) with
  | [] => None                       (* RuntimeError("not decay chain aviable") *)
  | l => Some l
  end.

(* ------------------------------------------------------------------ parameters (structure) *)
Inductive pname :=
| PTotal (chain : list (pid * list pid)) (re : bool)       (* "<chain>_total_0r" / "_0i" *)
| PGls (core : pid) (outs : list pid) (i : nat) (re : bool)  (* "<decay>_g_ls_<i>r" / "i" *)
| PMass (p : pid) | PWidth (p : pid).

Definition chain_struct (oc : ochain) : list (pid * list pid) := map fst oc.
Definition inner_of (oc : ochain) : list pid :=
  let outs := flat_map (fun d => snd (fst d)) oc in
  filter (fun p => existsb (fun q => (fst p =? fst q) && (snd p =? snd q)) outs) (map (fun d => fst (fst d)) oc).
Definition params_of_chains (chs : list ochain) : list pname :=
  flat_map (fun oc =>
              [PTotal (chain_struct oc) true; PTotal (chain_struct oc) false]
              ++ flat_map (fun d => flat_map (fun i => [PGls (fst (fst d)) (snd (fst d)) i true;
                                                        PGls (fst (fst d)) (snd (fst d)) i false])
                                             (seq 0 (length (snd d)))) oc
              ++ flat_map (fun p => [PMass p; PWidth p]) (inner_of oc)) chs.
(* default constraints: first chain's total and every g_ls_0 fixed; mass / width fixed unless the
   particle's (un-renamed) property dict has float: m / g (add_particle_constraints) *)
Definition float_mask (pr : pprop_t) (n : name) : Z :=
  match dget Z.eqb pr n with
  | Some p => match dget pkey_eqb p KFloat with Some v => v | None => 0 end
  | None => 0
  end.
Definition trainable_of_chains (pr : pprop_t) (chs : list ochain) : list pname :=
  flat_map (fun ioc =>
              let '(idx, oc) := ioc in
              (if Nat.eqb idx 0 then [] else [PTotal (chain_struct oc) true; PTotal (chain_struct oc) false])
              ++ flat_map (fun d => flat_map (fun i => [PGls (fst (fst d)) (snd (fst d)) i true;
                                                        PGls (fst (fst d)) (snd (fst d)) i false])
                                             (seq 1 (length (snd d) - 1))) oc
              ++ flat_map (fun p => (if Z.odd (float_mask pr (fst p)) then [PMass p] else [])
                                    ++ (if 2 <=? float_mask pr (fst p) then [PWidth p] else [])) (inner_of oc))
           (combine (seq 0 (length chs)) chs).

(* ------------------------------------------------------------------ decay lists after the cut *)
(* get_decay_struct creates one decay object per (core:id, outs:id) and appends it to core.decay (and to
   the creators of its daughters); decay_cut (repaired) leaves exactly the decays of the kept chains *)
Definition sdec := (pid * list pid)%type.
Definition all_sdecs (chs : list ochain) : list sdec := flat_map chain_struct chs.
Definition pid_eqb0 (a b : pid) : bool := (fst a =? fst b) && (snd a =? snd b).
Definition decays_of_particle (chs : list ochain) (p : pid) : list sdec :=
  filter (fun d => pid_eqb0 (fst d) p) (all_sdecs chs).
(* before the repair: in every enumerated chain only the first decay without (l,s) was taken out of its
   mother's list; the decays above it stayed (Config_proofs.cut_old_phantom) *)
Fixpoint first_failing (oc : ochain) : option sdec :=
  match oc with
  | [] => None
  | d :: r => if nonempty (snd d) then first_failing r else Some (fst d)
  end.
Definition sdec_eqb0 (a b : sdec) : bool :=
  pid_eqb0 (fst a) (fst b)
  && (fix go (x y : list pid) : bool :=
        match x, y with [], [] => true | u :: x', v :: y' => pid_eqb0 u v && go x' y' | _, _ => false end) (snd a) (snd b).
Definition decay_table_old (c : config) : list sdec :=
  let all := map (annotate (snd (particle_item c))) (raw_chains c) in
  let removed := flat_map (fun oc => match first_failing oc with Some d => [d] | None => [] end) all in
  filter (fun d => negb (existsb (sdec_eqb0 d) removed)) (all_sdecs all).
Definition in_some_chain (chs : list ochain) (d : sdec) : bool :=
  existsb (fun oc => existsb (sdec_eqb0 d) (chain_struct oc)) chs.

(* ================================================================== evaluation helpers *)
Definition pid_eqb (a b : pid) : bool := (fst a =? fst b) && (snd a =? snd b).
Fixpoint leqb {A} (eqb : A -> A -> bool) (x y : list A) : bool :=
  match x, y with [], [] => true | a :: x', b :: y' => eqb a b && leqb eqb x' y' | _, _ => false end.
Definition zz_eqb (a b : Z * Z) : bool := (fst a =? fst b) && (snd a =? snd b).
Definition odecay_eqb (a b : odecay) : bool :=
  pid_eqb (fst (fst a)) (fst (fst b)) && leqb pid_eqb (snd (fst a)) (snd (fst b)) && leqb zz_eqb (snd a) (snd b).
Definition chains_eqb (a b : option (list ochain)) : bool :=
  match a, b with
  | Some x, Some y => leqb (leqb odecay_eqb) x y
  | None, None => true
  | _, _ => false
  end.
Definition struct_eqb (a b : list (pid * list pid)) : bool :=
  leqb (fun x y => pid_eqb (fst x) (fst y) && leqb pid_eqb (snd x) (snd y)) a b.
Definition pname_eqb (a b : pname) : bool :=
  match a, b with
  | PTotal c r, PTotal c' r' => struct_eqb c c' && Bool.eqb r r'
  | PGls c o i r, PGls c' o' i' r' => pid_eqb c c' && leqb pid_eqb o o' && Nat.eqb i i' && Bool.eqb r r'
  | PMass p, PMass q => pid_eqb p q
  | PWidth p, PWidth q => pid_eqb p q
  | _, _ => false
  end.
(* equal as sets *)
Definition pset_eqb (a b : list pname) : bool :=
  forallb (fun x => existsb (pname_eqb x) b) a && forallb (fun x => existsb (pname_eqb x) a) b.
Definition params_ok (c : config) (impl_params impl_trainable : list pname) : bool :=
  match load_chains c with
  | Some chs => pset_eqb (params_of_chains chs) impl_params && pset_eqb (trainable_of_chains (snd (particle_item c)) chs) impl_trainable
  | None => false
  end.
Definition optz_eqb (a b : option Z) : bool :=
  match a, b with Some x, Some y => x =? y | None, None => true | _, _ => false end.
(* quantum numbers of the particles of the loaded chains: (name, 2J, P, C, mass, width) *)
Definition pinfo_ok (c : config) (obs : list (name * (Z * Z * option Z * option Z * option Z))) : bool :=
  let pr := snd (particle_item c) in
  forallb (fun x => let '(n, (j, p, cc, m, w)) := x in
                    let i := pinfo_of pr n in
                    (p_J i =? j) && (p_P i =? p) && optz_eqb (p_C i) cc && optz_eqb (p_mass i) m && optz_eqb (p_width i) w) obs.

(* the decay lists of the particles of the loaded chains (as sets) *)
Definition sdecs_ok (c : config) (impl : list sdec) : bool :=
  match load_chains c with
  | Some chs => let m := all_sdecs chs in
                forallb (fun x => existsb (sdec_eqb0 x) impl) m && forallb (fun x => existsb (sdec_eqb0 x) m) impl
  | None => false
  end.
