From Coq Require Import List Arith ZArith NArith Bool Lia Permutation MSets.MSetPositive.
From TFV Require Import Comb.Topology.
Import ListNotations.

(* ================================================================== equality tests *)
Lemma vtx_eqb_eq a b : vtx_eqb a b = true <-> a = b.
Proof.
  destruct a, b; simpl; try (split; [discriminate | discriminate]); try tauto;
    rewrite Nat.eqb_eq; split; intro H; [subst; reflexivity | injection H; auto | subst; reflexivity | injection H; auto].
Qed.
Lemma edge_eqb_eq e f : edge_eqb e f = true <-> e = f.
Proof.
  destruct e as [a b], f as [c d]. unfold edge_eqb; simpl.
  rewrite andb_true_iff, !vtx_eqb_eq. split; [intros [-> ->]; reflexivity | intros H; injection H; auto].
Qed.
Definition vtx_dec : forall a b : vtx, {a = b} + {a <> b}.
Proof. decide equality; apply Nat.eq_dec. Defined.
Definition edge_dec : forall a b : edge, {a = b} + {a <> b}.
Proof. decide equality; apply vtx_dec. Defined.

(* ================================================================== A. counting *)
Fixpoint prodseq (m k : nat) : nat :=
  match k with 0 => 1 | S k' => m * prodseq (m + 2) k' end.

Lemma remove_first_length e l : In e l -> S (length (remove_first e l)) = length l.
Proof.
  induction l as [|f r IH]; simpl; [tauto|].
  intros H. destruct (edge_eqb e f) eqn:E; [reflexivity|].
  simpl. f_equal. apply IH. destruct H as [H|H]; [|exact H].
  subst f. assert (edge_eqb e e = true) by (apply edge_eqb_eq; reflexivity). congruence.
Qed.

Lemma add_node_edges_length g e d :
  In e (g_edges g) -> length (g_edges (add_node g e d)) = length (g_edges g) + 2.
Proof.
  intros H. unfold add_node; simpl. rewrite app_length; simpl.
  pose proof (remove_first_length e _ H). lia.
Qed.

Lemma flat_map_const_length {A B} (f : A -> list B) l c :
  (forall x, In x l -> length (f x) = c) -> length (flat_map f l) = length l * c.
Proof.
  induction l as [|x r IH]; simpl; intros H; [reflexivity|].
  rewrite app_length, H by (left; reflexivity). rewrite IH by (intros; apply H; right; assumption). reflexivity.
Qed.

Lemma get_graphs_length ps : forall g,
  length (get_graphs g ps) = prodseq (length (g_edges g)) (length ps).
Proof.
  induction ps as [|p ps IH]; intros g; simpl; [reflexivity|].
  apply flat_map_const_length. intros e He.
  rewrite IH, add_node_edges_length by exact He. reflexivity.
Qed.

Lemma prodseq_snoc k : forall m, prodseq m (S k) = prodseq m k * (m + 2 * k).
Proof.
  induction k as [|k IH]; intros m.
  - simpl. lia.
  - change (prodseq m (S (S k))) with (m * prodseq (m + 2) (S k)).
    rewrite IH. change (prodseq m (S k)) with (m * prodseq (m + 2) k). lia.
Qed.

Lemma dfact_prodseq k : dfact_odd (S k) = prodseq 1 k.
Proof.
  induction k as [|k IH]; [reflexivity|].
  rewrite prodseq_snoc, <- IH.
  change (dfact_odd (S (S k))) with ((2 * S k - 1) * dfact_odd (S k)). lia.
Qed.

(* number of chains for n final particles = (2n-3)!!, all n >= 1 *)
Lemma count_double_factorial n : 1 <= n -> length (from_particles n) = dfact_odd n.
Proof.
  intros Hn. destruct n as [|m]; [lia|].
  unfold from_particles, graphs_n. rewrite map_length, get_graphs_length.
  simpl g_edges. simpl length at 1. rewrite map_length, seq_length. symmetry. apply dfact_prodseq.
Qed.

(* ================================================================== B. every graph is a binary tree *)
Inductive bt := Lf (i : nat) | Nd (k : nat) (l r : bt).
Definition root (t : bt) : vtx := match t with Lf i => VLeaf i | Nd k _ _ => VNode k end.
Fixpoint tedges (t : bt) : list edge :=
  match t with
  | Lf _ => []
  | Nd k l r => (VNode k, root l) :: (VNode k, root r) :: tedges l ++ tedges r
  end.
(* the edge into the root (from the parent [a]) followed by the edges of the tree *)
Definition gfrom (a : vtx) (t : bt) : list edge := (a, root t) :: tedges t.
Fixpoint leaves (t : bt) : list nat :=
  match t with Lf i => [i] | Nd _ l r => leaves l ++ leaves r end.
Fixpoint inners (t : bt) : list nat :=
  match t with Lf _ => [] | Nd k l r => k :: inners l ++ inners r end.

Notation ce := (count_occ edge_dec).
Notation cn := (count_occ Nat.eq_dec).

Definition c1 (e x : edge) : nat := if edge_dec e x then 1 else 0.
Definition n1 (e x : nat) : nat := if Nat.eq_dec e x then 1 else 0.
Lemma ce_cons x l y : ce (x :: l) y = c1 x y + ce l y.
Proof. unfold c1. simpl. destruct (edge_dec x y); reflexivity. Qed.
Lemma cn_cons x l y : cn (x :: l) y = n1 x y + cn l y.
Proof. unfold n1. simpl. destruct (Nat.eq_dec x y); reflexivity. Qed.
Lemma ce_nil y : ce [] y = 0. Proof. reflexivity. Qed.
Lemma cn_nil y : cn [] y = 0. Proof. reflexivity. Qed.
Ltac cnorm := cbn [root fst snd]; rewrite ?ce_cons, ?cn_cons, ?count_occ_app, ?ce_cons, ?cn_cons, ?ce_nil, ?cn_nil.
Ltac cnorm_in H := cbn [root fst snd] in H; rewrite ?ce_cons, ?cn_cons, ?count_occ_app, ?ce_cons, ?cn_cons, ?ce_nil, ?cn_nil in H.

Lemma ce_remove_first e l x : In e l -> ce [e] x + ce (remove_first e l) x = ce l x.
Proof.
  induction l as [|f r IH]; [simpl; tauto|].
  intros H. cbn [remove_first]. destruct (edge_eqb e f) eqn:E.
  - apply edge_eqb_eq in E. subst f. cnorm. lia.
  - assert (e <> f) by (intro; subst; rewrite (proj2 (edge_eqb_eq f f) eq_refl) in E; discriminate).
    destruct H as [H|H]; [congruence|]. specialize (IH H). cnorm. cnorm_in IH. lia.
Qed.

(* inserting a new inner node [k] with the new leaf [p] on any edge of a tree gives a tree *)
Lemma insert_edge k p : forall t a e,
  In e (gfrom a t) ->
  exists t',
    (forall x, ce [e] x + ce (gfrom a t') x
               = ce [(fst e, VNode k); (VNode k, snd e); (VNode k, VLeaf p)] x + ce (gfrom a t) x)
    /\ (forall x, cn (leaves t') x = cn [p] x + cn (leaves t) x)
    /\ (forall x, cn (inners t') x = cn [k] x + cn (inners t) x).
Proof.
  assert (ROOT : forall t a, exists t',
    (forall x, ce [(a, root t)] x + ce (gfrom a t') x
               = ce [(a, VNode k); (VNode k, root t); (VNode k, VLeaf p)] x + ce (gfrom a t) x)
    /\ (forall x, cn (leaves t') x = cn [p] x + cn (leaves t) x)
    /\ (forall x, cn (inners t') x = cn [k] x + cn (inners t) x)).
  { intros t a. exists (Nd k t (Lf p)). split; [|split]; intros x.
    - unfold gfrom. simpl root. cbn [tedges]. cnorm. lia.
    - cbn [leaves]. cnorm. lia.
    - cbn [inners]. cnorm. lia. }
  induction t as [i | j l IHl r IHr]; intros a e He.
  - destruct He as [He|[]]. subst e. apply (ROOT (Lf i) a).
  - unfold gfrom in He. simpl in He.
    destruct He as [He | He].
    + subst e. apply (ROOT (Nd j l r) a).
    + assert (Hsub : In e (gfrom (VNode j) l) \/ In e (gfrom (VNode j) r)).
      { unfold gfrom. simpl. destruct He as [He|[He|He]]; [left; left; exact He | right; left; exact He |].
        apply in_app_or in He. destruct He; [left; right; assumption | right; right; assumption]. }
      destruct Hsub as [Hs|Hs].
      * destruct (IHl (VNode j) e Hs) as [l' [H1 [H2 H3]]].
        exists (Nd j l' r). split; [|split]; intros x.
        -- specialize (H1 x). unfold gfrom in *. simpl root. cbn [tedges].
           cnorm_in H1. cnorm. lia.
        -- cbn [leaves]. specialize (H2 x). cnorm_in H2. cnorm. lia.
        -- cbn [inners]. specialize (H3 x). cnorm_in H3. cnorm. lia.
      * destruct (IHr (VNode j) e Hs) as [r' [H1 [H2 H3]]].
        exists (Nd j l r'). split; [|split]; intros x.
        -- specialize (H1 x). unfold gfrom in *. simpl root. cbn [tedges].
           cnorm_in H1. cnorm. lia.
        -- cbn [leaves]. specialize (H2 x). cnorm_in H2. cnorm. lia.
        -- cbn [inners]. specialize (H3 x). cnorm_in H3. cnorm. lia.
Qed.

Lemma add_node_tree g t e p :
  Permutation (g_edges g) (gfrom VTop t) -> In e (g_edges g) ->
  exists t', Permutation (g_edges (add_node g e (VLeaf p))) (gfrom VTop t')
             /\ Permutation (leaves t') (p :: leaves t)
             /\ Permutation (inners t') (g_count g :: inners t).
Proof.
  intros HP He.
  assert (He' : In e (gfrom VTop t)) by (eapply Permutation_in; eassumption).
  destruct (insert_edge (g_count g) p t VTop e He') as [t' [H1 [H2 H3]]].
  exists t'. split; [|split].
  - apply (Permutation_count_occ edge_dec). intros x.
    unfold add_node. cbn [g_edges].
    pose proof (ce_remove_first e _ x He) as Hr.
    rewrite (proj1 (Permutation_count_occ edge_dec _ _) HP x) in Hr.
    specialize (H1 x). unfold gfrom in *. cnorm_in Hr. cnorm_in H1. cnorm. lia.
  - apply (Permutation_count_occ Nat.eq_dec). intros x. specialize (H2 x). cnorm_in H2. cnorm. lia.
  - apply (Permutation_count_occ Nat.eq_dec). intros x. specialize (H3 x). cnorm_in H3. cnorm. lia.
Qed.

Lemma get_graphs_trees ps : forall g t,
  Permutation (g_edges g) (gfrom VTop t) ->
  forall g', In g' (get_graphs g (map VLeaf ps)) ->
  exists t', Permutation (g_edges g') (gfrom VTop t')
             /\ Permutation (leaves t') (rev ps ++ leaves t)
             /\ Permutation (inners t') (rev (seq (g_count g) (length ps)) ++ inners t)
             /\ g_count g' = g_count g + length ps.
Proof.
  induction ps as [|p ps IH]; intros g t HP g' Hin.
  - simpl in Hin. destruct Hin as [<-|[]]. exists t. simpl. repeat split; auto. 
  - simpl in Hin. apply in_flat_map in Hin. destruct Hin as [e [He Hin]].
    destruct (add_node_tree g t e p HP He) as [t1 [P1 [P2 P3]]].
    destruct (IH _ t1 P1 g' Hin) as [t' [Q1 [Q2 [Q3 Q4]]]].
    exists t'. split; [exact Q1|]. split; [|split].
    + rewrite Q2. simpl rev. rewrite <- app_assoc. apply Permutation_app_head. simpl. exact P2.
    + rewrite Q3. simpl length. cbn [seq]. simpl rev. rewrite <- app_assoc.
      cbn [add_node g_count]. apply Permutation_app_head. simpl. exact P3.
    + rewrite Q4. cbn [add_node g_count]. simpl. lia.
Qed.

(* All n >= 1: every enumerated graph is the edge set of a binary tree hanging below the top
   particle, whose leaves are exactly f0..f(n-1) (each once) and whose n-1 inner nodes are
   pairwise different. *)
Lemma graphs_are_binary_trees n g :
  1 <= n -> In g (graphs_n n) ->
  exists t, Permutation (g_edges g) (gfrom VTop t)
            /\ Permutation (leaves t) (seq 0 n)
            /\ Permutation (inners t) (seq 0 (n - 1))
            /\ length (g_edges g) = 2 * n - 1.
Proof.
  intros Hn Hin. destruct n as [|m]; [lia|]. unfold graphs_n in Hin.
  destruct (get_graphs_trees (seq 1 m) (base_graph (VLeaf 0)) (Lf 0) (Permutation_refl _) g Hin)
    as [t [P1 [P2 [P3 P4]]]].
  assert (PL : Permutation (leaves t) (seq 0 (S m))).
  { rewrite P2. simpl leaves. rewrite <- Permutation_rev.
    change (seq 0 (S m)) with (0 :: seq 1 m). symmetry. apply Permutation_cons_append. }
  exists t. split; [exact P1|]. split; [exact PL|split].
  - rewrite P3. simpl inners. rewrite app_nil_r, <- Permutation_rev, seq_length.
    simpl. rewrite Nat.sub_0_r. apply Permutation_refl.
  - rewrite (Permutation_length P1). unfold gfrom. simpl.
    assert (Hl : forall t, length (tedges t) + 1 = 2 * length (leaves t) - 1 /\ 1 <= length (leaves t)).
    { induction t0 as [|k l [IHl1 IHl2] r [IHr1 IHr2]]; simpl; [lia|]. rewrite !app_length. lia. }
    pose proof (Hl t) as [H1 H2]. rewrite (Permutation_length PL), seq_length in H1. lia.
Qed.

(* ================================================================== D. orders, sorting, topology_same *)
Record ord {A} (leb : A -> A -> bool) : Prop := {
  ord_total : forall a b, leb a b = true \/ leb b a = true;
  ord_trans : forall a b c, leb a b = true -> leb b c = true -> leb a c = true;
  ord_antisym : forall a b, leb a b = true -> leb b a = true -> a = b }.

Lemma lex_cons {A} (leb : A -> A -> bool) a x b y :
  lex_leb leb (a :: x) (b :: y) = true <-> leb a b = true /\ (leb b a = true -> lex_leb leb x y = true).
Proof. simpl. destruct (leb a b), (leb b a); intuition discriminate. Qed.

Lemma lex_ord {A} (leb : A -> A -> bool) : ord leb -> ord (lex_leb leb).
Proof.
  intros [T R S]. split.
  - induction a as [|a x IH]; intros [|b y]; try (left; reflexivity); try (right; reflexivity).
    rewrite !lex_cons. destruct (IH y) as [H|H], (T a b) as [H1|H1].
    + left. auto.
    + destruct (leb a b) eqn:E; [left; auto | right; split; [exact H1 | intros; discriminate]].
    + destruct (leb b a) eqn:E; [right; auto | left; split; [exact H1 | intros; discriminate]].
    + right. auto.
  - induction a as [|a x IH]; intros [|b y] [|c z]; try reflexivity; try discriminate.
    rewrite !lex_cons. intros [H1 H2] [H3 H4]. split; [eapply R; eassumption|].
    intros H5. assert (leb c b = true) by (eapply R; eassumption).
    assert (leb b a = true) by (eapply R; eassumption). eauto.
  - induction a as [|a x IH]; intros [|b y]; try reflexivity; try discriminate.
    rewrite !lex_cons. intros [H1 H2] [H3 H4]. f_equal; auto.
Qed.

Lemma zz_ord : ord zz_leb.
Proof.
  split; unfold zz_leb.
  - intros [a1 a2] [b1 b2]; simpl.
    destruct (Z.ltb_spec a1 b1), (Z.ltb_spec b1 a1), (Z.eqb_spec a1 b1), (Z.eqb_spec b1 a1),
      (Z.leb_spec a2 b2), (Z.leb_spec b2 a2); simpl; auto; lia.
  - intros [a1 a2] [b1 b2] [c1 c2]; simpl.
    destruct (Z.ltb_spec a1 b1), (Z.ltb_spec b1 c1), (Z.ltb_spec a1 c1), (Z.eqb_spec a1 b1), (Z.eqb_spec b1 c1),
      (Z.eqb_spec a1 c1), (Z.leb_spec a2 b2), (Z.leb_spec b2 c2), (Z.leb_spec a2 c2); simpl; auto; try lia; try discriminate.
  - intros [a1 a2] [b1 b2]; simpl.
    destruct (Z.ltb_spec a1 b1), (Z.ltb_spec b1 a1), (Z.eqb_spec a1 b1), (Z.eqb_spec b1 a1),
      (Z.leb_spec a2 b2), (Z.leb_spec b2 a2); simpl; try discriminate; try lia; intros; f_equal; lia.
Qed.

Lemma p_ord : ord p_leb.
Proof.
  pose proof zz_ord as Z. pose proof (lex_ord _ zz_ord) as L. split.
  - intros [n i|x] [m j|y]; simpl; auto. apply (ord_total _ Z). apply (ord_total _ L).
  - intros [n i|x] [m j|y] [o k|z]; simpl; auto; try discriminate.
    apply (ord_trans _ Z). apply (ord_trans _ L).
  - intros [n i|x] [m j|y]; simpl; try discriminate.
    + intros H1 H2. pose proof (ord_antisym _ Z _ _ H1 H2) as E. injection E; intros; subst; reflexivity.
    + intros H1 H2. f_equal. apply (ord_antisym _ L); assumption.
Qed.

Lemma leb_refl {A} (leb : A -> A -> bool) : ord leb -> forall a, leb a a = true.
Proof. intros O a. destruct (ord_total _ O a a); assumption. Qed.

Lemma p_eqb_eq a b : p_eqb a b = true <-> a = b.
Proof.
  unfold p_eqb. rewrite andb_true_iff. split.
  - intros [H1 H2]. apply (ord_antisym _ p_ord); assumption.
  - intros ->. split; apply (leb_refl _ p_ord).
Qed.

Lemma list_eqb_eq {A} (eqb : A -> A -> bool) :
  (forall a b, eqb a b = true <-> a = b) -> forall x y, list_eqb eqb x y = true <-> x = y.
Proof.
  intros E. induction x as [|a x IH]; intros [|b y]; simpl; try (split; [discriminate|discriminate]); [tauto|].
  rewrite andb_true_iff, E, IH. split; [intros [-> ->]; reflexivity | intros H; injection H; auto].
Qed.

Lemma insert_perm {A} (leb : A -> A -> bool) a l : Permutation (insert leb a l) (a :: l).
Proof.
  induction l as [|b r IH]; simpl; [apply Permutation_refl|].
  destruct (leb a b); [apply Permutation_refl|].
  rewrite IH. apply perm_swap.
Qed.
Lemma isort_perm {A} (leb : A -> A -> bool) l : Permutation (isort leb l) l.
Proof.
  induction l as [|a r IH]; simpl; [constructor|]. rewrite insert_perm. constructor. exact IH.
Qed.

Lemma insert_comm {A} (leb : A -> A -> bool) : ord leb ->
  forall a b s, insert leb a (insert leb b s) = insert leb b (insert leb a s).
Proof.
  intros [T R S] a b. induction s as [|c r IH].
  - simpl. destruct (leb a b) eqn:E1, (leb b a) eqn:E2; try reflexivity.
    + rewrite (S a b E1 E2). reflexivity.
    + destruct (T a b); congruence.
  - simpl. destruct (leb b c) eqn:Ebc, (leb a c) eqn:Eac; simpl.
    + destruct (leb a b) eqn:E1, (leb b a) eqn:E2; rewrite ?Ebc, ?Eac; try reflexivity.
      * rewrite (S a b E1 E2). reflexivity.
      * destruct (T a b); congruence.
    + assert (leb a b = false).
      { destruct (leb a b) eqn:E; [|reflexivity]. rewrite (R a b c E Ebc) in Eac. discriminate. }
      rewrite H, Eac, Ebc. reflexivity.
    + assert (leb b a = false).
      { destruct (leb b a) eqn:E; [|reflexivity]. rewrite (R b a c E Eac) in Ebc. discriminate. }
      rewrite H, Ebc, Eac. reflexivity.
    + rewrite Eac, Ebc, IH. reflexivity.
Qed.

Lemma isort_perm_eq {A} (leb : A -> A -> bool) : ord leb ->
  forall l l', Permutation l l' -> isort leb l = isort leb l'.
Proof.
  intros O l l' H. induction H; simpl.
  - reflexivity.
  - rewrite IHPermutation. reflexivity.
  - apply insert_comm. exact O.
  - congruence.
Qed.

Lemma isort_eq_iff {A} (leb : A -> A -> bool) : ord leb ->
  forall l l', isort leb l = isort leb l' <-> Permutation l l'.
Proof.
  intros O l l'. split; [|apply isort_perm_eq; exact O].
  intros E. rewrite <- (isort_perm leb l), E. apply isort_perm.
Qed.

(* topology_same <-> the two chains have the same final-state groupings (as multisets;
   with identical=true after forgetting the particle ids) *)
Lemma topology_same_iff fl a b :
  topology_same fl a b = true <->
  Permutation (map (id_view fl) (groupings a)) (map (id_view fl) (groupings b)).
Proof.
  unfold topology_same, topology_id.
  rewrite (list_eqb_eq _ (list_eqb_eq _ p_eqb_eq)).
  apply isort_eq_iff. apply lex_ord. exact p_ord.
Qed.

Lemma topology_same_ids fl a b : topology_same fl a b = true <-> topology_id fl a = topology_id fl b.
Proof. unfold topology_same. apply (list_eqb_eq _ (list_eqb_eq _ p_eqb_eq)). Qed.

(* topology_same is an equivalence relation *)
Lemma topology_same_refl fl a : topology_same fl a a = true.
Proof. apply topology_same_ids. reflexivity. Qed.
Lemma topology_same_sym fl a b : topology_same fl a b = topology_same fl b a.
Proof.
  destruct (topology_same fl a b) eqn:E, (topology_same fl b a) eqn:F; try reflexivity.
  - apply topology_same_ids in E. symmetry in E. apply topology_same_ids in E. congruence.
  - apply topology_same_ids in F. symmetry in F. apply topology_same_ids in F. congruence.
Qed.
Lemma topology_same_trans fl a b c :
  topology_same fl a b = true -> topology_same fl b c = true -> topology_same fl a c = true.
Proof. rewrite !topology_same_ids. congruence. Qed.

(* ================================================================== E. classes of a decay group *)
Section Reps.
  Variable fl : bool.
  Let same (x y : nat * chain) := topology_same fl (snd x) (snd y).
  Let R (x y : nat * chain) := same x y = false.

  Lemma FOP_snoc acc c : ForallOrdPairs R acc -> (forall j, In j acc -> R j c) -> ForallOrdPairs R (acc ++ [c]).
  Proof.
    induction 1 as [|a l Ha Hl IH]; intros Hc; simpl.
    - constructor; constructor.
    - constructor.
      + apply Forall_app. split; [exact Ha|]. constructor; [|constructor]. apply Hc. left. reflexivity.
      + apply IH. intros j Hj. apply Hc. right. exact Hj.
  Qed.

  Lemma topo_reps_spec chs : forall acc,
    ForallOrdPairs R acc ->
    let res := topo_reps fl chs acc in
    ForallOrdPairs R res
    /\ incl acc res
    /\ incl res (acc ++ chs)
    /\ (forall c, In c chs -> exists r, In r res /\ same c r = true).
  Proof.
    induction chs as [|c r IH]; intros acc Hacc; simpl.
    - repeat split; auto using incl_refl. rewrite app_nil_r. apply incl_refl. intros c [].
    - destruct (existsb (fun j => topology_same fl (snd c) (snd j)) acc) eqn:E.
      + destruct (IH acc Hacc) as [H1 [H2 [H3 H4]]]. repeat split; auto.
        * intros x Hx. apply H3 in Hx. apply in_app_or in Hx. apply in_or_app. destruct Hx; [left|right; right]; assumption.
        * intros d [<-|Hd]; [|apply H4; exact Hd].
          apply existsb_exists in E. destruct E as [j [Hj Hs]]. exists j. split; [apply H2; exact Hj | exact Hs].
      + assert (Hacc' : ForallOrdPairs R (acc ++ [c])).
        { apply FOP_snoc; [exact Hacc|]. intros j Hj. unfold R, same. rewrite topology_same_sym.
          destruct (topology_same fl (snd c) (snd j)) eqn:F; [|reflexivity].
          assert (existsb (fun j => topology_same fl (snd c) (snd j)) acc = true) by (apply existsb_exists; exists j; auto).
          congruence. }
        destruct (IH (acc ++ [c]) Hacc') as [H1 [H2 [H3 H4]]]. repeat split; auto.
        * intros x Hx. apply H2. apply in_or_app. left. exact Hx.
        * intros x Hx. apply H3 in Hx. rewrite <- app_assoc in Hx. exact Hx.
        * intros d [<-|Hd]; [|apply H4; exact Hd].
          exists c. split; [apply H2; apply in_or_app; right; left; reflexivity | apply topology_same_refl].
  Qed.

  (* every chain of the group lies in exactly one class of topology_structure *)
  Lemma structure_partition chs :
    let reps := topology_structure fl chs in
    incl reps (indexed chs)
    /\ forall c, In c (indexed chs) ->
         exists r, In r reps /\ same c r = true
                   /\ forall r', In r' reps -> same c r' = true -> r' = r.
  Proof.
    unfold topology_structure.
    destruct (topo_reps_spec (indexed chs) [] (FOP_nil _)) as [H1 [_ [H3 H4]]].
    split; [exact H3|]. intros c Hc. destruct (H4 c Hc) as [r [Hr Hs]].
    exists r. split; [exact Hr|]. split; [exact Hs|].
    intros r' Hr' Hs'.
    destruct (ForallOrdPairs_In H1 _ _ Hr Hr') as [E|[E|E]]; [symmetry; exact E | |]; exfalso; unfold R, same in E.
    - assert (topology_same fl (snd r) (snd r') = true).
      { eapply topology_same_trans; [|exact Hs']. rewrite topology_same_sym. exact Hs. }
      congruence.
    - assert (topology_same fl (snd r') (snd r) = true).
      { eapply topology_same_trans; [|exact Hs]. rewrite topology_same_sym. exact Hs'. }
      congruence.
  Qed.
End Reps.

(* ================================================================== C. the finite quantifier n <= 7 *)
Lemma pos_nodup_sound l : forall s,
  pos_nodup s l = true -> NoDup l /\ forall x, In x l -> ~ PositiveSet.In x s.
Proof.
  induction l as [|x r IH]; intros s H; simpl in *.
  - split; [constructor | intros ? []].
  - destruct (PositiveSet.mem x s) eqn:M; [discriminate|].
    destruct (IH _ H) as [ND NI]. split.
    + constructor; [|exact ND]. intros Hin. apply (NI x Hin). apply PositiveSet.add_spec. left; reflexivity.
    + intros y [<-|Hy] Hs.
      * apply PositiveSet.mem_spec in Hs. congruence.
      * apply (NI y Hy). apply PositiveSet.add_spec. right; exact Hs.
Qed.

Lemma distinct_ok_sound n : distinct_ok n = true -> NoDup (map (topology_id false) (from_particles n)).
Proof.
  unfold distinct_ok. intros H. apply pos_nodup_sound in H. destruct H as [H _].
  rewrite <- (map_map (topology_id false) (fun t => N.succ_pos (id_code t))) in H.
  eapply NoDup_map_inv. exact H.
Qed.

Definition le7 : list nat := [1; 2; 3; 4; 5; 6; 7].
Definition le6 : list nat := [1; 2; 3; 4; 5; 6].

Lemma distinct_all_le7 : forallb distinct_ok le7 = true.
Proof. vm_cast_no_check (eq_refl true). Qed.

Lemma pairwise_distinct_le7 n : In n le7 ->
  forall i j, i < length (from_particles n) -> j < length (from_particles n) -> i <> j ->
    topology_same false (nth i (from_particles n) []) (nth j (from_particles n) []) = false.
Proof.
  intros Hn i j Hi Hj Hij.
  pose proof (proj1 (forallb_forall _ _) distinct_all_le7 n Hn) as D. apply distinct_ok_sound in D.
  destruct (topology_same false _ _) eqn:E; [|reflexivity]. exfalso. apply Hij.
  apply topology_same_ids in E.
  rewrite NoDup_nth with (d := topology_id false []) in D.
  apply D; rewrite ?map_length; auto.
  rewrite !(map_nth (topology_id false)). exact E.
Qed.

Lemma chains_bintree_le7 : forallb (fun n => forallb (chain_bintree_ok n) (from_particles n)) [2; 3; 4; 5; 6; 7] = true.
Proof. vm_cast_no_check (eq_refl true). Qed.

Lemma table_roundtrip_le7 : forallb (fun n => forallb table_roundtrip_ok (from_particles n)) [2; 3; 4; 5; 6; 7] = true.
Proof. vm_cast_no_check (eq_refl true). Qed.

Lemma std_homomorphism_le6 :
  forallb (fun n => forallb (fun c => homomorphism_ok (standard_topology c) c && homomorphism_ok c (standard_topology c))
                            (from_particles n)) [2; 3; 4; 5; 6] = true.
Proof. vm_cast_no_check (eq_refl true). Qed.

(* the group of ALL chains over n finals: one class per chain, each chain in exactly one *)
Lemma chains_map_partition_le5 :
  forallb (fun n => chains_map_partition_ok false (from_particles n)) [2; 3; 4; 5] = true.
Proof. vm_cast_no_check (eq_refl true). Qed.

Lemma chains_map_swapped_identical_ok : chains_map_partition_ok false swapped_identical_group = true.
Proof. vm_compute. reflexivity. Qed.
(* the behaviour before /repo 04ce759 (membership tested with identical=True): KeyError *)
Lemma chains_map_old_flag_refuted : chains_map_gen true swapped_identical_group = None.
Proof. vm_compute. reflexivity. Qed.

(* quantifier form of the evaluated facts *)
Lemma chains_bintree_le7_forall :
  forall n, In n [2; 3; 4; 5; 6; 7] -> forall c, In c (from_particles n) -> chain_bintree_ok n c = true.
Proof.
  intros n Hn. apply (proj1 (forallb_forall _ _)).
  exact (proj1 (forallb_forall _ _) chains_bintree_le7 n Hn).
Qed.
Lemma table_roundtrip_le7_forall :
  forall n, In n [2; 3; 4; 5; 6; 7] -> forall c, In c (from_particles n) -> table_roundtrip_ok c = true.
Proof.
  intros n Hn. apply (proj1 (forallb_forall _ _)).
  exact (proj1 (forallb_forall _ _) table_roundtrip_le7 n Hn).
Qed.
Lemma std_homomorphism_le6_forall :
  forall n, In n [2; 3; 4; 5; 6] -> forall c, In c (from_particles n) ->
    homomorphism_ok (standard_topology c) c && homomorphism_ok c (standard_topology c) = true.
Proof.
  intros n Hn. apply (proj1 (forallb_forall _ _)).
  exact (proj1 (forallb_forall _ _) std_homomorphism_le6 n Hn).
Qed.
Lemma chains_map_partition_le5_both :
  (forall n, In n [2; 3; 4; 5] -> chains_map_partition_ok false (from_particles n) = true)
  /\ chains_map_partition_ok false swapped_identical_group = true.
Proof.
  split; [exact (proj1 (forallb_forall _ _) chains_map_partition_le5) | exact chains_map_swapped_identical_ok].
Qed.
