(* C14: the particle map to / from the standard topology preserves the mother-daughter relation for ALL 10395 chains
   over 7 final particles (evaluated by the kernel's VM; about 9 minutes). Kept in its own file so that the rest of
   Comb/ does not wait for it. *)
From Coq Require Import List ZArith Bool.
From TFV Require Import Comb.Topology.
Import ListNotations.

Lemma std_homomorphism_7 :
  forallb (fun c => homomorphism_ok (standard_topology c) c && homomorphism_ok c (standard_topology c)) (from_particles 7) = true.
Proof. vm_cast_no_check (eq_refl true). Qed.

Lemma std_homomorphism_7_forall :
  forall c, In c (from_particles 7) ->
    homomorphism_ok (standard_topology c) c && homomorphism_ok c (standard_topology c) = true.
Proof. exact (proj1 (forallb_forall _ _) std_homomorphism_7). Qed.
