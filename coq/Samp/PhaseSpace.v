(* Samp/PhaseSpace.v — model of tf_pwa/phasespace.py PhaseSpaceGenerator (definitions only).

   Masses are handled in "a-order": a0 = m_mass[-1], a1 = m_mass[-2], ..., a_{n-1} = m_mass[0]
   (the code indexes m_mass from the end).  The ladder is M_0 = a0 <= M_1 <= ... <= M_{n-2} <= M_{n-1} = m0,
   step i (0-based) is the two-body decay M_{i+1} -> M_i + a_{i+1}.
   Uniform random numbers are inputs (lists us / angles): the RNG is an oracle. *)
From Coq Require Import Reals List.
From TFV Require Import Base.RBase Kin.Boost.
Import ListNotations.
Open Scope R_scope.

(* phasespace.py:9 get_p *)
Definition get_p (M a b : R) : R :=
  sqrt (rmax 0 ((M * M - (a + b) * (a + b)) * (M * M - (a - b) * (a - b)))) / (2 * M).

Fixpoint rsum (l : list R) : R := match l with [] => 0 | x :: l' => x + rsum l' end.
Fixpoint rprod (l : list R) : R := match l with [] => 1 | x :: l' => x * rprod l' end.

(* get_weight :183-202: R_i = get_p(mass_t[i+1], mass_t[i], a_{i+1}); ladder = [M_1;..;M_{n-2}; m0], tl = [a1;..;a_{n-1}] *)
Fixpoint q_list (prev : R) (ladder tl : list R) : list R :=
  match ladder, tl with
  | M :: ladder', a :: tl' => get_p M prev a :: q_list M ladder' tl'
  | _, _ => []
  end.

(* set_decay :223-253: emmin += a_{n-1}; emmax += a_n; wtmax *= get_p(emmax, emmin, a_n) *)
Fixpoint wtmax_list (emmin emmax prev : R) (tl : list R) : list R :=
  match tl with
  | [] => []
  | a :: tl' => get_p (emmax + a) (emmin + prev) a :: wtmax_list (emmin + prev) (emmax + a) a tl'
  end.
Definition wt_max (m0 a0 : R) (tl : list R) : R :=
  rprod (wtmax_list 0 (m0 - (a0 + rsum tl) + a0) a0 tl).

(* get_mass_range :39-52 *)
Fixpoint ranges_aux (m0 m_n sm : R) (tl : list R) : list (R * R) :=
  match tl with
  | a1 :: ((a2 :: _) as rest) => (m_n + a1, m0 - sm) :: ranges_aux m0 (m_n + a1) (sm - a2) rest
  | _ => []
  end.
Definition sm0 (tl : list R) : R := match tl with a1 :: rest => rsum rest | [] => 0 end.
Definition mass_ranges (m0 a0 : R) (tl : list R) : list (R * R) := ranges_aux m0 a0 (sm0 tl) tl.

(* generate_mass :54-73 with uniform numbers us *)
Fixpoint gen_mass_aux (m0 m_n sm : R) (tl us : list R) : list R :=
  match tl, us with
  | a1 :: ((a2 :: _) as rest), u :: us' =>
      let b := m0 - sm in let a := m_n + a1 in
      let ms := (b - a) * u + a in
      ms :: gen_mass_aux m0 ms (sm - a2) rest us'
  | _, _ => []
  end.
Definition gen_mass (m0 a0 : R) (tl us : list R) : list R := gen_mass_aux m0 a0 (sm0 tl) tl us.

(* mass_importances :75-91: for i >= 1:  w *= (b - a) / (b - mass_range[i][0]) *)
Fixpoint imp_aux (first : bool) (m0 m_n sm : R) (tl Ms : list R) (rng : list (R * R)) : R :=
  match tl, Ms, rng with
  | a1 :: ((a2 :: _) as rest), M :: Ms', (amin, _) :: rng' =>
      let b := m0 - sm in let a := m_n + a1 in
      (if first then 1 else (b - a) / (b - amin)) * imp_aux false m0 M (sm - a2) rest Ms' rng'
  | _, _, _ => 1
  end.
Definition importance (m0 a0 : R) (tl Ms : list R) : R :=
  imp_aux true m0 a0 (sm0 tl) tl Ms (mass_ranges m0 a0 tl).

(* with the stored m_wtMax as a parameter (the code divides by the stored attribute) *)
Definition weight_raw_w (wmax m0 a0 : R) (tl Ms : list R) : R := rprod (q_list a0 (Ms ++ [m0]) tl) / wmax.
Definition weight_w (wmax m0 a0 : R) (tl Ms : list R) : R := importance m0 a0 tl Ms * weight_raw_w wmax m0 a0 tl Ms.
Definition weight_raw (m0 a0 : R) (tl Ms : list R) : R := weight_raw_w (wt_max m0 a0 tl) m0 a0 tl Ms.
Definition weight (m0 a0 : R) (tl Ms : list R) : R := weight_w (wt_max m0 a0 tl) m0 a0 tl Ms.

(* generate_momentum_i :151-174 *)
Definition two_body_p (m0 m1 m2 ct phi : R) : vec4 :=
  let q := get_p m0 m1 m2 in let st := sqrt (1 - ct * ct) in
  V4 (sqrt (q * q + m2 * m2)) (q * st * cos phi) (q * st * sin phi) (q * ct).
Definition two_body_recoil (m0 m1 m2 ct phi : R) : vec4 :=
  let q := get_p m0 m1 m2 in let st := sqrt (1 - ct * ct) in
  V4 (sqrt (q * q + m1 * m1)) (q * st * cos phi) (q * st * sin phi) (q * ct).
Definition gen_step (m0 m1 m2 ct phi : R) (p_list : list vec4) : list vec4 :=
  two_body_p m0 m1 m2 ct phi ::
  match p_list with
  | [] => [neg4 (two_body_recoil m0 m1 m2 ct phi)]
  | _ => map (rest_vector (two_body_recoil m0 m1 m2 ct phi)) p_list
  end.
(* generate_momentum :133-149: prev = mass_t[i], ladder = [mass_t[i+1]; ...], tl = [a_{i+1}; ...], angles per step *)
Fixpoint gen_momentum (prev : R) (ladder tl : list R) (angles : list (R * R)) (p_list : list vec4) : list vec4 :=
  match ladder, tl, angles with
  | M :: ladder', a :: tl', (ct, phi) :: angles' =>
      gen_momentum M ladder' tl' angles' (gen_step M prev a ct phi p_list)
  | _, _, _ => p_list
  end.
Definition event (m0 a0 : R) (tl Ms : list R) (angles : list (R * R)) : list vec4 :=
  gen_momentum a0 (Ms ++ [m0]) tl angles [].

(* generate :93-131, force = True: accepted batches are concatenated until at least N, then cut to N.
   The accepted events of each batch are an oracle (they depend on the RNG). *)
Definition generate_out {A : Type} (N : nat) (batches : list (list A)) : list A := firstn N (concat batches).

Fixpoint sum4 (l : list vec4) : vec4 := match l with [] => zero4 | p :: l' => add4 p (sum4 l') end.

(* a valid ladder: every step has non-negative Q, within the ranges used for the bound.
   lo = a0 + ... + a_i (minimum of M_i), hi = maximum of M_{i+1} *)
Fixpoint ladder_valid (prev : R) (ladder tl : list R) : Prop :=
  match ladder, tl with
  | M :: ladder', a :: tl' => 0 <= a /\ prev + a <= M /\ ladder_valid M ladder' tl'
  | [], [] => True
  | _, _ => False
  end.

(* ------------------------------------------------------------------ predicates and auxiliary quantities used by the theorems *)
(* conditions on the boosts actually applied (steps after the first): parent of the step not massless and the
   recoil velocity outside the gamma2 guard of LorentzVector.boost *)
Fixpoint boosts_ok (prev : R) (ladder tl : list R) : Prop :=
  match ladder, tl with
  | M :: ladder', a :: tl' =>
      0 < prev /\ eps < get_p M prev a * get_p M prev a / (get_p M prev a * get_p M prev a + prev * prev) /\ boosts_ok M ladder' tl'
  | _, _ => True
  end.

Definition sq (x : R) : R := x * x.

Fixpoint upper_ok (emmax : R) (ladder tl : list R) : Prop :=
  match ladder, tl with
  | M :: ladder', a :: tl' => M <= emmax + a /\ upper_ok (emmax + a) ladder' tl'
  | _, _ => True
  end.

(* the sampled ladder respects its conditional ranges [a_i, b_i] (what generate_mass produces for 0 <= u <= 1)
   and the unconditional ranges [amin_i, b_i] are non-degenerate *)
Fixpoint ranges_respected (m0 m_n mlow sm : R) (tl Ms : list R) : Prop :=
  match tl, Ms with
  | a1 :: ((a2 :: _) as rest), M :: Ms' =>
      m_n + a1 <= m0 - sm /\ mlow + a1 < m0 - sm /\ m_n + a1 <= M /\ ranges_respected m0 M (mlow + a1) (sm - a2) rest Ms'
  | _, _ => True
  end.

Fixpoint density_aux (m0 m_n sm : R) (tl Ms : list R) : R :=
  match tl, Ms with
  | a1 :: ((a2 :: _) as rest), M :: Ms' => / (m0 - sm - (m_n + a1)) * density_aux m0 M (sm - a2) rest Ms'
  | _, _ => 1
  end.

Fixpoint cprod (m0 sm : R) (tl : list R) (rng : list (R * R)) : R :=
  match tl, rng with
  | a1 :: ((a2 :: _) as rest), (amin, _) :: rng' => / (m0 - sm - amin) * cprod m0 (sm - a2) rest rng'
  | _, _ => 1
  end.

Fixpoint ladder_inside (m0 m_n sm : R) (tl Ms : list R) : Prop :=
  match tl, Ms with
  | a1 :: ((a2 :: _) as rest), M :: Ms' => m_n + a1 < m0 - sm /\ ladder_inside m0 M (sm - a2) rest Ms'
  | _, _ => True
  end.

(* proposal density of the sampled ladder x importance factor = a constant of the mass set *)
Definition proposal_density (m0 a0 : R) (tl Ms : list R) : R := density_aux m0 a0 (sm0 tl) tl Ms.

Definition lips_const (m0 a0 : R) (tl : list R) : R :=
  match tl with
  | a1 :: ((a2 :: _) as rest) =>
      match mass_ranges m0 a0 tl with
      | _ :: rng' => / (m0 - sm0 tl - (a0 + a1)) * cprod m0 (sm0 tl - a2) rest rng'
      | [] => 1
      end
  | _ => 1
  end / wt_max m0 a0 tl.

(* ------------------------------------------------------------------ cal_max_weight (phasespace.py, after the repair of the
   hunt round: scan of uniform proposals, optimiser started from the best one, result never below the scan).
   Relative weights are weights under the stored bound wt0 (the analytic w_max of set_decay):
     ws = relative weights of the scanned proposals, w0 = max ws, the optimiser (scipy L-BFGS-B: an ORACLE) returns
     r = w(x_opt) / w0; the code stores   m_wtMax := wt0 * (max(1, r) * w0 * 1.001). *)
Fixpoint rmaxl (l : list R) : R := match l with [] => 0 | x :: l' => rmax x (rmaxl l') end.
Definition cal_max_new (wt0 : R) (ws : list R) (r : R) : R := wt0 * (rmax 1 r * rmaxl ws * (1001 / 1000)).
(* the code before the repair: ONE optimiser run from one random proposal; r = relative weight at the optimiser's result *)
Definition cal_max_old (wt0 r : R) : R := wt0 * (r * (1001 / 1000)).
(* weight of a ladder of relative weight w (under wt0) after the bound has been replaced by wnew *)
Definition reweight (wt0 wnew w : R) : R := w * wt0 / wnew.

(* ------------------------------------------------------------------ set_decay as a state update.  The state the other methods
   read: m0, m_mass, sum_mass, m_nt (mass_range, m_wtMax are functions of these: mass_ranges / wt_max above). *)
Record gen_state : Type := GS { g_m0 : R; g_mass : list R; g_sum : R; g_nt : nat }.
Definition init_state (m0 : R) (mass : list R) : gen_state := GS m0 mass (rsum mass) (length mass).
(* after the repair: set_decay resets m_mass and recomputes sum_mass (mass_range, mass_generator) *)
Definition set_decay_new (st : gen_state) (m0 : R) (mass : list R) : gen_state := GS m0 mass (rsum mass) (length mass).
(* before: m_mass appended, sum_mass (and mass_range) kept from __init__ *)
Definition set_decay_old (st : gen_state) (m0 : R) (mass : list R) : gen_state := GS m0 (g_mass st ++ mass) (g_sum st) (length mass).

(* ------------------------------------------------------------------ config_loader/sample.py build_phsp_chain: which common inner
   node is generated with a fixed mass.  parts = for every decay chain of the group (is the particle at this node a
   constant "one" model?, its mass).  After the repair: all chains constant with one and the same mass. *)
Definition same_mass (m : R) (p : bool * R) : bool := if Req_EM_T (snd p) m then true else false.
Definition nest_node (parts : list (bool * R)) : option R :=
  match parts with
  | [] => None
  | (_, m) :: _ => if andb (forallb fst parts) (forallb (same_mass m) parts) then Some m else None
  end.
(* before: the first chain decides *)
Definition nest_node_old (parts : list (bool * R)) : option R :=
  match parts with
  | (true, m) :: _ => Some m
  | _ => None
  end.
