(* C20 model, part 2: half-open bins, adaptive splitting, weighted histograms.
   Definitions only (lemmas: Bins_proofs.v).  Everything is over exact rationals Q (every
   float is a dyadic rational), so masks and sums are evaluated exactly inside Coq.

     tf_pwa/adaptive_bins.py  AdaptiveBound.single_split_bound / multi_split_bound /
                              loop_split_bound / base_bound / get_bool_mask / split_data
     tf_pwa/histogram.py      Hist1D.histogram (np.histogram semantics + weighted errors),
                              Hist1D.__add__ / __sub__ (_sum_error)

   The rule that places an upper edge above a percentile / the maximum is an oracle [up]
   (theorems: any up with x < up x, monotone).  The code AS IT IS is the instance
   [up_old] = x + 1e-6 (an ABSOLUTE pad: open finding AdaptiveBound.base_bound /
   absolute-1e-6-pad - lost in float32 above 32 and float64 above 1.7e10, unbalancing for
   data finer than 1e-6).  [up_ref] (next float above x) is the ideal rule in exact arithmetic;
   as a code change it is NOT sufficient on its own: the float rounding of np.percentile's
   virtual index (pos = 3.9999999999999996 for rank 4) then puts the node on the wrong side,
   which the absolute pad happens to absorb for data of size O(1).
   The error of a sum of histograms (after the repair of Hist1D.__add__/__sub__: _sum_error)
   ignores the infinite error of an empty component.   *)
From Coq Require Import QArith Qabs Qround ZArith List Bool.
Import ListNotations.
Local Open Scope Q_scope.

Definition qltb (x y : Q) : bool := negb (Qle_bool y x).

(* idx_data >= lb  and  idx_data < rb *)
Definition in_ho (x lo hi : Q) : bool := Qle_bool lo x && qltb x hi.

(* ---- one-dimensional chain of half-open bins over the edge list b_0 .. b_n ---- *)
Fixpoint bin_flags (x : Q) (es : list Q) : list bool :=
  match es with
  | a :: ((b :: _) as tl) => in_ho x a b :: bin_flags x tl
  | _ => []
  end.
Fixpoint count_true (l : list bool) : nat :=
  match l with [] => 0%nat | b :: t => ((if b then 1 else 0) + count_true t)%nat end.
Fixpoint qsorted (es : list Q) : Prop :=
  match es with a :: ((b :: _) as tl) => a <= b /\ qsorted tl | _ => True end.
Definition qlast (es : list Q) : Q := last es 0.
Definition qhd (es : list Q) : Q := hd 0 es.

(* ---- boxes: one (lb, rb) per dimension;  a point is its coordinate list ---- *)
Definition box := list (Q * Q).
Definition point := list Q.

(* get_bool_mask: idx_data = data[:D];  all over the D dimensions of  lb <= x < rb *)
Fixpoint in_box (x : point) (bx : box) : bool :=
  match bx with
  | [] => true
  | (l, r) :: b' => match x with [] => false | xi :: x' => in_ho xi l r && in_box x' b' end
  end.
Definition bool_mask (boxes : list box) (pts : list point) : list (list bool) :=
  map (fun bx => map (fun p => in_box p bx) pts) boxes.
Definition count_in (x : point) (boxes : list box) : nat :=
  count_true (map (in_box x) boxes).

(* single_split_bound with base_bound = (lo, hi) and cut values c_1 .. c_{n-1}:
   [(lo, c_1), (c_1, c_2), ..., (c_{n-1}, hi)] *)
Fixpoint chain_bounds (lo hi : Q) (cuts : list Q) : list (Q * Q) :=
  match cuts with
  | [] => [(lo, hi)]
  | c :: cs => (lo, c) :: chain_bounds c hi cs
  end.
Fixpoint set_nth {T} (i : nat) (v : T) (l : list T) : list T :=
  match l, i with
  | [], _ => []
  | _ :: t, O => v :: t
  | h :: t, S i' => h :: set_nth i' v t
  end.
Definition box_lo (bx : box) (idx : nat) : Q := fst (nth idx bx (0, 0)).
Definition box_hi (bx : box) (idx : nat) : Q := snd (nth idx bx (0, 0)).
Definition split_box (bx : box) (idx : nat) (cuts : list Q) : list box :=
  map (fun lr => set_nth idx lr bx) (chain_bounds (box_lo bx idx) (box_hi bx idx) cuts).

Definition eps6 : Q := 1 # 1000000.

(* the adaptive splitting itself, np.percentile being an oracle *)
Section Adaptive.
Variable pct : list Q -> nat -> nat -> Q.   (* pct data j n = np.percentile(data, j/n*100) *)
Variable up : Q -> Q.                       (* upper-edge rule: the code uses up x = x + 1e-6 (up_old) *)

(* num_rb = _next_up(np.percentile(data, j / n * 100))   for j = 1 .. n-1 *)
Definition cuts_of (col : list Q) (n : nat) : list Q :=
  map (fun j => up (pct col j n)) (seq 1 (n - 1)).
Definition column (idx : nat) (pts : list point) : list Q := map (fun p => nth idx p 0) pts.

(* one (bound, data) pair of multi_split_bound's chain is split along dimension idx *)
Definition split_one (idx n : nat) (bd : box * list point) : list (box * list point) :=
  let bx := fst bd in
  let pts := snd bd in
  map (fun lr => (set_nth idx lr bx,
                  filter (fun p => in_ho (nth idx p 0) (fst lr) (snd lr)) pts))
      (chain_bounds (box_lo bx idx) (box_hi bx idx) (cuts_of (column idx pts) n)).

(* multi_split_bound: for idx, size in enumerate(n) *)
Fixpoint multi_split_from (idx : nat) (ns : list nat) (chain : list (box * list point))
  : list (box * list point) :=
  match ns with
  | [] => chain
  | n :: ns' => multi_split_from (S idx) ns' (flat_map (split_one idx n) chain)
  end.
(* loop_split_bound: for size in n: every pair is split by multi_split_bound *)
Fixpoint loop_split (nss : list (list nat)) (chain : list (box * list point))
  : list (box * list point) :=
  match nss with
  | [] => chain
  | ns :: nss' => loop_split nss' (multi_split_from 0 ns chain)
  end.

(* the conditions on the oracle's answers met along the run: at every node the cut values
   lie in order between the bounds of the box that is split *)
Definition node_ok (idx n : nat) (bd : box * list point) : Prop :=
  (idx < length (fst bd))%nat /\
  qsorted (box_lo (fst bd) idx :: cuts_of (column idx (snd bd)) n ++ [box_hi (fst bd) idx]).
Fixpoint multi_ok (idx : nat) (ns : list nat) (chain : list (box * list point)) : Prop :=
  match ns with
  | [] => True
  | n :: ns' => Forall (node_ok idx n) chain /\ multi_ok (S idx) ns' (flat_map (split_one idx n) chain)
  end.
Fixpoint loop_ok (nss : list (list nat)) (chain : list (box * list point)) : Prop :=
  match nss with
  | [] => True
  | ns :: nss' => multi_ok 0 ns chain /\ loop_ok nss' (multi_split_from 0 ns chain)
  end.
End Adaptive.

(* base_bound: (min - 1e-6, _next_up(max)) per dimension *)
Fixpoint qmin_from (m : Q) (l : list Q) : Q :=
  match l with [] => m | x :: t => qmin_from (if Qle_bool x m then x else m) t end.
Fixpoint qmax_from' (m : Q) (l : list Q) : Q :=
  match l with [] => m | x :: t => qmax_from' (if Qle_bool m x then x else m) t end.
Definition qmin_l (l : list Q) : Q := match l with [] => 0 | x :: t => qmin_from x t end.
Definition qmax_l (l : list Q) : Q := match l with [] => 0 | x :: t => qmax_from' x t end.
Definition base_bound (up : Q -> Q) (ndim : nat) (pts : list point) : box :=
  map (fun d => (qmin_l (map (fun p => nth d p 0) pts) - eps6,
                 up (qmax_l (map (fun p => nth d p 0) pts)))) (seq 0 ndim).

(* instances of the oracle [up]:
   up_old = the code as it is (absolute pad + 1e-6 on every upper edge);
   up_ref = the ideal rule (next float): x + |x| 2^-53 + tiny lies strictly above x and
            at or above the next float64 (tiny < smallest denormal 2^-1074 covers x = 0) *)
Definition up_old (x : Q) : Q := x + eps6.
Definition tiny : Q := Qmake 1 (2 ^ 1080)%positive.
Definition up_ref (x : Q) : Q := x + Qabs x * (1 # 9007199254740992) + tiny.

(* equal-population rule for distinct values: each child of a parent with m events split
   in n holds within one of m/n events:  |n*c - m| <= n *)
Definition pop_within_one (m n c : Z) : bool := (Z.abs (n * c - m) <=? n)%Z.

(* ---- np.histogram semantics: half-open bins, the last one closed on the right ---- *)
Definition in_closed (x lo hi : Q) : bool := Qle_bool lo x && Qle_bool x hi.
Fixpoint np_flags (x : Q) (es : list Q) : list bool :=
  match es with
  | a :: ((b :: tl') as tl) =>
      (match tl' with [] => in_closed x a b | _ :: _ => in_ho x a b end) :: np_flags x tl
  | _ => []
  end.
Fixpoint qsum (l : list Q) : Q := match l with [] => 0 | x :: t => x + qsum t end.
Fixpoint vadd (a b : list Q) : list Q :=
  match a, b with x :: a', y :: b' => (x + y) :: vadd a' b' | _, _ => [] end.
Definition hist_row (flags : list bool) (w : Q) : list Q := map (fun f : bool => if f then w else 0) flags.
Definition zeros (n : nat) : list Q := repeat 0 n.
(* count[i] = sum of the weights of the events in bin i;  evs = [(value, weight)] *)
Fixpoint hist (es : list Q) (evs : list (Q * Q)) : list Q :=
  match evs with
  | [] => zeros (length es - 1)
  | e :: evs' => vadd (hist_row (np_flags (fst e) es) (snd e)) (hist es evs')
  end.
Definition sq_w (evs : list (Q * Q)) : list (Q * Q) := map (fun e => (fst e, snd e * snd e)) evs.
Definition unit_w (evs : list (Q * Q)) : list (Q * Q) := map (fun e => (fst e, 1)) evs.
(* Hist1D.histogram: count = hist w; error^2 = where(unweighted count == 0, mask_error, hist w^2) *)
Definition hist_err2 (mask_error : Q) (es : list Q) (evs : list (Q * Q)) : list Q :=
  map (fun cn => if Qeq_bool (snd cn) 0 then mask_error else fst cn)
      (combine (hist es (sq_w evs)) (hist es (unit_w evs))).
Definition in_range (es : list Q) (x : Q) : Prop := qhd es <= x /\ x <= qlast es.

(* ---- evaluation helpers for the correspondence ---- *)
Fixpoint bool_list_eqb (a b : list bool) : bool :=
  match a, b with
  | [], [] => true
  | x :: a', y :: b' => Bool.eqb x y && bool_list_eqb a' b'
  | _, _ => false
  end.
Fixpoint mask_eqb (a b : list (list bool)) : bool :=
  match a, b with
  | [], [] => true
  | x :: a', y :: b' => bool_list_eqb x y && mask_eqb a' b'
  | _, _ => false
  end.
Definition all_once (boxes : list box) (pts : list point) : bool :=
  forallb (fun p => Nat.eqb (count_in p boxes) 1) pts.
Fixpoint qlist_within (a b : list Q) (atol : Q) : bool :=
  match a, b with
  | [], [] => true
  | x :: a', y :: b' => Qle_bool (Qabs (x - y)) atol && qlist_within a' b' atol
  | _, _ => false
  end.
(* chain structure of the implementation's own bounds: split_box of the parent with the
   cut values read off the children *)
Fixpoint box_eqb (a b : box) : bool :=
  match a, b with
  | [], [] => true
  | (l, r) :: a', (l', r') :: b' => Qeq_bool l l' && Qeq_bool r r' && box_eqb a' b'
  | _, _ => false
  end.
Fixpoint boxes_eqb (a b : list box) : bool :=
  match a, b with
  | [], [] => true
  | x :: a', y :: b' => box_eqb x y && boxes_eqb a' b'
  | _, _ => false
  end.

(* reference instance of the percentile oracle: numpy's default ('linear') method on exact
   rationals - virtual index j/n*(m-1), linear interpolation between the two neighbours *)
Fixpoint qinsert (x : Q) (l : list Q) : list Q :=
  match l with [] => [x] | y :: t => if Qle_bool x y then x :: l else y :: qinsert x t end.
Definition qsort (l : list Q) : list Q := fold_right qinsert [] l.
Definition qpercentile (col : list Q) (j n : nat) : Q :=
  let s := qsort col in
  let pos := inject_Z (Z.of_nat j) / inject_Z (Z.of_nat n) * inject_Z (Z.of_nat (length col) - 1) in
  let i := Z.to_nat (Qfloor pos) in
  let fr := pos - inject_Z (Qfloor pos) in
  nth i s 0 + fr * (nth (S i) s (nth i s 0) - nth i s 0).

(* whole-case checks used by the correspondence *)
Fixpoint boxes_within (a b : list box) (atol : Q) : bool :=
  match a, b with
  | [], [] => true
  | x :: a', y :: b' =>
      qlist_within (map fst x) (map fst y) atol && qlist_within (map snd x) (map snd y) atol
      && boxes_within a' b' atol
  | _, _ => false
  end.
(* the implementation's bounds equal the model's split of the same data (percentile = reference
   instance), its masks equal the model's masks on its own bounds, every base event lies in
   exactly one bin *)
Definition adaptive_case_ok_gen (up : Q -> Q) (ndim : nat) (nss : list (list nat)) (pts : list point)
  (impl_boxes : list box) (impl_masks : list (list bool)) (probe : list point)
  (probe_masks : list (list bool)) (atol : Q) : bool :=
  boxes_within (map fst (loop_split qpercentile up nss [(base_bound up ndim pts, pts)])) impl_boxes atol
  && mask_eqb (bool_mask impl_boxes pts) impl_masks
  && all_once impl_boxes pts
  && mask_eqb (bool_mask impl_boxes probe) probe_masks
  && forallb (fun p => Nat.leb (count_in p impl_boxes) 1) probe.
(* the code as it is: upper edges padded by + 1e-6, i.e. up = up_old (used by the harness) *)
Definition adaptive_case_ok (ndim : nat) (nss : list (list nat)) (pts : list point)
  (impl_boxes : list box) (impl_masks : list (list bool)) (probe : list point)
  (probe_masks : list (list bool)) : bool :=
  adaptive_case_ok_gen up_old ndim nss pts impl_boxes impl_masks probe probe_masks (1 # 1000000000000).
(* candidate rule "next float above" (not the code; kept for a future repair): instance up_ref, tolerance from the caller *)
Definition adaptive_case_ok2 (ndim : nat) (nss : list (list nat)) (pts : list point)
  (impl_boxes : list box) (impl_masks : list (list bool)) (probe : list point)
  (probe_masks : list (list bool)) (atol : Q) : bool :=
  adaptive_case_ok_gen up_ref ndim nss pts impl_boxes impl_masks probe probe_masks atol.

(* Hist1D.histogram: counts, squared errors on populated bins, inf-mask on empty bins *)
Fixpoint err2_ok (model : list Q) (unw : list Q) (errs : list Q) (empty : list bool) (atol : Q) : bool :=
  match model, unw, errs, empty with
  | [], [], [], [] => true
  | m :: model', c :: unw', e :: errs', f :: empty' =>
      (if f then Qeq_bool c 0 else negb (Qeq_bool c 0) && Qle_bool (Qabs (e * e - m)) atol)
      && err2_ok model' unw' errs' empty' atol
  | _, _, _, _ => false
  end.
Definition hist_case_ok (es : list Q) (evs : list (Q * Q)) (counts errs : list Q)
  (empty : list bool) (atol atol2 : Q) : bool :=
  qlist_within (hist es evs) counts atol
  && err2_ok (hist es (sq_w evs)) (hist es (unit_w evs)) errs empty atol2.

(* ---- Hist1D.__add__ / __sub__ (after the repair: _sum_error) ----
   an empty bin of Hist1D.histogram carries error = inf; flag = "error is inf".
   errors are squared here. *)
Definition hist_empty (es : list Q) (evs : list (Q * Q)) : list bool :=
  map (fun c => Qeq_bool c 0) (hist es (unit_w evs)).
(* e1 = where(isinf(e1), 0, e1) ... sqrt(e1^2 + e2^2) *)
Definition add_err2 (e1 e2 : Q) (f1 f2 : bool) : Q := (if f1 then 0 else e1) + (if f2 then 0 else e2).
Fixpoint hist_add_err2 (e1 e2 : list Q) (f1 f2 : list bool) : list Q :=
  match e1, e2, f1, f2 with
  | x :: e1', y :: e2', a :: f1', b :: f2' => add_err2 x y a b :: hist_add_err2 e1' e2' f1' f2'
  | _, _, _, _ => []
  end.
Fixpoint bzip (op : bool -> bool -> bool) (a b : list bool) : list bool :=
  match a, b with x :: a', y :: b' => op x y :: bzip op a' b' | _, _ => [] end.
(* both = isinf(e1) & isinf(e2): the sum is empty only where both components are *)
Definition hist_add_empty (f1 f2 : list bool) : list bool := bzip andb f1 f2.
(* OLD rule: sqrt(e1^2 + e2^2) with inf propagating: empty where either component is *)
Definition hist_add_empty_old (f1 f2 : list bool) : list bool := bzip orb f1 f2.

Definition vsub (a b : list Q) : list Q := vadd a (map Qopp b).
Fixpoint add_err2_ok (model errs : list Q) (fs : list bool) (atol2 : Q) : bool :=
  match model, errs, fs with
  | [], [], [] => true
  | m :: model', e :: errs', f :: fs' =>
      (if f then true else Qle_bool (Qabs (e * e - m)) atol2) && add_err2_ok model' errs' fs' atol2
  | _, _, _ => false
  end.
(* c = counts, e = errors (not squared; 0 passed on a flagged bin), f = "error is inf";
   sign = true for __add__, false for __sub__;  (cs, es, fs) = the implementation's result *)
Definition hist_add_case_ok (c1 e1 : list Q) (f1 : list bool) (c2 e2 : list Q) (f2 : list bool)
  (sign : bool) (cs es : list Q) (fs : list bool) (atol atol2 : Q) : bool :=
  let n := length cs in
  forallb (Nat.eqb n) [length c1; length e1; length f1; length c2; length e2; length f2;
                       length es; length fs]
  && qlist_within (if sign then vadd c1 c2 else vsub c1 c2) cs atol
  && bool_list_eqb fs (hist_add_empty f1 f2)
  && add_err2_ok (hist_add_err2 (map (fun e => e * e) e1) (map (fun e => e * e) e2) f1 f2) es fs atol2.
