(* Samp/PhaseSpace_proofs.v — lemmas about Samp/PhaseSpace.v *)
From Coq Require Import Reals Lra List Lia.
From TFV Require Import Base.RBase Kin.Boost Kin.Boost_proofs Samp.PhaseSpace.
Import ListNotations.
Open Scope R_scope.

(* ------------------------------------------------------------------ counts *)
Theorem generate_count {A : Type} (N : nat) (batches : list (list A)) :
  (N <= length (concat batches))%nat -> length (generate_out N batches) = N.
Proof. intros H. unfold generate_out. apply firstn_length_le. exact H. Qed.

Theorem generate_count_short {A : Type} (N : nat) (batches : list (list A)) :
  (length (concat batches) <= N)%nat -> generate_out N batches = concat batches.
Proof. intros H. unfold generate_out. apply firstn_all2. exact H. Qed.
